/-
Lemmas/C20Spin0Poly.lean — bridge between the coefficient-list polynomials of
Spec/Harm.lean (`padd`, `pscale`, `pmul`, `ppow`, `pderiv`, `pderivN`,
`legendre`, `legendreDeriv`) and Mathlib's `Polynomial ℚ`, and the Leibniz
expansion of the Rodrigues formula:

  peval (legendreDeriv l μ) x
    = 1/(2^l l!) · Σ_{k ≤ l+μ} C(l+μ,k) · [l^{(l+μ−k)} (x+1)^{l−(l+μ−k)}] · [l^{(k)} (x−1)^{l−k}]

(`n^{(k)}` = `Nat.descFactorial n k`).  Nothing of Spec/Harm.lean is changed.
-/
import Mathlib.Algebra.Polynomial.Derivative
import Mathlib.Algebra.Polynomial.AlgebraMap
import Mathlib.Algebra.Algebra.Rat
import Mathlib.Tactic.Ring
import Mathlib.Tactic.LinearCombination
import AurelVerif.Lemmas.HarmLegendre

namespace AurelVerif.HarmLemmas
open AurelVerif.HarmSpec Polynomial

/-- the Mathlib polynomial `Σ aᵢ Xⁱ` of a coefficient list (lowest degree first). -/
noncomputable def toPoly (p : List ℚ) : ℚ[X] :=
  p.foldr (fun a acc => C a + X * acc) 0

@[simp] theorem toPoly_nil : toPoly [] = 0 := rfl

@[simp] theorem toPoly_cons (a : ℚ) (p : List ℚ) : toPoly (a :: p) = C a + X * toPoly p := rfl

theorem spec_factorial_eq (n : Nat) : HarmSpec.factorial n = n.factorial := by
  induction n with
  | zero => rfl
  | succ n ih => simp [HarmSpec.factorial, Nat.factorial_succ, ih]

theorem toPoly_padd (p q : List ℚ) : toPoly (padd p q) = toPoly p + toPoly q := by
  induction p generalizing q with
  | nil => simp [padd]
  | cons a p ih =>
    cases q with
    | nil => simp [padd]
    | cons b q =>
      simp only [padd, toPoly_cons, ih, C_add]
      ring

theorem toPoly_pscale (a : ℚ) (p : List ℚ) : toPoly (pscale a p) = C a * toPoly p := by
  induction p with
  | nil => simp [pscale]
  | cons b p ih =>
    have : pscale a (b :: p) = (a * b) :: pscale a p := rfl
    rw [this, toPoly_cons, toPoly_cons, ih, C_mul]
    ring

theorem toPoly_pmul (p q : List ℚ) : toPoly (pmul p q) = toPoly p * toPoly q := by
  induction p with
  | nil => simp [pmul]
  | cons a p ih =>
    simp only [pmul, toPoly_padd, toPoly_pscale, toPoly_cons, ih, C_0]
    ring

theorem toPoly_ppow (p : List ℚ) (n : Nat) : toPoly (ppow p n) = toPoly p ^ n := by
  induction n with
  | zero => simp [ppow]
  | succ n ih => simp only [ppow, toPoly_pmul, ih, pow_succ]; ring

theorem toPoly_pderivAux (i : Nat) (p : List ℚ) :
    toPoly (pderivAux i p) = C (i : ℚ) * toPoly p + X * derivative (toPoly p) := by
  induction p generalizing i with
  | nil => simp [pderivAux]
  | cons a p ih =>
    simp only [pderivAux, toPoly_cons, ih, derivative_add, derivative_C, derivative_mul,
      derivative_X, C_mul, Nat.cast_add, Nat.cast_one, C_add, C_1]
    ring

theorem toPoly_pderiv (p : List ℚ) : toPoly (pderiv p) = derivative (toPoly p) := by
  cases p with
  | nil => simp [pderiv]
  | cons a p =>
    simp only [pderiv, toPoly_pderivAux, toPoly_cons, derivative_add, derivative_C,
      derivative_mul, derivative_X, Nat.cast_one, C_1]
    ring

theorem toPoly_pderivN (n : Nat) (p : List ℚ) :
    toPoly (pderivN n p) = derivative^[n] (toPoly p) := by
  induction n generalizing p with
  | zero => rfl
  | succ n ih => rw [pderivN, ih, toPoly_pderiv, Function.iterate_succ_apply]

/-- Horner evaluation of a coefficient list is `aeval` of its polynomial. -/
theorem peval_eq_aeval {K : Type} [Field K] [CharZero K] (p : List ℚ) (x : K) :
    peval p x = aeval x (toPoly p) := by
  induction p with
  | nil => simp [peval]
  | cons a p ih =>
    have : peval (a :: p) x = ((a : ℚ) : K) + x * peval p x := rfl
    rw [this, ih, toPoly_cons]
    simp [eq_ratCast]

theorem toPoly_base : toPoly [-1, 0, 1] = (X + C 1) * (X - C 1) := by
  simp only [toPoly_cons, toPoly_nil, C_0, C_1, C_neg]
  ring

/-- Rodrigues: `d^μ/dx^μ P_l = 1/(2^l l!) · d^{l+μ}/dx^{l+μ} ((x+1)^l (x−1)^l)`. -/
theorem toPoly_legendreDeriv (l μ : Nat) :
    toPoly (legendreDeriv l μ)
      = C (1 / ((2 : ℚ) ^ l * (l.factorial : ℚ)))
          * derivative^[l + μ] ((X + C 1) ^ l * (X - C 1) ^ l) := by
  unfold legendreDeriv legendre
  rw [toPoly_pderivN, toPoly_pscale, iterate_derivative_C_mul, toPoly_pderivN, toPoly_ppow,
    toPoly_base, mul_pow, ← Function.iterate_add_apply, spec_factorial_eq, Nat.add_comm μ l]

/-- Leibniz expansion of the Rodrigues formula in `ℚ[X]`. -/
theorem toPoly_legendreDeriv_sum (l μ : Nat) :
    toPoly (legendreDeriv l μ)
      = C (1 / ((2 : ℚ) ^ l * (l.factorial : ℚ)))
          * ∑ k ∈ Finset.range (l + μ + 1),
              ((l + μ).choose k : ℚ[X])
                * (((l.descFactorial (l + μ - k) : ℕ) : ℚ[X]) * (X + C 1) ^ (l - (l + μ - k))
                  * (((l.descFactorial k : ℕ) : ℚ[X]) * (X - C 1) ^ (l - k))) := by
  rw [toPoly_legendreDeriv, iterate_derivative_mul]
  congr 1
  apply Finset.sum_congr rfl
  intro k _
  rw [iterate_derivative_X_add_pow, iterate_derivative_X_sub_pow, nsmul_eq_mul, nsmul_eq_mul,
    nsmul_eq_mul]

/-- the value of `d^μ/dx^μ P_l` at a point of a field of characteristic 0. -/
theorem peval_legendreDeriv {K : Type} [Field K] [CharZero K] (l μ : Nat) (x : K) :
    peval (legendreDeriv l μ) x
      = (1 / ((2 : K) ^ l * (l.factorial : K)))
          * ∑ k ∈ Finset.range (l + μ + 1),
              ((l + μ).choose k : K)
                * (((l.descFactorial (l + μ - k) : ℕ) : K) * (x + 1) ^ (l - (l + μ - k))
                  * (((l.descFactorial k : ℕ) : K) * (x - 1) ^ (l - k))) := by
  rw [peval_eq_aeval, toPoly_legendreDeriv_sum]
  simp only [map_mul, map_sum, map_pow, map_add, map_sub, map_natCast, aeval_X, aeval_C,
    map_one, eq_ratCast]
  push_cast
  rfl

/-! ### non-vacuity: the bridge on concrete lists -/

example : toPoly [3, 0, 2] = C 3 + X * (C 0 + X * (C 2 + X * 0)) := rfl

example : peval (legendreDeriv 2 1) (5 : ℚ) = 15 := by decide +kernel

example : legendreDeriv 3 1 = [-3 / 2, 0, 15 / 2] := by decide +kernel

end AurelVerif.HarmLemmas
