/-
Lemmas/C17JetCalc.lean — calculus helper for the C17 Einstein files: a partial derivative at a point
with `t > 0` only depends on the function on the half space `t > 0` (open), so a closed form of a
metric component that is valid for `t > 0` may be differentiated instead of the component itself.
-/
import AurelVerif.Spec.MetricJet
import Mathlib.Topology.Order.OrderClosed
import Mathlib.Analysis.Calculus.Deriv.Basic
import Mathlib.Tactic.FinCases

namespace AurelVerif.C17JetCalc
open AurelVerif.Spec.Jet4

theorem hasPartialAt_congr_pos {f g : ℝ → ℝ → ℝ → ℝ → ℝ}
    (h : ∀ t x y z, 0 < t → f t x y z = g t x y z) {c : Fin 4} {v t x y z : ℝ} (ht : 0 < t)
    (hg : HasPartialAt g c v t x y z) : HasPartialAt f c v t x y z := by
  fin_cases c
  · show HasDerivAt (fun s => f s x y z) v t
    refine HasDerivAt.congr_of_eventuallyEq (f := fun s => g s x y z) hg ?_
    filter_upwards [Ioi_mem_nhds ht] with s hs
    exact h s x y z hs
  · have e : (fun s => f t s y z) = fun s => g t s y z := funext fun s => h t s y z ht
    show HasDerivAt (fun s => f t s y z) v x
    rw [e]; exact hg
  · have e : (fun s => f t x s z) = fun s => g t x s z := funext fun s => h t x s z ht
    show HasDerivAt (fun s => f t x s z) v y
    rw [e]; exact hg
  · have e : (fun s => f t x y s) = fun s => g t x y s := funext fun s => h t x y s ht
    show HasDerivAt (fun s => f t x y s) v z
    rw [e]; exact hg

end AurelVerif.C17JetCalc
