/-
Lemmas/C02Containers.lean — what a finished activation of ANY function may have changed, read off
its summary, for both version counters (`aver`: array contents, `cver`: any in-place change,
container structure included).  Generalises `check_sound_helpers_lemma` (which is the `aver`
half for functions whose `fnOK` excludes atom 0) and `check_sound_containers_lemma` (which needs
the `strict` / `cpub` flags): here the conclusion is stated per atom of the summary, so that a
function that is allowed to update ONE of its arguments (process_single_timestep: its `data`
dict) still gets a theorem about all the others.
-/
import AurelVerif.Lemmas.Heap

namespace AurelVerif.Heap

theorem getElem?_of_lt_fns {p : Program} {f : Nat} (hf : f < p.fns.length) :
    ∃ fn, p.fns[f]? = some fn :=
  ⟨p.fns[f], List.getElem?_eq_getElem hf⟩

/-- a pre-existing root whose version counter of kind `c` changed during a request of function `f`
is covered by an atom of `f`'s summary: atom 0 (anything), or an argument named by the summary -/
theorem check_sound_by_summary_lemma (p : Program) (S : List Summ) (hchk : checkWith p S = true)
    (f : FnId) (hf : f < p.fns.length) (c : Bool)
    (fuel : Nat) (args : List Val) (h : Heap) (ch : List Bool) (v : Val) (h' : Heap)
    (hreq : request p fuel f args h ch = some (v, h')) :
    ∀ r, r < h.next → h'.ver c r ≠ h.ver c r →
      0 ∈ (getE Summ.bot S f).mut c ∨
      ∃ i : Nat, (2 * i + 1 ∈ (getE Summ.bot S f).mut c ∧ r ∈ (getV args i).own) ∨
           (2 * i + 2 ∈ (getE Summ.bot S f).mut c ∧ r ∈ (getV args i).reach) := by
  obtain ⟨fn, hfn⟩ := getElem?_of_lt_fns hf
  obtain ⟨hc, hall⟩ := checkWith_spec hchk
  obtain ⟨hok, _, _, _, _⟩ := fnOK_spec (hall f fn hfn)
  obtain ⟨hver, _, _⟩ := request_sound hc hfn hok hreq
  intro r hr hne
  rcases hver c r hne with hge | ⟨a, ha, hh⟩
  · exact absurd hge (Nat.not_le_of_lt hr)
  · cases a with
    | zero => exact Or.inl ha
    | succ n =>
      right
      simp only [holds] at hh
      refine ⟨n / 2, ?_⟩
      by_cases hpar : n % 2 = 0
      · simp only [hpar, if_true] at hh
        left
        have : 2 * (n / 2) + 1 = n + 1 := by omega
        exact ⟨this ▸ ha, hh⟩
      · simp only [hpar, if_false] at hh
        right
        have : 2 * (n / 2) + 2 = n + 1 := by omega
        exact ⟨this ▸ ha, hh⟩

/-- summary says "changes nothing in place" (`mutC = []`): nothing that existed before the call is
changed in any way — arrays, lists, dicts, the argument objects themselves included -/
theorem untouched_of_mutC_nil (p : Program) (S : List Summ) (hchk : checkWith p S = true)
    (f : FnId) (hf : f < p.fns.length) (hm : (getE Summ.bot S f).mutC = [])
    (fuel : Nat) (args : List Val) (h : Heap) (ch : List Bool) (v : Val) (h' : Heap)
    (hreq : request p fuel f args h ch = some (v, h')) :
    ∀ r, r < h.next → h'.cver r = h.cver r := by
  intro r hr
  by_cases heq : h'.cver r = h.cver r
  · exact heq
  · have := check_sound_by_summary_lemma p S hchk f hf true fuel args h ch v h' hreq r hr
      (by simpa [Heap.ver] using heq)
    simp [Summ.mut, hm] at this

/-- summary says "in place, only the object passed as argument `i` itself" (`mutC = [2 i + 1]`):
every other pre-existing root is untouched -/
theorem only_argument_of_mutC_single (p : Program) (S : List Summ) (hchk : checkWith p S = true)
    (f : FnId) (hf : f < p.fns.length) (i : Nat) (hm : (getE Summ.bot S f).mutC = [2 * i + 1])
    (fuel : Nat) (args : List Val) (h : Heap) (ch : List Bool) (v : Val) (h' : Heap)
    (hreq : request p fuel f args h ch = some (v, h')) :
    ∀ r, r < h.next → h'.cver r ≠ h.cver r → r ∈ (getV args i).own := by
  intro r hr hne
  have := check_sound_by_summary_lemma p S hchk f hf true fuel args h ch v h' hreq r hr
    (by simpa [Heap.ver] using hne)
  rw [show (getE Summ.bot S f).mut true = [2 * i + 1] from by simp [Summ.mut, hm]] at this
  rcases this with h0 | ⟨j, ⟨hj, hmem⟩ | ⟨hj, _⟩⟩
  · have := List.mem_singleton.mp h0
    omega
  · have := List.mem_singleton.mp hj
    have : j = i := by omega
    exact this ▸ hmem
  · have := List.mem_singleton.mp hj
    omega

/-- `aver ≤ cver` in what they record: a function with `mutC = []` has `mutA = []` as far as the
heap is concerned — array contents of everything that existed before are unchanged too -/
theorem arrays_untouched_of_mutC_nil (p : Program) (S : List Summ) (hchk : checkWith p S = true)
    (f : FnId) (hf : f < p.fns.length) (hm : (getE Summ.bot S f).mutA = [])
    (fuel : Nat) (args : List Val) (h : Heap) (ch : List Bool) (v : Val) (h' : Heap)
    (hreq : request p fuel f args h ch = some (v, h')) :
    ∀ r, r < h.next → h'.aver r = h.aver r := by
  intro r hr
  by_cases heq : h'.aver r = h.aver r
  · exact heq
  · have := check_sound_by_summary_lemma p S hchk f hf false fuel args h ch v h' hreq r hr
      (by simpa [Heap.ver] using heq)
    simp [Summ.mut, hm] at this

end AurelVerif.Heap
