/-
Lemmas/C17EinRJ.lean — Rosquist_Jantzen (tilted Bianchi VI₀ γ-law fluid): all ten Einstein equations
`G_ab = κ T_ab` for the module's own `gdown4`, `Tdown4`, `kappa`, for all `t > 0`, where
`k ≠ 0` for the module constant `k` (a square root of an expression in `γ = 1.22`) is proven from
rational bounds on `√((9γ−1)(γ−1))`.  The identity holds for arbitrary values of the constants `k, m, s, q`:
the module's `Tdown4` is the Einstein tensor of its metric divided by `κ`.  The 2-jet is proven to
consist of the partial derivatives of the module's metric.
-/
import AurelVerif.Lemmas.C17JetRJ
import AurelVerif.Lemmas.Solutions
import AurelVerif.Lemmas.C17JetCalc
import Mathlib.Tactic.Linarith
import AurelVerif.Spec.MetricJet
import AurelVerif.Lemmas.C17DerivTac

set_option linter.unusedVariables false
set_option linter.unusedTactic false
set_option linter.unreachableTactic false
set_option linter.unusedSimpArgs false

namespace AurelVerif.C17Ein
open AurelVerif.Gen.Solutions AurelVerif.SolutionsLemmas AurelVerif.Spec.Jet4 AurelVerif.Spec.Curvature
open AurelVerif.C17JetTac AurelVerif.C17Jet AurelVerif.C17DerivTac

/-! ## Rosquist_Jantzen -/

/-- `1.4816 < √((9γ−1)(γ−1)) < 1.4818` for `γ = 1.22`. -/
theorem Rosquist_Jantzen_w_bounds : (7408:ℝ)/5000 < Real.sqrt ((9 * Rosquist_Jantzen.gamma - 1) * (Rosquist_Jantzen.gamma - 1)) ∧
    Real.sqrt ((9 * Rosquist_Jantzen.gamma - 1) * (Rosquist_Jantzen.gamma - 1)) < 7409/5000 := by
  unfold Rosquist_Jantzen.gamma
  constructor
  · rw [Real.lt_sqrt (by norm_num)]; norm_num
  · rw [Real.sqrt_lt' (by norm_num)]; norm_num

theorem Rosquist_Jantzen_q_bounds : -(2291:ℝ)/100000 < Rosquist_Jantzen.q ∧ Rosquist_Jantzen.q < -2289/100000 := by
  obtain ⟨h1, h2⟩ := Rosquist_Jantzen_w_bounds
  unfold Rosquist_Jantzen.q Rosquist_Jantzen.sign
  generalize Real.sqrt ((9 * Rosquist_Jantzen.gamma - 1) * (Rosquist_Jantzen.gamma - 1)) = w at h1 h2
  unfold Rosquist_Jantzen.gamma
  constructor
  · rw [lt_div_iff₀ (by norm_num)]; nlinarith
  · rw [div_lt_iff₀ (by norm_num)]; nlinarith

/-- the module constant `k` (a square root) is not zero: its radicand is positive. -/
theorem Rosquist_Jantzen_k_ne_zero : Rosquist_Jantzen.k ≠ 0 := by
  obtain ⟨h1, h2⟩ := Rosquist_Jantzen_q_bounds
  have hs : Rosquist_Jantzen.s = 39/122 := by unfold Rosquist_Jantzen.s Rosquist_Jantzen.gamma; norm_num
  unfold Rosquist_Jantzen.k
  rw [hs]
  generalize Rosquist_Jantzen.q = q at h1 h2
  apply ne_of_gt
  apply Real.sqrt_pos.mpr
  apply div_pos
  · nlinarith
  · apply mul_pos_of_neg_of_neg
    · nlinarith
    · nlinarith


/-- the jet: the family of Lemmas/C17JetRJ.lean at `U = t^(s−q)`, `V = t^(s+q)`, `E = eˣ` and the
module's constants `k, m, s, q`. -/
noncomputable def Rosquist_Jantzen_jet (t x y z : ℝ) : Jet2 ℝ :=
  RJ.jet t Rosquist_Jantzen.k Rosquist_Jantzen.m Rosquist_Jantzen.s Rosquist_Jantzen.q (t ^ (Rosquist_Jantzen.s - Rosquist_Jantzen.q)) (t ^ (Rosquist_Jantzen.s + Rosquist_Jantzen.q)) (Real.exp x)

theorem Rosquist_Jantzen_pows (t : ℝ) (ht : 0 < t) :
    t ^ ((1:ℝ) + Rosquist_Jantzen.s - Rosquist_Jantzen.q) = t * t ^ (Rosquist_Jantzen.s - Rosquist_Jantzen.q) ∧
    t ^ ((2:ℝ) * (Rosquist_Jantzen.s - Rosquist_Jantzen.q)) = (t ^ (Rosquist_Jantzen.s - Rosquist_Jantzen.q)) ^ 2 ∧
    t ^ ((2:ℝ) * (Rosquist_Jantzen.s + Rosquist_Jantzen.q)) = (t ^ (Rosquist_Jantzen.s + Rosquist_Jantzen.q)) ^ 2 ∧
    t ^ (-(2:ℝ) - Rosquist_Jantzen.q + Rosquist_Jantzen.s) = t ^ (Rosquist_Jantzen.s - Rosquist_Jantzen.q) / t ^ 2 ∧
    t ^ (-(1:ℝ) - Rosquist_Jantzen.q + Rosquist_Jantzen.s) = t ^ (Rosquist_Jantzen.s - Rosquist_Jantzen.q) / t ∧
    t ^ (-(2:ℝ) - (2:ℝ) * Rosquist_Jantzen.q + (2:ℝ) * Rosquist_Jantzen.s) = (t ^ (Rosquist_Jantzen.s - Rosquist_Jantzen.q)) ^ 2 / t ^ 2 ∧
    t ^ ((2:ℝ) * (-(1:ℝ) + Rosquist_Jantzen.q + Rosquist_Jantzen.s)) = (t ^ (Rosquist_Jantzen.s + Rosquist_Jantzen.q)) ^ 2 / t ^ 2 := by
  have htn := ht.ne'
  refine ⟨?_, ?_, ?_, ?_, ?_, ?_, ?_⟩
  · rw [show (1:ℝ) + Rosquist_Jantzen.s - Rosquist_Jantzen.q = 1 + (Rosquist_Jantzen.s - Rosquist_Jantzen.q) by ring, Real.rpow_add ht, Real.rpow_one]
  · rw [mul_comm, Real.rpow_mul ht.le, Real.rpow_two]
  · rw [mul_comm, Real.rpow_mul ht.le, Real.rpow_two]
  · rw [show -(2:ℝ) - Rosquist_Jantzen.q + Rosquist_Jantzen.s = (Rosquist_Jantzen.s - Rosquist_Jantzen.q) - 2 by ring, Real.rpow_sub ht, Real.rpow_two]
  · rw [show -(1:ℝ) - Rosquist_Jantzen.q + Rosquist_Jantzen.s = (Rosquist_Jantzen.s - Rosquist_Jantzen.q) - 1 by ring, Real.rpow_sub ht, Real.rpow_one]
  · rw [show -(2:ℝ) - (2:ℝ) * Rosquist_Jantzen.q + (2:ℝ) * Rosquist_Jantzen.s = (Rosquist_Jantzen.s - Rosquist_Jantzen.q) * 2 - 2 by ring, Real.rpow_sub ht,
      Real.rpow_mul ht.le, Real.rpow_two, Real.rpow_two]
  · rw [show (2:ℝ) * (-(1:ℝ) + Rosquist_Jantzen.q + Rosquist_Jantzen.s) = (Rosquist_Jantzen.s + Rosquist_Jantzen.q) * 2 - 2 by ring, Real.rpow_sub ht,
      Real.rpow_mul ht.le, Real.rpow_two, Real.rpow_two]

theorem Rosquist_Jantzen_exps (x : ℝ) :
    Real.exp ((2:ℝ) * x) = Real.exp x ^ 2 ∧ Real.exp (-(2:ℝ) * x) = (Real.exp x ^ 2)⁻¹ := by
  constructor
  · rw [← Real.exp_nat_mul]; norm_num
  · rw [show -(2:ℝ) * x = -((2:ℕ) * x) by push_cast; ring, Real.exp_neg, Real.exp_nat_mul]

theorem Rosquist_Jantzen_gdown4_closed (t x y z : ℝ) (ht : 0 < t) :
    Rosquist_Jantzen.gdown4_num t x y z = (Rosquist_Jantzen_jet t x y z).g := by
  obtain ⟨p1, p2, p3, -, -, -, -⟩ := Rosquist_Jantzen_pows t ht
  obtain ⟨e1, e2⟩ := Rosquist_Jantzen_exps x
  have hE := (Real.exp_pos x).ne'
  refine funext4 ?_ ?_ ?_ ?_ <;> refine funext4 ?_ ?_ ?_ ?_ <;>
    (simp only [Rosquist_Jantzen_jet, RJ.jet, Rosquist_Jantzen.gdown4_num, Rosquist_Jantzen.gdown4_num_00, Rosquist_Jantzen.gdown4_num_01, Rosquist_Jantzen.gdown4_num_02, Rosquist_Jantzen.gdown4_num_03, Rosquist_Jantzen.gdown4_num_10, Rosquist_Jantzen.gdown4_num_11, Rosquist_Jantzen.gdown4_num_12, Rosquist_Jantzen.gdown4_num_13, Rosquist_Jantzen.gdown4_num_20, Rosquist_Jantzen.gdown4_num_21, Rosquist_Jantzen.gdown4_num_22, Rosquist_Jantzen.gdown4_num_23, Rosquist_Jantzen.gdown4_num_30, Rosquist_Jantzen.gdown4_num_31, Rosquist_Jantzen.gdown4_num_32, Rosquist_Jantzen.gdown4_num_33, Rosquist_Jantzen.gammadown3_num, Rosquist_Jantzen.gammadown3_num_00, Rosquist_Jantzen.gammadown3_num_01, Rosquist_Jantzen.gammadown3_num_02, Rosquist_Jantzen.gammadown3_num_10, Rosquist_Jantzen.gammadown3_num_11, Rosquist_Jantzen.gammadown3_num_12, Rosquist_Jantzen.gammadown3_num_20, Rosquist_Jantzen.gammadown3_num_21, Rosquist_Jantzen.gammadown3_num_22, Matrix.cons_val_zero, Matrix.cons_val_one, Matrix.cons_val, p1, p2, p3, e1, e2]
     try first | rfl | ring1 | (field_simp; ring1))

theorem Rosquist_Jantzen_U_deriv (t : ℝ) (ht : 0 < t) :
    HasDerivAt (fun τ => τ ^ (Rosquist_Jantzen.s - Rosquist_Jantzen.q)) ((Rosquist_Jantzen.s - Rosquist_Jantzen.q) * t ^ (Rosquist_Jantzen.s - Rosquist_Jantzen.q) / t) t := by
  have h := (hasDerivAt_id' t).rpow_const (p := Rosquist_Jantzen.s - Rosquist_Jantzen.q) (Or.inl ht.ne')
  refine h.congr_deriv ?_
  rw [Real.rpow_sub_one ht.ne']
  have := ht.ne'
  field_simp

theorem Rosquist_Jantzen_V_deriv (t : ℝ) (ht : 0 < t) :
    HasDerivAt (fun τ => τ ^ (Rosquist_Jantzen.s + Rosquist_Jantzen.q)) ((Rosquist_Jantzen.s + Rosquist_Jantzen.q) * t ^ (Rosquist_Jantzen.s + Rosquist_Jantzen.q) / t) t := by
  have h := (hasDerivAt_id' t).rpow_const (p := Rosquist_Jantzen.s + Rosquist_Jantzen.q) (Or.inl ht.ne')
  refine h.congr_deriv ?_
  rw [Real.rpow_sub_one ht.ne']
  have := ht.ne'
  field_simp

set_option maxHeartbeats 1000000 in
theorem Rosquist_Jantzen_d1 (t x y z : ℝ) (hD : (fun t _ _ _ => 0 < t) t x y z) (c a b : Fin 4) :
    HasPartialAt (fun t x y z => Rosquist_Jantzen.gdown4_num t x y z a b) c ((Rosquist_Jantzen_jet t x y z).dg c a b) t x y z := by
  refine AurelVerif.C17JetCalc.hasPartialAt_congr_pos (g := fun t x y z => (Rosquist_Jantzen_jet t x y z).g a b)
    (fun t x y z ht => by rw [Rosquist_Jantzen_gdown4_closed t x y z ht]) hD ?_
  have htn : t ≠ 0 := ne_of_gt hD
  have hk := Rosquist_Jantzen_k_ne_zero
  have hUd := Rosquist_Jantzen_U_deriv t hD
  have hVd := Rosquist_Jantzen_V_deriv t hD
  revert c a b
  refine forall4 ?_ ?_ ?_ ?_ <;> refine forall4 ?_ ?_ ?_ ?_ <;> refine forall4 ?_ ?_ ?_ ?_ <;>
    first
    | exact hasDerivAt_const _ _
    | (simp only [hasPartialAt_zero, hasPartialAt_one, hasPartialAt_two, hasPartialAt_three, Rosquist_Jantzen_jet, RJ.jet, Matrix.cons_val_zero, Matrix.cons_val_one, Matrix.cons_val]
       first | exact hasDerivAt_const _ _ | hasderiv_auto)

set_option maxHeartbeats 1000000 in
theorem Rosquist_Jantzen_d2_0 (t x y z : ℝ) (hD : (fun t _ _ _ => 0 < t) t x y z) (d a b : Fin 4) :
    HasPartialAt (fun t x y z => (Rosquist_Jantzen_jet t x y z).dg d a b) 0 ((Rosquist_Jantzen_jet t x y z).ddg 0 d a b) t x y z := by
  have htn : t ≠ 0 := ne_of_gt hD
  have hk := Rosquist_Jantzen_k_ne_zero
  have hUd := Rosquist_Jantzen_U_deriv t hD
  have hVd := Rosquist_Jantzen_V_deriv t hD
  revert d a b
  refine forall4 ?_ ?_ ?_ ?_ <;> refine forall4 ?_ ?_ ?_ ?_ <;> refine forall4 ?_ ?_ ?_ ?_ <;>
    first
    | exact hasDerivAt_const _ _
    | (simp only [hasPartialAt_zero, hasPartialAt_one, hasPartialAt_two, hasPartialAt_three, Rosquist_Jantzen_jet, RJ.jet, Matrix.cons_val_zero, Matrix.cons_val_one, Matrix.cons_val]
       first | exact hasDerivAt_const _ _ | hasderiv_auto)

set_option maxHeartbeats 1000000 in
theorem Rosquist_Jantzen_d2_1 (t x y z : ℝ) (hD : (fun t _ _ _ => 0 < t) t x y z) (d a b : Fin 4) :
    HasPartialAt (fun t x y z => (Rosquist_Jantzen_jet t x y z).dg d a b) 1 ((Rosquist_Jantzen_jet t x y z).ddg 1 d a b) t x y z := by
  have htn : t ≠ 0 := ne_of_gt hD
  have hk := Rosquist_Jantzen_k_ne_zero
  have hUd := Rosquist_Jantzen_U_deriv t hD
  have hVd := Rosquist_Jantzen_V_deriv t hD
  revert d a b
  refine forall4 ?_ ?_ ?_ ?_ <;> refine forall4 ?_ ?_ ?_ ?_ <;> refine forall4 ?_ ?_ ?_ ?_ <;>
    first
    | exact hasDerivAt_const _ _
    | (simp only [hasPartialAt_zero, hasPartialAt_one, hasPartialAt_two, hasPartialAt_three, Rosquist_Jantzen_jet, RJ.jet, Matrix.cons_val_zero, Matrix.cons_val_one, Matrix.cons_val]
       first | exact hasDerivAt_const _ _ | hasderiv_auto)

set_option maxHeartbeats 1000000 in
theorem Rosquist_Jantzen_d2_2 (t x y z : ℝ) (hD : (fun t _ _ _ => 0 < t) t x y z) (d a b : Fin 4) :
    HasPartialAt (fun t x y z => (Rosquist_Jantzen_jet t x y z).dg d a b) 2 ((Rosquist_Jantzen_jet t x y z).ddg 2 d a b) t x y z := by
  have htn : t ≠ 0 := ne_of_gt hD
  have hk := Rosquist_Jantzen_k_ne_zero
  have hUd := Rosquist_Jantzen_U_deriv t hD
  have hVd := Rosquist_Jantzen_V_deriv t hD
  revert d a b
  refine forall4 ?_ ?_ ?_ ?_ <;> refine forall4 ?_ ?_ ?_ ?_ <;> refine forall4 ?_ ?_ ?_ ?_ <;>
    first
    | exact hasDerivAt_const _ _
    | (simp only [hasPartialAt_zero, hasPartialAt_one, hasPartialAt_two, hasPartialAt_three, Rosquist_Jantzen_jet, RJ.jet, Matrix.cons_val_zero, Matrix.cons_val_one, Matrix.cons_val]
       first | exact hasDerivAt_const _ _ | hasderiv_auto)

set_option maxHeartbeats 1000000 in
theorem Rosquist_Jantzen_d2_3 (t x y z : ℝ) (hD : (fun t _ _ _ => 0 < t) t x y z) (d a b : Fin 4) :
    HasPartialAt (fun t x y z => (Rosquist_Jantzen_jet t x y z).dg d a b) 3 ((Rosquist_Jantzen_jet t x y z).ddg 3 d a b) t x y z := by
  have htn : t ≠ 0 := ne_of_gt hD
  have hk := Rosquist_Jantzen_k_ne_zero
  have hUd := Rosquist_Jantzen_U_deriv t hD
  have hVd := Rosquist_Jantzen_V_deriv t hD
  revert d a b
  refine forall4 ?_ ?_ ?_ ?_ <;> refine forall4 ?_ ?_ ?_ ?_ <;> refine forall4 ?_ ?_ ?_ ?_ <;>
    first
    | exact hasDerivAt_const _ _
    | (simp only [hasPartialAt_zero, hasPartialAt_one, hasPartialAt_two, hasPartialAt_three, Rosquist_Jantzen_jet, RJ.jet, Matrix.cons_val_zero, Matrix.cons_val_one, Matrix.cons_val]
       first | exact hasDerivAt_const _ _ | hasderiv_auto)

theorem Rosquist_Jantzen_isJetField : IsJetField (fun t _ _ _ => 0 < t) Rosquist_Jantzen.gdown4_num Rosquist_Jantzen_jet where
  g_eq := fun t x y z hD => (Rosquist_Jantzen_gdown4_closed t x y z hD).symm
  inverse := by
    intro t x y z hD
    have htn : t ≠ 0 := ne_of_gt hD
    have hk := Rosquist_Jantzen_k_ne_zero
    have hUd := Rosquist_Jantzen_U_deriv t hD
    have hVd := Rosquist_Jantzen_V_deriv t hD
    exact RJ.jet_inverse _ _ _ _ _ _ _ _ htn hk (Real.rpow_pos_of_pos hD _).ne' (Real.rpow_pos_of_pos hD _).ne' (Real.exp_pos x).ne'
  d1 := fun t x y z hD c a b => Rosquist_Jantzen_d1 t x y z hD c a b
  d2 := fun t x y z hD => forall4 (Rosquist_Jantzen_d2_0 t x y z hD) (Rosquist_Jantzen_d2_1 t x y z hD) (Rosquist_Jantzen_d2_2 t x y z hD) (Rosquist_Jantzen_d2_3 t x y z hD)

set_option maxHeartbeats 1000000 in
/-- Rosquist_Jantzen: all ten Einstein equations `G_ab = κ T_ab` with the module's `Tdown4`, `kappa`. -/
theorem Rosquist_Jantzen_einstein (t x y z : ℝ) (ht : 0 < t) :
    (Rosquist_Jantzen_jet t x y z).SolvesEinstein 0 Rosquist_Jantzen.kappa (Rosquist_Jantzen.Tdown4 t x y z) := by
  have htn := ht.ne'
  have hk := Rosquist_Jantzen_k_ne_zero
  have hkap : Rosquist_Jantzen.kappa ≠ 0 := by unfold Rosquist_Jantzen.kappa; positivity
  have hU := (Real.rpow_pos_of_pos ht (Rosquist_Jantzen.s - Rosquist_Jantzen.q)).ne'
  have hV := (Real.rpow_pos_of_pos ht (Rosquist_Jantzen.s + Rosquist_Jantzen.q)).ne'
  have hE := (Real.exp_pos x).ne'
  obtain ⟨p1, p2, p3, p4, p5, p6, p7⟩ := Rosquist_Jantzen_pows t ht
  obtain ⟨e1, e2⟩ := Rosquist_Jantzen_exps x
  unfold Jet2.SolvesEinstein Rosquist_Jantzen_jet
  rw [RJ.Einstein_eq _ _ _ _ _ _ _ _ htn hk hU hV hE]
  generalize hUg : t ^ (Rosquist_Jantzen.s - Rosquist_Jantzen.q) = U at *
  generalize hVg : t ^ (Rosquist_Jantzen.s + Rosquist_Jantzen.q) = V at *
  refine forall4 ?_ ?_ ?_ ?_ <;> refine forall4 ?_ ?_ ?_ ?_ <;>
    (simp only [RJ.EinsteinT, RJ.jet, Rosquist_Jantzen.Tdown4, Rosquist_Jantzen.Tdown4_00, Rosquist_Jantzen.Tdown4_01, Rosquist_Jantzen.Tdown4_02, Rosquist_Jantzen.Tdown4_03, Rosquist_Jantzen.Tdown4_10, Rosquist_Jantzen.Tdown4_11, Rosquist_Jantzen.Tdown4_12, Rosquist_Jantzen.Tdown4_13, Rosquist_Jantzen.Tdown4_20, Rosquist_Jantzen.Tdown4_21, Rosquist_Jantzen.Tdown4_22, Rosquist_Jantzen.Tdown4_23, Rosquist_Jantzen.Tdown4_30, Rosquist_Jantzen.Tdown4_31, Rosquist_Jantzen.Tdown4_32, Rosquist_Jantzen.Tdown4_33, Rosquist_Jantzen.gdown4_num, Rosquist_Jantzen.gdown4_num_00, Rosquist_Jantzen.gdown4_num_01, Rosquist_Jantzen.gdown4_num_02, Rosquist_Jantzen.gdown4_num_03, Rosquist_Jantzen.gdown4_num_10, Rosquist_Jantzen.gdown4_num_11, Rosquist_Jantzen.gdown4_num_12, Rosquist_Jantzen.gdown4_num_13, Rosquist_Jantzen.gdown4_num_20, Rosquist_Jantzen.gdown4_num_21, Rosquist_Jantzen.gdown4_num_22, Rosquist_Jantzen.gdown4_num_23, Rosquist_Jantzen.gdown4_num_30, Rosquist_Jantzen.gdown4_num_31, Rosquist_Jantzen.gdown4_num_32, Rosquist_Jantzen.gdown4_num_33, Rosquist_Jantzen.gammadown3_num, Rosquist_Jantzen.gammadown3_num_00, Rosquist_Jantzen.gammadown3_num_01, Rosquist_Jantzen.gammadown3_num_02, Rosquist_Jantzen.gammadown3_num_10, Rosquist_Jantzen.gammadown3_num_11, Rosquist_Jantzen.gammadown3_num_12, Rosquist_Jantzen.gammadown3_num_20, Rosquist_Jantzen.gammadown3_num_21, Rosquist_Jantzen.gammadown3_num_22, Matrix.cons_val_zero, Matrix.cons_val_one, Matrix.cons_val, p1, p2, p3, p4, p5, p6, p7, e1, e2]
     generalize Real.exp x = E at *
     generalize Rosquist_Jantzen.k = k at *
     generalize Rosquist_Jantzen.m = m
     generalize Rosquist_Jantzen.s = s
     generalize Rosquist_Jantzen.q = q
     generalize Rosquist_Jantzen.kappa = κ at *
     first | ring1 | (field_simp; ring1))
end AurelVerif.C17Ein
