/-
Lemmas/C15Jacobi.lean — Jacobi's formula for the determinant of the metric
under an abstract derivation, and the contracted Christoffel symbol.

For commuting or non-commuting `D` (only additivity and Leibniz are used):

  `D c (det A) = Σ_i Σ_k adj(A)_{ik} · D c (A_{ki})`          (`jacobi`)
  `D c (det g) = det g · Σ_{ik} g^{ik} D c (g_{ki})`           (`D_det_metric`)
  `Σ_a Γ^a_{ab} = ∂_b(det g) / (2 det g)`                      (`christoffel_trace`)

for any `gup` with `g · gup = 1`.  This is the textbook link between `gdet`
and the other quantities of the class (`gdet` itself is not read by any method).
-/
import Mathlib.LinearAlgebra.Matrix.NonsingularInverse
import AurelVerif.Lemmas.C15Inverse

namespace AurelVerif.SymJacobi
open AurelVerif.Spec.SymTensors AurelVerif.SymTensorLemmas AurelVerif.SymInverse
open scoped BigOperators

variable {K : Type} [Field K] {n : ℕ} {D : Fin n → K → K}

theorem D_prod {ι : Type} [DecidableEq ι] (hD : IsDeriv D) (c : Fin n) (s : Finset ι) (f : ι → K) :
    D c (∏ i ∈ s, f i) = ∑ i ∈ s, D c (f i) * ∏ j ∈ s.erase i, f j := by
  induction s using Finset.induction_on with
  | empty => simp [D_one hD]
  | insert a s ha ih =>
    rw [Finset.prod_insert ha, hD.mul, ih, Finset.sum_insert ha, Finset.erase_insert ha, Finset.mul_sum]
    congr 1
    apply Finset.sum_congr rfl
    intro i hi
    have hia : a ≠ i := fun h => ha (h ▸ hi)
    rw [Finset.erase_insert_of_ne hia, Finset.prod_insert (fun h => ha (Finset.mem_of_mem_erase h))]
    ring

theorem D_sign (hD : IsDeriv D) (c : Fin n) (σ : Equiv.Perm (Fin n)) :
    D c (((Equiv.Perm.sign σ : ℤˣ) : ℤ) : K) = 0 := by
  rcases Int.units_eq_one_or (Equiv.Perm.sign σ) with h | h
  · rw [h]; simp [D_one hD]
  · rw [h]; simp [D_neg hD, D_one hD]

/-- Jacobi's formula -/
theorem jacobi (hD : IsDeriv D) (c : Fin n) (A : Matrix (Fin n) (Fin n) K) :
    D c A.det = ∑ i, ∑ k, A.adjugate i k * D c (A k i) := by
  have h1 : ∀ i, ∑ k, A.adjugate i k * D c (A k i) = (A.updateCol i (fun k => D c (A k i))).det := by
    intro i
    rw [← Matrix.cramer_apply, Matrix.cramer_eq_adjugate_mulVec]
    rfl
  simp only [h1]
  rw [Matrix.det_apply', D_sum hD]
  have h2 : ∀ σ : Equiv.Perm (Fin n),
      D c ((((Equiv.Perm.sign σ : ℤˣ) : ℤ) : K) * ∏ i, A (σ i) i)
        = ∑ i, (((Equiv.Perm.sign σ : ℤˣ) : ℤ) : K)
            * ∏ j, (A.updateCol i (fun k => D c (A k i))) (σ j) j := by
    intro σ
    rw [hD.mul, D_sign hD, zero_mul, zero_add, D_prod hD, Finset.mul_sum]
    apply Finset.sum_congr rfl
    intro i _
    congr 1
    rw [← Finset.mul_prod_erase Finset.univ _ (Finset.mem_univ i), Matrix.updateCol_self]
    congr 1
    apply Finset.prod_congr rfl
    intro j hj
    rw [Matrix.updateCol_ne (Finset.ne_of_mem_erase hj)]
  simp only [h2]
  rw [Finset.sum_comm]
  apply Finset.sum_congr rfl
  intro i _
  rw [Matrix.det_apply']

variable {g gup : Fin n → Fin n → K}

/-- `∂_c det g = det g · g^{ik} ∂_c g_{ki}` for any `gup` with `g · gup = 1` -/
theorem D_det_metric (hD : IsDeriv D) (h : RightInverse g gup) (c : Fin n) :
    D c (Matrix.of g).det = (Matrix.of g).det * ∑ i, ∑ k, gup i k * D c (g k i) := by
  rw [jacobi hD, Finset.mul_sum]
  apply Finset.sum_congr rfl
  intro i _
  rw [Finset.mul_sum]
  apply Finset.sum_congr rfl
  intro k _
  rw [← det_mul_gup h i k]
  simp only [Matrix.of_apply]
  ring

/-- the contracted Christoffel symbol: `Γ^a_{ab} = ∂_b(det g) / (2 det g)` -/
theorem christoffel_trace [CharZero K] (hD : IsDeriv D) (hs : ∀ i j, g i j = g j i)
    (h : RightInverse g gup) (b : Fin n) :
    ∑ a, GammaUdd D g gup a a b = D b (Matrix.of g).det / (2 * (Matrix.of g).det) := by
  have hd := det_ne_zero h
  rw [D_det_metric hD h, eq_div_iff (mul_ne_zero two_ne_zero hd)]
  have hsym := gup_symm_of_right_inverse hs h
  -- Σ_a Σ_m gup a m (∂_a g_mb − ∂_m g_ab) = 0 by symmetry
  have hanti : ∑ a, ∑ m, gup a m * (D a (g m b) - D m (g a b)) = 0 := by
    have e : ∑ a, ∑ m, gup a m * (D a (g m b) - D m (g a b))
        = - ∑ a, ∑ m, gup a m * (D a (g m b) - D m (g a b)) := by
      conv_lhs => rw [Finset.sum_comm]
      rw [← Finset.sum_neg_distrib]
      apply Finset.sum_congr rfl
      intro a _
      rw [← Finset.sum_neg_distrib]
      apply Finset.sum_congr rfl
      intro m _
      rw [hsym m a]
      ring
    have h2 : (2 : K) * ∑ a, ∑ m, gup a m * (D a (g m b) - D m (g a b)) = 0 := by
      rw [two_mul]; nth_rewrite 1 [e]; simp
    rcases mul_eq_zero.mp h2 with h0 | h0
    · exact absurd h0 two_ne_zero
    · exact h0
  have hsum : ∑ a, GammaUdd D g gup a a b
      = (1 / 2) * (∑ a, ∑ m, gup a m * D b (g m a))
        + (1 / 2) * ∑ a, ∑ m, gup a m * (D a (g m b) - D m (g a b)) := by
    simp only [GammaUdd, christoffel2, christoffel1, Finset.mul_sum, ← Finset.sum_add_distrib]
    apply Finset.sum_congr rfl
    intro a _
    apply Finset.sum_congr rfl
    intro m _
    ring
  rw [hsum, hanti]
  ring

end AurelVerif.SymJacobi
