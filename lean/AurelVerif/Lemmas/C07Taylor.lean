/-
Lemmas/C07Taylor.lean — Taylor's theorem with Lagrange remainder for a chain of successive
derivatives on a closed interval, in both directions (via Mathlib's
`taylor_mean_remainder_lagrange`).  The hypothesis "`F (j+1)` is the derivative of `F j`
within `[a,b]`, j ≤ n" is weaker than `C^(n+1)` (no continuity of the top derivative).
-/
import Mathlib.Analysis.Calculus.Taylor

namespace AurelVerif.C07Taylor
open Set

/-- a chain of successive derivatives on a set: `F 0 = f`, `F (j+1) = (F j)'` within `S`, for `j ≤ n`. -/
def DerivChain (F : ℕ → ℝ → ℝ) (n : ℕ) (S : Set ℝ) : Prop :=
  ∀ j ≤ n, ∀ t ∈ S, HasDerivWithinAt (F j) (F (j + 1) t) S t

theorem DerivChain.mono {F : ℕ → ℝ → ℝ} {n : ℕ} {S T : Set ℝ} (h : DerivChain F n S) (hTS : T ⊆ S) :
    DerivChain F n T :=
  fun j hj t ht => (h j hj t (hTS ht)).mono hTS

theorem DerivChain.iteratedDerivWithin_eq {F : ℕ → ℝ → ℝ} {n : ℕ} {s : Set ℝ} (h : DerivChain F n s)
    (hs : UniqueDiffOn ℝ s) : ∀ j ≤ n + 1, ∀ t ∈ s, iteratedDerivWithin j (F 0) s t = F j t := by
  intro j
  induction j with
  | zero => intro _ t _; simp
  | succ j ih =>
    intro hj t ht
    rw [iteratedDerivWithin_succ]
    have heq : EqOn (iteratedDerivWithin j (F 0) s) (F j) s := fun u hu => ih (by omega) u hu
    rw [derivWithin_congr heq (heq ht)]
    exact (h j (by omega) t ht).derivWithin (hs t ht)

/-- **Taylor's theorem with Lagrange remainder for a derivative chain**, both directions. -/
theorem taylor_chain {F : ℕ → ℝ → ℝ} {n : ℕ} {a b : ℝ} (h : DerivChain F n (Icc a b))
    {x y : ℝ} (hx : x ∈ Icc a b) (hy : y ∈ Icc a b) (hxy : x ≠ y) :
    ∃ ξ ∈ Icc a b, F 0 y - ∑ j ∈ Finset.range (n + 1), ((j.factorial : ℝ)⁻¹ * (y - x) ^ j) * F j x
      = F (n + 1) ξ * (y - x) ^ (n + 1) / ((n + 1).factorial : ℝ) := by
  have hsub : uIcc x y ⊆ Icc a b := by
    intro t ht
    rcases mem_uIcc.mp ht with ht | ht
    · exact ⟨le_trans hx.1 ht.1, le_trans ht.2 hy.2⟩
    · exact ⟨le_trans hy.1 ht.1, le_trans ht.2 hx.2⟩
  have hs : UniqueDiffOn ℝ (uIcc x y) := uniqueDiffOn_uIcc hxy
  have hc : DerivChain F n (uIcc x y) := h.mono hsub
  have hit := hc.iteratedDerivWithin_eq hs
  have hxs : x ∈ uIcc x y := left_mem_uIcc
  have hdiff : ∀ m ≤ n, DifferentiableOn ℝ (iteratedDerivWithin m (F 0) (uIcc x y)) (uIcc x y) := by
    intro m hm
    have hF : DifferentiableOn ℝ (F m) (uIcc x y) := fun t ht => (hc m hm t ht).differentiableWithinAt
    exact hF.congr (fun t ht => hit m (by omega) t ht)
  have hcd : ContDiffOn ℝ n (F 0) (uIcc x y) := by
    rw [contDiffOn_nat_iff_continuousOn_differentiableOn_deriv hs]
    exact ⟨fun m hm => (hdiff m hm).continuousOn, fun m hm => hdiff m (by omega)⟩
  have hd' : DifferentiableOn ℝ (iteratedDerivWithin n (F 0) (uIcc x y)) (uIoo x y) :=
    (hdiff n le_rfl).mono Ioo_subset_Icc_self
  obtain ⟨ξ, hξ, hval⟩ := taylor_mean_remainder_lagrange hxy hcd hd'
  have hξs : ξ ∈ uIcc x y := Ioo_subset_Icc_self hξ
  refine ⟨ξ, hsub hξs, ?_⟩
  rw [taylor_within_apply] at hval
  rw [hit (n + 1) le_rfl ξ hξs] at hval
  rw [← hval]
  congr 1
  apply Finset.sum_congr rfl
  intro j hj
  rw [hit j (by have := Finset.mem_range.mp hj; omega) x hxs]
  simp [smul_eq_mul]

/-- the bound form, also valid for `x = y`. -/
theorem taylor_chain_bound {F : ℕ → ℝ → ℝ} {n : ℕ} {a b M : ℝ} (h : DerivChain F n (Icc a b))
    (hM : ∀ t ∈ Icc a b, |F (n + 1) t| ≤ M)
    {x y : ℝ} (hx : x ∈ Icc a b) (hy : y ∈ Icc a b) :
    |F 0 y - ∑ j ∈ Finset.range (n + 1), ((j.factorial : ℝ)⁻¹ * (y - x) ^ j) * F j x|
      ≤ M * |y - x| ^ (n + 1) / ((n + 1).factorial : ℝ) := by
  by_cases hxy : x = y
  · subst hxy
    rw [Finset.sum_range_succ']
    simp
  · obtain ⟨ξ, hξ, hval⟩ := taylor_chain h hx hy hxy
    rw [hval, abs_div, abs_mul, abs_pow, Nat.abs_cast]
    have := hM ξ hξ
    gcongr

end AurelVerif.C07Taylor
