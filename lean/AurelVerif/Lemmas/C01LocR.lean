/-
Lemmas/C01LocR.lean — property C01, extension round 6: locality of the four alternatives of `st_Riemann_down4`
(256 components each), obtained from their block specifications (Props/C04.lean) instead of unfolding the generated
text: each alternative is `populate (Gauss) (Codazzi) (Mainardi)` of the fields `s_Riemann_down3, Kdown3, s_Gamma_udd3,
betaup3, alpha, s_Ricci_down3, gup4, Ktrace` (+ `st_Ricci_down3` without the vacuum flag) and the operator `D`.
-/
import AurelVerif.Props.C04

set_option linter.unusedSimpArgs false
set_option linter.unusedVariables false

namespace AurelVerif.C01Loc
open AurelVerif.Gen.Core AurelVerif.Tensor AurelVerif.CoreTac AurelVerif.C04 AurelVerif.C04L AurelVerif.Spec.Curvature

variable {K : Type} [Field K]

/-- agreement on every field the four alternatives look up -/
structure RiemannFields (e e' : Env K) : Prop where
  h115 : e.s_Riemann_down3 = e'.s_Riemann_down3
  h46 : e.Kdown3 = e'.Kdown3
  h113 : e.s_Gamma_udd3 = e'.s_Gamma_udd3
  h6 : e.betaup3 = e'.betaup3
  h0 : e.alpha = e'.alpha
  h116 : e.s_Ricci_down3 = e'.s_Ricci_down3
  h32 : e.gup4 = e'.gup4
  h48 : e.Ktrace = e'.Ktrace
  hD : e.D = e'.D

theorem loc_s_to_st_betaup3 (e e' : Env K) (h : RiemannFields e e') :
    s_to_st__betaup3 e e.Kdown3 = s_to_st__betaup3 e' e'.Kdown3 := by
  funext a b; revert a b
  cases4 <;> cases4 <;> simp only [core_unfold, h.h46, h.h6, h.h0]

theorem loc_s_to_st_dflt (e e' : Env K) (h : RiemannFields e e') :
    s_to_st__dflt e e.Kdown3 = s_to_st__dflt e' e'.Kdown3 := by
  funext a b; revert a b
  cases4 <;> cases4 <;> simp only [core_unfold, h.h46, h.h6, h.h0]

theorem loc_Rssss (e e' : Env K) (h : RiemannFields e e') : RssssE e = RssssE e' := by
  simp only [RssssE, h.h115, h.h46]

theorem loc_Rssst (e e' : Env K) (h : RiemannFields e e') : RssstE e = RssstE e' := by
  simp only [RssstE, loc_Rssss e e' h, h.h0, h.h6, h.hD, h.h113, h.h46]

theorem loc_Rstst (e e' : Env K) (h : RiemannFields e e') (K4 K4' : Fin 4 → Fin 4 → K) (hK : K4 = K4')
    (R R' : Fin 3 → Fin 3 → K) (hR : R = R') : RststE e K4 R = RststE e' K4' R' := by
  simp only [RststE, loc_Rssss e e' h, loc_Rssst e e' h, h.h0, h.h6, h.h116, h.h32, h.h46, h.h48, hK, hR]

theorem loc_st_Riemann_down4_betaup3_matter (e e' : Env K) (h : RiemannFields e e')
    (h123 : e.st_Ricci_down3 = e'.st_Ricci_down3) :
    st_Riemann_down4__betaup3_matter e = st_Riemann_down4__betaup3_matter e' := by
  funext a b c d
  rw [st_Riemann_down4_betaup3_matter_spec, st_Riemann_down4_betaup3_matter_spec, loc_Rssss e e' h, loc_Rssst e e' h,
    loc_Rstst e e' h _ _ (loc_s_to_st_betaup3 e e' h) _ _ h123]

theorem loc_st_Riemann_down4_dflt_matter (e e' : Env K) (h : RiemannFields e e')
    (h123 : e.st_Ricci_down3 = e'.st_Ricci_down3) :
    st_Riemann_down4__dflt_matter e = st_Riemann_down4__dflt_matter e' := by
  funext a b c d
  rw [st_Riemann_down4_dflt_matter_spec, st_Riemann_down4_dflt_matter_spec, loc_Rssss e e' h, loc_Rssst e e' h,
    loc_Rstst e e' h _ _ (loc_s_to_st_dflt e e' h) _ _ h123]

theorem loc_st_Riemann_down4_betaup3_vacuum (e e' : Env K) (h : RiemannFields e e') :
    st_Riemann_down4__betaup3_vacuum e = st_Riemann_down4__betaup3_vacuum e' := by
  funext a b c d
  rw [st_Riemann_down4_betaup3_vacuum_spec, st_Riemann_down4_betaup3_vacuum_spec, loc_Rssss e e' h, loc_Rssst e e' h,
    loc_Rstst e e' h _ _ (loc_s_to_st_betaup3 e e' h) _ _ rfl]

theorem loc_st_Riemann_down4_dflt_vacuum (e e' : Env K) (h : RiemannFields e e') :
    st_Riemann_down4__dflt_vacuum e = st_Riemann_down4__dflt_vacuum e' := by
  funext a b c d
  rw [st_Riemann_down4_dflt_vacuum_spec, st_Riemann_down4_dflt_vacuum_spec, loc_Rssss e e' h, loc_Rssst e e' h,
    loc_Rstst e e' h _ _ (loc_s_to_st_dflt e e' h) _ _ rfl]

end AurelVerif.C01Loc
