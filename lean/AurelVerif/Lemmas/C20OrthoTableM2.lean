/-
Lemmas/C20OrthoTableM2.lean — kernel-decided integer table: orthonormality
identities `entryOK` (Lemmas/C20GramZ.lean) for spin s = (-2), all 0 ≤ l, l' ≤ 12,
all |m| ≤ 12.  Mathlib-free; pure computation (`decide +kernel`).
-/
import AurelVerif.Lemmas.C20GramZ

namespace AurelVerif.HarmGram

theorem spinOK_12_M2 : spinOK 12 (-2) = true := by decide +kernel

end AurelVerif.HarmGram
