/-
Lemmas/C20GramZ.lean — the θ-part of the continuous inner product of two
closed-form sums of `maths.sYlm` with the same (s, m), as an INTEGER
(Mathlib-free, executable, kernel-decidable).

With c = cos(θ/2), sn = sin(θ/2):  the product of a term `coef·c^a·sn^b` of
`harmTerms s l m` and a term `coef'·c^a'·sn^b'` of `harmTerms s l' m` has even
exponents a+a' = 2p, b+b' = 2q with p + q = l + l', and (Lemmas/C20Beta.lean)

    ∫_0^π c^(2p) sn^(2q) sin θ dθ = 2 p! q! / (l+l'+1)!

so   ∫_0^π (Σ_r …)(Σ_r' …) sin θ dθ = 2 · thetaGramZ s l m l' / (l+l'+1)!.

`entryOK` says what orthonormality means for this integer; `tableOK L` checks it
for all |s| ≤ 2, 0 ≤ l, l' ≤ L, |m| ≤ L (a finite computation).
-/
import AurelVerif.Model.Harm

namespace AurelVerif.HarmGram
open AurelVerif.Harm

/-- `coef·coef'·p!·q!`, `p = (a+a')/2`, `q = (b+b')/2` -/
def pairZ (t t' : Term) : Int :=
  t.coef * t'.coef * ((fact ((t.a + t'.a) / 2).toNat : Nat) : Int) * ((fact ((t.b + t'.b) / 2).toNat : Nat) : Int)

def gramZ (ts ts' : List Term) : Int :=
  (ts.map fun t => (ts'.map fun t' => pairZ t t').sum).sum

/-- `(l+l'+1)!/2 · ∫_0^π (Σ_r …)_{s l m} (Σ_r …)_{s l' m} sin θ dθ` -/
def thetaGramZ (s l m l' : Int) : Int := gramZ (harmTerms s l m) (harmTerms s l' m)

/-- orthonormality of the pair `(s,l,m)`, `(s,l',m)` in integers:
`l ≠ l'` (or an empty sum: `l < |s|` or `l < |m|`): the integral vanishes;
`l = l'`, `|s|, |m| ≤ l`: `2·R·2·Z/(2l+1)! = 1` with the radicand
`R = (l+m)!(l−m)!(2l+1)/((l+s)!(l−s)!·4)`, i.e.
`Z·(l+m)!·(l−m)!·(2l+1) = (2l+1)!·(l+s)!·(l−s)!`. -/
def entryOK (s l m l' : Int) : Bool :=
  if l = l' ∧ s.natAbs ≤ l ∧ m.natAbs ≤ l then
    thetaGramZ s l m l' * (fact (l + m).toNat : Nat) * (fact (l - m).toNat : Nat) * (2 * l + 1)
      == ((fact (2 * l + 1).toNat : Nat) : Int) * (fact (l + s).toNat : Nat) * (fact (l - s).toNat : Nat)
  else thetaGramZ s l m l' == 0

/-- all `l, l' ≤ L`, `|m| ≤ L` for one spin -/
def spinOK (L : Nat) (s : Int) : Bool :=
  (pyRange 0 ((L : Int) + 1)).all fun l => (pyRange 0 ((L : Int) + 1)).all fun l' =>
    (pyRange (-(L : Int)) ((L : Int) + 1)).all fun m => entryOK s l m l'

/-- all spins `-2..2` -/
def tableOK (L : Nat) : Bool := (pyRange (-2) 3).all fun s => spinOK L s

end AurelVerif.HarmGram
