/-
Lemmas/C04GammaCode.lean — the generated `st_Gamma_udd4` is the 3+1 form of the
4-D Christoffel symbols (exact, every component), is symmetric in its lower indices,
and — Layer B — equals the Christoffel symbols of the assembled metric `e.gdown4`
raised with the code's `gup4`.
-/
import AurelVerif.Lemmas.C04Gamma
import AurelVerif.Gen.CoreCurv

set_option linter.unusedSimpArgs false
set_option linter.unusedVariables false
set_option linter.unusedTactic false
set_option linter.unreachableTactic false

namespace AurelVerif.C04L
open AurelVerif.Gen.Core AurelVerif.Tensor AurelVerif.CoreTac AurelVerif.C08 AurelVerif.Spec.Curvature

variable {K : Type} [Field K]

/-- the jet the code works with at one grid point: cached entries, the supplied time derivatives
`dtalpha`, `dtbetaup3`, and the abstract difference operator `e.D` for the spatial derivatives. -/
def jetOf (e : Env K) : Jet K where
  alpha := e.alpha
  beta := e.betaup3
  gam := e.gammadown3
  gamup := e.gammaup3
  Kd := e.Kdown3
  Gam3 := e.s_Gamma_udd3
  dta := e.dtalpha
  dtb := e.dtbetaup3
  da := fun i => e.D i e.alpha
  db := fun i k => e.D i (e.betaup3 k)
  dgam := fun i k j => e.D i (e.gammadown3 k j)

set_option maxHeartbeats 1000000 in
/-- **exact**: every component of the generated `st_Gamma_udd4` is the corresponding 3+1 piece
(`Γ^t_tt`, `Γ^t_ti`, `Γ^t_ij`, `Γ^l_tt`, `Γ^l_mt`, `Γ^l_ij` of `Jet.christoffel3p1`). -/
theorem st_Gamma_spec (e : Env K) : ∀ a b c : Fin 4,
    st_Gamma_udd4 e a b c = (jetOf e).christoffel3p1 a b c := by
  cases4 <;> cases4 <;> cases4 <;>
    (simp only [core_unfold, Jet.christoffel3p1, tsplit_0, tsplit_1, tsplit_2, tsplit_3, Jet.Gttt, Jet.Gtti,
       Jet.Gtij, Jet.Gltt, Jet.Glmt, Jet.Glij, Jet.Db, jetOf, Fin.sum_univ_three]
     try ring)

/-- **exact**: `st_Gamma_udd4` is symmetric in its lower indices when `K_ij` and `³Γ^l_ij` are. -/
theorem st_Gamma_symm (e : Env K) (hK : Sym e.Kdown3) (hG : ∀ l i j, e.s_Gamma_udd3 l i j = e.s_Gamma_udd3 l j i)
    (a b c : Fin 4) : st_Gamma_udd4 e a b c = st_Gamma_udd4 e a c b := by
  rw [st_Gamma_spec, st_Gamma_spec]
  exact Jet.christoffel3p1_symm (jetOf e) hK hG a b c

/-- the assembled `gdown4` is `metric3p1 α β γ`. -/
theorem gdown4_is_metric3p1 (e : Env K) (h : Assembled e) : e.gdown4 = (jetOf e).g4 := by
  have h01 := h.hsym 1 0; have h02 := h.hsym 2 0; have h12 := h.hsym 2 1
  funext a b
  revert a b
  cases4 <;> cases4 <;>
    (simp only [h.hg4, h.hgtt, h.hbm, h.hbd, core_unfold, Jet.g4, metric3p1, jetOf, tsplit_0, tsplit_1, tsplit_2,
       tsplit_3, Fin.sum_univ_three, h01, h02, h12]
     try ring)

/-- **T7 (Layer B, consistency)**: for an assembled metric with `α ≠ 0`, `det γ ≠ 0`, and a jet
satisfying `Jet.LeviCivita` (γ, K symmetric; `s_Gamma_udd3` torsion-free and metric compatible with
respect to `e.D`; `gammaup3` the inverse of γ), all 64 components of `st_Gamma_udd4` are
`Γ^a_{bc} = ½ g^{ad}(∂_b g_dc + ∂_c g_db − ∂_d g_bc)` with `g^{ad}` the code's `gup4` and `∂g` the
derivative of the assembled metric (product rule; `∂_t` from `dtalpha`, `dtbetaup3` and the kinematic
relation `∂_t γ_ij = −2αK_ij + D_iβ_j + D_jβ_i`). -/
theorem st_Gamma_is_christoffel (e : Env K) (h : Assembled e) (hgd : e.gammadet = gammadet e)
    (hdet : gammadet e ≠ 0) (hJ : (jetOf e).LeviCivita) (a b c : Fin 4) :
    st_Gamma_udd4 e a b c = christoffel (gup4 e) (jetOf e).dg4 a b c := by
  rw [st_Gamma_spec]
  refine Jet.christoffel3p1_is_christoffel (jetOf e) hJ (gup4 e) (fun x y => ?_) a b c
  rw [← gdown4_is_metric3p1 e h]
  exact gup4_mul_gdown4 e h hgd hJ.ha hdet x y

/-- the code's inverse spatial metric satisfies the `inv` clause of `Jet.LeviCivita`:
`γ_kl γ^{ln} X_n = X_k` (symmetric γ, `det γ ≠ 0`, `gammaup3` produced by the code). -/
theorem inv_of_gammaup3 (e : Env K) (hs : Sym e.gammadown3) (hu : e.gammaup3 = gammaup3 e) (hd : gammadet e ≠ 0)
    (X : Fin 3 → K) : ∀ k : Fin 3, ∑ l, e.gammadown3 k l * ∑ n, e.gammaup3 l n * X n = X k := by
  have hsym : Sym (gammaup3 e) := by rw [gammaup3_is_inverse]; exact inverse3_symm e _ hs
  have s01 := hs 1 0; have s02 := hs 2 0; have s12 := hs 2 1
  have u01 := hsym 1 0; have u02 := hsym 2 0; have u12 := hsym 2 1
  rw [hu]
  refine fin3_cases ?_ ?_ ?_
  · have m0 := gammaup3_mul e hs hd 0 0; have m1 := gammaup3_mul e hs hd 1 0; have m2 := gammaup3_mul e hs hd 2 0
    simp [delta, Fin.sum_univ_three] at m0 m1 m2
    simp only [Fin.sum_univ_three, s01, s02, s12, u01, u02, u12] at m0 m1 m2 ⊢
    linear_combination X 0 * m0 + X 1 * m1 + X 2 * m2
  · have m0 := gammaup3_mul e hs hd 0 1; have m1 := gammaup3_mul e hs hd 1 1; have m2 := gammaup3_mul e hs hd 2 1
    simp [delta, Fin.sum_univ_three] at m0 m1 m2
    simp only [Fin.sum_univ_three, s01, s02, s12, u01, u02, u12] at m0 m1 m2 ⊢
    linear_combination X 0 * m0 + X 1 * m1 + X 2 * m2
  · have m0 := gammaup3_mul e hs hd 0 2; have m1 := gammaup3_mul e hs hd 1 2; have m2 := gammaup3_mul e hs hd 2 2
    simp [delta, Fin.sum_univ_three] at m0 m1 m2
    simp only [Fin.sum_univ_three, s01, s02, s12, u01, u02, u12] at m0 m1 m2 ⊢
    linear_combination X 0 * m0 + X 1 * m1 + X 2 * m2

/-! ### the product rule behind `dmetric3p1` -/

/-- a derivation of the field: additive and Leibniz (holds for exact differentiation; for the
finite-difference operators only in the continuum limit). -/
structure Deriv (d : K → K) : Prop where
  add : ∀ f g, d (f + g) = d f + d g
  mul : ∀ f g, d (f * g) = d f * g + f * d g

theorem Deriv.zero {d : K → K} (h : Deriv d) : d 0 = 0 := by
  have := h.add 0 0; rw [add_zero] at this; exact left_eq_add.mp this

theorem Deriv.neg {d : K → K} (h : Deriv d) (f : K) : d (-f) = -d f := by
  have := h.add f (-f); rw [add_neg_cancel, h.zero] at this
  exact eq_neg_of_add_eq_zero_right this.symm

/-- **`dmetric3p1` is the derivative of the assembled metric** for every derivation `d`. -/
theorem deriv_metric3p1 {d : K → K} (h : Deriv d) (alpha : K) (beta : Fin 3 → K) (gam : Fin 3 → Fin 3 → K) :
    ∀ a b : Fin 4, d (metric3p1 alpha beta gam a b)
      = dmetric3p1 alpha beta gam (d alpha) (fun i => d (beta i)) (fun i j => d (gam i j)) a b := by
  cases4 <;> cases4 <;>
    (simp only [metric3p1, dmetric3p1, tsplit_0, tsplit_1, tsplit_2, tsplit_3, Fin.sum_univ_three, pow_two,
       h.add, h.mul, h.neg]
     try ring)

end AurelVerif.C04L
