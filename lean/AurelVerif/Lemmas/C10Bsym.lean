/-
Lemmas/C10Bsym.lean — the magnetic part on the slice, textbook expression `Spec.Weyl.bweylN`
with `ε^{cd}{}_b = γ^{ce} γ^{df} ε_{efb}`, `ε_{efb} = [efb]·s` (`[efb]` = the GENERATED table
`levicivita_symbol_down3`):

* trace-free for every symmetric `γ⁻¹`, `γ⁻¹γ = 1`, and every `D_c K_da` symmetric in `(d,a)`
  (no hypothesis at all on the two "momentum" terms `D_d K`, `D_e K^e_d`);
* symmetric as soon as the two traces commute with the derivative,
  `γ^{ad} D_c K_da = D_c K` and `γ^{ce} D_c K_ed = D_e K^e{}_d` (metric compatibility) —
  the momentum constraint is NOT needed: the second term of the formula is exactly what cancels the
  antisymmetric part of the first.
-/
import AurelVerif.Gen.CoreHelpers
import AurelVerif.Lemmas.CoreTac
import AurelVerif.Lemmas.C10WeylEB

set_option linter.unusedSimpArgs false
set_option linter.unusedVariables false

namespace AurelVerif.C10
open AurelVerif.Gen.Core AurelVerif.Tensor AurelVerif.CoreTac AurelVerif.Spec.Weyl

variable {K : Type} [Field K]

macro "sum3_ring" : tactic => `(tactic| (simp only [Fin.sum_univ_three]; ring))

/-- `ε_{abc} = [abc]·s` with the generated symbol table. -/
def lc3 (e : Env K) (s : K) (a b c : Fin 3) : K := levicivita_symbol_down3 e a b c * s

/-- `ε^{cd}{}_b γ_ac = γ^{df} ε_{afb}`. -/
theorem epsUud3_lower (γup γ : Fin 3 → Fin 3 → K) (LC : Fin 3 → Fin 3 → Fin 3 → K)
    (hinv : ∀ a e', ∑ c, γ a c * γup c e' = if a = e' then 1 else 0) (a d b : Fin 3) :
    ∑ c, epsUud3 γup LC c d b * γ a c = ∑ f, γup d f * LC a f b := by
  have Qa : ∑ e', (∑ c, γ a c * γup c e') * (∑ f, γup d f * LC e' f b)
      = ∑ e', (if a = e' then 1 else 0) * (∑ f, γup d f * LC e' f b) := by simp only [hinv]
  have Qb : ∑ e', (if a = e' then (1 : K) else 0) * (∑ f, γup d f * LC e' f b) = ∑ f, γup d f * LC a f b := by
    simp
  unfold epsUud3
  linear_combination (norm := sum3_ring) Qa + Qb

section
variable (e : Env K) (s : K) (γup γ : Fin 3 → Fin 3 → K) (DK : Fin 3 → Fin 3 → Fin 3 → K)

/-- first term of `B`: `ε^{cd}{}_b D_c K_da`. -/
def bT1 (a b : Fin 3) : K := ∑ c, ∑ d, epsUud3 γup (lc3 e s) c d b * DK c d a

/-- the "momentum" vector with the traces taken AFTER the derivative: `γ^{pq} D_d K_qp − γ^{ce} D_c K_ed`. -/
def bW (d : Fin 3) : K := (∑ p, ∑ q, γup p q * DK d q p) - ∑ c, ∑ e', γup c e' * DK c e' d

/-- `γ^{df} ε_{afb} W_d`. -/
def bY (a b : Fin 3) : K := ∑ d, ∑ f, γup d f * lc3 e s a f b * bW γup DK d

theorem bY_antisymm : ∀ a b : Fin 3, bY e s γup DK b a + bY e s γup DK a b = 0 := by
  cases3 <;> cases3 <;>
    (simp only [bY, lc3, Fin.sum_univ_three, levicivita_symbol_down3, ↓vec3_0, ↓vec3_1, ↓vec3_2]; ring)

/-- the antisymmetric part of the first term is minus `γ^{df} ε_{afb} W_d` (pure algebra). -/
theorem bT1_antisymm (hγu : Symm γup) (hDK : ∀ c d a, DK c d a = DK c a d) : ∀ a b : Fin 3,
    bT1 e s γup DK a b - bT1 e s γup DK b a + bY e s γup DK a b = 0 := by
  have g10 := hγu 1 0; have g20 := hγu 2 0; have g21 := hγu 2 1
  have d10 := fun c => hDK c 1 0; have d20 := fun c => hDK c 2 0; have d21 := fun c => hDK c 2 1
  cases3 <;> cases3 <;>
    (simp only [bT1, bY, bW, epsUud3, lc3, Fin.sum_univ_three, levicivita_symbol_down3, ↓vec3_0, ↓vec3_1, ↓vec3_2,
       g10, g20, g21, d10, d20, d21]
     ring)

/-- `γ^{ab} ε^{cd}{}_b D_c K_da = 0`. -/
theorem bT1_trace (hγu : Symm γup) (hDK : ∀ c d a, DK c d a = DK c a d) :
    ∑ a, ∑ b, γup a b * bT1 e s γup DK a b = 0 := by
  have g10 := hγu 1 0; have g20 := hγu 2 0; have g21 := hγu 2 1
  have d10 := fun c => hDK c 1 0; have d20 := fun c => hDK c 2 0; have d21 := fun c => hDK c 2 1
  simp only [bT1, epsUud3, lc3, Fin.sum_univ_three, levicivita_symbol_down3, ↓vec3_0, ↓vec3_1, ↓vec3_2,
    g10, g20, g21, d10, d20, d21]
  ring

/-- `γ^{df} ε_{cfc} = 0` summed over `c`: the second term of `B` is trace-free for every vector. -/
theorem lc3_trace (hγu : Symm γup) (V : Fin 3 → K) :
    ∑ a, ∑ b, γup a b * ∑ d, (∑ f, γup d f * lc3 e s a f b) * V d = 0 := by
  have g10 := hγu 1 0; have g20 := hγu 2 0; have g21 := hγu 2 1
  simp only [lc3, Fin.sum_univ_three, levicivita_symbol_down3, ↓vec3_0, ↓vec3_1, ↓vec3_2, g10, g20, g21]
  ring

variable (DKtr : Fin 3 → K) (DKm : Fin 3 → Fin 3 → Fin 3 → K)

/-- the textbook expression split into its two terms, with `ε^{cd}{}_b γ_ac = γ^{df} ε_{afb}`. -/
theorem bweylN_split (hinv : ∀ a e', ∑ c, γ a c * γup c e' = if a = e' then 1 else 0) (a b : Fin 3) :
    bweylN (epsUud3 γup (lc3 e s)) γ DK DKtr DKm a b
      = bT1 e s γup DK a b
        + (1 / 2) * ∑ d, (∑ f, γup d f * lc3 e s a f b) * (DKtr d - ∑ k, DKm k k d) := by
  have Q := fun d => epsUud3_lower γup γ (lc3 e s) hinv a d b
  have R : ∑ d, (∑ c, epsUud3 γup (lc3 e s) c d b * γ a c) * (DKtr d - ∑ k, DKm k k d)
      = ∑ d, (∑ f, γup d f * lc3 e s a f b) * (DKtr d - ∑ k, DKm k k d) := by simp only [Q]
  unfold bweylN bT1
  generalize epsUud3 γup (lc3 e s) = eps at R ⊢
  linear_combination (norm := sum3_ring) (1 / 2 : K) * R

/-- **`B` is trace-free** (exact; no hypothesis on `D_d K`, `D_e K^e_d`). -/
theorem bweylN_tracefree (hγu : Symm γup) (hinv : ∀ a e', ∑ c, γ a c * γup c e' = if a = e' then 1 else 0)
    (hDK : ∀ c d a, DK c d a = DK c a d) :
    traceG3 γup (bweylN (epsUud3 γup (lc3 e s)) γ DK DKtr DKm) = 0 := by
  have h1 := bT1_trace e s γup DK hγu hDK
  have h2 := lc3_trace e s γup hγu (fun d => DKtr d - ∑ k, DKm k k d)
  unfold traceG3
  simp only [bweylN_split e s γup γ DK DKtr DKm hinv]
  linear_combination (norm := sum3_ring) h1 + (1 / 2 : K) * h2

/-- `γ^{df} ε_{bfa} = −γ^{df} ε_{afb}`. -/
theorem lc3_swap (d : Fin 3) : ∀ a b : Fin 3,
    ∑ f, γup d f * lc3 e s b f a = -∑ f, γup d f * lc3 e s a f b := by
  cases3 <;> cases3 <;>
    (simp only [lc3, Fin.sum_univ_three, levicivita_symbol_down3, ↓vec3_0, ↓vec3_1, ↓vec3_2]; ring)

/-- **the antisymmetric part of `B`, exactly**: `B_ab − B_ba = γ^{df} ε_{afb} [(D_d K − D_e K^e{}_d) − (γ^{pq} D_d K_qp − γ^{ce} D_c K_ed)]`,
i.e. the Levi-Civita dual of the failure of the two traces to commute with the derivative. -/
theorem bweylN_antisymm_part (h2 : (2 : K) ≠ 0) (hγu : Symm γup)
    (hinv : ∀ a e', ∑ c, γ a c * γup c e' = if a = e' then 1 else 0)
    (hDK : ∀ c d a, DK c d a = DK c a d) (a b : Fin 3) :
    bweylN (epsUud3 γup (lc3 e s)) γ DK DKtr DKm a b - bweylN (epsUud3 γup (lc3 e s)) γ DK DKtr DKm b a
      = ∑ d, (∑ f, γup d f * lc3 e s a f b) * ((DKtr d - ∑ k, DKm k k d) - bW γup DK d) := by
  rw [bweylN_split e s γup γ DK DKtr DKm hinv a b, bweylN_split e s γup γ DK DKtr DKm hinv b a]
  have I := bT1_antisymm e s γup DK hγu hDK a b
  have hsw : ∑ d, (∑ f, γup d f * lc3 e s b f a) * (DKtr d - ∑ k, DKm k k d)
      = ∑ d, (-∑ f, γup d f * lc3 e s a f b) * (DKtr d - ∑ k, DKm k k d) :=
    Finset.sum_congr rfl fun d _ => by rw [lc3_swap e s γup d a b]
  have hY : bY e s γup DK a b = ∑ d, (∑ f, γup d f * lc3 e s a f b) * bW γup DK d := by
    simp only [bY, Finset.sum_mul]
  have hh : (1 / 2 : K) * 2 = 1 := by field_simp
  rw [hY] at I
  generalize (1 / 2 : K) = hf at hh ⊢
  generalize bW γup DK = W at I ⊢
  linear_combination (norm := sum3_ring) I - hf * hsw
    + (∑ d, (∑ f, γup d f * lc3 e s a f b) * (DKtr d - ∑ k, DKm k k d)) * hh

/-- **`B` is symmetric** when the traces commute with the derivative (`H1`, `H2`), characteristic ≠ 2. -/
theorem bweylN_symm (h2 : (2 : K) ≠ 0) (hγu : Symm γup)
    (hinv : ∀ a e', ∑ c, γ a c * γup c e' = if a = e' then 1 else 0)
    (hDK : ∀ c d a, DK c d a = DK c a d)
    (H1 : ∀ c, ∑ a, ∑ d, γup a d * DK c d a = DKtr c)
    (H2 : ∀ d, ∑ c, ∑ e', γup c e' * DK c e' d = ∑ k, DKm k k d) :
    Symm (bweylN (epsUud3 γup (lc3 e s)) γ DK DKtr DKm) := by
  intro a b
  have hW : ∀ d, DKtr d - ∑ k, DKm k k d = bW γup DK d := fun d => by
    rw [← H1 d, ← H2 d]; rfl
  have hY : ∀ a b, ∑ d, (∑ f, γup d f * lc3 e s a f b) * (DKtr d - ∑ k, DKm k k d) = bY e s γup DK a b := by
    intro a b
    simp only [hW, bY, Finset.sum_mul]
  rw [bweylN_split e s γup γ DK DKtr DKm hinv a b, bweylN_split e s γup γ DK DKtr DKm hinv b a, hY a b, hY b a]
  have I := bT1_antisymm e s γup DK hγu hDK a b
  have J := bY_antisymm e s γup DK a b
  have hh : (1 / 2 : K) * 2 = 1 := by field_simp
  generalize (1 / 2 : K) = hf at hh ⊢
  linear_combination I - hf * J + bY e s γup DK a b * hh

end

end AurelVerif.C10
