/-
Lemmas/Heap.lean — soundness of the alias check of Model/Heap.lean (C02).
Core Lean only.
-/
import AurelVerif.Model.Heap

set_option linter.unusedSimpArgs false
set_option linter.unusedVariables false

namespace AurelVerif.Heap

/-! ## positional environments -/

theorem getE_nil {α : Type} (d : α) (x : Nat) : getE d [] x = d := by
  simp [getE]

theorem getE_setE {α : Type} (d : α) (e : List α) (x y : Nat) (v : α) :
    getE d (setE d e x v) y = if y = x then v else getE d e y := by
  induction x generalizing e y with
  | zero => cases e <;> cases y <;> simp [getE, setE]
  | succ n ih =>
    cases e with
    | nil => cases y <;> simp [getE, setE, ih]
    | cons a e => cases y <;> simp [getE, setE, ih]

theorem length_setE {α : Type} (d : α) (e : List α) (x : Nat) (v : α) :
    e.length ≤ (setE d e x v).length := by
  induction x generalizing e with
  | zero => cases e <;> simp [setE]
  | succ n ih =>
    cases e with
    | nil => simp [setE]
    | cons a e => simp [setE]; exact ih e

theorem getE_of_length_le {α : Type} (d : α) (e : List α) (x : Nat) (h : e.length ≤ x) :
    getE d e x = d := by
  induction e generalizing x with
  | nil => simp [getE]
  | cons a e ih =>
    cases x with
    | zero => simp at h
    | succ n => simp [getE]; exact ih n (by simpa using h)

theorem getE_map {α β : Type} (d : α) (d' : β) (f : α → β) (e : List α) (x : Nat) (h : x < e.length) :
    getE d' (e.map f) x = f (getE d e x) := by
  induction e generalizing x with
  | nil => simp at h
  | cons a e ih =>
    cases x with
    | zero => simp [getE]
    | succ n => simp [getE]; exact ih n (by simpa using h)

/-- `getE` on a mapped argument list -/
theorem getE_map_args {α : Type} (d : α) (f : Nat → α) (args : List Nat) (i : Nat) :
    getE d (args.map f) i = match args[i]? with | some y => f y | none => d := by
  induction args generalizing i with
  | nil => simp [getE]
  | cons a l ih =>
    cases i with
    | zero => simp [getE]
    | succ n => simp [getE, ih]

/-! ## taints -/

theorem mem_join {t u : Taint} {a : Nat} : a ∈ Taint.join t u ↔ a ∈ t ∨ a ∈ u := by
  unfold Taint.join
  simp only [List.mem_append, List.mem_filter]
  constructor
  · rintro (h | ⟨h, _⟩)
    · exact Or.inl h
    · exact Or.inr h
  · rintro (h | h)
    · exact Or.inl h
    · by_cases ht : a ∈ t
      · exact Or.inl ht
      · refine Or.inr ⟨h, ?_⟩
        simp [ht]

theorem mem_dedup' (l : List Nat) : ∀ a, a ∈ dedup l ↔ a ∈ l := by
  induction l with
  | nil => simp [dedup]
  | cons b l ih =>
    intro a
    by_cases hb : (dedup l).contains b = true
    · have hb' : b ∈ l := (ih b).mp (List.contains_iff_mem.mp hb)
      simp only [dedup, hb, if_true, List.mem_cons, ih a]
      constructor
      · intro h; exact Or.inr h
      · intro h
        cases h with
        | inl h => rw [h]; exact hb'
        | inr h => exact h
    · have hb' : b ∉ dedup l := by simpa using hb
      simp [dedup, hb', ih a]

theorem mem_dedup {l : List Nat} {a : Nat} : a ∈ dedup l ↔ a ∈ l := mem_dedup' l a

theorem Taint.leB_sound {t u : Taint} (h : Taint.leB t u = true) : ∀ a ∈ t, a ∈ u := by
  intro a ha
  unfold Taint.leB at h
  have := List.all_eq_true.mp h a ha
  simpa using this

/-! ## the order on abstract states -/

def Taint.le (t u : Taint) : Prop := ∀ a ∈ t, a ∈ u
def AVal.le (a b : AVal) : Prop := Taint.le a.own b.own ∧ Taint.le a.reach b.reach
def Summ.le (a b : Summ) : Prop :=
  (b.ok = true → a.ok = true) ∧ Taint.le a.mutA b.mutA ∧ Taint.le a.mutC b.mutC ∧
  Taint.le a.retOwn b.retOwn ∧ Taint.le a.retReach b.retReach ∧ Taint.le a.esc b.esc
def envLe (e1 e2 : List AVal) : Prop := e1.length ≤ e2.length ∧ ∀ x, (getA e1 x).le (getA e2 x)
def AS.le (a b : AS) : Prop := envLe a.env b.env ∧ (a.leaked = true → b.leaked = true) ∧ a.s.le b.s

theorem Taint.le_refl (t : Taint) : Taint.le t t := fun _ h => h
theorem Taint.le_trans {t u v : Taint} (h1 : Taint.le t u) (h2 : Taint.le u v) : Taint.le t v :=
  fun a h => h2 a (h1 a h)
theorem Taint.le_join_left (t u : Taint) : Taint.le t (t.join u) := fun _ h => mem_join.mpr (Or.inl h)
theorem Taint.le_join_right (t u : Taint) : Taint.le u (t.join u) := fun _ h => mem_join.mpr (Or.inr h)

theorem AVal.le_refl (a : AVal) : a.le a := ⟨Taint.le_refl _, Taint.le_refl _⟩
theorem AVal.le_trans {a b c : AVal} (h1 : a.le b) (h2 : b.le c) : a.le c :=
  ⟨Taint.le_trans h1.1 h2.1, Taint.le_trans h1.2 h2.2⟩
theorem AVal.bot_le (a : AVal) : AVal.bot.le a := ⟨fun _ h => by simp [AVal.bot] at h, fun _ h => by simp [AVal.bot] at h⟩
theorem AVal.le_join_left (a b : AVal) : a.le (a.join b) := ⟨Taint.le_join_left _ _, Taint.le_join_left _ _⟩
theorem AVal.le_join_right (a b : AVal) : b.le (a.join b) := ⟨Taint.le_join_right _ _, Taint.le_join_right _ _⟩

theorem Summ.le_refl (a : Summ) : a.le a :=
  ⟨id, Taint.le_refl _, Taint.le_refl _, Taint.le_refl _, Taint.le_refl _, Taint.le_refl _⟩
theorem Summ.le_trans {a b c : Summ} (h1 : a.le b) (h2 : b.le c) : a.le c :=
  ⟨fun h => h1.1 (h2.1 h), Taint.le_trans h1.2.1 h2.2.1, Taint.le_trans h1.2.2.1 h2.2.2.1,
   Taint.le_trans h1.2.2.2.1 h2.2.2.2.1, Taint.le_trans h1.2.2.2.2.1 h2.2.2.2.2.1,
   Taint.le_trans h1.2.2.2.2.2 h2.2.2.2.2.2⟩
theorem Summ.le_join_left (a b : Summ) : a.le (a.join b) :=
  ⟨fun h => by simp [Summ.join] at h; exact h.1, Taint.le_join_left _ _, Taint.le_join_left _ _,
   Taint.le_join_left _ _, Taint.le_join_left _ _, Taint.le_join_left _ _⟩
theorem Summ.le_join_right (a b : Summ) : b.le (a.join b) :=
  ⟨fun h => by simp [Summ.join] at h; exact h.2, Taint.le_join_right _ _, Taint.le_join_right _ _,
   Taint.le_join_right _ _, Taint.le_join_right _ _, Taint.le_join_right _ _⟩

theorem Summ.mut_le {a b : Summ} (h : a.le b) (c : Bool) : Taint.le (a.mut c) (b.mut c) := by
  cases c
  · simpa [Summ.mut] using h.2.1
  · simpa [Summ.mut] using h.2.2.1

theorem envLe_refl (e : List AVal) : envLe e e := ⟨Nat.le_refl _, fun _ => AVal.le_refl _⟩
theorem envLe_trans {a b c : List AVal} (h1 : envLe a b) (h2 : envLe b c) : envLe a c :=
  ⟨Nat.le_trans h1.1 h2.1, fun x => AVal.le_trans (h1.2 x) (h2.2 x)⟩

theorem AS.le_refl (a : AS) : a.le a := ⟨envLe_refl _, id, Summ.le_refl _⟩
theorem AS.le_trans {a b c : AS} (h1 : a.le b) (h2 : b.le c) : a.le c :=
  ⟨envLe_trans h1.1 h2.1, fun h => h2.2.1 (h1.2.1 h), Summ.le_trans h1.2.2 h2.2.2⟩

theorem AVal.leB_sound {a b : AVal} (h : a.leB b = true) : a.le b := by
  simp [AVal.leB] at h
  exact ⟨Taint.leB_sound h.1, Taint.leB_sound h.2⟩

theorem Summ.leB_sound {a b : Summ} (h : a.leB b = true) : a.le b := by
  simp only [Summ.leB, Bool.and_eq_true] at h
  obtain ⟨⟨⟨⟨⟨h1, h2⟩, h3⟩, h4⟩, h5⟩, h6⟩ := h
  refine ⟨?_, Taint.leB_sound h2, Taint.leB_sound h3, Taint.leB_sound h4, Taint.leB_sound h5, Taint.leB_sound h6⟩
  intro hb
  simpa [hb] using h1

theorem envLeB_sound : ∀ {e1 e2 : List AVal}, envLeB e1 e2 = true → envLe e1 e2
  | [], e2, _ => ⟨Nat.zero_le _, fun x => by simp [getA, getE]; exact AVal.bot_le _⟩
  | _ :: _, [], h => by simp [envLeB] at h
  | a :: e1, b :: e2, h => by
    simp only [envLeB, Bool.and_eq_true] at h
    have ih := envLeB_sound h.2
    refine ⟨by simpa using ih.1, fun x => ?_⟩
    cases x with
    | zero => simpa [getA, getE] using AVal.leB_sound h.1
    | succ n => simpa [getA, getE] using ih.2 n

theorem AS.leB_sound {a b : AS} (h : a.leB b = true) : a.le b := by
  simp only [AS.leB, Bool.and_eq_true] at h
  refine ⟨envLeB_sound h.1.1, ?_, Summ.leB_sound h.2⟩
  intro ha
  simpa [ha] using h.1.2

theorem envJoin_length_left : ∀ (e1 e2 : List AVal), e1.length ≤ (envJoin e1 e2).length
  | [], e2 => by simp [envJoin]
  | a :: e1, [] => by simp [envJoin]
  | a :: e1, b :: e2 => by simp [envJoin]; exact envJoin_length_left e1 e2

theorem envJoin_length_right : ∀ (e1 e2 : List AVal), e2.length ≤ (envJoin e1 e2).length
  | [], e2 => by simp [envJoin]
  | a :: e1, [] => by simp [envJoin]
  | a :: e1, b :: e2 => by simp [envJoin]; exact envJoin_length_right e1 e2

theorem envJoin_le_left : ∀ (e1 e2 : List AVal) (x : Nat), (getA e1 x).le (getA (envJoin e1 e2) x)
  | [], e2, x => by simp [getA, getE]; exact AVal.bot_le _
  | a :: e1, [], x => by simp [envJoin]; exact AVal.le_refl _
  | a :: e1, b :: e2, x => by
    cases x with
    | zero => simp [envJoin, getA, getE]; exact AVal.le_join_left _ _
    | succ n => simpa [envJoin, getA, getE] using envJoin_le_left e1 e2 n

theorem envJoin_le_right : ∀ (e1 e2 : List AVal) (x : Nat), (getA e2 x).le (getA (envJoin e1 e2) x)
  | [], e2, x => by simp [envJoin]; exact AVal.le_refl _
  | a :: e1, [], x => by simp [getA, getE]; exact AVal.bot_le _
  | a :: e1, b :: e2, x => by
    cases x with
    | zero => simp [envJoin, getA, getE]; exact AVal.le_join_right _ _
    | succ n => simpa [envJoin, getA, getE] using envJoin_le_right e1 e2 n

theorem AS.le_join_left (a b : AS) : a.le (a.join b) :=
  ⟨⟨envJoin_length_left _ _, envJoin_le_left _ _⟩, fun h => by simp [AS.join, h], Summ.le_join_left _ _⟩
theorem AS.le_join_right (a b : AS) : b.le (a.join b) :=
  ⟨⟨envJoin_length_right _ _, envJoin_le_right _ _⟩, fun h => by simp [AS.join, h], Summ.le_join_right _ _⟩

theorem AS.le_fail (a : AS) : a.le a.fail :=
  ⟨envLe_refl _, id, by simp [AS.fail, Summ.le]; exact ⟨Taint.le_refl _, Taint.le_refl _, Taint.le_refl _, Taint.le_refl _, Taint.le_refl _⟩⟩

/-- what `loopFix` returns: above the start, and stable unless marked failed -/
theorem loopFix_spec (f : AS → AS) : ∀ (n : Nat) (σ : AS),
    σ.le (loopFix f n σ) ∧ ((loopFix f n σ).s.ok = true → (f (loopFix f n σ)).leB (loopFix f n σ) = true)
  | 0, σ => ⟨AS.le_fail σ, by simp [loopFix, AS.fail]⟩
  | n + 1, σ => by
    by_cases h : (f σ).leB σ = true
    · simp [loopFix, h]; exact AS.le_refl σ
    · have ih := loopFix_spec f n (σ.join (f σ))
      simp only [loopFix, h]
      exact ⟨AS.le_trans (AS.le_join_left _ _) ih.1, ih.2⟩

theorem loopFix_stable (f : AS → AS) (n : Nat) (σ : AS) (h : (f σ).leB σ = true) :
    loopFix f (n + 1) σ = σ := by
  simp [loopFix, h]

/-! ## the summary only grows -/

theorem applyCall_s_le (sm : Summ) (as : List AVal) (x : Var) (force : AVal) (σ : AS) :
    σ.s.le (applyCall sm as x force σ).s := by
  refine ⟨?_, ?_, ?_, ?_, ?_, ?_⟩
  · intro h; simp [applyCall] at h; exact h.1
  · exact Taint.le_join_left _ _
  · exact Taint.le_join_left _ _
  · exact Taint.le_refl _
  · exact Taint.le_refl _
  · exact Taint.le_join_left _ _

theorem analyse_s_mono (S : List Summ) (kf : Key → Option FnId) :
    ∀ (s : Stmt) (σ : AS), σ.s.le (analyse S kf s σ).s := by
  intro s
  induction s with
  | skip => intro σ; exact Summ.le_refl _
  | seq a b iha ihb => intro σ; exact Summ.le_trans (iha σ) (ihb _)
  | ite a b iha _ => intro σ; exact Summ.le_trans (iha σ) (Summ.le_join_left _ _)
  | loop b _ => intro σ; exact (loopFix_spec _ _ σ).1.2.2
  | join x ys => intro σ; exact Summ.le_refl _
  | alias x y => intro σ; exact Summ.le_refl _
  | view x ys => intro σ; exact Summ.le_refl _
  | param x i => intro σ; exact Summ.le_refl _
  | glob x k => intro σ; exact Summ.le_refl _
  | cached x k =>
    intro σ
    simp only [analyse]
    cases kf k with
    | none => exact Summ.le_refl _
    | some f => exact applyCall_s_le _ _ _ _ _
  | call x f args => intro σ; exact applyCall_s_le _ _ _ _ _
  | mutate x =>
    intro σ
    exact ⟨id, Taint.le_join_left _ _, Taint.le_join_left _ _, Taint.le_refl _, Taint.le_refl _, Taint.le_refl _⟩
  | cmutate x =>
    intro σ
    exact ⟨id, Taint.le_refl _, Taint.le_join_left _ _, Taint.le_refl _, Taint.le_refl _, Taint.le_refl _⟩
  | absorb x y =>
    intro σ
    simp only [analyse]
    split
    · exact ⟨id, Taint.le_refl _, Taint.le_refl _, Taint.le_refl _, Taint.le_refl _, Taint.le_join_left _ _⟩
    · exact Summ.le_refl _
  | store k x => intro σ; exact Summ.le_refl _
  | ret x =>
    intro σ
    exact ⟨id, Taint.le_refl _, Taint.le_refl _, Taint.le_join_left _ _, Taint.le_join_left _ _, Taint.le_refl _⟩

/-! ## what an abstract state says about a concrete one -/

/-- atom `a` covers root `r` in an activation whose arguments are `pv` -/
def holds (pv : List Val) (a r : Nat) : Prop :=
  match a with
  | 0 => True
  | n + 1 => if n % 2 = 0 then r ∈ (getV pv (n / 2)).own else r ∈ (getV pv (n / 2)).reach

/-- root `r` was allocated during the activation (`n₀ ≤ r`) or is covered by an atom of `t` -/
def descrRoot (pv : List Val) (n₀ : Nat) (t : Taint) (r : Nat) : Prop :=
  n₀ ≤ r ∨ ∃ a ∈ t, holds pv a r

def descrL (pv : List Val) (n₀ : Nat) (t : Taint) (rs : List Nat) : Prop :=
  ∀ r ∈ rs, descrRoot pv n₀ t r

def descrVal (pv : List Val) (n₀ : Nat) (a : AVal) (v : Val) : Prop :=
  descrL pv n₀ a.own v.own ∧ descrL pv n₀ a.reach v.reach

def descrEnv (pv : List Val) (n₀ : Nat) (ae : List AVal) (ce : List Val) : Prop :=
  ce.length ≤ ae.length ∧ ∀ x, descrVal pv n₀ (getA ae x) (getV ce x)

structure Inv (pv : List Val) (h₀ : Heap) (n₀ : Nat) (σ : AS) (st : St) : Prop where
  params : st.params = pv
  base : st.base = n₀
  next : n₀ ≤ st.h.next
  env : st.ret = none → descrEnv pv n₀ σ.env st.env
  leaked : st.ret = none → st.leaked = true → σ.leaked = true
  ret : ∀ v, st.ret = some v → descrVal pv n₀ ⟨σ.s.retOwn, σ.s.retReach⟩ v
  ver : ∀ c r, st.h.ver c r ≠ h₀.ver c r → descrRoot pv n₀ (σ.s.mut c) r
  esc : descrL pv n₀ σ.s.esc st.esc

theorem descrRoot_mono {pv n₀ t u r} (h : Taint.le t u) : descrRoot pv n₀ t r → descrRoot pv n₀ u r := by
  rintro (h1 | ⟨a, ha, hh⟩)
  · exact Or.inl h1
  · exact Or.inr ⟨a, h a ha, hh⟩

theorem descrL_mono {pv n₀ t u rs} (h : Taint.le t u) : descrL pv n₀ t rs → descrL pv n₀ u rs :=
  fun hd r hr => descrRoot_mono h (hd r hr)

theorem descrVal_mono {pv n₀ a b v} (h : AVal.le a b) : descrVal pv n₀ a v → descrVal pv n₀ b v :=
  fun hd => ⟨descrL_mono h.1 hd.1, descrL_mono h.2 hd.2⟩

theorem descrEnv_mono {pv n₀ ae be ce} (h : envLe ae be) : descrEnv pv n₀ ae ce → descrEnv pv n₀ be ce :=
  fun hd => ⟨Nat.le_trans hd.1 h.1, fun x => descrVal_mono (h.2 x) (hd.2 x)⟩

theorem descrVal_none (pv n₀ a) : descrVal pv n₀ a Val.none :=
  ⟨fun r h => by simp [Val.none] at h, fun r h => by simp [Val.none] at h⟩

theorem Inv_mono {pv h₀ n₀ σ τ st} (h : AS.le σ τ) (hi : Inv pv h₀ n₀ σ st) : Inv pv h₀ n₀ τ st where
  params := hi.params
  base := hi.base
  next := hi.next
  env := fun hr => descrEnv_mono h.1 (hi.env hr)
  leaked := fun hr hl => h.2.1 (hi.leaked hr hl)
  ret := fun v hv => descrVal_mono ⟨h.2.2.2.2.2.1, h.2.2.2.2.2.2.1⟩ (hi.ret v hv)
  ver := fun c r hc => descrRoot_mono (Summ.mut_le h.2.2 c) (hi.ver c r hc)
  esc := descrL_mono h.2.2.2.2.2.2.2 hi.esc

/-- once the activation has returned only the summary matters -/
theorem Inv_returned {pv h₀ n₀ σ τ st} (hr : st.ret.isSome = true) (h : Summ.le σ.s τ.s)
    (hi : Inv pv h₀ n₀ σ st) : Inv pv h₀ n₀ τ st where
  params := hi.params
  base := hi.base
  next := hi.next
  env := fun hn => by simp [hn] at hr
  leaked := fun hn => by simp [hn] at hr
  ret := fun v hv => descrVal_mono ⟨h.2.2.2.1, h.2.2.2.2.1⟩ (hi.ret v hv)
  ver := fun c r hc => descrRoot_mono (Summ.mut_le h c) (hi.ver c r hc)
  esc := descrL_mono h.2.2.2.2.2 hi.esc

/-! ## environment updates -/

theorem length_setE_eq {α : Type} (d : α) (e : List α) (x : Nat) (v : α) :
    (setE d e x v).length = max e.length (x + 1) := by
  induction x generalizing e with
  | zero => cases e <;> simp [setE] <;> omega
  | succ n ih =>
    cases e with
    | nil => simp [setE, ih]
    | cons a e => simp [setE, ih]

theorem descrEnv_set {pv n₀ ae ce} (x : Var) {a : AVal} {v : Val}
    (he : descrEnv pv n₀ ae ce) (hv : descrVal pv n₀ a v) :
    descrEnv pv n₀ (setA ae x a) (setV ce x v) := by
  refine ⟨?_, fun y => ?_⟩
  · have := he.1
    simp only [setA, setV, length_setE_eq]
    omega
  · simp only [getA, setA, getV, setV, getE_setE]
    by_cases hy : y = x
    · simp [hy]; exact hv
    · simp [hy]; exact he.2 y

theorem getV_absorbAll_lt (ce : List Val) (rs : List Nat) (x : Nat) (h : x < ce.length) :
    getV (absorbAll ce rs) x = { getV ce x with reach := (getV ce x).reach ++ rs } := by
  simp only [getV, absorbAll]
  rw [getE_map Val.none Val.none _ ce x h]

theorem getA_absorbA_lt (ae : List AVal) (t : Taint) (x : Nat) (h : x < ae.length) :
    getA (absorbA ae t) x = { getA ae x with reach := (getA ae x).reach.join t } := by
  simp only [getA, absorbA]
  rw [getE_map AVal.bot AVal.bot _ ae x h]

theorem descrEnv_absorb {pv n₀ ae ce t rs}
    (he : descrEnv pv n₀ ae ce) (ht : descrL pv n₀ t rs) :
    descrEnv pv n₀ (absorbA ae t) (absorbAll ce rs) := by
  refine ⟨by simpa [absorbA, absorbAll] using he.1, fun x => ?_⟩
  by_cases hx : x < ce.length
  · have hx' : x < ae.length := Nat.lt_of_lt_of_le hx he.1
    rw [getV_absorbAll_lt ce rs x hx, getA_absorbA_lt ae t x hx']
    refine ⟨(he.2 x).1, fun r hr => ?_⟩
    simp only [List.mem_append] at hr
    cases hr with
    | inl h => exact descrRoot_mono (Taint.le_join_left _ _) ((he.2 x).2 r h)
    | inr h => exact descrRoot_mono (Taint.le_join_right _ _) (ht r h)
  · have : getV (absorbAll ce rs) x = Val.none := by
      apply getE_of_length_le
      have : ce.length ≤ x := Nat.le_of_not_lt hx
      simpa [absorbAll] using this
    rw [this]
    exact descrVal_none _ _ _

theorem descr_reachOf {pv n₀ ae ce} (ys : List Var) (he : descrEnv pv n₀ ae ce) :
    descrL pv n₀ (reachA ae ys) (reachOf ce ys) := by
  intro r hr
  simp only [reachOf, List.mem_flatMap] at hr
  obtain ⟨y, hy, hr⟩ := hr
  refine descrRoot_mono ?_ ((he.2 y).2 r hr)
  intro a ha
  simp only [reachA]
  exact mem_dedup.mpr (List.mem_flatMap.mpr ⟨y, hy, ha⟩)

theorem bump_ne {rs : List Nat} {f : Nat → Nat} {r : Nat} (h : bump rs f r ≠ f r) : r ∈ rs := by
  unfold bump at h
  by_cases hr : r ∈ rs
  · exact hr
  · simp [hr] at h

/-- one step of the activation: everything the step may have changed is accounted for by `σ'` -/
theorem Inv_step {pv h₀ n₀ σ σ' st st'} (hi : Inv pv h₀ n₀ σ st)
    (hp : st'.params = st.params) (hb : st'.base = st.base) (hn : st.h.next ≤ st'.h.next)
    (henv : st'.ret = none → descrEnv pv n₀ σ'.env st'.env)
    (hl : st'.ret = none → st'.leaked = true → σ'.leaked = true)
    (hret : ∀ v, st'.ret = some v → descrVal pv n₀ ⟨σ'.s.retOwn, σ'.s.retReach⟩ v)
    (hver : ∀ c r, st'.h.ver c r ≠ st.h.ver c r → descrRoot pv n₀ (σ'.s.mut c) r)
    (hs : Summ.le σ.s σ'.s)
    (hesc : descrL pv n₀ σ'.s.esc st'.esc) : Inv pv h₀ n₀ σ' st' where
  params := hp.trans hi.params
  base := hb.trans hi.base
  next := Nat.le_trans hi.next hn
  env := henv
  leaked := hl
  ret := hret
  ver := fun c r hc => by
    by_cases h : st'.h.ver c r = st.h.ver c r
    · exact descrRoot_mono (Summ.mut_le hs c) (hi.ver c r (by rw [← h]; exact hc))
    · exact hver c r h
  esc := hesc

/-! ## calls: a callee-side description becomes a caller-side one -/

theorem mem_inst {as : List AVal} {t : Taint} {b : Nat} :
    b ∈ inst as t ↔ ∃ a ∈ t, b ∈ instAtom as a := by
  simp only [inst]
  rw [mem_dedup, List.mem_flatMap]

theorem inst_mono {as : List AVal} {t u : Taint} (h : Taint.le t u) : Taint.le (inst as t) (inst as u) := by
  intro b hb
  obtain ⟨a, ha, hb⟩ := mem_inst.mp hb
  exact mem_inst.mpr ⟨a, h a ha, hb⟩

theorem getV_map_args (ce : List Val) (args : List Var) (i : Nat) :
    getV (args.map (getV ce)) i = match args[i]? with | some y => getV ce y | none => Val.none := by
  simp only [getV]
  exact getE_map_args Val.none (getE Val.none ce) args i

theorem getA_map_args (ae : List AVal) (args : List Var) (i : Nat) :
    getA (args.map (getA ae)) i = match args[i]? with | some y => getA ae y | none => AVal.bot := by
  simp only [getA]
  exact getE_map_args AVal.bot (getE AVal.bot ae) args i

theorem holds_inst {pv n₀ ae ce} (args : List Var) (he : descrEnv pv n₀ ae ce) (m : Nat) (hm : n₀ ≤ m)
    (t : Taint) (r : Nat) (h : descrRoot (args.map (getV ce)) m t r) :
    descrRoot pv n₀ (inst (args.map (getA ae)) t) r := by
  rcases h with h | ⟨a, ha, hh⟩
  · exact Or.inl (Nat.le_trans hm h)
  · cases a with
    | zero => exact Or.inr ⟨0, mem_inst.mpr ⟨0, ha, by simp [instAtom]⟩, trivial⟩
    | succ n =>
      simp only [holds] at hh
      by_cases hpar : n % 2 = 0
      · simp only [hpar, if_true] at hh
        rw [getV_map_args] at hh
        cases hy : args[n / 2]? with
        | none => simp [hy, Val.none] at hh
        | some y =>
          simp only [hy] at hh
          refine descrRoot_mono ?_ ((he.2 y).1 r hh)
          intro b hb
          refine mem_inst.mpr ⟨n + 1, ha, ?_⟩
          simp only [instAtom, hpar, if_true]
          rw [getA_map_args]
          simpa [hy] using hb
      · simp only [hpar, if_false] at hh
        rw [getV_map_args] at hh
        cases hy : args[n / 2]? with
        | none => simp [hy, Val.none] at hh
        | some y =>
          simp only [hy] at hh
          refine descrRoot_mono ?_ ((he.2 y).2 r hh)
          intro b hb
          refine mem_inst.mpr ⟨n + 1, ha, ?_⟩
          simp only [instAtom, hpar, if_false]
          rw [getA_map_args]
          simpa [hy] using hb

theorem Heap.ver_cache (h : Heap) (c : List (Key × Val)) (k : Bool) :
    ({ h with cache := c } : Heap).ver k = h.ver k := by
  cases k <;> rfl

theorem Inv_cache {pv h₀ n₀ σ st} (c : List (Key × Val)) (hi : Inv pv h₀ n₀ σ st) :
    Inv pv h₀ n₀ σ { st with h := { st.h with cache := c } } where
  params := hi.params
  base := hi.base
  next := hi.next
  env := hi.env
  leaked := hi.leaked
  ret := hi.ret
  ver := fun k r hc => hi.ver k r (by simpa [Heap.ver_cache] using hc)
  esc := hi.esc

/-- the caller's invariant after a finished activation of a function whose table entry is `sm` -/
theorem Inv_call {pv h₀ n₀ σ st} {sm : Summ} {τ : AS} (x : Var) (args : List Var) (force : AVal) (st' : St)
    (hi : Inv pv h₀ n₀ σ st) (hr : st.ret = none)
    (hcal : Inv (args.map (getV st.env)) st.h st.h.next τ st')
    (hle : τ.s.le sm) :
    Inv pv h₀ n₀ (applyCall sm (args.map (getA σ.env)) x force σ) (finishCall st x st') := by
  have he := hi.env hr
  have hinst : ∀ (t u : Taint) (r : Nat), Taint.le t u →
      descrRoot (args.map (getV st.env)) st.h.next t r →
      descrRoot pv n₀ (inst (args.map (getA σ.env)) u) r :=
    fun t u r htu h => descrRoot_mono (inst_mono htu) (holds_inst args he st.h.next hi.next t r h)
  have hesc : descrL pv n₀ (inst (args.map (getA σ.env)) sm.esc) st'.esc :=
    fun r hr' => hinst _ _ r hle.2.2.2.2.2 (hcal.esc r hr')
  apply Inv_step hi
  · rfl
  · rfl
  · exact hcal.next
  · intro _
    simp only [applyCall, finishCall]
    apply descrEnv_set
    · exact descrEnv_absorb he hesc
    · cases hv : st'.ret with
      | none => exact descrVal_none _ _ _
      | some v =>
        have hd := hcal.ret v hv
        refine ⟨fun r hr' => ?_, fun r hr' => ?_⟩
        · exact descrRoot_mono (Taint.le_join_right _ _) (hinst _ _ r hle.2.2.2.1 (hd.1 r hr'))
        · exact descrRoot_mono (Taint.le_join_right _ _) (hinst _ _ r hle.2.2.2.2.1 (hd.2 r hr'))
  · intro hn hl
    exact hi.leaked hr hl
  · intro v hv
    simp [finishCall, hr] at hv
  · intro c r hc
    have := hcal.ver c r hc
    cases c with
    | false =>
      simp only [applyCall, Summ.mut]
      exact descrRoot_mono (Taint.le_join_right _ _) (hinst _ _ r hle.2.1 (by simpa [Summ.mut] using this))
    | true =>
      simp only [applyCall, Summ.mut]
      exact descrRoot_mono (Taint.le_join_right _ _) (hinst _ _ r hle.2.2.1 (by simpa [Summ.mut] using this))
  · exact applyCall_s_le _ _ _ _ _
  · intro r hr'
    simp only [finishCall, List.mem_append] at hr'
    simp only [applyCall]
    cases hr' with
    | inl h => exact descrRoot_mono (Taint.le_join_left _ _) (hi.esc r h)
    | inr h => exact descrRoot_mono (Taint.le_join_right _ _) (hesc r h)

/-! ## soundness of the abstract interpreter -/


def Consistent (p : Program) (S : List Summ) : Prop :=
  ∀ f fn, p.fns[f]? = some fn → (bodySumm S p.keyFn fn).le (getE Summ.bot S f)

theorem Inv_init (vals : List Val) (h : Heap) (ch : List Bool) :
    Inv vals h h.next ⟨[], false, Summ.bot⟩ (St.init vals h ch) where
  params := rfl
  base := rfl
  next := Nat.le_refl _
  env := fun _ => ⟨Nat.le_refl _, fun x => by simp [St.init, getV, getE]; exact descrVal_none _ _ _⟩
  leaked := fun _ h => by simp [St.init] at h
  ret := fun v h => by simp [St.init] at h
  ver := fun c r h => absurd rfl h
  esc := fun r h => by simp [St.init] at h

theorem Inv_ch {pv h₀ n₀ σ st} (cs : List Bool) (hi : Inv pv h₀ n₀ σ st) :
    Inv pv h₀ n₀ σ { st with ch := cs } where
  params := hi.params
  base := hi.base
  next := hi.next
  env := hi.env
  leaked := hi.leaked
  ret := hi.ret
  ver := hi.ver
  esc := hi.esc

theorem envLe_absorbA (ae : List AVal) (t : Taint) : envLe ae (absorbA ae t) := by
  refine ⟨by simp [absorbA], fun x => ?_⟩
  by_cases hx : x < ae.length
  · rw [getA_absorbA_lt ae t x hx]
    exact ⟨Taint.le_refl _, Taint.le_join_left _ _⟩
  · have h1 : getA ae x = AVal.bot := getE_of_length_le _ _ _ (Nat.le_of_not_lt hx)
    rw [h1]
    exact AVal.bot_le _

theorem exec_sound (p : Program) (S : List Summ) (hc : Consistent p S) :
    ∀ (fuel : Nat) (s : Stmt) (σ : AS) (st st' : St) (pv : List Val) (h₀ : Heap) (n₀ : Nat),
      exec p fuel s st = some st' → (analyse S p.keyFn s σ).s.ok = true →
      Inv pv h₀ n₀ σ st → Inv pv h₀ n₀ (analyse S p.keyFn s σ) st' := by
  intro fuel
  induction fuel with
  | zero => intro s σ st st' pv h₀ n₀ h; simp [exec] at h
  | succ fuel ih =>
    intro s σ st st' pv h₀ n₀ hex hok hi
    by_cases hret : st.ret.isSome = true
    · simp only [exec, hret, if_true] at hex
      cases hex
      exact Inv_returned hret (analyse_s_mono S p.keyFn s σ) hi
    · have hr : st.ret = none := by
        cases h : st.ret with
        | none => rfl
        | some v => simp [h] at hret
      cases s with
      | skip =>
        simp only [exec, hret] at hex
        cases hex
        exact hi
      | seq a b =>
        simp only [exec, hret] at hex
        cases h1 : exec p fuel a st with
        | none => simp [h1] at hex
        | some st1 =>
          simp only [h1] at hex
          have hoka : (analyse S p.keyFn a σ).s.ok = true := (analyse_s_mono S p.keyFn b _).1 hok
          exact ih b _ st1 st' pv h₀ n₀ hex hok (ih a σ st st1 pv h₀ n₀ h1 hoka hi)
      | ite a b =>
        simp only [exec, hret] at hex
        have hokab : (analyse S p.keyFn a σ).s.ok = true ∧ (analyse S p.keyFn b σ).s.ok = true := by
          simpa [analyse, AS.join, Summ.join] using hok
        cases hch : st.ch with
        | nil =>
          simp only [hch] at hex
          exact Inv_mono (AS.le_join_right _ _) (ih b σ st st' pv h₀ n₀ hex hokab.2 hi)
        | cons c cs =>
          simp only [hch] at hex
          cases c with
          | true =>
            simp only [if_true] at hex
            exact Inv_mono (AS.le_join_left _ _) (ih a σ _ st' pv h₀ n₀ hex hokab.1 (Inv_ch cs hi))
          | false =>
            simp only [Bool.false_eq_true, if_false] at hex
            exact Inv_mono (AS.le_join_right _ _) (ih b σ _ st' pv h₀ n₀ hex hokab.2 (Inv_ch cs hi))
      | loop b =>
        simp only [exec, hret] at hex
        have hspec := loopFix_spec (fun τ => analyse S p.keyFn b τ) loopRounds σ
        have hdef : analyse S p.keyFn (.loop b) σ = loopFix (fun τ => analyse S p.keyFn b τ) loopRounds σ := rfl
        rw [hdef] at hok ⊢
        have hstab := hspec.2 hok
        have hi' := Inv_mono hspec.1 hi
        cases hch : st.ch with
        | nil =>
          simp only [hch] at hex
          cases hex
          exact hi'
        | cons c cs =>
          simp only [hch] at hex
          cases c with
          | false =>
            simp only [Bool.false_eq_true, if_false] at hex
            cases hex
            exact Inv_ch cs hi'
          | true =>
            simp only [if_true] at hex
            cases h1 : exec p fuel b { st with ch := cs } with
            | none => simp [h1] at hex
            | some st1 =>
              simp only [h1] at hex
              have hle := AS.leB_sound hstab
              have hokb : (analyse S p.keyFn b (loopFix (fun τ => analyse S p.keyFn b τ) loopRounds σ)).s.ok = true :=
                hle.2.2.1 hok
              have hi1 := Inv_mono hle (ih b _ _ st1 pv h₀ n₀ h1 hokb (Inv_ch cs hi'))
              have hfix : analyse S p.keyFn (.loop b) (loopFix (fun τ => analyse S p.keyFn b τ) loopRounds σ)
                  = loopFix (fun τ => analyse S p.keyFn b τ) loopRounds σ :=
                loopFix_stable _ 7 _ hstab
              have := ih (.loop b) _ st1 st' pv h₀ n₀ hex (by rw [hfix]; exact hok) hi1
              rw [hfix] at this
              exact this
      | join x ys =>
        simp only [exec, hret] at hex
        cases hex
        have he := hi.env hr
        refine Inv_step hi ?_ ?_ ?_ ?_ ?_ ?_ ?_ ?_ ?_
        · rfl
        · rfl
        · exact (Nat.le_succ _)
        · intro _
          apply descrEnv_set x he
          refine ⟨fun r h => ?_, fun r h => ?_⟩
          · simp only [List.mem_singleton] at h
            exact Or.inl (h ▸ hi.next)
          · simp only [List.mem_cons] at h
            cases h with
            | inl h => exact Or.inl (h ▸ hi.next)
            | inr h => exact descr_reachOf ys he r h
        · exact fun h l => hi.leaked hr l
        · intro v hv; simp [hr] at hv
        · intro c r hcr; exact absurd (by cases c <;> rfl) hcr
        · exact Summ.le_refl _
        · exact hi.esc
      | alias x y =>
        simp only [exec, hret] at hex
        cases hex
        have he := hi.env hr
        refine Inv_step hi ?_ ?_ ?_ ?_ ?_ ?_ ?_ ?_ ?_
        · rfl
        · rfl
        · exact (Nat.le_refl _)
        · intro _; exact descrEnv_set x he (he.2 y)
        · exact fun h l => hi.leaked hr l
        · intro v hv; simp [hr] at hv
        · intro c r hcr; exact absurd rfl hcr
        · exact Summ.le_refl _
        · exact hi.esc
      | view x ys =>
        simp only [exec, hret] at hex
        cases hex
        have he := hi.env hr
        refine Inv_step hi ?_ ?_ ?_ ?_ ?_ ?_ ?_ ?_ ?_
        · rfl
        · rfl
        · exact (Nat.le_succ _)
        · intro _
          exact descrEnv_set x he ⟨descr_reachOf ys he, descr_reachOf ys he⟩
        · exact fun h l => hi.leaked hr l
        · intro v hv; simp [hr] at hv
        · intro c r hcr; exact absurd (by cases c <;> rfl) hcr
        · exact Summ.le_refl _
        · exact hi.esc
      | param x i =>
        simp only [exec, hret] at hex
        cases hex
        have he := hi.env hr
        refine Inv_step hi ?_ ?_ ?_ ?_ ?_ ?_ ?_ ?_ ?_
        · rfl
        · rfl
        · exact (Nat.le_refl _)
        · intro _
          apply descrEnv_set x he
          rw [hi.params]
          refine ⟨fun r h => Or.inr ⟨2 * i + 1, by simp, ?_⟩, fun r h => Or.inr ⟨2 * i + 2, by simp, ?_⟩⟩
          · have h1 : (2 * i) % 2 = 0 := by omega
            have h2 : (2 * i) / 2 = i := by omega
            simp only [holds, h1, h2, if_true]
            exact h
          · have h1 : ¬ ((2 * i + 1) % 2 = 0) := by omega
            have h2 : (2 * i + 1) / 2 = i := by omega
            simp only [holds, h1, h2, if_false]
            exact h
        · exact fun h l => hi.leaked hr l
        · intro v hv; simp [hr] at hv
        · intro c r hcr; exact absurd rfl hcr
        · exact Summ.le_refl _
        · exact hi.esc
      | glob x k =>
        simp only [exec, hret] at hex
        cases hl : st.h.cache.lookup k with
        | none => simp [hl] at hex
        | some v =>
          simp only [hl] at hex
          cases hex
          have he := hi.env hr
          refine Inv_step hi ?_ ?_ ?_ ?_ ?_ ?_ ?_ ?_ ?_
          · rfl
          · rfl
          · exact (Nat.le_refl _)
          · intro _
            exact descrEnv_set x he ⟨fun r _ => Or.inr ⟨0, by simp, trivial⟩, fun r _ => Or.inr ⟨0, by simp, trivial⟩⟩
          · exact fun h l => hi.leaked hr l
          · intro v hv; simp [hr] at hv
          · intro c r hcr; exact absurd rfl hcr
          · exact Summ.le_refl _
          · exact hi.esc
      | mutate x =>
        simp only [exec, hret] at hex
        cases hex
        have he := hi.env hr
        refine Inv_step hi ?_ ?_ ?_ ?_ ?_ ?_ ?_ ?_ ?_
        · rfl
        · rfl
        · exact (Nat.le_refl _)
        · intro _; exact he
        · exact fun h l => hi.leaked hr l
        · intro v hv; simp [hr] at hv
        · intro c r hcr
          have hmem : r ∈ (getV st.env x).own := by
            cases c
            · exact bump_ne (by simpa [Heap.ver] using hcr)
            · exact bump_ne (by simpa [Heap.ver] using hcr)
          have := (he.2 x).1 r hmem
          cases c
          · exact descrRoot_mono (Taint.le_join_right _ _) this
          · exact descrRoot_mono (Taint.le_join_right _ _) this
        · exact analyse_s_mono S p.keyFn (.mutate x) σ
        · exact hi.esc
      | cmutate x =>
        simp only [exec, hret] at hex
        cases hex
        have he := hi.env hr
        refine Inv_step hi ?_ ?_ ?_ ?_ ?_ ?_ ?_ ?_ ?_
        · rfl
        · rfl
        · exact (Nat.le_refl _)
        · intro _; exact he
        · exact fun h l => hi.leaked hr l
        · intro v hv; simp [hr] at hv
        · intro c r hcr
          cases c
          · exact absurd rfl hcr
          · have hmem : r ∈ (getV st.env x).own := bump_ne (by simpa [Heap.ver] using hcr)
            exact descrRoot_mono (Taint.le_join_right _ _) ((he.2 x).1 r hmem)
        · exact analyse_s_mono S p.keyFn (.cmutate x) σ
        · exact hi.esc
      | store k x =>
        simp only [exec, hret] at hex
        cases hex
        exact Inv_cache _ hi
      | ret x =>
        simp only [exec, hret] at hex
        cases hex
        have he := hi.env hr
        refine Inv_step hi ?_ ?_ ?_ ?_ ?_ ?_ ?_ ?_ ?_
        · rfl
        · rfl
        · exact (Nat.le_refl _)
        · intro h; simp at h
        · intro h; simp at h
        · intro v hv
          simp only [Option.some.injEq] at hv
          subst hv
          exact ⟨descrL_mono (Taint.le_join_right _ _) (he.2 x).1, descrL_mono (Taint.le_join_right _ _) (he.2 x).2⟩
        · intro c r hcr; exact absurd rfl hcr
        · exact analyse_s_mono S p.keyFn (.ret x) σ
        · exact hi.esc
      | absorb x y =>
        simp only [exec, hret] at hex
        cases hex
        have he := hi.env hr
        have hvis : (st.leaked || (getV st.env x).own.any (fun r => decide (r < st.base))) = true →
            (σ.leaked || !(getA σ.env x).own.isEmpty) = true := by
          intro h
          simp only [Bool.or_eq_true] at h
          cases h with
          | inl h => simp [hi.leaked hr h]
          | inr h =>
            obtain ⟨r, hrm, hlt⟩ := List.any_eq_true.mp h
            have hlt' : r < n₀ := by simpa [hi.base] using hlt
            cases (he.2 x).1 r hrm with
            | inl h' => exact absurd h' (Nat.not_le_of_lt hlt')
            | inr h' =>
              obtain ⟨a, ha, _⟩ := h'
              cases hown : (getA σ.env x).own with
              | nil => simp [hown] at ha
              | cons b l => simp
        refine Inv_step hi ?_ ?_ ?_ ?_ ?_ ?_ ?_ ?_ ?_
        · rfl
        · rfl
        · exact Nat.le_refl _
        · intro _
          simp only [analyse]
          exact descrEnv_absorb he (he.2 y).2
        · intro _ hl
          simp only [analyse]
          exact hvis hl
        · intro v hv; simp [hr] at hv
        · intro c r hcr; exact absurd rfl hcr
        · exact analyse_s_mono S p.keyFn (.absorb x y) σ
        · simp only [analyse]
          by_cases hv : (st.leaked || (getV st.env x).own.any (fun r => decide (r < st.base))) = true
          · simp only [hv, if_true, hvis hv]
            intro r hrm
            simp only [List.mem_append] at hrm
            cases hrm with
            | inl h => exact descrRoot_mono (Taint.le_join_left _ _) (hi.esc r h)
            | inr h => exact descrRoot_mono (Taint.le_join_right _ _) ((he.2 y).2 r h)
          · simp only [hv]
            split
            · exact descrL_mono (Taint.le_join_left _ _) hi.esc
            · exact hi.esc
      | call x f args =>
        simp only [exec, hret] at hex
        cases hf : p.fns[f]? with
        | none => simp [hf] at hex
        | some fn =>
          simp only [hf] at hex
          cases h1 : exec p fuel fn.body (St.init (args.map (getV st.env)) st.h st.ch) with
          | none => simp [h1] at hex
          | some st1 =>
            simp only [h1, Bool.false_eq_true, if_false, Option.some.injEq] at hex
            subst hex
            have hle := hc f fn hf
            have hoksm : (getE Summ.bot S f).ok = true := by
              have : (σ.s.ok && (getE Summ.bot S f).ok) = true := by simpa [analyse, applyCall] using hok
              simp only [Bool.and_eq_true] at this
              exact this.2
            have hcal := ih fn.body ⟨[], false, Summ.bot⟩ _ st1 _ st.h st.h.next h1 (hle.1 hoksm)
              (Inv_init (args.map (getV st.env)) st.h st.ch)
            exact Inv_call x args AVal.bot st1 hi hr hcal hle
      | cached x k =>
        simp only [exec, hret] at hex
        have he := hi.env hr
        cases hl : st.h.cache.lookup k with
        | some v =>
          simp only [hl, Bool.false_eq_true, if_false, Option.some.injEq] at hex
          subst hex
          have hany : descrVal pv n₀ ⟨[0], [0]⟩ v :=
            ⟨fun r _ => Or.inr ⟨0, by simp, trivial⟩, fun r _ => Or.inr ⟨0, by simp, trivial⟩⟩
          refine Inv_step hi ?_ ?_ ?_ ?_ ?_ ?_ ?_ ?_ ?_
          · rfl
          · rfl
          · exact Nat.le_refl _
          · intro _
            simp only [analyse]
            cases p.keyFn k with
            | none => exact descrEnv_set x he hany
            | some f =>
              simp only [applyCall]
              exact descrEnv_set x (descrEnv_mono (envLe_absorbA _ _) he)
                (descrVal_mono ⟨Taint.le_join_left _ _, Taint.le_join_left _ _⟩ hany)
          · intro _ hlk
            have := hi.leaked hr hlk
            simp only [analyse]
            cases p.keyFn k with
            | none => exact this
            | some f => exact this
          · intro v hv; simp [hr] at hv
          · intro c r hcr; exact absurd rfl hcr
          · exact analyse_s_mono S p.keyFn (.cached x k) σ
          · exact descrL_mono (analyse_s_mono S p.keyFn (.cached x k) σ).2.2.2.2.2 hi.esc
        | none =>
          simp only [hl] at hex
          cases hk : p.keyFn k with
          | none => simp [hk] at hex
          | some f =>
            simp only [hk] at hex
            cases hf : p.fns[f]? with
            | none => simp [hf] at hex
            | some fn =>
              simp only [hf] at hex
              cases h1 : exec p fuel fn.body (St.init [] st.h st.ch) with
              | none => simp [h1] at hex
              | some st1 =>
                simp only [h1, Bool.false_eq_true, if_false, Option.some.injEq] at hex
                subst hex
                have hle := hc f fn hf
                have hoksm : (getE Summ.bot S f).ok = true := by
                  have : (σ.s.ok && (getE Summ.bot S f).ok) = true := by simpa [analyse, hk, applyCall] using hok
                  simp only [Bool.and_eq_true] at this
                  exact this.2
                have hcal := ih fn.body ⟨[], false, Summ.bot⟩ _ st1 _ st.h st.h.next h1 (hle.1 hoksm)
                  (Inv_init [] st.h st.ch)
                have := Inv_call (σ := σ) x [] ⟨[0], [0]⟩ st1 hi hr hcal hle
                simp only [analyse, hk]
                exact Inv_cache _ this

/-! ## from the check to requests -/

theorem all_range' {P : Nat → Bool} {s n : Nat} (h : (List.range' s n).all P = true) :
    ∀ f, s ≤ f → f < s + n → P f = true := by
  intro f h1 h2
  exact List.all_eq_true.mp h f (List.mem_range'_1.mpr ⟨h1, h2⟩)

theorem checkWith_of_all (p : Program) (S : List Summ)
    (h : ∀ f, f < p.fns.length → checkFn p S f = true) : checkWith p S = true := by
  unfold checkWith
  exact List.all_eq_true.mpr fun f hf => h f (List.mem_range.mp hf)

theorem checkWith_spec {p : Program} {S : List Summ} (h : checkWith p S = true) :
    Consistent p S ∧ ∀ f fn, p.fns[f]? = some fn → fnOK fn (getE Summ.bot S f) = true := by
  have key : ∀ f fn, p.fns[f]? = some fn →
      (bodySumm S p.keyFn fn).leB (getE Summ.bot S f) = true ∧ fnOK fn (getE Summ.bot S f) = true := by
    intro f fn hf
    have hlt : f < p.fns.length := by
      have := List.getElem?_eq_some_iff.mp hf
      exact this.1
    have := List.all_eq_true.mp h f (List.mem_range.mpr hlt)
    simpa [checkFn, hf] using this
  exact ⟨fun f fn hf => Summ.leB_sound (key f fn hf).1, fun f fn hf => (key f fn hf).2⟩

/-- what one finished activation of function `f` may have changed, and what it returns -/
theorem request_sound {p : Program} {S : List Summ} (hc : Consistent p S) {f : FnId} {fn : Fn}
    (hf : p.fns[f]? = some fn) (hok : (getE Summ.bot S f).ok = true)
    {fuel : Nat} {args : List Val} {h : Heap} {ch : List Bool} {v : Val} {h' : Heap}
    (hreq : request p fuel f args h ch = some (v, h')) :
    (∀ c r, h'.ver c r ≠ h.ver c r → descrRoot args h.next ((getE Summ.bot S f).mut c) r) ∧
    descrVal args h.next ⟨(getE Summ.bot S f).retOwn, (getE Summ.bot S f).retReach⟩ v ∧
    h.next ≤ h'.next := by
  simp only [request, hf] at hreq
  cases h1 : exec p fuel fn.body (St.init args h ch) with
  | none => simp [h1] at hreq
  | some st' =>
    simp only [h1, Option.some.injEq, Prod.mk.injEq] at hreq
    obtain ⟨hv, hh⟩ := hreq
    have hle := hc f fn hf
    have hinv := exec_sound p S hc fuel fn.body ⟨[], false, Summ.bot⟩ _ st' args h h.next h1 (hle.1 hok)
      (Inv_init args h ch)
    subst hh
    refine ⟨fun c r hcr => descrRoot_mono (Summ.mut_le hle c) (hinv.ver c r hcr), ?_, hinv.next⟩
    subst hv
    cases hr : st'.ret with
    | none => exact descrVal_none _ _ _
    | some w => exact descrVal_mono ⟨hle.2.2.2.1, hle.2.2.2.2.1⟩ (hinv.ret w hr)

theorem descrRoot_nil {pv : List Val} {n₀ r : Nat} (h : descrRoot pv n₀ [] r) : n₀ ≤ r := by
  rcases h with h | ⟨a, ha, _⟩
  · exact h
  · simp at ha


/-! ## well-formedness: every root a value mentions has been allocated -/

def ValWF (n : Nat) (v : Val) : Prop := (∀ r ∈ v.own, r < n) ∧ (∀ r ∈ v.reach, r < n)

structure StWF (st : St) : Prop where
  env : ∀ v ∈ st.env, ValWF st.h.next v
  params : ∀ v ∈ st.params, ValWF st.h.next v
  ret : ∀ v, st.ret = some v → ValWF st.h.next v
  esc : ∀ r ∈ st.esc, r < st.h.next
  cache : ∀ kv ∈ st.h.cache, ValWF st.h.next kv.2

theorem ValWF_mono {n m : Nat} {v : Val} (h : n ≤ m) (hv : ValWF n v) : ValWF m v :=
  ⟨fun r hr => Nat.lt_of_lt_of_le (hv.1 r hr) h, fun r hr => Nat.lt_of_lt_of_le (hv.2 r hr) h⟩

theorem ValWF_none (n : Nat) : ValWF n Val.none :=
  ⟨fun r h => by simp [Val.none] at h, fun r h => by simp [Val.none] at h⟩

theorem getE_mem {α : Type} (d : α) (e : List α) (x : Nat) : getE d e x = d ∨ getE d e x ∈ e := by
  induction e generalizing x with
  | nil => left; simp [getE]
  | cons a e ih =>
    cases x with
    | zero => right; simp [getE]
    | succ n =>
      simp only [getE]
      cases ih n with
      | inl h => left; exact h
      | inr h => right; exact List.mem_cons_of_mem _ h

theorem mem_setE {α : Type} (d : α) (e : List α) (x : Nat) (v w : α) (h : w ∈ setE d e x v) :
    w = v ∨ w = d ∨ w ∈ e := by
  induction x generalizing e with
  | zero =>
    cases e with
    | nil => simp [setE] at h; exact Or.inl h
    | cons a e =>
      simp [setE] at h
      cases h with
      | inl h => exact Or.inl h
      | inr h => exact Or.inr (Or.inr (List.mem_cons_of_mem _ h))
  | succ n ih =>
    cases e with
    | nil =>
      simp only [setE, List.mem_cons] at h
      cases h with
      | inl h => exact Or.inr (Or.inl h)
      | inr h =>
        rcases ih [] h with h | h | h
        · exact Or.inl h
        · exact Or.inr (Or.inl h)
        · simp at h
    | cons a e =>
      simp only [setE, List.mem_cons] at h
      cases h with
      | inl h => exact Or.inr (Or.inr (by simp [h]))
      | inr h =>
        rcases ih e h with h | h | h
        · exact Or.inl h
        · exact Or.inr (Or.inl h)
        · exact Or.inr (Or.inr (List.mem_cons_of_mem _ h))

theorem getV_wf {n : Nat} {e : List Val} (he : ∀ v ∈ e, ValWF n v) (x : Nat) : ValWF n (getV e x) := by
  cases getE_mem Val.none e x with
  | inl h => simp only [getV, h]; exact ValWF_none n
  | inr h => exact he _ h

theorem setV_wf {n : Nat} {e : List Val} (he : ∀ v ∈ e, ValWF n v) (x : Nat) {v : Val} (hv : ValWF n v) :
    ∀ w ∈ setV e x v, ValWF n w := by
  intro w hw
  rcases mem_setE Val.none e x v w hw with h | h | h
  · rw [h]; exact hv
  · rw [h]; exact ValWF_none n
  · exact he w h

theorem absorbAll_wf {n : Nat} {e : List Val} {rs : List Nat} (he : ∀ v ∈ e, ValWF n v)
    (hrs : ∀ r ∈ rs, r < n) : ∀ w ∈ absorbAll e rs, ValWF n w := by
  intro w hw
  simp only [absorbAll, List.mem_map] at hw
  obtain ⟨v, hv, rfl⟩ := hw
  refine ⟨(he v hv).1, fun r hr => ?_⟩
  simp only [List.mem_append] at hr
  cases hr with
  | inl h => exact (he v hv).2 r h
  | inr h => exact hrs r h

theorem reachOf_wf {n : Nat} {e : List Val} (he : ∀ v ∈ e, ValWF n v) (ys : List Var) :
    ∀ r ∈ reachOf e ys, r < n := by
  intro r hr
  simp only [reachOf, List.mem_flatMap] at hr
  obtain ⟨y, _, hr⟩ := hr
  exact (getV_wf he y).2 r hr

theorem lookup_mem {k : Key} {v : Val} : ∀ {l : List (Key × Val)}, l.lookup k = some v → (k, v) ∈ l
  | [], h => by simp [List.lookup] at h
  | (k', v') :: l, h => by
    simp only [List.lookup] at h
    split at h
    · rename_i heq
      simp only [Option.some.injEq] at h
      have : k = k' := by simpa using heq
      subst this; subst h
      simp
    · exact List.mem_cons_of_mem _ (lookup_mem h)

theorem StWF_mono_env {st : St} {n : Nat} (h : st.h.next ≤ n) (hw : StWF st) :
    (∀ v ∈ st.env, ValWF n v) ∧ (∀ v ∈ st.params, ValWF n v) ∧ (∀ r ∈ st.esc, r < n) ∧
    (∀ kv ∈ st.h.cache, ValWF n kv.2) :=
  ⟨fun v hv => ValWF_mono h (hw.env v hv), fun v hv => ValWF_mono h (hw.params v hv),
   fun r hr => Nat.lt_of_lt_of_le (hw.esc r hr) h, fun kv hkv => ValWF_mono h (hw.cache kv hkv)⟩

theorem StWF_init {args : List Val} {h : Heap} (ch : List Bool) (ha : ∀ v ∈ args, ValWF h.next v)
    (hcache : ∀ kv ∈ h.cache, ValWF h.next kv.2) : StWF (St.init args h ch) where
  env := fun v hv => by simp [St.init] at hv
  params := ha
  ret := fun v hv => by simp [St.init] at hv
  esc := fun r hr => by simp [St.init] at hr
  cache := hcache

theorem exec_wf (p : Program) :
    ∀ (fuel : Nat) (s : Stmt) (st st' : St), exec p fuel s st = some st' → StWF st →
      StWF st' ∧ st.h.next ≤ st'.h.next := by
  intro fuel
  induction fuel with
  | zero => intro s st st' h; simp [exec] at h
  | succ fuel ih =>
    intro s st st' hex hw
    by_cases hret : st.ret.isSome = true
    · simp only [exec, hret, if_true] at hex
      cases hex
      exact ⟨hw, Nat.le_refl _⟩
    · have hr : st.ret = none := by
        cases h : st.ret with
        | none => rfl
        | some v => simp [h] at hret
      cases s with
      | skip =>
        simp only [exec, hret] at hex
        cases hex
        exact ⟨hw, Nat.le_refl _⟩
      | seq a b =>
        simp only [exec, hret] at hex
        cases h1 : exec p fuel a st with
        | none => simp [h1] at hex
        | some st1 =>
          simp only [h1] at hex
          have h2 := ih a st st1 h1 hw
          have h3 := ih b st1 st' hex h2.1
          exact ⟨h3.1, Nat.le_trans h2.2 h3.2⟩
      | ite a b =>
        simp only [exec, hret] at hex
        cases hch : st.ch with
        | nil =>
          simp only [hch, Bool.false_eq_true, if_false] at hex
          exact ih b st st' hex hw
        | cons c cs =>
          simp only [hch, Bool.false_eq_true, if_false] at hex
          have hw' : StWF { st with ch := cs } := ⟨hw.env, hw.params, hw.ret, hw.esc, hw.cache⟩
          cases c with
          | true =>
            simp only [if_true, Bool.false_eq_true, if_false] at hex
            exact ih a { st with ch := cs } st' hex hw'
          | false =>
            simp only [Bool.false_eq_true, if_false] at hex
            exact ih b { st with ch := cs } st' hex hw'
      | loop b =>
        simp only [exec, hret] at hex
        cases hch : st.ch with
        | nil =>
          simp only [hch, Bool.false_eq_true, if_false] at hex
          cases hex
          exact ⟨hw, Nat.le_refl _⟩
        | cons c cs =>
          simp only [hch, Bool.false_eq_true, if_false] at hex
          have hw' : StWF { st with ch := cs } := ⟨hw.env, hw.params, hw.ret, hw.esc, hw.cache⟩
          cases c with
          | false =>
            simp only [Bool.false_eq_true, if_false] at hex
            cases hex
            exact ⟨hw', Nat.le_refl _⟩
          | true =>
            simp only [if_true, Bool.false_eq_true, if_false] at hex
            cases h1 : exec p fuel b { st with ch := cs } with
            | none => simp [h1] at hex
            | some st1 =>
              simp only [h1] at hex
              have h2 := ih b { st with ch := cs } st1 h1 hw'
              have h3 := ih (.loop b) st1 st' hex h2.1
              exact ⟨h3.1, Nat.le_trans h2.2 h3.2⟩
      | join x ys =>
        simp only [exec, hret] at hex
        cases hex
        obtain ⟨he, hp, hesc, hcache⟩ := StWF_mono_env (Nat.le_succ st.h.next) hw
        refine ⟨⟨?_, hp, fun v hv => by simp [hr] at hv, hesc, hcache⟩, Nat.le_succ _⟩
        apply setV_wf he
        refine ⟨fun r h => ?_, fun r h => ?_⟩
        · simp only [List.mem_singleton] at h; subst h; exact Nat.lt_succ_self _
        · simp only [List.mem_cons] at h
          cases h with
          | inl h => subst h; exact Nat.lt_succ_self _
          | inr h => exact Nat.lt_succ_of_lt (reachOf_wf hw.env ys r h)
      | alias x y =>
        simp only [exec, hret] at hex
        cases hex
        exact ⟨⟨setV_wf hw.env x (getV_wf hw.env y), hw.params, hw.ret, hw.esc, hw.cache⟩, Nat.le_refl _⟩
      | view x ys =>
        simp only [exec, hret] at hex
        cases hex
        obtain ⟨he, hp, hesc, hcache⟩ := StWF_mono_env (Nat.le_succ st.h.next) hw
        refine ⟨⟨?_, hp, fun v hv => by simp [hr] at hv, hesc, hcache⟩, Nat.le_succ _⟩
        apply setV_wf he
        exact ⟨fun r h => Nat.lt_succ_of_lt (reachOf_wf hw.env ys r h),
               fun r h => Nat.lt_succ_of_lt (reachOf_wf hw.env ys r h)⟩
      | param x i =>
        simp only [exec, hret] at hex
        cases hex
        exact ⟨⟨setV_wf hw.env x (getV_wf hw.params i), hw.params, hw.ret, hw.esc, hw.cache⟩, Nat.le_refl _⟩
      | glob x k =>
        simp only [exec, hret] at hex
        cases hl : st.h.cache.lookup k with
        | none => simp [hl] at hex
        | some v =>
          simp only [hl, Bool.false_eq_true, if_false, Option.some.injEq] at hex
          cases hex
          exact ⟨⟨setV_wf hw.env x (hw.cache _ (lookup_mem hl)), hw.params, hw.ret, hw.esc, hw.cache⟩, Nat.le_refl _⟩
      | mutate x =>
        simp only [exec, hret] at hex
        cases hex
        exact ⟨⟨hw.env, hw.params, hw.ret, hw.esc, hw.cache⟩, Nat.le_refl _⟩
      | cmutate x =>
        simp only [exec, hret] at hex
        cases hex
        exact ⟨⟨hw.env, hw.params, hw.ret, hw.esc, hw.cache⟩, Nat.le_refl _⟩
      | absorb x y =>
        simp only [exec, hret] at hex
        cases hex
        have hrs := (getV_wf hw.env y).2
        refine ⟨⟨absorbAll_wf hw.env hrs, hw.params, hw.ret, ?_, hw.cache⟩, Nat.le_refl _⟩
        intro r hr'
        split at hr'
        · simp only [List.mem_append] at hr'
          cases hr' with
          | inl h => exact hw.esc r h
          | inr h => exact hrs r h
        · exact hw.esc r hr'
      | store k x =>
        simp only [exec, hret] at hex
        cases hex
        refine ⟨⟨hw.env, hw.params, hw.ret, hw.esc, ?_⟩, Nat.le_refl _⟩
        intro kv hkv
        simp only [List.mem_cons] at hkv
        cases hkv with
        | inl h => subst h; exact getV_wf hw.env x
        | inr h => exact hw.cache kv h
      | ret x =>
        simp only [exec, hret] at hex
        cases hex
        refine ⟨⟨hw.env, hw.params, ?_, hw.esc, hw.cache⟩, Nat.le_refl _⟩
        intro v hv
        simp only [Option.some.injEq] at hv
        subst hv
        exact getV_wf hw.env x
      | call x f args =>
        simp only [exec, hret] at hex
        cases hf : p.fns[f]? with
        | none => simp [hf] at hex
        | some fn =>
          simp only [hf] at hex
          cases h1 : exec p fuel fn.body (St.init (args.map (getV st.env)) st.h st.ch) with
          | none => simp [h1] at hex
          | some st1 =>
            simp only [h1, Bool.false_eq_true, if_false, Option.some.injEq] at hex
            subst hex
            have hinit : StWF (St.init (args.map (getV st.env)) st.h st.ch) :=
              StWF_init st.ch (fun v hv => by
                simp only [List.mem_map] at hv
                obtain ⟨y, _, rfl⟩ := hv
                exact getV_wf hw.env y) hw.cache
            have h2 := ih fn.body _ st1 h1 hinit
            have hle : st.h.next ≤ st1.h.next := h2.2
            obtain ⟨he, hp, hesc, _⟩ := StWF_mono_env hle hw
            refine ⟨⟨?_, hp, fun v hv => by simp [finishCall, hr] at hv, ?_, h2.1.cache⟩, hle⟩
            · apply setV_wf (absorbAll_wf he h2.1.esc)
              cases hrv : st1.ret with
              | none => exact ValWF_none _
              | some v => exact h2.1.ret v hrv
            · intro r hr'
              simp only [finishCall, List.mem_append] at hr'
              cases hr' with
              | inl h => exact hesc r h
              | inr h => exact h2.1.esc r h
      | cached x k =>
        simp only [exec, hret] at hex
        cases hl : st.h.cache.lookup k with
        | some v =>
          simp only [hl, Bool.false_eq_true, if_false, Option.some.injEq] at hex
          cases hex
          exact ⟨⟨setV_wf hw.env x (hw.cache _ (lookup_mem hl)), hw.params, hw.ret, hw.esc, hw.cache⟩, Nat.le_refl _⟩
        | none =>
          simp only [hl] at hex
          cases hk : p.keyFn k with
          | none => simp [hk] at hex
          | some f =>
            simp only [hk] at hex
            cases hf : p.fns[f]? with
            | none => simp [hf] at hex
            | some fn =>
              simp only [hf] at hex
              cases h1 : exec p fuel fn.body (St.init [] st.h st.ch) with
              | none => simp [h1] at hex
              | some st1 =>
                simp only [h1, Bool.false_eq_true, if_false, Option.some.injEq] at hex
                subst hex
                have hinit : StWF (St.init [] st.h st.ch) :=
                  StWF_init st.ch (fun v hv => by simp at hv) hw.cache
                have h2 := ih fn.body _ st1 h1 hinit
                have hle : st.h.next ≤ st1.h.next := h2.2
                obtain ⟨he, hp, hesc, _⟩ := StWF_mono_env hle hw
                have hrv : ValWF st1.h.next (st1.ret.getD Val.none) := by
                  cases hrv : st1.ret with
                  | none => exact ValWF_none _
                  | some v => exact h2.1.ret v hrv
                refine ⟨⟨?_, hp, fun v hv => by simp [finishCall, hr] at hv, ?_, ?_⟩, hle⟩
                · exact setV_wf (absorbAll_wf he h2.1.esc) x hrv
                · intro r hr'
                  simp only [finishCall, List.mem_append] at hr'
                  cases hr' with
                  | inl h => exact hesc r h
                  | inr h => exact h2.1.esc r h
                · intro kv hkv
                  simp only [finishCall, List.mem_cons] at hkv
                  cases hkv with
                  | inl h => subst h; exact hrv
                  | inr h => exact h2.1.cache kv h

/-! ## the property theorems (stated in Props/C02.lean) -/

theorem fnOK_spec {fn : Fn} {sm : Summ} (h : fnOK fn sm = true) :
    sm.ok = true ∧ 0 ∉ sm.mutA ∧ (fn.pub = true → sm.mutA = []) ∧
    (fn.strict = true → ∀ a ∈ sm.mutC, a % 2 = 1) ∧ (fn.cpub = true → ∀ a ∈ sm.mutC, a % 2 = 0) := by
  simp only [fnOK, Bool.and_eq_true, Bool.or_eq_true, Bool.not_eq_true', List.all_eq_true,
    beq_iff_eq] at h
  obtain ⟨⟨⟨⟨h1, h2⟩, h3⟩, h4⟩, h5⟩ := h
  refine ⟨h1, ?_, ?_, ?_, ?_⟩
  · intro hm
    have : sm.mutA.contains 0 = true := List.contains_iff_mem.mpr hm
    simp [this] at h2
    exact h2 hm
  · intro hp
    cases h3 with
    | inl h => simp [hp] at h
    | inr h => exact List.isEmpty_iff.mp h
  · intro hs
    cases h4 with
    | inl h => simp [hs] at h
    | inr h => exact h
  · intro hc
    cases h5 with
    | inl h => simp [hc] at h
    | inr h => exact h

theorem check_sound_lemma (p : Program) (S : List Summ) (hchk : checkWith p S = true)
    (f : FnId) (fn : Fn) (hf : p.fns[f]? = some fn) (hpub : fn.pub = true)
    (fuel : Nat) (args : List Val) (h : Heap) (ch : List Bool) (v : Val) (h' : Heap)
    (hreq : request p fuel f args h ch = some (v, h')) :
    (∀ r, r < h.next → h'.aver r = h.aver r) ∧
    (∀ r ∈ v.reach, (r < h.next ∧ h'.aver r = h.aver r) ∨ h.next ≤ r) := by
  obtain ⟨hc, hall⟩ := checkWith_spec hchk
  obtain ⟨hok, _, hmut, _, _⟩ := fnOK_spec (hall f fn hf)
  obtain ⟨hver, _, _⟩ := request_sound hc hf hok hreq
  have key : ∀ r, r < h.next → h'.aver r = h.aver r := by
    intro r hr
    by_cases heq : h'.aver r = h.aver r
    · exact heq
    · have := hver false r (by simpa [Heap.ver] using heq)
      simp only [Summ.mut, hmut hpub] at this
      exact absurd (descrRoot_nil this) (Nat.not_le_of_lt hr)
  refine ⟨key, fun r _ => ?_⟩
  cases Nat.lt_or_ge r h.next with
  | inl hlt => exact Or.inl ⟨hlt, key r hlt⟩
  | inr hge => exact Or.inr hge

theorem check_sound_containers_lemma (p : Program) (S : List Summ) (hchk : checkWith p S = true)
    (f : FnId) (fn : Fn) (hf : p.fns[f]? = some fn) (hs : fn.strict = true) (hcp : fn.cpub = true)
    (fuel : Nat) (args : List Val) (h : Heap) (ch : List Bool) (v : Val) (h' : Heap)
    (hreq : request p fuel f args h ch = some (v, h')) :
    ∀ r, r < h.next → h'.cver r = h.cver r := by
  obtain ⟨hc, hall⟩ := checkWith_spec hchk
  obtain ⟨hok, _, _, hstrict, hcpub⟩ := fnOK_spec (hall f fn hf)
  obtain ⟨hver, _, _⟩ := request_sound hc hf hok hreq
  intro r hr
  by_cases heq : h'.cver r = h.cver r
  · exact heq
  · have := hver true r (by simpa [Heap.ver] using heq)
    rcases this with hge | ⟨a, ha, _⟩
    · exact absurd hge (Nat.not_le_of_lt hr)
    · have h1 := hstrict hs a (by simpa [Summ.mut] using ha)
      have h0 := hcpub hcp a (by simpa [Summ.mut] using ha)
      omega

theorem check_sound_helpers_lemma (p : Program) (S : List Summ) (hchk : checkWith p S = true)
    (f : FnId) (fn : Fn) (hf : p.fns[f]? = some fn)
    (fuel : Nat) (args : List Val) (h : Heap) (ch : List Bool) (v : Val) (h' : Heap)
    (hreq : request p fuel f args h ch = some (v, h')) :
    ∀ r, r < h.next → h'.aver r ≠ h.aver r →
      ∃ i, (2 * i + 1 ∈ (getE Summ.bot S f).mutA ∧ r ∈ (getV args i).own) ∨
           (2 * i + 2 ∈ (getE Summ.bot S f).mutA ∧ r ∈ (getV args i).reach) := by
  obtain ⟨hc, hall⟩ := checkWith_spec hchk
  obtain ⟨hok, h0, _, _, _⟩ := fnOK_spec (hall f fn hf)
  obtain ⟨hver, _, _⟩ := request_sound hc hf hok hreq
  intro r hr hne
  have := hver false r (by simpa [Heap.ver] using hne)
  rcases this with hge | ⟨a, ha, hh⟩
  · exact absurd hge (Nat.not_le_of_lt hr)
  · simp only [Summ.mut] at ha
    cases a with
    | zero => exact absurd ha h0
    | succ n =>
      simp only [holds] at hh
      refine ⟨n / 2, ?_⟩
      by_cases hpar : n % 2 = 0
      · simp only [hpar, if_true] at hh
        left
        have : 2 * (n / 2) + 1 = n + 1 := by omega
        exact ⟨this ▸ ha, hh⟩
      · simp only [hpar, if_false] at hh
        right
        have : 2 * (n / 2) + 2 = n + 1 := by omega
        exact ⟨this ▸ ha, hh⟩

theorem request_wf (p : Program) (f : FnId)
    (fuel : Nat) (args : List Val) (h : Heap) (ch : List Bool) (v : Val) (h' : Heap)
    (hargs : ∀ a ∈ args, ValWF h.next a) (hcache : ∀ kv ∈ h.cache, ValWF h.next kv.2)
    (hreq : request p fuel f args h ch = some (v, h')) :
    ValWF h'.next v ∧ (∀ kv ∈ h'.cache, ValWF h'.next kv.2) ∧ h.next ≤ h'.next := by
  simp only [request] at hreq
  cases hf : p.fns[f]? with
  | none => simp [hf] at hreq
  | some fn =>
    simp only [hf] at hreq
    cases h1 : exec p fuel fn.body (St.init args h ch) with
    | none => simp [h1] at hreq
    | some st' =>
      simp only [h1, Option.some.injEq, Prod.mk.injEq] at hreq
      obtain ⟨hv, hh⟩ := hreq
      have := exec_wf p fuel fn.body _ st' h1 (StWF_init ch hargs hcache)
      subst hh; subst hv
      refine ⟨?_, this.1.cache, this.2⟩
      cases hr : st'.ret with
      | none => exact ValWF_none _
      | some w => exact this.1.ret w hr

theorem runStep_sound (p : Program) (S : List Summ) (hchk : checkWith p S = true) (h h1 : Heap) (s : Step)
    (hpub : publicOnly p [s]) (hs : runStep p h s = some h1) :
    (∀ r, r < h.next → h1.aver r = h.aver r) ∧ h.next ≤ h1.next := by
  cases s with
  | alloc =>
    simp only [runStep, Option.some.injEq] at hs
    subst hs
    exact ⟨fun _ _ => rfl, Nat.le_succ _⟩
  | put k v =>
    simp only [runStep, Option.some.injEq] at hs
    subst hs
    exact ⟨fun _ _ => rfl, Nat.le_refl _⟩
  | req f args fuel ch =>
    simp only [runStep] at hs
    cases hreq : request p fuel f args h ch with
    | none => simp [hreq] at hs
    | some res =>
      obtain ⟨v, h2⟩ := res
      simp only [hreq, Option.some.injEq] at hs
      subst hs
      obtain ⟨⟨fn, hf, hp⟩, _⟩ := hpub
      obtain ⟨hc, hall⟩ := checkWith_spec hchk
      obtain ⟨hok, _, _, _, _⟩ := fnOK_spec (hall f fn hf)
      exact ⟨(check_sound_lemma p S hchk f fn hf hp fuel args h ch v h2 hreq).1,
             (request_sound hc hf hok hreq).2.2⟩

theorem publicOnly_cons {p : Program} {s : Step} {l : List Step} (h : publicOnly p (s :: l)) :
    publicOnly p [s] ∧ publicOnly p l := by
  cases s with
  | alloc => exact ⟨trivial, h⟩
  | put k v => exact ⟨trivial, h⟩
  | req f args fuel ch => exact ⟨⟨h.1, trivial⟩, h.2⟩

theorem run_sound (p : Program) (S : List Summ) (hchk : checkWith p S = true) :
    ∀ (l : List Step) (h h' : Heap), publicOnly p l → run p h l = some h' →
      (∀ r, r < h.next → h'.aver r = h.aver r) ∧ h.next ≤ h'.next := by
  intro l
  induction l with
  | nil =>
    intro h h' _ hr
    simp only [run, Option.some.injEq] at hr
    subst hr
    exact ⟨fun _ _ => rfl, Nat.le_refl _⟩
  | cons s l ih =>
    intro h h' hpub hr
    simp only [run] at hr
    cases hs : runStep p h s with
    | none => simp [hs] at hr
    | some h1 =>
      simp only [hs] at hr
      obtain ⟨hp1, hp2⟩ := publicOnly_cons hpub
      obtain ⟨ha, hn⟩ := runStep_sound p S hchk h h1 s hp1 hs
      obtain ⟨hb, hm⟩ := ih h1 h' hp2 hr
      exact ⟨fun r hlt => (hb r (Nat.lt_of_lt_of_le hlt hn)).trans (ha r hlt), Nat.le_trans hn hm⟩

theorem history_sound_lemma (p : Program) (S : List Summ) (hchk : checkWith p S = true)
    (pre post : List Step) (h₀ hm h' : Heap)
    (hpub : publicOnly p post)
    (_hpre : run p h₀ pre = some hm) (hpost : run p hm post = some h') :
    ∀ r, r < hm.next → h'.aver r = hm.aver r :=
  (run_sound p S hchk post hm h' hpub hpost).1

end AurelVerif.Heap
