/-
Lemmas/Heap.lean — soundness of the alias check of Model/Heap.lean (C02).
Core Lean only.
-/
import AurelVerif.Model.Heap

namespace AurelVerif.Heap

/-! ## positional environments -/

theorem getE_nil {α : Type} (d : α) (x : Nat) : getE d [] x = d := by
  simp [getE]

theorem getE_setE {α : Type} (d : α) (e : List α) (x y : Nat) (v : α) :
    getE d (setE d e x v) y = if y = x then v else getE d e y := by
  induction x generalizing e y with
  | zero => cases e <;> cases y <;> simp [getE, setE]
  | succ n ih =>
    cases e with
    | nil => cases y <;> simp [getE, setE, ih]
    | cons a e => cases y <;> simp [getE, setE, ih]

theorem length_setE {α : Type} (d : α) (e : List α) (x : Nat) (v : α) :
    e.length ≤ (setE d e x v).length := by
  induction x generalizing e with
  | zero => cases e <;> simp [setE]
  | succ n ih =>
    cases e with
    | nil => simp [setE]
    | cons a e => simp [setE]; exact ih e

theorem getE_of_length_le {α : Type} (d : α) (e : List α) (x : Nat) (h : e.length ≤ x) :
    getE d e x = d := by
  induction e generalizing x with
  | nil => simp [getE]
  | cons a e ih =>
    cases x with
    | zero => simp at h
    | succ n => simp [getE]; exact ih n (by simpa using h)

theorem getE_map {α β : Type} (d : α) (d' : β) (f : α → β) (e : List α) (x : Nat) (h : x < e.length) :
    getE d' (e.map f) x = f (getE d e x) := by
  induction e generalizing x with
  | nil => simp at h
  | cons a e ih =>
    cases x with
    | zero => simp [getE]
    | succ n => simp [getE]; exact ih n (by simpa using h)

/-- `getE` on a mapped argument list -/
theorem getE_map_args {α : Type} (d : α) (f : Nat → α) (args : List Nat) (i : Nat) :
    getE d (args.map f) i = match args[i]? with | some y => f y | none => d := by
  induction args generalizing i with
  | nil => simp [getE]
  | cons a l ih =>
    cases i with
    | zero => simp [getE]
    | succ n => simp [getE, ih]

/-! ## taints -/

theorem mem_join {t u : Taint} {a : Nat} : a ∈ Taint.join t u ↔ a ∈ t ∨ a ∈ u := by
  unfold Taint.join
  simp only [List.mem_append, List.mem_filter]
  constructor
  · rintro (h | ⟨h, _⟩)
    · exact Or.inl h
    · exact Or.inr h
  · rintro (h | h)
    · exact Or.inl h
    · by_cases ht : a ∈ t
      · exact Or.inl ht
      · refine Or.inr ⟨h, ?_⟩
        simp [ht]

theorem mem_dedup' (l : List Nat) : ∀ a, a ∈ dedup l ↔ a ∈ l := by
  induction l with
  | nil => simp [dedup]
  | cons b l ih =>
    intro a
    by_cases hb : (dedup l).contains b = true
    · have hb' : b ∈ l := (ih b).mp (List.contains_iff_mem.mp hb)
      simp only [dedup, hb, if_true, List.mem_cons, ih a]
      constructor
      · intro h; exact Or.inr h
      · intro h
        cases h with
        | inl h => rw [h]; exact hb'
        | inr h => exact h
    · have hb' : b ∉ dedup l := by simpa using hb
      simp [dedup, hb', ih a]

theorem mem_dedup {l : List Nat} {a : Nat} : a ∈ dedup l ↔ a ∈ l := mem_dedup' l a

theorem Taint.leB_sound {t u : Taint} (h : Taint.leB t u = true) : ∀ a ∈ t, a ∈ u := by
  intro a ha
  unfold Taint.leB at h
  have := List.all_eq_true.mp h a ha
  simpa using this

/-! ## the order on abstract states -/

def Taint.le (t u : Taint) : Prop := ∀ a ∈ t, a ∈ u
def AVal.le (a b : AVal) : Prop := Taint.le a.own b.own ∧ Taint.le a.reach b.reach
def Summ.le (a b : Summ) : Prop :=
  (b.ok = true → a.ok = true) ∧ Taint.le a.mutA b.mutA ∧ Taint.le a.mutC b.mutC ∧
  Taint.le a.retOwn b.retOwn ∧ Taint.le a.retReach b.retReach ∧ Taint.le a.esc b.esc
def envLe (e1 e2 : List AVal) : Prop := e1.length ≤ e2.length ∧ ∀ x, (getA e1 x).le (getA e2 x)
def AS.le (a b : AS) : Prop := envLe a.env b.env ∧ (a.leaked = true → b.leaked = true) ∧ a.s.le b.s

theorem Taint.le_refl (t : Taint) : Taint.le t t := fun _ h => h
theorem Taint.le_trans {t u v : Taint} (h1 : Taint.le t u) (h2 : Taint.le u v) : Taint.le t v :=
  fun a h => h2 a (h1 a h)
theorem Taint.le_join_left (t u : Taint) : Taint.le t (t.join u) := fun _ h => mem_join.mpr (Or.inl h)
theorem Taint.le_join_right (t u : Taint) : Taint.le u (t.join u) := fun _ h => mem_join.mpr (Or.inr h)

theorem AVal.le_refl (a : AVal) : a.le a := ⟨Taint.le_refl _, Taint.le_refl _⟩
theorem AVal.le_trans {a b c : AVal} (h1 : a.le b) (h2 : b.le c) : a.le c :=
  ⟨Taint.le_trans h1.1 h2.1, Taint.le_trans h1.2 h2.2⟩
theorem AVal.bot_le (a : AVal) : AVal.bot.le a := ⟨fun _ h => by simp [AVal.bot] at h, fun _ h => by simp [AVal.bot] at h⟩
theorem AVal.le_join_left (a b : AVal) : a.le (a.join b) := ⟨Taint.le_join_left _ _, Taint.le_join_left _ _⟩
theorem AVal.le_join_right (a b : AVal) : b.le (a.join b) := ⟨Taint.le_join_right _ _, Taint.le_join_right _ _⟩

theorem Summ.le_refl (a : Summ) : a.le a :=
  ⟨id, Taint.le_refl _, Taint.le_refl _, Taint.le_refl _, Taint.le_refl _, Taint.le_refl _⟩
theorem Summ.le_trans {a b c : Summ} (h1 : a.le b) (h2 : b.le c) : a.le c :=
  ⟨fun h => h1.1 (h2.1 h), Taint.le_trans h1.2.1 h2.2.1, Taint.le_trans h1.2.2.1 h2.2.2.1,
   Taint.le_trans h1.2.2.2.1 h2.2.2.2.1, Taint.le_trans h1.2.2.2.2.1 h2.2.2.2.2.1,
   Taint.le_trans h1.2.2.2.2.2 h2.2.2.2.2.2⟩
theorem Summ.le_join_left (a b : Summ) : a.le (a.join b) :=
  ⟨fun h => by simp [Summ.join] at h; exact h.1, Taint.le_join_left _ _, Taint.le_join_left _ _,
   Taint.le_join_left _ _, Taint.le_join_left _ _, Taint.le_join_left _ _⟩
theorem Summ.le_join_right (a b : Summ) : b.le (a.join b) :=
  ⟨fun h => by simp [Summ.join] at h; exact h.2, Taint.le_join_right _ _, Taint.le_join_right _ _,
   Taint.le_join_right _ _, Taint.le_join_right _ _, Taint.le_join_right _ _⟩

theorem Summ.mut_le {a b : Summ} (h : a.le b) (c : Bool) : Taint.le (a.mut c) (b.mut c) := by
  cases c
  · simpa [Summ.mut] using h.2.1
  · simpa [Summ.mut] using h.2.2.1

theorem envLe_refl (e : List AVal) : envLe e e := ⟨Nat.le_refl _, fun _ => AVal.le_refl _⟩
theorem envLe_trans {a b c : List AVal} (h1 : envLe a b) (h2 : envLe b c) : envLe a c :=
  ⟨Nat.le_trans h1.1 h2.1, fun x => AVal.le_trans (h1.2 x) (h2.2 x)⟩

theorem AS.le_refl (a : AS) : a.le a := ⟨envLe_refl _, id, Summ.le_refl _⟩
theorem AS.le_trans {a b c : AS} (h1 : a.le b) (h2 : b.le c) : a.le c :=
  ⟨envLe_trans h1.1 h2.1, fun h => h2.2.1 (h1.2.1 h), Summ.le_trans h1.2.2 h2.2.2⟩

theorem AVal.leB_sound {a b : AVal} (h : a.leB b = true) : a.le b := by
  simp [AVal.leB] at h
  exact ⟨Taint.leB_sound h.1, Taint.leB_sound h.2⟩

theorem Summ.leB_sound {a b : Summ} (h : a.leB b = true) : a.le b := by
  simp only [Summ.leB, Bool.and_eq_true] at h
  obtain ⟨⟨⟨⟨⟨h1, h2⟩, h3⟩, h4⟩, h5⟩, h6⟩ := h
  refine ⟨?_, Taint.leB_sound h2, Taint.leB_sound h3, Taint.leB_sound h4, Taint.leB_sound h5, Taint.leB_sound h6⟩
  intro hb
  simpa [hb] using h1

theorem envLeB_sound : ∀ {e1 e2 : List AVal}, envLeB e1 e2 = true → envLe e1 e2
  | [], e2, _ => ⟨Nat.zero_le _, fun x => by simp [getA, getE]; exact AVal.bot_le _⟩
  | _ :: _, [], h => by simp [envLeB] at h
  | a :: e1, b :: e2, h => by
    simp only [envLeB, Bool.and_eq_true] at h
    have ih := envLeB_sound h.2
    refine ⟨by simpa using ih.1, fun x => ?_⟩
    cases x with
    | zero => simpa [getA, getE] using AVal.leB_sound h.1
    | succ n => simpa [getA, getE] using ih.2 n

theorem AS.leB_sound {a b : AS} (h : a.leB b = true) : a.le b := by
  simp only [AS.leB, Bool.and_eq_true] at h
  refine ⟨envLeB_sound h.1.1, ?_, Summ.leB_sound h.2⟩
  intro ha
  simpa [ha] using h.1.2

theorem envJoin_length_left : ∀ (e1 e2 : List AVal), e1.length ≤ (envJoin e1 e2).length
  | [], e2 => by simp [envJoin]
  | a :: e1, [] => by simp [envJoin]
  | a :: e1, b :: e2 => by simp [envJoin]; exact envJoin_length_left e1 e2

theorem envJoin_length_right : ∀ (e1 e2 : List AVal), e2.length ≤ (envJoin e1 e2).length
  | [], e2 => by simp [envJoin]
  | a :: e1, [] => by simp [envJoin]
  | a :: e1, b :: e2 => by simp [envJoin]; exact envJoin_length_right e1 e2

theorem envJoin_le_left : ∀ (e1 e2 : List AVal) (x : Nat), (getA e1 x).le (getA (envJoin e1 e2) x)
  | [], e2, x => by simp [getA, getE]; exact AVal.bot_le _
  | a :: e1, [], x => by simp [envJoin]; exact AVal.le_refl _
  | a :: e1, b :: e2, x => by
    cases x with
    | zero => simp [envJoin, getA, getE]; exact AVal.le_join_left _ _
    | succ n => simpa [envJoin, getA, getE] using envJoin_le_left e1 e2 n

theorem envJoin_le_right : ∀ (e1 e2 : List AVal) (x : Nat), (getA e2 x).le (getA (envJoin e1 e2) x)
  | [], e2, x => by simp [envJoin]; exact AVal.le_refl _
  | a :: e1, [], x => by simp [getA, getE]; exact AVal.bot_le _
  | a :: e1, b :: e2, x => by
    cases x with
    | zero => simp [envJoin, getA, getE]; exact AVal.le_join_right _ _
    | succ n => simpa [envJoin, getA, getE] using envJoin_le_right e1 e2 n

theorem AS.le_join_left (a b : AS) : a.le (a.join b) :=
  ⟨⟨envJoin_length_left _ _, envJoin_le_left _ _⟩, fun h => by simp [AS.join, h], Summ.le_join_left _ _⟩
theorem AS.le_join_right (a b : AS) : b.le (a.join b) :=
  ⟨⟨envJoin_length_right _ _, envJoin_le_right _ _⟩, fun h => by simp [AS.join, h], Summ.le_join_right _ _⟩

theorem AS.le_fail (a : AS) : a.le a.fail :=
  ⟨envLe_refl _, id, by simp [AS.fail, Summ.le]; exact ⟨Taint.le_refl _, Taint.le_refl _, Taint.le_refl _, Taint.le_refl _, Taint.le_refl _⟩⟩

/-- what `loopFix` returns: above the start, and stable unless marked failed -/
theorem loopFix_spec (f : AS → AS) : ∀ (n : Nat) (σ : AS),
    σ.le (loopFix f n σ) ∧ ((loopFix f n σ).s.ok = true → (f (loopFix f n σ)).leB (loopFix f n σ) = true)
  | 0, σ => ⟨AS.le_fail σ, by simp [loopFix, AS.fail]⟩
  | n + 1, σ => by
    by_cases h : (f σ).leB σ = true
    · simp [loopFix, h]; exact AS.le_refl σ
    · have ih := loopFix_spec f n (σ.join (f σ))
      simp only [loopFix, h]
      exact ⟨AS.le_trans (AS.le_join_left _ _) ih.1, ih.2⟩

theorem loopFix_stable (f : AS → AS) (n : Nat) (σ : AS) (h : (f σ).leB σ = true) :
    loopFix f (n + 1) σ = σ := by
  simp [loopFix, h]

/-! ## the summary only grows -/

theorem applyCall_s_le (sm : Summ) (as : List AVal) (x : Var) (force : AVal) (σ : AS) :
    σ.s.le (applyCall sm as x force σ).s := by
  refine ⟨?_, ?_, ?_, ?_, ?_, ?_⟩
  · intro h; simp [applyCall] at h; exact h.1
  · exact Taint.le_join_left _ _
  · exact Taint.le_join_left _ _
  · exact Taint.le_refl _
  · exact Taint.le_refl _
  · exact Taint.le_join_left _ _

theorem analyse_s_mono (S : List Summ) (kf : Key → Option FnId) :
    ∀ (s : Stmt) (σ : AS), σ.s.le (analyse S kf s σ).s := by
  intro s
  induction s with
  | skip => intro σ; exact Summ.le_refl _
  | seq a b iha ihb => intro σ; exact Summ.le_trans (iha σ) (ihb _)
  | ite a b iha _ => intro σ; exact Summ.le_trans (iha σ) (Summ.le_join_left _ _)
  | loop b _ => intro σ; exact (loopFix_spec _ _ σ).1.2.2
  | join x ys => intro σ; exact Summ.le_refl _
  | alias x y => intro σ; exact Summ.le_refl _
  | view x ys => intro σ; exact Summ.le_refl _
  | param x i => intro σ; exact Summ.le_refl _
  | glob x k => intro σ; exact Summ.le_refl _
  | cached x k =>
    intro σ
    simp only [analyse]
    cases kf k with
    | none => exact Summ.le_refl _
    | some f => exact applyCall_s_le _ _ _ _ _
  | call x f args => intro σ; exact applyCall_s_le _ _ _ _ _
  | mutate x =>
    intro σ
    exact ⟨id, Taint.le_join_left _ _, Taint.le_join_left _ _, Taint.le_refl _, Taint.le_refl _, Taint.le_refl _⟩
  | cmutate x =>
    intro σ
    exact ⟨id, Taint.le_refl _, Taint.le_join_left _ _, Taint.le_refl _, Taint.le_refl _, Taint.le_refl _⟩
  | absorb x y =>
    intro σ
    simp only [analyse]
    split
    · exact ⟨id, Taint.le_refl _, Taint.le_refl _, Taint.le_refl _, Taint.le_refl _, Taint.le_join_left _ _⟩
    · exact Summ.le_refl _
  | store k x => intro σ; exact Summ.le_refl _
  | ret x =>
    intro σ
    exact ⟨id, Taint.le_refl _, Taint.le_refl _, Taint.le_join_left _ _, Taint.le_join_left _ _, Taint.le_refl _⟩

/-! ## what an abstract state says about a concrete one -/

/-- atom `a` covers root `r` in an activation whose arguments are `pv` -/
def holds (pv : List Val) (a r : Nat) : Prop :=
  match a with
  | 0 => True
  | n + 1 => if n % 2 = 0 then r ∈ (getV pv (n / 2)).own else r ∈ (getV pv (n / 2)).reach

/-- root `r` was allocated during the activation (`n₀ ≤ r`) or is covered by an atom of `t` -/
def descrRoot (pv : List Val) (n₀ : Nat) (t : Taint) (r : Nat) : Prop :=
  n₀ ≤ r ∨ ∃ a ∈ t, holds pv a r

def descrL (pv : List Val) (n₀ : Nat) (t : Taint) (rs : List Nat) : Prop :=
  ∀ r ∈ rs, descrRoot pv n₀ t r

def descrVal (pv : List Val) (n₀ : Nat) (a : AVal) (v : Val) : Prop :=
  descrL pv n₀ a.own v.own ∧ descrL pv n₀ a.reach v.reach

def descrEnv (pv : List Val) (n₀ : Nat) (ae : List AVal) (ce : List Val) : Prop :=
  ce.length ≤ ae.length ∧ ∀ x, descrVal pv n₀ (getA ae x) (getV ce x)

structure Inv (pv : List Val) (h₀ : Heap) (n₀ : Nat) (σ : AS) (st : St) : Prop where
  params : st.params = pv
  base : st.base = n₀
  next : n₀ ≤ st.h.next
  env : st.ret = none → descrEnv pv n₀ σ.env st.env
  leaked : st.ret = none → st.leaked = true → σ.leaked = true
  ret : ∀ v, st.ret = some v → descrVal pv n₀ ⟨σ.s.retOwn, σ.s.retReach⟩ v
  ver : ∀ c r, st.h.ver c r ≠ h₀.ver c r → descrRoot pv n₀ (σ.s.mut c) r
  esc : descrL pv n₀ σ.s.esc st.esc

theorem descrRoot_mono {pv n₀ t u r} (h : Taint.le t u) : descrRoot pv n₀ t r → descrRoot pv n₀ u r := by
  rintro (h1 | ⟨a, ha, hh⟩)
  · exact Or.inl h1
  · exact Or.inr ⟨a, h a ha, hh⟩

theorem descrL_mono {pv n₀ t u rs} (h : Taint.le t u) : descrL pv n₀ t rs → descrL pv n₀ u rs :=
  fun hd r hr => descrRoot_mono h (hd r hr)

theorem descrVal_mono {pv n₀ a b v} (h : AVal.le a b) : descrVal pv n₀ a v → descrVal pv n₀ b v :=
  fun hd => ⟨descrL_mono h.1 hd.1, descrL_mono h.2 hd.2⟩

theorem descrEnv_mono {pv n₀ ae be ce} (h : envLe ae be) : descrEnv pv n₀ ae ce → descrEnv pv n₀ be ce :=
  fun hd => ⟨Nat.le_trans hd.1 h.1, fun x => descrVal_mono (h.2 x) (hd.2 x)⟩

theorem descrVal_none (pv n₀ a) : descrVal pv n₀ a Val.none :=
  ⟨fun r h => by simp [Val.none] at h, fun r h => by simp [Val.none] at h⟩

theorem Inv_mono {pv h₀ n₀ σ τ st} (h : AS.le σ τ) (hi : Inv pv h₀ n₀ σ st) : Inv pv h₀ n₀ τ st where
  params := hi.params
  base := hi.base
  next := hi.next
  env := fun hr => descrEnv_mono h.1 (hi.env hr)
  leaked := fun hr hl => h.2.1 (hi.leaked hr hl)
  ret := fun v hv => descrVal_mono ⟨h.2.2.2.2.2.1, h.2.2.2.2.2.2.1⟩ (hi.ret v hv)
  ver := fun c r hc => descrRoot_mono (Summ.mut_le h.2.2 c) (hi.ver c r hc)
  esc := descrL_mono h.2.2.2.2.2.2.2 hi.esc

/-- once the activation has returned only the summary matters -/
theorem Inv_returned {pv h₀ n₀ σ τ st} (hr : st.ret.isSome = true) (h : Summ.le σ.s τ.s)
    (hi : Inv pv h₀ n₀ σ st) : Inv pv h₀ n₀ τ st where
  params := hi.params
  base := hi.base
  next := hi.next
  env := fun hn => by simp [hn] at hr
  leaked := fun hn => by simp [hn] at hr
  ret := fun v hv => descrVal_mono ⟨h.2.2.2.1, h.2.2.2.2.1⟩ (hi.ret v hv)
  ver := fun c r hc => descrRoot_mono (Summ.mut_le h c) (hi.ver c r hc)
  esc := descrL_mono h.2.2.2.2.2 hi.esc

/-! ## environment updates -/

theorem length_setE_eq {α : Type} (d : α) (e : List α) (x : Nat) (v : α) :
    (setE d e x v).length = max e.length (x + 1) := by
  induction x generalizing e with
  | zero => cases e <;> simp [setE] <;> omega
  | succ n ih =>
    cases e with
    | nil => simp [setE, ih]
    | cons a e => simp [setE, ih]

theorem descrEnv_set {pv n₀ ae ce} (x : Var) {a : AVal} {v : Val}
    (he : descrEnv pv n₀ ae ce) (hv : descrVal pv n₀ a v) :
    descrEnv pv n₀ (setA ae x a) (setV ce x v) := by
  refine ⟨?_, fun y => ?_⟩
  · have := he.1
    simp only [setA, setV, length_setE_eq]
    omega
  · simp only [getA, setA, getV, setV, getE_setE]
    by_cases hy : y = x
    · simp [hy]; exact hv
    · simp [hy]; exact he.2 y

theorem getV_absorbAll_lt (ce : List Val) (rs : List Nat) (x : Nat) (h : x < ce.length) :
    getV (absorbAll ce rs) x = { getV ce x with reach := (getV ce x).reach ++ rs } := by
  simp only [getV, absorbAll]
  rw [getE_map Val.none Val.none _ ce x h]

theorem getA_absorbA_lt (ae : List AVal) (t : Taint) (x : Nat) (h : x < ae.length) :
    getA (absorbA ae t) x = { getA ae x with reach := (getA ae x).reach.join t } := by
  simp only [getA, absorbA]
  rw [getE_map AVal.bot AVal.bot _ ae x h]

theorem descrEnv_absorb {pv n₀ ae ce t rs}
    (he : descrEnv pv n₀ ae ce) (ht : descrL pv n₀ t rs) :
    descrEnv pv n₀ (absorbA ae t) (absorbAll ce rs) := by
  refine ⟨by simpa [absorbA, absorbAll] using he.1, fun x => ?_⟩
  by_cases hx : x < ce.length
  · have hx' : x < ae.length := Nat.lt_of_lt_of_le hx he.1
    rw [getV_absorbAll_lt ce rs x hx, getA_absorbA_lt ae t x hx']
    refine ⟨(he.2 x).1, fun r hr => ?_⟩
    simp only [List.mem_append] at hr
    cases hr with
    | inl h => exact descrRoot_mono (Taint.le_join_left _ _) ((he.2 x).2 r h)
    | inr h => exact descrRoot_mono (Taint.le_join_right _ _) (ht r h)
  · have : getV (absorbAll ce rs) x = Val.none := by
      apply getE_of_length_le
      have : ce.length ≤ x := Nat.le_of_not_lt hx
      simpa [absorbAll] using this
    rw [this]
    exact descrVal_none _ _ _

theorem descr_reachOf {pv n₀ ae ce} (ys : List Var) (he : descrEnv pv n₀ ae ce) :
    descrL pv n₀ (reachA ae ys) (reachOf ce ys) := by
  intro r hr
  simp only [reachOf, List.mem_flatMap] at hr
  obtain ⟨y, hy, hr⟩ := hr
  refine descrRoot_mono ?_ ((he.2 y).2 r hr)
  intro a ha
  simp only [reachA]
  exact mem_dedup.mpr (List.mem_flatMap.mpr ⟨y, hy, ha⟩)

theorem bump_ne {rs : List Nat} {f : Nat → Nat} {r : Nat} (h : bump rs f r ≠ f r) : r ∈ rs := by
  unfold bump at h
  by_cases hr : r ∈ rs
  · exact hr
  · simp [hr] at h

/-- one step of the activation: everything the step may have changed is accounted for by `σ'` -/
theorem Inv_step {pv h₀ n₀ σ σ' st st'} (hi : Inv pv h₀ n₀ σ st)
    (hp : st'.params = st.params) (hb : st'.base = st.base) (hn : st.h.next ≤ st'.h.next)
    (henv : st'.ret = none → descrEnv pv n₀ σ'.env st'.env)
    (hl : st'.ret = none → st'.leaked = true → σ'.leaked = true)
    (hret : ∀ v, st'.ret = some v → descrVal pv n₀ ⟨σ'.s.retOwn, σ'.s.retReach⟩ v)
    (hver : ∀ c r, st'.h.ver c r ≠ st.h.ver c r → descrRoot pv n₀ (σ'.s.mut c) r)
    (hs : Summ.le σ.s σ'.s)
    (hesc : descrL pv n₀ σ'.s.esc st'.esc) : Inv pv h₀ n₀ σ' st' where
  params := hp.trans hi.params
  base := hb.trans hi.base
  next := Nat.le_trans hi.next hn
  env := henv
  leaked := hl
  ret := hret
  ver := fun c r hc => by
    by_cases h : st'.h.ver c r = st.h.ver c r
    · exact descrRoot_mono (Summ.mut_le hs c) (hi.ver c r (by rw [← h]; exact hc))
    · exact hver c r h
  esc := hesc

/-! ## calls: a callee-side description becomes a caller-side one -/

theorem mem_inst {as : List AVal} {t : Taint} {b : Nat} :
    b ∈ inst as t ↔ ∃ a ∈ t, b ∈ instAtom as a := by
  simp only [inst]
  rw [mem_dedup, List.mem_flatMap]

theorem inst_mono {as : List AVal} {t u : Taint} (h : Taint.le t u) : Taint.le (inst as t) (inst as u) := by
  intro b hb
  obtain ⟨a, ha, hb⟩ := mem_inst.mp hb
  exact mem_inst.mpr ⟨a, h a ha, hb⟩

theorem getV_map_args (ce : List Val) (args : List Var) (i : Nat) :
    getV (args.map (getV ce)) i = match args[i]? with | some y => getV ce y | none => Val.none := by
  simp only [getV]
  exact getE_map_args Val.none (getE Val.none ce) args i

theorem getA_map_args (ae : List AVal) (args : List Var) (i : Nat) :
    getA (args.map (getA ae)) i = match args[i]? with | some y => getA ae y | none => AVal.bot := by
  simp only [getA]
  exact getE_map_args AVal.bot (getE AVal.bot ae) args i

theorem holds_inst {pv n₀ ae ce} (args : List Var) (he : descrEnv pv n₀ ae ce) (m : Nat) (hm : n₀ ≤ m)
    (t : Taint) (r : Nat) (h : descrRoot (args.map (getV ce)) m t r) :
    descrRoot pv n₀ (inst (args.map (getA ae)) t) r := by
  rcases h with h | ⟨a, ha, hh⟩
  · exact Or.inl (Nat.le_trans hm h)
  · cases a with
    | zero => exact Or.inr ⟨0, mem_inst.mpr ⟨0, ha, by simp [instAtom]⟩, trivial⟩
    | succ n =>
      simp only [holds] at hh
      by_cases hpar : n % 2 = 0
      · simp only [hpar, if_true] at hh
        rw [getV_map_args] at hh
        cases hy : args[n / 2]? with
        | none => simp [hy, Val.none] at hh
        | some y =>
          simp only [hy] at hh
          refine descrRoot_mono ?_ ((he.2 y).1 r hh)
          intro b hb
          refine mem_inst.mpr ⟨n + 1, ha, ?_⟩
          simp only [instAtom, hpar, if_true]
          rw [getA_map_args]
          simpa [hy] using hb
      · simp only [hpar, if_false] at hh
        rw [getV_map_args] at hh
        cases hy : args[n / 2]? with
        | none => simp [hy, Val.none] at hh
        | some y =>
          simp only [hy] at hh
          refine descrRoot_mono ?_ ((he.2 y).2 r hh)
          intro b hb
          refine mem_inst.mpr ⟨n + 1, ha, ?_⟩
          simp only [instAtom, hpar, if_false]
          rw [getA_map_args]
          simpa [hy] using hb

theorem Heap.ver_cache (h : Heap) (c : List (Key × Val)) (k : Bool) :
    ({ h with cache := c } : Heap).ver k = h.ver k := by
  cases k <;> rfl

theorem Inv_cache {pv h₀ n₀ σ st} (c : List (Key × Val)) (hi : Inv pv h₀ n₀ σ st) :
    Inv pv h₀ n₀ σ { st with h := { st.h with cache := c } } where
  params := hi.params
  base := hi.base
  next := hi.next
  env := hi.env
  leaked := hi.leaked
  ret := hi.ret
  ver := fun k r hc => hi.ver k r (by simpa [Heap.ver_cache] using hc)
  esc := hi.esc

/-- the caller's invariant after a finished activation of a function whose table entry is `sm` -/
theorem Inv_call {pv h₀ n₀ σ st} {sm : Summ} {τ : AS} (x : Var) (args : List Var) (force : AVal) (st' : St)
    (hi : Inv pv h₀ n₀ σ st) (hr : st.ret = none)
    (hcal : Inv (args.map (getV st.env)) st.h st.h.next τ st')
    (hle : τ.s.le sm) :
    Inv pv h₀ n₀ (applyCall sm (args.map (getA σ.env)) x force σ) (finishCall st x st') := by
  have he := hi.env hr
  have hinst : ∀ (t u : Taint) (r : Nat), Taint.le t u →
      descrRoot (args.map (getV st.env)) st.h.next t r →
      descrRoot pv n₀ (inst (args.map (getA σ.env)) u) r :=
    fun t u r htu h => descrRoot_mono (inst_mono htu) (holds_inst args he st.h.next hi.next t r h)
  have hesc : descrL pv n₀ (inst (args.map (getA σ.env)) sm.esc) st'.esc :=
    fun r hr' => hinst _ _ r hle.2.2.2.2.2 (hcal.esc r hr')
  apply Inv_step hi
  · rfl
  · rfl
  · exact hcal.next
  · intro _
    simp only [applyCall, finishCall]
    apply descrEnv_set
    · exact descrEnv_absorb he hesc
    · cases hv : st'.ret with
      | none => exact descrVal_none _ _ _
      | some v =>
        have hd := hcal.ret v hv
        refine ⟨fun r hr' => ?_, fun r hr' => ?_⟩
        · exact descrRoot_mono (Taint.le_join_right _ _) (hinst _ _ r hle.2.2.2.1 (hd.1 r hr'))
        · exact descrRoot_mono (Taint.le_join_right _ _) (hinst _ _ r hle.2.2.2.2.1 (hd.2 r hr'))
  · intro hn hl
    exact hi.leaked hr hl
  · intro v hv
    simp [finishCall, hr] at hv
  · intro c r hc
    have := hcal.ver c r hc
    cases c with
    | false =>
      simp only [applyCall, Summ.mut]
      exact descrRoot_mono (Taint.le_join_right _ _) (hinst _ _ r hle.2.1 (by simpa [Summ.mut] using this))
    | true =>
      simp only [applyCall, Summ.mut]
      exact descrRoot_mono (Taint.le_join_right _ _) (hinst _ _ r hle.2.2.1 (by simpa [Summ.mut] using this))
  · exact applyCall_s_le _ _ _ _ _
  · intro r hr'
    simp only [finishCall, List.mem_append] at hr'
    simp only [applyCall]
    cases hr' with
    | inl h => exact descrRoot_mono (Taint.le_join_left _ _) (hi.esc r h)
    | inr h => exact descrRoot_mono (Taint.le_join_right _ _) (hesc r h)

end AurelVerif.Heap
