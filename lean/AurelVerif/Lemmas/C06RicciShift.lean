/-
Lemmas/C06RicciShift.lean — Layer B (consistency), groundwork for the RICCI EQUATION (property C06, extension):
the shift-and-metric part `Z_ij` (`JetC.Zshift`, Lemmas/C06RicciSecond.lean) of the second-derivative term of `R_itjt`:

   `Z_ij = β^kβ^l ³R_ikjl − γ_pq D_jβ^p D_iβ^q + Γ^p_ij(β^k L_βγ_kp − β_k∂_pβ^k − ½β^kβ^l∂_pγ_kl)`,   `D_mβ^l = ∂_mβ^l + Γ^l_nm β^n`

(a polynomial identity in β, γ, Γ, ∂β, ∂∂β, ∂∂γ after `∂_iγ_kj = γ_lj Γ^l_ik + γ_kl Γ^l_ij`; hypotheses `Jet.LeviCivita`,
`JetC.Smooth`).  Nothing here mentions generated code.
-/
import AurelVerif.Lemmas.C06RicciSecond

set_option linter.unusedSimpArgs false
set_option linter.unusedVariables false
set_option linter.unusedTactic false
set_option linter.unreachableTactic false

namespace AurelVerif.Spec.Curvature.JetC
open AurelVerif.Tensor AurelVerif.CoreTac AurelVerif.C04L AurelVerif.Spec.Curvature.Jet

variable {K : Type} [Field K] (J : JetC K)

local notation "γΓ" => christoffel1 J.dgam

set_option maxHeartbeats 1000000 in
/-- twice the shift part, no division, connection written with `γ_pm Γ^m_il` in place of `³Γ_{p|il}`. -/
theorem shift_part2 (h : J.LeviCivita) (hs : J.Smooth) : ∀ i j : Fin 3,
    ∑ k, J.beta k * (J.lieGamD j k i + J.lieGamD i k j - J.lieGamD k i j) - J.bbg2 i j
      = ∑ k, ∑ l, J.beta k * J.beta l * (J.ddgam k j i l + J.ddgam i l k j - J.ddgam i j k l - J.ddgam k l i j)
        + 2 * ∑ k, ∑ l, J.beta k * J.beta l
            * (∑ p, J.Gam3 p k j * ∑ m, J.gam p m * J.Gam3 m i l - ∑ p, J.Gam3 p k l * ∑ m, J.gam p m * J.Gam3 m i j)
        - 2 * ∑ p, ∑ q, J.gam p q * J.Db j p * J.Db i q
        + ∑ p, J.Gam3 p i j * (2 * ∑ k, J.beta k * J.lieGam k p - 2 * ∑ k, ∑ l, J.beta l * J.gam k l * J.db p k
            - ∑ k, ∑ l, J.beta k * J.beta l * J.dgam p k l) := by
  lc_syms h
  have k10 := fun i j => hs.ddgam_kl 1 0 i j
  have k20 := fun i j => hs.ddgam_kl 2 0 i j
  have k21 := fun i j => hs.ddgam_kl 2 1 i j
  have i10 := fun k l => hs.ddgam_ij k l 1 0
  have i20 := fun k l => hs.ddgam_ij k l 2 0
  have i21 := fun k l => hs.ddgam_ij k l 2 1
  have b21 := fun m => hs.ddb 2 1 m
  have b31 := fun m => hs.ddb 3 1 m
  have b32 := fun m => hs.ddb 3 2 m
  simp only [lieGamD, bbg2, Db, lieGam, h.mc]
  cases3 <;> cases3 <;>
    (simp only [Fin.sum_univ_three, succ3_0, succ3_1, succ3_2, g10, g20, g21, G010, G020, G021, G110, G120, G121,
       G210, G220, G221, k10, k20, k21, i10, i20, i21, b21, b31, b32]
     ring)

/-- the shift part of the second-derivative term of `R_itjt` (see the header). -/
theorem shift_part (h : J.LeviCivita) (hs : J.Smooth) (i j : Fin 3) :
    J.Zshift i j
      = ∑ k, ∑ l, J.beta k * J.beta l * J.riem3 i k j l - ∑ p, ∑ q, J.gam p q * J.Db j p * J.Db i q
        + ∑ p, J.Gam3 p i j * (∑ k, J.beta k * J.lieGam k p - ∑ k, ∑ l, J.beta l * J.gam k l * J.db p k
            - (1 / 2) * ∑ k, ∑ l, J.beta k * J.beta l * J.dgam p k l) := by
  have h12 : (1 / 2 : K) * 2 = 1 := by have := h.two; field_simp
  have e := shift_part2 J h hs i j
  simp only [Zshift, riem3_eq J h, S3, c1_gam J.toJet h]
  obtain ⟨Y, hY⟩ : ∃ Y : K, Y
      = (∑ k, ∑ l, J.beta k * J.beta l
            * (∑ p, J.Gam3 p k j * ∑ m, J.gam p m * J.Gam3 m i l - ∑ p, J.Gam3 p k l * ∑ m, J.gam p m * J.Gam3 m i j))
        - ∑ p, ∑ q, J.gam p q * J.Db j p * J.Db i q
        + ∑ p, J.Gam3 p i j * (∑ k, J.beta k * J.lieGam k p - ∑ k, ∑ l, J.beta l * J.gam k l * J.db p k) := ⟨_, rfl⟩
  simp only [Fin.sum_univ_three] at e hY ⊢
  linear_combination (1 / 2) * e + Y * h12 - ((1 / 2 : K) * 2 - 1) * hY
