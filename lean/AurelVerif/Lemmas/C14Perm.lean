/-
Lemmas/C14Perm.lean — C14: the sort as an explicit permutation of the row
INDICES (all columns are permuted by the same index list, input columns are
preserved cell by cell) and non-interference between steps in its strong form
(one row function for all tables with the same columns).  Core Lean only.
-/
import AurelVerif.Lemmas.Table

namespace AurelVerif.Table
variable {C : Type}

/-! ## 1. the sorting permutation of the row indices -/

/-- the row indices decorated with their temporal cell -/
def idxDec (tk : Name) (t : Table C) (n : Nat) : List (C × Nat) :=
  (List.range n).filterMap (fun i => (get? tk (rowAt t i)).map (fun c => (c, i)))

/-- `sorted(range(n), key=lambda i: data[tk][i])`: the indices of the input rows in output order -/
def sortIdx (E : Env C) (tk : Name) (t : Table C) (n : Nat) : List Nat :=
  (stableSort (fun a b : C × Nat => E.lt a.1 b.1) (idxDec tk t n)).map (·.2)

theorem decorate_rowsOf (tk : Name) (t : Table C) (n : Nat) :
    decorate tk (rowsOf t n) = (idxDec tk t n).map (fun p => (p.1, rowAt t p.2)) := by
  unfold decorate rowsOf idxDec
  rw [List.filterMap_map, List.map_filterMap]
  apply filterMap_congr'
  intro i _
  simp only [Function.comp_def]
  cases get? tk (rowAt t i) <;> rfl

/-- the sorted rows are the rows taken in the order `sortIdx` -/
theorem sortP_eq_sortIdx (E : Env C) (tk : Name) (t : Table C) (n : Nat) :
    sortP E tk (rowsOf t n) = (sortIdx E tk t n).map (rowAt t) := by
  unfold sortP sortIdx
  rw [decorate_rowsOf, stableSort_map (fun a b : C × Nat => E.lt a.1 b.1) (fun a b : C × Row C => E.lt a.1 b.1)
    (fun p => (p.1, rowAt t p.2)) (fun _ _ => rfl)]
  simp [List.map_map, Function.comp_def]

theorem idxDec_map_snd {tk : Name} {t : Table C} {n : Nat} (hwf : WF t n) (htk : tk ∈ keys t) :
    (idxDec tk t n).map (·.2) = List.range n := by
  unfold idxDec
  rw [List.map_filterMap]
  have : ∀ i ∈ List.range n, Option.map (fun p : C × Nat => p.2) ((get? tk (rowAt t i)).map (fun c => (c, i))) = some i := by
    intro i hi
    have hi' : i < n := List.mem_range.mp hi
    have hk : tk ∈ keys (rowAt t i) := by
      rw [keys_rowAt (fun kc hkc => by rw [hwf.rect kc hkc]; exact hi')]; exact htk
    obtain ⟨c, hc⟩ := get?_some_of_mem hk
    simp [hc]
  rw [filterMap_congr' this]
  simp

/-- `sortIdx` is a permutation of `0 .. n-1` -/
theorem sortIdx_perm (E : Env C) {tk : Name} {t : Table C} {n : Nat} (hwf : WF t n) (htk : tk ∈ keys t) :
    (sortIdx E tk t n).Perm (List.range n) := by
  have h := (stableSort_perm (fun a b : C × Nat => E.lt a.1 b.1) (idxDec tk t n)).map (·.2)
  rw [idxDec_map_snd hwf htk] at h
  exact h

theorem mem_sortIdx_lt (E : Env C) {tk : Name} {t : Table C} {n : Nat} (hwf : WF t n) (htk : tk ∈ keys t)
    {i : Nat} (hi : i ∈ sortIdx E tk t n) : i < n :=
  List.mem_range.mp ((sortIdx_perm E hwf htk).subset hi)

theorem pair_sublist_range {i j n : Nat} (hij : i < j) (hj : j < n) : [i, j].Sublist (List.range n) := by
  induction n with
  | zero => omega
  | succ m ih =>
    rw [List.range_succ]
    by_cases hjm : j < m
    · exact (ih hjm).trans (List.sublist_append_left _ _)
    · have : j = m := by omega
      subst this
      have h1 : [i].Sublist (List.range j) := List.singleton_sublist.mpr (List.mem_range.mpr hij)
      exact List.Sublist.append h1 (List.Sublist.refl [j])

/-- stability on indices: two steps given in the order `i < j` whose temporal cells are
not strictly decreasing come out in the order `i, j` -/
theorem sortIdx_stable (E : Env C) {tk : Name} {t : Table C} {n : Nat} (hwf : WF t n) (htk : tk ∈ keys t)
    {i j : Nat} (hij : i < j) (hj : j < n)
    (hle : ∀ ci cj, get? tk (rowAt t i) = some ci → get? tk (rowAt t j) = some cj → E.lt cj ci = false) :
    [i, j].Sublist (sortIdx E tk t n) := by
  have hk : ∀ m, m < n → tk ∈ keys (rowAt t m) := fun m hm => by
    rw [keys_rowAt (fun kc hkc => by rw [hwf.rect kc hkc]; exact hm)]; exact htk
  obtain ⟨ci, hci⟩ := get?_some_of_mem (hk i (by omega))
  obtain ⟨cj, hcj⟩ := get?_some_of_mem (hk j hj)
  have hdec : [(ci, i), (cj, j)].Sublist (idxDec tk t n) := by
    have := (pair_sublist_range hij hj).filterMap (fun m => (get? tk (rowAt t m)).map (fun c => (c, m)))
    simpa [hci, hcj, idxDec] using this
  have := stableSort_stable (fun p q : C × Nat => E.lt p.1 q.1) _ _ _ hdec (hle ci cj hci hcj)
  exact this.map (·.2)

theorem filterMap_map_some {α γ : Type} {f : α → Option γ} {l : List α} (h : ∀ a ∈ l, ∃ b, f a = some b) :
    (l.filterMap f).map some = l.map f := by
  induction l with
  | nil => rfl
  | cons a as ih =>
    obtain ⟨b, hb⟩ := h a (by simp)
    simp [hb, ih (fun x hx => h x (by simp [hx]))]

/-! ## 2. all columns are permuted together, input columns are preserved -/

/-- **one index permutation for all columns.**  When the call computes something, there is
one list `σ` — a permutation of the row indices `0 .. n-1`, ordered by the temporal cells,
stable — such that
* the output is the column view of the rows `σ[0], σ[1], …` of the input, each processed on its own;
* every input column `k` comes out as `col[σ[0]], col[σ[1]], …`: preserved cell by cell, permuted by `σ`;
* every requested variable comes out as `rel[v]` of step `σ[0]`, of step `σ[1]`, …: the same `σ`;
* the temporal column comes out sorted. -/
theorem permuted_together_lemma (E : Env C) {t : Table C} {n : Nat} {tk : Name} (hwf : WF t n) (hn : 0 < n)
    (htk : temporalKey t = some tk) (hsw : StrictWeak E.lt) {vars ests : List Req}
    (hp : Processes E t vars ests) :
    ∃ out σ,
      overTime E t vars ests = .ok out ∧
      σ.Perm (List.range n) ∧
      (∀ i j, i < j → j < n →
        (∀ ci cj, get? tk (rowAt t i) = some ci → get? tk (rowAt t j) = some cj → E.lt cj ci = false) →
        [i, j].Sublist σ) ∧
      out = colsOf (σ.map (fun i => callF E t vars ests (rowAt t i))) ∧
      (∀ k col, get? k t = some col →
        ∃ oc, get? k out = some oc ∧ oc.map some = σ.map (fun i => col[i]?) ∧ oc.Perm col) ∧
      (∀ v ∈ cleanVars E t vars,
        get? v.key out = some (σ.map (fun i => relGet E (relData E (cleanVars E t vars) (rowAt t i)) v.key))) ∧
      (∃ oc, get? tk out = some oc ∧ Sorted E.lt oc) := by
  have htkm := (temporalKey_mem htk).1
  have hsort := sortP_eq_sortIdx E tk t n
  have hout := overTime_processes E hwf hn htk hp
  have hpw := sortP_pairwise E hsw tk (rowsOf t n)
  obtain ⟨out2, hout2, hvars⟩ := per_step_lemma E hwf hn htk hp
  have hoo : out2 = colsOf ((sortP E tk (rowsOf t n)).map (callF E t vars ests)) := by
    rw [hout] at hout2; exact (Except.ok.inj hout2).symm
  have hcols : out2 = colsOf ((sortP E tk (rowsOf t n)).map (callF E t vars ests)) := hoo
  have hin : ∀ k col, get? k t = some col → get? k out2 = some (colOf k (sortP E tk (rowsOf t n))) := by
    intro k col hk
    have hkt : k ∈ keys t := mem_keys_of_get? hk
    obtain ⟨r0, rest, hL⟩ : ∃ r0 rest, sortP E tk (rowsOf t n) = r0 :: rest := by
      cases hs : sortP E tk (rowsOf t n) with
      | nil => exact absurd hs (sorted_ne_nil E hwf hn htk)
      | cons a b => exact ⟨a, b, rfl⟩
    have hr0 : r0 ∈ sortP E tk (rowsOf t n) := by rw [hL]; simp
    have hhead : ((sortP E tk (rowsOf t n)).map (callF E t vars ests)).head? = some (callF E t vars ests r0) := by
      rw [hL]; rfl
    rw [hoo, get?_colsOf hhead, if_pos, colOf_map_congr]
    · intro r hr
      exact get?_stepRow_input E _ _ (keys_of_mem_sorted E hwf htk hr) hkt
    · exact subset_keys_stepRow E _ _ _ r0 (by rw [keys_of_mem_sorted E hwf htk hr0]; exact hkt)
  rw [← hoo] at hout
  have hlt : ∀ i ∈ sortIdx E tk t n, i < n := fun i hi => mem_sortIdx_lt E hwf htkm hi
  refine ⟨out2, sortIdx E tk t n, hout, sortIdx_perm E hwf htkm,
    fun i j hij hj hle => sortIdx_stable E hwf htkm hij hj hle, ?_, ?_, ?_, ?_⟩
  · rw [hcols, hsort, List.map_map]; rfl
  · intro k col hk
    have h2 := hin k col hk
    refine ⟨_, h2, ?_, ?_⟩
    rotate_left
    · have := (sortP_perm E (tk_mem_rows hwf htk)).filterMap (get? k)
      rw [← colOf_rowsOf hwf hk]
      exact this
    rw [hsort, colOf, List.filterMap_map]
    have hcell : ∀ i ∈ sortIdx E tk t n, (get? k ∘ rowAt t) i = col[i]? := by
      intro i hi
      have hi' := hlt i hi
      simp [get?_rowAt (fun kc hkc => by rw [hwf.rect kc hkc]; exact hi') k, hk]
    rw [filterMap_congr' hcell]
    apply filterMap_map_some
    intro i hi
    have hlen : col.length = n := by
      have := colOf_rowsOf hwf hk
      rw [← this]
      exact (length_colOf (fun r hr => by rw [keys_of_mem_rowsOf hwf hr]; exact mem_keys_of_get? hk)).trans
        (length_rowsOf t n)
    exact ⟨col[i]'(by rw [hlen]; exact hlt i hi), List.getElem?_eq_getElem _⟩
  · intro v hv
    rw [hvars v hv, hsort, List.map_map]; rfl
  · obtain ⟨tcol, htcol⟩ := get?_some_of_mem htkm
    have h2 := hin tk tcol htcol
    refine ⟨_, h2, ?_⟩
    -- the temporal cells of the sorted rows are pairwise not decreasing
    have hmem : ∀ r ∈ sortP E tk (rowsOf t n), tk ∈ keys r := fun r hr => by
      rw [keys_of_mem_sorted E hwf htk hr]; exact htkm
    clear h2 hin hcols hvars hout hsort hoo
    generalize sortP E tk (rowsOf t n) = L at hpw hmem
    induction L with
    | nil => simp [colOf, Sorted]
    | cons r rest ih =>
      obtain ⟨c, hc⟩ := get?_some_of_mem (hmem r (by simp))
      have hp' := List.pairwise_cons.mp hpw
      have ih' := ih hp'.2 (fun x hx => hmem x (by simp [hx]))
      simp only [colOf, List.filterMap_cons, hc, Sorted] at ih' ⊢
      refine List.pairwise_cons.mpr ⟨?_, ih'⟩
      intro c' hc'
      obtain ⟨r', hr', hg⟩ := List.mem_filterMap.mp hc'
      exact hp'.1 r' hr' c c' hc hg

/-! ## 3. non-interference between steps, strong form -/

theorem lacksIn_congr {t t' : Table C} (h : keys t = keys t') (sk : List Name) (nm : Name) :
    lacksIn t sk nm = lacksIn t' sk nm := by
  unfold lacksIn
  congr 1
  funext s
  congr 1
  rw [Bool.eq_iff_iff, has_iff, has_iff, h]

/-- the row function of a call depends on the table only through its column names and the
list of scalar keys decided on the first row -/
theorem callF_congr (E : Env C) {t t' : Table C} (hkeys : keys t = keys t') {vars : List Req}
    (hsk : callSk E t vars = callSk E t' vars) (ests : List Req) :
    cleanVars E t vars = cleanVars E t' vars ∧
    cleanedEsts E t (cleanVars E t vars) ests = cleanedEsts E t' (cleanVars E t' vars) ests ∧
    callF E t vars ests = callF E t' vars ests := by
  have hcv : cleanVars E t vars = cleanVars E t' vars :=
    cleanVars_congr E (fun s _ => by rw [Bool.eq_iff_iff, has_iff, has_iff, hkeys])
  have hce : cleanedEsts E t (cleanVars E t vars) ests = cleanedEsts E t' (cleanVars E t' vars) ests := by
    rw [← hcv]
    cases hc : cleanVars E t vars with
    | cons a b => rfl
    | nil =>
      have h0 : ∀ T : Table C, callSk E T vars = scalarKeys E (stepVars E (cleanVars E T vars) (rowAt T 0)) :=
        fun _ => rfl
      have h1 : scalarKeys E (rowAt t 0) = scalarKeys E (rowAt t' 0) := by
        have := hsk
        rw [h0 t, h0 t', ← hcv, hc] at this
        simpa [stepVars] using this
      rw [cleanedEsts_nil, cleanedEsts_nil, h1]
      congr 1
      funext item
      congr 1
      funext nm
      exact lacksIn_congr hkeys _ nm
  refine ⟨hcv, hce, ?_⟩
  unfold callF
  rw [hce, ← hcv, hsk]

/-- **non-interference, strong form.**  Two tables with the same column names (and the same
list of scalar keys — decided by the code on the first row only) are processed by ONE
row function `F`: the output row of a step is `F` of that step's input dictionary,
whatever the other steps of the table are, wherever the step stands in the table and
however many steps there are. -/
theorem one_row_function_lemma (E : Env C) {t t' : Table C} {n n' : Nat} {tk : Name}
    (hwf : WF t n) (hn : 0 < n) (htk : temporalKey t = some tk)
    (hwf' : WF t' n') (hn' : 0 < n') (htk' : temporalKey t' = some tk) (hkeys : keys t = keys t')
    {vars ests : List Req} (hsk : callSk E t vars = callSk E t' vars) (hp : Processes E t vars ests) :
    Processes E t' vars ests ∧
    ∃ F : Row C → Row C,
      overTime E t vars ests = .ok (colsOf ((sortP E tk (rowsOf t n)).map F)) ∧
      overTime E t' vars ests = .ok (colsOf ((sortP E tk (rowsOf t' n')).map F)) := by
  obtain ⟨hcv, hce, hF⟩ := callF_congr E hkeys hsk ests
  have hp' : Processes E t' vars ests := by
    unfold Processes at hp ⊢
    rw [← hce, ← hcv]; exact hp
  refine ⟨hp', callF E t vars ests, overTime_processes E hwf hn htk hp, ?_⟩
  rw [hF]
  exact overTime_processes E hwf' hn' htk' hp'

/-- index form: a step whose input dictionary is the same in both tables (at ANY positions
`p`, `p'`) has the same complete output row — input cells, variables, estimates — in both
results; `i`, `j` are the positions where the step lands after sorting. -/
theorem step_noninterference_lemma (E : Env C) {t t' : Table C} {n n' : Nat} {tk : Name}
    (hwf : WF t n) (hn : 0 < n) (htk : temporalKey t = some tk)
    (hwf' : WF t' n') (hn' : 0 < n') (htk' : temporalKey t' = some tk) (hkeys : keys t = keys t')
    {vars ests : List Req} (hsk : callSk E t vars = callSk E t' vars) (hp : Processes E t vars ests)
    {p p' : Nat} (hpn : p < n) (hpn' : p' < n') (hrow : rowAt t p = rowAt t' p') :
    ∃ out out', overTime E t vars ests = .ok out ∧ overTime E t' vars ests = .ok out' ∧
      ∃ i j, i < n ∧ j < n' ∧
        (sortP E tk (rowsOf t n))[i]? = some (rowAt t p) ∧
        (sortP E tk (rowsOf t' n'))[j]? = some (rowAt t' p') ∧
        rowAt out i = callF E t vars ests (rowAt t p) ∧ rowAt out' j = callF E t vars ests (rowAt t p) := by
  obtain ⟨hcv, hce, hF⟩ := callF_congr E hkeys hsk ests
  have hp' : Processes E t' vars ests := by
    unfold Processes at hp ⊢
    rw [← hce, ← hcv]; exact hp
  refine ⟨_, _, overTime_processes E hwf hn htk hp, overTime_processes E hwf' hn' htk' hp', ?_⟩
  have hm : rowAt t p ∈ sortP E tk (rowsOf t n) :=
    (sortP_perm E (tk_mem_rows hwf htk)).mem_iff.mpr (List.mem_map.mpr ⟨p, List.mem_range.mpr hpn, rfl⟩)
  have hm' : rowAt t' p' ∈ sortP E tk (rowsOf t' n') :=
    (sortP_perm E (tk_mem_rows hwf' htk')).mem_iff.mpr (List.mem_map.mpr ⟨p', List.mem_range.mpr hpn', rfl⟩)
  obtain ⟨i, hi, hgi⟩ := List.getElem_of_mem hm
  obtain ⟨j, hj, hgj⟩ := List.getElem_of_mem hm'
  have hli := length_sorted E hwf htk
  have hlj := length_sorted E hwf' htk'
  refine ⟨i, j, by rw [← hli]; exact hi, by rw [← hlj]; exact hj,
    by rw [List.getElem?_eq_getElem hi, hgi], by rw [List.getElem?_eq_getElem hj, hgj], ?_, ?_⟩
  · have hu := uniform_call E hwf hn htk vars ests
    rw [rowAt_colsOf hu (by simpa using hi)]
    simp [hgi]
  · have hu := uniform_call E hwf' hn' htk' vars ests
    rw [rowAt_colsOf hu (by simpa using hj)]
    simp [hgj, ← hF, hrow]

end AurelVerif.Table
