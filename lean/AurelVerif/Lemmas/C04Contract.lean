/-
Lemmas/C04Contract.lean — index raising and contractions of the 4-Riemann tensor
(generated `st_Riemann_uddd4`, `st_Riemann_uudd4`, `Kretschmann`, `st_Ricci_down4`,
`st_Ricci_down3`, `st_RicciS`, `Einsteindown4`) are the textbook contractions of
`Spec/Curvature.lean`; Ricci and Einstein tensors are symmetric.

The 256-entry tables are matched entry by entry by `rfl` against the sum written in
the flattened order in which numpy's einsum was traced; `flat*_eq` turn that into `∑`.
-/
import AurelVerif.Props.C08
import AurelVerif.Gen.CoreBig_st_Riemann_uddd4
import AurelVerif.Gen.CoreBig_st_Riemann_uudd4
import AurelVerif.Gen.CoreBig_Kretschmann
import AurelVerif.Spec.Curvature

set_option linter.unusedSimpArgs false
set_option linter.unusedVariables false

namespace AurelVerif.C04L
open AurelVerif.Gen.Core AurelVerif.Tensor AurelVerif.CoreTac AurelVerif.C08 AurelVerif.Spec.Curvature

variable {K : Type} [Field K]

/-- 16 terms in lexicographic order, left-associated (the shape of a traced double contraction). -/
def flat16 (F : Fin 4 → Fin 4 → K) : K :=
  F 0 0 + F 0 1 + F 0 2 + F 0 3 + F 1 0 + F 1 1 + F 1 2 + F 1 3 + F 2 0 + F 2 1 + F 2 2 + F 2 3
    + F 3 0 + F 3 1 + F 3 2 + F 3 3

theorem flat16_eq (F : Fin 4 → Fin 4 → K) : flat16 F = ∑ a, ∑ b, F a b := by
  simp only [flat16, Fin.sum_univ_four]; ring

/-! ### raising -/

set_option maxHeartbeats 1000000 in
/-- `st_Riemann_uddd4 = R^i_{bcd} = g^{ai} R_{abcd}` (einsum `'abcd, ai -> ibcd'`). -/
theorem uddd4_spec (e : Env K) (i b c d : Fin 4) :
    st_Riemann_uddd4 e i b c d = raise1 e.gup4 e.st_Riemann_down4 i b c d := by
  unfold raise1
  rw [Fin.sum_univ_four]
  revert i b c d
  cases4 <;> cases4 <;> cases4 <;> cases4 <;> rfl

set_option maxHeartbeats 1000000 in
/-- `st_Riemann_uudd4 = R^{ef}_{cd} = g^{ae} g^{bf} R_{abcd}` (einsum `'abcd, ae, bf -> efcd'`). -/
theorem uudd4_spec (e : Env K) (x y c d : Fin 4) :
    st_Riemann_uudd4 e x y c d = raise12 e.gup4 e.st_Riemann_down4 x y c d := by
  unfold raise12
  rw [← flat16_eq]
  revert x y c d
  cases4 <;> cases4 <;> cases4 <;> cases4 <;> rfl

set_option maxRecDepth 100000 in
set_option maxHeartbeats 1000000 in
/-- `Kretschmann = R^{ab}_{cd} R^{cd}_{ab}` (einsum `'abcd, cdab -> '`). -/
theorem Kretschmann_spec (e : Env K) : Kretschmann e = kretschmann e.st_Riemann_uudd4 := by
  unfold kretschmann
  simp only [core_unfold, Fin.sum_univ_four]
  ring

/-! ### Ricci tensor, scalar, Einstein tensor -/

/-- `st_Ricci_down4` without `Tdown4`: the contraction `R_bd = R^a_{bad}`. -/
theorem Ricci4_dflt_spec (e : Env K) (b d : Fin 4) :
    st_Ricci_down4__dflt e b d = ricci e.st_Riemann_uddd4 b d := by
  unfold ricci
  rw [Fin.sum_univ_four]
  revert b d
  cases4 <;> cases4 <;> rfl

/-- `st_Ricci_down4` with `Tdown4` supplied: `R_ab = Λ g_ab + κ (T_ab − ½ T g_ab)`. -/
theorem Ricci4_Tdown4_spec (e : Env K) (a b : Fin 4) :
    st_Ricci_down4__Tdown4 e a b = ricciOfMatter e.Lambda e.kappa e.gdown4 e.Tdown4 e.Ttrace a b := by
  unfold ricciOfMatter
  revert a b
  cases4 <;> cases4 <;> rfl

/-- `st_Ricci_down3` without a cached `st_Ricci_down4`: the same formula on the spatial block,
with the trace of `Tdown4` taken with `gup4`. -/
theorem Ricci3_dflt_spec (e : Env K) (i j : Fin 3) :
    st_Ricci_down3__dflt e i j
      = ricciOfMatter e.Lambda e.kappa (fun a b : Fin 3 => e.gammadown3 a b)
          (fun a b : Fin 3 => e.Tdown4 a.succ b.succ) (trace e.gup4 e.Tdown4) i j := by
  unfold ricciOfMatter trace
  revert i j
  cases3 <;> cases3 <;> (simp only [core_unfold, Fin.sum_univ_four]; ring)

/-- `st_Ricci_down3` with a cached `st_Ricci_down4`: its spatial block. -/
theorem Ricci3_cached_spec (e : Env K) (i j : Fin 3) :
    st_Ricci_down3__st_Ricci_down4 e i j = e.st_Ricci_down4 i.succ j.succ := by
  revert i j
  cases3 <;> cases3 <;> rfl

/-- `st_RicciS = g^{ab} R_ab`. -/
theorem RicciS_spec (e : Env K) : st_RicciS e = trace e.gup4 e.st_Ricci_down4 := by
  unfold trace
  simp only [core_unfold, Fin.sum_univ_four]
  ring

/-- `Einsteindown4 = R_ab − ½ R g_ab`. -/
theorem Einstein_spec (e : Env K) (a b : Fin 4) :
    Einsteindown4 e a b = einstein e.st_Ricci_down4 e.st_RicciS e.gdown4 a b := by
  unfold einstein
  revert a b
  cases4 <;> cases4 <;> rfl

/-! ### C01-coherence of the two alternatives of `st_Ricci_down3` -/

/-- when the cached 4-Ricci tensor was produced by the `Tdown4` formula, the trace by the code's
`Ttrace` (with `Tdown4`), and the metric is assembled, the spatial block of the cached tensor is
what the other alternative of `st_Ricci_down3` computes. -/
theorem Ricci3_coherent (e : Env K) (h : Assembled e) (hR : e.st_Ricci_down4 = st_Ricci_down4__Tdown4 e)
    (hT : e.Ttrace = Ttrace__Tdown4 e) (i j : Fin 3) :
    st_Ricci_down3__st_Ricci_down4 e i j = st_Ricci_down3__dflt e i j := by
  have hg : e.gdown4 i.succ j.succ = e.gammadown3 i j := by
    rw [h.hg4]; exact (gdown4_layout e).2.2 i j
  have hTr : Ttrace__Tdown4 e = trace e.gup4 e.Tdown4 := by
    unfold trace; simp only [core_unfold, Fin.sum_univ_four]; ring
  rw [Ricci3_cached_spec, hR, Ricci4_Tdown4_spec, Ricci3_dflt_spec]
  unfold ricciOfMatter
  rw [hg, hT, hTr]

/-! ### T6 symmetry -/

/-- the Ricci tensor of a pair-symmetric Riemann tensor, raised with a symmetric inverse metric,
is symmetric. -/
theorem ricci_symm {n : Nat} (gup : Fin n → Fin n → K) (R : Fin n → Fin n → Fin n → Fin n → K)
    (hg : ∀ a b, gup a b = gup b a) (hp : ∀ a b c d, R a b c d = R c d a b) (b d : Fin n) :
    ricci (raise1 gup R) b d = ricci (raise1 gup R) d b := by
  unfold ricci raise1
  rw [Finset.sum_comm]
  refine Finset.sum_congr rfl fun a _ => Finset.sum_congr rfl fun c _ => ?_
  rw [hp a b c d, hg a c]

/-- the code's contraction Ricci tensor is symmetric when the cached Riemann tensor is
pair-symmetric and the cached inverse metric symmetric. -/
theorem Ricci4_dflt_symm (e : Env K) (hU : e.st_Riemann_uddd4 = st_Riemann_uddd4 e)
    (hg : Sym e.gup4) (hp : ∀ a b c d, e.st_Riemann_down4 a b c d = e.st_Riemann_down4 c d a b) :
    Sym (st_Ricci_down4__dflt e) := by
  intro b d
  have hU' : e.st_Riemann_uddd4 = raise1 e.gup4 e.st_Riemann_down4 := by
    rw [hU]; funext i b c d; exact uddd4_spec e i b c d
  rw [Ricci4_dflt_spec, Ricci4_dflt_spec, hU']
  exact ricci_symm e.gup4 e.st_Riemann_down4 hg hp b d

/-- the matter-side Ricci tensor is symmetric when `g` and `T` are. -/
theorem Ricci4_Tdown4_symm (e : Env K) (hg : Sym e.gdown4) (hT : Sym e.Tdown4) :
    Sym (st_Ricci_down4__Tdown4 e) := by
  intro a b
  rw [Ricci4_Tdown4_spec, Ricci4_Tdown4_spec]
  unfold ricciOfMatter
  rw [hg a b, hT a b]

/-- the Einstein tensor is symmetric when the cached Ricci tensor and metric are. -/
theorem Einstein_symm (e : Env K) (hg : Sym e.gdown4) (hR : Sym e.st_Ricci_down4) :
    Sym (Einsteindown4 e) := by
  intro a b
  rw [Einstein_spec, Einstein_spec]
  unfold einstein
  rw [hg a b, hR a b]

end AurelVerif.C04L
