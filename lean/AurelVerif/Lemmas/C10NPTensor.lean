/-
Lemmas/C10NPTensor.lean — tensor level of the transformation law of the Weyl scalars (see
Lemmas/C10NPRot.lean for the frame level): multilinearity and symmetries of `contract4`, the trace relation in
tetrad form, the completeness relation of the code's null tetrad, and the four transformation laws for
`Spec.Weyl.psi`.
-/
import AurelVerif.Lemmas.C10NPRot

set_option linter.unusedSimpArgs false
set_option linter.unusedVariables false

namespace AurelVerif.C10
open AurelVerif.Spec.Weyl AurelVerif.Model.WeylNP AurelVerif.Tensor

variable {K : Type} [Field K]

/-- termwise comparison of two 4-fold sums. -/
macro "c4_ext" : tactic =>
  `(tactic| refine Finset.sum_congr rfl fun a _ => Finset.sum_congr rfl fun b _ =>
      Finset.sum_congr rfl fun c _ => Finset.sum_congr rfl fun d _ => ?_)

variable (C : Fin 4 → Fin 4 → Fin 4 → Fin 4 → K)

/-! ### multilinearity -/

theorem c4_add1 (x y q r s : Fin 4 → K) :
    contract4 C (fun a => x a + y a) q r s = contract4 C x q r s + contract4 C y q r s := by
  simp only [contract4, ← Finset.sum_add_distrib]; c4_ext; ring
theorem c4_add2 (x y p r s : Fin 4 → K) :
    contract4 C p (fun a => x a + y a) r s = contract4 C p x r s + contract4 C p y r s := by
  simp only [contract4, ← Finset.sum_add_distrib]; c4_ext; ring
theorem c4_add3 (x y p q s : Fin 4 → K) :
    contract4 C p q (fun a => x a + y a) s = contract4 C p q x s + contract4 C p q y s := by
  simp only [contract4, ← Finset.sum_add_distrib]; c4_ext; ring
theorem c4_add4 (x y p q r : Fin 4 → K) :
    contract4 C p q r (fun a => x a + y a) = contract4 C p q r x + contract4 C p q r y := by
  simp only [contract4, ← Finset.sum_add_distrib]; c4_ext; ring
theorem c4_smul1 (c : K) (x q r s : Fin 4 → K) :
    contract4 C (fun a => c * x a) q r s = c * contract4 C x q r s := by
  simp only [contract4, Finset.mul_sum]; c4_ext; ring
theorem c4_smul2 (c : K) (x p r s : Fin 4 → K) :
    contract4 C p (fun a => c * x a) r s = c * contract4 C p x r s := by
  simp only [contract4, Finset.mul_sum]; c4_ext; ring
theorem c4_smul3 (c : K) (x p q s : Fin 4 → K) :
    contract4 C p q (fun a => c * x a) s = c * contract4 C p q x s := by
  simp only [contract4, Finset.mul_sum]; c4_ext; ring
theorem c4_smul4 (c : K) (x p q r : Fin 4 → K) :
    contract4 C p q r (fun a => c * x a) = c * contract4 C p q r x := by
  simp only [contract4, Finset.mul_sum]; c4_ext; ring

/-! ### symmetries -/

theorem c4_anti12 (h : ∀ a b c d, C a b c d = -C b a c d) (p q r s : Fin 4 → K) :
    contract4 C p q r s = -contract4 C q p r s := by
  simp only [contract4]
  rw [Finset.sum_comm]
  simp only [← Finset.sum_neg_distrib]
  refine Finset.sum_congr rfl fun x _ => Finset.sum_congr rfl fun y _ =>
    Finset.sum_congr rfl fun z _ => Finset.sum_congr rfl fun w _ => ?_
  rw [h y x z w]; ring

theorem c4_anti34 (h : ∀ a b c d, C a b c d = -C a b d c) (p q r s : Fin 4 → K) :
    contract4 C p q r s = -contract4 C p q s r := by
  simp only [contract4]
  have : ∀ a b, ∑ c, ∑ d, C a b c d * p a * q b * r c * s d = ∑ d, ∑ c, C a b c d * p a * q b * r c * s d :=
    fun a b => Finset.sum_comm
  simp only [this, ← Finset.sum_neg_distrib]
  refine Finset.sum_congr rfl fun x _ => Finset.sum_congr rfl fun y _ =>
    Finset.sum_congr rfl fun z _ => Finset.sum_congr rfl fun w _ => ?_
  rw [h x y w z]; ring

theorem sum4_swap_pairs (F : Fin 4 → Fin 4 → Fin 4 → Fin 4 → K) :
    ∑ a, ∑ b, ∑ c, ∑ d, F a b c d = ∑ c, ∑ d, ∑ a, ∑ b, F a b c d := by
  calc ∑ a, ∑ b, ∑ c, ∑ d, F a b c d = ∑ a, ∑ c, ∑ b, ∑ d, F a b c d :=
        Finset.sum_congr rfl fun a _ => Finset.sum_comm
    _ = ∑ c, ∑ a, ∑ b, ∑ d, F a b c d := Finset.sum_comm
    _ = ∑ c, ∑ a, ∑ d, ∑ b, F a b c d :=
        Finset.sum_congr rfl fun c _ => Finset.sum_congr rfl fun a _ => Finset.sum_comm
    _ = ∑ c, ∑ d, ∑ a, ∑ b, F a b c d := Finset.sum_congr rfl fun c _ => Finset.sum_comm

theorem c4_pair (h : ∀ a b c d, C a b c d = C c d a b) (p q r s : Fin 4 → K) :
    contract4 C p q r s = contract4 C r s p q := by
  simp only [contract4]
  rw [sum4_swap_pairs]
  refine Finset.sum_congr rfl fun x _ => Finset.sum_congr rfl fun y _ =>
    Finset.sum_congr rfl fun z _ => Finset.sum_congr rfl fun w _ => ?_
  rw [h z w x y]; ring

theorem sum3_rot (G : Fin 4 → Fin 4 → Fin 4 → K) :
    ∑ b, ∑ c, ∑ d, G c d b = ∑ b, ∑ c, ∑ d, G b c d := by
  calc ∑ b, ∑ c, ∑ d, G c d b = ∑ c, ∑ b, ∑ d, G c d b := Finset.sum_comm
    _ = ∑ c, ∑ d, ∑ b, G c d b := Finset.sum_congr rfl fun c _ => Finset.sum_comm

theorem c4_cyclic (h : Cyclic C) (p q r s : Fin 4 → K) :
    contract4 C p q r s + contract4 C p r s q + contract4 C p s q r = 0 := by
  -- second term with the summation variables renamed so that `q b r c s d` appears
  have e2 : contract4 C p r s q = ∑ a, ∑ b, ∑ c, ∑ d, C a c d b * p a * q b * r c * s d := by
    simp only [contract4]
    refine Finset.sum_congr rfl fun a _ => ?_
    rw [← sum3_rot (fun x y z => C a x y z * p a * r x * s y * q z)]
    exact Finset.sum_congr rfl fun b _ => Finset.sum_congr rfl fun c _ => Finset.sum_congr rfl fun d _ => by ring
  have e3 : contract4 C p s q r = ∑ a, ∑ b, ∑ c, ∑ d, C a d b c * p a * q b * r c * s d := by
    simp only [contract4]
    refine Finset.sum_congr rfl fun a _ => ?_
    rw [← sum3_rot (fun x y z => C a x y z * p a * s x * q y * r z),
      ← sum3_rot (fun z x y => C a x y z * p a * s x * q y * r z)]
    exact Finset.sum_congr rfl fun b _ => Finset.sum_congr rfl fun c _ => Finset.sum_congr rfl fun d _ => by ring
  rw [e2, e3]
  simp only [contract4, ← Finset.sum_add_distrib]
  refine Finset.sum_eq_zero fun a _ => Finset.sum_eq_zero fun b _ => Finset.sum_eq_zero fun c _ =>
    Finset.sum_eq_zero fun d _ => ?_
  linear_combination (p a * q b * r c * s d) * h a b c d

/-! ### the frame of a null tetrad -/

/-- the four vectors of a null tetrad in the frame order `(l, k, m, m̄)`. -/
def tv (t : NullTetrad K) : Fin 4 → Fin 4 → K := vec4 t.l t.k t.m t.mb

/-- frame components `T_ijkl = C(t_i, t_j, t_k, t_l)`. -/
def frameT (t : NullTetrad K) (i j k l : Fin 4) : K := contract4 C (tv t i) (tv t j) (tv t k) (tv t l)

theorem psi_frame (t : NullTetrad K) : psi C t = psiOfFrame (frameT C t) := rfl

theorem frameT_riemannSym (hC : RiemannSym C) (t : NullTetrad K) : RiemannSym (frameT C t) :=
  ⟨fun i j k l => c4_anti12 C hC.anti12 _ _ _ _, fun i j k l => c4_anti34 C hC.anti34 _ _ _ _,
    fun i j k l => c4_pair C hC.pair _ _ _ _⟩

theorem frameT_cyclic (hC : Cyclic C) (t : NullTetrad K) : Cyclic (frameT C t) :=
  fun i j k l => c4_cyclic C hC _ _ _ _

set_option maxHeartbeats 1000000 in
/-- **trace relation in tetrad form** from `g^{ac} C_abcd = 0` and the completeness relation of the tetrad. -/
theorem tetrad_trace (gup : Fin 4 → Fin 4 → K) (t : NullTetrad K)
    (hcomp : ∀ a b, gup a b = -(t.l a * t.k b + t.k a * t.l b) + t.m a * t.mb b + t.mb a * t.m b)
    (htr : ∀ b d, ∑ a, ∑ c, gup a c * C a b c d = 0) (x y : Fin 4 → K) :
    -contract4 C t.l x t.k y - contract4 C t.k x t.l y + contract4 C t.m x t.mb y + contract4 C t.mb x t.m y = 0 := by
  have H : ∑ b, ∑ d, x b * y d * ∑ a, ∑ c, gup a c * C a b c d = 0 := by
    simp only [htr, mul_zero, Finset.sum_const_zero]
  simp only [hcomp] at H
  simp only [contract4]
  linear_combination (norm := sum4_ring) H

theorem frameT_traceFree (gup : Fin 4 → Fin 4 → K) (t : NullTetrad K)
    (hcomp : ∀ a b, gup a b = -(t.l a * t.k b + t.k a * t.l b) + t.m a * t.mb b + t.mb a * t.m b)
    (htr : ∀ b d, ∑ a, ∑ c, gup a c * C a b c d = 0) : FrameTraceFree (frameT C t) :=
  fun x y => tetrad_trace C gup t hcomp htr (tv t x) (tv t y)

/-! ### the four changes of null tetrad -/

/-- class I (`k` fixed): `m' = m + b k`, `m̄' = m̄ + b̄ k`, `l' = l + b̄ m + b m̄ + b b̄ k`. -/
def classI (t : NullTetrad K) (b bb : K) : NullTetrad K where
  k := t.k
  m := fun a => t.m a + b * t.k a
  mb := fun a => t.mb a + bb * t.k a
  l := fun a => t.l a + bb * t.m a + b * t.mb a + b * bb * t.k a

/-- class II (`l` fixed): `m' = m + a l`, `m̄' = m̄ + ā l`, `k' = k + ā m + a m̄ + a ā l`. -/
def classII (t : NullTetrad K) (b bb : K) : NullTetrad K where
  l := t.l
  m := fun a => t.m a + b * t.l a
  mb := fun a => t.mb a + bb * t.l a
  k := fun a => t.k a + bb * t.m a + b * t.mb a + b * bb * t.l a

/-- class III (boost `A`, `A·Ai = 1`; spin `p = e^{iθ}`, `q = e^{−iθ}`, `p q = 1`). -/
def classIII (t : NullTetrad K) (A Ai p q : K) : NullTetrad K where
  k := fun a => A * t.k a
  l := fun a => Ai * t.l a
  m := fun a => p * t.m a
  mb := fun a => q * t.mb a

/-- exchange `k ↔ l`, `m ↔ m̄`. -/
def swapT (t : NullTetrad K) : NullTetrad K where
  k := t.l
  l := t.k
  m := t.mb
  mb := t.m

set_option maxHeartbeats 1000000 in
theorem psi_classI_frame (t : NullTetrad K) (b bb : K) :
    psi C (classI t b bb) = psiOfFrame (mixT (lamI b bb) (frameT C t)) := by
  simp only [psi, classI, psiOfFrame, Scalars.mk.injEq]
  refine ⟨?_, ?_, ?_, ?_, ?_⟩ <;>
    (simp only [mixT, lamI, frameT, tv, Fin.sum_univ_four, vec4_0, vec4_1, vec4_2, vec4_3, zero_mul, mul_zero,
       add_zero, zero_add, one_mul, mul_one, c4_add1, c4_add2, c4_add3, c4_add4, c4_smul1, c4_smul2, c4_smul3,
       c4_smul4]
     ring)

set_option maxHeartbeats 1000000 in
theorem psi_classII_frame (t : NullTetrad K) (b bb : K) :
    psi C (classII t b bb) = psiOfFrame (mixT (lamII b bb) (frameT C t)) := by
  simp only [psi, classII, psiOfFrame, Scalars.mk.injEq]
  refine ⟨?_, ?_, ?_, ?_, ?_⟩ <;>
    (simp only [mixT, lamII, frameT, tv, Fin.sum_univ_four, vec4_0, vec4_1, vec4_2, vec4_3, zero_mul, mul_zero,
       add_zero, zero_add, one_mul, mul_one, c4_add1, c4_add2, c4_add3, c4_add4, c4_smul1, c4_smul2, c4_smul3,
       c4_smul4]
     ring)

/-- **class I**: `psi` of the rotated tetrad is the textbook action on `(Ψ0..Ψ4)` with parameter `b̄`. -/
theorem psi_classI (h2 : (2 : K) ≠ 0) (hS : RiemannSym C) (hcyc : Cyclic C) (gup : Fin 4 → Fin 4 → K)
    (htr : ∀ b d, ∑ a, ∑ c, gup a c * C a b c d = 0) (t : NullTetrad K)
    (hcomp : ∀ a b, gup a b = -(t.l a * t.k b + t.k a * t.l b) + t.m a * t.mb b + t.mb a * t.m b) (b bb : K) :
    psi C (classI t b bb) = rotI bb (psi C t) := by
  rw [psi_classI_frame, psi_frame]
  exact frame_rotI h2 _ (frameT_riemannSym C hS t) (frameT_cyclic C hcyc t) (frameT_traceFree C gup t hcomp htr) b bb

/-- **class II**. -/
theorem psi_classII (h2 : (2 : K) ≠ 0) (hS : RiemannSym C) (hcyc : Cyclic C) (gup : Fin 4 → Fin 4 → K)
    (htr : ∀ b d, ∑ a, ∑ c, gup a c * C a b c d = 0) (t : NullTetrad K)
    (hcomp : ∀ a b, gup a b = -(t.l a * t.k b + t.k a * t.l b) + t.m a * t.mb b + t.mb a * t.m b) (b bb : K) :
    psi C (classII t b bb) = rotII b (psi C t) := by
  rw [psi_classII_frame, psi_frame]
  exact frame_rotII h2 _ (frameT_riemannSym C hS t) (frameT_cyclic C hcyc t) (frameT_traceFree C gup t hcomp htr) b bb

/-- **class III** (multilinearity only). -/
theorem psi_classIII (t : NullTetrad K) (A Ai p q : K) (hA : A * Ai = 1) (hp : p * q = 1) :
    psi C (classIII t A Ai p q) = rotIII (A * p) (Ai * q) (psi C t) := by
  simp only [psi, classIII, rotIII, Scalars.mk.injEq, c4_smul1, c4_smul2, c4_smul3, c4_smul4]
  refine ⟨by ring, ?_, ?_, ?_, by ring⟩
  · linear_combination (A * p * contract4 C t.k t.l t.k t.m) * hA
  · linear_combination (contract4 C t.k t.m t.mb t.l) * (A * Ai * hp + hA)
  · linear_combination (Ai * q * contract4 C t.k t.l t.mb t.l) * hA

/-- **`k ↔ l`, `m ↔ m̄`** (Riemann symmetries only). -/
theorem psi_swapT (hS : RiemannSym C) (t : NullTetrad K) : psi C (swapT t) = swapKL (psi C t) := by
  simp only [psi, swapT, swapKL, Scalars.mk.injEq]
  refine ⟨trivial, ?_, ?_, ?_, trivial⟩
  · rw [c4_anti12 C hS.anti12 t.l t.k t.l t.mb, c4_anti34 C hS.anti34 t.k t.l t.l t.mb]; ring
  · rw [c4_pair C hS.pair t.l t.mb t.m t.k, c4_anti12 C hS.anti12 t.m t.k t.l t.mb,
      c4_anti34 C hS.anti34 t.k t.m t.l t.mb]; ring
  · rw [c4_anti12 C hS.anti12 t.l t.k t.m t.k, c4_anti34 C hS.anti34 t.k t.l t.m t.k]; ring

/-! ### completeness relation of the code's null tetrad -/

/-- `g^{ab} = Σ_i η_i e_i^a e_i^b` for a tetrad orthonormal for `g`, `g⁻¹ g = 1`. -/
theorem completeness_of_orthonormal (g gup : Fin 4 → Fin 4 → K)
    (hinv : ∀ a b, ∑ c, gup a c * g c b = if a = b then 1 else 0) (E : Fin 4 → Fin 4 → K)
    (hE : Orthonormal g E) (a b : Fin 4) :
    gup a b = -(E 0 a * E 0 b) + E 1 a * E 1 b + E 2 a * E 2 b + E 3 a * E 3 b := by
  let P : Matrix (Fin 4) (Fin 4) K := Matrix.of E
  let G : Matrix (Fin 4) (Fin 4) K := Matrix.of g
  let U : Matrix (Fin 4) (Fin 4) K := Matrix.of gup
  let H : Matrix (Fin 4) (Fin 4) K := Matrix.of (eta : Fin 4 → Fin 4 → K)
  have hUG : U * G = 1 := by
    ext i j; rw [Matrix.mul_apply, Matrix.one_apply]; simp only [U, G, Matrix.of_apply]; exact hinv i j
  have hGU : G * U = 1 := mul_eq_one_comm.mp hUG
  have hPGP : P * G * P.transpose = H := by
    ext i j
    have := hE i j
    simp only [ip, Fin.sum_univ_four] at this
    simp only [P, G, H, Matrix.mul_apply, Matrix.transpose_apply, Matrix.of_apply, Fin.sum_univ_four]
    rw [← this]; ring
  have hHH : H * H = 1 := by
    ext i j
    revert i j
    refine fin4_cases (fin4_cases ?_ ?_ ?_ ?_) (fin4_cases ?_ ?_ ?_ ?_) (fin4_cases ?_ ?_ ?_ ?_)
      (fin4_cases ?_ ?_ ?_ ?_) <;>
      simp [H, Matrix.mul_apply, Matrix.one_apply, eta, Fin.sum_univ_four]
  have h1 : (H * P * G) * P.transpose = 1 := by
    rw [Matrix.mul_assoc, Matrix.mul_assoc, ← Matrix.mul_assoc P G, hPGP, hHH]
  have h2 : P.transpose * (H * P * G) = 1 := mul_eq_one_comm.mp h1
  have h3 : P.transpose * H * P = U := by
    calc P.transpose * H * P = P.transpose * H * P * (G * U) := by rw [hGU, Matrix.mul_one]
      _ = (P.transpose * (H * P * G)) * U := by simp only [Matrix.mul_assoc]
      _ = U := by rw [h2, Matrix.one_mul]
  have := congrFun (congrFun h3 a) b
  simp only [P, H, U, Matrix.mul_apply, Matrix.transpose_apply, Matrix.of_apply, Fin.sum_univ_four] at this
  rw [← this]
  simp [eta]
  try ring

/-- **completeness of `null_vector_base`**: `g^{ab} = −l^a k^b − k^a l^b + m^a m̄^b + m̄^a m^b` for the null
tetrad the code builds from a tetrad orthonormal for `g` (`2 s² = 1`, `i² = −1`). -/
theorem completeness_nullVectorBase (g gup : Fin 4 → Fin 4 → K)
    (hinv : ∀ a b, ∑ c, gup a c * g c b = if a = b then 1 else 0) (s I : K) (hs : 2 * s ^ 2 = 1)
    (hI : I ^ 2 = -1) (E : Fin 4 → Fin 4 → K) (hE : Orthonormal g E) (a b : Fin 4) :
    gup a b = -((nullVectorBase s I E).l a * (nullVectorBase s I E).k b
        + (nullVectorBase s I E).k a * (nullVectorBase s I E).l b)
      + (nullVectorBase s I E).m a * (nullVectorBase s I E).mb b
      + (nullVectorBase s I E).mb a * (nullVectorBase s I E).m b := by
  rw [completeness_of_orthonormal g gup hinv E hE a b]
  simp only [nullVectorBase]
  linear_combination (-(-(E 0 a * E 0 b) + E 1 a * E 1 b + E 2 a * E 2 b + E 3 a * E 3 b)) * hs
    + s ^ 2 * 2 * (E 3 a * E 3 b) * hI

end AurelVerif.C10
