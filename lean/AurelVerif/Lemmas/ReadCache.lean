/-
Lemmas/ReadCache.lean — proofs about Model/ReadCache.lean (C12).
-/
import AurelVerif.Lemmas.Chunks
import AurelVerif.Model.ReadCache
namespace AurelVerif.ReadCacheLemmas
open AurelVerif.Chunks AurelVerif.ReadCache AurelVerif.ChunksLemmas

/-- what a dataset must hold: the source, or the iteration number for `it` -/
def truth {β : Type} (src : DKey → β) (ofIt : Nat → β) (k : DKey) : β :=
  match k.name with
  | .it => ofIt k.it
  | _ => src k

/-- every dataset of the cache equals the source at the key it is filed under -/
def Inv {β : Type} (src : DKey → β) (ofIt : Nat → β) (store : Store β) : Prop :=
  ∀ kv ∈ store, kv.2 = truth src ofIt kv.1

/-! ### dictionaries -/

theorem mem_set {κ β : Type} [DecidableEq κ] (d : Dict κ β) (k : κ) (v : β) (kv : κ × β)
    (h : kv ∈ d.set k v) : kv = (k, v) ∨ kv ∈ d := by
  induction d with
  | nil => simp [Dict.set] at h; exact Or.inl h
  | cons e rest ih =>
    obtain ⟨k', v'⟩ := e
    simp only [Dict.set] at h
    split at h
    · rename_i hk
      rcases List.mem_cons.mp h with h | h
      · subst hk; exact Or.inl h
      · exact Or.inr (List.mem_cons_of_mem _ h)
    · rcases List.mem_cons.mp h with h | h
      · exact Or.inr (h ▸ List.mem_cons_self ..)
      · rcases ih h with h | h
        · exact Or.inl h
        · exact Or.inr (List.mem_cons_of_mem _ h)

theorem get?_mem {κ β : Type} [DecidableEq κ] (d : Dict κ β) (k : κ) (v : β) (h : d.get? k = some v) :
    (k, v) ∈ d := by
  induction d with
  | nil => simp [Dict.get?] at h
  | cons e rest ih =>
    obtain ⟨k', v'⟩ := e
    simp only [Dict.get?] at h
    split at h
    · rename_i hk; cases h; subst hk; exact List.mem_cons_self ..
    · exact List.mem_cons_of_mem _ (ih h)

theorem get?_set_self {κ β : Type} [DecidableEq κ] (d : Dict κ β) (k : κ) (v : β) :
    (d.set k v).get? k = some v := by
  induction d with
  | nil => simp [Dict.set, Dict.get?]
  | cons e rest ih =>
    obtain ⟨k', v'⟩ := e
    simp only [Dict.set]
    split
    · rename_i hk; simp [Dict.get?, hk]
    · rename_i hk; simp [Dict.get?, hk, ih]

theorem get?_set_ne {κ β : Type} [DecidableEq κ] (d : Dict κ β) (k k' : κ) (v : β) (h : k' ≠ k) :
    (d.set k v).get? k' = d.get? k' := by
  induction d with
  | nil => simp [Dict.set, Dict.get?, Ne.symm h]
  | cons e rest ih =>
    obtain ⟨k'', v''⟩ := e
    simp only [Dict.set]
    split
    · rename_i hk; subst hk; simp [Dict.get?, Ne.symm h]
    · rename_i hk
      simp only [Dict.get?]
      split
      · rfl
      · exact ih

theorem inv_set {β : Type} (src : DKey → β) (ofIt : Nat → β) (store : Store β) (k : DKey) (x : β)
    (hI : Inv src ofIt store) (hx : x = truth src ofIt k) : Inv src ofIt (store.set k x) := by
  intro kv h
  rcases mem_set store k x kv h with rfl | h
  · exact hx
  · exact hI kv h

/-! ### `list.index` and `np.argmin` -/

theorem indexOf?_get (x : Nat) (l : List Nat) (idx : Nat) (h : indexOf? x l = some idx) : l[idx]? = some x := by
  induction l generalizing idx with
  | nil => simp [indexOf?] at h
  | cons y ys ih =>
    simp only [indexOf?] at h
    split at h
    · rename_i hy; cases h; simp [hy]
    · obtain ⟨j, hj, rfl⟩ := Option.map_eq_some_iff.mp h
      simpa using ih j hj

theorem indexOf?_of_mem (x : Nat) (l : List Nat) (h : x ∈ l) : ∃ idx, indexOf? x l = some idx := by
  induction l with
  | nil => cases h
  | cons y ys ih =>
    simp only [indexOf?]
    by_cases hy : y = x
    · exact ⟨0, by simp [hy]⟩
    · rcases List.mem_cons.mp h with rfl | h
      · exact absurd rfl hy
      · obtain ⟨j, hj⟩ := ih h
        exact ⟨j + 1, by simp [hy, hj]⟩

theorem absDiff_zero (a b : Nat) : absDiff a b = 0 ↔ a = b := by
  unfold absDiff; split <;> omega

/-- the scan returns an index (relative to the start of the whole list) whose
entry is at least as close as the best so far and every remaining entry -/
theorem argminFrom_spec (x : Nat) (pre ys : List Nat) (bi bd : Nat) (hbi : bi < pre.length)
    (hbd : ∃ h : bi < pre.length, absDiff (pre[bi]) x = bd) :
    let r := argminFrom x ys pre.length bi bd
    ∃ h : r < (pre ++ ys).length, absDiff ((pre ++ ys)[r]) x ≤ bd ∧ ∀ y ∈ ys, absDiff ((pre ++ ys)[r]) x ≤ absDiff y x := by
  induction ys generalizing pre bi bd with
  | nil =>
    obtain ⟨h, hd⟩ := hbd
    simp only [argminFrom, List.append_nil]
    exact ⟨h, by rw [hd]; exact Nat.le_refl _, by intro y hy; cases hy⟩
  | cons y rest ih =>
    simp only [argminFrom]
    have hlen : (pre ++ [y]).length = pre.length + 1 := by simp
    have happ : pre ++ y :: rest = (pre ++ [y]) ++ rest := by simp
    split
    · rename_i hlt
      have := ih (pre ++ [y]) pre.length (absDiff y x) (by simp) ⟨by simp, by simp⟩
      rw [hlen] at this
      obtain ⟨h, h1, h2⟩ := this
      refine ⟨by rw [happ]; exact h, ?_, ?_⟩
      · simp only [happ]; omega
      · intro z hz
        simp only [happ]
        rcases List.mem_cons.mp hz with rfl | hz
        · exact h1
        · exact h2 z hz
    · rename_i hge
      obtain ⟨hb, hd⟩ := hbd
      have := ih (pre ++ [y]) bi bd (by simp; omega) ⟨by simp; omega, by
        rw [List.getElem_append_left hb]; exact hd⟩
      rw [hlen] at this
      obtain ⟨h, h1, h2⟩ := this
      refine ⟨by rw [happ]; exact h, ?_, ?_⟩
      · simp only [happ]; exact h1
      · intro z hz
        simp only [happ]
        rcases List.mem_cons.mp hz with rfl | hz
        · omega
        · exact h2 z hz

/-- **nearest 'it' is exact**: if `x` is in the list, `np.argmin(|l - x|)` is a position of `x` -/
theorem nearest_exact_lemma (l : List Nat) (x : Nat) (h : x ∈ l) : l[nearestIdx l x]? = some x := by
  cases l with
  | nil => cases h
  | cons y ys =>
    simp only [nearestIdx]
    have := argminFrom_spec x [y] ys 0 (absDiff y x) (by simp) ⟨by simp, by simp⟩
    simp only [List.length_cons, List.length_nil, Nat.zero_add, List.singleton_append] at this
    obtain ⟨hr, h1, h2⟩ := this
    rw [List.getElem?_eq_getElem hr]
    congr 1
    apply (absDiff_zero _ _).mp
    rcases List.mem_cons.mp h with rfl | h
    · have := (absDiff_zero x x).mpr rfl
      omega
    · have := h2 x h
      have := (absDiff_zero x x).mpr rfl
      omega

/-! ### the invariant through one call -/

theorem foldlM_inv {σ γ : Type} (P : σ → Prop) (f : σ → γ → Option σ)
    (hf : ∀ s x s', P s → f s x = some s' → P s') :
    ∀ (l : List γ) (s s' : σ), P s → l.foldlM f s = some s' → P s' := by
  intro l
  induction l with
  | nil => intro s s' hs h; simp at h; exact h ▸ hs
  | cons x xs ih =>
    intro s s' hs h
    simp only [List.foldlM_cons] at h
    cases hx : f s x with
    | none => simp [hx] at h
    | some s1 =>
      simp only [hx] at h
      exact ih s1 s' (hf s x s1 hs hx) h

theorem fetch_get {β : Type} (src : DKey → β) (R rl : Nat) (tmpIts : List Nat) (n : DName) (idx i : Nat)
    (h : tmpIts[idx]? = some i) : (fetch src R rl tmpIts n)[idx]? = some (src ⟨R, i, n, rl⟩) := by
  simp [fetch, h]

/-- **save_data files the right iteration**: every dataset written under
iteration `iit` holds the entry of `data_temp` at the position of `iit` in
`data_temp['it']`, i.e. the source at `iit`. -/
theorem saveData_inv {β : Type} (src : DKey → β) (ofIt : Nat → β) (R rl : Nat) (tmpIts : List Nat) (av : DName)
    (hav : av ≠ DName.it) (itsSave : List Nat) (store store' : Store β) (hI : Inv src ofIt store)
    (h : saveData ofIt store R rl tmpIts (fetch src R rl tmpIts) av itsSave = some store') :
    Inv src ofIt store' := by
  unfold saveData at h
  refine foldlM_inv (Inv src ofIt) _ ?_ _ store store' hI h
  intro st iit st' hst hstep
  cases hidx : indexOf? iit tmpIts with
  | none => simp [hidx] at hstep
  | some idx =>
    have hget := indexOf?_get iit tmpIts idx hidx
    simp only [hidx, fetch_get src R rl tmpIts _ idx iit hget, hget] at hstep
    cases hstep
    apply inv_set
    · apply inv_set
      · apply inv_set _ _ _ _ _ hst
        cases av <;> simp_all [truth]
      · simp [truth]
    · simp [truth]

/-- a property of caches preserved by every `save_data` the read path performs -/
def SavePres {β : Type} (src : DKey → β) (ofIt : Nat → β) (P : Store β → Prop) : Prop :=
  ∀ (R rl : Nat) (tmpIts : List Nat) (av : DName), av ≠ DName.it → ∀ (itsSave : List Nat) (store store' : Store β),
    P store → saveData ofIt store R rl tmpIts (fetch src R rl tmpIts) av itsSave = some store' → P store'

theorem stepComp_pres {β : Type} (src : DKey → β) (ofIt : Nat → β) (P : Store β → Prop)
    (hP : SavePres src ofIt P) (R rl : Nat) (its tmpIts : List Nat)
    (st st' : State β) (av : DName) (hav : av ≠ DName.it) (hI : P st.store)
    (h : stepComp src ofIt R rl its tmpIts st av = some st') : P st'.store := by
  unfold stepComp at h
  simp only at h
  generalize (if av = DName.t then (getMiss st.missing av).filter (fun i => !(its.contains i))
    else getMiss st.missing av) = miss' at h
  by_cases he : miss' = []
  · simp only [he, if_true] at h
    cases h; exact hI
  · simp only [he, if_false] at h
    cases hs : saveData ofIt st.store R rl tmpIts (fetch src R rl tmpIts) av miss' with
    | none => simp [hs] at h
    | some store' =>
      simp only [hs] at h
      cases h
      exact hP R rl tmpIts av hav _ _ _ hI hs

theorem stepVar_pres {β : Type} (src : DKey → β) (ofIt : Nat → β) (P : Store β → Prop)
    (hP : SavePres src ofIt P) (R rl : Nat) (its : List Nat)
    (st st' : State β) (v : List Nat) (hI : P st.store)
    (h : stepVar src ofIt R rl its st v = some st') : P st'.store := by
  unfold stepVar at h
  simp only at h
  split at h
  · cases h; exact hI
  · rename_i hne
    -- every name processed is a variable or `t`
    have key : ∀ (names : List DName), (∀ n ∈ names, n ≠ DName.it) → ∀ (s s' : State β), P s.store →
        names.foldlM (stepComp src ofIt R rl its (sortNat ((v.map DName.var).flatMap
          fun av => getMiss st.missing av).eraseDups)) s = some s' → P s'.store := by
      intro names
      induction names with
      | nil => intro _ s s' hs h; simp at h; exact h ▸ hs
      | cons n ns ih =>
        intro hn s s' hs h
        simp only [List.foldlM_cons] at h
        cases hx : stepComp src ofIt R rl its (sortNat ((v.map DName.var).flatMap
          fun av => getMiss st.missing av).eraseDups) s n with
        | none => simp [hx] at h
        | some s1 =>
          simp only [hx] at h
          exact ih (fun m hm => hn m (List.mem_cons_of_mem _ hm)) s1 s'
            (stepComp_pres src ofIt P hP R rl its _ s s1 n (hn n (List.mem_cons_self ..)) hs hx) h
    refine key _ ?_ st st' hI h
    intro n hn
    rcases List.mem_append.mp hn with hn | hn
    · obtain ⟨c, _, rfl⟩ := List.mem_map.mp hn; simp
    · simp at hn; subst hn; simp


theorem readRestart_pres {β : Type} (src : DKey → β) (ofIt : Nat → β) (P : Store β → Prop)
    (hP : SavePres src ofIt P) (grouped : Bool) (req : List (List Nat))
    (store : Store β) (R rl : Nat) (its : List Nat) (cols : Dict DName (List (Option β))) (store' : Store β)
    (hI : P store) (h : readRestart src ofIt grouped req store R rl its = some (cols, store')) :
    P store' := by
  unfold readRestart at h
  simp only at h
  split at h
  · cases h
  · rename_i st hst
    cases h
    exact foldlM_inv (fun s : State β => P s.store) _
      (fun s v s' hs hstep => stepVar_pres src ofIt P hP R rl its s s' v hs hstep) _ _ st hI hst

theorem readAll_pres {β : Type} (src : DKey → β) (ofIt : Nat → β) (P : Store β → Prop)
    (hP : SavePres src ofIt P) (grouped split : Bool) (req : List (List Nat))
    (rl : Nat) (todo : List (Nat × List Nat)) (store : Store β)
    (out : List (Nat × List Nat × Dict DName (List (Option β)))) (store' : Store β)
    (hI : P store) (h : readAll src ofIt grouped split req rl todo store = some (out, store')) :
    P store' := by
  induction todo generalizing store out store' with
  | nil => simp [readAll] at h; exact h.2 ▸ hI
  | cons rt rest ih =>
    obtain ⟨R, td⟩ := rt
    simp only [readAll] at h
    split at h
    · exact ih store out store' hI h
    · split at h
      · cases h
      · rename_i cols store1 hr
        split at h
        · cases h
        · rename_i out' store2 hrest
          cases h
          have h1 : P store1 := by
            cases split with
            | true => simp only [if_true] at hr; exact readRestart_pres src ofIt P hP grouped req store R rl td cols store1 hI hr
            | false => simp at hr; exact hr.2 ▸ hI
          exact ih store1 out' store' h1 hrest

theorem readData_pres {β : Type} (src : DKey → β) (ofIt : Nat → β) (P : Store β → Prop)
    (hP : SavePres src ofIt P) (avail : List Avail) (grouped : Bool)
    (req : List (List Nat)) (its : List Nat) (rl : Nat) (restart : Option Nat) (split : Bool)
    (store : Store β) (rows : List (Row β)) (store' : Store β) (hI : P store)
    (h : readData src ofIt avail grouped req its rl restart split store = some (rows, store')) :
    P store' := by
  unfold readData at h
  simp only at h
  split at h
  · cases h
  · cases h
  · rename_i datar store1 _ hr
    cases h
    exact readAll_pres src ofIt P hP grouped split req rl _ store datar store' hI hr

theorem savePres_inv {β : Type} (src : DKey → β) (ofIt : Nat → β) : SavePres src ofIt (Inv src ofIt) :=
  fun R rl tmpIts av hav itsSave store store' hI h => saveData_inv src ofIt R rl tmpIts av hav itsSave store store' hI h

theorem readRestart_inv {β : Type} (src : DKey → β) (ofIt : Nat → β) (grouped : Bool) (req : List (List Nat))
    (store : Store β) (R rl : Nat) (its : List Nat) (cols : Dict DName (List (Option β))) (store' : Store β)
    (hI : Inv src ofIt store) (h : readRestart src ofIt grouped req store R rl its = some (cols, store')) :
    Inv src ofIt store' :=
  readRestart_pres src ofIt _ (savePres_inv src ofIt) grouped req store R rl its cols store' hI h

/-- **T1 (one call)**: a call that returns leaves a cache whose every dataset
equals the source at the key it is filed under -/
theorem readData_inv {β : Type} (src : DKey → β) (ofIt : Nat → β) (avail : List Avail) (grouped : Bool)
    (req : List (List Nat)) (its : List Nat) (rl : Nat) (restart : Option Nat) (split : Bool)
    (store : Store β) (rows : List (Row β)) (store' : Store β) (hI : Inv src ofIt store)
    (h : readData src ofIt avail grouped req its rl restart split store = some (rows, store')) :
    Inv src ofIt store' :=
  readData_pres src ofIt _ (savePres_inv src ofIt) avail grouped req its rl restart split store rows store' hI h

/-- one `read_data` call of a history -/
structure Call where
  avail : List Avail
  grouped : Bool
  req : List (List Nat)
  its : List Nat
  rl : Nat
  restart : Option Nat
  split : Bool

/-- the cache after a call (a call that raises before returning is modelled as
leaving the cache as it was) -/
def afterCall {β : Type} (src : DKey → β) (ofIt : Nat → β) (store : Store β) (c : Call) : Store β :=
  match readData src ofIt c.avail c.grouped c.req c.its c.rl c.restart c.split store with
  | some (_, store') => store'
  | none => store

/-- the caches after each call of a history, starting from `store` -/
def cachesOf {β : Type} (src : DKey → β) (ofIt : Nat → β) : Store β → List Call → List (Store β)
  | _, [] => []
  | store, c :: cs => afterCall src ofIt store c :: cachesOf src ofIt (afterCall src ofIt store c) cs

theorem afterCall_inv {β : Type} (src : DKey → β) (ofIt : Nat → β) (store : Store β) (c : Call)
    (hI : Inv src ofIt store) : Inv src ofIt (afterCall src ofIt store c) := by
  unfold afterCall
  split
  · rename_i rows store' h
    exact readData_inv src ofIt _ _ _ _ _ _ _ store rows store' hI h
  · exact hI

/-- **T1 (histories)**: after every call of every finite history the invariant holds -/
theorem history_inv {β : Type} (src : DKey → β) (ofIt : Nat → β) (hist : List Call) (store : Store β)
    (hI : Inv src ofIt store) : ∀ s ∈ cachesOf src ofIt store hist, Inv src ofIt s := by
  induction hist generalizing store with
  | nil => intro s hs; cases hs
  | cons c cs ih =>
    intro s hs
    simp only [cachesOf] at hs
    rcases List.mem_cons.mp hs with rfl | hs
    · exact afterCall_inv src ofIt store c hI
    · exact ih _ (afterCall_inv src ofIt store c hI) s hs

theorem inv_empty {β : Type} (src : DKey → β) (ofIt : Nat → β) : Inv src ofIt ([] : Store β) := by
  intro kv h; cases h


/-! ### more dictionary facts -/

theorem set_keys {κ β : Type} [DecidableEq κ] (d : Dict κ β) (k : κ) (v : β) :
    (d.set k v).map Prod.fst = if k ∈ d.map Prod.fst then d.map Prod.fst else d.map Prod.fst ++ [k] := by
  induction d with
  | nil => simp [Dict.set]
  | cons e rest ih =>
    obtain ⟨k', v'⟩ := e
    simp only [Dict.set]
    by_cases h : k' = k
    · subst h; simp
    · have h' : ¬ k = k' := fun e => h e.symm
      simp only [h, if_false, List.map_cons, ih, List.mem_cons, h', false_or]
      split <;> simp

theorem mem_keys_set {κ β : Type} [DecidableEq κ] (d : Dict κ β) (k k' : κ) (v : β) :
    k' ∈ (d.set k v).map Prod.fst ↔ k' = k ∨ k' ∈ d.map Prod.fst := by
  rw [set_keys]
  split
  · rename_i h
    constructor
    · exact Or.inr
    · rintro (rfl | h') <;> assumption
  · simp [or_comm]

theorem set_keys_nodup {κ β : Type} [DecidableEq κ] (d : Dict κ β) (k : κ) (v : β)
    (h : (d.map Prod.fst).Nodup) : ((d.set k v).map Prod.fst).Nodup := by
  rw [set_keys]
  split
  · exact h
  · rename_i hk
    exact List.nodup_append.mpr ⟨h, by simp, by
      intro a ha b hb; simp at hb; subst hb; intro e; subst e; exact hk ha⟩

theorem get?_none_iff {κ β : Type} [DecidableEq κ] (d : Dict κ β) (k : κ) :
    d.get? k = none ↔ k ∉ d.map Prod.fst := by
  induction d with
  | nil => simp [Dict.get?]
  | cons e rest ih =>
    obtain ⟨k', v'⟩ := e
    simp only [Dict.get?, List.map_cons, List.mem_cons, not_or]
    split
    · rename_i h; subst h; simp
    · rename_i h
      rw [ih]
      constructor
      · intro h2; exact ⟨fun e => h e.symm, h2⟩
      · intro h2; exact h2.2

theorem foldl_set_get {κ γ : Type} [DecidableEq κ] (f : κ → γ) (names : List κ) (d0 : Dict κ γ) (n : κ) :
    (names.foldl (fun d m => d.set m (f m)) d0).get? n = if n ∈ names then some (f n) else d0.get? n := by
  induction names generalizing d0 with
  | nil => simp
  | cons m ms ih =>
    simp only [List.foldl_cons, ih, List.mem_cons]
    by_cases h1 : n ∈ ms
    · simp [h1]
    · simp only [h1, if_false, or_false]
      by_cases h2 : n = m
      · subst h2; simp [get?_set_self]
      · simp [h2, get?_set_ne _ _ _ _ h2]

theorem foldl_set_keys {κ γ : Type} [DecidableEq κ] (f : κ → γ) (names : List κ) (d0 : Dict κ γ)
    (h0 : (d0.map Prod.fst).Nodup) :
    ((names.foldl (fun d m => d.set m (f m)) d0).map Prod.fst).Nodup ∧
      ∀ n ∈ (names.foldl (fun d m => d.set m (f m)) d0).map Prod.fst, n ∈ names ∨ n ∈ d0.map Prod.fst := by
  induction names generalizing d0 with
  | nil => exact ⟨h0, fun n h => Or.inr h⟩
  | cons m ms ih =>
    simp only [List.foldl_cons]
    obtain ⟨h1, h2⟩ := ih (d0.set m (f m)) (set_keys_nodup d0 m (f m) h0)
    refine ⟨h1, fun n hn => ?_⟩
    rcases h2 n hn with h | h
    · exact Or.inl (List.mem_cons_of_mem _ h)
    · rcases (mem_keys_set d0 m n (f m)).mp h with rfl | h
      · exact Or.inl (List.mem_cons_self ..)
      · exact Or.inr h

theorem getD_set_self {κ γ : Type} [DecidableEq κ] (d : Dict κ γ) (k : κ) (v dflt : γ) :
    ((d.set k v).get? k).getD dflt = v := by simp [get?_set_self]

/-! ### columns of one restart -/

section cols
variable {β : Type} (src : DKey → β) (ofIt : Nat → β) (R rl : Nat) (its : List Nat)

/-- every entry of column `n` is the source at its iteration -/
def CellOK (col : Dict DName (List (Option β))) (n : DName) : Prop :=
  ∀ (idx i : Nat), its[idx]? = some i → (getCol col n)[idx]? = some (some (src ⟨R, i, n, rl⟩))

/-- every entry of column `n` is the source, or None and recorded as missing -/
def CellGood (col : Dict DName (List (Option β))) (miss : Dict DName (List Nat)) (n : DName) : Prop :=
  ∀ (idx i : Nat), its[idx]? = some i →
    (getCol col n)[idx]? = some (some (src ⟨R, i, n, rl⟩)) ∨
      ((getCol col n)[idx]? = some none ∧ i ∈ getMiss miss n)

theorem fillCol_ok (colv : List (Option β)) (miss tmpIts : List Nat) (n : DName)
    (hgood : ∀ (idx i : Nat), its[idx]? = some i →
      colv[idx]? = some (some (src ⟨R, i, n, rl⟩)) ∨ (colv[idx]? = some none ∧ i ∈ miss))
    (hsub : ∀ i ∈ miss, i ∈ tmpIts) :
    ∀ (idx i : Nat), its[idx]? = some i →
      (fillCol its colv miss tmpIts (fetch src R rl tmpIts n))[idx]? = some (some (src ⟨R, i, n, rl⟩)) := by
  intro idx i hi
  unfold fillCol
  rw [List.getElem?_map]
  rcases hgood idx i hi with hc | ⟨hc, hm⟩
  · have hz : (its.zip colv)[idx]? = some (i, some (src ⟨R, i, n, rl⟩)) :=
      List.getElem?_zip_eq_some.mpr ⟨hi, hc⟩
    rw [hz]
    simp only [Option.map_some]
    by_cases hm : i ∈ miss
    · rw [if_pos hm, fetch_get src R rl tmpIts n _ i (nearest_exact_lemma tmpIts i (hsub i hm))]
    · rw [if_neg hm]
  · have hz : (its.zip colv)[idx]? = some (i, none) := List.getElem?_zip_eq_some.mpr ⟨hi, hc⟩
    rw [hz]
    simp only [Option.map_some]
    rw [if_pos hm, fetch_get src R rl tmpIts n _ i (nearest_exact_lemma tmpIts i (hsub i hm))]

theorem getCol_set_self (col : Dict DName (List (Option β))) (n : DName) (c : List (Option β)) :
    getCol (col.set n c) n = c := by simp [getCol, get?_set_self]
theorem getCol_set_ne (col : Dict DName (List (Option β))) (n m : DName) (c : List (Option β)) (h : m ≠ n) :
    getCol (col.set n c) m = getCol col m := by simp [getCol, get?_set_ne _ _ _ _ h]
theorem getMiss_set_self (ms : Dict DName (List Nat)) (n : DName) (c : List Nat) :
    getMiss (ms.set n c) n = c := by simp [getMiss, get?_set_self]
theorem getMiss_set_ne (ms : Dict DName (List Nat)) (n m : DName) (c : List Nat) (h : m ≠ n) :
    getMiss (ms.set n c) m = getMiss ms m := by simp [getMiss, get?_set_ne _ _ _ _ h]

theorem stepComp_eq (tmpIts : List Nat) (st st' : State β) (av : DName)
    (h : stepComp src ofIt R rl its tmpIts st av = some st') :
    st'.col = st.col.set av (fillCol its (getCol st.col av) (getMiss st.missing av) tmpIts
        (fetch src R rl tmpIts av)) ∧
    st'.missing = st.missing.set av (if av = DName.t then
        (getMiss st.missing av).filter (fun i => !(its.contains i)) else getMiss st.missing av) := by
  unfold stepComp at h
  simp only at h
  split at h
  · cases h
  · cases h; exact ⟨rfl, rfl⟩

/-- the invariant of the loops over the variables and their components -/
structure J (names : List DName) (m0 : Dict DName (List Nat)) (s : State β) : Prop where
  good : ∀ n ∈ names, CellGood src R rl its s.col s.missing n
  mvar : ∀ v, getMiss s.missing (DName.var v) = getMiss m0 (DName.var v)
  tsub : ∀ i ∈ getMiss s.missing DName.t, ∀ v, DName.var v ∈ names → i ∈ getMiss m0 (DName.var v)
  nodup : (s.col.map Prod.fst).Nodup
  keys : ∀ n ∈ s.col.map Prod.fst, n ∈ names

theorem stepComp_J (names : List DName) (m0 : Dict DName (List Nat)) (tmpIts : List Nat) (s s' : State β)
    (av : DName) (hJ : J src R rl its names m0 s) (hav : av ∈ names)
    (hsub : ∀ i ∈ getMiss s.missing av, i ∈ tmpIts)
    (h : stepComp src ofIt R rl its tmpIts s av = some s') :
    J src R rl its names m0 s' ∧ CellOK src R rl its s'.col av ∧
      (∀ n, CellOK src R rl its s.col n → CellOK src R rl its s'.col n) := by
  obtain ⟨hc, hm⟩ := stepComp_eq src ofIt R rl its tmpIts s s' av h
  have hok : CellOK src R rl its s'.col av := by
    intro idx i hi
    rw [hc, getCol_set_self]
    exact fillCol_ok src R rl its _ _ tmpIts av (hJ.good av hav) hsub idx i hi
  have hstable : ∀ n, CellOK src R rl its s.col n → CellOK src R rl its s'.col n := by
    intro n hn
    by_cases hna : n = av
    · subst hna; exact hok
    · intro idx i hi
      rw [hc, getCol_set_ne _ _ _ _ hna]
      exact hn idx i hi
  refine ⟨⟨?_, ?_, ?_, ?_, ?_⟩, hok, hstable⟩
  · intro n hn idx i hi
    by_cases hna : n = av
    · subst hna; exact Or.inl (hok idx i hi)
    · rw [hc, hm, getCol_set_ne _ _ _ _ hna, getMiss_set_ne _ _ _ _ hna]
      exact hJ.good n hn idx i hi
  · intro v
    by_cases hna : DName.var v = av
    · subst hna
      rw [hm, getMiss_set_self]
      simp only [reduceCtorEq, if_false]
      exact hJ.mvar v
    · rw [hm, getMiss_set_ne _ _ _ _ hna]; exact hJ.mvar v
  · intro i hi v hv
    by_cases hna : DName.t = av
    · subst hna
      rw [hm, getMiss_set_self] at hi
      simp only [if_true] at hi
      exact hJ.tsub i (List.mem_filter.mp hi).1 v hv
    · rw [hm, getMiss_set_ne _ _ _ _ hna] at hi
      exact hJ.tsub i hi v hv
  · rw [hc]; exact set_keys_nodup _ _ _ hJ.nodup
  · intro n hn
    rw [hc] at hn
    rcases (mem_keys_set _ _ _ _).mp hn with rfl | hn
    · exact hav
    · exact hJ.keys n hn

theorem foldlM_prefix {σ γ : Type} (P : List γ → σ → Prop) (f : σ → γ → Option σ) (l : List γ)
    (hstep : ∀ pre x s s1, x ∈ l → P pre s → f s x = some s1 → P (pre ++ [x]) s1) :
    ∀ (pre : List γ) (s s' : σ), (∀ x ∈ l, x ∈ l) → P pre s → l.foldlM f s = some s' → P (pre ++ l) s' := by
  induction l with
  | nil =>
    intro pre s s' _ hs h
    simp at h
    subst h
    simpa using hs
  | cons x xs ih =>
    intro pre s s' _ hs h
    simp only [List.foldlM_cons] at h
    cases hx : f s x with
    | none => simp [hx] at h
    | some s1 =>
      simp only [hx] at h
      have := ih (fun pre' y t t1 hy => hstep pre' y t t1 (List.mem_cons_of_mem _ hy)) (pre ++ [x]) s1 s'
        (fun _ h => h) (hstep pre x s s1 (List.mem_cons_self ..) hs hx) h
      simpa [List.append_assoc] using this

theorem eraseDups_eq_nil {γ : Type} [BEq γ] [LawfulBEq γ] (l : List γ) (h : l.eraseDups = []) : l = [] := by
  cases l with
  | nil => rfl
  | cons a as =>
    have : a ∈ (a :: as).eraseDups := List.mem_eraseDups.mpr (List.mem_cons_self ..)
    rw [h] at this; cases this

theorem stepVar_J (names : List DName) (m0 : Dict DName (List Nat)) (s s' : State β) (v : List Nat)
    (hJ : J src R rl its names m0 s) (hv : ∀ c ∈ v, DName.var c ∈ names) (ht : DName.t ∈ names)
    (h : stepVar src ofIt R rl its s v = some s') :
    J src R rl its names m0 s' ∧ (∀ c ∈ v, CellOK src R rl its s'.col (DName.var c)) ∧
      (∀ n, CellOK src R rl its s.col n → CellOK src R rl its s'.col n) ∧
      (v ≠ [] → CellOK src R rl its s'.col DName.t) := by
  unfold stepVar at h
  simp only at h
  split at h
  · -- nothing is missing for this variable
    rename_i hnil
    cases h
    have hflat := eraseDups_eq_nil _ hnil
    have hmiss : ∀ c ∈ v, getMiss s.missing (DName.var c) = [] := by
      intro c hc
      have : ∀ x, x ∉ getMiss s.missing (DName.var c) := by
        intro x hx
        have : x ∈ (v.map DName.var).flatMap fun av => getMiss s.missing av :=
          List.mem_flatMap.mpr ⟨DName.var c, List.mem_map.mpr ⟨c, hc, rfl⟩, hx⟩
        rw [hflat] at this; cases this
      exact List.eq_nil_iff_forall_not_mem.mpr this
    refine ⟨hJ, ?_, fun n hn => hn, ?_⟩
    · intro c hc idx i hi
      rcases hJ.good _ (hv c hc) idx i hi with h1 | ⟨_, h2⟩
      · exact h1
      · rw [hmiss c hc] at h2; cases h2
    · intro hne idx i hi
      obtain ⟨c0, hc0⟩ := List.exists_mem_of_ne_nil v hne
      rcases hJ.good _ ht idx i hi with h1 | ⟨_, h2⟩
      · exact h1
      · have := hJ.tsub i h2 c0 (hv c0 hc0)
        rw [← hJ.mvar c0, hmiss c0 hc0] at this; cases this
  · rename_i hne
    -- something is missing: every component and `t` is (re)filled from the source
    have hvne : v ≠ [] := by
      intro e; subst e; exact hne (by simp)
    obtain ⟨c0, hc0⟩ := List.exists_mem_of_ne_nil v hvne
    have hin : ∀ c ∈ v, ∀ i ∈ getMiss s.missing (DName.var c),
        i ∈ sortNat ((v.map DName.var).flatMap fun av => getMiss s.missing av).eraseDups := by
      intro c hc i hi
      rw [mem_sortNat, List.mem_eraseDups]
      exact List.mem_flatMap.mpr ⟨DName.var c, List.mem_map.mpr ⟨c, hc, rfl⟩, hi⟩
    have key := foldlM_prefix
      (fun (pre : List DName) (t : State β) => J src R rl its names m0 t ∧
        (∀ n ∈ pre, CellOK src R rl its t.col n) ∧ (∀ n, CellOK src R rl its s.col n → CellOK src R rl its t.col n))
      (stepComp src ofIt R rl its (sortNat ((v.map DName.var).flatMap fun av => getMiss s.missing av).eraseDups))
      (v.map DName.var ++ [DName.t])
      (by
        intro pre x t t1 hx hP hstep
        obtain ⟨hJt, hpre, hstab⟩ := hP
        have hxn : x ∈ names := by
          rcases List.mem_append.mp hx with hx | hx
          · obtain ⟨c, hc, rfl⟩ := List.mem_map.mp hx; exact hv c hc
          · simp at hx; subst hx; exact ht
        have hsub : ∀ i ∈ getMiss t.missing x,
            i ∈ sortNat ((v.map DName.var).flatMap fun av => getMiss s.missing av).eraseDups := by
          intro i hi
          rcases List.mem_append.mp hx with hx | hx
          · obtain ⟨c, hc, rfl⟩ := List.mem_map.mp hx
            rw [hJt.mvar c, ← hJ.mvar c] at hi
            exact hin c hc i hi
          · simp at hx; subst hx
            have := hJt.tsub i hi c0 (hv c0 hc0)
            rw [← hJ.mvar c0] at this
            exact hin c0 hc0 i this
        obtain ⟨h1, h2, h3⟩ := stepComp_J src ofIt R rl its names m0 _ t t1 x hJt hxn hsub hstep
        refine ⟨h1, ?_, fun n hn => h3 n (hstab n hn)⟩
        intro n hn
        rcases List.mem_append.mp hn with hn | hn
        · exact h3 n (hpre n hn)
        · simp at hn; subst hn; exact h2)
      [] s s' (fun _ h => h) ⟨hJ, by simp, fun n hn => hn⟩ h
    obtain ⟨k1, k2, k3⟩ := key
    refine ⟨k1, ?_, k3, ?_⟩
    · intro c hc
      exact k2 _ (List.mem_append.mpr (Or.inr (List.mem_append.mpr (Or.inl (List.mem_map.mpr ⟨c, hc, rfl⟩)))))
    · intro _
      exact k2 _ (List.mem_append.mpr (Or.inr (List.mem_append.mpr (Or.inr (List.mem_singleton.mpr rfl)))))

/-- a cache file that has a variable at some level also has the time at that level -/
def StoreT (store : Store β) : Prop :=
  ∀ k ∈ store.map Prod.fst, ∀ v, k.name = DName.var v →
    (⟨k.restart, k.it, DName.t, k.rl⟩ : DKey) ∈ store.map Prod.fst

theorem readCache_col (store : Store β) (names : List DName) (n : DName) (hn : n ∈ names) :
    getCol (readCache store R rl its names) n = its.map fun i => store.get? ⟨R, i, n, rl⟩ := by
  simp [getCol, readCache, foldl_set_get, hn]

theorem initMissing_get (cols : Dict DName (List (Option β))) (names : List DName) (n : DName) (hn : n ∈ names) :
    getMiss (initMissing its cols names) n = missingOf its (getCol cols n) := by
  simp [getMiss, initMissing, foldl_set_get, hn]

theorem mem_missingOf (col : List (Option β)) (i : Nat) :
    i ∈ missingOf its col ↔ ∃ idx : Nat, its[idx]? = some i ∧ col[idx]? = some none := by
  unfold missingOf
  rw [mem_sortNat, List.mem_eraseDups, List.mem_filterMap]
  constructor
  · rintro ⟨⟨j, c⟩, hp, hsome⟩
    obtain ⟨idx, hidx⟩ := List.mem_iff_getElem?.mp hp
    obtain ⟨h1, h2⟩ := List.getElem?_zip_eq_some.mp hidx
    simp only at h1 h2 hsome
    cases c with
    | none => simp at hsome; subst hsome; exact ⟨idx, h1, h2⟩
    | some x => simp at hsome
  · rintro ⟨idx, h1, h2⟩
    exact ⟨(i, none), List.mem_iff_getElem?.mpr ⟨idx, List.getElem?_zip_eq_some.mpr ⟨h1, h2⟩⟩, by simp⟩

theorem readRestart_cells (grouped : Bool) (req : List (List Nat)) (store : Store β)
    (cols : Dict DName (List (Option β))) (store' : Store β)
    (hI : Inv src ofIt store) (hT : StoreT store) (hreq : req.flatten ≠ [])
    (h : readRestart src ofIt grouped req store R rl its = some (cols, store')) :
    (∀ n ∈ req.flatten.map DName.var ++ [DName.t], CellOK src R rl its cols n) ∧
      (cols.map Prod.fst).Nodup ∧ ∀ n ∈ cols.map Prod.fst, n ∈ req.flatten.map DName.var ++ [DName.t] := by
  unfold readRestart at h
  simp only at h
  split at h
  · cases h
  · rename_i st hst
    cases h
    generalize hnames : req.flatten.map DName.var ++ [DName.t] = names at hst ⊢
    have hnoit : ∀ n ∈ names, n ≠ DName.it := by
      intro n hn; rw [← hnames] at hn
      rcases List.mem_append.mp hn with hn | hn
      · obtain ⟨c, _, rfl⟩ := List.mem_map.mp hn; simp
      · simp at hn; subst hn; simp
    have htn : DName.t ∈ names := by rw [← hnames]; simp
    have hvn : ∀ c ∈ req.flatten, DName.var c ∈ names := by
      intro c hc; rw [← hnames]; exact List.mem_append.mpr (Or.inl (List.mem_map.mpr ⟨c, hc, rfl⟩))
    -- the invariant holds initially
    have hcell : ∀ n ∈ names, ∀ (idx i : Nat), its[idx]? = some i →
        (getCol (readCache store R rl its names) n)[idx]? = some (store.get? ⟨R, i, n, rl⟩) := by
      intro n hn idx i hi
      rw [readCache_col R rl its store names n hn, List.getElem?_map, hi]; rfl
    have hJ0 : J src R rl its names (initMissing its (readCache store R rl its names) names)
        { col := readCache store R rl its names,
          missing := initMissing its (readCache store R rl its names) names, store := store } := by
      refine ⟨?_, fun _ => rfl, ?_, ?_, ?_⟩
      · intro n hn idx i hi
        have hc := hcell n hn idx i hi
        cases hg : store.get? ⟨R, i, n, rl⟩ with
        | none =>
          right
          simp only
          rw [hc, hg]
          refine ⟨rfl, ?_⟩
          rw [initMissing_get its _ names n hn, mem_missingOf]
          exact ⟨idx, hi, by rw [hc, hg]⟩
        | some x =>
          left
          simp only
          rw [hc, hg]
          have := hI _ (get?_mem store _ x hg)
          simp only at this
          rw [this]
          have hne := hnoit n hn
          cases n <;> simp_all [truth]
      · intro i hi v hv
        simp only at hi
        rw [initMissing_get its _ names _ htn, mem_missingOf] at hi
        obtain ⟨idx, h1, h2⟩ := hi
        rw [hcell _ htn idx i h1] at h2
        have htnone : store.get? ⟨R, i, DName.t, rl⟩ = none := by simpa using h2
        have hvnone : store.get? ⟨R, i, DName.var v, rl⟩ = none := by
          rw [get?_none_iff] at htnone ⊢
          intro hk
          exact htnone (hT _ hk v rfl)
        rw [initMissing_get its _ names _ hv, mem_missingOf]
        exact ⟨idx, h1, by rw [hcell _ hv idx i h1, hvnone]⟩
      · exact (foldl_set_keys _ names [] (by simp)).1
      · intro n hn
        rcases (foldl_set_keys _ names [] (by simp)).2 n hn with h | h
        · exact h
        · cases h
    -- through the loop over the variables
    have key := foldlM_prefix
      (fun (pre : List (List Nat)) (t : State β) =>
        J src R rl its names (initMissing its (readCache store R rl its names) names) t ∧
        (∀ v ∈ pre, ∀ c ∈ v, CellOK src R rl its t.col (DName.var c)) ∧
        ((∃ v ∈ pre, v ≠ []) → CellOK src R rl its t.col DName.t))
      (stepVar src ofIt R rl its) (if grouped then req else req.flatten.map fun c => [c])
      (by
        intro pre v t t1 hv hP hstep
        obtain ⟨hJt, hpre, htd⟩ := hP
        have hvc : ∀ c ∈ v, DName.var c ∈ names := by
          intro c hc
          apply hvn
          cases grouped with
          | true => simp only [if_true] at hv; exact List.mem_flatten.mpr ⟨v, hv, hc⟩
          | false =>
            simp only [Bool.false_eq_true, ↓reduceIte] at hv
            obtain ⟨c', hc', rfl⟩ := List.mem_map.mp hv
            rw [List.mem_singleton.mp hc]; exact hc'
        obtain ⟨h1, h2, h3, h4⟩ := stepVar_J src ofIt R rl its names _ t t1 v hJt hvc htn hstep
        refine ⟨h1, ?_, ?_⟩
        · intro w hw c hc
          rcases List.mem_append.mp hw with hw | hw
          · exact h3 _ (hpre w hw c hc)
          · simp at hw; subst hw; exact h2 c hc
        · rintro ⟨w, hw, hwne⟩
          rcases List.mem_append.mp hw with hw | hw
          · exact h3 _ (htd ⟨w, hw, hwne⟩)
          · simp at hw; subst hw; exact h4 hwne)
      [] _ st (fun _ h => h) ⟨hJ0, by simp, by simp⟩ hst
    obtain ⟨k1, k2, k3⟩ := key
    simp only [List.nil_append] at k2 k3
    refine ⟨?_, k1.nodup, k1.keys⟩
    intro n hn
    rw [← hnames] at hn
    rcases List.mem_append.mp hn with hn | hn
    · obtain ⟨c, hc, rfl⟩ := List.mem_map.mp hn
      cases grouped with
      | true =>
        obtain ⟨v, hv, hcv⟩ := List.mem_flatten.mp hc
        exact k2 v (by simpa using hv) c hcv
      | false =>
        exact k2 [c] (by simp only [Bool.false_eq_true, ↓reduceIte]; exact List.mem_map.mpr ⟨c, hc, rfl⟩) c
          (List.mem_singleton.mpr rfl)
    · simp at hn; subst hn
      apply k3
      obtain ⟨c, hc⟩ := List.exists_mem_of_ne_nil _ hreq
      cases grouped with
      | true =>
        obtain ⟨v, hv, hcv⟩ := List.mem_flatten.mp hc
        exact ⟨v, by simpa using hv, List.ne_nil_of_mem hcv⟩
      | false =>
        exact ⟨[c], by simp only [Bool.false_eq_true, ↓reduceIte]; exact List.mem_map.mpr ⟨c, hc, rfl⟩, by simp⟩

end cols


/-! ### a file that holds a variable also holds the time -/

theorem storeT_set3 {β : Type} (st : Store β) (R iit rl : Nat) (av : DName) (x y z : β) (hT : StoreT st) :
    StoreT (((st.set ⟨R, iit, av, rl⟩ x).set ⟨R, iit, DName.it, rl⟩ y).set ⟨R, iit, DName.t, rl⟩ z) := by
  intro k hk v hv
  have hk' : k = ⟨R, iit, av, rl⟩ ∨ k ∈ st.map Prod.fst := by
    rcases (mem_keys_set _ _ _ _).mp hk with rfl | hk
    · cases hv
    · rcases (mem_keys_set _ _ _ _).mp hk with rfl | hk
      · cases hv
      · exact (mem_keys_set _ _ _ _).mp hk
  apply (mem_keys_set _ _ _ _).mpr
  rcases hk' with rfl | hk'
  · exact Or.inl rfl
  · right
    apply (mem_keys_set _ _ _ _).mpr; right
    apply (mem_keys_set _ _ _ _).mpr; right
    exact hT k hk' v hv

theorem savePres_storeT {β : Type} (src : DKey → β) (ofIt : Nat → β) : SavePres src ofIt (StoreT (β := β)) := by
  intro R rl tmpIts av _ itsSave store store' hT h
  unfold saveData at h
  refine foldlM_inv StoreT _ ?_ _ store store' hT h
  intro st iit st' hst hstep
  split at hstep
  · cases hstep
  · split at hstep
    · cases hstep; exact storeT_set3 st R iit rl av _ _ _ hst
    · cases hstep

/-- the invariant carried through a history: content and the t-companion -/
def GInv {β : Type} (src : DKey → β) (ofIt : Nat → β) (store : Store β) : Prop :=
  Inv src ofIt store ∧ StoreT store

theorem savePres_ginv {β : Type} (src : DKey → β) (ofIt : Nat → β) : SavePres src ofIt (GInv src ofIt) :=
  fun R rl tmpIts av hav itsSave store store' hG h =>
    ⟨savePres_inv src ofIt R rl tmpIts av hav itsSave store store' hG.1 h,
     savePres_storeT src ofIt R rl tmpIts av hav itsSave store store' hG.2 h⟩

theorem readData_ginv {β : Type} (src : DKey → β) (ofIt : Nat → β) (avail : List Avail) (grouped : Bool)
    (req : List (List Nat)) (its : List Nat) (rl : Nat) (restart : Option Nat) (split : Bool)
    (store : Store β) (rows : List (Row β)) (store' : Store β) (hG : GInv src ofIt store)
    (h : readData src ofIt avail grouped req its rl restart split store = some (rows, store')) :
    GInv src ofIt store' :=
  readData_pres src ofIt _ (savePres_ginv src ofIt) avail grouped req its rl restart split store rows store' hG h

theorem ginv_empty {β : Type} (src : DKey → β) (ofIt : Nat → β) : GInv src ofIt ([] : Store β) :=
  ⟨inv_empty src ofIt, by intro k hk; cases hk⟩

theorem afterCall_ginv {β : Type} (src : DKey → β) (ofIt : Nat → β) (store : Store β) (c : Call)
    (hG : GInv src ofIt store) : GInv src ofIt (afterCall src ofIt store c) := by
  unfold afterCall
  split
  · rename_i rows store' h
    exact readData_ginv src ofIt _ _ _ _ _ _ _ store rows store' hG h
  · exact hG

/-! ### the cells returned -/

/-- what one restart contributes: every column of every requested name is the source -/
def ColsOK {β : Type} (src : DKey → β) (rl : Nat) (req : List (List Nat))
    (d : Nat × List Nat × Dict DName (List (Option β))) : Prop :=
  (∀ n ∈ req.flatten.map DName.var ++ [DName.t], CellOK src d.1 rl d.2.1 d.2.2 n) ∧
    (d.2.2.map Prod.fst).Nodup ∧ ∀ n ∈ d.2.2.map Prod.fst, n ∈ req.flatten.map DName.var ++ [DName.t]

theorem readDirect_ok {β : Type} (src : DKey → β) (rl : Nat) (req : List (List Nat)) (R : Nat) (its : List Nat) :
    ColsOK src rl req (R, its, readDirect src req R rl its) := by
  unfold ColsOK readDirect
  refine ⟨?_, (foldl_set_keys _ _ [] (by simp)).1, ?_⟩
  · intro n hn idx i hi
    simp only [getCol, foldl_set_get, hn, if_true, Option.getD_some, List.getElem?_map, hi, Option.map_some]
  · intro n hn
    rcases (foldl_set_keys _ _ [] (by simp)).2 n hn with h | h
    · exact h
    · cases h

theorem readAll_cells {β : Type} (src : DKey → β) (ofIt : Nat → β) (grouped split : Bool) (req : List (List Nat))
    (hreq : req.flatten ≠ []) (rl : Nat) (todo : List (Nat × List Nat)) (store : Store β)
    (out : List (Nat × List Nat × Dict DName (List (Option β)))) (store' : Store β)
    (hG : GInv src ofIt store) (h : readAll src ofIt grouped split req rl todo store = some (out, store')) :
    ∀ d ∈ out, ColsOK src rl req d := by
  induction todo generalizing store out store' with
  | nil => simp [readAll] at h; intro d hd; rw [h.1] at hd; cases hd
  | cons rt rest ih =>
    obtain ⟨R, td⟩ := rt
    simp only [readAll] at h
    split at h
    · exact ih store out store' hG h
    · split at h
      · cases h
      · rename_i cols store1 hr
        split at h
        · cases h
        · rename_i out' store2 hrest
          cases h
          cases split with
          | true =>
            simp only [if_true] at hr
            have hG1 : GInv src ofIt store1 :=
              readRestart_pres src ofIt _ (savePres_ginv src ofIt) grouped req store R rl td cols store1 hG hr
            intro d hd
            rcases List.mem_cons.mp hd with rfl | hd
            · exact readRestart_cells src ofIt R rl td grouped req store cols store1 hG.1 hG.2 hreq hr
            · exact ih store1 out' store' hG1 hrest d hd
          | false =>
            simp at hr
            obtain ⟨rfl, rfl⟩ := hr
            intro d hd
            rcases List.mem_cons.mp hd with rfl | hd
            · exact readDirect_ok src rl req R td
            · exact ih store out' store' hG hrest d hd

/-- **every returned cell is the source** -/
theorem readData_cells {β : Type} (src : DKey → β) (ofIt : Nat → β) (avail : List Avail) (grouped : Bool)
    (req : List (List Nat)) (hreq : req.flatten ≠ []) (its : List Nat) (rl : Nat) (restart : Option Nat)
    (split : Bool) (store : Store β) (rows : List (Row β)) (store' : Store β) (hG : GInv src ofIt store)
    (h : readData src ofIt avail grouped req its rl restart split store = some (rows, store')) :
    ∀ row ∈ rows, (∀ c ∈ row.2.2, c.2 = some (src ⟨row.2.1, row.1, c.1, rl⟩)) ∧
      (∀ n ∈ req.flatten.map DName.var ++ [DName.t], n ∈ row.2.2.map Prod.fst) := by
  unfold readData at h
  simp only at h
  split at h
  · cases h
  · cases h
  · rename_i datar store1 _ hr
    cases h
    have hcells := readAll_cells src ofIt grouped split req hreq rl _ store datar store' hG hr
    intro row hrow
    unfold flattenRows at hrow
    obtain ⟨iit, _, hrow⟩ := List.mem_flatMap.mp hrow
    obtain ⟨d, hd, hrow⟩ := List.mem_filterMap.mp hrow
    split at hrow
    · rename_i hmem
      simp only [Option.some.injEq] at hrow
      subst hrow
      obtain ⟨hok, hnd, hkeys⟩ := hcells d hd
      have hidx := nearest_exact_lemma d.2.1 iit hmem
      constructor
      · intro c hc
        obtain ⟨e, he, rfl⟩ := List.mem_map.mp hc
        have hn := hkeys e.1 (List.mem_map.mpr ⟨e, he, rfl⟩)
        have hget : getCol d.2.2 e.1 = e.2 := by
          simp [getCol, get?_of_mem hnd (show (e.1, e.2) ∈ d.2.2 from he)]
        have := hok e.1 hn _ iit hidx
        rw [hget] at this
        simp only [this, Option.getD_some]
      · intro n hn
        simp only [List.map_map]
        -- every requested name is a column
        have : n ∈ d.2.2.map Prod.fst := by
          have h0 := hok n hn _ iit hidx
          by_contra hcon
          have : getCol d.2.2 n = [] := by
            simp [getCol, (get?_none_iff d.2.2 n).mpr hcon]
          rw [this] at h0; simp at h0
        obtain ⟨e, he, rfl⟩ := List.mem_map.mp this
        exact List.mem_map.mpr ⟨e, he, rfl⟩
    · cases hrow


/-! ### order of the rows -/

theorem readAll_rows {β : Type} (src : DKey → β) (ofIt : Nat → β) (grouped split : Bool) (req : List (List Nat))
    (rl : Nat) (todo : List (Nat × List Nat)) (store : Store β)
    (out : List (Nat × List Nat × Dict DName (List (Option β)))) (store' : Store β)
    (h : readAll src ofIt grouped split req rl todo store = some (out, store')) (iit : Nat) :
    out.filterMap (fun d => if iit ∈ d.2.1 then some (iit, d.1) else none)
      = todo.filterMap (fun rt => if iit ∈ rt.2 then some (iit, rt.1) else none) := by
  induction todo generalizing store out store' with
  | nil => simp [readAll] at h; rw [h.1]; rfl
  | cons rt rest ih =>
    obtain ⟨R, td⟩ := rt
    simp only [readAll] at h
    split at h
    · rename_i hnil
      rw [ih store out store' h, List.filterMap_cons]
      simp [hnil]
    · split at h
      · cases h
      · rename_i cols store1 hr
        split at h
        · cases h
        · rename_i out' store2 hrest
          cases h
          simp only [List.filterMap_cons]
          rw [ih store1 out' store' hrest]

/-- **T3** the rows are, for each requested iteration in sorted order, one row
per restart that was asked to read it -/
theorem readData_rows {β : Type} (src : DKey → β) (ofIt : Nat → β) (avail : List Avail) (grouped : Bool)
    (req : List (List Nat)) (its : List Nat) (rl : Nat) (split : Bool) (store : Store β)
    (rows : List (Row β)) (store' : Store β)
    (h : readData src ofIt avail grouped req its rl none split store = some (rows, store')) :
    rows.map (fun r => (r.1, r.2.1)) = readOrder avail its := by
  unfold readData at h
  simp only at h
  split at h
  · cases h
  · cases h
  · rename_i datar store1 _ hr
    cases h
    unfold flattenRows readOrder Chunks.flatten
    simp only [List.map_flatMap]
    apply List.flatMap_congr
    intro iit _
    rw [← readAll_rows src ofIt grouped split req rl _ store datar store' hr iit, List.map_filterMap]
    apply List.filterMap_congr
    intro d _
    split <;> simp


/-- every call of a history starting from a cache with the invariant: the
cache after the call has the invariant and every cell the call returns is the source -/
theorem history_ginv {β : Type} (src : DKey → β) (ofIt : Nat → β) (hist : List Call) (store : Store β)
    (hG : GInv src ofIt store) : ∀ s ∈ cachesOf src ofIt store hist, GInv src ofIt s := by
  induction hist generalizing store with
  | nil => intro s hs; cases hs
  | cons c cs ih =>
    intro s hs
    simp only [cachesOf] at hs
    rcases List.mem_cons.mp hs with rfl | hs
    · exact afterCall_ginv src ofIt store c hG
    · exact ih _ (afterCall_ginv src ofIt store c hG) s hs

/-- the cache each call of a history starts from -/
def cachesBefore {β : Type} (src : DKey → β) (ofIt : Nat → β) (store : Store β) (hist : List Call) :
    List (Store β × Call) :=
  match hist with
  | [] => []
  | c :: cs => (store, c) :: cachesBefore src ofIt (afterCall src ofIt store c) cs

theorem history_before_ginv {β : Type} (src : DKey → β) (ofIt : Nat → β) (hist : List Call) (store : Store β)
    (hG : GInv src ofIt store) : ∀ sc ∈ cachesBefore src ofIt store hist, GInv src ofIt sc.1 := by
  induction hist generalizing store with
  | nil => intro s hs; cases hs
  | cons c cs ih =>
    intro s hs
    simp only [cachesBefore] at hs
    rcases List.mem_cons.mp hs with rfl | hs
    · exact hG
    · exact ih _ (afterCall_ginv src ofIt store c hG) s hs

/-! ### the model never takes an error branch (no ValueError / IndexError inside the cache logic) -/

theorem foldlM_total {σ γ : Type} (P : σ → Prop) (f : σ → γ → Option σ) (l : List γ)
    (hstep : ∀ x s, x ∈ l → P s → ∃ s1, f s x = some s1 ∧ P s1) :
    ∀ (s : σ), P s → ∃ s', l.foldlM f s = some s' ∧ P s' := by
  induction l with
  | nil => intro s hs; exact ⟨s, by simp, hs⟩
  | cons x xs ih =>
    intro s hs
    obtain ⟨s1, h1, hP1⟩ := hstep x s (List.mem_cons_self ..) hs
    obtain ⟨s', h2, hP2⟩ := ih (fun y t hy => hstep y t (List.mem_cons_of_mem _ hy)) s1 hP1
    exact ⟨s', by simp only [List.foldlM_cons, h1]; exact h2, hP2⟩

theorem saveData_total {β : Type} (src : DKey → β) (ofIt : Nat → β) (R rl : Nat) (tmpIts : List Nat) (av : DName)
    (itsSave : List Nat) (hsub : ∀ i ∈ itsSave, i ∈ tmpIts) (store : Store β) :
    ∃ store', saveData ofIt store R rl tmpIts (fetch src R rl tmpIts) av itsSave = some store' := by
  unfold saveData
  have hl : ∀ i ∈ sortNat itsSave.eraseDups, i ∈ tmpIts :=
    fun i hi => hsub i (List.mem_eraseDups.mp ((mem_sortNat _ _).mp hi))
  generalize sortNat itsSave.eraseDups = l at hl
  induction l generalizing store with
  | nil => exact ⟨store, rfl⟩
  | cons iit rest ih =>
    have hmem : iit ∈ tmpIts := hl iit (List.mem_cons_self ..)
    obtain ⟨idx, hidx⟩ := indexOf?_of_mem iit tmpIts hmem
    have hget := indexOf?_get iit tmpIts idx hidx
    simp only [List.foldlM_cons, hidx, fetch_get src R rl tmpIts _ idx iit hget, hget]
    exact ih _ (fun i hi => hl i (List.mem_cons_of_mem _ hi))

section cols
variable {β : Type} (src : DKey → β) (ofIt : Nat → β) (R rl : Nat) (its : List Nat)

theorem stepComp_total (tmpIts : List Nat) (s : State β) (av : DName)
    (hsub : ∀ i ∈ getMiss s.missing av, i ∈ tmpIts) : ∃ s', stepComp src ofIt R rl its tmpIts s av = some s' := by
  unfold stepComp
  simp only
  generalize hm : (if av = DName.t then (getMiss s.missing av).filter (fun i => !(its.contains i))
    else getMiss s.missing av) = miss'
  have hsub' : ∀ i ∈ miss', i ∈ tmpIts := by
    intro i hi
    rw [← hm] at hi
    split at hi
    · exact hsub i (List.mem_filter.mp hi).1
    · exact hsub i hi
  by_cases he : miss' = []
  · simp [he]
  · obtain ⟨store', hs⟩ := saveData_total src ofIt R rl tmpIts av miss' hsub' s.store
    simp [he, hs]

theorem stepVar_total (names : List DName) (m0 : Dict DName (List Nat)) (s : State β) (v : List Nat)
    (hJ : J src R rl its names m0 s) (hv : ∀ c ∈ v, DName.var c ∈ names) (ht : DName.t ∈ names) :
    ∃ s', stepVar src ofIt R rl its s v = some s' := by
  unfold stepVar
  simp only
  split
  · exact ⟨s, rfl⟩
  · rename_i hne
    have hvne : v ≠ [] := by
      intro e; subst e; exact hne (by simp)
    obtain ⟨c0, hc0⟩ := List.exists_mem_of_ne_nil v hvne
    have hin : ∀ c ∈ v, ∀ i ∈ getMiss s.missing (DName.var c),
        i ∈ sortNat ((v.map DName.var).flatMap fun av => getMiss s.missing av).eraseDups := by
      intro c hc i hi
      rw [mem_sortNat, List.mem_eraseDups]
      exact List.mem_flatMap.mpr ⟨DName.var c, List.mem_map.mpr ⟨c, hc, rfl⟩, hi⟩
    obtain ⟨s', h, _⟩ := foldlM_total (fun t : State β => J src R rl its names m0 t)
      (stepComp src ofIt R rl its (sortNat ((v.map DName.var).flatMap fun av => getMiss s.missing av).eraseDups))
      (v.map DName.var ++ [DName.t]) (by
        intro x t hx hJt
        have hxn : x ∈ names := by
          rcases List.mem_append.mp hx with hx | hx
          · obtain ⟨c, hc, rfl⟩ := List.mem_map.mp hx; exact hv c hc
          · simp at hx; subst hx; exact ht
        have hsub : ∀ i ∈ getMiss t.missing x,
            i ∈ sortNat ((v.map DName.var).flatMap fun av => getMiss s.missing av).eraseDups := by
          intro i hi
          rcases List.mem_append.mp hx with hx | hx
          · obtain ⟨c, hc, rfl⟩ := List.mem_map.mp hx
            rw [hJt.mvar c, ← hJ.mvar c] at hi
            exact hin c hc i hi
          · simp at hx; subst hx
            have := hJt.tsub i hi c0 (hv c0 hc0)
            rw [← hJ.mvar c0] at this
            exact hin c0 hc0 i this
        obtain ⟨t1, h1⟩ := stepComp_total src ofIt R rl its _ t x hsub
        exact ⟨t1, h1, (stepComp_J src ofIt R rl its names m0 _ t t1 x hJt hxn hsub h1).1⟩) s hJ
    exact ⟨s', h⟩

theorem initial_J (req : List (List Nat)) (store : Store β) (hI : Inv src ofIt store) (hT : StoreT store) :
    J src R rl its (req.flatten.map DName.var ++ [DName.t])
      (initMissing its (readCache store R rl its (req.flatten.map DName.var ++ [DName.t]))
        (req.flatten.map DName.var ++ [DName.t]))
      { col := readCache store R rl its (req.flatten.map DName.var ++ [DName.t]),
        missing := initMissing its (readCache store R rl its (req.flatten.map DName.var ++ [DName.t]))
          (req.flatten.map DName.var ++ [DName.t]),
        store := store } := by
  generalize hnames : req.flatten.map DName.var ++ [DName.t] = names
  have hnoit : ∀ n ∈ names, n ≠ DName.it := by
    intro n hn; rw [← hnames] at hn
    rcases List.mem_append.mp hn with hn | hn
    · obtain ⟨c, _, rfl⟩ := List.mem_map.mp hn; simp
    · simp at hn; subst hn; simp
  have htn : DName.t ∈ names := by rw [← hnames]; simp
  have hcell : ∀ n ∈ names, ∀ (idx i : Nat), its[idx]? = some i →
      (getCol (readCache store R rl its names) n)[idx]? = some (store.get? ⟨R, i, n, rl⟩) := by
    intro n hn idx i hi
    rw [readCache_col R rl its store names n hn, List.getElem?_map, hi]; rfl
  refine ⟨?_, fun _ => rfl, ?_, ?_, ?_⟩
  · intro n hn idx i hi
    have hc := hcell n hn idx i hi
    cases hg : store.get? ⟨R, i, n, rl⟩ with
    | none =>
      right
      simp only
      rw [hc, hg]
      refine ⟨rfl, ?_⟩
      rw [initMissing_get its _ names n hn, mem_missingOf]
      exact ⟨idx, hi, by rw [hc, hg]⟩
    | some x =>
      left
      simp only
      rw [hc, hg]
      have := hI _ (get?_mem store _ x hg)
      simp only at this
      rw [this]
      have hne := hnoit n hn
      cases n <;> simp_all [truth]
  · intro i hi v hv
    simp only at hi
    rw [initMissing_get its _ names _ htn, mem_missingOf] at hi
    obtain ⟨idx, h1, h2⟩ := hi
    rw [hcell _ htn idx i h1] at h2
    have htnone : store.get? ⟨R, i, DName.t, rl⟩ = none := by simpa using h2
    have hvnone : store.get? ⟨R, i, DName.var v, rl⟩ = none := by
      rw [get?_none_iff] at htnone ⊢
      intro hk
      exact htnone (hT _ hk v rfl)
    rw [initMissing_get its _ names _ hv, mem_missingOf]
    exact ⟨idx, h1, by rw [hcell _ hv idx i h1, hvnone]⟩
  · exact (foldl_set_keys _ names [] (by simp)).1
  · intro n hn
    rcases (foldl_set_keys _ names [] (by simp)).2 n hn with h | h
    · exact h
    · cases h

theorem readRestart_total (grouped : Bool) (req : List (List Nat)) (store : Store β)
    (hI : Inv src ofIt store) (hT : StoreT store) :
    ∃ r, readRestart src ofIt grouped req store R rl its = some r := by
  unfold readRestart
  simp only
  have hJ0 := initial_J src ofIt R rl its req store hI hT
  obtain ⟨st, h, _⟩ := foldlM_total
    (fun t : State β => J src R rl its (req.flatten.map DName.var ++ [DName.t])
      (initMissing its (readCache store R rl its (req.flatten.map DName.var ++ [DName.t]))
        (req.flatten.map DName.var ++ [DName.t])) t)
    (stepVar src ofIt R rl its) (if grouped then req else req.flatten.map fun c => [c]) (by
      intro v t hv hJt
      have hvc : ∀ c ∈ v, DName.var c ∈ req.flatten.map DName.var ++ [DName.t] := by
        intro c hc
        apply List.mem_append.mpr; left
        apply List.mem_map.mpr
        refine ⟨c, ?_, rfl⟩
        cases grouped with
        | true => simp only [if_true] at hv; exact List.mem_flatten.mpr ⟨v, hv, hc⟩
        | false =>
          simp only [Bool.false_eq_true, ↓reduceIte] at hv
          obtain ⟨c', hc', rfl⟩ := List.mem_map.mp hv
          rw [List.mem_singleton.mp hc]; exact hc'
      have htn : DName.t ∈ req.flatten.map DName.var ++ [DName.t] := by simp
      obtain ⟨t1, h1⟩ := stepVar_total src ofIt R rl its _ _ t v hJt hvc htn
      exact ⟨t1, h1, (stepVar_J src ofIt R rl its _ _ t t1 v hJt hvc htn h1).1⟩) _ hJ0
  rw [h]
  exact ⟨_, rfl⟩

end cols

theorem readAll_total {β : Type} (src : DKey → β) (ofIt : Nat → β) (grouped split : Bool) (req : List (List Nat))
    (rl : Nat) (todo : List (Nat × List Nat)) (store : Store β) (hG : GInv src ofIt store) :
    ∃ out store', readAll src ofIt grouped split req rl todo store = some (out, store') ∧
      ((∃ rt ∈ todo, rt.2 ≠ []) → out ≠ []) := by
  induction todo generalizing store with
  | nil => exact ⟨[], store, rfl, by rintro ⟨rt, h, _⟩; cases h⟩
  | cons rt rest ih =>
    obtain ⟨R, td⟩ := rt
    simp only [readAll]
    split
    · rename_i hnil
      obtain ⟨out, store', h, hne⟩ := ih store hG
      refine ⟨out, store', h, ?_⟩
      rintro ⟨rt, hrt, hrtne⟩
      rcases List.mem_cons.mp hrt with rfl | hrt
      · exact absurd hnil hrtne
      · exact hne ⟨rt, hrt, hrtne⟩
    · cases split with
      | true =>
        obtain ⟨⟨cols, store1⟩, hr⟩ := readRestart_total src ofIt R rl td grouped req store hG.1 hG.2
        have hG1 : GInv src ofIt store1 :=
          readRestart_pres src ofIt _ (savePres_ginv src ofIt) grouped req store R rl td cols store1 hG hr
        obtain ⟨out, store', h, _⟩ := ih store1 hG1
        exact ⟨(R, td, cols) :: out, store', by simp [hr, h], fun _ => by simp⟩
      | false =>
        obtain ⟨out, store', h, _⟩ := ih store hG
        exact ⟨(R, td, readDirect src req R rl td) :: out, store', by simp [h], fun _ => by simp⟩

/-- the iterations each catalogued restart is asked to read -/
def todoOf (avail : List Avail) (restart : Option Nat) (its : List Nat) : List (Nat × List Nat) :=
  match restart with
  | none => itToDo avail (sortedSet its)
  | some r => (avail.filter fun a => a.1 == r).map fun a =>
      (a.1, (sortedSet its).filter fun iit => decide (a.2.1 ≤ iit ∧ iit ≤ a.2.2))

/-- **the cache logic never raises**: on a cache with the invariant, a call
returns whenever some restart holds one of the requested iterations -/
theorem readData_total {β : Type} (src : DKey → β) (ofIt : Nat → β) (avail : List Avail) (grouped : Bool)
    (req : List (List Nat)) (its : List Nat) (rl : Nat) (restart : Option Nat) (split : Bool)
    (store : Store β) (hG : GInv src ofIt store) (hfound : ∃ rt ∈ todoOf avail restart its, rt.2 ≠ []) :
    ∃ r, readData src ofIt avail grouped req its rl restart split store = some r := by
  obtain ⟨out, store', h, hne⟩ := readAll_total src ofIt grouped split req rl (todoOf avail restart its) store hG
  have hout := hne hfound
  unfold readData
  cases restart with
  | none =>
    simp only [todoOf] at h
    simp only [h]
    cases out with
    | nil => exact absurd rfl hout
    | cons d ds => exact ⟨_, rfl⟩
  | some r =>
    simp only [todoOf] at h
    simp only [h]
    cases out with
    | nil => exact absurd rfl hout
    | cons d ds => exact ⟨_, rfl⟩


end AurelVerif.ReadCacheLemmas
