/-
Lemmas/ReadCache.lean — proofs about Model/ReadCache.lean (C12).
-/
import AurelVerif.Lemmas.Chunks
import AurelVerif.Model.ReadCache
namespace AurelVerif.ReadCacheLemmas
open AurelVerif.Chunks AurelVerif.ReadCache AurelVerif.ChunksLemmas

/-- what a dataset must hold: the source, or the iteration number for `it` -/
def truth {β : Type} (src : DKey → β) (ofIt : Nat → β) (k : DKey) : β :=
  match k.name with
  | .it => ofIt k.it
  | _ => src k

/-- every dataset of the cache equals the source at the key it is filed under -/
def Inv {β : Type} (src : DKey → β) (ofIt : Nat → β) (store : Store β) : Prop :=
  ∀ kv ∈ store, kv.2 = truth src ofIt kv.1

/-! ### dictionaries -/

theorem mem_set {κ β : Type} [DecidableEq κ] (d : Dict κ β) (k : κ) (v : β) (kv : κ × β)
    (h : kv ∈ d.set k v) : kv = (k, v) ∨ kv ∈ d := by
  induction d with
  | nil => simp [Dict.set] at h; exact Or.inl h
  | cons e rest ih =>
    obtain ⟨k', v'⟩ := e
    simp only [Dict.set] at h
    split at h
    · rename_i hk
      rcases List.mem_cons.mp h with h | h
      · subst hk; exact Or.inl h
      · exact Or.inr (List.mem_cons_of_mem _ h)
    · rcases List.mem_cons.mp h with h | h
      · exact Or.inr (h ▸ List.mem_cons_self ..)
      · rcases ih h with h | h
        · exact Or.inl h
        · exact Or.inr (List.mem_cons_of_mem _ h)

theorem get?_mem {κ β : Type} [DecidableEq κ] (d : Dict κ β) (k : κ) (v : β) (h : d.get? k = some v) :
    (k, v) ∈ d := by
  induction d with
  | nil => simp [Dict.get?] at h
  | cons e rest ih =>
    obtain ⟨k', v'⟩ := e
    simp only [Dict.get?] at h
    split at h
    · rename_i hk; cases h; subst hk; exact List.mem_cons_self ..
    · exact List.mem_cons_of_mem _ (ih h)

theorem get?_set_self {κ β : Type} [DecidableEq κ] (d : Dict κ β) (k : κ) (v : β) :
    (d.set k v).get? k = some v := by
  induction d with
  | nil => simp [Dict.set, Dict.get?]
  | cons e rest ih =>
    obtain ⟨k', v'⟩ := e
    simp only [Dict.set]
    split
    · rename_i hk; simp [Dict.get?, hk]
    · rename_i hk; simp [Dict.get?, hk, ih]

theorem get?_set_ne {κ β : Type} [DecidableEq κ] (d : Dict κ β) (k k' : κ) (v : β) (h : k' ≠ k) :
    (d.set k v).get? k' = d.get? k' := by
  induction d with
  | nil => simp [Dict.set, Dict.get?, Ne.symm h]
  | cons e rest ih =>
    obtain ⟨k'', v''⟩ := e
    simp only [Dict.set]
    split
    · rename_i hk; subst hk; simp [Dict.get?, Ne.symm h]
    · rename_i hk
      simp only [Dict.get?]
      split
      · rfl
      · exact ih

theorem inv_set {β : Type} (src : DKey → β) (ofIt : Nat → β) (store : Store β) (k : DKey) (x : β)
    (hI : Inv src ofIt store) (hx : x = truth src ofIt k) : Inv src ofIt (store.set k x) := by
  intro kv h
  rcases mem_set store k x kv h with rfl | h
  · exact hx
  · exact hI kv h

/-! ### `list.index` and `np.argmin` -/

theorem indexOf?_get (x : Nat) (l : List Nat) (idx : Nat) (h : indexOf? x l = some idx) : l[idx]? = some x := by
  induction l generalizing idx with
  | nil => simp [indexOf?] at h
  | cons y ys ih =>
    simp only [indexOf?] at h
    split at h
    · rename_i hy; cases h; simp [hy]
    · obtain ⟨j, hj, rfl⟩ := Option.map_eq_some_iff.mp h
      simpa using ih j hj

theorem indexOf?_of_mem (x : Nat) (l : List Nat) (h : x ∈ l) : ∃ idx, indexOf? x l = some idx := by
  induction l with
  | nil => cases h
  | cons y ys ih =>
    simp only [indexOf?]
    by_cases hy : y = x
    · exact ⟨0, by simp [hy]⟩
    · rcases List.mem_cons.mp h with rfl | h
      · exact absurd rfl hy
      · obtain ⟨j, hj⟩ := ih h
        exact ⟨j + 1, by simp [hy, hj]⟩

theorem absDiff_zero (a b : Nat) : absDiff a b = 0 ↔ a = b := by
  unfold absDiff; split <;> omega

/-- the scan returns an index (relative to the start of the whole list) whose
entry is at least as close as the best so far and every remaining entry -/
theorem argminFrom_spec (x : Nat) (pre ys : List Nat) (bi bd : Nat) (hbi : bi < pre.length)
    (hbd : ∃ h : bi < pre.length, absDiff (pre[bi]) x = bd) :
    let r := argminFrom x ys pre.length bi bd
    ∃ h : r < (pre ++ ys).length, absDiff ((pre ++ ys)[r]) x ≤ bd ∧ ∀ y ∈ ys, absDiff ((pre ++ ys)[r]) x ≤ absDiff y x := by
  induction ys generalizing pre bi bd with
  | nil =>
    obtain ⟨h, hd⟩ := hbd
    simp only [argminFrom, List.append_nil]
    exact ⟨h, by rw [hd]; exact Nat.le_refl _, by intro y hy; cases hy⟩
  | cons y rest ih =>
    simp only [argminFrom]
    have hlen : (pre ++ [y]).length = pre.length + 1 := by simp
    have happ : pre ++ y :: rest = (pre ++ [y]) ++ rest := by simp
    split
    · rename_i hlt
      have := ih (pre ++ [y]) pre.length (absDiff y x) (by simp) ⟨by simp, by simp⟩
      rw [hlen] at this
      obtain ⟨h, h1, h2⟩ := this
      refine ⟨by rw [happ]; exact h, ?_, ?_⟩
      · simp only [happ]; omega
      · intro z hz
        simp only [happ]
        rcases List.mem_cons.mp hz with rfl | hz
        · exact h1
        · exact h2 z hz
    · rename_i hge
      obtain ⟨hb, hd⟩ := hbd
      have := ih (pre ++ [y]) bi bd (by simp; omega) ⟨by simp; omega, by
        rw [List.getElem_append_left hb]; exact hd⟩
      rw [hlen] at this
      obtain ⟨h, h1, h2⟩ := this
      refine ⟨by rw [happ]; exact h, ?_, ?_⟩
      · simp only [happ]; exact h1
      · intro z hz
        simp only [happ]
        rcases List.mem_cons.mp hz with rfl | hz
        · omega
        · exact h2 z hz

/-- **nearest 'it' is exact**: if `x` is in the list, `np.argmin(|l - x|)` is a position of `x` -/
theorem nearest_exact_lemma (l : List Nat) (x : Nat) (h : x ∈ l) : l[nearestIdx l x]? = some x := by
  cases l with
  | nil => cases h
  | cons y ys =>
    simp only [nearestIdx]
    have := argminFrom_spec x [y] ys 0 (absDiff y x) (by simp) ⟨by simp, by simp⟩
    simp only [List.length_cons, List.length_nil, Nat.zero_add, List.singleton_append] at this
    obtain ⟨hr, h1, h2⟩ := this
    rw [List.getElem?_eq_getElem hr]
    congr 1
    apply (absDiff_zero _ _).mp
    rcases List.mem_cons.mp h with rfl | h
    · have := (absDiff_zero x x).mpr rfl
      omega
    · have := h2 x h
      have := (absDiff_zero x x).mpr rfl
      omega

/-! ### the invariant through one call -/

theorem foldlM_inv {σ γ : Type} (P : σ → Prop) (f : σ → γ → Option σ)
    (hf : ∀ s x s', P s → f s x = some s' → P s') :
    ∀ (l : List γ) (s s' : σ), P s → l.foldlM f s = some s' → P s' := by
  intro l
  induction l with
  | nil => intro s s' hs h; simp at h; exact h ▸ hs
  | cons x xs ih =>
    intro s s' hs h
    simp only [List.foldlM_cons] at h
    cases hx : f s x with
    | none => simp [hx] at h
    | some s1 =>
      simp only [hx] at h
      exact ih s1 s' (hf s x s1 hs hx) h

theorem fetch_get {β : Type} (src : DKey → β) (R rl : Nat) (tmpIts : List Nat) (n : DName) (idx i : Nat)
    (h : tmpIts[idx]? = some i) : (fetch src R rl tmpIts n)[idx]? = some (src ⟨R, i, n, rl⟩) := by
  simp [fetch, h]

/-- **save_data files the right iteration**: every dataset written under
iteration `iit` holds the entry of `data_temp` at the position of `iit` in
`data_temp['it']`, i.e. the source at `iit`. -/
theorem saveData_inv {β : Type} (src : DKey → β) (ofIt : Nat → β) (R rl : Nat) (tmpIts : List Nat) (av : DName)
    (hav : av ≠ DName.it) (itsSave : List Nat) (store store' : Store β) (hI : Inv src ofIt store)
    (h : saveData ofIt store R rl tmpIts (fetch src R rl tmpIts) av itsSave = some store') :
    Inv src ofIt store' := by
  unfold saveData at h
  refine foldlM_inv (Inv src ofIt) _ ?_ _ store store' hI h
  intro st iit st' hst hstep
  cases hidx : indexOf? iit tmpIts with
  | none => simp [hidx] at hstep
  | some idx =>
    have hget := indexOf?_get iit tmpIts idx hidx
    simp only [hidx, fetch_get src R rl tmpIts _ idx iit hget, hget] at hstep
    cases hstep
    apply inv_set
    · apply inv_set
      · apply inv_set _ _ _ _ _ hst
        cases av <;> simp_all [truth]
      · simp [truth]
    · simp [truth]

theorem stepComp_inv {β : Type} (src : DKey → β) (ofIt : Nat → β) (R rl : Nat) (its tmpIts : List Nat)
    (st st' : State β) (av : DName) (hav : av ≠ DName.it) (hI : Inv src ofIt st.store)
    (h : stepComp src ofIt R rl its tmpIts st av = some st') : Inv src ofIt st'.store := by
  unfold stepComp at h
  simp only at h
  generalize (if av = DName.t then (getMiss st.missing av).filter (fun i => !(its.contains i))
    else getMiss st.missing av) = miss' at h
  by_cases he : miss' = []
  · simp only [he, if_true] at h
    cases h; exact hI
  · simp only [he, if_false] at h
    cases hs : saveData ofIt st.store R rl tmpIts (fetch src R rl tmpIts) av miss' with
    | none => simp [hs] at h
    | some store' =>
      simp only [hs] at h
      cases h
      exact saveData_inv src ofIt R rl tmpIts av hav _ _ _ hI hs

theorem stepVar_inv {β : Type} (src : DKey → β) (ofIt : Nat → β) (R rl : Nat) (its : List Nat)
    (st st' : State β) (v : List Nat) (hI : Inv src ofIt st.store)
    (h : stepVar src ofIt R rl its st v = some st') : Inv src ofIt st'.store := by
  unfold stepVar at h
  simp only at h
  split at h
  · cases h; exact hI
  · rename_i hne
    -- every name processed is a variable or `t`
    have key : ∀ (names : List DName), (∀ n ∈ names, n ≠ DName.it) → ∀ (s s' : State β), Inv src ofIt s.store →
        names.foldlM (stepComp src ofIt R rl its (sortNat ((v.map DName.var).flatMap
          fun av => getMiss st.missing av).eraseDups)) s = some s' → Inv src ofIt s'.store := by
      intro names
      induction names with
      | nil => intro _ s s' hs h; simp at h; exact h ▸ hs
      | cons n ns ih =>
        intro hn s s' hs h
        simp only [List.foldlM_cons] at h
        cases hx : stepComp src ofIt R rl its (sortNat ((v.map DName.var).flatMap
          fun av => getMiss st.missing av).eraseDups) s n with
        | none => simp [hx] at h
        | some s1 =>
          simp only [hx] at h
          exact ih (fun m hm => hn m (List.mem_cons_of_mem _ hm)) s1 s'
            (stepComp_inv src ofIt R rl its _ s s1 n (hn n (List.mem_cons_self ..)) hs hx) h
    refine key _ ?_ st st' hI h
    intro n hn
    rcases List.mem_append.mp hn with hn | hn
    · obtain ⟨c, _, rfl⟩ := List.mem_map.mp hn; simp
    · simp at hn; subst hn; simp


theorem readRestart_inv {β : Type} (src : DKey → β) (ofIt : Nat → β) (grouped : Bool) (req : List (List Nat))
    (store : Store β) (R rl : Nat) (its : List Nat) (cols : Dict DName (List (Option β))) (store' : Store β)
    (hI : Inv src ofIt store) (h : readRestart src ofIt grouped req store R rl its = some (cols, store')) :
    Inv src ofIt store' := by
  unfold readRestart at h
  simp only at h
  split at h
  · cases h
  · rename_i st hst
    cases h
    exact foldlM_inv (fun s : State β => Inv src ofIt s.store) _
      (fun s v s' hs hstep => stepVar_inv src ofIt R rl its s s' v hs hstep) _ _ st hI hst

theorem readAll_inv {β : Type} (src : DKey → β) (ofIt : Nat → β) (grouped split : Bool) (req : List (List Nat))
    (rl : Nat) (todo : List (Nat × List Nat)) (store : Store β)
    (out : List (Nat × List Nat × Dict DName (List (Option β)))) (store' : Store β)
    (hI : Inv src ofIt store) (h : readAll src ofIt grouped split req rl todo store = some (out, store')) :
    Inv src ofIt store' := by
  induction todo generalizing store out store' with
  | nil => simp [readAll] at h; exact h.2 ▸ hI
  | cons rt rest ih =>
    obtain ⟨R, td⟩ := rt
    simp only [readAll] at h
    split at h
    · exact ih store out store' hI h
    · split at h
      · cases h
      · rename_i cols store1 hr
        split at h
        · cases h
        · rename_i out' store2 hrest
          cases h
          have h1 : Inv src ofIt store1 := by
            cases split with
            | true => simp only [if_true] at hr; exact readRestart_inv src ofIt grouped req store R rl td cols store1 hI hr
            | false => simp at hr; exact hr.2 ▸ hI
          exact ih store1 out' store' h1 hrest

/-- **T1 (one call)**: a call that returns leaves a cache whose every dataset
equals the source at the key it is filed under -/
theorem readData_inv {β : Type} (src : DKey → β) (ofIt : Nat → β) (avail : List Avail) (grouped : Bool)
    (req : List (List Nat)) (its : List Nat) (rl : Nat) (restart : Option Nat) (split : Bool)
    (store : Store β) (rows : List (Row β)) (store' : Store β) (hI : Inv src ofIt store)
    (h : readData src ofIt avail grouped req its rl restart split store = some (rows, store')) :
    Inv src ofIt store' := by
  unfold readData at h
  simp only at h
  split at h
  · cases h
  · cases h
  · rename_i datar store1 _ hr
    cases h
    exact readAll_inv src ofIt grouped split req rl _ store datar store' hI hr

/-- one `read_data` call of a history -/
structure Call where
  avail : List Avail
  grouped : Bool
  req : List (List Nat)
  its : List Nat
  rl : Nat
  restart : Option Nat
  split : Bool

/-- the cache after a call (a call that raises before returning is modelled as
leaving the cache as it was) -/
def afterCall {β : Type} (src : DKey → β) (ofIt : Nat → β) (store : Store β) (c : Call) : Store β :=
  match readData src ofIt c.avail c.grouped c.req c.its c.rl c.restart c.split store with
  | some (_, store') => store'
  | none => store

/-- the caches after each call of a history, starting from `store` -/
def cachesOf {β : Type} (src : DKey → β) (ofIt : Nat → β) : Store β → List Call → List (Store β)
  | _, [] => []
  | store, c :: cs => afterCall src ofIt store c :: cachesOf src ofIt (afterCall src ofIt store c) cs

theorem afterCall_inv {β : Type} (src : DKey → β) (ofIt : Nat → β) (store : Store β) (c : Call)
    (hI : Inv src ofIt store) : Inv src ofIt (afterCall src ofIt store c) := by
  unfold afterCall
  split
  · rename_i rows store' h
    exact readData_inv src ofIt _ _ _ _ _ _ _ store rows store' hI h
  · exact hI

/-- **T1 (histories)**: after every call of every finite history the invariant holds -/
theorem history_inv {β : Type} (src : DKey → β) (ofIt : Nat → β) (hist : List Call) (store : Store β)
    (hI : Inv src ofIt store) : ∀ s ∈ cachesOf src ofIt store hist, Inv src ofIt s := by
  induction hist generalizing store with
  | nil => intro s hs; cases hs
  | cons c cs ih =>
    intro s hs
    simp only [cachesOf] at hs
    rcases List.mem_cons.mp hs with rfl | hs
    · exact afterCall_inv src ofIt store c hI
    · exact ih _ (afterCall_inv src ofIt store c hI) s hs

theorem inv_empty {β : Type} (src : DKey → β) (ofIt : Nat → β) : Inv src ofIt ([] : Store β) := by
  intro kv h; cases h


end AurelVerif.ReadCacheLemmas
