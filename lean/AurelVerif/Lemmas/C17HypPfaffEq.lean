/-
Lemmas/C17HypPfaffEq.lean — Pfaff's transformation (DLMF 15.8.1) for the Szekeres module's parameters on
the part of the negative axis inside the unit disc: `gaussHypNeg (5/6) (3/2) (11/6) x`, which is defined
and real-analytic for all `x ≤ 0`, coincides with Mathlib's Gauss series `gaussHyp (5/6) (3/2) (11/6) x`
for `-1 < x ≤ 0`; hence it is the analytic continuation of the Gauss series to `x ≤ -1`.

Route: both `Szekeres_IP gaussHyp` and `Szekeres_IP gaussHypNeg` are antiderivatives of `Szekeres_PTI`
on `τ > 0`, `sinh² τ < 1` (C17HypDisc, C17HypPfaff), both are continuous at `τ = 0` and vanish there;
by the mean value theorem on `[0, τ]` they agree, and the common factor `(3/5) sinh^{5/3} τ` cancels.
-/
import AurelVerif.Lemmas.C17HypDisc
import AurelVerif.Lemmas.C17HypPfaff
import Mathlib.Analysis.Calculus.Deriv.MeanValue
import Mathlib.Analysis.SpecialFunctions.Arsinh
import Mathlib.Analysis.SpecialFunctions.Pow.Continuity

namespace AurelVerif.C17Hyp
open AurelVerif.SolutionsLemmas

/-- `integrated_part` for an arbitrary `hyp2f1`: the factor `sqrt(cosh²)/cosh` is `1`. -/
theorem Szekeres_IP_eq (h : ℝ → ℝ → ℝ → ℝ → ℝ) (τ : ℝ) :
    Szekeres_IP h τ
      = (3:ℝ) / 5 * (h (5/6) (3/2) (11/6) (-(Real.sinh τ ^ 2)) * Real.sinh τ ^ ((5:ℝ) / 3)) := by
  unfold Szekeres_IP
  have hc : 0 < Real.cosh τ := Real.cosh_pos τ
  rw [Real.sqrt_sq hc.le]
  field_simp

theorem continuousAt_sinh_rpow (τ : ℝ) :
    ContinuousAt (fun s : ℝ => Real.sinh s ^ ((5:ℝ) / 3)) τ :=
  (Real.continuousAt_rpow_const (Real.sinh τ) ((5:ℝ) / 3) (Or.inr (by norm_num))).comp
    Real.continuous_sinh.continuousAt

/-- `Szekeres_IP gaussHyp` is continuous at every `τ` with `sinh² τ < 1` (including `τ = 0`). -/
theorem Szekeres_IP_gaussHyp_continuousAt (τ : ℝ) (hdisc : Real.sinh τ ^ 2 < 1) :
    ContinuousAt (Szekeres_IP gaussHyp) τ := by
  rw [Szekeres_IP_gaussHyp_eq]
  have hx : |-(Real.sinh τ ^ 2)| < 1 := by
    rw [abs_neg, abs_of_nonneg (sq_nonneg _)]; exact hdisc
  have hin : ContinuousAt (fun s : ℝ => -(Real.sinh s ^ 2)) τ :=
    ((Real.continuous_sinh.pow 2).neg).continuousAt
  have hG : ContinuousAt (fun s : ℝ => gaussHyp (5/6) (3/2) (11/6) (-(Real.sinh s ^ 2))) τ :=
    ContinuousAt.comp (f := fun s : ℝ => -(Real.sinh s ^ 2)) (gaussHyp_continuousAt _ hx) hin
  exact continuousAt_const.mul (hG.mul (continuousAt_sinh_rpow τ))

/-- `Szekeres_IP gaussHypNeg` is continuous at every `τ` (including `τ = 0`). -/
theorem Szekeres_IP_gaussHypNeg_continuousAt (τ : ℝ) :
    ContinuousAt (Szekeres_IP gaussHypNeg) τ := by
  have hfun : Szekeres_IP gaussHypNeg = fun τ => (3:ℝ) / 5 * Real.sinh τ ^ ((5:ℝ) / 3) * (Real.cosh τ ^ 3)⁻¹
      * ordinaryHypergeometric (1:ℝ) ((3:ℝ) / 2) ((11:ℝ) / 6) (Real.sinh τ ^ 2 / Real.cosh τ ^ 2) :=
    funext IP_closed
  rw [hfun]
  have hC : 0 < Real.cosh τ := Real.cosh_pos τ
  have hcs : Real.cosh τ ^ 2 = 1 + Real.sinh τ ^ 2 := by rw [Real.cosh_sq]; ring
  have hwlt : |Real.sinh τ ^ 2 / Real.cosh τ ^ 2| < 1 := by
    rw [abs_of_nonneg (by positivity), div_lt_one (by positivity)]
    linarith
  obtain ⟨F', hF, _⟩ := hyp_ode hwlt
  have hw : ContinuousAt (fun s : ℝ => Real.sinh s ^ 2 / Real.cosh s ^ 2) τ :=
    ((Real.continuous_sinh.pow 2).continuousAt).div ((Real.continuous_cosh.pow 2).continuousAt)
      (pow_pos hC 2).ne'
  have hFw : ContinuousAt (fun s : ℝ => ordinaryHypergeometric (1:ℝ) ((3:ℝ) / 2) ((11:ℝ) / 6)
      (Real.sinh s ^ 2 / Real.cosh s ^ 2)) τ :=
    ContinuousAt.comp (f := fun s : ℝ => Real.sinh s ^ 2 / Real.cosh s ^ 2) hF.continuousAt hw
  have hc3 : ContinuousAt (fun s : ℝ => (Real.cosh s ^ 3)⁻¹) τ :=
    ((Real.continuous_cosh.pow 3).continuousAt).inv₀ (pow_pos hC 3).ne'
  exact ((continuousAt_const.mul (continuousAt_sinh_rpow τ)).mul hc3).mul hFw

theorem Szekeres_IP_zero (h : ℝ → ℝ → ℝ → ℝ → ℝ) : Szekeres_IP h 0 = 0 := by
  rw [Szekeres_IP_eq, Real.sinh_zero, Real.zero_rpow (by norm_num)]
  ring

/-- the two antiderivatives agree on `0 ≤ τ`, `sinh² τ < 1`. -/
theorem Szekeres_IP_gaussHyp_eq_gaussHypNeg_of_pos (τ : ℝ) (hτ : 0 < τ) (hdisc : Real.sinh τ ^ 2 < 1) :
    Szekeres_IP gaussHyp τ = Szekeres_IP gaussHypNeg τ := by
  have hdisc' : ∀ s ∈ Set.Icc (0:ℝ) τ, Real.sinh s ^ 2 < 1 := by
    intro s hs
    have h0 : 0 ≤ Real.sinh s := Real.sinh_nonneg_iff.2 hs.1
    have h1 : Real.sinh s ≤ Real.sinh τ := Real.sinh_le_sinh.2 hs.2
    exact lt_of_le_of_lt (pow_le_pow_left₀ h0 h1 2) hdisc
  have hcont : ContinuousOn (fun s => Szekeres_IP gaussHyp s - Szekeres_IP gaussHypNeg s)
      (Set.Icc 0 τ) := by
    intro s hs
    exact ((Szekeres_IP_gaussHyp_continuousAt s (hdisc' s hs)).sub
      (Szekeres_IP_gaussHypNeg_continuousAt s)).continuousWithinAt
  have hder : ∀ s ∈ Set.Ioo (0:ℝ) τ,
      HasDerivAt (fun s => Szekeres_IP gaussHyp s - Szekeres_IP gaussHypNeg s) ((fun _ => (0:ℝ)) s) s := by
    intro s hs
    have h1 := Szekeres_hIP_gaussHyp_disc s hs.1 (hdisc' s ⟨hs.1.le, hs.2.le⟩)
    have h2 := Szekeres_hIP_gaussHypNeg s hs.1
    exact (h1.fun_sub h2).congr_deriv (sub_self _)
  obtain ⟨c, _, hc⟩ := exists_hasDerivAt_eq_slope
    (fun s => Szekeres_IP gaussHyp s - Szekeres_IP gaussHypNeg s) (fun _ => (0:ℝ)) hτ hcont hder
  simp only [Szekeres_IP_zero, sub_zero] at hc
  have := (div_eq_zero_iff.1 hc.symm).resolve_right hτ.ne'
  linarith

/-- MAIN: Pfaff's transformation for the module's parameters on `-1 < x ≤ 0`. -/
theorem gaussHypNeg_eq_gaussHyp (x : ℝ) (h1 : -1 < x) (h0 : x ≤ 0) :
    gaussHypNeg (5/6) (3/2) (11/6) x = gaussHyp (5/6) (3/2) (11/6) x := by
  rcases h0.eq_or_lt with rfl | hx
  · rw [gaussHyp_zero, gaussHypNeg_zero]
  have hnx : 0 < -x := by linarith
  set u : ℝ := Real.sqrt (-x) with hu
  have hu0 : 0 < u := Real.sqrt_pos.2 hnx
  have hu2 : u ^ 2 = -x := Real.sq_sqrt hnx.le
  set τ : ℝ := Real.arsinh u with hτdef
  have hτ : 0 < τ := Real.arsinh_pos_iff.2 hu0
  have hs : Real.sinh τ = u := Real.sinh_arsinh u
  have hdisc : Real.sinh τ ^ 2 < 1 := by rw [hs, hu2]; linarith
  have key := Szekeres_IP_gaussHyp_eq_gaussHypNeg_of_pos τ hτ hdisc
  rw [Szekeres_IP_eq, Szekeres_IP_eq, hs, hu2, neg_neg] at key
  have hp : 0 < u ^ ((5:ℝ) / 3) := Real.rpow_pos_of_pos hu0 _
  have h35 : ((3:ℝ) / 5) ≠ 0 := by norm_num
  exact (mul_right_cancel₀ hp.ne' (mul_left_cancel₀ h35 key)).symm

/-- COROLLARY: inside the disc the two instantiations of `integrated_part` coincide (all `τ`, either sign). -/
theorem Szekeres_IP_gaussHypNeg_eq_gaussHyp (τ : ℝ) (hdisc : Real.sinh τ ^ 2 < 1) :
    Szekeres_IP gaussHypNeg τ = Szekeres_IP gaussHyp τ := by
  rw [Szekeres_IP_eq, Szekeres_IP_eq,
    gaussHypNeg_eq_gaussHyp (-(Real.sinh τ ^ 2)) (by linarith) (by nlinarith [sq_nonneg (Real.sinh τ)])]

open AurelVerif.Gen.Solutions in
/-- inside the disc of convergence every output of the module that involves `hyp2f1` is the same for Mathlib's Gauss
series and for its Pfaff continuation. -/
theorem Szekeres_series_agrees (t x y z : ℝ) (hdisc : Real.sinh (Szekeres.tauC * t) ^ 2 < 1) :
    (Szekeres.Z_terms_num_F gaussHyp t x y z = Szekeres.Z_terms_num_F gaussHypNeg t x y z ∧
      Szekeres.Z_terms_num_Z gaussHyp t x y z = Szekeres.Z_terms_num_Z gaussHypNeg t x y z ∧
      Szekeres.Z_terms_num_dtZ gaussHyp t x y z = Szekeres.Z_terms_num_dtZ gaussHypNeg t x y z) ∧
    Szekeres.gammadown3_num gaussHyp t x y z = Szekeres.gammadown3_num gaussHypNeg t x y z ∧
    Szekeres.Kdown3 gaussHyp t x y z = Szekeres.Kdown3 gaussHypNeg t x y z ∧
    Szekeres.rho gaussHyp t x y z = Szekeres.rho gaussHypNeg t x y z ∧
    Szekeres.gdown4_num gaussHyp t x y z = Szekeres.gdown4_num gaussHypNeg t x y z := by
  have h : gaussHyp (5/6) (3/2) (11/6) (-(Real.sinh (Szekeres.tauC * t) ^ 2))
      = gaussHypNeg (5/6) (3/2) (11/6) (-(Real.sinh (Szekeres.tauC * t) ^ 2)) :=
    (gaussHypNeg_eq_gaussHyp _ (by linarith) (by nlinarith [sq_nonneg (Real.sinh (Szekeres.tauC * t))])).symm
  have hF : Szekeres.Z_terms_num_F gaussHyp t x y z = Szekeres.Z_terms_num_F gaussHypNeg t x y z := by
    unfold Szekeres.Z_terms_num_F; rw [h]
  have hZ : Szekeres.Z_terms_num_Z gaussHyp t x y z = Szekeres.Z_terms_num_Z gaussHypNeg t x y z := by
    unfold Szekeres.Z_terms_num_Z; rw [h]
  have hd : Szekeres.Z_terms_num_dtZ gaussHyp t x y z = Szekeres.Z_terms_num_dtZ gaussHypNeg t x y z := by
    unfold Szekeres.Z_terms_num_dtZ; rw [h]
  have hg : Szekeres.gammadown3_num gaussHyp t x y z = Szekeres.gammadown3_num gaussHypNeg t x y z := by
    simp only [Szekeres.gammadown3_num, Szekeres.gammadown3_num_00, Szekeres.gammadown3_num_01, Szekeres.gammadown3_num_02,
      Szekeres.gammadown3_num_10, Szekeres.gammadown3_num_11, Szekeres.gammadown3_num_12, Szekeres.gammadown3_num_20,
      Szekeres.gammadown3_num_21, Szekeres.gammadown3_num_22, hZ]
  refine ⟨⟨hF, hZ, hd⟩, hg, ?_, ?_, ?_⟩
  · simp only [Szekeres.Kdown3, Szekeres.Kdown3_00, Szekeres.Kdown3_01, Szekeres.Kdown3_02, Szekeres.Kdown3_10,
      Szekeres.Kdown3_11, Szekeres.Kdown3_12, Szekeres.Kdown3_20, Szekeres.Kdown3_21, Szekeres.Kdown3_22, hZ, hd]
  · unfold Szekeres.rho; rw [hF, hZ]
  · simp only [Szekeres.gdown4_num, Szekeres.gdown4_num_00, Szekeres.gdown4_num_01, Szekeres.gdown4_num_02,
      Szekeres.gdown4_num_03, Szekeres.gdown4_num_10, Szekeres.gdown4_num_11, Szekeres.gdown4_num_12,
      Szekeres.gdown4_num_13, Szekeres.gdown4_num_20, Szekeres.gdown4_num_21, Szekeres.gdown4_num_22,
      Szekeres.gdown4_num_23, Szekeres.gdown4_num_30, Szekeres.gdown4_num_31, Szekeres.gdown4_num_32,
      Szekeres.gdown4_num_33, Szekeres.gammadown3_num_00, Szekeres.gammadown3_num_01, Szekeres.gammadown3_num_02,
      Szekeres.gammadown3_num_10, Szekeres.gammadown3_num_11, Szekeres.gammadown3_num_12, Szekeres.gammadown3_num_20,
      Szekeres.gammadown3_num_21, Szekeres.gammadown3_num_22, hZ]

end AurelVerif.C17Hyp
