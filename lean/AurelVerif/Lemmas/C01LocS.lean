/-
Lemmas/C01LocS.lean — property C01, extension round 7: locality of the return-site formulas on the way from the inputs
to the two class (c) bodies `st_Ricci_down4` (122) and `st_Ricci_down3` (123): `Ktrace`, `st_Riemann_uddd4` (key 119, whose
return site is generated since this round), the two alternatives of `st_Ricci_down4`, the two alternatives of
`st_Ricci_down3`.  Obtained from the block specifications of Props/C04.lean / Props/C08.lean (nothing is unfolded): two
environments that agree on the fields the specification mentions give the same value.
-/
import AurelVerif.Props.C04

set_option linter.unusedSimpArgs false
set_option linter.unusedVariables false

namespace AurelVerif.C01Loc
open AurelVerif.Gen.Core AurelVerif.Tensor AurelVerif.CoreTac AurelVerif.C04

variable {K : Type} [Field K]

theorem loc_Ktrace (e e' : Env K) (h1 : e.Kdown3 = e'.Kdown3) (h2 : e.gammaup3 = e'.gammaup3) :
    Ktrace e = Ktrace e' := by
  rw [C08.Ktrace_spec, C08.Ktrace_spec, h1, h2]

theorem loc_st_Riemann_uddd4 (e e' : Env K) (h1 : e.st_Riemann_down4 = e'.st_Riemann_down4)
    (h2 : e.gup4 = e'.gup4) : st_Riemann_uddd4 e = st_Riemann_uddd4 e' := by
  funext i b c d
  rw [st_Riemann_uddd4_spec, st_Riemann_uddd4_spec, h1, h2]

theorem loc_st_Ricci_down4_dflt (e e' : Env K) (h1 : e.st_Riemann_uddd4 = e'.st_Riemann_uddd4) :
    st_Ricci_down4__dflt e = st_Ricci_down4__dflt e' := by
  funext b d
  rw [st_Ricci_down4_dflt_spec, st_Ricci_down4_dflt_spec, h1]

theorem loc_st_Ricci_down4_Tdown4 (e e' : Env K) (h1 : e.gdown4 = e'.gdown4) (h2 : e.Tdown4 = e'.Tdown4)
    (h3 : e.Ttrace = e'.Ttrace) (hk : e.kappa = e'.kappa) (hL : e.Lambda = e'.Lambda) :
    st_Ricci_down4__Tdown4 e = st_Ricci_down4__Tdown4 e' := by
  funext a b
  rw [st_Ricci_down4_Tdown4_spec, st_Ricci_down4_Tdown4_spec, h1, h2, h3, hk, hL]

theorem loc_st_Ricci_down3_dflt (e e' : Env K) (h1 : e.gammadown3 = e'.gammadown3) (h2 : e.Tdown4 = e'.Tdown4)
    (h3 : e.gup4 = e'.gup4) (hk : e.kappa = e'.kappa) (hL : e.Lambda = e'.Lambda) :
    st_Ricci_down3__dflt e = st_Ricci_down3__dflt e' := by
  funext i j
  rw [st_Ricci_down3_dflt_spec, st_Ricci_down3_dflt_spec, h1, h2, h3, hk, hL]

theorem loc_st_Ricci_down3_cached (e e' : Env K) (h1 : e.st_Ricci_down4 = e'.st_Ricci_down4) :
    st_Ricci_down3__st_Ricci_down4 e = st_Ricci_down3__st_Ricci_down4 e' := by
  funext i j
  rw [st_Ricci_down3_cached_spec, st_Ricci_down3_cached_spec, h1]

end AurelVerif.C01Loc
