/-
Lemmas/C17HypPfaff.lean — the hypothesis `hIP` of the Szekeres theorems (C17) discharged for the actual
Gauss hypergeometric function: with `gaussHypNeg a b c x := (1 - x)^(-b) * ₂F₁ (c - a) b c (x / (x - 1))`
(Pfaff's transformation, DLMF 15.8.1, which is the analytic continuation of the Gauss series to all `x ≤ 0`,
i.e. what `scipy.special.hyp2f1` returns for the argument `-sinh(τ)²`), the module's `integrated_part`
is an antiderivative of its `part_to_integrate` on `τ > 0`.

Route: `₂F₁ 1 (3/2) (11/6) w = Σ f_n wⁿ`, `f_n = (3/2)_n / (11/6)_n`, `(n + 11/6) f_{n+1} = (n + 3/2) f_n`,
`0 < f_n ≤ 1`; term-wise differentiation (`powerSeries_hasDerivAt`) gives the first-order ODE
`w (1 - w) F' + (5/6 - 3/2 w) F = 5/6` on `|w| < 1`; with `w = tanh² τ` the chain rule and this ODE give
`d/dτ [(3/5) sinh^{5/3} τ / cosh³ τ · F(tanh² τ)] = sinh^{2/3} τ / cosh² τ`.
-/
import AurelVerif.Lemmas.Solutions
import AurelVerif.Lemmas.C17PowSeries
import Mathlib.Analysis.SpecialFunctions.OrdinaryHypergeometric

namespace AurelVerif.C17Hyp
open AurelVerif.SolutionsLemmas

/-- Gauss' hypergeometric function on `x ≤ 0` through Pfaff's transformation (DLMF 15.8.1): for
`-1 < x ≤ 0` this equals the Gauss series, for `x ≤ -1` it is its analytic continuation (what
`scipy.special.hyp2f1` returns). -/
noncomputable def gaussHypNeg (a b c x : ℝ) : ℝ :=
  (1 - x) ^ (-b) * ordinaryHypergeometric (c - a) b c (x / (x - 1))

/-- coefficients of `₂F₁(1, 3/2; 11/6; w)`. -/
noncomputable def fcoef (n : ℕ) : ℝ :=
  (ascPochhammer ℝ n).eval ((3:ℝ) / 2) / (ascPochhammer ℝ n).eval ((11:ℝ) / 6)

theorem fcoef_zero : fcoef 0 = 1 := by simp [fcoef]

theorem fcoef_pos (n : ℕ) : 0 < fcoef n :=
  div_pos (ascPochhammer_pos n _ (by norm_num)) (ascPochhammer_pos n _ (by norm_num))

theorem fcoef_succ (n : ℕ) : ((n:ℝ) + 11 / 6) * fcoef (n + 1) = ((n:ℝ) + 3 / 2) * fcoef n := by
  have h1 : 0 < (ascPochhammer ℝ n).eval ((11:ℝ) / 6) := ascPochhammer_pos n _ (by norm_num)
  have h2 : (0:ℝ) < (11:ℝ) / 6 + n := by positivity
  unfold fcoef
  rw [ascPochhammer_succ_eval, ascPochhammer_succ_eval]
  field_simp
  ring

theorem fcoef_le_one (n : ℕ) : fcoef n ≤ 1 := by
  induction n with
  | zero => simp [fcoef]
  | succ n ih =>
    have h := fcoef_succ n
    have hp := fcoef_pos n
    have hn : (0:ℝ) ≤ n := Nat.cast_nonneg n
    have h3 : ((n:ℝ) + 11 / 6) * fcoef (n + 1) ≤ ((n:ℝ) + 11 / 6) * 1 := by
      rw [h]; nlinarith
    exact le_of_mul_le_mul_left h3 (by positivity)

/-- Mathlib's `₂F₁ 1 (3/2) (11/6)` as the plain real power series `Σ f_n wⁿ` (uses `(1)_n = n!`). -/
theorem hyp_eq_tsum (w : ℝ) :
    ordinaryHypergeometric (1:ℝ) ((3:ℝ) / 2) ((11:ℝ) / 6) w = ∑' n, fcoef n * w ^ n := by
  rw [ordinaryHypergeometric_eq_tsum]
  refine tsum_congr fun n => ?_
  have hn : ((n.factorial : ℕ) : ℝ) ≠ 0 := by exact_mod_cast n.factorial_ne_zero
  rw [ascPochhammer_eval_one, smul_eq_mul, fcoef]
  field_simp

/-- (a) the first-order ODE of `F = ₂F₁ 1 (3/2) (11/6)` inside the unit disc:
`w (1 - w) F' + (5/6 - 3/2 w) F = 5/6`. -/
theorem hyp_ode {w : ℝ} (hw : |w| < 1) :
    ∃ F', HasDerivAt (ordinaryHypergeometric (1:ℝ) ((3:ℝ) / 2) ((11:ℝ) / 6)) F' w ∧
      w * (1 - w) * F' + (5 / 6 - 3 / 2 * w) * ordinaryHypergeometric (1:ℝ) ((3:ℝ) / 2) ((11:ℝ) / 6) w
        = 5 / 6 := by
  have hb : ∀ n, |fcoef n| ≤ 1 * ((n:ℝ) + 1) ^ 0 := by
    intro n; rw [abs_of_pos (fcoef_pos n)]; simpa using fcoef_le_one n
  obtain ⟨hS0, hS1, hD⟩ := powerSeries_hasDerivAt fcoef 1 0 hb hw
  have hfun : ordinaryHypergeometric (1:ℝ) ((3:ℝ) / 2) ((11:ℝ) / 6) = fun y => ∑' n, fcoef n * y ^ n :=
    funext hyp_eq_tsum
  rw [hfun]
  refine ⟨_, hD, ?_⟩
  set F : ℝ := ∑' n, fcoef n * w ^ n with hF
  set F' : ℝ := ∑' n : ℕ, ((n:ℝ) + 1) * fcoef (n + 1) * w ^ n with hF'
  have hsF : HasSum (fun n => fcoef n * w ^ n) F := hS0.hasSum
  have hsF' : HasSum (fun n : ℕ => ((n:ℝ) + 1) * fcoef (n + 1) * w ^ n) F' := hS1.hasSum
  -- shifted series
  have h1 : HasSum (fun n : ℕ => fcoef (n + 1) * w ^ (n + 1)) (F - 1) := by
    have := (hasSum_nat_add_iff' (f := fun n => fcoef n * w ^ n) 1).2 hsF
    simpa [fcoef_zero] using this
  have h2 : HasSum (fun n : ℕ => (n:ℝ) * fcoef n * w ^ (n + 1)) (w ^ 2 * F') := by
    rw [← hasSum_nat_add_iff' 1]
    simp only [Finset.range_one, Finset.sum_singleton, Nat.cast_zero, zero_mul, sub_zero]
    have e : (fun n : ℕ => ((n + 1 : ℕ):ℝ) * fcoef (n + 1) * w ^ (n + 1 + 1))
        = fun n : ℕ => w ^ 2 * (((n:ℝ) + 1) * fcoef (n + 1) * w ^ n) := by
      funext n; push_cast; ring
    rw [e]
    exact hsF'.mul_left (w ^ 2)
  have h3 : HasSum (fun n : ℕ => ((n:ℝ) + 1) * fcoef (n + 1) * w ^ (n + 1)) (w * F') := by
    have e : (fun n : ℕ => ((n:ℝ) + 1) * fcoef (n + 1) * w ^ (n + 1))
        = fun n : ℕ => w * (((n:ℝ) + 1) * fcoef (n + 1) * w ^ n) := by
      funext n; ring
    rw [e]
    exact hsF'.mul_left w
  have h4 : HasSum (fun n : ℕ => fcoef n * w ^ (n + 1)) (w * F) := by
    have e : (fun n : ℕ => fcoef n * w ^ (n + 1)) = fun n : ℕ => w * (fcoef n * w ^ n) := by
      funext n; ring
    rw [e]
    exact hsF.mul_left w
  have hall := ((h3.sub h2).add (h1.mul_left (5 / 6))).sub (h4.mul_left (3 / 2))
  have hzero : HasSum (fun _ : ℕ => (0:ℝ)) (w * F' - w ^ 2 * F' + 5 / 6 * (F - 1) - 3 / 2 * (w * F)) := by
    have e : (fun _ : ℕ => (0:ℝ)) = fun n : ℕ => ((n:ℝ) + 1) * fcoef (n + 1) * w ^ (n + 1)
        - (n:ℝ) * fcoef n * w ^ (n + 1) + 5 / 6 * (fcoef (n + 1) * w ^ (n + 1))
        - 3 / 2 * (fcoef n * w ^ (n + 1)) := by
      funext n
      have := fcoef_succ n
      linear_combination (-(w ^ (n + 1))) * this
    rw [e]
    exact hall
  have := hzero.unique hasSum_zero
  linear_combination this

/-- closed form of `integrated_part` with `hyp2f1 := gaussHypNeg`, valid for every `τ`
(`c - a = 11/6 - 5/6 = 1`, `1 - x = cosh² τ`, `x / (x - 1) = sinh² τ / cosh² τ`). -/
theorem IP_closed (τ : ℝ) :
    Szekeres_IP gaussHypNeg τ = (3:ℝ) / 5 * Real.sinh τ ^ ((5:ℝ) / 3) * (Real.cosh τ ^ 3)⁻¹
      * ordinaryHypergeometric (1:ℝ) ((3:ℝ) / 2) ((11:ℝ) / 6) (Real.sinh τ ^ 2 / Real.cosh τ ^ 2) := by
  have hC : 0 < Real.cosh τ := Real.cosh_pos τ
  have e1 : 1 - -(Real.sinh τ ^ 2) = Real.cosh τ ^ 2 := by rw [Real.cosh_sq]; ring
  have e2 : -(Real.sinh τ ^ 2) - 1 = -(Real.cosh τ ^ 2) := by rw [Real.cosh_sq]; ring
  have e3 : (Real.cosh τ ^ 2) ^ (-((3:ℝ) / 2)) = (Real.cosh τ ^ 3)⁻¹ := by
    rw [Real.rpow_neg (sq_nonneg _), ← Real.rpow_natCast (Real.cosh τ) 2, ← Real.rpow_mul hC.le,
      ← Real.rpow_natCast (Real.cosh τ) 3]
    norm_num
  have e4 : ((11:ℝ) / 6 - 5 / 6) = 1 := by norm_num
  unfold Szekeres_IP gaussHypNeg
  rw [Real.sqrt_sq hC.le, e1, e2, e3, e4, neg_div_neg_eq]
  field_simp

/-- the algebra behind (b): product/chain rule output collapses to `p / c²` through the ODE. -/
theorem ip_algebra (p s c F F' : ℝ) (hc : 0 < c) (hcs : c ^ 2 = 1 + s ^ 2)
    (ode : s ^ 2 / c ^ 2 * (1 - s ^ 2 / c ^ 2) * F' + (5 / 6 - 3 / 2 * (s ^ 2 / c ^ 2)) * F = 5 / 6) :
    (((3:ℝ) / 5 * (c * (5 / 3) * p)) * (c ^ 3)⁻¹ + (3:ℝ) / 5 * (p * s) * (-(3 * c ^ 2 * s) / (c ^ 3) ^ 2)) * F
      + (3:ℝ) / 5 * (p * s) * (c ^ 3)⁻¹ * (F' * (2 * s / c ^ 3)) = p / c ^ 2 := by
  have hw1 : 1 - s ^ 2 / c ^ 2 = 1 / c ^ 2 := by
    field_simp; linarith
  rw [hw1] at ode
  have ode' : s ^ 2 * F' = 5 / 6 * c ^ 4 - (5 / 6 * c ^ 4 - 3 / 2 * s ^ 2 * c ^ 2) * F := by
    field_simp at ode
    linear_combination (1 / 12) * ode
  field_simp
  linear_combination (6 * p) * ode'

/-- (b) the hypothesis `hIP` of `Szekeres_dtZ` / `einstein_Szekeres_partial` holds for the Gauss hypergeometric
function (continued to `x ≤ 0` by Pfaff's transformation): `integrated_part' = part_to_integrate` on `τ > 0`. -/
theorem Szekeres_hIP_gaussHypNeg (τ : ℝ) (hτ : 0 < τ) :
    HasDerivAt (Szekeres_IP gaussHypNeg) (Szekeres_PTI τ) τ := by
  have hS : 0 < Real.sinh τ := Real.sinh_pos_iff.mpr hτ
  have hC : 0 < Real.cosh τ := Real.cosh_pos τ
  have hcs : Real.cosh τ ^ 2 = 1 + Real.sinh τ ^ 2 := by rw [Real.cosh_sq]; ring
  have hfun : Szekeres_IP gaussHypNeg = fun τ => (3:ℝ) / 5 * Real.sinh τ ^ ((5:ℝ) / 3) * (Real.cosh τ ^ 3)⁻¹
      * ordinaryHypergeometric (1:ℝ) ((3:ℝ) / 2) ((11:ℝ) / 6) (Real.sinh τ ^ 2 / Real.cosh τ ^ 2) :=
    funext IP_closed
  rw [hfun]
  have hwlt : |Real.sinh τ ^ 2 / Real.cosh τ ^ 2| < 1 := by
    rw [abs_of_nonneg (by positivity), div_lt_one (by positivity)]
    linarith
  obtain ⟨F', hF, ode⟩ := hyp_ode hwlt
  have hs := Real.hasDerivAt_sinh τ
  have hc := Real.hasDerivAt_cosh τ
  have hsp : HasDerivAt (fun τ => Real.sinh τ ^ ((5:ℝ) / 3))
      (Real.cosh τ * (5 / 3) * Real.sinh τ ^ ((2:ℝ) / 3)) τ := by
    have := hs.rpow_const (p := (5:ℝ) / 3) (Or.inl hS.ne')
    convert this using 3
    norm_num
  have hc3p : HasDerivAt (fun τ => Real.cosh τ ^ 3) (3 * Real.cosh τ ^ 2 * Real.sinh τ) τ := by
    simpa using hc.fun_pow 3
  have hc3 : HasDerivAt (fun τ => (Real.cosh τ ^ 3)⁻¹)
      (-(3 * Real.cosh τ ^ 2 * Real.sinh τ) / (Real.cosh τ ^ 3) ^ 2) τ :=
    hc3p.inv (pow_pos hC 3).ne'
  have hs2 : HasDerivAt (fun τ => Real.sinh τ ^ 2) (2 * Real.sinh τ * Real.cosh τ) τ := by
    simpa using hs.fun_pow 2
  have hc2 : HasDerivAt (fun τ => Real.cosh τ ^ 2) (2 * Real.cosh τ * Real.sinh τ) τ := by
    simpa using hc.fun_pow 2
  have hw : HasDerivAt (fun τ => Real.sinh τ ^ 2 / Real.cosh τ ^ 2)
      (2 * Real.sinh τ / Real.cosh τ ^ 3) τ := by
    refine (hs2.div hc2 (pow_pos hC 2).ne').congr_deriv ?_
    rw [div_eq_div_iff (by positivity) (by positivity)]
    linear_combination (2 * Real.sinh τ * Real.cosh τ ^ 4) * hcs
  have hFw : HasDerivAt (fun τ => ordinaryHypergeometric (1:ℝ) ((3:ℝ) / 2) ((11:ℝ) / 6)
      (Real.sinh τ ^ 2 / Real.cosh τ ^ 2)) (F' * (2 * Real.sinh τ / Real.cosh τ ^ 3)) τ :=
    hF.comp τ hw
  have htot : HasDerivAt (fun τ => (3:ℝ) / 5 * Real.sinh τ ^ ((5:ℝ) / 3) * (Real.cosh τ ^ 3)⁻¹
      * ordinaryHypergeometric (1:ℝ) ((3:ℝ) / 2) ((11:ℝ) / 6) (Real.sinh τ ^ 2 / Real.cosh τ ^ 2))
      ((((3:ℝ) / 5 * (Real.cosh τ * (5 / 3) * Real.sinh τ ^ ((2:ℝ) / 3))) * (Real.cosh τ ^ 3)⁻¹
        + (3:ℝ) / 5 * Real.sinh τ ^ ((5:ℝ) / 3)
          * (-(3 * Real.cosh τ ^ 2 * Real.sinh τ) / (Real.cosh τ ^ 3) ^ 2))
        * ordinaryHypergeometric (1:ℝ) ((3:ℝ) / 2) ((11:ℝ) / 6) (Real.sinh τ ^ 2 / Real.cosh τ ^ 2)
        + (3:ℝ) / 5 * Real.sinh τ ^ ((5:ℝ) / 3) * (Real.cosh τ ^ 3)⁻¹
          * (F' * (2 * Real.sinh τ / Real.cosh τ ^ 3))) τ :=
    ((hsp.const_mul ((3:ℝ) / 5)).mul hc3).mul hFw
  have hsplit : Real.sinh τ ^ ((5:ℝ) / 3) = Real.sinh τ ^ ((2:ℝ) / 3) * Real.sinh τ := by
    have e : ((5:ℝ) / 3) = (2:ℝ) / 3 + 1 := by norm_num
    rw [e, Real.rpow_add hS, Real.rpow_one]
  have key := ip_algebra (Real.sinh τ ^ ((2:ℝ) / 3)) (Real.sinh τ) (Real.cosh τ) _ F' hC hcs ode
  refine htot.congr_deriv ?_
  rw [hsplit]
  unfold Szekeres_PTI
  exact key

theorem gaussHypNeg_zero (a b c : ℝ) : gaussHypNeg a b c 0 = 1 := by
  simp [gaussHypNeg]

end AurelVerif.C17Hyp
