/-
Lemmas/C17PertInst.lean — ICPertFLRW, continued (Lemmas/C17PertFLRW.lean has the first-order constraints for a
general background):
  * the backgrounds EdS and LCDM satisfy the hypotheses of `pert_hamiltonian` / `pert_momentum` for all `t > 0`;
  * the rate of change of the perturbed metric for a general background: `∂_t γ_ij = −2 K_ij + 2 (g − D') ∂_i∂_j Rc`
    with `g = (2 + f)/(F H)` the coefficient the module puts in `Kdown3` and `D'` the time derivative of `1/(F H²)`;
    so `K_ij = −½ ∂_t γ_ij` holds iff `d/dt [1/(F H²)] = (2 + f)/(F H)`, the relation between the growth factors that
    the module relies on (`1/(F H²) ∝ a² D` with `D` the linear growth factor, `f = d ln D / d ln a`);  EdS satisfies it
    exactly (`F = 5/2`, `f = 1`, `H = 2/(3t)`); for LCDM the module uses the approximation `f ≈ Ω_m^{6/11}`;
  * the spatial derivatives of the module's `γ_ij`, `K_ij` along a coordinate line on which the jet of `Rc` varies
    differentiably are the module's formulas on the shifted jet minus the background (what `pertJet.dg`, `.ddg`, `.dK` hold);
  * for `A = ℝ` the Hamiltonian constraint of Spec/Constraints3.lean is that of Spec/ADM.lean.
-/
import AurelVerif.Lemmas.C17PertFLRW
import AurelVerif.Lemmas.C17EinFLRW

set_option linter.unusedTactic false
set_option linter.unreachableTactic false
set_option linter.unusedSimpArgs false
set_option linter.unusedVariables false
set_option linter.unnecessarySeqFocus false

namespace AurelVerif.C17Pert
open AurelVerif.Gen.Solutions AurelVerif.Spec.Constraints3 AurelVerif.SolutionsLemmas AurelVerif.C17Ein TrivSqZeroExt

/-- the second derivatives of `Rc` as a table: `d2 R i j = ∂_i ∂_j Rc`. -/
def d2 (R : RcJet) : Fin 3 → Fin 3 → ℝ :=
  ![![R 2 0 0, R 1 1 0, R 1 0 1], ![R 1 1 0, R 0 2 0, R 0 1 1], ![R 1 0 1, R 0 1 1, R 0 0 2]]

/-! ### for `A = ℝ` this is the Hamiltonian constraint of Spec/ADM.lean -/

theorem hamiltonian_eq_ADM (J : Jet3 ℝ) (κ ρ Λ : ℝ) :
    J.hamiltonian κ ρ Λ = AurelVerif.Spec.ADM.hamiltonian J.RicS J.Ktr J.K J.Kup κ ρ Λ := rfl

/-! ### EdS and LCDM satisfy the background hypotheses -/

theorem EdS_H_ne (t : ℝ) (ht : 0 < t) : EdS.Hprop t ≠ 0 := by
  have h0 := EdS_H0_pos
  have htt := EdS_ttoday_pos
  unfold EdS.Hprop; positivity

theorem EdS_F_ne (t : ℝ) : EdS.fL t + 3 / 2 * EdS.Omega_m t ≠ 0 := by
  rw [EdS_F t]; norm_num

theorem EdS_kappa_rho (t : ℝ) : EdS.kappa * EdS.rho t = 3 * EdS.Omega_m t * EdS.Hprop t ^ 2 := by
  have hk := EdS_kappa_pos.ne'
  unfold EdS.rho
  field_simp

theorem LCDM_Omega_m_pos (t : ℝ) (ht : 0 < t) : 0 < LCDM.Omega_m t := by
  have h1 := LCDM_Om_pos
  have h2 := LCDM_Ol_pos
  have h3 := LCDM_an_pos t ht
  unfold LCDM.Omega_m
  positivity

theorem LCDM_F_ne (t : ℝ) (ht : 0 < t) : LCDM.fL t + 3 / 2 * LCDM.Omega_m t ≠ 0 := by
  have h := LCDM_Omega_m_pos t ht
  have h2 : 0 < LCDM.fL t := by unfold LCDM.fL; exact Real.rpow_pos_of_pos h _
  positivity

theorem LCDM_kappa_rho (t : ℝ) : LCDM.kappa * LCDM.rho t = 3 * LCDM.Omega_m t * LCDM.Hprop t ^ 2 := by
  have hk := LCDM_kappa_pos.ne'
  unfold LCDM.rho
  field_simp

/-! ### rate of change of the perturbed metric for a general background -/

variable (H Om a f : ℝ → ℝ)

/-- `∂_t γ_ij = −2 K_ij + 2 ((2 + f)/(F H) − D') ∂_i∂_j Rc`, given `ȧ = a H` and `d/dt [1/(F H²)] = D'`. -/
theorem pert_metric_rate (t : ℝ) (R : RcJet) (D' : ℝ) (ha : HasDerivAt a (a t * H t) t)
    (hD : HasDerivAt (fun s => 1 / ((f s + 3 / 2 * Om s) * H s ^ 2)) D' t) (i j : Fin 3) :
    HasDerivAt (fun s => gam H Om a f s R i j)
      (-2 * (1:ℝ) * Kd H Om a f t R i j
        + 2 * ((2 + f t) * (1 / ((f t + 3 / 2 * Om t) * H t)) - D') * d2 R i j) t := by
  have hm : HasDerivAt (fun s => -2 / ((f s + 3 / 2 * Om s) * H s ^ 2)) (-2 * D') t := by
    have h := hD.const_mul (-2 : ℝ)
    have e : (fun s => -2 / ((f s + 3 / 2 * Om s) * H s ^ 2))
        = fun s => -2 * (1 / ((f s + 3 / 2 * Om s) * H s ^ 2)) := by funext s; ring
    rw [e]; exact h
  have hoff : ∀ d : ℝ, HasDerivAt (fun s => -2 / ((f s + 3 / 2 * Om s) * H s ^ 2) * d)
      (-2 * (1:ℝ) * ((2 + f t) * d * (1 / ((f t + 3 / 2 * Om t) * H t)))
        + 2 * ((2 + f t) * (1 / ((f t + 3 / 2 * Om t) * H t)) - D') * d) t := fun d =>
    (hm.mul_const d).congr_deriv (by ring)
  have hdiag : ∀ d : ℝ, HasDerivAt
      (fun s => a s ^ 2 * (1 - 2 * R 0 0 0) + -2 / ((f s + 3 / 2 * Om s) * H s ^ 2) * d)
      (-2 * (1:ℝ) * (-(a t ^ 2) * H t * (1 - 2 * R 0 0 0) + (2 + f t) * d * (1 / ((f t + 3 / 2 * Om t) * H t)))
        + 2 * ((2 + f t) * (1 / ((f t + 3 / 2 * Om t) * H t)) - D') * d) t := fun d =>
    (((ha.pow 2).mul_const (1 - 2 * R 0 0 0)).add (hm.mul_const d)).congr_deriv (by simp; ring)
  simp only [gam_apply, Kd_apply, d2]
  fin_cases i <;> fin_cases j
  · exact hdiag _
  · exact hoff _
  · exact hoff _
  · exact hoff _
  · exact hdiag _
  · exact hoff _
  · exact hoff _
  · exact hoff _
  · exact hdiag _

/-- if the background satisfies the growth relation `d/dt [1/(F H²)] = (2 + f)/(F H)` then `K_ij = −½ ∂_t γ_ij`
exactly (lapse 1, zero shift), whatever the jet of `Rc`. -/
theorem pert_K_is_metric_rate_of_growth (t : ℝ) (R : RcJet) (ha : HasDerivAt a (a t * H t) t)
    (hD : HasDerivAt (fun s => 1 / ((f s + 3 / 2 * Om s) * H s ^ 2))
      ((2 + f t) * (1 / ((f t + 3 / 2 * Om t) * H t))) t) (i j : Fin 3) :
    HasDerivAt (fun s => gam H Om a f s R i j) (-2 * (1:ℝ) * Kd H Om a f t R i j) t :=
  (pert_metric_rate H Om a f t R _ ha hD i j).congr_deriv (by ring)

/-- EdS satisfies the growth relation exactly. -/
theorem EdS_growth_relation (t : ℝ) (ht : 0 < t) :
    HasDerivAt (fun s => 1 / ((EdS.fL s + 3 / 2 * EdS.Omega_m s) * EdS.Hprop s ^ 2))
      ((2 + EdS.fL t) * (1 / ((EdS.fL t + 3 / 2 * EdS.Omega_m t) * EdS.Hprop t))) t := by
  have hH := EdS_H_deriv t ht
  have hHne := EdS_H_ne t ht
  have e : (fun s => 1 / ((EdS.fL s + 3 / 2 * EdS.Omega_m s) * EdS.Hprop s ^ 2))
      = fun s => 1 / ((5 / 2 : ℝ) * EdS.Hprop s ^ 2) := by
    funext s; rw [EdS_F s]
  rw [e, EdS_F t]
  have hden : HasDerivAt (fun s => (5 / 2 : ℝ) * EdS.Hprop s ^ 2)
      ((5 / 2 : ℝ) * (2 * EdS.Hprop t * (-(3:ℝ) / 2 * EdS.Hprop t ^ 2))) t := by
    refine ((hH.pow 2).const_mul (5 / 2 : ℝ)).congr_deriv ?_
    simp
  refine ((hasDerivAt_const t (1:ℝ)).div hden (by positivity)).congr_deriv ?_
  have : EdS.fL t = 1 := by unfold EdS.fL EdS.Omega_m EdS.Omega_m_EdS; rw [Real.one_rpow]
  rw [this]
  field_simp
  ring

/-! ### the spatial derivatives of the module's formulas are the formulas on the shifted jet -/

/-- along a coordinate line `s ↦ x_k = s` on which every jet symbol of `Rc` is differentiable with derivative the
next jet symbol (`∂_k (∂^n Rc) = ∂^{n+e_k} Rc`), `∂_k γ_ij = γ_ij[shifted jet] − γ⁰_ij`. -/
theorem gam_hasDerivAt (t : ℝ) (k : Fin 3) (Rs : ℝ → RcJet) (s0 : ℝ)
    (hR : ∀ n1 n2 n3, HasDerivAt (fun s => Rs s n1 n2 n3) (shift k (Rs s0) n1 n2 n3) s0) (i j : Fin 3) :
    HasDerivAt (fun s => gam H Om a f t (Rs s) i j)
      (gam H Om a f t (shift k (Rs s0)) i j - gam H Om a f t R0 i j) s0 := by
  have hoff : ∀ (m : ℝ) (n1 n2 n3 : ℕ), HasDerivAt (fun s => m * Rs s n1 n2 n3)
      (m * shift k (Rs s0) n1 n2 n3 - m * 0) s0 := fun m n1 n2 n3 =>
    ((hR n1 n2 n3).const_mul m).congr_deriv (by ring)
  have hdiag : ∀ (c m : ℝ) (n1 n2 n3 : ℕ), HasDerivAt (fun s => c * (1 - 2 * Rs s 0 0 0) + m * Rs s n1 n2 n3)
      (c * (1 - 2 * shift k (Rs s0) 0 0 0) + m * shift k (Rs s0) n1 n2 n3 - (c * (1 - 2 * 0) + m * 0)) s0 :=
    fun c m n1 n2 n3 =>
      (((((hR 0 0 0).const_mul 2).const_sub 1).const_mul c).add ((hR n1 n2 n3).const_mul m)).congr_deriv (by ring)
  simp only [gam_apply, R0]
  fin_cases i <;> fin_cases j
  · exact hdiag _ _ _ _ _
  · exact hoff _ _ _ _
  · exact hoff _ _ _ _
  · exact hoff _ _ _ _
  · exact hdiag _ _ _ _ _
  · exact hoff _ _ _ _
  · exact hoff _ _ _ _
  · exact hoff _ _ _ _
  · exact hdiag _ _ _ _ _

/-- the same for `K_ij`. -/
theorem Kd_hasDerivAt (t : ℝ) (k : Fin 3) (Rs : ℝ → RcJet) (s0 : ℝ)
    (hR : ∀ n1 n2 n3, HasDerivAt (fun s => Rs s n1 n2 n3) (shift k (Rs s0) n1 n2 n3) s0) (i j : Fin 3) :
    HasDerivAt (fun s => Kd H Om a f t (Rs s) i j)
      (Kd H Om a f t (shift k (Rs s0)) i j - Kd H Om a f t R0 i j) s0 := by
  have hoff : ∀ (m q : ℝ) (n1 n2 n3 : ℕ), HasDerivAt (fun s => m * Rs s n1 n2 n3 * q)
      (m * shift k (Rs s0) n1 n2 n3 * q - m * 0 * q) s0 := fun m q n1 n2 n3 =>
    (((hR n1 n2 n3).const_mul m).mul_const q).congr_deriv (by ring)
  have hdiag : ∀ (c m q : ℝ) (n1 n2 n3 : ℕ), HasDerivAt
      (fun s => c * (1 - 2 * Rs s 0 0 0) + m * Rs s n1 n2 n3 * q)
      (c * (1 - 2 * shift k (Rs s0) 0 0 0) + m * shift k (Rs s0) n1 n2 n3 * q - (c * (1 - 2 * 0) + m * 0 * q)) s0 :=
    fun c m q n1 n2 n3 =>
      (((((hR 0 0 0).const_mul 2).const_sub 1).const_mul c).add
        (((hR n1 n2 n3).const_mul m).mul_const q)).congr_deriv (by ring)
  simp only [Kd_apply, R0]
  fin_cases i <;> fin_cases j
  · exact hdiag _ _ _ _ _ _
  · exact hoff _ _ _ _ _
  · exact hoff _ _ _ _ _
  · exact hoff _ _ _ _ _
  · exact hdiag _ _ _ _ _ _
  · exact hoff _ _ _ _ _
  · exact hoff _ _ _ _ _
  · exact hoff _ _ _ _ _
  · exact hdiag _ _ _ _ _ _

end AurelVerif.C17Pert
