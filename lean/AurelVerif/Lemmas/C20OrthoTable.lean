/-
Lemmas/C20OrthoTable.lean — `tableOK 12`: the integer orthonormality table for
all spins −2..2, degrees 0 ≤ l, l' ≤ 12 and orders |m| ≤ 12, assembled from the
five per-spin kernel computations.
-/
import AurelVerif.Lemmas.C20OrthoTableM2
import AurelVerif.Lemmas.C20OrthoTableM1
import AurelVerif.Lemmas.C20OrthoTableZ0
import AurelVerif.Lemmas.C20OrthoTableP1
import AurelVerif.Lemmas.C20OrthoTableP2

namespace AurelVerif.HarmGram
open AurelVerif.Harm

/-- the largest degree covered by the kernel-decided table -/
def tableL : Nat := 12

theorem tableOK_12 : tableOK tableL = true := by
  have e : pyRange (-2) 3 = [-2, -1, 0, 1, 2] := by decide +kernel
  unfold tableOK tableL
  rw [e]
  simp only [List.all_cons, List.all_nil, Bool.and_true, Bool.and_eq_true]
  exact ⟨spinOK_12_M2, spinOK_12_M1, spinOK_12_Z0, spinOK_12_P1, spinOK_12_P2⟩

end AurelVerif.HarmGram
