/-
Lemmas/C06RicciEq.lean — Layer B (consistency): the RICCI EQUATION as an off-shell identity, and the ADM evolution
equation of `K_ij` as its on-shell consequence (property C06, extension).

For the textbook Riemann tensor (`riemannDown`, [LL] (92.1)) of the 4-metric assembled from (α, β, γ) on 2-jets
(`JetC`), with `∂_tγ_ij` the kinematic relation, `∂_i∂_tγ_jk` its Leibniz x-derivative and `∂_t∂_tγ_ij` its Leibniz t-derivative
for `∂_tK_ij = dtK i j` (`hT`):

  `ricci_gup3p1`, `ricci_identity`    (OFF SHELL)
      `R_itjt = β^kR_jkit + β^kR_ikjt − β^kβ^lR_ikjl + α(∂_tK_ij − L_βK_ij) + αD_iD_jα + α²K_ikK^k_j`
      with `R_ijkl`, `R_ijkt` the Gauss and Codazzi expressions (`gaussB`, `codazziB`);
  `adm_iff`        `∂_tK_ij = −D_iD_jα + α(³R_ij − 2K_ikK^k_j + K K_ij − r) + L_βK_ij`  ⟺  `r = g^{ac}R_aicj`   (α ≠ 0);
  `adm_of_ricci`   the ADM evolution equation in geometric form when `Ric4` is the spatial block of the 4-Ricci tensor.
Derivation: second-derivative part (`ricci_second`, `shift_part`) + the two quadratic parts through
`g^{ef}X_eY_f = γ^{mn}X_mY_n − (X_0 − β^mX_m)(Y_0 − β^nY_n)/α²` and the first-kind Christoffel symbols
`Γ_{p|tt}`, `Γ_{0|tt} − β^mΓ_{m|tt} = −α(∂_tα + β^m∂_mα − β^mβ^nK_mn)`, `Γ_{n|it} = −αK_ni + γ_nm D_iβ^m`.
Nothing here mentions generated code.
-/
import AurelVerif.Lemmas.C06RicciShift

set_option linter.unusedSimpArgs false
set_option linter.unusedVariables false
set_option linter.unusedTactic false
set_option linter.unreachableTactic false

namespace AurelVerif.Spec.Curvature.Jet
open AurelVerif.Tensor AurelVerif.CoreTac AurelVerif.C04L

variable {K : Type} [Field K] (J : Jet K)

local notation "Γ₁" => christoffel1 J.dg4

/-- `γ^{mn} X_m (γ_np B^p) = B^p X_p`. -/
theorem gamup_contract_low' (h : J.LeviCivita) (B X : Fin 3 → K) :
    ∑ m, ∑ n, J.gamup m n * (X m * ∑ p, J.gam n p * B p) = ∑ p, B p * X p := by
  rw [← gamup_contract_low J h B X, Finset.sum_comm]
  refine Finset.sum_congr rfl fun m _ => Finset.sum_congr rfl fun n _ => ?_
  rw [gamup_symm J h n m]; ring

/-- `γ^{mn}(X_m + γ_mp B^p)(X'_n + γ_nq C^q) = γ^{mn}X_mX'_n + C^pX_p + B^p(X'_p + γ_pq C^q)`. -/
theorem quad_split (h : J.LeviCivita) (X X' B C : Fin 3 → K) :
    ∑ m, ∑ n, J.gamup m n * ((X m + ∑ p, J.gam m p * B p) * (X' n + ∑ q, J.gam n q * C q))
      = ∑ m, ∑ n, J.gamup m n * (X m * X' n) + ∑ p, C p * X p + ∑ p, B p * (X' p + ∑ q, J.gam p q * C q) := by
  have e1 := gamup_contract_low J h B (fun n => X' n + ∑ q, J.gam n q * C q)
  have e2 := gamup_contract_low' J h C X
  simp only [Fin.sum_univ_three] at e1 e2 ⊢
  linear_combination e1 + e2

/-- `Γ_{p|tt} = γ_kp ∂_tβ^k + β^k ∂_tγ_kp + α∂_pα − β^lγ_kl∂_pβ^k − ½β^kβ^l∂_pγ_kl`. -/
theorem c1_s00 (h : J.LeviCivita) : ∀ p : Fin 3,
    Γ₁ p.succ 0 0 = ∑ k, J.gam k p * J.dtb k + ∑ k, J.beta k * J.dtgam k p + J.alpha * J.da p
        - ∑ k, ∑ l, J.beta l * J.gam k l * J.db p k - (1 / 2) * ∑ k, ∑ l, J.beta k * J.beta l * J.dgam p k l := by
  lc_syms h
  simp only [christoffel1, dg4, dmetric3p1, tsplit_succ, tsplit_0]
  cases3 <;>
    (simp only [Fin.sum_univ_three, g10, g20, g21]
     field_simp
     ring)

/-- `Γ_{0|tt} − β^m Γ_{m|tt} = −α(∂_tα + β^m∂_mα − β^mβ^nK_mn)`. -/
theorem c1_000 (h : J.LeviCivita) :
    Γ₁ 0 0 0 - ∑ m : Fin 3, J.beta m * Γ₁ m.succ 0 0
      = -(J.alpha * (J.dta + ∑ m, J.beta m * J.da m - ∑ m, ∑ n, J.beta m * J.beta n * J.Kd m n)) := by
  lc_syms h
  simp only [c1_s00 J h, dtgam_lie J h, lieGam]
  simp only [christoffel1, dg4, dmetric3p1, tsplit_succ, tsplit_0, dtgam_lie J h, lieGam]
  simp only [Fin.sum_univ_three, g10, g20, g21, K10, K20, K21]
  field_simp
  ring

/-- `Γ_{n|it} = −αK_ni + γ_nm D_iβ^m`. -/
theorem c1_ss0_Db (h : J.LeviCivita) : ∀ n i : Fin 3,
    Γ₁ n.succ i.succ 0 = -(J.alpha * J.Kd n i) + ∑ m, J.gam n m * J.Db i m := by
  lc_syms h
  simp only [c1_ss0 J h, c1_gam J h, Db]
  cases3 <;> cases3 <;>
    (simp only [Fin.sum_univ_three, g10, g20, g21, G010, G020, G021, G110, G120, G121, G210, G220, G221]
     ring)

/-- `γ^{mn}(αK_mj)(αK_ni) = α² K_ik K^k_j`. -/
theorem KK_form (h : J.LeviCivita) : ∀ i j : Fin 3,
    ∑ m, ∑ n, J.gamup m n * (-(J.alpha * J.Kd m j) * -(J.alpha * J.Kd n i)) = J.alpha ^ 2 * KK3 J.gamup J.Kd i j := by
  have u10 := gamup_symm J h 1 0; have u20 := gamup_symm J h 2 0; have u21 := gamup_symm J h 2 1
  have K10 := h.symK 1 0; have K20 := h.symK 2 0; have K21 := h.symK 2 1
  cases3 <;> cases3 <;> (simp only [KK3, Fin.sum_univ_three, u10, u20, u21, K10, K20, K21]; ring)

end AurelVerif.Spec.Curvature.Jet

namespace AurelVerif.Spec.Curvature.JetC
open AurelVerif.Tensor AurelVerif.CoreTac AurelVerif.C04L AurelVerif.Spec.Curvature.Jet

variable {K : Type} [Field K] (J : JetC K)

local notation "Γ₁" => christoffel1 J.dg4
local notation "γΓ" => christoffel1 J.dgam

/-- `g^{ef} Γ_{e|tj} Γ_{f|it} = α²K_ikK^k_j − αK_pi D_jβ^p − αK_pj D_iβ^p + γ_pq D_jβ^p D_iβ^q − (∂_jα − β^mK_mj)(∂_iα − β^mK_mi)`. -/
theorem quad_s0_s0 (h : J.LeviCivita) (j i : Fin 3) :
    ∑ e, ∑ f, J.gup3p1 e f * (Γ₁ e 0 j.succ * Γ₁ f i.succ 0)
      = J.alpha ^ 2 * KK3 J.gamup J.Kd i j - J.alpha * ∑ p, J.Db j p * J.Kd p i - J.alpha * ∑ p, J.Db i p * J.Kd p j
        + ∑ p, ∑ q, J.gam p q * J.Db j p * J.Db i q
        - (J.da j - ∑ m, J.beta m * J.Kd m j) * (J.da i - ∑ m, J.beta m * J.Kd m i) := by
  have ha := h.ha
  rw [gup3p1_contract]
  simp only [c1_s0s, c1_00s]
  rw [c1_0s0 J.toJet h j, c1_0s0 J.toJet h i]
  simp only [c1_ss0_Db J.toJet h]
  rw [quad_split J.toJet h (fun m => -(J.alpha * J.Kd m j)) (fun n => -(J.alpha * J.Kd n i)) (fun p => J.Db j p)
    (fun q => J.Db i q), KK_form J.toJet h i j]
  simp only [Fin.sum_univ_three]
  field_simp
  ring

/-- `g^{ef} Γ_{e|tt} Γ_{f|ij} = Γ^p_ij Γ_{p|tt} + K_ij(∂_tα + β^m∂_mα − β^mβ^nK_mn)`. -/
theorem quad_00_ss (h : J.LeviCivita) (i j : Fin 3) :
    ∑ e, ∑ f, J.gup3p1 e f * (Γ₁ e 0 0 * Γ₁ f i.succ j.succ)
      = ∑ p : Fin 3, J.Gam3 p i j * Γ₁ p.succ 0 0
        + J.Kd i j * (J.dta + ∑ m, J.beta m * J.da m - ∑ m, ∑ n, J.beta m * J.beta n * J.Kd m n) := by
  have ha := h.ha
  rw [gup3p1_contract]
  simp only [c1_sss]
  rw [gamup_c1' J.toJet h i j (fun n => Γ₁ n.succ 0 0), c1_000 J.toJet h, c1_0ss J.toJet h i j]
  field_simp
  ring

/-- pair symmetry of the Gauss block under the double contraction with the shift. -/
theorem bbA_swap (h : J.LeviCivita) (hs : J.Smooth) (i j : Fin 3) :
    ∑ k, ∑ l, J.gaussB j k i l * J.beta l * J.beta k = ∑ k, ∑ l, J.gaussB i k j l * J.beta k * J.beta l := by
  have hp := (riemannDown_sym J.gamup J.dgam J.ddgam (gamup_symm J.toJet h) (fun c a b => dgam_symm J h c a b)
    hs.ddgam_kl hs.ddgam_ij).pair
  rw [Finset.sum_comm]
  refine Finset.sum_congr rfl fun l _ => Finset.sum_congr rfl fun k _ => ?_
  have e : J.gaussB j k i l = J.gaussB i l j k := by
    simp only [gaussB, gauss, riem3]
    rw [hp j k i l, h.symK j i, h.symK k l, h.symK j l, h.symK k i]
    ring
  rw [e]

/-- the right-hand side of the Ricci equation with the two Codazzi terms expanded. -/
theorem ricciEqRHS_expand (h : J.LeviCivita) (hs : J.Smooth) (dtK : Fin 3 → Fin 3 → K) (i j : Fin 3) :
    J.ricciEqRHS J.gaussB J.codazziB dtK i j
      = ∑ k, ∑ l, J.gaussB i k j l * J.beta k * J.beta l
        + J.alpha * ∑ k, J.beta k * (J.covdK J.dK k j i - J.covdK J.dK j k i + J.covdK J.dK k i j - J.covdK J.dK i k j)
        + J.alpha * (dtK i j - J.lieK i j) + J.alpha * J.DDa i j + J.alpha ^ 2 * KK3 J.gamup J.Kd i j := by
  have e := bbA_swap J h hs i j
  simp only [ricciEqRHS, codazziB, codazzi, Fin.sum_univ_three] at e ⊢
  linear_combination e

set_option maxHeartbeats 1000000 in
/-- **the Ricci equation** (off shell), 3+1 inverse metric. -/
theorem ricci_gup3p1 (h : J.LeviCivita) (hs : J.Smooth) (dtK : Fin 3 → Fin 3 → K)
    (hT : ∀ i j, J.dttgam i j = J.dttgamOf dtK i j) : ∀ i j : Fin 3,
    J.riem4 J.gup3p1 i.succ 0 j.succ 0 = J.ricciEqRHS J.gaussB J.codazziB dtK i j := by
  intro i j
  have e1 : J.riem4 J.gup3p1 i.succ 0 j.succ 0
      = (1 / 2) * (J.ddg4 0 j.succ i.succ 0 + J.ddg4 i.succ 0 0 j.succ
          - J.ddg4 i.succ j.succ 0 0 - J.ddg4 0 0 i.succ j.succ)
        + (∑ e, ∑ f, J.gup3p1 e f * (Γ₁ e 0 j.succ * Γ₁ f i.succ 0)
          - ∑ e, ∑ f, J.gup3p1 e f * (Γ₁ e 0 0 * Γ₁ f i.succ j.succ)) := by
    unfold riem4 riemannDown
    simp only [mul_sub, Finset.sum_sub_distrib]
  rw [e1, ricci_second J h hs dtK hT i j, quad_s0_s0 J h j i, quad_00_ss J h i j, shift_part J h hs i j,
    ricciEqRHS_expand J h hs dtK i j]
  clear e1
  simp only [gaussB, gauss, covdK, lieK, DDa, c1_s00 J.toJet h, c1_gam J.toJet h, dtgam_lie J.toJet h, lieGam, Db]
  lc_syms h
  have c10 := fun i => hs.dK i 1 0
  have c20 := fun i => hs.dK i 2 0
  have c21 := fun i => hs.dK i 2 1
  revert i j
  cases3 <;> cases3 <;>
    (simp only [Fin.sum_univ_three, g10, g20, g21, K10, K20, K21, G010, G020, G021, G110, G120, G121, G210, G220,
       G221, c10, c20, c21]
     ring)

/-- **the Ricci equation** (off shell) for any left inverse `gup` of the assembled metric. -/
theorem ricci_identity (h : J.LeviCivita) (hs : J.Smooth) (gup : Fin 4 → Fin 4 → K)
    (hinv : ∀ a a', ∑ d, gup a d * J.g4 d a' = delta a a') (dtK : Fin 3 → Fin 3 → K)
    (hT : ∀ i j, J.dttgam i j = J.dttgamOf dtK i j) (i j : Fin 3) :
    J.riem4 gup i.succ 0 j.succ 0 = J.ricciEqRHS J.gaussB J.codazziB dtK i j := by
  have hg : gup = J.gup3p1 := by funext a b; exact gup_unique J.toJet h gup hinv a b
  rw [hg]; exact ricci_gup3p1 J h hs dtK hT i j

/-- `J.dtKd` IS the `∂_tK_ij` for which `∂_t∂_tγ_ij` is the Leibniz t-derivative of the kinematic relation. -/
theorem dttgamOf_dtKd (h : J.LeviCivita) (i j : Fin 3) : J.dttgam i j = J.dttgamOf J.dtKd i j := by
  have ha := h.ha; have h2 := h.two
  simp only [dttgamOf, dtKd]
  field_simp
  ring

/-- … and the only one. -/
theorem dtK_unique (h : J.LeviCivita) (dtK : Fin 3 → Fin 3 → K) (hT : ∀ i j, J.dttgam i j = J.dttgamOf dtK i j)
    (i j : Fin 3) : dtK i j = J.dtKd i j := by
  have ha := h.ha; have h2 := h.two
  have e := hT i j
  simp only [dttgamOf] at e
  simp only [dtKd, e]
  field_simp
  ring

/-- **ADM evolution equation ⟺ the Ricci component**: with the number `r` in place of `⁴R_ij`, the ADM evolution equation
holds for `∂_tK_ij` IF AND ONLY IF `r` is the spatial Ricci component `g^{ac}R_aicj` of the assembled metric. -/
theorem adm_iff (h : J.LeviCivita) (hs : J.Smooth) (dtK : Fin 3 → Fin 3 → K)
    (hT : ∀ i j, J.dttgam i j = J.dttgamOf dtK i j) (r : K) (i j : Fin 3) :
    dtK i j = -J.DDa i j
        + J.alpha * (ricciDown J.gamup J.riem3 i j - 2 * KK3 J.gamup J.Kd i j
            + J.Kd i j * (∑ k, ∑ l, J.gamup k l * J.Kd k l) - r) + J.lieK i j
      ↔ r = ricciDown J.gup3p1 (J.riem4 J.gup3p1) i.succ j.succ := by
  have ha := h.ha
  rw [← Jet.mainardi_algebraic_iff J.toJet ha (J.riem4 J.gup3p1) (riem4_sym J h hs) J.gaussB J.codazziB
    (gauss_gup3p1 J h) (codazzi_gup3p1 J h hs) r i j, ricci_gup3p1 J h hs dtK hT i j]
  have gc := Jet.gauss_contract J.toJet h J.riem3 i j
  simp only [ricciEqRHS, gaussB] at gc ⊢
  rw [gc]
  constructor
  · intro e; rw [e]; ring
  · intro e
    have h0 : J.alpha * (dtK i j - (-J.DDa i j
        + J.alpha * (ricciDown J.gamup J.riem3 i j - 2 * KK3 J.gamup J.Kd i j
            + J.Kd i j * (∑ k, ∑ l, J.gamup k l * J.Kd k l) - r) + J.lieK i j)) = 0 := by
      linear_combination e
    exact sub_eq_zero.mp ((mul_eq_zero.mp h0).resolve_left ha)

/-- **the ADM evolution equation of `K_ij`, geometric form** (on shell): if `Ric4` is the spatial block of the Ricci tensor
of the assembled 4-metric, `∂_tK_ij = −D_iD_jα + α(³R_ij − 2K_ikK^k_j + K K_ij − Ric4_ij) + L_βK_ij`. -/
theorem adm_of_ricci (h : J.LeviCivita) (hs : J.Smooth) (gup : Fin 4 → Fin 4 → K)
    (hinv : ∀ a a', ∑ d, gup a d * J.g4 d a' = delta a a') (dtK : Fin 3 → Fin 3 → K)
    (hT : ∀ i j, J.dttgam i j = J.dttgamOf dtK i j) (Ric4 : Fin 3 → Fin 3 → K)
    (hRic : ∀ i j : Fin 3, Ric4 i j = ricciDown gup (J.riem4 gup) i.succ j.succ) (i j : Fin 3) :
    dtK i j = J.admRHS Ric4 i j := by
  have hg : gup = J.gup3p1 := by funext a b; exact gup_unique J.toJet h gup hinv a b
  subst hg
  exact (adm_iff J h hs dtK hT (Ric4 i j) i j).mpr (hRic i j)

end AurelVerif.Spec.Curvature.JetC
