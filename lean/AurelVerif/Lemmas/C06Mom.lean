/-
Lemmas/C06Mom.lean — Layer B (consistency): the divergence the code takes for the momentum constraint,
`D_j(K^ij − γ^ij K)` with `K^ij = γ^ia γ^jb K_ab`, `K = γ^ab K_ab`, equals the raised lowered form
`γ^ia γ^jb (D_j K_ab − D_a K_jb)` when

  * the inverse metric is covariantly constant, `D_c γ^ab = ∂_c γ^ab + Γ^a_cm γ^mb + Γ^b_cm γ^am = 0`
    (`C05.metric_compat_uu` derives this from the product rule on γ⁻¹γ = 1), and
  * `∂_c (K^ab − γ^ab K)` is what the product rule gives.

Pure index algebra in the jets (`dU c a b = ∂_cγ^ab`, `dKd c a b = ∂_cK_ab`, `dmom c a b = ∂_c(K^ab − γ^abK)`); no
symmetry of Γ or K is needed, only of γ^ab.
-/
import AurelVerif.Lemmas.C06Gauss

set_option linter.unusedSimpArgs false
set_option linter.unusedVariables false

namespace AurelVerif.C06Gauss
open AurelVerif.Tensor AurelVerif.CoreTac AurelVerif.C08 AurelVerif.Spec AurelVerif.Spec.GC AurelVerif.Spec.Covd

variable {K : Type} [Field K]

set_option maxHeartbeats 1000000 in
/-- **`D_j(K^ij − γ^ij K) = γ^ia γ^jb (D_j K_ab − D_a K_jb)`** (metric compatibility + product rule). -/
theorem mom_div_lowered (Γ : Fin 3 → Fin 3 → Fin 3 → K) (U Kd Ku : Fin 3 → Fin 3 → K)
    (dU dKd dmom : Fin 3 → Fin 3 → Fin 3 → K) (Ktr : K) (hsymU : Sym U)
    (hKu : ∀ a b, Ku a b = ∑ i, ∑ j, U i a * U j b * Kd i j) (hKtr : Ktr = ∑ i, ∑ j, U i j * Kd i j)
    (hcompat : ∀ c a b, covdUU Γ dU U c a b = 0)
    (hdmom : ∀ c a b, dmom c a b
        = (∑ i, ∑ j, (dU c i a * U j b * Kd i j + U i a * dU c j b * Kd i j + U i a * U j b * dKd c i j))
          - (dU c a b * Ktr + U a b * ∑ i, ∑ j, (dU c i j * Kd i j + U i j * dKd c i j)))
    (i : Fin 3) :
    ∑ j, covdUU Γ dmom (ADM.momTensor Ku U Ktr) j i j = ∑ a, U i a * momLow U (covdDD Γ dKd Kd) a := by
  have hdU : ∀ c a b, dU c a b = -(∑ m, Γ a c m * U m b) - ∑ m, Γ b c m * U a m := by
    intro c a b
    have := hcompat c a b
    simp only [covdUU] at this
    linear_combination this
  have u01 := hsymU 1 0; have u02 := hsymU 2 0; have u12 := hsymU 2 1
  revert i
  cases3 <;>
    (simp only [covdUU, covdDD, momLow, ADM.momTensor, hdmom, hKu, hKtr, Fin.sum_univ_three]
     simp only [hdU, Fin.sum_univ_three, u01, u02, u12]
     ring)

end AurelVerif.C06Gauss
