/-
Lemmas/C11GroupOrVar.lean — C11: the ORDINARY case of the literal model of
`read_ET_group_or_var` (Model/MultiThorn.lean): every requested name selects exactly one
dataset per (file, iteration, component).  Then the variable list is never rewritten and
`readGroupOrVar` computes `fixij (joinChunks (toDict [(d.iorigin, trimmed d) | selected d]))`
per (iteration, variable), the time of the last key read in the FIRST file per iteration, and
the columns in request order.
-/
import AurelVerif.Lemmas.C11MultiThorn
import AurelVerif.Lemmas.C11Checkpoint
namespace AurelVerif.GroupOrVarLemmas
open AurelVerif.Chunks AurelVerif.ChunksLemmas AurelVerif.Checkpoint AurelVerif.CheckpointLemmas
open AurelVerif.MultiThorn AurelVerif.MultiThornLemmas
set_option linter.unusedSimpArgs false
set_option linter.unusedVariables false

/-! ### A. `gvVars` -/

theorem fuelFor_enough {α : Type} (st : St α) (pool : List (DSet α)) : st.var.length < fuelFor st pool := by
  unfold fuelFor
  have h1 : (st.var.length + pool.length + 1) * 1 ≤ (st.var.length + pool.length + 1) * (pool.length + 1) :=
    Nat.mul_le_mul_left _ (by omega)
  omega

/-- every name from position `vi` on selects exactly one dataset of the pool: the loop reads them in
order and leaves the variable list alone -/
theorem gvVars_singles {α : Type} (pool : List (DSet α)) (pick : String → DSet α) :
    ∀ (fuel vi : Nat) (st : St α), st.var.length - vi < fuel →
      (∀ v ∈ st.var.drop vi, pool.filter (fun d => matchesVar d v) = [pick v]) →
      gvVars pool fuel vi st = some (readAll pick (st.var.drop vi) st) := by
  intro fuel
  induction fuel with
  | zero => intro vi st h; omega
  | succ fuel ih =>
    intro vi st hf hk
    simp only [gvVars]
    cases hv : st.var[vi]? with
    | none =>
      have : st.var.length ≤ vi := by simpa using hv
      simp [readAll, List.drop_eq_nil_of_le this]
    | some v =>
      have hlt : vi < st.var.length := by
        rcases Nat.lt_or_ge vi st.var.length with h | h
        · exact h
        · have := List.getElem?_eq_none h; rw [this] at hv; cases hv
      have hget : st.var[vi] = v := by
        have := List.getElem?_eq_getElem hlt; rw [this] at hv; exact Option.some.inj hv
      have hdrop : st.var.drop vi = v :: st.var.drop (vi + 1) := by
        rw [← hget]; exact List.drop_eq_getElem_cons hlt
      have hkv := hk v (by rw [hdrop]; exact List.mem_cons_self ..)
      simp only [hkv, pickKey_single]
      have := ih (vi + 1) (st.read v (pick v)) (by simp only [St.read]; omega)
        (by
          intro w hw
          have : w ∈ st.var.drop (vi + 1) := by simpa [St.read] using hw
          exact hk w (by rw [hdrop]; exact List.mem_cons_of_mem _ this))
      rw [this, hdrop]
      simp [readAll, St.read]

/-- `var_chunks` after filing the items `(v, d)` in order -/
abbrev vcFold {α : Type} (items : List (String × DSet α)) (vc : VarChunks α) : VarChunks α :=
  items.foldl (fun vc vd => vcSet vc vd.1 vd.2.iorigin (trimmed vd.2)) vc

theorem readAll_vc {α : Type} (pick : String → DSet α) (names : List String) (st : St α) :
    (readAll pick names st).vc = vcFold (names.map fun v => (v, pick v)) st.vc := by
  induction names generalizing st with
  | nil => rfl
  | cons v rest ih =>
    simp only [readAll, List.foldl_cons, List.map_cons, vcFold] at ih ⊢
    rw [ih]; rfl

theorem readAll_last {α : Type} (pick : String → DSet α) (names : List String) (st : St α) :
    (readAll pick names st).last = (names.getLast?.map pick).or st.last := by
  induction names generalizing st with
  | nil => simp [readAll]
  | cons v rest ih =>
    simp only [readAll, List.foldl_cons] at ih ⊢
    rw [ih]
    cases rest with
    | nil => simp [St.read]
    | cons w r =>
      rcases hl : (w :: r).getLast? with _ | x
      · simp at hl
      · simp [List.getLast?_cons_cons, hl]

/-! ### B. `gvChunks` -/

/-- the state after one pass of `for c in crange:` whose look-ups are singletons -/
def stepG {α : Type} (g : GSt α) (iit : Nat) (pool : List (DSet α)) (pick : String → DSet α) : GSt α :=
  { var := g.var
    chunksOf := Dict.set g.chunksOf iit (vcFold (g.var.map fun v => (v, pick v)) ((g.chunksOf.get? iit).getD []))
    withC := some pool
    last := (g.var.getLast?.map pick).or g.last
    time := g.time }

/-- one component: `pool` is `relevant_keys_with_c` of this pass -/
theorem gvChunks_cons {α : Type} (rel : List (DSet α)) (recompute : Bool) (iit : Nat) (c : Option Nat)
    (cs : List (Option Nat)) (g : GSt α) (pool : List (DSet α)) (pick : String → DSet α)
    (hpool : (if recompute then some (rel.filter fun d => d.c == c) else g.withC) = some pool)
    (hsel : ∀ v ∈ g.var, pool.filter (fun d => matchesVar d v) = [pick v]) :
    gvChunks rel recompute iit (c :: cs) g = gvChunks rel recompute iit cs (stepG g iit pool pick) := by
  simp only [gvChunks, hpool]
  rw [gvVars_singles pool pick _ 0 _ (by simp only [Nat.sub_zero]; exact fuelFor_enough (⟨g.var, (g.chunksOf.get? iit).getD [], g.last⟩ : St α) pool) (by simpa using hsel)]
  simp only [List.drop_zero, readAll_var, readAll_vc, readAll_last, stepG]

/-- the items filed by `for c in crange: for v in var:` -/
def gvItems {α : Type} (sel : Option Nat → String → DSet α) (crange : List (Option Nat)) (var : List String) :
    List (String × DSet α) :=
  crange.flatMap fun c => var.map fun v => (v, sel c v)

theorem set_set {κ β : Type} [DecidableEq κ] (d : Dict κ β) (k : κ) (a b : β) :
    Dict.set (Dict.set d k a) k b = Dict.set d k b := by
  induction d with
  | nil => simp [Dict.set]
  | cons kv rest ih =>
    obtain ⟨k', v'⟩ := kv
    simp only [Dict.set]
    by_cases e : k' = k
    · simp [e, Dict.set]
    · simp [e, Dict.set, ih]

/-- the state after `for c in crange:` in the ordinary case, `recompute = true` -/
def chunksRes {α : Type} (rel : List (DSet α)) (sel : Option Nat → String → DSet α) (iit : Nat)
    (crange : List (Option Nat)) (g : GSt α) : GSt α :=
  { var := g.var
    chunksOf := if crange = [] then g.chunksOf
      else Dict.set g.chunksOf iit (vcFold (gvItems sel crange g.var) ((g.chunksOf.get? iit).getD []))
    withC := (crange.getLast?.map fun c => rel.filter fun d => d.c == c).or g.withC
    last := ((gvItems sel crange g.var).getLast?.map fun x => x.2).or g.last
    time := g.time }

theorem getLast?_append_or {γ : Type} (a b : List γ) : (a ++ b).getLast? = b.getLast?.or a.getLast? := by
  cases b with
  | nil => simp
  | cons x xs => simp [List.getLast?_append]

/-- **`for c in crange:` with `relevant_keys_with_c` recomputed per component** (one file per process with
`cmax ≠ 0`, one file with components `0..amax`, `amax ≠ 0`): every (component, variable) look-up is a
singleton `[sel c v]` -/
theorem gvChunks_ordinary {α : Type} (rel : List (DSet α)) (sel : Option Nat → String → DSet α) (iit : Nat) :
    ∀ (crange : List (Option Nat)) (g : GSt α),
      (∀ c ∈ crange, ∀ v ∈ g.var,
        (rel.filter fun d => d.c == c).filter (fun d => matchesVar d v) = [sel c v]) →
      gvChunks rel true iit crange g = some (chunksRes rel sel iit crange g) := by
  intro crange
  induction crange with
  | nil => intro g _; simp [gvChunks, chunksRes, gvItems]
  | cons c cs ih =>
    intro g h
    rw [gvChunks_cons rel true iit c cs g _ (sel c) (by simp) (h c (List.mem_cons_self ..))]
    rw [ih (stepG g iit _ (sel c)) (fun c' hc' v hv => h c' (List.mem_cons_of_mem _ hc') v (by simpa [stepG] using hv))]
    have hitems : gvItems sel (c :: cs) g.var = (g.var.map fun v => (v, sel c v)) ++ gvItems sel cs g.var := by
      simp [gvItems]
    refine congrArg some ?_
    simp only [chunksRes, stepG, get?_set_same, Option.getD_some, set_set, hitems,
      List.foldl_append, vcFold, reduceCtorEq, if_false, GSt.mk.injEq, true_and, and_true]
    refine ⟨?_, ?_, ?_⟩
    · cases cs with
      | nil => simp [gvItems]
      | cons c' cs' => simp
    · cases cs with
      | nil => simp
      | cons c' cs' =>
        rcases hl : (c' :: cs').getLast? with _ | x
        · simp at hl
        · simp [List.getLast?_cons_cons, hl]
    · rw [getLast?_append_or]
      rcases hb : (gvItems sel cs g.var).getLast? with _ | x
      · rcases hv : g.var.getLast? with _ | y <;> simp [List.getLast?_map, hv]
      · simp

/-- **no ` c=` in the dataset names** (`cmax = 'in file'`): the pool is the whole relevant list, set before the
loop; `crange = [0]`, nothing is recomputed -/
theorem gvChunks_noc {α : Type} (rel : List (DSet α)) (pick : String → DSet α) (iit : Nat) (c : Option Nat)
    (g : GSt α) (hsel : ∀ v ∈ g.var, rel.filter (fun d => matchesVar d v) = [pick v]) :
    gvChunks rel false iit [c] { g with withC := some rel }
      = some (stepG g iit rel pick) := by
  rw [gvChunks_cons rel false iit c [] { g with withC := some rel } rel pick (by simp) hsel]
  simp [gvChunks, stepG]

/-! ### C. `gvIt`, `gvFiles` -/

/-- `relevant_keys` of `read_ET_group_or_var` -/
def relOf {α : Type} (f : CFile α) (iit rl : Nat) : List (DSet α) :=
  f.dsets.filter fun d => d.it == iit && d.rl == some rl

/-- the plan of `gvIt` for (file, iteration) is one of the three regular ones, and every (component, variable)
look-up is the singleton `[sel c v]`; `crange` is the component range the loop runs over -/
inductive RegularPlan {α : Type} (cmax : CMax) (f : CFile α) (rel : List (DSet α)) (vars : List String)
    (crange : List (Option Nat)) (sel : Option Nat → String → DSet α) : Prop where
  /-- one file per process (`cmax ≠ 0`): this is the file of component `f.fileNo` -/
  | perproc (n : Nat) (hc : cmax = CMax.num n) (hn : n ≠ 0) (hne : rel ≠ []) (hcr : crange = [f.fileNo])
      (huniq : ∀ v ∈ vars,
        (rel.filter fun d => d.c == f.fileNo).filter (fun d => matchesVar d v) = [sel f.fileNo v]) :
      RegularPlan cmax f rel vars crange sel
  /-- one file with components `0..amax`, `amax ≠ 0` -/
  | chunked (amax : Nat) (hc : cmax = CMax.inFile) (ha : amax ≠ 0)
      (hcs : ∀ d ∈ rel, ∃ c, d.c = some c ∧ c ≤ amax) (hmax : ∃ d ∈ rel, d.c = some amax)
      (hcr : crange = (List.range (amax + 1)).map some)
      (huniq : ∀ c ∈ crange, ∀ v ∈ vars,
        (rel.filter fun d => d.c == c).filter (fun d => matchesVar d v) = [sel c v]) :
      RegularPlan cmax f rel vars crange sel
  /-- one file, no ` c=` in the first relevant dataset name -/
  | single (hc : cmax = CMax.inFile) (d0 : DSet α) (rest : List (DSet α)) (hrel : rel = d0 :: rest)
      (hnoc : d0.c = none) (hcr : crange = [some 0])
      (huniq : ∀ v ∈ vars, rel.filter (fun d => matchesVar d v) = [sel (some 0) v]) :
      RegularPlan cmax f rel vars crange sel

/-- the state after the body of `for iit in it:` that filed `items`; `w` = `relevant_keys_with_c` -/
def itRes {α : Type} (g : GSt α) (iit : Nat) (items : List (String × DSet α)) (collect : Bool)
    (w : Option (List (DSet α))) : GSt α :=
  { var := g.var
    chunksOf := Dict.set g.chunksOf iit (vcFold items ((g.chunksOf.get? iit).getD []))
    withC := w
    last := (items.getLast?.map fun x => x.2).or g.last
    time := g.time ++ (if collect then (items.getLast?.map fun x => x.2.time).toList else []) }

theorem gvItems_getLast {α : Type} (sel : Option Nat → String → DSet α) (crange : List (Option Nat))
    (var : List String) (hc : crange ≠ []) (hv : var ≠ []) :
    ∃ x, (gvItems sel crange var).getLast? = some x ∧ x ∈ gvItems sel crange var := by
  have : gvItems sel crange var ≠ [] := by
    obtain ⟨c, hc'⟩ := List.exists_mem_of_ne_nil _ hc
    obtain ⟨v, hv'⟩ := List.exists_mem_of_ne_nil _ hv
    intro e
    have : (v, sel c v) ∈ gvItems sel crange var :=
      List.mem_flatMap.mpr ⟨c, hc', List.mem_map.mpr ⟨v, hv', rfl⟩⟩
    rw [e] at this; cases this
  exact ⟨_, List.getLast?_eq_some_getLast this, List.getLast_mem this⟩

/-- **the body of `for iit in it:` in the ordinary case** -/
theorem gvIt_ordinary {α : Type} (cmax : CMax) (rl : Nat) (collect : Bool) (f : CFile α) (g : GSt α) (iit : Nat)
    (crange : List (Option Nat)) (sel : Option Nat → String → DSet α) (hvar : g.var ≠ [])
    (h : RegularPlan cmax f (relOf f iit rl) g.var crange sel) :
    ∃ w, gvIt cmax rl collect f g iit = some (itRes g iit (gvItems sel crange g.var) collect w) := by
  unfold relOf at h
  unfold gvIt
  generalize (f.dsets.filter fun d => d.it == iit && d.rl == some rl) = R at h ⊢
  cases h with
  | perproc n hc hn hne hcr huniq =>
    subst hc hcr
    obtain ⟨x, hx, _⟩ := gvItems_getLast sel [f.fileNo] g.var (by simp) hvar
    cases R with
    | nil => exact absurd rfl hne
    | cons d0 rest =>
      have hn' : (n != 0) = true := by simpa using hn
      simp only [hn']
      rw [gvChunks_ordinary (d0 :: rest) sel iit [f.fileNo] g
        (by intro c hc v hv; simp only [List.mem_singleton] at hc; subst hc; exact huniq v hv)]
      simp only
      refine ⟨(chunksRes (d0 :: rest) sel iit [f.fileNo] g).withC, ?_⟩
      cases collect <;> simp [itRes, chunksRes, hx]
  | chunked amax hc ha hcs hmax hcr huniq =>
    subst hc hcr
    obtain ⟨x, hx, _⟩ := gvItems_getLast sel ((List.range (amax + 1)).map some) g.var (by simp) hvar
    cases R with
    | nil => obtain ⟨d, hd, _⟩ := hmax; cases hd
    | cons d0 rest =>
      obtain ⟨c0, hc0, _⟩ := hcs d0 (List.mem_cons_self ..)
      simp only [hc0, Option.isSome_some, if_true]
      rw [mapOpt_c _ (fun d hd => by obtain ⟨c, hc, _⟩ := hcs d hd; exact ⟨c, hc⟩)]
      have hmx : ((d0 :: rest).map fun d => d.c.getD 0).foldl max 0 = amax := by
        apply foldl_max_eq
        · intro y hy
          obtain ⟨d, hd, rfl⟩ := List.mem_map.mp hy
          obtain ⟨c, hc, hlt⟩ := hcs d hd
          simp [hc]; omega
        · omega
        · left
          obtain ⟨d, hd, hdc⟩ := hmax
          exact List.mem_map.mpr ⟨d, hd, by simp [hdc]⟩
      have ha' : (amax != 0) = true := by simpa using ha
      simp only [Option.map_some, hmx, ha']
      rw [gvChunks_ordinary (d0 :: rest) sel iit _ g huniq]
      simp only
      refine ⟨(chunksRes (d0 :: rest) sel iit ((List.range (amax + 1)).map some) g).withC, ?_⟩
      cases collect <;> simp [itRes, chunksRes, hx]
  | single hc d0 rest hrel hnoc hcr huniq =>
    subst hc hcr hrel
    obtain ⟨x, hx, _⟩ := gvItems_getLast sel [some 0] g.var (by simp) hvar
    have hit : gvItems sel [some 0] g.var = g.var.map fun v => (v, sel (some 0) v) := by simp [gvItems]
    rw [hit] at hx
    simp only [hnoc, Option.isSome_none, Bool.false_eq_true, if_false]
    rw [gvChunks_noc (d0 :: rest) (sel (some 0)) iit (some 0) g huniq]
    simp only
    have hl : g.var.getLast?.map (sel (some 0)) = some x.2 := by
      rw [List.getLast?_map] at hx
      rcases hv : g.var.getLast? with _ | y
      · simp [hv] at hx
      · simp [hv] at hx; subst hx; simp
    refine ⟨some (d0 :: rest), ?_⟩
    rw [hit]
    cases collect <;> simp [itRes, stepG, hx, hl]

/-- the time of the last key read while filing `items` (0 if nothing was read) -/
def lastTime {α : Type} (items : List (String × DSet α)) : Nat := (items.getLast?.map fun x => x.2.time).getD 0

/-- **`for iit in it:` of one file in the ordinary case** (`M` = the iterations, without repetition) -/
theorem gvIt_fold {α : Type} (cmax : CMax) (rl : Nat) (collect : Bool) (f : CFile α) (vars : List String)
    (hvars : vars ≠ []) (crangeOf : Nat → List (Option Nat)) (sel : Nat → Option Nat → String → DSet α) :
    ∀ (M : List Nat) (g : GSt α), M.Nodup → g.var = vars →
      (∀ iit ∈ M, RegularPlan cmax f (relOf f iit rl) vars (crangeOf iit) (sel iit)) →
      ∃ g', M.foldlM (gvIt cmax rl collect f) g = some g' ∧ g'.var = vars
        ∧ (∀ j, g'.chunksOf.get? j = if j ∈ M then
              some (vcFold (gvItems (sel j) (crangeOf j) vars) ((g.chunksOf.get? j).getD []))
            else g.chunksOf.get? j)
        ∧ g'.time = g.time ++ (if collect then M.map fun j => lastTime (gvItems (sel j) (crangeOf j) vars) else []) := by
  intro M
  induction M with
  | nil => intro g _ hv _; exact ⟨g, rfl, hv, by simp, by simp⟩
  | cons i M' ih =>
    intro g hnd hv h
    have hnd' := List.nodup_cons.mp hnd
    obtain ⟨w, hw⟩ := gvIt_ordinary cmax rl collect f g i (crangeOf i) (sel i) (by rw [hv]; exact hvars)
      (by rw [hv]; exact h i (List.mem_cons_self ..))
    obtain ⟨g', hfold, hv', hc', ht'⟩ := ih (itRes g i (gvItems (sel i) (crangeOf i) g.var) collect w) hnd'.2
      (by simp [itRes, hv]) (fun j hj => h j (List.mem_cons_of_mem _ hj))
    obtain ⟨x, hx, _⟩ := gvItems_getLast (sel i) (crangeOf i) vars
      (by
        intro e
        have := h i (List.mem_cons_self ..)
        rw [e] at this
        cases this with
        | perproc n hc hn hne hcr huniq => cases hcr
        | chunked amax hc ha hcs hmax hcr huniq => simp at hcr
        | single hc d0 rest hrel hnoc hcr huniq => cases hcr) hvars
    refine ⟨g', by simp [List.foldlM_cons, hw, hfold], hv', ?_, ?_⟩
    · intro j
      rw [hc' j]
      by_cases hj : j ∈ M'
      · have hne : i ≠ j := fun e => hnd'.1 (e ▸ hj)
        simp [hj, itRes, get?_set_ne _ _ _ _ hne]
      · by_cases e : j = i
        · subst e
          simp [hj, itRes, get?_set_same, hv]
        · have hne : i ≠ j := fun e' => e e'.symm
          simp [hj, e, itRes, get?_set_ne _ _ _ _ hne]
    · rw [ht']
      cases collect
      · simp [itRes]
      · simp [itRes, hv, hx, lastTime]

/-- **`for file in files:` in the ordinary case**: the variable list is unchanged; `var_chunks[iit]` received the
selected datasets files outer, components middle, variables inner; the time list comes from the FIRST file -/
theorem gvFiles_ordinary {α : Type} (cmax : CMax) (rl : Nat) (vars : List String) (hvars : vars ≠ [])
    (M : List Nat) (hM : M.Nodup) (crangeOf : CFile α → Nat → List (Option Nat))
    (sel : CFile α → Nat → Option Nat → String → DSet α) :
    ∀ (fs : List (CFile α)) (f0 : CFile α) (collect : Bool) (g : GSt α), g.var = vars →
      (∀ f ∈ f0 :: fs, ∀ iit ∈ M, RegularPlan cmax f (relOf f iit rl) vars (crangeOf f iit) (sel f iit)) →
      ∃ g', gvFiles cmax rl M (f0 :: fs) collect g = some g' ∧ g'.var = vars
        ∧ (∀ j ∈ M, g'.chunksOf.get? j = some (vcFold ((f0 :: fs).flatMap fun f => gvItems (sel f j) (crangeOf f j) vars)
              ((g.chunksOf.get? j).getD [])))
        ∧ g'.time = g.time ++ (if collect then M.map fun j => lastTime (gvItems (sel f0 j) (crangeOf f0 j) vars) else []) := by
  intro fs
  induction fs with
  | nil =>
    intro f0 collect g hv h
    obtain ⟨g1, h1, hv1, hc1, ht1⟩ := gvIt_fold cmax rl collect f0 vars hvars (crangeOf f0) (sel f0) M g hM hv
      (fun iit hi => h f0 (List.mem_cons_self ..) iit hi)
    refine ⟨g1, by simp [gvFiles, h1], hv1, ?_, ht1⟩
    intro j hj
    rw [hc1 j]; simp [hj]
  | cons f1 fs ih =>
    intro f0 collect g hv h
    obtain ⟨g1, h1, hv1, hc1, ht1⟩ := gvIt_fold cmax rl collect f0 vars hvars (crangeOf f0) (sel f0) M g hM hv
      (fun iit hi => h f0 (List.mem_cons_self ..) iit hi)
    obtain ⟨g2, h2, hv2, hc2, ht2⟩ := ih f1 false g1 hv1 (fun f hf => h f (List.mem_cons_of_mem _ hf))
    refine ⟨g2, ?_, hv2, ?_, ?_⟩
    · rw [gvFiles]; simp only [h1]; exact h2
    · intro j hj
      rw [hc2 j hj, hc1 j]
      simp only [hj, if_true, Option.getD_some]
      simp only [vcFold, List.flatMap_cons, List.foldl_append]
    · rw [ht2, ht1]; simp

/-! ### D. `readGroupOrVar` -/

theorem foldlM_some {γ δ : Type} (f : γ → δ → Option γ) (g : γ → δ → γ) (l : List δ)
    (h : ∀ x ∈ l, ∀ acc, f acc x = some (g acc x)) : ∀ acc, l.foldlM f acc = some (l.foldl g acc) := by
  induction l with
  | nil => intro acc; rfl
  | cons x xs ih =>
    intro acc
    simp [List.foldlM_cons, h x (List.mem_cons_self ..), ih (fun y hy => h y (List.mem_cons_of_mem _ hy))]

theorem get?_append_not_mem {κ β : Type} [DecidableEq κ] (pre d : Dict κ β) (k : κ) (h : k ∉ pre.map Prod.fst) :
    Dict.get? (pre ++ d) k = Dict.get? d k := by
  induction pre with
  | nil => rfl
  | cons kv rest ih =>
    obtain ⟨k', v'⟩ := kv
    simp only [List.map_cons, List.mem_cons, not_or] at h
    have : k' ≠ k := fun e => h.1 e.symm
    simp [Dict.get?, this, ih h.2]

theorem set_append_not_mem {κ β : Type} [DecidableEq κ] (pre d : Dict κ β) (k : κ) (x : β)
    (h : k ∉ pre.map Prod.fst) : Dict.set (pre ++ d) k x = pre ++ Dict.set d k x := by
  induction pre with
  | nil => rfl
  | cons kv rest ih =>
    obtain ⟨k', v'⟩ := kv
    simp only [List.map_cons, List.mem_cons, not_or] at h
    have : k' ≠ k := fun e => h.1 e.symm
    simp [Dict.set, this, ih h.2]

/-- the first iteration: every column is created, in request order -/
theorem push_fresh {β : Type} (toAurel : String → String) (x : String → β) :
    ∀ (V : List String) (cols : Dict String (List β)), (∀ v ∈ V, toAurel v ∉ cols.map Prod.fst) →
      (V.map toAurel).Nodup →
      V.foldl (fun c v => colPush c (toAurel v) (x v)) cols = cols ++ V.map fun v => (toAurel v, [x v]) := by
  intro V
  induction V with
  | nil => intro cols _ _; simp
  | cons v V' ih =>
    intro cols h hn
    have hk := h v (List.mem_cons_self ..)
    have hn' : toAurel v ∉ V'.map toAurel ∧ (V'.map toAurel).Nodup := List.nodup_cons.mp hn
    have hget : Dict.get? cols (toAurel v) = none := by
      have := get?_append_not_mem cols [] (toAurel v) hk
      simpa [Dict.get?] using this
    have hset : Dict.set cols (toAurel v) [x v] = cols ++ [(toAurel v, [x v])] := by
      have := set_append_not_mem cols [] (toAurel v) [x v] hk
      simpa [Dict.set] using this
    have hp : colPush cols (toAurel v) (x v) = cols ++ [(toAurel v, [x v])] := by
      simp only [colPush, hget, hset]
    simp only [List.foldl_cons, hp]
    rw [ih (cols ++ [(toAurel v, [x v])]) (by
        intro w hw
        simp only [List.map_append, List.map_cons, List.map_nil, List.mem_append, List.mem_singleton, not_or]
        refine ⟨h w (List.mem_cons_of_mem _ hw), ?_⟩
        intro e
        exact hn'.1 (List.mem_map.mpr ⟨w, hw, e⟩)) hn'.2]
    simp

/-- a later iteration: every column is extended in place -/
theorem push_later {β : Type} (toAurel : String → String) (L : String → List β) (x : String → β) :
    ∀ (V : List String) (pre : Dict String (List β)), (∀ v ∈ V, toAurel v ∉ pre.map Prod.fst) →
      (V.map toAurel).Nodup →
      V.foldl (fun c v => colPush c (toAurel v) (x v)) (pre ++ V.map fun v => (toAurel v, L v))
        = pre ++ V.map fun v => (toAurel v, L v ++ [x v]) := by
  intro V
  induction V with
  | nil => intro pre _ _; simp
  | cons v V' ih =>
    intro pre h hn
    have hk := h v (List.mem_cons_self ..)
    have hn' : toAurel v ∉ V'.map toAurel ∧ (V'.map toAurel).Nodup := List.nodup_cons.mp hn
    have hget : Dict.get? (pre ++ (toAurel v, L v) :: V'.map fun v => (toAurel v, L v)) (toAurel v) = some (L v) := by
      rw [get?_append_not_mem _ _ _ hk]; simp [Dict.get?]
    have hset : Dict.set (pre ++ (toAurel v, L v) :: V'.map fun v => (toAurel v, L v)) (toAurel v) (L v ++ [x v])
        = (pre ++ [(toAurel v, L v ++ [x v])]) ++ V'.map fun v => (toAurel v, L v) := by
      rw [set_append_not_mem _ _ _ _ hk]; simp [Dict.set]
    have hp : colPush (pre ++ (toAurel v, L v) :: V'.map fun v => (toAurel v, L v)) (toAurel v) (x v)
        = (pre ++ [(toAurel v, L v ++ [x v])]) ++ V'.map fun v => (toAurel v, L v) := by
      simp only [colPush, hget, hset]
    simp only [List.foldl_cons, List.map_cons, hp]
    rw [ih (pre ++ [(toAurel v, L v ++ [x v])]) (by
        intro w hw
        simp only [List.map_append, List.map_cons, List.map_nil, List.mem_append, List.mem_singleton, not_or]
        refine ⟨h w (List.mem_cons_of_mem _ hw), ?_⟩
        intro e
        exact hn'.1 (List.mem_map.mpr ⟨w, hw, e⟩)) hn'.2]
    simp

/-- the final loops `for iit in it: for v in var: var.setdefault(aurel_v, []) += [x]` -/
theorem push_all {β : Type} (toAurel : String → String) (V : List String) (hn : (V.map toAurel).Nodup)
    (X : Nat → String → β) (i0 : Nat) (M : List Nat) :
    (i0 :: M).foldl (fun cols i => V.foldl (fun c v => colPush c (toAurel v) (X i v)) cols) []
      = V.map fun v => (toAurel v, (i0 :: M).map fun i => X i v) := by
  have hlater : ∀ (M : List Nat) (L : String → List β),
      M.foldl (fun cols i => V.foldl (fun c v => colPush c (toAurel v) (X i v)) cols) (V.map fun v => (toAurel v, L v))
        = V.map fun v => (toAurel v, L v ++ M.map fun i => X i v) := by
    intro M
    induction M with
    | nil => intro L; simp
    | cons i M' ih =>
      intro L
      simp only [List.foldl_cons]
      have := push_later toAurel L (X i) V [] (by simp) hn
      simp only [List.nil_append] at this
      rw [this, ih (fun v => L v ++ [X i v])]
      simp
  simp only [List.foldl_cons]
  have := push_fresh toAurel (X i0) V [] (by simp) hn
  simp only [List.nil_append] at this
  rw [this, hlater M (fun v => [X i0 v])]
  simp

/-- **the ordinary case**: for every file handed over and every requested iteration the plan of `gvIt` is
regular and every (component, variable) look-up selects exactly the dataset `sel f iit c v`;
`crangeOf f iit` is the component range of the file at that iteration -/
structure Ordinary {α : Type} (cmax : CMax) (files : List (CFile α)) (vars : List String) (its : List Nat) (rl : Nat)
    (crangeOf : CFile α → Nat → List (Option Nat)) (sel : CFile α → Nat → Option Nat → String → DSet α) : Prop where
  plan : ∀ f ∈ files, ∀ iit ∈ sortedSet its, RegularPlan cmax f (relOf f iit rl) vars (crangeOf f iit) (sel f iit)

/-- everything filed at iteration `j`: files outer, components middle, variables inner -/
def itemsOf {α : Type} (crangeOf : CFile α → Nat → List (Option Nat))
    (sel : CFile α → Nat → Option Nat → String → DSet α) (vars : List String) (files : List (CFile α)) (j : Nat) :
    List (String × DSet α) :=
  files.flatMap fun f => gvItems (sel f j) (crangeOf f j) vars

/-- the datasets selected for variable `v` at iteration `j` in visiting order (files outer, components inner) -/
def selOf {α : Type} (crangeOf : CFile α → Nat → List (Option Nat))
    (sel : CFile α → Nat → Option Nat → String → DSet α) (files : List (CFile α)) (j : Nat) (v : String) :
    List (DSet α) :=
  files.flatMap fun f => (crangeOf f j).map fun c => sel f j c v

theorem regularPlan_crange_ne_nil {α : Type} {cmax : CMax} {f : CFile α} {rel : List (DSet α)} {vars : List String}
    {crange : List (Option Nat)} {sel : Option Nat → String → DSet α}
    (h : RegularPlan cmax f rel vars crange sel) : crange ≠ [] := by
  intro e
  rw [e] at h
  cases h with
  | perproc n hc hn hne hcr huniq => cases hcr
  | chunked amax hc ha hcs hmax hcr huniq => simp at hcr
  | single hc d0 rest hrel hnoc hcr huniq => cases hcr

theorem nodup_eraseDups' : ∀ (l : List Nat), l.eraseDups.Nodup
  | [] => by simp
  | a :: as => by
    rw [List.eraseDups_cons]
    have : (as.filter fun b => !b == a).length < as.length + 1 := Nat.lt_succ_of_le (List.length_filter_le _ _)
    refine List.nodup_cons.mpr ⟨?_, nodup_eraseDups' _⟩
    rw [List.mem_eraseDups]; simp
termination_by l => l.length

theorem nodup_sortedSet (its : List Nat) : (sortedSet its).Nodup :=
  ((sortNat_perm _).nodup_iff).mpr (nodup_eraseDups' its)

theorem sortedSet_ne_nil' (its : List Nat) (h : its ≠ []) : sortedSet its ≠ [] := by
  cases its with
  | nil => exact absurd rfl h
  | cons a as =>
    unfold sortedSet
    rw [List.eraseDups_cons]
    simp only [sortNat]
    generalize sortNat _ = l
    cases l with
    | nil => simp [insertNat]
    | cons y ys => simp only [insertNat]; split <;> simp

theorem init_get {β : Type} (M : List Nat) (j : Nat) (hj : j ∈ M) :
    Dict.get? (M.map fun i => (i, ([] : List β))) j = some [] := by
  induction M with
  | nil => cases hj
  | cons i M' ih =>
    by_cases e : i = j
    · simp [Dict.get?, e]
    · rcases List.mem_cons.mp hj with h | h
      · exact absurd h.symm e
      · simp [Dict.get?, e, ih h]

/-- the entries filed under `v` at iteration `j` are its selected datasets in visiting order -/
theorem entriesOf_items {α : Type} (crangeOf : CFile α → Nat → List (Option Nat))
    (sel : CFile α → Nat → Option Nat → String → DSet α) (vars : List String) (hn : vars.Nodup)
    (files : List (CFile α)) (j : Nat) (v : String) (hv : v ∈ vars) :
    entriesOf (itemsOf crangeOf sel vars files j) v
      = (selOf crangeOf sel files j v).map fun d => (d.iorigin, trimmed d) := by
  have hinner : ∀ s : String → DSet α,
      (vars.map fun v' => (v', s v')).filter (fun vd => vd.1 == v) = [(v, s v)] := by
    intro s
    have := filter_flatMap_var vars hn (fun v' => [s v']) v hv
    have e : ∀ l : List String, (l.flatMap fun v' => [(v', s v')]) = l.map fun v' => (v', s v') := by
      intro l
      induction l with
      | nil => rfl
      | cons a l' ih => simp [List.flatMap_cons, ih]
    simp only [List.map_cons, List.map_nil, e] at this
    exact this
  have hmid : ∀ (cr : List (Option Nat)) (s : Option Nat → String → DSet α),
      ((cr.flatMap fun c => vars.map fun v' => (v', s c v')).filter (fun vd => vd.1 == v)).map
          (fun vd => (vd.2.iorigin, trimmed vd.2))
        = (cr.map fun c => s c v).map fun d => (d.iorigin, trimmed d) := by
    intro cr s
    induction cr with
    | nil => rfl
    | cons c cr' ih =>
      simp only [List.flatMap_cons, List.filter_append, List.map_append, hinner (s c), ih, List.map_cons]
      rfl
  unfold entriesOf itemsOf selOf gvItems
  induction files with
  | nil => rfl
  | cons f fs ih =>
    simp only [List.flatMap_cons, List.filter_append, List.map_append, hmid, ih]

theorem joinChunks_nil {α : Type} : joinChunks ([] : Dict (Nat × Nat × Nat) (Arr3 α)) = none := rfl

/-- **`read_ET_group_or_var` in the ordinary case.**  `X iit v` is `fixij(join_chunks(...))` of the datasets selected
for `v` at iteration `iit` in visiting order.  The variable list is never rewritten, the time list is the time of the
last key read in the FIRST file, the columns come out in request order under `toAurel v` (`toAurel` injective on the
request without repetition: `(vars.map toAurel).Nodup`). -/
theorem readGroupOrVar_ordinary {α : Type} (toAurel : String → String) (cmax : CMax) (f0 : CFile α)
    (fs : List (CFile α)) (vars : List String) (its : List Nat) (rl : Nat)
    (crangeOf : CFile α → Nat → List (Option Nat)) (sel : CFile α → Nat → Option Nat → String → DSet α)
    (hvars : vars ≠ []) (hK : (vars.map toAurel).Nodup) (hits : its ≠ [])
    (hord : Ordinary cmax (f0 :: fs) vars its rl crangeOf sel) (X : Nat → String → Arr3 α)
    (hX : ∀ iit ∈ sortedSet its, ∀ v ∈ vars,
      (joinChunks (toDict ((selOf crangeOf sel (f0 :: fs) iit v).map fun d => (d.iorigin, trimmed d)))).map fixij
        = some (X iit v)) :
    readGroupOrVar toAurel cmax (f0 :: fs) vars its rl
      = some ((sortedSet its).map fun iit => lastTime (gvItems (sel f0 iit) (crangeOf f0 iit) vars),
          vars.map fun v => (toAurel v, (sortedSet its).map fun iit => X iit v)) := by
  have hn : vars.Nodup := List.Nodup.of_map _ hK
  have hne := sortedSet_ne_nil' its hits
  unfold readGroupOrVar
  simp only
  obtain ⟨g, hg, hv, hc, ht⟩ := gvFiles_ordinary cmax rl vars hvars (sortedSet its) (nodup_sortedSet its) crangeOf sel
    fs f0 true ⟨vars, (sortedSet its).map fun i => (i, []), none, none, []⟩ rfl hord.plan
  rw [hg]
  simp only [hv]
  rw [foldlM_some _ (fun cols iit => vars.foldl (fun c v => colPush c (toAurel v) (X iit v)) cols) (sortedSet its) ?_ []]
  · simp only [Option.map_some, ht, if_true, List.nil_append]
    rcases hM : sortedSet its with _ | ⟨i0, M'⟩
    · exact absurd hM hne
    · rw [push_all toAurel vars hK]
  · intro iit hi cols
    show _ = some (vars.foldl (fun c v => colPush c (toAurel v) (X iit v)) cols)
    apply foldlM_some
    intro v hvm acc
    have h1 : g.chunksOf.get? iit = some (vcFold (itemsOf crangeOf sel vars (f0 :: fs) iit) []) := by
      rw [hc iit hi, init_get _ _ hi]; rfl
    have hx := hX iit hi v hvm
    have hent := entriesOf_items crangeOf sel vars hn (f0 :: fs) iit v hvm
    have hnonempty : entriesOf (itemsOf crangeOf sel vars (f0 :: fs) iit) v ≠ [] := by
      rw [hent]
      intro e
      rw [e] at hx
      simp [toDict, joinChunks_nil] at hx
    have h2 : (vcFold (itemsOf crangeOf sel vars (f0 :: fs) iit) []).get? v
        = some (toDict ((selOf crangeOf sel (f0 :: fs) iit v).map fun d => (d.iorigin, trimmed d))) := by
      rw [← hent]; exact vc_get _ v hnonempty
    simp only [h1, Option.bind_some, h2, hx]

/-- the same with the joined array named: `some (J iit v) = join_chunks(var_chunks[iit][v])` -/
theorem readGroupOrVar_ordinary_join {α : Type} (toAurel : String → String) (cmax : CMax) (f0 : CFile α)
    (fs : List (CFile α)) (vars : List String) (its : List Nat) (rl : Nat)
    (crangeOf : CFile α → Nat → List (Option Nat)) (sel : CFile α → Nat → Option Nat → String → DSet α)
    (hvars : vars ≠ []) (hK : (vars.map toAurel).Nodup) (hits : its ≠ [])
    (hord : Ordinary cmax (f0 :: fs) vars its rl crangeOf sel) (J : Nat → String → Arr3 α)
    (hJ : ∀ iit ∈ sortedSet its, ∀ v ∈ vars,
      joinChunks (toDict ((selOf crangeOf sel (f0 :: fs) iit v).map fun d => (d.iorigin, trimmed d)))
        = some (J iit v)) :
    readGroupOrVar toAurel cmax (f0 :: fs) vars its rl
      = some ((sortedSet its).map fun iit => lastTime (gvItems (sel f0 iit) (crangeOf f0 iit) vars),
          vars.map fun v => (toAurel v, (sortedSet its).map fun iit => fixij (J iit v))) :=
  readGroupOrVar_ordinary toAurel cmax f0 fs vars its rl crangeOf sel hvars hK hits hord
    (fun iit v => fixij (J iit v)) (fun iit hi v hv => by rw [hJ iit hi v hv]; rfl)

/-! ### E. exact read-back -/

/-- the 3D output files hold, on level `rl`, for every requested iteration `iit` the interior grids `A iit v` at time
`tm iit`: the reader is in the ordinary case and, for every iteration and variable, the datasets selected over all
files are — in ANY enumeration order — the chunks of a hierarchical decomposition of `A iit v`, each surrounded by
ghost layers of the recorded widths (≥ 1) holding arbitrary values -/
def GoodGV {α : Type} (cmax : CMax) (files : List (CFile α)) (vars : List String) (its : List Nat) (rl : Nat)
    (A : Nat → String → Arr3 α) (tm : Nat → Nat) : Prop :=
  ∃ (crangeOf : CFile α → Nat → List (Option Nat)) (sel : CFile α → Nat → Option Nat → String → DSet α),
    Ordinary cmax files vars its rl crangeOf sel
    ∧ ∀ iit ∈ sortedSet its, ∃ (nz ny nx : Nat) (D : ZSplit) (base : Nat × Nat × Nat) (gx gy gz : Nat),
        1 ≤ gx ∧ 1 ≤ gy ∧ 1 ≤ gz ∧ 0 < nz ∧ 0 < ny ∧ 0 < nx ∧ D.Valid nz ny nx
        ∧ ∀ v ∈ vars, Rect (A iit v) nz ny nx ∧ ∃ l : Dict (Nat × Nat × Nat) (Arr3 α), l.Perm (chunks base (A iit v) D)
            ∧ Rel₂ (fun (d : DSet α) ki => d.iorigin = ki.1 ∧ d.ghost = (gx, gy, gz) ∧ d.time = tm iit
                      ∧ PadZ gx gy gz d.data ki.2)
                (selOf crangeOf sel files iit v) l

/-- **`read_ET_group_or_var` reads well-formed 3D output back exactly** -/
theorem readGroupOrVar_exact {α : Type} (toAurel : String → String) (cmax : CMax) (f0 : CFile α)
    (fs : List (CFile α)) (vars : List String) (its : List Nat) (rl : Nat)
    (hvars : vars ≠ []) (hK : (vars.map toAurel).Nodup) (hits : its ≠ [])
    (A : Nat → String → Arr3 α) (tm : Nat → Nat) (h : GoodGV cmax (f0 :: fs) vars its rl A tm) :
    readGroupOrVar toAurel cmax (f0 :: fs) vars its rl
      = some ((sortedSet its).map tm, vars.map fun v => (toAurel v, (sortedSet its).map fun iit => fixij (A iit v))) := by
  obtain ⟨crangeOf, sel, hord, hgood⟩ := h
  have htime : ∀ iit ∈ sortedSet its, lastTime (gvItems (sel f0 iit) (crangeOf f0 iit) vars) = tm iit := by
    intro iit hi
    obtain ⟨nz, ny, nx, D, base, gx, gy, gz, _, _, _, _, _, _, _, hphys⟩ := hgood iit hi
    obtain ⟨x, hx, hm⟩ := gvItems_getLast (sel f0 iit) (crangeOf f0 iit) vars
      (regularPlan_crange_ne_nil (hord.plan f0 (List.mem_cons_self ..) iit hi)) hvars
    obtain ⟨c, hc, hm'⟩ := List.mem_flatMap.mp hm
    obtain ⟨v, hv, e⟩ := List.mem_map.mp hm'
    obtain ⟨_, l, _, hrel⟩ := hphys v hv
    have := rel2_forall_left _ (fun d => d.time = tm iit) (fun d ki h => h.2.2.1) _ l hrel (sel f0 iit c v)
      (List.mem_flatMap.mpr ⟨f0, List.mem_cons_self .., List.mem_map.mpr ⟨c, hc, rfl⟩⟩)
    simp [lastTime, hx, ← e, this]
  rw [readGroupOrVar_ordinary toAurel cmax f0 fs vars its rl crangeOf sel hvars hK hits hord
    (fun iit v => fixij (A iit v)) ?_]
  · rw [List.map_congr_left htime]
  · intro iit hi v hv
    obtain ⟨nz, ny, nx, D, base, gx, gy, gz, hgx, hgy, hgz, hz, hy, hx, hD, hphys⟩ := hgood iit hi
    obtain ⟨hA, l, hperm, hrel⟩ := hphys v hv
    have htr : (selOf crangeOf sel (f0 :: fs) iit v).map (fun d => (d.iorigin, trimmed d))
        = ((selOf crangeOf sel (f0 :: fs) iit v).map fun d => (d.iorigin, d.data)).map
            fun kb => (kb.1, trimGhost gx gy gz kb.2) := by
      rw [List.map_map]
      apply List.map_congr_left
      intro d hd
      have := rel2_forall_left _ (fun d => d.ghost = (gx, gy, gz)) (fun d ki h => h.2.1) _ l hrel d hd
      simp [trimmed, this]
    rw [htr]
    exact read_chunks_lemma (A iit v) nz ny nx hA hz hy hx D hD base l hperm gx gy gz hgx hgy hgz _
      (rel2_map_left (fun d : DSet α => (d.iorigin, d.data)) _ _ l
        (rel2_imp _ _ (fun d ki h => ⟨h.1, h.2.2.2⟩) _ l hrel))

/-! ### Non-vacuity: two per-process files, iterations 0 and 8, 3×3×3 blocks with ghost (1,1,1) -/

/-- a 3×3×3 block whose interior is the single value `v` -/
def gvBlock (v : Nat) : Arr3 Nat :=
  [[[9, 9, 9], [9, 9, 9], [9, 9, 9]], [[8, 8, 8], [7, v, 7], [8, 8, 8]], [[9, 9, 9], [6, 6, 6], [9, 9, 9]]]

def gvD (it c : Nat) : DSet Nat :=
  { thorn := "ADMBASE", var := "alp", it := it, tl := 0, rl := some 0, c := some c, ghost := (1, 1, 1),
    iorigin := (c, 0, 0), time := 500 + it, data := gvBlock (50 + it + c) }

def gvF (c : Nat) : CFile Nat := ⟨0, some c, [gvD 0 c, gvD 8 c]⟩

/-- the literal model on the instance: both iterations, the two components joined along x -/
example : (readGroupOrVar id (CMax.num 1) [gvF 0, gvF 1] ["alp"] [8, 0, 8] 0).map
      (fun r => (r.1, r.2.map fun kc => (kc.1, kc.2.map fun a => a.flatten.flatten)))
    = some ([500, 508], [("alp", [[50, 51], [58, 59]])]) := by
  decide +kernel

/-- `gvVars_singles` -/
example : ∀ v ∈ (⟨["alp"], [], none⟩ : St Nat).var.drop 0,
    [gvD 0 0].filter (fun d => matchesVar d v) = [(fun _ => gvD 0 0) v] := by
  intro v hv
  have : v = "alp" := by simpa using hv
  subst this; rfl

/-- `gvChunks_ordinary`, `gvChunks_cons`, `gvChunks_noc` -/
example : ∀ c ∈ [some 0, some 1], ∀ v ∈ (⟨["alp"], [(0, [])], none, none, []⟩ : GSt Nat).var,
    ([gvD 0 0, gvD 0 1].filter fun d => d.c == c).filter (fun d => matchesVar d v)
      = [(fun c _ => gvD 0 (c.getD 0)) c v] := by
  intro c hc v hv
  have hv' : v = "alp" := by simpa using hv
  subst hv'
  simp only [List.mem_cons, List.mem_singleton, List.not_mem_nil, or_false] at hc
  rcases hc with rfl | rfl <;> rfl
example : ∀ v ∈ (⟨["alp"], [(0, [])], none, none, []⟩ : GSt Nat).var,
    [{ gvD 0 0 with c := none }].filter (fun d => matchesVar d v) = [(fun _ => { gvD 0 0 with c := none }) v] := by
  intro v hv
  have hv' : v = "alp" := by simpa using hv
  subst hv'; rfl

theorem gv_sortedSet : sortedSet [0, 8] = [0, 8] := by decide

/-- the instance is in the ordinary case (`RegularPlan.perproc`); the hypotheses of `gvIt_ordinary`, `gvIt_fold`,
`gvFiles_ordinary` -/
theorem gvOrdinary : Ordinary (CMax.num 1) [gvF 0, gvF 1] ["alp"] [0, 8] 0 (fun f _ => [f.fileNo])
    (fun _ iit c _ => gvD iit (c.getD 0)) := by
  refine ⟨?_⟩
  intro f hf iit hi
  rw [gv_sortedSet] at hi
  simp only [List.mem_cons, List.mem_singleton, List.not_mem_nil, or_false] at hf hi
  have key : ∀ c it, (c = 0 ∨ c = 1) → (it = 0 ∨ it = 8) →
      RegularPlan (CMax.num 1) (gvF c) (relOf (gvF c) it 0) ["alp"] [(gvF c).fileNo]
        (fun c' _ => gvD it (c'.getD 0)) := by
    intro c it hc hit
    refine RegularPlan.perproc 1 rfl (by decide) ?_ rfl ?_
    · rcases hc with rfl | rfl <;> rcases hit with rfl | rfl <;> decide
    · intro v hv
      have hv' : v = "alp" := by simpa using hv
      subst hv'
      rcases hc with rfl | rfl <;> rcases hit with rfl | rfl <;> rfl
  rcases hf with rfl | rfl
  · exact key 0 iit (Or.inl rfl) hi
  · exact key 1 iit (Or.inr rfl) hi

example : RegularPlan (CMax.num 1) (gvF 1) (relOf (gvF 1) 8 0) ["alp"] [(gvF 1).fileNo] (fun c' _ => gvD 8 (c'.getD 0)) :=
  gvOrdinary.plan (gvF 1) (by simp) 8 (by rw [gv_sortedSet]; simp)

/-- the instance is well-formed: `A iit "alp" = [[[50+iit, 51+iit]]]` cut along x into two chunks -/
theorem gvGood : GoodGV (CMax.num 1) [gvF 0, gvF 1] ["alp"] [0, 8] 0 (fun iit _ => [[[50 + iit, 50 + iit + 1]]])
    (fun iit => 500 + iit) := by
  refine ⟨_, _, gvOrdinary, ?_⟩
  intro iit hi
  refine ⟨1, 1, 2, [(1, [(1, [1, 1])])], (0, 0, 0), 1, 1, 1, Nat.le_refl _, Nat.le_refl _, Nat.le_refl _,
    Nat.one_pos, Nat.one_pos, by omega, ?_, ?_⟩
  · unfold ZSplit.Valid YSplit.Valid XSplit.Valid; decide
  · intro v _
    refine ⟨⟨rfl, ?_⟩, chunks (0, 0, 0) [[[50 + iit, 50 + iit + 1]]] [(1, [(1, [1, 1])])], List.Perm.refl _, ?_⟩
    · intro p hp
      simp only [List.mem_singleton] at hp
      subst hp
      refine ⟨rfl, ?_⟩
      intro r hr
      simp only [List.mem_singleton] at hr
      subst hr; rfl
    · have hpad : ∀ w, PadZ 1 1 1 (gvBlock w) [[[w]]] := fun w =>
        ⟨[[[9, 9, 9], [9, 9, 9], [9, 9, 9]]], [[[9, 9, 9], [6, 6, 6], [9, 9, 9]]], [[[8, 8, 8], [7, w, 7], [8, 8, 8]]],
          rfl, rfl, rfl,
          ⟨⟨[[8, 8, 8]], [[8, 8, 8]], [[7, w, 7]], rfl, rfl, rfl, ⟨⟨[7], [7], rfl, rfl, rfl⟩, trivial⟩⟩, trivial⟩⟩
      exact ⟨⟨rfl, rfl, rfl, hpad (50 + iit)⟩, ⟨rfl, rfl, rfl, hpad (50 + iit + 1)⟩, trivial⟩

/-- `readGroupOrVar_exact` (hence `readGroupOrVar_ordinary`) applies to the instance -/
example : readGroupOrVar id (CMax.num 1) [gvF 0, gvF 1] ["alp"] [0, 8] 0
    = some ((sortedSet [0, 8]).map (fun iit => 500 + iit),
        ["alp"].map fun v => (id v, (sortedSet [0, 8]).map fun iit => fixij [[[50 + iit, 50 + iit + 1]]])) :=
  readGroupOrVar_exact id (CMax.num 1) (gvF 0) [gvF 1] ["alp"] [0, 8] 0 (by simp) (by simp) (by simp) _ _ gvGood

end AurelVerif.GroupOrVarLemmas
