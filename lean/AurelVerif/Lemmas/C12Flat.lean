/-
Lemmas/C12Flat.lean — the final flattening of Model/ReadCacheX.lean (`flattenX`):
if every restart's table delivers, for every requested name, the expected entry at
every position (or lacks the column where `None` is expected), the flattening does
not raise, the rows are the (iteration, restart) pairs in the order of the two
loops, and every requested name has the expected value in every row — whatever the
order of the columns, and whether a `None` comes from a `None` entry or from a
column the restart does not have.
-/
import AurelVerif.Lemmas.C12Pres
import AurelVerif.Lemmas.C11Restarts
namespace AurelVerif.ReadCacheXLemmas
open AurelVerif.Chunks AurelVerif.ReadCache AurelVerif.ReadCacheX AurelVerif.ReadCacheLemmas
  AurelVerif.ChunksLemmas
set_option linter.unusedSimpArgs false

/-- `data[n][i]` of a returned row; `None` also when the result has no column `n` -/
def cellVal {β : Type} (cells : List (DName × Option β)) (n : DName) : Option β :=
  (Dict.get? cells n).getD none

/-- `datar[restart][n][idx]`: `some none` also when the restart has no column `n`
(the flattening then appends `None`); `none` = IndexError -/
def colVal {β : Type} (cols : Dict DName (List (Option β))) (n : DName) (idx : Nat) : Option (Option β) :=
  match cols.get? n with
  | some col => col[idx]?
  | none => some none

theorem cellAt_eq {β : Type} (T : Tab β) (idx : Nat) (k : DName) :
    cellAt T idx k = (colVal T.cols k idx).map fun v => (k, v) := by
  unfold cellAt colVal
  cases T.cols.get? k with
  | none => rfl
  | some col =>
    simp only
    cases col[idx]? <;> rfl

/-! ### the union of the columns -/

theorem mem_addKey (ks : List DName) (k x : DName) : x ∈ addKey ks k ↔ x ∈ ks ∨ x = k := by
  unfold addKey
  split
  · rename_i h
    have hk : k ∈ ks := by simpa using h
    constructor
    · exact Or.inl
    · rintro (h | rfl) <;> assumption
  · simp

theorem addKey_nodup (ks : List DName) (k : DName) (h : ks.Nodup) : (addKey ks k).Nodup := by
  unfold addKey
  split
  · exact h
  · rename_i hk
    have hk' : k ∉ ks := by simpa using hk
    exact List.nodup_append.mpr ⟨h, by simp, by
      intro a ha b hb; simp at hb; subst hb; intro e; subst e; exact hk' ha⟩

theorem foldl_addKey_mem (K ks : List DName) (x : DName) : x ∈ K.foldl addKey ks ↔ x ∈ ks ∨ x ∈ K := by
  induction K generalizing ks with
  | nil => simp
  | cons k rest ih =>
    simp only [List.foldl_cons, ih, mem_addKey, List.mem_cons]
    constructor
    · rintro ((h | h) | h)
      · exact Or.inl h
      · exact Or.inr (Or.inl h)
      · exact Or.inr (Or.inr h)
    · rintro (h | h | h)
      · exact Or.inl (Or.inl h)
      · exact Or.inl (Or.inr h)
      · exact Or.inr h

theorem foldl_addKey_nodup (K ks : List DName) (h : ks.Nodup) : (K.foldl addKey ks).Nodup := by
  induction K generalizing ks with
  | nil => exact h
  | cons k rest ih => exact ih _ (addKey_nodup ks k h)

theorem unionKeys_aux {β : Type} (datar : List (Nat × Tab β)) (ks : List DName) (hn : ks.Nodup) :
    (datar.foldl (fun ks d => (d.2.cols.map Prod.fst).foldl addKey ks) ks).Nodup ∧
      ∀ x, x ∈ datar.foldl (fun ks d => (d.2.cols.map Prod.fst).foldl addKey ks) ks ↔
        x ∈ ks ∨ ∃ d ∈ datar, x ∈ d.2.cols.map Prod.fst := by
  induction datar generalizing ks with
  | nil => exact ⟨hn, fun x => by simp⟩
  | cons d rest ih =>
    simp only [List.foldl_cons]
    obtain ⟨h1, h2⟩ := ih _ (foldl_addKey_nodup (d.2.cols.map Prod.fst) ks hn)
    refine ⟨h1, fun x => ?_⟩
    rw [h2 x, foldl_addKey_mem]
    constructor
    · rintro ((h | h) | ⟨e, he, hx⟩)
      · exact Or.inl h
      · exact Or.inr ⟨d, List.mem_cons_self .., h⟩
      · exact Or.inr ⟨e, List.mem_cons_of_mem _ he, hx⟩
    · rintro (h | ⟨e, he, hx⟩)
      · exact Or.inl (Or.inl h)
      · rcases List.mem_cons.mp he with rfl | he
        · exact Or.inl (Or.inr hx)
        · exact Or.inr ⟨e, he, hx⟩

theorem unionKeys_nodup {β : Type} (datar : List (Nat × Tab β)) : (unionKeys datar).Nodup :=
  (unionKeys_aux datar [] List.nodup_nil).1

theorem mem_unionKeys {β : Type} (datar : List (Nat × Tab β)) (x : DName) :
    x ∈ unionKeys datar ↔ ∃ d ∈ datar, x ∈ d.2.cols.map Prod.fst := by
  have := (unionKeys_aux datar [] List.nodup_nil).2 x
  simpa [unionKeys] using this

/-! ### `mapOpt` -/

theorem mapOpt_id_map {γ δ : Type} (f : γ → Option δ) (h : γ → δ) (l : List γ)
    (hf : ∀ x ∈ l, f x = some (h x)) : mapOpt (fun x => x) (l.map f) = some (l.map h) := by
  induction l with
  | nil => rfl
  | cons x xs ih =>
    simp only [List.map_cons, mapOpt, hf x (List.mem_cons_self ..),
      ih (fun y hy => hf y (List.mem_cons_of_mem _ hy))]

/-! ### the rows -/

/-- the value the flattening must deliver for name `n`, iteration `i`, restart `R` -/
def expect {β : Type} (w : World β) (rl : Nat) (R i : Nat) (n : DName) : Option β :=
  if hasName w R n then some (w.src ⟨R, i, n, rl⟩) else none

/-- a restart's table has an entry at every position of every column (the flattening does
not run out of range) and delivers the expected entry for every name of `names` at every
position (a name it has no column for: `None` is expected) -/
structure TabSpec {β : Type} (w : World β) (rl : Nat) (names : List DName) (d : Nat × Tab β) : Prop where
  wf : ∀ k ∈ d.2.cols.map Prod.fst, ∀ (idx i : Nat), d.2.its[idx]? = some i → ∃ v, colVal d.2.cols k idx = some v
  vals : ∀ n ∈ names, ∀ (idx i : Nat), d.2.its[idx]? = some i → colVal d.2.cols n idx = some (expect w rl d.1 i n)

/-- the (iteration, restart) pairs in the order of `for iit in old_it: for restart in datar` -/
def pairsOf {β : Type} (sits : List Nat) (datar : List (Nat × Tab β)) : List (Nat × Nat) :=
  sits.flatMap fun iit => datar.filterMap fun d => if iit ∈ d.2.its then some (iit, d.1) else none

theorem get?_map_keys {β : Type} (keys : List DName) (hn : keys.Nodup) (f : DName → Option β) (n : DName) :
    Dict.get? (keys.map fun k => (k, f k)) n = if n ∈ keys then some (f n) else none := by
  induction keys with
  | nil => simp [Dict.get?]
  | cons k rest ih =>
    simp only [List.map_cons, Dict.get?, List.mem_cons]
    have hn' := List.nodup_cons.mp hn
    by_cases hk : k = n
    · subst hk; simp
    · have hk' : ¬ n = k := fun e => hk e.symm
      simp only [hk, if_false, ih hn'.2, hk', false_or]

theorem rowAt_spec {β : Type} (keys : List DName) (d : Nat × Tab β)
    (hwf : ∀ k ∈ d.2.cols.map Prod.fst, ∀ (idx i : Nat), d.2.its[idx]? = some i → ∃ v, colVal d.2.cols k idx = some v)
    (iit : Nat) (hi : iit ∈ d.2.its) :
    rowAt keys d iit
      = some (iit, d.1, keys.map fun k => (k, (colVal d.2.cols k (nearestIdx d.2.its iit)).getD none)) := by
  unfold rowAt
  simp only
  have hidx := nearest_exact_lemma d.2.its iit hi
  rw [hidx]
  have hcells : mapOpt (cellAt d.2 (nearestIdx d.2.its iit)) keys
      = some (keys.map fun k => (k, (colVal d.2.cols k (nearestIdx d.2.its iit)).getD none)) := by
    apply mapOpt_eq_map
    intro k _
    rw [cellAt_eq]
    by_cases hk : k ∈ d.2.cols.map Prod.fst
    · obtain ⟨v, hv⟩ := hwf k hk _ iit hidx
      rw [hv]; rfl
    · have hnone : d.2.cols.get? k = none := (get?_none_iff _ _).mpr hk
      simp [colVal, hnone]
  rw [hcells]

/-- **the flattening on tables that meet their specification** -/
theorem flattenX_spec {β : Type} (w : World β) (rl : Nat) (names : List DName) (sits : List Nat)
    (datar : List (Nat × Tab β)) (hall : ∀ d ∈ datar, TabSpec w rl names d) :
    ∃ rows, flattenX sits datar = some rows ∧
      rows.map (fun r => (r.1, r.2.1)) = pairsOf sits datar ∧
      ∀ row ∈ rows, ∀ n ∈ names, cellVal row.2.2 n = expect w rl row.2.1 row.1 n := by
  -- the list of optional rows is a list of `some`
  have hrows : (sits.flatMap fun iit => datar.filterMap fun d =>
        if iit ∈ d.2.its then some (rowAt (unionKeys datar) d iit) else none)
      = (sits.flatMap fun iit => datar.filterMap fun d =>
        if iit ∈ d.2.its then some (iit, d) else none).map
          (fun p => rowAt (unionKeys datar) p.2 p.1) := by
    rw [List.map_flatMap]
    apply List.flatMap_congr
    intro iit _
    rw [List.map_filterMap]
    apply List.filterMap_congr
    intro d _
    split <;> simp
  have hmem : ∀ p ∈ (sits.flatMap fun iit => datar.filterMap fun d =>
      if iit ∈ d.2.its then some (iit, d) else none), p.2 ∈ datar ∧ p.1 ∈ p.2.2.its := by
    intro p hp
    obtain ⟨iit, _, hp⟩ := List.mem_flatMap.mp hp
    obtain ⟨d, hd, hp⟩ := List.mem_filterMap.mp hp
    split at hp
    · rename_i hi; cases hp; exact ⟨hd, hi⟩
    · cases hp
  refine ⟨(sits.flatMap fun iit => datar.filterMap fun d =>
      if iit ∈ d.2.its then some (iit, d) else none).map
        (fun p => (p.1, p.2.1, (unionKeys datar).map fun k =>
          (k, (colVal p.2.2.cols k (nearestIdx p.2.2.its p.1)).getD none))), ?_, ?_, ?_⟩
  · unfold flattenX
    rw [hrows]
    apply mapOpt_id_map
    intro p hp
    exact rowAt_spec (unionKeys datar) p.2 (hall p.2 (hmem p hp).1).wf p.1 (hmem p hp).2
  · unfold pairsOf
    rw [List.map_map, List.map_flatMap]
    apply List.flatMap_congr
    intro iit _
    rw [List.map_filterMap]
    apply List.filterMap_congr
    intro d _
    split <;> simp
  · intro row hrow n hn
    obtain ⟨p, hp, rfl⟩ := List.mem_map.mp hrow
    have hd := (hmem p hp).1
    have hidx := nearest_exact_lemma p.2.2.its p.1 (hmem p hp).2
    have hv := (hall p.2 hd).vals n hn _ p.1 hidx
    simp only [cellVal]
    rw [get?_map_keys _ (unionKeys_nodup datar)]
    split
    · simp only [Option.getD_some, hv]
    · rename_i hk
      -- no restart has the column: the restart of this row expects `None`
      have hnone : p.2.2.cols.get? n = none := by
        rw [get?_none_iff]
        intro hcon
        exact hk ((mem_unionKeys datar n).mpr ⟨p.2, hd, hcon⟩)
      simp only [colVal, hnone, Option.some.injEq] at hv
      simp only [Option.getD_none]
      exact hv

/-- the rows never depend on the tables beyond their iterations -/
theorem pairsOf_eq {β : Type} (sits : List Nat) (datar : List (Nat × Tab β)) :
    pairsOf sits datar = RestartsLemmas.rowsLoop (datar.map fun d => (d.1, d.2.its)) sits := by
  unfold pairsOf RestartsLemmas.rowsLoop RestartsLemmas.hits
  apply List.flatMap_congr
  intro iit _
  rw [List.filterMap_map, List.map_filterMap]
  apply List.filterMap_congr
  intro d _
  simp only [Function.comp]
  split <;> simp

end AurelVerif.ReadCacheXLemmas
