/-
Lemmas/C04Codazzi.lean — Layer B (consistency): the CODAZZI relation as an off-shell identity.

The components `R_ijkt` of the textbook Riemann tensor (`riemannDown`) of the 4-metric assembled
from (α, β, γ) equal, in the coordinate basis, `β^l R_ijkl + α(D_jK_ik − D_iK_jk)` with
`R_ijkl = ³R_ijkl + K_ikK_jl − K_ilK_jk` — exactly `Spec.Curvature.codazzi` (Shibata 2.41 with
`∂_t = αn + β`), which is what core.py assembles.

Hypotheses: `Jet.LeviCivita` (as for the connection) and `JetC.Smooth` (second derivatives commute,
`∂_iK_jk` symmetric in `jk`); the mixed derivative `∂_i∂_tγ_jk` is `∂_i` of the kinematic relation
expanded by the Leibniz rule (`JetC.ddtgam`), `∂_j∂_k g_ti` by the product rule (`ddmetric3p1`).
Nothing here mentions generated code.
-/
import AurelVerif.Lemmas.C04Gauss

set_option linter.unusedSimpArgs false
set_option linter.unusedVariables false
set_option linter.unusedTactic false
set_option linter.unreachableTactic false

namespace AurelVerif.Spec.Curvature.JetC
open AurelVerif.Tensor AurelVerif.CoreTac AurelVerif.C04L AurelVerif.Spec.Curvature.Jet

variable {K : Type} [Field K] (J : JetC K)

local notation "Γ₁" => christoffel1 J.dg4
local notation "γΓ" => christoffel1 J.dgam

/-- `∂_iγ_jk` is symmetric in `jk` (metric compatibility with a symmetric metric). -/
theorem dgam_symm (h : J.LeviCivita) (i j k : Fin 3) : J.dgam i j k = J.dgam i k j := by
  rw [h.mc i j k, h.mc i k j]
  have : ∀ a b : Fin 3, ∑ l, J.gam l a * J.Gam3 l i b = ∑ l, J.gam a l * J.Gam3 l i b :=
    fun a b => Finset.sum_congr rfl fun l _ => by rw [h.symg l a]
  rw [this k j, this j k]; ring

/-- the second-derivative part of `³R_ijkm`. -/
def S3 (i j k m : Fin 3) : K :=
  (1 / 2) * (J.ddgam j k i m + J.ddgam i m j k - J.ddgam i k j m - J.ddgam j m i k)

set_option maxHeartbeats 1000000 in
/-- the second-derivative part of `R_ijkt`:
`½(∂_j∂_k g_it + ∂_i∂_t γ_jk − ∂_i∂_k g_jt − ∂_j∂_t γ_ik)
   = β^m S3_ijkm + α(∂_jK_ik − ∂_iK_jk) − (∂_iα K_jk − ∂_jα K_ik) + ∂_jβ^m ³Γ_{m|ik} − ∂_iβ^m ³Γ_{m|jk}`. -/
theorem codazzi_second (h : J.LeviCivita) (hs : J.Smooth) : ∀ i j k : Fin 3,
    (1 / 2) * (J.ddg4 j.succ k.succ i.succ 0 + J.ddg4 i.succ 0 j.succ k.succ
        - J.ddg4 i.succ k.succ j.succ 0 - J.ddg4 j.succ 0 i.succ k.succ)
      = ∑ m, J.beta m * J.S3 i j k m + J.alpha * (J.dK j i k - J.dK i j k)
        - (J.da i * J.Kd j k - J.da j * J.Kd i k)
        + ∑ m, J.db j m * γΓ m i k - ∑ m, J.db i m * γΓ m j k := by
  have h2 := h.two
  have g10 := h.symg 1 0; have g20 := h.symg 2 0; have g21 := h.symg 2 1
  have K10 := h.symK 1 0; have K20 := h.symK 2 0; have K21 := h.symK 2 1
  have d10 := fun i => dgam_symm J h i 1 0
  have d20 := fun i => dgam_symm J h i 2 0
  have d21 := fun i => dgam_symm J h i 2 1
  have k10 := fun i j => hs.ddgam_kl 1 0 i j
  have k20 := fun i j => hs.ddgam_kl 2 0 i j
  have k21 := fun i j => hs.ddgam_kl 2 1 i j
  have i10 := fun k l => hs.ddgam_ij k l 1 0
  have i20 := fun k l => hs.ddgam_ij k l 2 0
  have i21 := fun k l => hs.ddgam_ij k l 2 1
  have b21 := fun m => hs.ddb 2 1 m
  have b31 := fun m => hs.ddb 3 1 m
  have b32 := fun m => hs.ddb 3 2 m
  simp only [ddg4, ddmetric3p1, dd4gam, ddtgam, S3, christoffel1, d4a, d4b, d4gam, tsplit_succ, tsplit_0]
  cases3 <;> cases3 <;> cases3 <;>
    (simp only [Fin.sum_univ_three, succ3_0, succ3_1, succ3_2, g10, g20, g21, K10, K20, K21, d10, d20, d21,
       k10, k20, k21, i10, i20, i21, b21, b31, b32]
     field_simp
     ring)

/-- `g^{ef} Γ_{e|jk} Γ_{f|it} = Γ^p_jk Γ_{p|it} + K_jk(∂_iα − β^mK_mi)`. -/
theorem quad_ss_s0 (h : J.LeviCivita) (j k i : Fin 3) :
    ∑ e, ∑ f, J.gup3p1 e f * (Γ₁ e j.succ k.succ * Γ₁ f i.succ 0)
      = ∑ p : Fin 3, J.Gam3 p j k * Γ₁ p.succ i.succ 0 + J.Kd j k * (J.da i - ∑ m, J.beta m * J.Kd m i) := by
  have ha := h.ha
  rw [gup3p1_contract]
  simp only [c1_sss]
  rw [gamup_c1 J.toJet h j k (fun n => Γ₁ n.succ i.succ 0), c1_0s0 J.toJet h i, c1_0ss J.toJet h j k]
  field_simp
  ring

/-- `g^{ef} Γ_{e|jt} Γ_{f|ik} = Γ^p_ik Γ_{p|jt} + K_ik(∂_jα − β^mK_mj)`. -/
theorem quad_s0_ss (h : J.LeviCivita) (j i k : Fin 3) :
    ∑ e, ∑ f, J.gup3p1 e f * (Γ₁ e j.succ 0 * Γ₁ f i.succ k.succ)
      = ∑ p : Fin 3, J.Gam3 p i k * Γ₁ p.succ j.succ 0 + J.Kd i k * (J.da j - ∑ m, J.beta m * J.Kd m j) := by
  have ha := h.ha
  rw [gup3p1_contract]
  simp only [c1_sss]
  rw [gamup_c1' J.toJet h i k (fun n => Γ₁ n.succ j.succ 0), c1_0s0 J.toJet h j, c1_0ss J.toJet h i k]
  field_simp
  ring

/-- `³R_ijkl = S3_ijkl + Γ^p_jk ³Γ_{p|il} − Γ^p_jl ³Γ_{p|ik}`. -/
theorem riem3_eq (h : J.LeviCivita) (i j k l : Fin 3) :
    J.riem3 i j k l = J.S3 i j k l + ∑ p, J.Gam3 p j k * γΓ p i l - ∑ p, J.Gam3 p j l * γΓ p i k := by
  unfold riem3 riemannDown S3
  simp only [mul_sub, Finset.sum_sub_distrib]
  rw [gamup_c1 J.toJet h j k (fun n => γΓ n i l), gamup_c1 J.toJet h j l (fun n => γΓ n i k)]
  ring

set_option maxHeartbeats 1000000 in
/-- **Codazzi** (off-shell), 3+1 inverse metric. -/
theorem codazzi_gup3p1 (h : J.LeviCivita) (hs : J.Smooth) : ∀ i j k : Fin 3,
    J.riem4 J.gup3p1 i.succ j.succ k.succ 0
      = codazzi J.alpha J.beta (gauss J.riem3 J.Kd) (J.covdK J.dK) i j k := by
  intro i j k
  have e1 : J.riem4 J.gup3p1 i.succ j.succ k.succ 0
      = (1 / 2) * (J.ddg4 j.succ k.succ i.succ 0 + J.ddg4 i.succ 0 j.succ k.succ
          - J.ddg4 i.succ k.succ j.succ 0 - J.ddg4 j.succ 0 i.succ k.succ)
        + (∑ e, ∑ f, J.gup3p1 e f * (Γ₁ e j.succ k.succ * Γ₁ f i.succ 0)
          - ∑ e, ∑ f, J.gup3p1 e f * (Γ₁ e j.succ 0 * Γ₁ f i.succ k.succ)) := by
    unfold riem4 riemannDown
    simp only [mul_sub, Finset.sum_sub_distrib]
  rw [e1, codazzi_second J h hs i j k, quad_ss_s0 J h j k i, quad_s0_ss J h j i k]
  clear e1
  simp only [codazzi, gauss, riem3_eq J h, c1_ss0 J.toJet h, c1_gam J.toJet h, covdK]
  lc_syms h
  revert i j k
  cases3 <;> cases3 <;> cases3 <;>
    (simp only [Fin.sum_univ_three, g10, g20, g21, K10, K20, K21, G010, G020, G021, G110, G120, G121, G210, G220,
       G221]
     ring)

/-- **Codazzi** for any left inverse `gup` of the assembled metric. -/
theorem codazzi_identity (h : J.LeviCivita) (hs : J.Smooth) (gup : Fin 4 → Fin 4 → K)
    (hinv : ∀ a a', ∑ d, gup a d * J.g4 d a' = delta a a') (i j k : Fin 3) :
    J.riem4 gup i.succ j.succ k.succ 0
      = codazzi J.alpha J.beta (gauss J.riem3 J.Kd) (J.covdK J.dK) i j k := by
  have hg : gup = J.gup3p1 := by funext a b; exact gup_unique J.toJet h gup hinv a b
  rw [hg]; exact codazzi_gup3p1 J h hs i j k

end AurelVerif.Spec.Curvature.JetC
