/-
Lemmas/C04Gamma.lean — Layer B (consistency): the 4-D Christoffel symbols written in
3+1 pieces (`Spec.Curvature.Jet.christoffel3p1`) are the Christoffel symbols
`½ g^{ad}(∂_b g_dc + ∂_c g_db − ∂_d g_bc)` of the assembled 4-metric, for every jet
satisfying `Jet.LeviCivita` (symmetric γ, K; torsion-free metric-compatible spatial
connection; γ^{-1}; α ≠ 0), with `∂_t γ_ij` given by the kinematic relation and the
derivatives of `g_tt`, `g_ti` by the product rule.  All 64 components.

Route: (1) lowered identity `g_{da} Γ^a_{bc} = Γ_{dbc}` — spatial `d` directly
(`lowS_*`), time `d` by reduction to the spatial ones (`lowT_*`); (2) raise with any
left inverse of the assembled metric.  Nothing here mentions generated code.
-/
import AurelVerif.Spec.Curvature
import AurelVerif.Lemmas.C04Populate
import Mathlib.Tactic.Ring
import Mathlib.Tactic.FieldSimp
import Mathlib.Tactic.LinearCombination

set_option linter.unusedSimpArgs false
set_option linter.unusedVariables false
set_option linter.unusedTactic false
set_option linter.unreachableTactic false

namespace AurelVerif.Spec.Curvature.Jet
open AurelVerif.Tensor AurelVerif.CoreTac AurelVerif.C04L

variable {K : Type} [Field K] (J : Jet K)

local notation "Γ4" => J.christoffel3p1

/-! ### lowering the pieces that contain γ^{-1} -/

theorem low_Glmt (h : J.LeviCivita) (k m : Fin 3) :
    ∑ l, J.gam k l * J.Glmt l m
      = -(∑ l, J.gam k l * J.beta l) * J.Gtti m - J.alpha * J.Kd k m + ∑ l, J.gam k l * J.Db m l := by
  have H := h.inv (fun n => J.Kd n m) k
  simp only [Glmt, Fin.sum_univ_three] at H ⊢
  linear_combination (-J.alpha) * H

theorem low_Gltt (h : J.LeviCivita) (k : Fin 3) :
    ∑ l, J.gam k l * J.Gltt l
      = (J.alpha * J.da k - 2 * J.alpha * ∑ n, J.beta n * J.Kd n k) - (∑ l, J.gam k l * J.beta l) * J.Gttt
        + ∑ l, J.gam k l * J.dtb l + ∑ l, J.gam k l * ∑ m, J.beta m * J.Db m l := by
  have H := h.inv (fun m => J.alpha * J.da m - 2 * J.alpha * ∑ n, J.beta n * J.Kd n m) k
  simp only [Gltt, Fin.sum_univ_three] at H ⊢
  linear_combination H

/-! ### lowered identity, spatial first index -/

set_option maxHeartbeats 1000000 in
/-- `g_{ka} Γ^a_{ij} = Γ_{kij}`. -/
theorem lowS_ss (h : J.LeviCivita) (k i j : Fin 3) :
    J.g4 k.succ 0 * Γ4 0 i.succ j.succ + ∑ l : Fin 3, J.g4 k.succ l.succ * Γ4 l.succ i.succ j.succ
      = christoffel1 J.dg4 k.succ i.succ j.succ := by
  have ha := h.ha; have h2 := h.two
  have g10 := h.symg 1 0; have g20 := h.symg 2 0; have g21 := h.symg 2 1
  have K10 := h.symK 1 0; have K20 := h.symK 2 0; have K21 := h.symK 2 1
  have G010 := h.symG 0 1 0; have G020 := h.symG 0 2 0; have G021 := h.symG 0 2 1
  have G110 := h.symG 1 1 0; have G120 := h.symG 1 2 0; have G121 := h.symG 1 2 1
  have G210 := h.symG 2 1 0; have G220 := h.symG 2 2 0; have G221 := h.symG 2 2 1
  simp only [christoffel3p1, g4, metric3p1, dg4, dmetric3p1, christoffel1, tsplit_succ, tsplit_0, h.mc]
  revert k i j
  cases3 <;> cases3 <;> cases3 <;>
    (simp only [Gtij, Glij, Fin.sum_univ_three, g10, g20, g21, K10, K20, K21,
       G010, G020, G021, G110, G120, G121, G210, G220, G221]
     field_simp
     ring)

set_option maxHeartbeats 1000000 in
/-- `g_{ka} Γ^a_{mt} = Γ_{kmt}`. -/
theorem lowS_st (h : J.LeviCivita) (k m : Fin 3) :
    J.g4 k.succ 0 * Γ4 0 m.succ 0 + ∑ l : Fin 3, J.g4 k.succ l.succ * Γ4 l.succ m.succ 0
      = christoffel1 J.dg4 k.succ m.succ 0 := by
  have ha := h.ha; have h2 := h.two
  have g10 := h.symg 1 0; have g20 := h.symg 2 0; have g21 := h.symg 2 1
  have K10 := h.symK 1 0; have K20 := h.symK 2 0; have K21 := h.symK 2 1
  have G010 := h.symG 0 1 0; have G020 := h.symG 0 2 0; have G021 := h.symG 0 2 1
  have G110 := h.symG 1 1 0; have G120 := h.symG 1 2 0; have G121 := h.symG 1 2 1
  have G210 := h.symG 2 1 0; have G220 := h.symG 2 2 0; have G221 := h.symG 2 2 1
  simp only [christoffel3p1, g4, metric3p1, tsplit_succ, tsplit_0]
  rw [low_Glmt J h]
  simp only [dg4, dmetric3p1, christoffel1, tsplit_succ, tsplit_0, dtgam, dtGamma, DbD, covdShiftDown, h.mc]
  revert k m
  cases3 <;> cases3 <;>
    (simp only [Gtti, Db, Fin.sum_univ_three, g10, g20, g21, K10, K20, K21,
       G010, G020, G021, G110, G120, G121, G210, G220, G221]
     field_simp
     ring)

set_option maxHeartbeats 1000000 in
/-- `g_{ka} Γ^a_{tm} = Γ_{ktm}`. -/
theorem lowS_ts (h : J.LeviCivita) (k m : Fin 3) :
    J.g4 k.succ 0 * Γ4 0 0 m.succ + ∑ l : Fin 3, J.g4 k.succ l.succ * Γ4 l.succ 0 m.succ
      = christoffel1 J.dg4 k.succ 0 m.succ := by
  have ha := h.ha; have h2 := h.two
  have g10 := h.symg 1 0; have g20 := h.symg 2 0; have g21 := h.symg 2 1
  have K10 := h.symK 1 0; have K20 := h.symK 2 0; have K21 := h.symK 2 1
  have G010 := h.symG 0 1 0; have G020 := h.symG 0 2 0; have G021 := h.symG 0 2 1
  have G110 := h.symG 1 1 0; have G120 := h.symG 1 2 0; have G121 := h.symG 1 2 1
  have G210 := h.symG 2 1 0; have G220 := h.symG 2 2 0; have G221 := h.symG 2 2 1
  simp only [christoffel3p1, g4, metric3p1, tsplit_succ, tsplit_0]
  rw [low_Glmt J h]
  simp only [dg4, dmetric3p1, christoffel1, tsplit_succ, tsplit_0, dtgam, dtGamma, DbD, covdShiftDown, h.mc]
  revert k m
  cases3 <;> cases3 <;>
    (simp only [Gtti, Db, Fin.sum_univ_three, g10, g20, g21, K10, K20, K21,
       G010, G020, G021, G110, G120, G121, G210, G220, G221]
     field_simp
     ring)

set_option maxHeartbeats 1000000 in
/-- `g_{ka} Γ^a_{tt} = Γ_{ktt}`. -/
theorem lowS_tt (h : J.LeviCivita) (k : Fin 3) :
    J.g4 k.succ 0 * Γ4 0 0 0 + ∑ l : Fin 3, J.g4 k.succ l.succ * Γ4 l.succ 0 0
      = christoffel1 J.dg4 k.succ 0 0 := by
  have ha := h.ha; have h2 := h.two
  have g10 := h.symg 1 0; have g20 := h.symg 2 0; have g21 := h.symg 2 1
  have K10 := h.symK 1 0; have K20 := h.symK 2 0; have K21 := h.symK 2 1
  have G010 := h.symG 0 1 0; have G020 := h.symG 0 2 0; have G021 := h.symG 0 2 1
  have G110 := h.symG 1 1 0; have G120 := h.symG 1 2 0; have G121 := h.symG 1 2 1
  have G210 := h.symG 2 1 0; have G220 := h.symG 2 2 0; have G221 := h.symG 2 2 1
  simp only [christoffel3p1, g4, metric3p1, tsplit_succ, tsplit_0]
  rw [low_Gltt J h]
  simp only [dg4, dmetric3p1, christoffel1, tsplit_succ, tsplit_0, dtgam, dtGamma, DbD, covdShiftDown, h.mc]
  revert k
  cases3 <;>
    (simp only [Db, Fin.sum_univ_three, g10, g20, g21, K10, K20, K21,
       G010, G020, G021, G110, G120, G121, G210, G220, G221]
     field_simp
     ring)

/-! ### lowered identity, time first index: reduction to the spatial one -/

/-- `g_{ta} X^a = −α² X^t + β^k g_{ka} X^a` for the assembled metric. -/
theorem lowT_reduce (X0 : K) (Xs : Fin 3 → K) :
    J.g4 0 0 * X0 + ∑ l : Fin 3, J.g4 0 l.succ * Xs l
      = -J.alpha ^ 2 * X0 + ∑ k : Fin 3, J.beta k * (J.g4 k.succ 0 * X0 + ∑ l : Fin 3, J.g4 k.succ l.succ * Xs l) := by
  simp only [g4, metric3p1, tsplit_succ, tsplit_0, Fin.sum_univ_three]
  ring

set_option maxHeartbeats 1000000 in
theorem lowT_ss (h : J.LeviCivita) (i j : Fin 3) :
    J.g4 0 0 * Γ4 0 i.succ j.succ + ∑ l : Fin 3, J.g4 0 l.succ * Γ4 l.succ i.succ j.succ
      = christoffel1 J.dg4 0 i.succ j.succ := by
  have ha := h.ha; have h2 := h.two
  have g10 := h.symg 1 0; have g20 := h.symg 2 0; have g21 := h.symg 2 1
  have K10 := h.symK 1 0; have K20 := h.symK 2 0; have K21 := h.symK 2 1
  have G010 := h.symG 0 1 0; have G020 := h.symG 0 2 0; have G021 := h.symG 0 2 1
  have G110 := h.symG 1 1 0; have G120 := h.symG 1 2 0; have G121 := h.symG 1 2 1
  have G210 := h.symG 2 1 0; have G220 := h.symG 2 2 0; have G221 := h.symG 2 2 1
  rw [lowT_reduce]
  simp only [lowS_ss J h]
  simp only [christoffel3p1, dg4, dmetric3p1, christoffel1, tsplit_succ, tsplit_0, dtgam, dtGamma, DbD,
    covdShiftDown, h.mc]
  revert i j
  cases3 <;> cases3 <;>
    (simp only [Gtij, Fin.sum_univ_three, g10, g20, g21, K10, K20, K21,
       G010, G020, G021, G110, G120, G121, G210, G220, G221]
     field_simp
     ring)

set_option maxHeartbeats 1000000 in
theorem lowT_st (h : J.LeviCivita) (m : Fin 3) :
    J.g4 0 0 * Γ4 0 m.succ 0 + ∑ l : Fin 3, J.g4 0 l.succ * Γ4 l.succ m.succ 0
      = christoffel1 J.dg4 0 m.succ 0 := by
  have ha := h.ha; have h2 := h.two
  have g10 := h.symg 1 0; have g20 := h.symg 2 0; have g21 := h.symg 2 1
  have K10 := h.symK 1 0; have K20 := h.symK 2 0; have K21 := h.symK 2 1
  have G010 := h.symG 0 1 0; have G020 := h.symG 0 2 0; have G021 := h.symG 0 2 1
  have G110 := h.symG 1 1 0; have G120 := h.symG 1 2 0; have G121 := h.symG 1 2 1
  have G210 := h.symG 2 1 0; have G220 := h.symG 2 2 0; have G221 := h.symG 2 2 1
  rw [lowT_reduce]
  simp only [lowS_st J h]
  simp only [christoffel3p1, dg4, dmetric3p1, christoffel1, tsplit_succ, tsplit_0, dtgam, dtGamma, DbD,
    covdShiftDown, h.mc]
  revert m
  cases3 <;>
    (simp only [Gtti, Fin.sum_univ_three, g10, g20, g21, K10, K20, K21,
       G010, G020, G021, G110, G120, G121, G210, G220, G221]
     field_simp
     ring)

set_option maxHeartbeats 1000000 in
theorem lowT_ts (h : J.LeviCivita) (m : Fin 3) :
    J.g4 0 0 * Γ4 0 0 m.succ + ∑ l : Fin 3, J.g4 0 l.succ * Γ4 l.succ 0 m.succ
      = christoffel1 J.dg4 0 0 m.succ := by
  have ha := h.ha; have h2 := h.two
  have g10 := h.symg 1 0; have g20 := h.symg 2 0; have g21 := h.symg 2 1
  have K10 := h.symK 1 0; have K20 := h.symK 2 0; have K21 := h.symK 2 1
  have G010 := h.symG 0 1 0; have G020 := h.symG 0 2 0; have G021 := h.symG 0 2 1
  have G110 := h.symG 1 1 0; have G120 := h.symG 1 2 0; have G121 := h.symG 1 2 1
  have G210 := h.symG 2 1 0; have G220 := h.symG 2 2 0; have G221 := h.symG 2 2 1
  rw [lowT_reduce]
  simp only [lowS_ts J h]
  simp only [christoffel3p1, dg4, dmetric3p1, christoffel1, tsplit_succ, tsplit_0, dtgam, dtGamma, DbD,
    covdShiftDown, h.mc]
  revert m
  cases3 <;>
    (simp only [Gtti, Fin.sum_univ_three, g10, g20, g21, K10, K20, K21,
       G010, G020, G021, G110, G120, G121, G210, G220, G221]
     field_simp
     ring)

set_option maxHeartbeats 1000000 in
theorem lowT_tt (h : J.LeviCivita) :
    J.g4 0 0 * Γ4 0 0 0 + ∑ l : Fin 3, J.g4 0 l.succ * Γ4 l.succ 0 0 = christoffel1 J.dg4 0 0 0 := by
  have ha := h.ha; have h2 := h.two
  have g10 := h.symg 1 0; have g20 := h.symg 2 0; have g21 := h.symg 2 1
  have K10 := h.symK 1 0; have K20 := h.symK 2 0; have K21 := h.symK 2 1
  have G010 := h.symG 0 1 0; have G020 := h.symG 0 2 0; have G021 := h.symG 0 2 1
  have G110 := h.symG 1 1 0; have G120 := h.symG 1 2 0; have G121 := h.symG 1 2 1
  have G210 := h.symG 2 1 0; have G220 := h.symG 2 2 0; have G221 := h.symG 2 2 1
  have hG : -J.alpha ^ 2 * J.Gttt = -J.alpha * (J.dta + ∑ m, J.beta m * J.da m
      - ∑ m, ∑ n, J.beta m * J.beta n * J.Kd m n) := by
    unfold Gttt; field_simp
  rw [lowT_reduce]
  simp only [lowS_tt J h]
  simp only [christoffel3p1, tsplit_0]
  rw [hG]
  simp only [dg4, dmetric3p1, christoffel1, tsplit_succ, tsplit_0, dtgam, dtGamma, DbD, covdShiftDown]
  simp only [Fin.sum_univ_three, g10, g20, g21, K10, K20, K21,
    G010, G020, G021, G110, G120, G121, G210, G220, G221]
  have m000 := h.mc 0 0 0
  have m001 := h.mc 0 0 1
  have m002 := h.mc 0 0 2
  have m010 := h.mc 0 1 0
  have m011 := h.mc 0 1 1
  have m012 := h.mc 0 1 2
  have m020 := h.mc 0 2 0
  have m021 := h.mc 0 2 1
  have m022 := h.mc 0 2 2
  have m100 := h.mc 1 0 0
  have m101 := h.mc 1 0 1
  have m102 := h.mc 1 0 2
  have m110 := h.mc 1 1 0
  have m111 := h.mc 1 1 1
  have m112 := h.mc 1 1 2
  have m120 := h.mc 1 2 0
  have m121 := h.mc 1 2 1
  have m122 := h.mc 1 2 2
  have m200 := h.mc 2 0 0
  have m201 := h.mc 2 0 1
  have m202 := h.mc 2 0 2
  have m210 := h.mc 2 1 0
  have m211 := h.mc 2 1 1
  have m212 := h.mc 2 1 2
  have m220 := h.mc 2 2 0
  have m221 := h.mc 2 2 1
  have m222 := h.mc 2 2 2
  simp only [Fin.sum_univ_three, g10, g20, g21, G010, G020, G021, G110, G120, G121, G210, G220, G221] at m000 m001 m002 m010 m011 m012 m020 m021 m022 m100 m101 m102 m110 m111 m112 m120 m121 m122 m200 m201 m202 m210 m211 m212 m220 m221 m222
  field_simp
  linear_combination
    (J.beta 0 * J.beta 0 * J.beta 0) * m000 +
    (J.beta 0 * J.beta 0 * J.beta 1) * m001 +
    (J.beta 0 * J.beta 0 * J.beta 2) * m002 +
    (J.beta 0 * J.beta 1 * J.beta 0) * m010 +
    (J.beta 0 * J.beta 1 * J.beta 1) * m011 +
    (J.beta 0 * J.beta 1 * J.beta 2) * m012 +
    (J.beta 0 * J.beta 2 * J.beta 0) * m020 +
    (J.beta 0 * J.beta 2 * J.beta 1) * m021 +
    (J.beta 0 * J.beta 2 * J.beta 2) * m022 +
    (J.beta 1 * J.beta 0 * J.beta 0) * m100 +
    (J.beta 1 * J.beta 0 * J.beta 1) * m101 +
    (J.beta 1 * J.beta 0 * J.beta 2) * m102 +
    (J.beta 1 * J.beta 1 * J.beta 0) * m110 +
    (J.beta 1 * J.beta 1 * J.beta 1) * m111 +
    (J.beta 1 * J.beta 1 * J.beta 2) * m112 +
    (J.beta 1 * J.beta 2 * J.beta 0) * m120 +
    (J.beta 1 * J.beta 2 * J.beta 1) * m121 +
    (J.beta 1 * J.beta 2 * J.beta 2) * m122 +
    (J.beta 2 * J.beta 0 * J.beta 0) * m200 +
    (J.beta 2 * J.beta 0 * J.beta 1) * m201 +
    (J.beta 2 * J.beta 0 * J.beta 2) * m202 +
    (J.beta 2 * J.beta 1 * J.beta 0) * m210 +
    (J.beta 2 * J.beta 1 * J.beta 1) * m211 +
    (J.beta 2 * J.beta 1 * J.beta 2) * m212 +
    (J.beta 2 * J.beta 2 * J.beta 0) * m220 +
    (J.beta 2 * J.beta 2 * J.beta 1) * m221 +
    (J.beta 2 * J.beta 2 * J.beta 2) * m222

/-! ### all 64 lowered components, and the raised form -/

/-- **lowered identity**: `g_{da} Γ^a_{bc} = ½(∂_b g_dc + ∂_c g_db − ∂_d g_bc)`, all components. -/
theorem lowered (h : J.LeviCivita) : ∀ d b c : Fin 4,
    ∑ a, J.g4 d a * Γ4 a b c = christoffel1 J.dg4 d b c := by
  refine fin4_ts (fin4_ts (fin4_ts ?_ fun j => ?_) fun i => fin4_ts ?_ fun j => ?_)
    (fun k => fin4_ts (fin4_ts ?_ fun j => ?_) fun i => fin4_ts ?_ fun j => ?_) <;>
    rw [Fin.sum_univ_succ]
  · exact lowT_tt J h
  · exact lowT_ts J h j
  · exact lowT_st J h i
  · exact lowT_ss J h i j
  · exact lowS_tt J h k
  · exact lowS_ts J h k j
  · exact lowS_st J h k i
  · exact lowS_ss J h k i j

/-- **T7** the 3+1 pieces are the Christoffel symbols of the assembled metric, for any left
inverse `gup` of that metric: `Γ^a_{bc} = ½ g^{ad}(∂_b g_dc + ∂_c g_db − ∂_d g_bc)`. -/
theorem christoffel3p1_is_christoffel (h : J.LeviCivita) (gup : Fin 4 → Fin 4 → K)
    (hinv : ∀ a a', ∑ d, gup a d * J.g4 d a' = delta a a') (a b c : Fin 4) :
    Γ4 a b c = christoffel gup J.dg4 a b c := by
  unfold christoffel
  have hl := fun d => lowered J h d b c
  simp only [← hl]
  have e0 := hinv a 0; have e1 := hinv a 1; have e2 := hinv a 2; have e3 := hinv a 3
  simp only [Fin.sum_univ_four] at e0 e1 e2 e3 ⊢
  revert a
  cases4 <;> intro e0 e1 e2 e3 <;>
    (simp [delta] at e0 e1 e2 e3
     linear_combination (-(Γ4 0 b c)) * e0 - (Γ4 1 b c) * e1 - (Γ4 2 b c) * e2 - (Γ4 3 b c) * e3)

/-- exact: the 3+1 pieces are symmetric in the lower indices when `K` and `³Γ` are. -/
theorem christoffel3p1_symm (hK : ∀ i j, J.Kd i j = J.Kd j i) (hG : ∀ l i j, J.Gam3 l i j = J.Gam3 l j i) :
    ∀ a b c : Fin 4, Γ4 a b c = Γ4 a c b := by
  refine fin4_ts (fin4_ts (fin4_ts ?_ fun j => ?_) fun i => fin4_ts ?_ fun j => ?_)
    (fun k => fin4_ts (fin4_ts ?_ fun j => ?_) fun i => fin4_ts ?_ fun j => ?_) <;>
    simp only [christoffel3p1, tsplit_succ, tsplit_0]
  · simp only [Gtij, hK i j]
  · simp only [Glij, hK i j, hG k i j]

end AurelVerif.Spec.Curvature.Jet
