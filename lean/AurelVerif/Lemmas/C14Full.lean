/-
Lemmas/C14Full.lean — one `over_time` call on a table that earlier calls of a
sequence have produced (variables AND estimates computed in between): the
invariant `RowsInv` and its preservation by a call (`call_step`).  Core Lean only.
-/
import AurelVerif.Lemmas.C14FullRow

namespace AurelVerif.Table
variable {C : Type}

/-! ## 1. hypotheses -/

/-- hypotheses of the second split theorem, for the total request `(vars, ests)`
on the table `t`: those of `SplitHyp` with the feedback hypothesis in its
dependency-aware form extended to estimate columns (`FeedbackDep`: an item may
read the custom variables requested before it), plus: estimator names are used
consistently, and the column names `k_e` are new names that identify `k` and `e`. -/
structure SplitHypD (E : Env C) (t : Table C) (n : Nat) (tk : Name) (vars ests : List Req) : Prop where
  wf : WF t n
  pos : 0 < n
  tk : temporalKey t = some tk
  sw : StrictWeak E.lt
  nodup : (reqKeys vars).Nodup
  notemp : ∀ x ∈ reqKeys vars, x ∉ temporalNames
  /-- C01: variable and estimate columns computed earlier and fed back do not change later values;
  an item reads at most the custom variables requested before it -/
  fb : ∀ r ∈ rowsOf t n, FeedbackDep E (cleanVars E t vars) (allEsts E ests) (callSk E t vars) r
  rank_t : UniformRank E t
  rank_v : ∀ r ∈ rowsOf t n, ∀ r' ∈ rowsOf t n, ∀ c ∈ cleanVars E t vars,
    E.is3 (oneVal E (cleanVars E t vars) r c) = E.is3 (oneVal E (cleanVars E t vars) r' c)
  rank_e : ∀ e ∈ allEsts E ests, ∀ c, E.is3 (estApply E e c) = false
  /-- one estimator name = one estimator -/
  est_names : ∀ e ∈ allEsts E ests, ∀ e' ∈ allEsts E ests, e.key = e'.key → e = e'
  /-- no estimate column `k_e` is named like a variable that the request computes -/
  est_fresh : ∀ e ∈ allEsts E ests, ∀ s ∈ callSk E t vars,
    estKey s e.key ∉ (cleanVars E t vars).map CReq.key
  /-- `k + '_' + e` determines `k` and `e` (among the scalar keys and estimator names in play) -/
  est_inj : ∀ e ∈ allEsts E ests, ∀ e' ∈ allEsts E ests, ∀ s ∈ callSk E t vars, ∀ s' ∈ callSk E t vars,
    estKey s e.key = estKey s' e'.key → s = s' ∧ e.key = e'.key

/-! ## 2. the scalar keys of the single call -/

section sk
variable {E : Env C} {t : Table C} {n : Nat} {tk : Name} {V A : List Req}

theorem callSk_eq (H : SplitHypD E t n tk V A) :
    callSk E t V = scalarKeys E (rowAt t 0)
      ++ scalarKeys E (oneEntries E (cleanVars E t V) (rowAt t 0) (cleanVars E t V)) := by
  unfold callSk
  rw [stepVars_one E _ _ (cleanVars_names_nodup E t H.nodup) (fun v hv => by
    rw [keys_of_mem_rowsOf H.wf (rowAt_zero_mem t H.pos)]; exact cleanVars_fresh E t V hv), scalarKeys_append]

theorem mem_callSk_iff (H : SplitHypD E t n tk V A) {s : Name} :
    s ∈ callSk E t V ↔ s ∈ scalarKeys E (rowAt t 0) ∨
      ∃ c ∈ cleanVars E t V, c.key = s ∧ E.is3 (oneVal E (cleanVars E t V) (rowAt t 0) c) = true := by
  rw [callSk_eq H, List.mem_append, mem_scalarKeys_iff E (d := oneEntries _ _ _ _)]
  constructor
  · rintro (h | ⟨c, hm, h3⟩)
    · exact Or.inl h
    · simp only [oneEntries, List.mem_map, Prod.mk.injEq] at hm
      obtain ⟨v, hv, h1, h2⟩ := hm
      exact Or.inr ⟨v, hv, h1, by rw [h2]; exact h3⟩
  · rintro (h | ⟨c, hc, h1, h3⟩)
    · exact Or.inl h
    · exact Or.inr ⟨oneVal E (cleanVars E t V) (rowAt t 0) c, List.mem_map.mpr ⟨c, hc, by rw [h1]⟩, h3⟩

theorem callSk_subset (H : SplitHypD E t n tk V A) {s : Name} (hs : s ∈ callSk E t V) :
    s ∈ keys t ∨ s ∈ (cleanVars E t V).map CReq.key := by
  rcases (mem_callSk_iff H).mp hs with h | ⟨c, hc, h1, _⟩
  · left
    have := scalarKeys_subset E _ h
    rwa [keys_of_mem_rowsOf H.wf (rowAt_zero_mem t H.pos)] at this
  · exact Or.inr (List.mem_map.mpr ⟨c, hc, h1⟩)

/-- the scalar keys of any good row are scalar keys of the single call -/
theorem scal_sound (H : SplitHypD E t n tk V A) {r d : Row C} (hr : r ∈ rowsOf t n)
    (hd : GoodRow E (cleanVars E t V) (allEsts E A) (callSk E t V) r d) {s : Name}
    (hs : s ∈ scalarKeys E d) : s ∈ callSk E t V := by
  obtain ⟨x, rfl, hx⟩ := hd
  have hr0 := rowAt_zero_mem t H.pos
  rw [mem_callSk_iff H]
  obtain ⟨c, hm, h3⟩ := (mem_scalarKeys_iff E).mp hs
  rcases List.mem_append.mp hm with hm | hm
  · left
    rw [← scalarKeys_rows_uniform E H.wf H.rank_t hr hr0]
    exact (mem_scalarKeys_iff E).mpr ⟨c, hm, h3⟩
  · rcases hx _ hm with ⟨c', hc', h1, h2⟩ | ⟨e, he, _, _, c0, _, _, h2⟩
    · right
      refine ⟨c', hc', h1, ?_⟩
      rw [← H.rank_v r hr _ hr0 c' hc']
      simp only at h2
      rw [← h2]; exact h3
    · simp only at h2
      rw [h2, H.rank_e e he] at h3
      cases h3

/-- conversely: a scalar key of the single call that is a key of a good row is a scalar key of it -/
theorem scal_complete (H : SplitHypD E t n tk V A) {r d : Row C} (hr : r ∈ rowsOf t n)
    (hd : GoodRow E (cleanVars E t V) (allEsts E A) (callSk E t V) r d) {s : Name}
    (hs : s ∈ callSk E t V) (hk : s ∈ keys d) : s ∈ scalarKeys E d := by
  obtain ⟨x, rfl, hx⟩ := hd
  have hr0 := rowAt_zero_mem t H.pos
  rcases (mem_callSk_iff H).mp hs with h | ⟨c, hc, h1, h3⟩
  · rw [scalarKeys_append]
    apply List.mem_append_left
    rw [scalarKeys_rows_uniform E H.wf H.rank_t hr hr0]
    exact h
  · obtain ⟨v, hv⟩ := get?_some_of_mem hk
    have hnr : s ∉ keys r := by
      rw [keys_of_mem_rowsOf H.wf hr, ← h1]
      exact cleanVars_fresh E t V hc
    rw [get?_append_right hnr] at hv
    have hm := mem_of_get? hv
    apply (mem_scalarKeys_iff E).mpr
    refine ⟨v, List.mem_append_right _ hm, ?_⟩
    rcases hx _ hm with ⟨c', hc', h1', h2⟩ | ⟨e, he, s2, hs2, _, h1', _, _⟩
    · have : c' = c := nodup_map_inj (cleanVars_names_nodup E t H.nodup) hc' hc (by rw [h1', h1])
      subst this
      simp only at h2
      rw [h2, H.rank_v r hr _ hr0 c' hc']
      exact h3
    · exfalso
      simp only at h1'
      apply H.est_fresh e he s2 hs2
      rw [← h1']
      exact List.mem_map.mpr ⟨c, hc, h1⟩

/-- the column of a requested item in a good row holds its single-call value -/
theorem good_get_var (H : SplitHypD E t n tk V A) {r d : Row C} (hr : r ∈ rowsOf t n)
    (hd : GoodRow E (cleanVars E t V) (allEsts E A) (callSk E t V) r d) {c : CReq}
    (hc : c ∈ cleanVars E t V) {v : C} (hg : get? c.key d = some v) :
    v = oneVal E (cleanVars E t V) r c := by
  obtain ⟨x, rfl, hx⟩ := hd
  have hnr : c.key ∉ keys r := by
    rw [keys_of_mem_rowsOf H.wf hr]; exact cleanVars_fresh E t V hc
  rw [get?_append_right hnr] at hg
  rcases hx _ (mem_of_get? hg) with ⟨c', hc', h1, h2⟩ | ⟨e, he, s, hs, _, h1, _, _⟩
  · have : c' = c := nodup_map_inj (cleanVars_names_nodup E t H.nodup) hc' hc h1
    subst this
    exact h2
  · exfalso
    simp only at h1
    exact H.est_fresh e he s hs (h1 ▸ List.mem_map.mpr ⟨c, hc, rfl⟩)

end sk

/-! ## 3. cleaning on a table with more columns -/

theorem cleanVarItem_congr_of_fresh (E : Env C) {t T : Table C} (item : Req) (hsub : ∀ k ∈ keys t, k ∈ keys T)
    (hfresh : ∀ c ∈ cleanVarItem E t item, c.key ∉ keys T) : cleanVarItem E T item = cleanVarItem E t item := by
  cases item with
  | name s =>
    simp only [cleanVarItem] at hfresh ⊢
    by_cases h : (!has s t && E.isDescr s) = true
    · simp only [h, if_true, List.mem_singleton, forall_eq, CReq.key] at hfresh
      have hT : has s T = false := has_false_iff.mpr hfresh
      simp only [Bool.and_eq_true, Bool.not_eq_eq_eq_not, Bool.not_true] at h
      simp [hT, h.1, h.2]
    · have h' : (!has s t && E.isDescr s) = false := by simpa using h
      rw [h']
      by_cases hd : E.isDescr s = true
      · have ht : has s t = true := by
          simp only [hd, Bool.and_true, Bool.not_eq_eq_eq_not, Bool.not_false] at h'
          exact h'
        have hT : has s T = true := has_iff.mpr (hsub s (has_iff.mp ht))
        simp [hT]
      · simp [hd]
  | dict items =>
    simp only [cleanVarItem] at hfresh ⊢
    apply filterMap_congr'
    intro nf hnf
    by_cases h : (!has nf.1 t && E.validVar nf.2) = true
    · have hmem : CReq.fn nf.1 nf.2 ∈ List.filterMap
          (fun nf : Name × Fid => if (!has nf.1 t && E.validVar nf.2) = true then some (CReq.fn nf.1 nf.2) else none) items :=
        List.mem_filterMap.mpr ⟨nf, hnf, by simp only [h, if_true]⟩
      have hT : has nf.1 T = false := has_false_iff.mpr (hfresh _ hmem)
      simp only [Bool.and_eq_true, Bool.not_eq_eq_eq_not, Bool.not_true] at h
      simp [hT, h.1, h.2]
    · have h' : (!has nf.1 t && E.validVar nf.2) = false := by simpa using h
      rw [h']
      by_cases hd : E.validVar nf.2 = true
      · have ht : has nf.1 t = true := by
          simp only [hd, Bool.and_true, Bool.not_eq_eq_eq_not, Bool.not_false] at h'
          exact h'
        have hT : has nf.1 T = true := has_iff.mpr (hsub _ (has_iff.mp ht))
        simp [hT]
      · simp [hd]
  | other => rfl

/-- the cleaned variable list on a table `T ⊇ t` none of whose extra columns is named like
an item the request computes on `t` -/
theorem cleanVars_congr_of_fresh (E : Env C) {t T : Table C} (v : List Req) (hsub : ∀ k ∈ keys t, k ∈ keys T)
    (hfresh : ∀ c ∈ cleanVars E t v, c.key ∉ keys T) : cleanVars E T v = cleanVars E t v := by
  unfold cleanVars at hfresh ⊢
  induction v with
  | nil => rfl
  | cons item rest ih =>
    simp only [List.flatMap_cons, List.mem_append] at hfresh ⊢
    rw [cleanVarItem_congr_of_fresh E item hsub (fun c hc => hfresh c (Or.inl hc)),
      ih (fun c hc => hfresh c (Or.inr hc))]

/-- an estimator of the request is in the cleaned list, or all its columns exist already -/
theorem est_kept_or_present (E : Env C) (T : Table C) (cv : List CReq) (e : List Req) (d0 : Row C)
    (hd0 : cv = [] → d0 = rowAt T 0) {x : CReq} (hx : x ∈ allEsts E e) {s : Name}
    (hs : s ∈ scalarKeys E (stepVars E cv d0)) :
    x ∈ cleanedEsts E T cv e ∨ estKey s x.key ∈ keys T := by
  cases cv with
  | cons a b => exact Or.inl hx
  | nil =>
    have hsv : stepVars E [] d0 = rowAt T 0 := by rw [hd0 rfl]; simp [stepVars]
    rw [hsv] at hs
    rw [cleanedEsts_nil, flatMap_cleanEstItem_filter]
    by_cases hl : lacksIn T (scalarKeys E (rowAt T 0)) x.key = true
    · exact Or.inl (List.mem_filter.mpr ⟨hx, hl⟩)
    · right
      have hl' : lacksIn T (scalarKeys E (rowAt T 0)) x.key = false := by simpa using hl
      simp only [lacksIn, List.any_eq_false, Bool.not_eq_eq_eq_not] at hl'
      exact has_iff.mp (by simpa using hl' s hs)

/-! ## 4. the invariant of a sequence of calls -/

/-- the table `T` that some calls of a sequence have produced from `t`
(`Vd` = the variable requests passed so far): its rows are the rows of `t` —
in the order `S` — each followed by entries computed from that row alone (`G`). -/
structure RowsInv (E : Env C) (t : Table C) (n : Nat) (tk : Name) (V A Vd : List Req)
    (T : Table C) (G : Row C → Row C) : Prop where
  wf : WF T n
  tkey : temporalKey T = some tk
  good : ∀ r ∈ rowsOf t n, GoodRow E (cleanVars E t V) (allEsts E A) (callSk E t V) r (G r)
  keysG : ∀ r ∈ rowsOf t n, keys (G r) = keys T
  done : ∀ v ∈ cleanVars E t Vd, v.key ∈ keys T
  only : ∀ k ∈ keys T, k ∈ keys t ∨ k ∈ (cleanVars E t Vd).map CReq.key ∨
    ∃ e ∈ allEsts E A, ∃ s ∈ callSk E t V, k = estKey s e.key
  shape : ∃ S, rowsOf T n = S.map G ∧
    ((S = rowsOf t n ∧ T = t) ∨ (S = sortP E tk (rowsOf t n) ∧ ∃ k ∈ keys T, k ∉ keys t))

section inv
variable {E : Env C} {t : Table C} {n : Nat} {tk : Name} {V A Vd : List Req} {T : Table C} {G : Row C → Row C}

theorem RowsInv.sub (H : SplitHypD E t n tk V A) (I : RowsInv E t n tk V A Vd T G) :
    ∀ k ∈ keys t, k ∈ keys T := by
  intro k hk
  have hr0 := rowAt_zero_mem t H.pos
  obtain ⟨x, hx, _⟩ := I.good _ hr0
  rw [← I.keysG _ hr0, hx, keys_append, keys_of_mem_rowsOf H.wf hr0]
  exact List.mem_append_left _ hk

theorem RowsInv.row0 (H : SplitHypD E t n tk V A) (I : RowsInv E t n tk V A Vd T G) :
    ∃ r' ∈ rowsOf t n, rowAt T 0 = G r' := by
  obtain ⟨S, hS, hc⟩ := I.shape
  obtain ⟨m, rfl⟩ : ∃ m, n = m + 1 := ⟨n - 1, by have := H.pos; omega⟩
  have hSmem : ∀ r ∈ S, r ∈ rowsOf t (m + 1) := by
    rcases hc with ⟨rfl, _⟩ | ⟨rfl, _⟩
    · exact fun r h => h
    · exact fun r h => (sortP_perm E (tk_mem_rows H.wf H.tk)).subset h
  rw [rowsOf_succ T m] at hS
  cases S with
  | nil => simp at hS
  | cons r' rest =>
    simp only [List.map_cons, List.cons.injEq] at hS
    exact ⟨r', hSmem r' (by simp), hS.1⟩

theorem rowsInv_init (E : Env C) {t : Table C} {n : Nat} {tk : Name} {V A : List Req}
    (H : SplitHypD E t n tk V A) : RowsInv E t n tk V A [] t id where
  wf := H.wf
  tkey := H.tk
  good := fun r _ => ⟨[], by simp, AllowedE.nil _ _ _ _ _⟩
  keysG := fun r hr => keys_of_mem_rowsOf H.wf hr
  done := fun v hv => by simp [cleanVars] at hv
  only := fun k hk => Or.inl hk
  shape := ⟨rowsOf t n, by simp, Or.inl ⟨rfl, rfl⟩⟩

end inv

/-! ## 5. one call preserves the invariant -/

theorem reqKeys_cleanVars_subset (E : Env C) (t : Table C) (v : List Req) {c : CReq}
    (hc : c ∈ cleanVars E t v) : c.key ∈ reqKeys v :=
  ((cleanVars_sublist E t v).map CReq.key).subset (List.mem_map.mpr ⟨c, hc, rfl⟩)

theorem call_step (E : Env C) {t : Table C} {n : Nat} {tk : Name} {V A : List Req}
    (H : SplitHypD E t n tk V A) {Vd v rest e : List Req} (hV : V = Vd ++ v ++ rest)
    (hA : ∀ x ∈ allEsts E e, x ∈ allEsts E A) {T : Table C} {G : Row C → Row C}
    (I : RowsInv E t n tk V A Vd T G) :
    ∃ T' G', overTime E T v e = .ok T' ∧ RowsInv E t n tk V A (Vd ++ v) T' G' ∧
      (∀ x ∈ allEsts E e, ∀ s ∈ callSk E t V, s ∈ keys T' → estKey s x.key ∈ keys T') := by
  have hn := H.pos
  have hsubT := I.sub H
  -- the request, item by item
  have hitems : cleanVars E t V = cleanVars E t Vd ++ cleanVars E t v ++ cleanVars E t rest := by
    rw [hV, cleanVars_append, cleanVars_append]
  have hcv_items : ∀ c ∈ cleanVars E t v, c ∈ cleanVars E t V := by
    intro c hc; rw [hitems]; exact List.mem_append_left _ (List.mem_append_right _ hc)
  have hkeysV : reqKeys V = reqKeys Vd ++ reqKeys v ++ reqKeys rest := by
    rw [hV, reqKeys_append, reqKeys_append]
  have hndv : ((cleanVars E t v).map CReq.key).Nodup := by
    apply cleanVars_names_nodup
    have := H.nodup
    rw [hkeysV, List.nodup_append, List.nodup_append] at this
    exact this.1.2.1
  have hdisj : ∀ c ∈ cleanVars E t v, c.key ∉ (cleanVars E t Vd).map CReq.key := by
    intro c hc hmem
    obtain ⟨c', hc', hk⟩ := List.mem_map.mp hmem
    have := H.nodup
    rw [hkeysV, List.nodup_append, List.nodup_append] at this
    exact this.1.2.2 _ (reqKeys_cleanVars_subset E t Vd hc') _ (reqKeys_cleanVars_subset E t v hc) hk
  have hfreshT : ∀ c ∈ cleanVars E t v, c.key ∉ keys T := by
    intro c hc hk
    rcases I.only _ hk with h | h | ⟨x, hx, s, hs, h⟩
    · exact cleanVars_fresh E t v hc h
    · exact hdisj c hc h
    · exact H.est_fresh x hx s hs (h ▸ List.mem_map.mpr ⟨c, hcv_items c hc, rfl⟩)
  have hcvT : cleanVars E T v = cleanVars E t v := cleanVars_congr_of_fresh E v hsubT hfreshT
  have hdoneeq : cleanVars E t (Vd ++ v) = cleanVars E t Vd ++ cleanVars E T v := by
    rw [cleanVars_append, hcvT]
  obtain ⟨r', hr', hrow0⟩ := I.row0 H
  have hk0 : keys (rowAt T 0) = keys T := by rw [hrow0]; exact I.keysG r' hr'
  by_cases hp : Processes E T v e
  · -- the call processes
    have hnt : ∀ x ∈ (cleanVars E T v).map CReq.key, x ∉ temporalNames := by
      intro x hx
      obtain ⟨c, hc, rfl⟩ := List.mem_map.mp hx
      apply H.notemp
      rw [hkeysV]
      exact List.mem_append_left _ (List.mem_append_right _ (reqKeys_cleanVars_subset E T v hc))
    obtain ⟨hwf1, htk1, hrows1, _, hkeys1⟩ := call_result E I.wf hn I.tkey H.sw v e hnt
    refine ⟨_, fun r => callF E T v e (G r), overTime_processes E I.wf hn I.tkey hp, ?_, ?_⟩
    all_goals
      -- the variable phase, row by row
      have hvar : ∀ r ∈ rowsOf t n, GoodRow E (cleanVars E t V) (allEsts E A) (callSk E t V) r
          (stepVars E (cleanVars E T v) (G r)) := by
        intro r hr
        obtain ⟨x, hGx, hx⟩ := I.good r hr
        have hfreshx : ∀ c ∈ cleanVars E t v, c.key ∉ keys (r ++ x) := by
          intro c hc; rw [← hGx, I.keysG r hr]; exact hfreshT c hc
        have hpre : ∀ c' ∈ cleanVars E t Vd, c'.isFn = true →
            get? c'.key (r ++ x) = some (oneVal E (cleanVars E t V) r c') := by
          intro c' hc' _
          have hk : c'.key ∈ keys (G r) := by rw [I.keysG r hr]; exact I.done c' hc'
          obtain ⟨v', hv'⟩ := get?_some_of_mem hk
          have hc'V : c' ∈ cleanVars E t V := by
            rw [hitems]; exact List.mem_append_left _ (List.mem_append_left _ hc')
          rw [← hGx, hv', good_get_var H hr (I.good r hr) hc'V hv']
        refine ⟨x ++ oneEntries E (cleanVars E t V) r (cleanVars E t v), ?_,
          hx.append_var (varEntry_oneEntries E r hcv_items)⟩
        rw [hcvT, hGx, stepVars_nfD E (H.fb r hr) _ _ _ hitems x hx hpre hndv hfreshx, List.append_assoc]
      have hkv : ∀ r ∈ rowsOf t n, keys (stepVars E (cleanVars E T v) (G r))
          = ((cleanVars E T v).map CReq.key).foldl addKey (keys T) := by
        intro r hr; rw [keys_stepVars, I.keysG r hr]
      have hskSK : ∀ s ∈ callSk E T v, s ∈ callSk E t V := by
        intro s hs
        unfold callSk at hs
        rw [hrow0] at hs
        exact scal_sound H hr' (hvar r' hr') hs
      have hskK : ∀ s ∈ callSk E T v, s ∈ ((cleanVars E T v).map CReq.key).foldl addKey (keys T) := by
        intro s hs
        unfold callSk at hs
        rw [hrow0] at hs
        rw [← hkv r' hr']
        exact scalarKeys_subset E _ hs
      have hce : ∀ x ∈ cleanedEsts E T (cleanVars E T v) e, x ∈ allEsts E A :=
        fun x hx => hA x (cleanedEsts_subset_allEsts E T _ e hx)
      have hmemK : ∀ k, k ∈ callKeys E T v e ↔
          k ∈ ((cleanVars E T v).map CReq.key).foldl addKey (keys T) ∨
          ∃ x ∈ cleanedEsts E T (cleanVars E T v) e, ∃ s ∈ callSk E T v, k = estKey s x.key := by
        intro k
        unfold callKeys
        rw [mem_applyEstsK_iff hskK]
        constructor
        · rintro (h | ⟨e', he', s, hs, rfl⟩)
          · exact Or.inl h
          · obtain ⟨x, hx, rfl⟩ := List.mem_map.mp he'
            exact Or.inr ⟨x, hx, s, hs, rfl⟩
        · rintro (h | ⟨x, hx, s, hs, rfl⟩)
          · exact Or.inl h
          · exact Or.inr ⟨x.key, List.mem_map.mpr ⟨x, hx, rfl⟩, s, hs, rfl⟩
      have hTsub : ∀ k ∈ keys T, k ∈ callKeys E T v e := fun k hk => subset_callKeys E T v e hk
    · -- the invariant
      refine ⟨hwf1, htk1, ?_, ?_, ?_, ?_, ?_⟩
      · intro r hr
        exact goodRow_applyEstsP _ hce _ hskSK (hvar r hr)
      · intro r hr
        rw [hkeys1]
        exact keys_callF E v e (I.keysG r hr)
      · intro c hc
        rw [hkeys1]
        rw [hdoneeq] at hc
        rcases List.mem_append.mp hc with h | h
        · exact hTsub _ (I.done c h)
        · exact (hmemK _).mpr (Or.inl (mem_foldl_addKey.mpr (Or.inr (List.mem_map.mpr ⟨c, h, rfl⟩))))
      · intro k hk
        rw [hkeys1] at hk
        rw [hdoneeq, List.map_append, List.mem_append]
        rcases (hmemK k).mp hk with h | ⟨x, hx, s, hs, rfl⟩
        · rcases mem_foldl_addKey.mp h with h | h
          · rcases I.only k h with h1 | h1 | h1
            · exact Or.inl h1
            · exact Or.inr (Or.inl (Or.inl h1))
            · exact Or.inr (Or.inr h1)
          · exact Or.inr (Or.inl (Or.inr h))
        · exact Or.inr (Or.inr ⟨x, hce x hx, s, hskSK s hs, rfl⟩)
      · -- shape
        obtain ⟨S, hS, hcase⟩ := I.shape
        have hSmem : ∀ r ∈ S, r ∈ rowsOf t n := by
          rcases hcase with ⟨rfl, _⟩ | ⟨rfl, _⟩
          · exact fun r h => h
          · exact fun r h => (sortP_perm E (tk_mem_rows H.wf H.tk)).subset h
        have hsortS : sortP E tk S = sortP E tk (rowsOf t n) := by
          rcases hcase with ⟨rfl, _⟩ | ⟨rfl, _⟩
          · rfl
          · exact sortP_idem E H.sw tk _
        refine ⟨sortP E tk (rowsOf t n), ?_, Or.inr ⟨rfl, ?_⟩⟩
        · rw [hrows1, hS, sortP_map E G S, hsortS, List.map_map]
          · rfl
          · intro r hr
            obtain ⟨x, hGx, _⟩ := I.good r (hSmem r hr)
            rw [hGx, get?_append_left (tk_mem_rows H.wf H.tk r (hSmem r hr))]
        · -- a processing call adds a column
          rw [hkeys1]
          cases hcv0 : cleanVars E T v with
          | cons c cs =>
            refine ⟨c.key, (hmemK _).mpr (Or.inl (mem_foldl_addKey.mpr (Or.inr ?_))), ?_⟩
            · rw [hcv0]; simp
            · exact cleanVars_fresh E t v (by rw [← hcvT, hcv0]; simp)
          | nil =>
            have hp' := hp
            unfold Processes at hp'
            rw [hcv0] at hp'
            cases hce0 : cleanedEsts E T [] e with
            | nil => rw [hce0] at hp'; simp at hp'
            | cons x xs =>
              have hx : x ∈ cleanedEsts E T [] e := by rw [hce0]; simp
              rw [cleanedEsts_nil, flatMap_cleanEstItem_filter] at hx
              have hl := (List.mem_filter.mp hx).2
              simp only [lacksIn, List.any_eq_true, Bool.not_eq_eq_eq_not, Bool.not_true] at hl
              obtain ⟨s, hs, hnot⟩ := hl
              have hsk : s ∈ callSk E T v := by
                unfold callSk; rw [hcv0]; simpa [stepVars] using hs
              refine ⟨estKey s x.key, (hmemK _).mpr (Or.inr ⟨x, ?_, s, hsk, rfl⟩), ?_⟩
              · rw [hcv0, hce0]; simp
              · intro hk
                exact (has_false_iff.mp hnot) (hsubT _ hk)
    · -- every estimator of this call now covers every scalar column present
      intro x hx s hs hsT
      rw [hkeys1] at hsT ⊢
      have hsK : s ∈ ((cleanVars E T v).map CReq.key).foldl addKey (keys T) := by
        rcases (hmemK s).mp hsT with h | ⟨x2, hx2, s2, hs2, h⟩
        · exact h
        · rcases callSk_subset H hs with h1 | h1
          · exact subset_foldl_addKey _ _ (hsubT _ h1)
          · exact absurd (h ▸ h1) (H.est_fresh x2 (hce x2 hx2) s2 (hskSK s2 hs2))
      have hsk : s ∈ callSk E T v := by
        unfold callSk
        rw [hrow0]
        exact scal_complete H hr' (hvar r' hr') hs (by rw [hkv r' hr']; exact hsK)
      rcases est_kept_or_present E T (cleanVars E T v) e (rowAt T 0) (fun _ => rfl) hx hsk with h | h
      · exact (hmemK _).mpr (Or.inr ⟨x, h, s, hsk, rfl⟩)
      · exact hTsub _ h
  · -- nothing new: the call returns `T`
    have hp1 := hp
    simp only [Processes, Bool.not_eq_false, Bool.and_eq_true, List.isEmpty_iff] at hp1
    have hdoneeq' : cleanVars E t (Vd ++ v) = cleanVars E t Vd := by rw [hdoneeq, hp1.1, List.append_nil]
    refine ⟨T, G, overTime_nothing_new E I.wf hn I.tkey hp, ?_, ?_⟩
    · exact ⟨I.wf, I.tkey, I.good, I.keysG, by rw [hdoneeq']; exact I.done, by rw [hdoneeq']; exact I.only, I.shape⟩
    · intro x hx s hs hsT
      have hgood0 : GoodRow E (cleanVars E t V) (allEsts E A) (callSk E t V) r' (rowAt T 0) := by
        rw [hrow0]; exact I.good r' hr'
      have hsk : s ∈ scalarKeys E (stepVars E (cleanVars E T v) (rowAt T 0)) := by
        rw [hp1.1]
        have : stepVars E [] (rowAt T 0) = rowAt T 0 := by simp [stepVars]
        rw [this]
        exact scal_complete H hr' hgood0 hs (by rw [hk0]; exact hsT)
      rcases est_kept_or_present E T (cleanVars E T v) e (rowAt T 0) (fun _ => rfl) hx hsk with h | h
      · rw [hp1.2] at h; simp at h
      · exact h

end AurelVerif.Table
