/-
Lemmas/C17EinND.lean — Non_diagonal: Einstein's equations for the module's own `gdown4`, `Tdown4`, `kappa`.

The exact statement `G_ab = κ T_ab` is FALSE for the module as written: its pressure carries the rounded
decimal coefficient `0.0833333` where the field equations require `1/12`.  Proven here, for all `t > 0`
and all positions with `(A t)² ≠ 2` (the metric is degenerate there):
  * `Non_diagonal_einstein_defect`: `G_ab = κ T_ab + (1/12 − 833333/10000000)·Y·h_ab` for all ten components,
    where `Y·κ⁻¹` is the module's pressure expression without its numerical coefficient and
    `h_ab = g_ab + u_a u_b` — i.e. all ten equations hold exactly once `0.0833333` is read as `1/12`;
    in particular the `tt`, `ti` and `yz` equations hold exactly as written (`h_ab = 0` there);
  * `Non_diagonal_einstein_exact_is_false`: at `(t,x,y,z) = (1,0,0,5/2)` the `xy` equation fails.
The 2-jet is proven to consist of the partial derivatives of the module's metric.
-/
import AurelVerif.Lemmas.C17JetND
import AurelVerif.Lemmas.Solutions
import Mathlib.Analysis.Real.Pi.Bounds
import Mathlib.Tactic.Linarith
import AurelVerif.Spec.MetricJet
import AurelVerif.Lemmas.C17DerivTac

set_option linter.unusedVariables false
set_option linter.unusedTactic false
set_option linter.unreachableTactic false
set_option linter.unusedSimpArgs false

namespace AurelVerif.C17Ein
open AurelVerif.Gen.Solutions AurelVerif.SolutionsLemmas AurelVerif.Spec.Jet4 AurelVerif.Spec.Curvature
open AurelVerif.C17JetTac AurelVerif.C17Jet AurelVerif.C17DerivTac

/-! ## Non_diagonal -/

/-- the domain: `t > 0` and `det γ = tA((tA)² − 2) ≠ 0`. -/
def Non_diagonal_domain (t x y z : ℝ) : Prop := 0 < t ∧ Non_diagonal.A_num z ^ 2 * t ^ 2 - 2 ≠ 0

/-- the jet: the family of Lemmas/C17JetND.lean at `A = A(z)`, `A1 = dzA(z)`, `A2 = dzdzA(z)` (the
module's own helper functions, proven to be the derivatives of `A` in `helper_derivatives`). -/
noncomputable def Non_diagonal_jet (t x y z : ℝ) : Jet2 ℝ :=
  ND.jet t (Non_diagonal.A_num z) (Non_diagonal.dzA z) (Non_diagonal.dzdzA z)

theorem Non_diagonal_gdown4_closed (t x y z : ℝ) :
    Non_diagonal.gdown4_num t x y z = (Non_diagonal_jet t x y z).g := by
  refine funext4 ?_ ?_ ?_ ?_ <;> refine funext4 ?_ ?_ ?_ ?_ <;>
    (simp [Non_diagonal_jet, ND.jet, Non_diagonal.gdown4_num, Non_diagonal.gdown4_num_00, Non_diagonal.gdown4_num_01, Non_diagonal.gdown4_num_02, Non_diagonal.gdown4_num_03, Non_diagonal.gdown4_num_10, Non_diagonal.gdown4_num_11, Non_diagonal.gdown4_num_12, Non_diagonal.gdown4_num_13, Non_diagonal.gdown4_num_20, Non_diagonal.gdown4_num_21, Non_diagonal.gdown4_num_22, Non_diagonal.gdown4_num_23, Non_diagonal.gdown4_num_30, Non_diagonal.gdown4_num_31, Non_diagonal.gdown4_num_32, Non_diagonal.gdown4_num_33, Non_diagonal.gammadown3_num, Non_diagonal.gammadown3_num_00, Non_diagonal.gammadown3_num_01, Non_diagonal.gammadown3_num_02, Non_diagonal.gammadown3_num_10, Non_diagonal.gammadown3_num_11, Non_diagonal.gammadown3_num_12, Non_diagonal.gammadown3_num_20, Non_diagonal.gammadown3_num_21, Non_diagonal.gammadown3_num_22] <;> ring)

theorem Non_diagonal_A_pos (z : ℝ) : 0 < Non_diagonal.A_num z := by
  have := Real.neg_one_le_sin (Non_diagonal.fq * z)
  unfold Non_diagonal.A_num; linarith

set_option maxHeartbeats 1000000 in
theorem Non_diagonal_d1 (t x y z : ℝ) (hD : (Non_diagonal_domain) t x y z) (c a b : Fin 4) :
    HasPartialAt (fun t x y z => Non_diagonal.gdown4_num t x y z a b) c ((Non_diagonal_jet t x y z).dg c a b) t x y z := by
  have htn : t ≠ 0 := ne_of_gt hD.1
  have hAd := (Non_diagonal_dA z).1
  have hA1d := (Non_diagonal_dA z).2
  revert c a b
  refine forall4 ?_ ?_ ?_ ?_ <;> refine forall4 ?_ ?_ ?_ ?_ <;> refine forall4 ?_ ?_ ?_ ?_ <;>
    first
    | exact hasDerivAt_const _ _
    | (simp only [hasPartialAt_zero, hasPartialAt_one, hasPartialAt_two, hasPartialAt_three, Non_diagonal_gdown4_closed, Non_diagonal_jet, ND.jet, Matrix.cons_val_zero, Matrix.cons_val_one, Matrix.cons_val]
       first | exact hasDerivAt_const _ _ | hasderiv_auto)

set_option maxHeartbeats 1000000 in
theorem Non_diagonal_d2_0 (t x y z : ℝ) (hD : (Non_diagonal_domain) t x y z) (d a b : Fin 4) :
    HasPartialAt (fun t x y z => (Non_diagonal_jet t x y z).dg d a b) 0 ((Non_diagonal_jet t x y z).ddg 0 d a b) t x y z := by
  have htn : t ≠ 0 := ne_of_gt hD.1
  have hAd := (Non_diagonal_dA z).1
  have hA1d := (Non_diagonal_dA z).2
  revert d a b
  refine forall4 ?_ ?_ ?_ ?_ <;> refine forall4 ?_ ?_ ?_ ?_ <;> refine forall4 ?_ ?_ ?_ ?_ <;>
    first
    | exact hasDerivAt_const _ _
    | (simp only [hasPartialAt_zero, hasPartialAt_one, hasPartialAt_two, hasPartialAt_three, Non_diagonal_jet, ND.jet, Matrix.cons_val_zero, Matrix.cons_val_one, Matrix.cons_val]
       first | exact hasDerivAt_const _ _ | hasderiv_auto)

set_option maxHeartbeats 1000000 in
theorem Non_diagonal_d2_1 (t x y z : ℝ) (hD : (Non_diagonal_domain) t x y z) (d a b : Fin 4) :
    HasPartialAt (fun t x y z => (Non_diagonal_jet t x y z).dg d a b) 1 ((Non_diagonal_jet t x y z).ddg 1 d a b) t x y z := by
  have htn : t ≠ 0 := ne_of_gt hD.1
  have hAd := (Non_diagonal_dA z).1
  have hA1d := (Non_diagonal_dA z).2
  revert d a b
  refine forall4 ?_ ?_ ?_ ?_ <;> refine forall4 ?_ ?_ ?_ ?_ <;> refine forall4 ?_ ?_ ?_ ?_ <;>
    first
    | exact hasDerivAt_const _ _
    | (simp only [hasPartialAt_zero, hasPartialAt_one, hasPartialAt_two, hasPartialAt_three, Non_diagonal_jet, ND.jet, Matrix.cons_val_zero, Matrix.cons_val_one, Matrix.cons_val]
       first | exact hasDerivAt_const _ _ | hasderiv_auto)

set_option maxHeartbeats 1000000 in
theorem Non_diagonal_d2_2 (t x y z : ℝ) (hD : (Non_diagonal_domain) t x y z) (d a b : Fin 4) :
    HasPartialAt (fun t x y z => (Non_diagonal_jet t x y z).dg d a b) 2 ((Non_diagonal_jet t x y z).ddg 2 d a b) t x y z := by
  have htn : t ≠ 0 := ne_of_gt hD.1
  have hAd := (Non_diagonal_dA z).1
  have hA1d := (Non_diagonal_dA z).2
  revert d a b
  refine forall4 ?_ ?_ ?_ ?_ <;> refine forall4 ?_ ?_ ?_ ?_ <;> refine forall4 ?_ ?_ ?_ ?_ <;>
    first
    | exact hasDerivAt_const _ _
    | (simp only [hasPartialAt_zero, hasPartialAt_one, hasPartialAt_two, hasPartialAt_three, Non_diagonal_jet, ND.jet, Matrix.cons_val_zero, Matrix.cons_val_one, Matrix.cons_val]
       first | exact hasDerivAt_const _ _ | hasderiv_auto)

set_option maxHeartbeats 1000000 in
theorem Non_diagonal_d2_3 (t x y z : ℝ) (hD : (Non_diagonal_domain) t x y z) (d a b : Fin 4) :
    HasPartialAt (fun t x y z => (Non_diagonal_jet t x y z).dg d a b) 3 ((Non_diagonal_jet t x y z).ddg 3 d a b) t x y z := by
  have htn : t ≠ 0 := ne_of_gt hD.1
  have hAd := (Non_diagonal_dA z).1
  have hA1d := (Non_diagonal_dA z).2
  revert d a b
  refine forall4 ?_ ?_ ?_ ?_ <;> refine forall4 ?_ ?_ ?_ ?_ <;> refine forall4 ?_ ?_ ?_ ?_ <;>
    first
    | exact hasDerivAt_const _ _
    | (simp only [hasPartialAt_zero, hasPartialAt_one, hasPartialAt_two, hasPartialAt_three, Non_diagonal_jet, ND.jet, Matrix.cons_val_zero, Matrix.cons_val_one, Matrix.cons_val]
       first | exact hasDerivAt_const _ _ | hasderiv_auto)

theorem Non_diagonal_isJetField : IsJetField (Non_diagonal_domain) Non_diagonal.gdown4_num Non_diagonal_jet where
  g_eq := by
    intro t x y z hD
    exact (Non_diagonal_gdown4_closed t x y z).symm
  inverse := by
    intro t x y z hD
    have htn : t ≠ 0 := ne_of_gt hD.1
    have hAd := (Non_diagonal_dA z).1
    have hA1d := (Non_diagonal_dA z).2
    exact ND.jet_inverse _ _ _ _ htn (Non_diagonal_A_pos z).ne' hD.2
  d1 := fun t x y z hD c a b => Non_diagonal_d1 t x y z hD c a b
  d2 := fun t x y z hD => forall4 (Non_diagonal_d2_0 t x y z hD) (Non_diagonal_d2_1 t x y z hD) (Non_diagonal_d2_2 t x y z hD) (Non_diagonal_d2_3 t x y z hD)

/-- `κ (p_exact − p_module)`: the module's pressure is `(833333/10000000)·Y/κ` with
`Y = t⁻² ((A t)² − 2)⁻² (3A⁵t⁴ + …)/A`; the field equations require the coefficient `1/12`. -/
noncomputable def Non_diagonal_defect (t z : ℝ) : ℝ :=
  (1 / 12 - 833333 / 10000000) * ((t ^ 2)⁻¹ * (((-2 + Non_diagonal.A_num z ^ 2 * t ^ 2) ^ 2)⁻¹ *
    (3 * (Non_diagonal.A_num z ^ 5 * t ^ 4) + (-2 * (t ^ 3 * Non_diagonal.dzA z ^ 2)
      + (-3 * (Non_diagonal.A_num z ^ 2 * (t ^ 5 * Non_diagonal.dzA z ^ 2))
      + (Non_diagonal.A_num z * (8 + -8 * (t ^ 3 * Non_diagonal.dzdzA z))
      + Non_diagonal.A_num z ^ 3 * (6 * t ^ 2 + 4 * (t ^ 5 * Non_diagonal.dzdzA z)))))))) / Non_diagonal.A_num z

set_option maxHeartbeats 1000000 in
/-- Non_diagonal: all ten components, `G_ab = κ T_ab + defect · (g_ab + u_a u_b)`, `u = (−1,0,0,0)`. -/
theorem Non_diagonal_einstein_defect (t x y z : ℝ) (hD : Non_diagonal_domain t x y z) (a b : Fin 4) :
    (Non_diagonal_jet t x y z).Einstein a b = Non_diagonal.kappa * Non_diagonal.Tdown4 t x y z a b
      + Non_diagonal_defect t z * (Non_diagonal.gdown4_num t x y z a b
          + (if a = 0 then -1 else 0) * (if b = 0 then -1 else 0)) := by
  have htn : t ≠ 0 := ne_of_gt hD.1
  have hA := (Non_diagonal_A_pos z).ne'
  have hkap : Non_diagonal.kappa ≠ 0 := by unfold Non_diagonal.kappa; positivity
  have hd := hD.2
  unfold Non_diagonal_jet
  rw [ND.Einstein_eq _ _ _ _ htn hA hd]
  revert a b
  refine forall4 ?_ ?_ ?_ ?_ <;> refine forall4 ?_ ?_ ?_ ?_ <;>
    (simp only [ND.EinsteinT, Non_diagonal_defect, Non_diagonal.Tdown4, Non_diagonal.Tdown4_00, Non_diagonal.Tdown4_01, Non_diagonal.Tdown4_02, Non_diagonal.Tdown4_03, Non_diagonal.Tdown4_10, Non_diagonal.Tdown4_11, Non_diagonal.Tdown4_12, Non_diagonal.Tdown4_13, Non_diagonal.Tdown4_20, Non_diagonal.Tdown4_21, Non_diagonal.Tdown4_22, Non_diagonal.Tdown4_23, Non_diagonal.Tdown4_30, Non_diagonal.Tdown4_31, Non_diagonal.Tdown4_32, Non_diagonal.Tdown4_33, Non_diagonal.gdown4_num, Non_diagonal.gdown4_num_00, Non_diagonal.gdown4_num_01, Non_diagonal.gdown4_num_02, Non_diagonal.gdown4_num_03, Non_diagonal.gdown4_num_10, Non_diagonal.gdown4_num_11, Non_diagonal.gdown4_num_12, Non_diagonal.gdown4_num_13, Non_diagonal.gdown4_num_20, Non_diagonal.gdown4_num_21, Non_diagonal.gdown4_num_22, Non_diagonal.gdown4_num_23, Non_diagonal.gdown4_num_30, Non_diagonal.gdown4_num_31, Non_diagonal.gdown4_num_32, Non_diagonal.gdown4_num_33, Non_diagonal.gammadown3_num, Non_diagonal.gammadown3_num_00, Non_diagonal.gammadown3_num_01, Non_diagonal.gammadown3_num_02, Non_diagonal.gammadown3_num_10, Non_diagonal.gammadown3_num_11, Non_diagonal.gammadown3_num_12, Non_diagonal.gammadown3_num_20, Non_diagonal.gammadown3_num_21, Non_diagonal.gammadown3_num_22, Matrix.cons_val_zero, Matrix.cons_val_one, Matrix.cons_val, Fin.isValue, Fin.reduceEq, if_true, if_false, reduceIte]
     generalize Non_diagonal.A_num z = A at *
     generalize Non_diagonal.dzA z = A1
     generalize Non_diagonal.dzdzA z = A2
     generalize Non_diagonal.kappa = κ at *
     have v1 : -2 + A ^ 2 * t ^ 2 ≠ 0 := fun hh => hd (by linear_combination hh)
     have v2 : -2 + (A * t) ^ 2 ≠ 0 := fun hh => hd (by linear_combination hh)
     have v3 : t ^ 2 * A ^ 2 - 2 ≠ 0 := fun hh => hd (by linear_combination hh)
     have v4 : -2 + t ^ 2 * A ^ 2 ≠ 0 := fun hh => hd (by linear_combination hh)
     have v5 : -2 + (t * A) ^ 2 ≠ 0 := fun hh => hd (by linear_combination hh)
     first | ring1 | (field_simp; ring1))

/-- all ten Einstein equations hold exactly for the stress-energy tensor with the exact pressure coefficient
`1/12`: `T_exact = Tdown4 + (defect/κ)·h`. -/
theorem Non_diagonal_einstein_exact_coefficient (t x y z : ℝ) (hD : Non_diagonal_domain t x y z) :
    (Non_diagonal_jet t x y z).SolvesEinstein 0 Non_diagonal.kappa
      (fun a b => Non_diagonal.Tdown4 t x y z a b + Non_diagonal_defect t z / Non_diagonal.kappa *
        (Non_diagonal.gdown4_num t x y z a b + (if a = 0 then -1 else 0) * (if b = 0 then -1 else 0))) := by
  intro a b
  have hkap : Non_diagonal.kappa ≠ 0 := by unfold Non_diagonal.kappa; positivity
  rw [Non_diagonal_einstein_defect t x y z hD a b]
  field_simp
  ring

/-- the module's decimal coefficient is not the exact one. -/
theorem Non_diagonal_coefficient_is_rounded : (833333:ℝ) / 10000000 ≠ 1 / 12 := by norm_num

theorem Non_diagonal_witness_values :
    Non_diagonal.A_num (5 / 2) = 5 / 2 ∧ Non_diagonal.dzA (5 / 2) = 0 ∧
    Non_diagonal.dzdzA (5 / 2) = -(Real.pi ^ 2 / 125) := by
  have harg : Non_diagonal.fq * (5 / 2) = Real.pi / 2 := by
    unfold Non_diagonal.fq Non_diagonal.Lambda; ring
  refine ⟨?_, ?_, ?_⟩
  · unfold Non_diagonal.A_num; rw [harg, Real.sin_pi_div_two]; norm_num
  · unfold Non_diagonal.dzA; rw [harg, Real.cos_pi_div_two]; ring
  · unfold Non_diagonal.dzdzA; rw [harg, Real.sin_pi_div_two]
    unfold Non_diagonal.fq Non_diagonal.Lambda; ring

theorem Non_diagonal_witness_domain : Non_diagonal_domain 1 0 0 (5 / 2) := by
  refine ⟨one_pos, ?_⟩
  rw [Non_diagonal_witness_values.1]; norm_num

theorem Non_diagonal_witness_defect_pos : 0 < Non_diagonal_defect 1 (5 / 2) := by
  obtain ⟨hA, hA1, hA2⟩ := Non_diagonal_witness_values
  have hpi : Real.pi ^ 2 < 16 := by
    have := Real.pi_lt_four
    have := Real.pi_pos
    nlinarith
  unfold Non_diagonal_defect
  rw [hA, hA1, hA2]
  have : (0:ℝ) < 3 * ((5 / 2) ^ 5 * 1 ^ 4) + (-2 * (1 ^ 3 * (0:ℝ) ^ 2) + (-3 * ((5 / 2) ^ 2 * (1 ^ 5 * (0:ℝ) ^ 2))
      + (5 / 2 * (8 + -8 * (1 ^ 3 * -(Real.pi ^ 2 / 125)))
      + (5 / 2) ^ 3 * (6 * 1 ^ 2 + 4 * (1 ^ 5 * -(Real.pi ^ 2 / 125)))))) := by nlinarith
  positivity

/-- the exact statement `G_ab = κ T_ab` with the module's `Tdown4` as written is FALSE: at
`(t,x,y,z) = (1,0,0,5/2)` the `xy` equation fails (by `κ(p_exact − p_module) ≈ 4·10⁻⁷ κ p`). -/
theorem Non_diagonal_einstein_exact_is_false :
    ¬ (Non_diagonal_jet 1 0 0 (5 / 2)).SolvesEinstein 0 Non_diagonal.kappa
        (Non_diagonal.Tdown4 1 0 0 (5 / 2)) := by
  intro h
  have h12 := h 1 2
  have hd := Non_diagonal_einstein_defect 1 0 0 (5 / 2) Non_diagonal_witness_domain 1 2
  have hg : Non_diagonal.gdown4_num 1 0 0 (5 / 2) 1 2 = 1 := by
    simp [Non_diagonal.gdown4_num, Non_diagonal.gdown4_num_12, Non_diagonal.gammadown3_num_01]
  have hpos := Non_diagonal_witness_defect_pos
  rw [hd, hg] at h12
  simp only [Fin.isValue, Fin.reduceEq, if_false, reduceIte] at h12
  nlinarith
end AurelVerif.C17Ein
