/-
Lemmas/C17EinND.lean — Non_diagonal: all ten Einstein equations `G_ab = κ T_ab` for the module's own `gdown4`,
`Tdown4`, `kappa`, exactly as written, for all `t > 0` and all positions with `(A t)² ≠ 2` (the metric is
degenerate there).  The 2-jet is proven to consist of the partial derivatives of the module's metric.

History: up to /repo commit 7527532 the pressure in `Tdown4` carried the rounded decimal `0.0833333` where the
field equations require `1/12`; the exact statement was then false (proven here at the time, witness
`(t,x,y,z) = (1,0,0,5/2)`, `xy` component, relative size `4·10⁻⁷`).  The source now uses `(1/12)`.
-/
import AurelVerif.Lemmas.C17JetND
import AurelVerif.Lemmas.Solutions
import Mathlib.Analysis.Real.Pi.Bounds
import Mathlib.Tactic.Linarith
import AurelVerif.Spec.MetricJet
import AurelVerif.Lemmas.C17DerivTac

set_option linter.unusedVariables false
set_option linter.unusedTactic false
set_option linter.unreachableTactic false
set_option linter.unusedSimpArgs false

namespace AurelVerif.C17Ein
open AurelVerif.Gen.Solutions AurelVerif.SolutionsLemmas AurelVerif.Spec.Jet4 AurelVerif.Spec.Curvature
open AurelVerif.C17JetTac AurelVerif.C17Jet AurelVerif.C17DerivTac

/-! ## Non_diagonal -/

/-- the domain: `t > 0` and `det γ = tA((tA)² − 2) ≠ 0`. -/
def Non_diagonal_domain (t x y z : ℝ) : Prop := 0 < t ∧ Non_diagonal.A_num z ^ 2 * t ^ 2 - 2 ≠ 0

/-- the jet: the family of Lemmas/C17JetND.lean at `A = A(z)`, `A1 = dzA(z)`, `A2 = dzdzA(z)` (the
module's own helper functions, proven to be the derivatives of `A` in `helper_derivatives`). -/
noncomputable def Non_diagonal_jet (t x y z : ℝ) : Jet2 ℝ :=
  ND.jet t (Non_diagonal.A_num z) (Non_diagonal.dzA z) (Non_diagonal.dzdzA z)

theorem Non_diagonal_gdown4_closed (t x y z : ℝ) :
    Non_diagonal.gdown4_num t x y z = (Non_diagonal_jet t x y z).g := by
  refine funext4 ?_ ?_ ?_ ?_ <;> refine funext4 ?_ ?_ ?_ ?_ <;>
    (simp [Non_diagonal_jet, ND.jet, Non_diagonal.gdown4_num, Non_diagonal.gdown4_num_00, Non_diagonal.gdown4_num_01, Non_diagonal.gdown4_num_02, Non_diagonal.gdown4_num_03, Non_diagonal.gdown4_num_10, Non_diagonal.gdown4_num_11, Non_diagonal.gdown4_num_12, Non_diagonal.gdown4_num_13, Non_diagonal.gdown4_num_20, Non_diagonal.gdown4_num_21, Non_diagonal.gdown4_num_22, Non_diagonal.gdown4_num_23, Non_diagonal.gdown4_num_30, Non_diagonal.gdown4_num_31, Non_diagonal.gdown4_num_32, Non_diagonal.gdown4_num_33, Non_diagonal.gammadown3_num, Non_diagonal.gammadown3_num_00, Non_diagonal.gammadown3_num_01, Non_diagonal.gammadown3_num_02, Non_diagonal.gammadown3_num_10, Non_diagonal.gammadown3_num_11, Non_diagonal.gammadown3_num_12, Non_diagonal.gammadown3_num_20, Non_diagonal.gammadown3_num_21, Non_diagonal.gammadown3_num_22] <;> ring)

theorem Non_diagonal_A_pos (z : ℝ) : 0 < Non_diagonal.A_num z := by
  have := Real.neg_one_le_sin (Non_diagonal.fq * z)
  unfold Non_diagonal.A_num; linarith

set_option maxHeartbeats 1000000 in
theorem Non_diagonal_d1 (t x y z : ℝ) (hD : (Non_diagonal_domain) t x y z) (c a b : Fin 4) :
    HasPartialAt (fun t x y z => Non_diagonal.gdown4_num t x y z a b) c ((Non_diagonal_jet t x y z).dg c a b) t x y z := by
  have htn : t ≠ 0 := ne_of_gt hD.1
  have hAd := (Non_diagonal_dA z).1
  have hA1d := (Non_diagonal_dA z).2
  revert c a b
  refine forall4 ?_ ?_ ?_ ?_ <;> refine forall4 ?_ ?_ ?_ ?_ <;> refine forall4 ?_ ?_ ?_ ?_ <;>
    first
    | exact hasDerivAt_const _ _
    | (simp only [hasPartialAt_zero, hasPartialAt_one, hasPartialAt_two, hasPartialAt_three, Non_diagonal_gdown4_closed, Non_diagonal_jet, ND.jet, Matrix.cons_val_zero, Matrix.cons_val_one, Matrix.cons_val]
       first | exact hasDerivAt_const _ _ | hasderiv_auto)

set_option maxHeartbeats 1000000 in
theorem Non_diagonal_d2_0 (t x y z : ℝ) (hD : (Non_diagonal_domain) t x y z) (d a b : Fin 4) :
    HasPartialAt (fun t x y z => (Non_diagonal_jet t x y z).dg d a b) 0 ((Non_diagonal_jet t x y z).ddg 0 d a b) t x y z := by
  have htn : t ≠ 0 := ne_of_gt hD.1
  have hAd := (Non_diagonal_dA z).1
  have hA1d := (Non_diagonal_dA z).2
  revert d a b
  refine forall4 ?_ ?_ ?_ ?_ <;> refine forall4 ?_ ?_ ?_ ?_ <;> refine forall4 ?_ ?_ ?_ ?_ <;>
    first
    | exact hasDerivAt_const _ _
    | (simp only [hasPartialAt_zero, hasPartialAt_one, hasPartialAt_two, hasPartialAt_three, Non_diagonal_jet, ND.jet, Matrix.cons_val_zero, Matrix.cons_val_one, Matrix.cons_val]
       first | exact hasDerivAt_const _ _ | hasderiv_auto)

set_option maxHeartbeats 1000000 in
theorem Non_diagonal_d2_1 (t x y z : ℝ) (hD : (Non_diagonal_domain) t x y z) (d a b : Fin 4) :
    HasPartialAt (fun t x y z => (Non_diagonal_jet t x y z).dg d a b) 1 ((Non_diagonal_jet t x y z).ddg 1 d a b) t x y z := by
  have htn : t ≠ 0 := ne_of_gt hD.1
  have hAd := (Non_diagonal_dA z).1
  have hA1d := (Non_diagonal_dA z).2
  revert d a b
  refine forall4 ?_ ?_ ?_ ?_ <;> refine forall4 ?_ ?_ ?_ ?_ <;> refine forall4 ?_ ?_ ?_ ?_ <;>
    first
    | exact hasDerivAt_const _ _
    | (simp only [hasPartialAt_zero, hasPartialAt_one, hasPartialAt_two, hasPartialAt_three, Non_diagonal_jet, ND.jet, Matrix.cons_val_zero, Matrix.cons_val_one, Matrix.cons_val]
       first | exact hasDerivAt_const _ _ | hasderiv_auto)

set_option maxHeartbeats 1000000 in
theorem Non_diagonal_d2_2 (t x y z : ℝ) (hD : (Non_diagonal_domain) t x y z) (d a b : Fin 4) :
    HasPartialAt (fun t x y z => (Non_diagonal_jet t x y z).dg d a b) 2 ((Non_diagonal_jet t x y z).ddg 2 d a b) t x y z := by
  have htn : t ≠ 0 := ne_of_gt hD.1
  have hAd := (Non_diagonal_dA z).1
  have hA1d := (Non_diagonal_dA z).2
  revert d a b
  refine forall4 ?_ ?_ ?_ ?_ <;> refine forall4 ?_ ?_ ?_ ?_ <;> refine forall4 ?_ ?_ ?_ ?_ <;>
    first
    | exact hasDerivAt_const _ _
    | (simp only [hasPartialAt_zero, hasPartialAt_one, hasPartialAt_two, hasPartialAt_three, Non_diagonal_jet, ND.jet, Matrix.cons_val_zero, Matrix.cons_val_one, Matrix.cons_val]
       first | exact hasDerivAt_const _ _ | hasderiv_auto)

set_option maxHeartbeats 1000000 in
theorem Non_diagonal_d2_3 (t x y z : ℝ) (hD : (Non_diagonal_domain) t x y z) (d a b : Fin 4) :
    HasPartialAt (fun t x y z => (Non_diagonal_jet t x y z).dg d a b) 3 ((Non_diagonal_jet t x y z).ddg 3 d a b) t x y z := by
  have htn : t ≠ 0 := ne_of_gt hD.1
  have hAd := (Non_diagonal_dA z).1
  have hA1d := (Non_diagonal_dA z).2
  revert d a b
  refine forall4 ?_ ?_ ?_ ?_ <;> refine forall4 ?_ ?_ ?_ ?_ <;> refine forall4 ?_ ?_ ?_ ?_ <;>
    first
    | exact hasDerivAt_const _ _
    | (simp only [hasPartialAt_zero, hasPartialAt_one, hasPartialAt_two, hasPartialAt_three, Non_diagonal_jet, ND.jet, Matrix.cons_val_zero, Matrix.cons_val_one, Matrix.cons_val]
       first | exact hasDerivAt_const _ _ | hasderiv_auto)

theorem Non_diagonal_isJetField : IsJetField (Non_diagonal_domain) Non_diagonal.gdown4_num Non_diagonal_jet where
  g_eq := by
    intro t x y z hD
    exact (Non_diagonal_gdown4_closed t x y z).symm
  inverse := by
    intro t x y z hD
    have htn : t ≠ 0 := ne_of_gt hD.1
    have hAd := (Non_diagonal_dA z).1
    have hA1d := (Non_diagonal_dA z).2
    exact ND.jet_inverse _ _ _ _ htn (Non_diagonal_A_pos z).ne' hD.2
  d1 := fun t x y z hD c a b => Non_diagonal_d1 t x y z hD c a b
  d2 := fun t x y z hD => forall4 (Non_diagonal_d2_0 t x y z hD) (Non_diagonal_d2_1 t x y z hD) (Non_diagonal_d2_2 t x y z hD) (Non_diagonal_d2_3 t x y z hD)

set_option maxHeartbeats 1000000 in
/-- Non_diagonal: all ten Einstein equations `G_ab = κ T_ab` with the module's `Tdown4`, `kappa`. -/
theorem Non_diagonal_einstein (t x y z : ℝ) (hD : Non_diagonal_domain t x y z) :
    (Non_diagonal_jet t x y z).SolvesEinstein 0 Non_diagonal.kappa (Non_diagonal.Tdown4 t x y z) := by
  have htn : t ≠ 0 := ne_of_gt hD.1
  have hA := (Non_diagonal_A_pos z).ne'
  have hkap : Non_diagonal.kappa ≠ 0 := by unfold Non_diagonal.kappa; positivity
  have hd := hD.2
  unfold Jet2.SolvesEinstein Non_diagonal_jet
  rw [ND.Einstein_eq _ _ _ _ htn hA hd]
  refine forall4 ?_ ?_ ?_ ?_ <;> refine forall4 ?_ ?_ ?_ ?_ <;>
    (simp only [ND.EinsteinT, ND.jet, Non_diagonal.Tdown4, Non_diagonal.Tdown4_00, Non_diagonal.Tdown4_01, Non_diagonal.Tdown4_02, Non_diagonal.Tdown4_03, Non_diagonal.Tdown4_10, Non_diagonal.Tdown4_11, Non_diagonal.Tdown4_12, Non_diagonal.Tdown4_13, Non_diagonal.Tdown4_20, Non_diagonal.Tdown4_21, Non_diagonal.Tdown4_22, Non_diagonal.Tdown4_23, Non_diagonal.Tdown4_30, Non_diagonal.Tdown4_31, Non_diagonal.Tdown4_32, Non_diagonal.Tdown4_33, Non_diagonal.gdown4_num, Non_diagonal.gdown4_num_00, Non_diagonal.gdown4_num_01, Non_diagonal.gdown4_num_02, Non_diagonal.gdown4_num_03, Non_diagonal.gdown4_num_10, Non_diagonal.gdown4_num_11, Non_diagonal.gdown4_num_12, Non_diagonal.gdown4_num_13, Non_diagonal.gdown4_num_20, Non_diagonal.gdown4_num_21, Non_diagonal.gdown4_num_22, Non_diagonal.gdown4_num_23, Non_diagonal.gdown4_num_30, Non_diagonal.gdown4_num_31, Non_diagonal.gdown4_num_32, Non_diagonal.gdown4_num_33, Non_diagonal.gammadown3_num, Non_diagonal.gammadown3_num_00, Non_diagonal.gammadown3_num_01, Non_diagonal.gammadown3_num_02, Non_diagonal.gammadown3_num_10, Non_diagonal.gammadown3_num_11, Non_diagonal.gammadown3_num_12, Non_diagonal.gammadown3_num_20, Non_diagonal.gammadown3_num_21, Non_diagonal.gammadown3_num_22, Matrix.cons_val_zero, Matrix.cons_val_one, Matrix.cons_val]
     generalize Non_diagonal.A_num z = A at *
     generalize Non_diagonal.dzA z = A1
     generalize Non_diagonal.dzdzA z = A2
     generalize Non_diagonal.kappa = κ at *
     have v1 : -2 + A ^ 2 * t ^ 2 ≠ 0 := fun hh => hd (by linear_combination hh)
     have v2 : -2 + (A * t) ^ 2 ≠ 0 := fun hh => hd (by linear_combination hh)
     have v3 : t ^ 2 * A ^ 2 - 2 ≠ 0 := fun hh => hd (by linear_combination hh)
     have v4 : -2 + t ^ 2 * A ^ 2 ≠ 0 := fun hh => hd (by linear_combination hh)
     have v5 : -2 + (t * A) ^ 2 ≠ 0 := fun hh => hd (by linear_combination hh)
     first | ring1 | (field_simp; ring1))

/-- non-vacuity: a point of the domain (`A(5/2) = 5/2`). -/
theorem Non_diagonal_witness_domain : Non_diagonal_domain 1 0 0 (5 / 2) := by
  have harg : Non_diagonal.fq * (5 / 2) = Real.pi / 2 := by
    unfold Non_diagonal.fq Non_diagonal.Lambda; ring
  have hA : Non_diagonal.A_num (5 / 2) = 5 / 2 := by
    unfold Non_diagonal.A_num; rw [harg, Real.sin_pi_div_two]; norm_num
  refine ⟨one_pos, ?_⟩
  rw [hA]; norm_num

/-- PRE-FIX fact, not a property of the current code: the decimal that `Tdown4` used before /repo commit
7527532 is not the coefficient `1/12` the field equations require. -/
theorem Non_diagonal_old_coefficient_was_rounded : (833333:ℝ) / 10000000 ≠ 1 / 12 := by norm_num
end AurelVerif.C17Ein
