/-
Lemmas/C11Names.lean — C11 (D6): statements about the name translation that
quantify over EVERY string, reduced to kernel-decided statements about every
entry of the generated tables (Gen/VarMaps.lean, regenerated on every run).
-/
import AurelVerif.Gen.VarMaps
namespace AurelVerif.NamesLemmas
open AurelVerif.Gen.VarMaps

theorem find?_some_mem {β : Type} (tab : List (String × β)) (k : String) (v : β) (h : find? tab k = some v) :
    (k, v) ∈ tab := by
  induction tab with
  | nil => simp [find?] at h
  | cons kv rest ih =>
    obtain ⟨k', v'⟩ := kv
    unfold find? at h
    by_cases e : k' = k
    · simp only [e, if_true, Option.some.injEq] at h
      subst h; subst e
      exact List.mem_cons_self ..
    · simp only [e, if_false] at h
      exact List.mem_cons_of_mem _ (ih h)

theorem find?_none_of_not_mem {β : Type} (tab : List (String × β)) (k : String) (h : k ∉ tab.map Prod.fst) :
    find? tab k = none := by
  induction tab with
  | nil => rfl
  | cons kv rest ih =>
    obtain ⟨k', v'⟩ := kv
    simp only [List.map_cons, List.mem_cons, not_or] at h
    unfold find?
    have : ¬ k' = k := fun e => h.1 e.symm
    simp only [this, if_false]
    exact ih h.2

theorem aurelToET_of_not_key (v : String) (h : v ∉ aurelToETTab.map Prod.fst) : aurelToET v = [v] := by
  unfold aurelToET
  rw [find?_none_of_not_mem _ _ h]
  rfl

theorem etToAurel_of_not_key (v : String) (h : v ∉ etToAurelTab.map Prod.fst) : etToAurel v = v := by
  unfold etToAurel
  rw [find?_none_of_not_mem _ _ h]
  rfl

/-- `v` is a key of the table or not (decidable: list membership of strings) -/
theorem key_cases {β : Type} (tab : List (String × β)) (v : String) :
    v ∈ tab.map Prod.fst ∨ v ∉ tab.map Prod.fst := Classical.em _

/-! ### finite facts, every entry of the tables -/

theorem keys_roundtrip_or_tensor :
    ∀ k ∈ aurelToETTab.map Prod.fst, k ∈ tensorNames ∨ (aurelToET k).map etToAurel = [k] := by decide +kernel

theorem et_keys_not_aurel_keys_or_fix :
    ∀ e ∈ etToAurelTab.map Prod.fst, e ∉ aurelToETTab.map Prod.fst := by decide +kernel

theorem et_keys_roundtrip : ∀ e ∈ etToAurelTab.map Prod.fst, aurelToET (etToAurel e) = [e] := by decide +kernel

theorem et_values_canonical : ∀ e ∈ etToAurelTab.map Prod.fst, (aurelToET (etToAurel e)).map etToAurel = [etToAurel e] := by
  decide +kernel

theorem keys_canon_idem : ∀ k ∈ aurelToETTab.map Prod.fst,
    ((aurelToET k).map etToAurel).flatMap (fun a => (aurelToET a).map etToAurel) = (aurelToET k).map etToAurel := by
  decide +kernel

theorem keys_fix_et : ∀ k ∈ aurelToETTab.map Prod.fst, aurelToET k = [k] → aurelToET (etToAurel k) = [k] := by
  decide +kernel

/-! ### every string -/

/-- aurel → ET → aurel is the identity on EVERY string that is neither a tensor
name nor an Einstein Toolkit name of the ET → aurel table -/
theorem roundtrip_every_string (v : String) (ht : v ∉ tensorNames) (he : v ∉ etToAurelTab.map Prod.fst) :
    (aurelToET v).map etToAurel = [v] := by
  rcases key_cases aurelToETTab v with h | h
  · rcases keys_roundtrip_or_tensor v h with h' | h'
    · exact absurd h' ht
    · exact h'
  · rw [aurelToET_of_not_key v h]
    simp [etToAurel_of_not_key v he]

/-- ET → aurel → ET is the identity on EVERY string that `transform_vars_aurel_to_ET`
leaves alone (in particular on every string outside the aurel table, and on every key of the ET table) -/
theorem et_roundtrip_every_string (e : String) (h : e ∉ aurelToETTab.map Prod.fst ∨ aurelToET e = [e]) :
    aurelToET (etToAurel e) = [e] := by
  rcases key_cases etToAurelTab e with he | he
  · exact et_keys_roundtrip e he
  · rw [etToAurel_of_not_key e he]
    rcases h with h | h
    · exact aurelToET_of_not_key e h
    · exact h

/-- the column names a request ends up under (`aurel → ET → aurel`) are canonical:
translating them again changes nothing — for EVERY string -/
theorem canon_idempotent (v : String) :
    ((aurelToET v).map etToAurel).flatMap (fun a => (aurelToET a).map etToAurel) = (aurelToET v).map etToAurel := by
  rcases key_cases aurelToETTab v with h | h
  · exact keys_canon_idem v h
  · rw [aurelToET_of_not_key v h]
    simp only [List.map_cons, List.map_nil, List.flatMap_cons, List.flatMap_nil, List.append_nil]
    rcases key_cases etToAurelTab v with he | he
    · exact et_values_canonical v he
    · rw [etToAurel_of_not_key v he, aurelToET_of_not_key v h]
      simp [etToAurel_of_not_key v he]

end AurelVerif.NamesLemmas
