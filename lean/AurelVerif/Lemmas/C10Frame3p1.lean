/-
Lemmas/C10Frame3p1.lean — the electric and magnetic parts of a rank-4 tensor in the frame ADAPTED to the foliation
(property C10, coherence of the two constructions of `st_Weyl_down4`).  Pure algebra at one point; nothing here
refers to a generated formula except the Levi-Civita SYMBOL tables (`levicivita_symbol_down3/4`, constants).

`J : Jet K` supplies lapse `α ≠ 0`, shift `β^i`, `γ^{ij}`; the inverse 4-metric is the 3+1 form `J.gup3p1`
(`g^tt = −1/α²`, `g^ti = β^i/α²`, `g^ij = γ^ij − β^iβ^j/α²`), the unit normal `nuJ J = (1, −β^i)/α`, and the
4-D Levi-Civita tensor is `lc4 e s = [abcd]·s`.

  gup3p1_split        `g^{ac} M_ac = γ^{ik} M_ik − n^a n^c M_ac`
  bweylU_spatial      `½ W_abcd ε^{cd}{}_{ef} n^b n^f` at spatial `(a,e) = (i,j)`
                        `= −(1/2α) (W_{i n k l}) γ^{kk'} γ^{ll'} [k'l'j] s`
  eweylU_trace        `γ^{ij} (W_{i n j n}) = 0` for a trace-free `W` antisymmetric in its first pair
  ricci_of_block      `γ^{ik} W_ijkl = W_{n j n l}` for a trace-free `W`
  dual3_inj           the 3-D dual `X_kl ↦ X_kl γ^{kk'} γ^{ll'} [k'l'j]` is injective on antisymmetric `X`
  weyl_unique_adapted **a tensor with the Riemann symmetries, trace-free, is determined by the spatial components of
                      its electric and magnetic parts w.r.t. the normal** (vanishing form: both zero ⟹ tensor zero)
-/
import AurelVerif.Lemmas.C04Mainardi
import AurelVerif.Lemmas.C04RiemSym
import AurelVerif.Lemmas.C10Bsym
import AurelVerif.Lemmas.C10Riem3D

set_option linter.unusedSimpArgs false
set_option linter.unusedVariables false
set_option linter.unusedSectionVars false

namespace AurelVerif.C10
open AurelVerif.Gen.Core AurelVerif.Tensor AurelVerif.CoreTac AurelVerif.Spec.Weyl
open AurelVerif.Spec.Curvature (Jet tsplit tsplit_0 tsplit_1 tsplit_2 tsplit_3)
open AurelVerif.C04L (tsplit_succ fin4_ts)

variable {K : Type} [Field K]

/-- the unit normal of the foliation in coordinates, `n^a = (1, −β^i)/α` (what `nup4` evaluates). -/
def nuJ (J : Jet K) : Fin 4 → K := tsplit (1 / J.alpha) fun i => -J.beta i / J.alpha

/-- `ε_{abcd} = [abcd]·s` with the generated symbol table. -/
def lc4 (e : Env K) (s : K) (a b c d : Fin 4) : K := levicivita_symbol_down4 e a b c d * s

theorem sum4_succ (f : Fin 4 → K) : ∑ a, f a = f 0 + ∑ m : Fin 3, f m.succ := Fin.sum_univ_succ f

/-- `g^{ac} M_ac = γ^{ik} M_ik − n^a n^c M_ac`. -/
theorem gup3p1_split (J : Jet K) (ha : J.alpha ≠ 0) (M : Fin 4 → Fin 4 → K) :
    ∑ a, ∑ c, J.gup3p1 a c * M a c
      = ∑ i : Fin 3, ∑ k : Fin 3, J.gamup i k * M i.succ k.succ - ∑ a, ∑ c, nuJ J a * nuJ J c * M a c := by
  simp only [sum4_succ, Jet.gup3p1, nuJ, tsplit_0, tsplit_succ, Fin.sum_univ_three]
  field_simp
  ring

/-! ### contractions with the normal -/

/-- `Σ_{a,b} n^a n^b A_ab = 0` for antisymmetric `A`. -/
theorem nn_antisym (h2 : (2 : K) ≠ 0) (nu : Fin 4 → K) (A : Fin 4 → Fin 4 → K) (hA : ∀ a b, A a b = -A b a) :
    ∑ a, ∑ b, nu a * nu b * A a b = 0 :=
  sum_sym_antisym h2 (fun a b => nu a * nu b) A (fun a b => mul_comm _ _) hA

/-- `γ^{ij} E(W)_ij = 0`: the electric part of a trace-free tensor (antisymmetric in the first pair) is trace-free
on the slice. -/
theorem eweylU_trace (J : Jet K) (ha : J.alpha ≠ 0) (h2 : (2 : K) ≠ 0) (W : Fin 4 → Fin 4 → Fin 4 → Fin 4 → K)
    (h12 : ∀ a b c d, W a b c d = -W b a c d)
    (ht : ∀ b d, ∑ a, ∑ c, J.gup3p1 a c * W a b c d = 0) :
    ∑ i : Fin 3, ∑ k : Fin 3, J.gamup i k * eweylU W (nuJ J) i.succ k.succ = 0 := by
  have s := gup3p1_split J ha (eweylU W (nuJ J))
  have t1 : ∑ a, ∑ c, J.gup3p1 a c * eweylU W (nuJ J) a c = 0 := by
    have : ∑ a, ∑ c, J.gup3p1 a c * eweylU W (nuJ J) a c
        = ∑ b, ∑ d, nuJ J b * nuJ J d * ∑ a, ∑ c, J.gup3p1 a c * W a b c d := by
      simp only [eweylU, Fin.sum_univ_four]; ring
    rw [this]; simp only [ht, mul_zero, Finset.sum_const_zero]
  have t2 : ∑ a, ∑ c, nuJ J a * nuJ J c * eweylU W (nuJ J) a c = 0 := by
    have : ∑ a, ∑ c, nuJ J a * nuJ J c * eweylU W (nuJ J) a c
        = ∑ c, ∑ d, nuJ J c * nuJ J d * ∑ a, ∑ b, nuJ J a * nuJ J b * W a b c d := by
      simp only [eweylU, Fin.sum_univ_four]; ring
    rw [this]
    simp only [nn_antisym h2 (nuJ J) _ (fun a b => h12 a b _ _), mul_zero, Finset.sum_const_zero]
  linear_combination t1 - s + t2

/-- `γ^{ik} W_ijkl = W_{n j n l}` (spatial `j, l`) for a trace-free tensor with both pair antisymmetries. -/
theorem ricci_of_block (J : Jet K) (ha : J.alpha ≠ 0) (W : Fin 4 → Fin 4 → Fin 4 → Fin 4 → K)
    (h12 : ∀ a b c d, W a b c d = -W b a c d) (h34 : ∀ a b c d, W a b c d = -W a b d c)
    (ht : ∀ b d, ∑ a, ∑ c, J.gup3p1 a c * W a b c d = 0) (j l : Fin 3) :
    ∑ i : Fin 3, ∑ k : Fin 3, J.gamup i k * W i.succ j.succ k.succ l.succ = eweylU W (nuJ J) j.succ l.succ := by
  have s := gup3p1_split J ha (fun a c => W a j.succ c l.succ)
  have e1 : eweylU W (nuJ J) j.succ l.succ = ∑ a, ∑ c, nuJ J a * nuJ J c * W a j.succ c l.succ := by
    unfold eweylU
    refine Finset.sum_congr rfl fun a _ => Finset.sum_congr rfl fun c _ => ?_
    rw [h12 j.succ a l.succ c, h34 a j.succ l.succ c, neg_neg]
  rw [e1]
  linear_combination ht j.succ l.succ - s

/-! ### the magnetic part at spatial indices -/

/-- `ε^{cd}{}_{ef} n^f` for a spatial `e = j`: the components with a time index `c = 0` or `d = 0` vanish. -/
theorem eta_table_time (J : Jet K) (ha : J.alpha ≠ 0) (hγu : ∀ i j, J.gamup i j = J.gamup j i) (e : Env K) (s : K) :
    (∀ (d : Fin 4) (j : Fin 3), ∑ f, epsUudd J.gup3p1 (lc4 e s) 0 d j.succ f * nuJ J f = 0)
    ∧ (∀ (c : Fin 4) (j : Fin 3), ∑ f, epsUudd J.gup3p1 (lc4 e s) c 0 j.succ f * nuJ J f = 0) := by
  have u10 := hγu 1 0; have u20 := hγu 2 0; have u21 := hγu 2 1
  refine ⟨?_, ?_⟩
  · cases4 <;> cases3 <;>
      (simp only [epsUudd, lc4, Fin.sum_univ_four, levicivita_symbol_down4, succ3_0, succ3_1, succ3_2,
         ↓vec4_0, ↓vec4_1, ↓vec4_2, ↓vec4_3, zero_mul, mul_zero, one_mul, mul_one, neg_mul, mul_neg, add_zero, zero_add]
       simp only [nuJ, Jet.gup3p1, tsplit_0, tsplit_1, tsplit_2, tsplit_3, u10, u20, u21]
       field_simp
       ring)
  · cases4 <;> cases3 <;>
      (simp only [epsUudd, lc4, Fin.sum_univ_four, levicivita_symbol_down4, succ3_0, succ3_1, succ3_2,
         ↓vec4_0, ↓vec4_1, ↓vec4_2, ↓vec4_3, zero_mul, mul_zero, one_mul, mul_one, neg_mul, mul_neg, add_zero, zero_add]
       simp only [nuJ, Jet.gup3p1, tsplit_0, tsplit_1, tsplit_2, tsplit_3, u10, u20, u21]
       field_simp
       ring)

macro "eta_space_tac" : tactic => `(tactic|
  (cases3 <;> cases3 <;>
      (simp only [epsUudd, epsUud3, lc4, lc3, Fin.sum_univ_four, Fin.sum_univ_three,
         levicivita_symbol_down4, levicivita_symbol_down3, succ3_0, succ3_1, succ3_2, ↓vec4_0, ↓vec4_1, ↓vec4_2, ↓vec4_3,
         ↓vec3_0, ↓vec3_1, ↓vec3_2, zero_mul, mul_zero, one_mul, mul_one, neg_mul, mul_neg, add_zero, zero_add]
       simp only [nuJ, Jet.gup3p1, tsplit_0, tsplit_1, tsplit_2, tsplit_3]
       field_simp
       ring)))

theorem eta_space0 (J : Jet K) (ha : J.alpha ≠ 0) (e : Env K) (s : K) :
    ∀ k l : Fin 3, ∑ f, epsUudd J.gup3p1 (lc4 e s) k.succ l.succ (0 : Fin 3).succ f * nuJ J f
        = -(1 / J.alpha) * epsUud3 (fun a b => J.gamup b a) (lc3 e s) k l 0 := by
  eta_space_tac

theorem eta_space1 (J : Jet K) (ha : J.alpha ≠ 0) (e : Env K) (s : K) :
    ∀ k l : Fin 3, ∑ f, epsUudd J.gup3p1 (lc4 e s) k.succ l.succ (1 : Fin 3).succ f * nuJ J f
        = -(1 / J.alpha) * epsUud3 (fun a b => J.gamup b a) (lc3 e s) k l 1 := by
  eta_space_tac

theorem eta_space2 (J : Jet K) (ha : J.alpha ≠ 0) (e : Env K) (s : K) :
    ∀ k l : Fin 3, ∑ f, epsUudd J.gup3p1 (lc4 e s) k.succ l.succ (2 : Fin 3).succ f * nuJ J f
        = -(1 / J.alpha) * epsUud3 (fun a b => J.gamup b a) (lc3 e s) k l 2 := by
  eta_space_tac

/-- … and the spatial-spatial components `(c,d) = (k,l)` are `−(1/α) γ^{kk'} γ^{ll'} [k'l'j] s`. -/
theorem eta_table (J : Jet K) (ha : J.alpha ≠ 0) (hγu : ∀ i j, J.gamup i j = J.gamup j i) (e : Env K) (s : K) :
    (∀ (d : Fin 4) (j : Fin 3), ∑ f, epsUudd J.gup3p1 (lc4 e s) 0 d j.succ f * nuJ J f = 0)
    ∧ (∀ (c : Fin 4) (j : Fin 3), ∑ f, epsUudd J.gup3p1 (lc4 e s) c 0 j.succ f * nuJ J f = 0)
    ∧ ∀ k l j : Fin 3, ∑ f, epsUudd J.gup3p1 (lc4 e s) k.succ l.succ j.succ f * nuJ J f
        = -(1 / J.alpha) * epsUud3 J.gamup (lc3 e s) k l j := by
  have hT : (fun a b => J.gamup b a) = J.gamup := by funext a b; exact hγu b a
  refine ⟨(eta_table_time J ha hγu e s).1, (eta_table_time J ha hγu e s).2, fun k l => ?_⟩
  have e0 := eta_space0 J ha e s k l; have e1 := eta_space1 J ha e s k l; have e2 := eta_space2 J ha e s k l
  rw [hT] at e0 e1 e2
  cases3
  · exact e0
  · exact e1
  · exact e2

/-- the contraction `W_{a n c d} = n^b W_abcd`. -/
def nContract2 (W : Fin 4 → Fin 4 → Fin 4 → Fin 4 → K) (nu : Fin 4 → K) (a c d : Fin 4) : K := ∑ b, nu b * W a b c d

/-- **the magnetic part at spatial indices in the adapted frame**:
`½ W_abcd ε^{cd}{}_{ef} n^b n^f |_{a = i, e = j} = −(1/2α) W_{i n k l} γ^{kk'} γ^{ll'} ε_{k'l'j}`. -/
theorem bweylU_spatial (J : Jet K) (ha : J.alpha ≠ 0) (hγu : ∀ i j, J.gamup i j = J.gamup j i) (e : Env K) (s : K)
    (W : Fin 4 → Fin 4 → Fin 4 → Fin 4 → K) (a : Fin 4) (j : Fin 3) :
    bweylU W (nuJ J) (epsUudd J.gup3p1 (lc4 e s)) a j.succ
      = -(1 / (2 * J.alpha)) * ∑ k : Fin 3, ∑ l : Fin 3,
          nContract2 W (nuJ J) a k.succ l.succ * epsUud3 J.gamup (lc3 e s) k l j := by
  obtain ⟨h0d, hc0, hkl⟩ := eta_table J ha hγu e s
  have r : bweylU W (nuJ J) (epsUudd J.gup3p1 (lc4 e s)) a j.succ
      = (1 / 2) * ∑ c, ∑ d, nContract2 W (nuJ J) a c d
          * ∑ f, epsUudd J.gup3p1 (lc4 e s) c d j.succ f * nuJ J f := by
    generalize epsUudd J.gup3p1 (lc4 e s) = eps
    simp only [bweylU, nContract2, Fin.sum_univ_four]; ring
  rw [r]
  simp only [sum4_succ (fun c => ∑ d, nContract2 W (nuJ J) a c d
      * ∑ f, epsUudd J.gup3p1 (lc4 e s) c d j.succ f * nuJ J f)]
  simp only [sum4_succ (fun d => nContract2 W (nuJ J) a _ d
      * ∑ f, epsUudd J.gup3p1 (lc4 e s) _ d j.succ f * nuJ J f)]
  simp only [h0d, hc0, hkl, mul_zero, Finset.sum_const_zero, zero_add]
  have h2a : (1 / 2 : K) * -(1 / J.alpha) = -(1 / (2 * J.alpha)) := by
    rw [one_div, one_div, one_div, mul_inv]; ring
  rw [← h2a]
  simp only [Fin.sum_univ_three]; ring

/-! ### the 3-D dual is injective -/

/-- `Σ_j u_{jm} · (X_kl u^{kk'} u^{ll'} [k'l'j]) = 2 det(u) · X_{(m+1)(m+2)}` for antisymmetric `X`, symmetric `u`. -/
theorem dual3_inj (h2 : (2 : K) ≠ 0) (e : Env K) (s : K) (hs : s ≠ 0) (u : Fin 3 → Fin 3 → K)
    (hu : ∀ i j, u i j = u j i) (hd : det3 u ≠ 0) (X : Fin 3 → Fin 3 → K) (hX : ∀ k l, X k l = -X l k)
    (h : ∀ j, ∑ k, ∑ l, X k l * epsUud3 u (lc3 e s) k l j = 0) : ∀ k l, X k l = 0 := by
  have u10 := hu 1 0; have u20 := hu 2 0; have u21 := hu 2 1
  have x00 : X 0 0 = 0 := by
    have := hX 0 0
    have h' : 2 * X 0 0 = 0 := by linear_combination this
    exact (mul_eq_zero.mp h').resolve_left h2
  have x11 : X 1 1 = 0 := by
    have := hX 1 1
    have h' : 2 * X 1 1 = 0 := by linear_combination this
    exact (mul_eq_zero.mp h').resolve_left h2
  have x22 : X 2 2 = 0 := by
    have := hX 2 2
    have h' : 2 * X 2 2 = 0 := by linear_combination this
    exact (mul_eq_zero.mp h').resolve_left h2
  have x10 := hX 1 0; have x20 := hX 2 0; have x21 := hX 2 1
  have h0 := h 0; have h1 := h 1; have h2' := h 2
  simp only [epsUud3, lc3, Fin.sum_univ_three, levicivita_symbol_down3, ↓vec3_0, ↓vec3_1, ↓vec3_2, x00, x11, x22,
    x10, x20, x21, u10, u20, u21] at h0 h1 h2'
  have hdet : det3 u = u 0 0 * (u 1 1 * u 2 2 - u 1 2 * u 1 2) - u 0 1 * (u 0 1 * u 2 2 - u 1 2 * u 0 2)
      + u 0 2 * (u 0 1 * u 1 2 - u 1 1 * u 0 2) := by
    simp only [det3, u10, u20, u21]
  have fin : ∀ y : K, 2 * s * det3 u * y = 0 → y = 0 := fun y hy =>
    (mul_eq_zero.mp hy).resolve_left (mul_ne_zero (mul_ne_zero h2 hs) hd)
  have y01 : X 0 1 = 0 := fin _ (by rw [hdet]; linear_combination u 0 2 * h0 + u 1 2 * h1 + u 2 2 * h2')
  have y02 : X 0 2 = 0 := fin _ (by rw [hdet]; linear_combination -(u 0 1 * h0) - u 1 1 * h1 - u 1 2 * h2')
  have y12 : X 1 2 = 0 := fin _ (by rw [hdet]; linear_combination u 0 0 * h0 + u 0 1 * h1 + u 0 2 * h2')
  cases3 <;> cases3 <;> simp only [x00, x11, x22, x10, x20, x21, y01, y02, y12, neg_zero]


/-! ### uniqueness -/

theorem populate_zero : ∀ a b c d : Fin 4,
    Spec.Curvature.populate (fun _ _ _ _ => (0 : K)) (fun _ _ _ => 0) (fun _ _ => 0) a b c d = 0 := by
  refine fin4_ts (fin4_ts (fun c d => ?_) fun j => fin4_ts (fin4_ts ?_ fun l => ?_) fun k => fin4_ts ?_ fun l => ?_)
    fun i => fin4_ts (fin4_ts (fin4_ts ?_ fun l => ?_) fun k => fin4_ts ?_ fun l => ?_)
      fun j => fin4_ts (fin4_ts ?_ fun l => ?_) fun k => fin4_ts ?_ fun l => ?_ <;>
    simp only [Spec.Curvature.populate, tsplit_0, tsplit_succ, neg_zero, Pi.zero_apply]

/-- the symmetries in the vocabulary of Spec/Curvature.lean (diagonal clauses from characteristic ≠ 2). -/
theorem curvSym_of_weylSym (h2 : (2 : K) ≠ 0) (W : Fin 4 → Fin 4 → Fin 4 → Fin 4 → K) (hW : RiemannSym W) :
    Spec.Curvature.RiemannSym W := by
  have dg : ∀ x : K, x = -x → x = 0 := by
    intro x hx
    have : 2 * x = 0 := by linear_combination hx
    exact (mul_eq_zero.mp this).resolve_left h2
  exact ⟨hW.anti12, hW.anti34, hW.pair, fun a c d => dg _ (hW.anti12 a a c d), fun a b c => dg _ (hW.anti34 a b c c)⟩

/-- **uniqueness, vanishing form (adapted frame)**: a tensor with the Riemann symmetries and `g^{ac} W_abcd = 0`
(`g⁻¹` in 3+1 form, `α ≠ 0`, `det γ⁻¹ ≠ 0`, `ε = [abcd]·s`, `s ≠ 0`, characteristic ≠ 2) whose electric part
`W_abcd n^b n^d` and magnetic part `½ W_abcd ε^{cd}{}_{ef} n^b n^f` vanish at the spatial indices vanishes identically.
(The cyclic identity is not needed.) -/
theorem weyl_zero_adapted (J : Jet K) (ha : J.alpha ≠ 0) (h2 : (2 : K) ≠ 0)
    (hγu : ∀ i j, J.gamup i j = J.gamup j i) (hd : det3 J.gamup ≠ 0) (e : Env K) (s : K) (hs : s ≠ 0)
    (W : Fin 4 → Fin 4 → Fin 4 → Fin 4 → K) (hW : RiemannSym W)
    (ht : ∀ b d, ∑ a, ∑ c, J.gup3p1 a c * W a b c d = 0)
    (hE : ∀ i j : Fin 3, eweylU W (nuJ J) i.succ j.succ = 0)
    (hB : ∀ i j : Fin 3, bweylU W (nuJ J) (epsUudd J.gup3p1 (lc4 e s)) i.succ j.succ = 0) :
    ∀ a b c d, W a b c d = 0 := by
  -- A: the spatial block
  have hA : ∀ i j k l : Fin 3, W i.succ j.succ k.succ l.succ = 0 := by
    refine riem3_zero_of_ricci_zero h2 (fun i j k l => W i.succ j.succ k.succ l.succ)
      ⟨fun a b c d => hW.anti12 _ _ _ _, fun a b c d => hW.anti34 _ _ _ _, fun a b c d => hW.pair _ _ _ _⟩
      J.gamup hγu hd fun j l => ?_
    rw [ricci_of_block J ha W hW.anti12 hW.anti34 ht j l]; exact hE j l
  -- B: the block with one time index
  have hn0 : nuJ J 0 = 1 / J.alpha := rfl
  have hX : ∀ i k l : Fin 3, nContract2 W (nuJ J) i.succ k.succ l.succ = 0 := by
    intro i
    refine dual3_inj h2 e s hs J.gamup hγu hd _ (fun k l => ?_) fun j => ?_
    · unfold nContract2
      rw [← Finset.sum_neg_distrib]
      exact Finset.sum_congr rfl fun b _ => by rw [hW.anti34 i.succ b k.succ l.succ]; ring
    · have := hB i j
      rw [bweylU_spatial J ha hγu e s W i.succ j] at this
      have hc : -(1 / (2 * J.alpha)) ≠ 0 := neg_ne_zero.mpr (one_div_ne_zero (mul_ne_zero h2 ha))
      exact (mul_eq_zero.mp this).resolve_left hc
  have hB0 : ∀ i k l : Fin 3, W i.succ 0 k.succ l.succ = 0 := by
    intro i k l
    have := hX i k l
    unfold nContract2 at this
    rw [sum4_succ] at this
    simp only [hA, mul_zero, Finset.sum_const_zero, add_zero, hn0] at this
    exact (mul_eq_zero.mp this).resolve_left (one_div_ne_zero ha)
  have hB1 : ∀ i j k : Fin 3, W i.succ j.succ k.succ 0 = 0 := by
    intro i j k; rw [hW.pair]; exact hB0 k i j
  -- C: the block with two time indices
  have hC : ∀ i j : Fin 3, W i.succ 0 j.succ 0 = 0 := by
    intro i j
    have := hE i j
    unfold eweylU at this
    rw [sum4_succ] at this
    simp only [sum4_succ (fun d => nuJ J _ * nuJ J d * W i.succ _ j.succ d)] at this
    simp only [hA, hB0, hB1, mul_zero, Finset.sum_const_zero, add_zero, hn0] at this
    have hc : (1 / J.alpha) * (1 / J.alpha) ≠ 0 := mul_ne_zero (one_div_ne_zero ha) (one_div_ne_zero ha)
    exact (mul_eq_zero.mp this).resolve_left hc
  intro a b c d
  rw [Spec.Curvature.eq_populate_of_sym W (curvSym_of_weylSym h2 W hW) a b c d]
  have e1 : (fun i j k l : Fin 3 => W i.succ j.succ k.succ l.succ) = fun _ _ _ _ => 0 := by
    funext i j k l; exact hA i j k l
  have e2 : (fun i j k : Fin 3 => W i.succ j.succ k.succ 0) = fun _ _ _ => 0 := by
    funext i j k; exact hB1 i j k
  have e3 : (fun i j : Fin 3 => W i.succ 0 j.succ 0) = fun _ _ => 0 := by
    funext i j; exact hC i j
  rw [e1, e2, e3]
  exact populate_zero a b c d

theorem eweylU_sub (W1 W2 : Fin 4 → Fin 4 → Fin 4 → Fin 4 → K) (nu : Fin 4 → K) (a c : Fin 4) :
    eweylU (fun a b c d => W1 a b c d - W2 a b c d) nu a c = eweylU W1 nu a c - eweylU W2 nu a c := by
  simp only [eweylU, mul_sub, Finset.sum_sub_distrib]

theorem bweylU_sub (W1 W2 : Fin 4 → Fin 4 → Fin 4 → Fin 4 → K) (nu : Fin 4 → K)
    (eps : Fin 4 → Fin 4 → Fin 4 → Fin 4 → K) (a e' : Fin 4) :
    bweylU (fun a b c d => W1 a b c d - W2 a b c d) nu eps a e' = bweylU W1 nu eps a e' - bweylU W2 nu eps a e' := by
  simp only [bweylU, mul_sub, sub_mul, Finset.sum_sub_distrib]

/-- **uniqueness (adapted frame)**: two tensors with the Riemann symmetries, both trace-free, with the same electric
and magnetic parts (spatial components, w.r.t. the normal) are equal. -/
theorem weyl_unique_adapted (J : Jet K) (ha : J.alpha ≠ 0) (h2 : (2 : K) ≠ 0)
    (hγu : ∀ i j, J.gamup i j = J.gamup j i) (hd : det3 J.gamup ≠ 0) (e : Env K) (s : K) (hs : s ≠ 0)
    (W1 W2 : Fin 4 → Fin 4 → Fin 4 → Fin 4 → K) (h1 : RiemannSym W1) (h2' : RiemannSym W2)
    (t1 : ∀ b d, ∑ a, ∑ c, J.gup3p1 a c * W1 a b c d = 0) (t2 : ∀ b d, ∑ a, ∑ c, J.gup3p1 a c * W2 a b c d = 0)
    (hE : ∀ i j : Fin 3, eweylU W1 (nuJ J) i.succ j.succ = eweylU W2 (nuJ J) i.succ j.succ)
    (hB : ∀ i j : Fin 3, bweylU W1 (nuJ J) (epsUudd J.gup3p1 (lc4 e s)) i.succ j.succ
        = bweylU W2 (nuJ J) (epsUudd J.gup3p1 (lc4 e s)) i.succ j.succ) :
    ∀ a b c d, W1 a b c d = W2 a b c d := by
  intro a b c d
  have := weyl_zero_adapted J ha h2 hγu hd e s hs (fun a b c d => W1 a b c d - W2 a b c d)
    ⟨fun a b c d => by rw [h1.anti12 a b c d, h2'.anti12 a b c d]; ring,
     fun a b c d => by rw [h1.anti34 a b c d, h2'.anti34 a b c d]; ring,
     fun a b c d => by rw [h1.pair a b c d, h2'.pair a b c d]⟩
    (fun b d => by
      simp only [mul_sub, Finset.sum_sub_distrib, t1, t2, sub_zero])
    (fun i j => by rw [eweylU_sub, hE i j, sub_self])
    (fun i j => by rw [bweylU_sub, hB i j, sub_self]) a b c d
  exact sub_eq_zero.mp this

/-! ### the magnetic part of a trace-free tensor is symmetric -/

/-- the antisymmetric part of the 3-D dual `D_ij = X_ikl ε^{kl}{}_j` is the dual of the trace `V_l = u^{km} X_kml`:
if the trace vanishes, `D` is symmetric (`X` antisymmetric in its last two indices, `u` symmetric). -/
theorem dual3_symm (h2 : (2 : K) ≠ 0) (e : Env K) (s : K) (u : Fin 3 → Fin 3 → K) (hu : ∀ i j, u i j = u j i)
    (X : Fin 3 → Fin 3 → Fin 3 → K) (hX : ∀ i k l, X i k l = -X i l k)
    (hV : ∀ l, ∑ k, ∑ m, u k m * X k m l = 0) : ∀ i j : Fin 3,
    ∑ k, ∑ l, X i k l * epsUud3 u (lc3 e s) k l j = ∑ k, ∑ l, X j k l * epsUud3 u (lc3 e s) k l i := by
  have u10 := hu 1 0; have u20 := hu 2 0; have u21 := hu 2 1
  have x10 := fun i => hX i 1 0; have x20 := fun i => hX i 2 0; have x21 := fun i => hX i 2 1
  have z : ∀ i k, X i k k = 0 := by
    intro i k
    have := hX i k k
    have h' : 2 * X i k k = 0 := by linear_combination this
    exact (mul_eq_zero.mp h').resolve_left h2
  have V0 := hV 0; have V1 := hV 1; have V2 := hV 2
  simp only [Fin.sum_univ_three, u10, u20, u21, x10, x20, x21, z] at V0 V1 V2
  refine fin3_cases (fin3_cases ?_ ?_ ?_) (fin3_cases ?_ ?_ ?_) (fin3_cases ?_ ?_ ?_) <;>
    simp only [epsUud3, lc3, Fin.sum_univ_three, levicivita_symbol_down3, ↓vec3_0, ↓vec3_1, ↓vec3_2,
       u10, u20, u21, x10, x20, x21, z]
  · linear_combination (-2 * s) * (u 0 2 * V0 + u 1 2 * V1 + u 2 2 * V2)
  · linear_combination (2 * s) * (u 0 1 * V0 + u 1 1 * V1 + u 1 2 * V2)
  · linear_combination (2 * s) * (u 0 2 * V0 + u 1 2 * V1 + u 2 2 * V2)
  · linear_combination (-2 * s) * (u 0 0 * V0 + u 0 1 * V1 + u 0 2 * V2)
  · linear_combination (-2 * s) * (u 0 1 * V0 + u 1 1 * V1 + u 1 2 * V2)
  · linear_combination (2 * s) * (u 0 0 * V0 + u 0 1 * V1 + u 0 2 * V2)

/-- `γ^{km} W_{k n m l} = 0` for a trace-free tensor antisymmetric in its first pair. -/
theorem nContract2_trace (J : Jet K) (ha : J.alpha ≠ 0) (h2 : (2 : K) ≠ 0) (W : Fin 4 → Fin 4 → Fin 4 → Fin 4 → K)
    (h12 : ∀ a b c d, W a b c d = -W b a c d)
    (ht : ∀ b d, ∑ a, ∑ c, J.gup3p1 a c * W a b c d = 0) (l : Fin 4) :
    ∑ k : Fin 3, ∑ m : Fin 3, J.gamup k m * nContract2 W (nuJ J) k.succ m.succ l = 0 := by
  have s := gup3p1_split J ha (fun a c => nContract2 W (nuJ J) a c l)
  have t1 : ∑ a, ∑ c, J.gup3p1 a c * nContract2 W (nuJ J) a c l = 0 := by
    have : ∑ a, ∑ c, J.gup3p1 a c * nContract2 W (nuJ J) a c l
        = ∑ b, nuJ J b * ∑ a, ∑ c, J.gup3p1 a c * W a b c l := by
      simp only [nContract2, Fin.sum_univ_four]; ring
    rw [this]; simp only [ht, mul_zero, Finset.sum_const_zero]
  have t2 : ∑ a, ∑ c, nuJ J a * nuJ J c * nContract2 W (nuJ J) a c l = 0 := by
    have : ∑ a, ∑ c, nuJ J a * nuJ J c * nContract2 W (nuJ J) a c l
        = ∑ c, nuJ J c * ∑ a, ∑ b, nuJ J a * nuJ J b * W a b c l := by
      simp only [nContract2, Fin.sum_univ_four]; ring
    rw [this]
    simp only [nn_antisym h2 (nuJ J) _ (fun a b => h12 a b _ _), mul_zero, Finset.sum_const_zero]
  linear_combination t1 - s + t2

/-- **the magnetic part (spatial components) of a trace-free tensor with the Riemann symmetries is symmetric.** -/
theorem bweylU_spatial_symm (J : Jet K) (ha : J.alpha ≠ 0) (h2 : (2 : K) ≠ 0)
    (hγu : ∀ i j, J.gamup i j = J.gamup j i) (e : Env K) (s : K)
    (W : Fin 4 → Fin 4 → Fin 4 → Fin 4 → K) (hW : RiemannSym W)
    (ht : ∀ b d, ∑ a, ∑ c, J.gup3p1 a c * W a b c d = 0) (i j : Fin 3) :
    bweylU W (nuJ J) (epsUudd J.gup3p1 (lc4 e s)) i.succ j.succ
      = bweylU W (nuJ J) (epsUudd J.gup3p1 (lc4 e s)) j.succ i.succ := by
  rw [bweylU_spatial J ha hγu e s W i.succ j, bweylU_spatial J ha hγu e s W j.succ i]
  congr 1
  refine dual3_symm h2 e s J.gamup hγu (fun i k l => nContract2 W (nuJ J) i.succ k.succ l.succ) (fun i k l => ?_)
    (fun l => nContract2_trace J ha h2 W hW.anti12 ht l.succ) i j
  unfold nContract2
  rw [← Finset.sum_neg_distrib]
  exact Finset.sum_congr rfl fun b _ => by rw [hW.anti34 i.succ b k.succ l.succ]; ring

end AurelVerif.C10
