/-
Lemmas/CacheGet.lean — proofs about Model/CacheGet.lean: the transparency
invariant ("every cached entry equals its denotation") and recursion freedom
from the rank condition.  Core Lean only.
-/
import AurelVerif.Lemmas.Cache
import AurelVerif.Model.CacheGet

set_option linter.unusedSectionVars false

namespace AurelVerif.CacheGet
open AurelVerif.Cache AurelVerif.Cache.Dict

variable {κ ν σ : Type} [DecidableEq κ]

/-! ### definitions of the hypotheses -/

/-- `d'` is obtained from `d` by removing entries whose key is not frozen;
nothing is added or changed. -/
def EvictRel (F : κ → Prop) (d d' : Dict κ ν) : Prop :=
  ∀ k, get? d' k = get? d k ∨ (get? d' k = none ∧ ¬ F k)

/-- The policy only ever evicts, and never a frozen key. -/
structure PolicyOK (F : κ → Prop) (pol : Policy σ κ ν) : Prop where
  store : ∀ s d k, EvictRel F d (pol.onStore s d k).2
  sweep : ∀ s d, EvictRel F d (pol.onSweep s d).2

/-- The transparency invariant: every cached entry is its denotation, and the
frozen inputs are all cached. -/
structure Good (den : κ → ν) (F : κ → Prop) (d : Dict κ ν) : Prop where
  val : ∀ k v, get? d k = some v → v = den k
  inp : ∀ k, F k → get? d k = some (den k)

/-- A test outcome is feasible if some cache content containing all frozen
inputs produces it. -/
def Feasible (T : Table κ ν) (F : κ → Prop) (g : Guard κ) (b : Bool) : Prop :=
  ∃ P : κ → Bool, (∀ k, F k → P k = true) ∧ g.eval P T.flag = b

def repVals (den : κ → ν) (n : Nat) (ks : List κ) : List ν := (List.replicate n (ks.map den)).flatten

/-- Branch coherence (H2) of one body: whatever feasible path is taken, if
the values read are the denotations of the keys read, the value returned is
`target`. -/
def Coh (T : Table κ ν) (den : κ → ν) (F : κ → Prop) (target : ν) (k0 : κ) : Shape κ → List ν → Prop
  | .ret i, vs => T.leaf k0 i vs = target
  | .read k n, vs => Coh T den F target k0 n (vs ++ [den k])
  | .peek k n, vs => Coh T den F target k0 n (vs ++ [den k])
  | .rep cnt ks n, vs => Coh T den F target k0 n (vs ++ repVals den (T.countOf cnt) ks)
  | .test g t e, vs => (Feasible T F g true → Coh T den F target k0 t vs)
      ∧ (Feasible T F g false → Coh T den F target k0 e vs)
  | .fail, _ => True

/-! ### invariant preservation -/

theorem Good.evict {den : κ → ν} {F : κ → Prop} {d d' : Dict κ ν} (hg : Good den F d) (he : EvictRel F d d') :
    Good den F d' := by
  refine ⟨?_, ?_⟩
  · intro k v hv
    rcases he k with h | h
    · rw [h] at hv; exact hg.val k v hv
    · rw [h.1] at hv; cases hv
  · intro k hk
    rcases he k with h | h
    · rw [h]; exact hg.inp k hk
    · exact absurd hk h.2

theorem Good.set {den : κ → ν} {F : κ → Prop} {d : Dict κ ν} (hg : Good den F d) (k : κ) :
    Good den F (set d k (den k)) := by
  refine ⟨?_, ?_⟩
  · intro k' v hv
    rw [get?_set] at hv
    by_cases e : k = k'
    · subst e; simp at hv; exact hv.symm
    · simp [e] at hv; exact hg.val k' v hv
  · intro k' hk'
    rw [get?_set]
    by_cases e : k = k'
    · subst e; simp
    · simp [e]; exact hg.inp k' hk'

/-- what it means for a `__getitem__` implementation to be sound -/
def GetSound (den : κ → ν) (F : κ → Prop) (getRec : Cfg σ κ ν → κ → Except GErr (Cfg σ κ ν × ν)) : Prop :=
  ∀ c k c' v, Good den F c.2 → getRec c k = .ok (c', v) → Good den F c'.2 ∧ v = den k

theorem readList_sound {den : κ → ν} {F : κ → Prop} {getRec : Cfg σ κ ν → κ → Except GErr (Cfg σ κ ν × ν)}
    (hrec : GetSound den F getRec) :
    ∀ (ks : List κ) (c : Cfg σ κ ν) (vs : List ν) c' vs', Good den F c.2 →
      readList getRec c ks vs = .ok (c', vs') → Good den F c'.2 ∧ vs' = vs ++ ks.map den := by
  intro ks
  induction ks with
  | nil => intro c vs c' vs' hg h; simp [readList] at h; obtain ⟨rfl, rfl⟩ := h; exact ⟨hg, by simp⟩
  | cons k ks ih =>
    intro c vs c' vs' hg h
    unfold readList at h
    cases h1 : getRec c k with
    | error e => simp [h1] at h
    | ok r =>
      obtain ⟨c1, v⟩ := r
      simp only [h1] at h
      obtain ⟨hg1, hv⟩ := hrec c k c1 v hg h1
      obtain ⟨hg2, hvs⟩ := ih c1 _ c' vs' hg1 h
      exact ⟨hg2, by rw [hvs, hv]; simp⟩

theorem repReads_sound {den : κ → ν} {F : κ → Prop} {getRec : Cfg σ κ ν → κ → Except GErr (Cfg σ κ ν × ν)}
    (hrec : GetSound den F getRec) (ks : List κ) :
    ∀ (n : Nat) (c : Cfg σ κ ν) (vs : List ν) c' vs', Good den F c.2 →
      repReads getRec n c ks vs = .ok (c', vs') → Good den F c'.2 ∧ vs' = vs ++ repVals den n ks := by
  intro n
  induction n with
  | zero => intro c vs c' vs' hg h; simp [repReads] at h; obtain ⟨rfl, rfl⟩ := h; exact ⟨hg, by simp [repVals]⟩
  | succ n ih =>
    intro c vs c' vs' hg h
    unfold repReads at h
    cases h1 : readList getRec c ks vs with
    | error e => simp [h1] at h
    | ok r =>
      obtain ⟨c1, vs1⟩ := r
      simp only [h1] at h
      obtain ⟨hg1, hv⟩ := readList_sound hrec ks c vs c1 vs1 hg h1
      obtain ⟨hg2, hvs⟩ := ih c1 _ c' vs' hg1 h
      exact ⟨hg2, by rw [hvs, hv]; simp [repVals, List.replicate_succ]⟩

theorem runShape_sound {T : Table κ ν} {den : κ → ν} {F : κ → Prop} {target : ν} {k0 : κ}
    {getRec : Cfg σ κ ν → κ → Except GErr (Cfg σ κ ν × ν)} (hrec : GetSound den F getRec) :
    ∀ (sh : Shape κ) (c : Cfg σ κ ν) (vs : List ν) c' r, Good den F c.2 → Coh T den F target k0 sh vs →
      runShape T k0 getRec c sh vs = .ok (c', r) → Good den F c'.2 ∧ r = target := by
  intro sh
  induction sh with
  | ret i =>
    intro c vs c' r hg hc h
    simp [runShape] at h; obtain ⟨rfl, rfl⟩ := h
    exact ⟨hg, hc⟩
  | read k n ih =>
    intro c vs c' r hg hc h
    unfold runShape at h
    cases h1 : getRec c k with
    | error e => simp [h1] at h
    | ok p =>
      obtain ⟨c1, v⟩ := p
      simp only [h1] at h
      obtain ⟨hg1, hv⟩ := hrec c k c1 v hg h1
      subst hv
      exact ih c1 _ c' r hg1 hc h
  | peek k n ih =>
    intro c vs c' r hg hc h
    unfold runShape at h
    cases h1 : get? c.2 k with
    | none => simp [h1] at h
    | some v =>
      simp only [h1] at h
      have := hg.val k v h1; subst this
      exact ih c _ c' r hg hc h
  | rep cnt ks n ih =>
    intro c vs c' r hg hc h
    unfold runShape at h
    cases h1 : repReads getRec (T.countOf cnt) c ks vs with
    | error e => simp [h1] at h
    | ok p =>
      obtain ⟨c1, vs1⟩ := p
      simp only [h1] at h
      obtain ⟨hg1, hv⟩ := repReads_sound hrec ks _ c vs c1 vs1 hg h1
      subst hv
      exact ih c1 _ c' r hg1 hc h
  | test g t e iht ihe =>
    intro c vs c' r hg hc h
    unfold runShape at h
    have hP : ∀ k, F k → (fun k => contains c.2 k) k = true := fun k hk => by
      simp [contains, hg.inp k hk]
    by_cases hb : g.eval (fun k => contains c.2 k) T.flag = true
    · simp only [hb, ↓reduceIte] at h
      exact iht c vs c' r hg (hc.1 ⟨_, hP, hb⟩) h
    · simp only [hb] at h
      have hb' : g.eval (fun k => contains c.2 k) T.flag = false := by
        cases hx : g.eval (fun k => contains c.2 k) T.flag <;> simp_all
      exact ihe c vs c' r hg (hc.2 ⟨_, hP, hb'⟩) h
  | fail => intro c vs c' r _ _ h; simp [runShape] at h

/-- (H2) for a whole table: every body of a non-input key is coherent with
the denotation `den`. -/
def TableCoh (T : Table κ ν) (den : κ → ν) (F : κ → Prop) : Prop :=
  ∀ k sh, ¬ F k → T.shape k = some sh → Coh T den F (den k) k sh []

theorem getF_sound {T : Table κ ν} {den : κ → ν} {F : κ → Prop} {pol : Policy σ κ ν}
    (hT : TableCoh T den F) (hp : PolicyOK F pol) : ∀ fuel, GetSound den F (getF T pol fuel) := by
  intro fuel
  induction fuel with
  | zero =>
    intro c k c' v hg h
    unfold getF at h
    cases h1 : get? c.2 k with
    | some w => simp only [h1, Except.ok.injEq, Prod.mk.injEq] at h; obtain ⟨rfl, rfl⟩ := h; exact ⟨hg, hg.val k _ h1⟩
    | none =>
      simp only [h1] at h
      cases h2 : T.shape k with
      | none => simp [h2] at h
      | some sh => simp [h2] at h
  | succ f ih =>
    intro c k c' v hg h
    unfold getF at h
    cases h1 : get? c.2 k with
    | some w => simp only [h1, Except.ok.injEq, Prod.mk.injEq] at h; obtain ⟨rfl, rfl⟩ := h; exact ⟨hg, hg.val k _ h1⟩
    | none =>
      simp only [h1] at h
      cases h2 : T.shape k with
      | none => simp [h2] at h
      | some sh =>
        simp only [h2] at h
        have hnF : ¬ F k := fun hk => by rw [hg.inp k hk] at h1; cases h1
        cases h3 : runShape T k (getF T pol f) c sh [] with
        | error e => simp [h3] at h
        | ok p =>
          obtain ⟨c1, v1⟩ := p
          simp only [h3] at h
          obtain ⟨hg1, hv1⟩ := runShape_sound ih sh c [] c1 v1 hg (hT k sh hnF h2) h3
          subst hv1
          have hg2 : Good den F (pol.onStore c1.1 (set c1.2 k (den k)) k).2 :=
            (hg1.set k).evict (hp.store _ _ _)
          cases h4 : get? (pol.onStore c1.1 (set c1.2 k (den k)) k).2 k with
          | none => simp [h4] at h
          | some w =>
            simp only [h4, Except.ok.injEq, Prod.mk.injEq] at h
            obtain ⟨rfl, rfl⟩ := h
            exact ⟨hg2, hg2.val k _ h4⟩

theorem runHist_sound {T : Table κ ν} {den : κ → ν} {F : κ → Prop} {pol : Policy σ κ ν}
    (hT : TableCoh T den F) (hp : PolicyOK F pol) (fuel : Nat) :
    ∀ (h : List (HOp κ)) (c : Cfg σ κ ν) c' vs, Good den F c.2 → runHist T pol fuel c h = .ok (c', vs) →
      Good den F c'.2 ∧ vs = h.filterMap (fun o => match o with | .req k => some (den k) | .sweep => none) := by
  intro h
  induction h with
  | nil => intro c c' vs hg hr; simp [runHist] at hr; obtain ⟨rfl, rfl⟩ := hr; exact ⟨hg, rfl⟩
  | cons o h ih =>
    intro c c' vs hg hr
    cases o with
    | req k =>
      unfold runHist at hr
      cases h1 : getF T pol fuel c k with
      | error e => simp [h1] at hr
      | ok p =>
        obtain ⟨c1, v⟩ := p
        simp only [h1] at hr
        obtain ⟨hg1, hv⟩ := getF_sound hT hp fuel c k c1 v hg h1
        cases h2 : runHist T pol fuel c1 h with
        | error e => simp [h2] at hr
        | ok q =>
          obtain ⟨c2, vs2⟩ := q
          simp only [h2, Except.ok.injEq, Prod.mk.injEq] at hr
          obtain ⟨rfl, rfl⟩ := hr
          obtain ⟨hg2, hvs⟩ := ih c1 c2 vs2 hg1 h2
          exact ⟨hg2, by simp [hvs, hv]⟩
    | sweep =>
      unfold runHist at hr
      have := ih (pol.onSweep c.1 c.2) c' vs (hg.evict (hp.sweep _ _)) hr
      exact ⟨this.1, by simpa using this.2⟩

/-- the frozen inputs themselves satisfy the invariant -/
theorem good_inputs {den : κ → ν} (inp : Dict κ ν) (hin : ∀ k v, get? inp k = some v → den k = v) :
    Good den (fun k => (get? inp k).isSome = true) inp := by
  refine ⟨fun k v hv => (hin k v hv).symm, ?_⟩
  intro k hk
  cases h : get? inp k with
  | none => simp [h] at hk
  | some v => rw [hin k v h]

/-! ### recursion freedom from the rank condition (H1) -/

theorem implied_sound (P : κ → Bool) (Fl : String → Bool) :
    ∀ (g : Guard κ) (b : Bool), g.eval P Fl = b → ∀ k ∈ g.implied b, P k = true := by
  intro g
  induction g with
  | pres k => intro b h k' hk'; cases b <;> simp [Guard.implied] at hk'; subst hk'; exact h
  | flag f => intro b _ k' hk'; simp [Guard.implied] at hk'
  | not g ih =>
    intro b h k' hk'
    simp only [Guard.implied] at hk'
    exact ih (!b) (by simp only [Guard.eval] at h; cases b <;> simp_all) k' hk'
  | and g h ihg ihh =>
    intro b hb k' hk'
    cases b with
    | false => simp [Guard.implied] at hk'
    | true =>
      simp only [Guard.eval, Bool.and_eq_true] at hb
      simp only [Guard.implied, List.mem_append] at hk'
      rcases hk' with hk' | hk'
      · exact ihg true hb.1 k' hk'
      · exact ihh true hb.2 k' hk'
  | or g h ihg ihh =>
    intro b hb k' hk'
    cases b with
    | true => simp [Guard.implied] at hk'
    | false =>
      simp only [Guard.eval, Bool.or_eq_false_iff] at hb
      simp only [Guard.implied, List.mem_append] at hk'
      rcases hk' with hk' | hk'
      · exact ihg false hb.1 k' hk'
      · exact ihh false hb.2 k' hk'

/-- properties of a `__getitem__` implementation used for recursion freedom -/
structure GetNoRec (rank : κ → Nat) (r : Nat) (getRec : Cfg σ κ ν → κ → Except GErr (Cfg σ κ ν × ν)) : Prop where
  /-- a successful request leaves the key cached -/
  present : ∀ c k c' v, getRec c k = .ok (c', v) → contains c'.2 k = true
  /-- a request of a cached key does not touch the cache (and succeeds) -/
  hit : ∀ c k, contains c.2 k = true → ∃ s v, getRec c k = .ok ((s, c.2), v)
  /-- keys of smaller rank do not overflow the stack -/
  small : ∀ c k, rank k < r → getRec c k ≠ .error .recursion

theorem readList_hits {rank : κ → Nat} {r : Nat} {getRec : Cfg σ κ ν → κ → Except GErr (Cfg σ κ ν × ν)}
    (hrec : GetNoRec rank r getRec) :
    ∀ (ks : List κ) (c : Cfg σ κ ν) (vs : List ν), (∀ k ∈ ks, contains c.2 k = true) →
      ∃ s vs', readList getRec c ks vs = .ok ((s, c.2), vs') := by
  intro ks
  induction ks with
  | nil => intro c vs _; exact ⟨c.1, vs, rfl⟩
  | cons k ks ih =>
    intro c vs hk
    obtain ⟨s, v, hv⟩ := hrec.hit c k (hk k (by simp))
    obtain ⟨s', vs', h⟩ := ih (s, c.2) (vs ++ [v]) (fun k' hk' => hk k' (List.mem_cons_of_mem _ hk'))
    exact ⟨s', vs', by unfold readList; simp only [hv]; exact h⟩

theorem readList_small {rank : κ → Nat} {r : Nat} {getRec : Cfg σ κ ν → κ → Except GErr (Cfg σ κ ν × ν)}
    (hrec : GetNoRec rank r getRec) :
    ∀ (ks : List κ) (c : Cfg σ κ ν) (vs : List ν), (∀ k ∈ ks, rank k < r) →
      readList getRec c ks vs ≠ .error .recursion := by
  intro ks
  induction ks with
  | nil => intro c vs _; simp [readList]
  | cons k ks ih =>
    intro c vs hk
    unfold readList
    cases h1 : getRec c k with
    | error e => simp only; intro h; cases h; exact hrec.small c k (hk k (by simp)) h1
    | ok p =>
      obtain ⟨c1, v⟩ := p
      simp only
      exact ih c1 _ (fun k' hk' => hk k' (List.mem_cons_of_mem _ hk'))

theorem repReads_hits {rank : κ → Nat} {r : Nat} {getRec : Cfg σ κ ν → κ → Except GErr (Cfg σ κ ν × ν)}
    (hrec : GetNoRec rank r getRec) (ks : List κ) :
    ∀ (n : Nat) (c : Cfg σ κ ν) (vs : List ν), (∀ k ∈ ks, contains c.2 k = true) →
      ∃ s vs', repReads getRec n c ks vs = .ok ((s, c.2), vs') := by
  intro n
  induction n with
  | zero => intro c vs _; exact ⟨c.1, vs, rfl⟩
  | succ n ih =>
    intro c vs hk
    obtain ⟨s, vs1, h1⟩ := readList_hits hrec ks c vs hk
    obtain ⟨s', vs', h⟩ := ih (s, c.2) vs1 hk
    exact ⟨s', vs', by unfold repReads; simp only [h1]; exact h⟩

theorem repReads_small {rank : κ → Nat} {r : Nat} {getRec : Cfg σ κ ν → κ → Except GErr (Cfg σ κ ν × ν)}
    (hrec : GetNoRec rank r getRec) (ks : List κ) (hk : ∀ k ∈ ks, rank k < r) :
    ∀ (n : Nat) (c : Cfg σ κ ν) (vs : List ν), repReads getRec n c ks vs ≠ .error .recursion := by
  intro n
  induction n with
  | zero => intro c vs; simp [repReads]
  | succ n ih =>
    intro c vs
    unfold repReads
    cases h1 : readList getRec c ks vs with
    | error e => simp only; intro h; cases h; exact readList_small hrec ks c vs hk h1
    | ok p => obtain ⟨c1, vs1⟩ := p; simp only; exact ih c1 vs1

theorem runShape_norec {T : Table κ ν} {k0 : κ} {rank : κ → Nat} {r : Nat}
    {getRec : Cfg σ κ ν → κ → Except GErr (Cfg σ κ ν × ν)} (hrec : GetNoRec rank r getRec) :
    ∀ (sh : Shape κ) (G : List κ) (c : Cfg σ κ ν) (vs : List ν), (∀ g ∈ G, contains c.2 g = true) →
      shapeOK rank r G sh = true → runShape T k0 getRec c sh vs ≠ .error .recursion := by
  intro sh
  induction sh with
  | ret i => intro G c vs _ _; simp [runShape]
  | fail => intro G c vs _ _; simp [runShape]
  | read k n ih =>
    intro G c vs hG hok
    unfold shapeOK at hok
    unfold runShape
    by_cases hg : G.contains k = true
    · simp only [hg, ↓reduceIte] at hok
      obtain ⟨s, v, hv⟩ := hrec.hit c k (hG k (by simpa using hg))
      simp only [hv]
      exact ih G (s, c.2) _ hG hok
    · simp only [hg, Bool.false_eq_true, ↓reduceIte, Bool.and_eq_true, decide_eq_true_eq] at hok
      cases h1 : getRec c k with
      | error e => simp only; intro h; cases h; exact hrec.small c k hok.1 h1
      | ok p =>
        obtain ⟨c1, v⟩ := p
        simp only
        refine ih [k] c1 _ ?_ hok.2
        intro g hg'
        simp at hg'; subst hg'
        exact hrec.present c g c1 v h1
  | peek k n ih =>
    intro G c vs hG hok
    unfold shapeOK at hok
    simp only [Bool.and_eq_true] at hok
    unfold runShape
    cases h1 : get? c.2 k with
    | none => simp
    | some v => simp only; exact ih G c _ hG hok.2
  | rep cnt ks n ih =>
    intro G c vs hG hok
    unfold shapeOK at hok
    unfold runShape
    by_cases hall : ks.all G.contains = true
    · simp only [hall, ↓reduceIte] at hok
      have hk : ∀ k ∈ ks, contains c.2 k = true := fun k hk =>
        hG k (by have := List.all_eq_true.mp hall k hk; simpa using this)
      obtain ⟨s, vs', h1⟩ := repReads_hits hrec ks (T.countOf cnt) c vs hk
      simp only [h1]
      exact ih G (s, c.2) vs' hG hok
    · simp only [hall, Bool.false_eq_true, ↓reduceIte, Bool.and_eq_true] at hok
      have hk : ∀ k ∈ ks, rank k < r := fun k hk => by
        have := List.all_eq_true.mp hok.1 k hk; simpa using this
      cases h1 : repReads getRec (T.countOf cnt) c ks vs with
      | error e => simp only; intro h; cases h; exact repReads_small hrec ks hk _ c vs h1
      | ok p =>
        obtain ⟨c1, vs1⟩ := p
        simp only
        exact ih [] c1 vs1 (by simp) hok.2
  | test g t e iht ihe =>
    intro G c vs hG hok
    unfold shapeOK at hok
    simp only [Bool.and_eq_true] at hok
    unfold runShape
    by_cases hb : g.eval (fun k => contains c.2 k) T.flag = true
    · simp only [hb, ↓reduceIte]
      refine iht _ c vs ?_ hok.1
      intro k hk
      rcases List.mem_append.mp hk with h | h
      · exact hG k h
      · exact implied_sound _ _ g true hb k h
    · have hb' : g.eval (fun k => contains c.2 k) T.flag = false := by
        cases hx : g.eval (fun k => contains c.2 k) T.flag <;> simp_all
      simp only [hb', Bool.false_eq_true, ↓reduceIte]
      refine ihe _ c vs ?_ hok.2
      intro k hk
      rcases List.mem_append.mp hk with h | h
      · exact hG k h
      · exact implied_sound _ _ g false hb' k h

/-- (H1) for a whole table -/
def TableOK (T : Table κ ν) (rank : κ → Nat) : Prop :=
  ∀ k sh, T.shape k = some sh → shapeOK rank (rank k) [] sh = true

theorem getF_present (T : Table κ ν) (pol : Policy σ κ ν) (fuel : Nat) (c : Cfg σ κ ν) (k : κ) c' v
    (h : getF T pol fuel c k = .ok (c', v)) : contains c'.2 k = true := by
  unfold getF at h
  cases h1 : get? c.2 k with
  | some w =>
    simp only [h1, Except.ok.injEq, Prod.mk.injEq] at h
    obtain ⟨rfl, _⟩ := h
    simp [contains, h1]
  | none =>
    simp only [h1] at h
    cases h2 : T.shape k with
    | none => simp [h2] at h
    | some sh =>
      simp only [h2] at h
      cases fuel with
      | zero => simp at h
      | succ f =>
        simp only at h
        cases h3 : runShape T k (getF T pol f) c sh [] with
        | error e => simp [h3] at h
        | ok p =>
          obtain ⟨c1, v1⟩ := p
          simp only [h3] at h
          cases h4 : get? (pol.onStore c1.1 (set c1.2 k v1) k).2 k with
          | none => simp [h4] at h
          | some w =>
            simp only [h4, Except.ok.injEq, Prod.mk.injEq] at h
            obtain ⟨rfl, _⟩ := h
            simp [contains, h4]

theorem getF_hit (T : Table κ ν) (pol : Policy σ κ ν) (fuel : Nat) (c : Cfg σ κ ν) (k : κ)
    (h : contains c.2 k = true) : ∃ s v, getF T pol fuel c k = .ok ((s, c.2), v) := by
  cases h1 : get? c.2 k with
  | none => simp [contains, h1] at h
  | some w => exact ⟨pol.onHit c.1 k, w, by unfold getF; simp only [h1]⟩

theorem getF_norec {T : Table κ ν} {rank : κ → Nat} (hT : TableOK T rank) (pol : Policy σ κ ν) :
    ∀ fuel (c : Cfg σ κ ν) (k : κ), rank k < fuel → getF T pol fuel c k ≠ .error .recursion := by
  intro fuel
  induction fuel with
  | zero => intro c k h; omega
  | succ f ih =>
    intro c k hk
    unfold getF
    cases h1 : get? c.2 k with
    | some w => simp
    | none =>
      simp only
      cases h2 : T.shape k with
      | none => simp
      | some sh =>
        simp only
        have hrec : GetNoRec rank (rank k) (getF T pol f) :=
          ⟨getF_present T pol f, getF_hit T pol f, fun c' k' hk' => ih c' k' (by omega)⟩
        cases h3 : runShape T k (getF T pol f) c sh [] with
        | error e =>
          simp only; intro h; cases h
          exact runShape_norec hrec sh [] c [] (by simp) (hT k sh h2) h3
        | ok p =>
          obtain ⟨c1, v1⟩ := p
          simp only
          split <;> simp

/-! ### no KeyError: every `peek` is guarded and the policy keeps the entry it has just stored -/

/-- the policy never evicts the entry it was called for (Props/C03.store_no_error
proves this of the real clean-up: the new entry has age 0) -/
def KeepsNew (pol : Policy σ κ ν) : Prop := ∀ s d k, get? (pol.onStore s d k).2 k = get? d k

structure GetNoKey (getRec : Cfg σ κ ν → κ → Except GErr (Cfg σ κ ν × ν)) : Prop where
  present : ∀ c k c' v, getRec c k = .ok (c', v) → contains c'.2 k = true
  hit : ∀ c k, contains c.2 k = true → ∃ s v, getRec c k = .ok ((s, c.2), v)
  nokey : ∀ c k, getRec c k ≠ .error .keyError

theorem readList_nokey {getRec : Cfg σ κ ν → κ → Except GErr (Cfg σ κ ν × ν)} (hrec : GetNoKey getRec) :
    ∀ (ks : List κ) (c : Cfg σ κ ν) (vs : List ν), readList getRec c ks vs ≠ .error .keyError := by
  intro ks
  induction ks with
  | nil => intro c vs; simp [readList]
  | cons k ks ih =>
    intro c vs
    unfold readList
    cases h1 : getRec c k with
    | error e => simp only; intro h; cases h; exact hrec.nokey c k h1
    | ok p => obtain ⟨c1, v⟩ := p; simp only; exact ih c1 _

theorem readList_hits' {getRec : Cfg σ κ ν → κ → Except GErr (Cfg σ κ ν × ν)} (hrec : GetNoKey getRec) :
    ∀ (ks : List κ) (c : Cfg σ κ ν) (vs : List ν), (∀ k ∈ ks, contains c.2 k = true) →
      ∃ s vs', readList getRec c ks vs = .ok ((s, c.2), vs') := by
  intro ks
  induction ks with
  | nil => intro c vs _; exact ⟨c.1, vs, rfl⟩
  | cons k ks ih =>
    intro c vs hk
    obtain ⟨s, v, hv⟩ := hrec.hit c k (hk k (by simp))
    obtain ⟨s', vs', h⟩ := ih (s, c.2) (vs ++ [v]) (fun k' hk' => hk k' (List.mem_cons_of_mem _ hk'))
    exact ⟨s', vs', by unfold readList; simp only [hv]; exact h⟩

theorem repReads_nokey {getRec : Cfg σ κ ν → κ → Except GErr (Cfg σ κ ν × ν)} (hrec : GetNoKey getRec)
    (ks : List κ) : ∀ (n : Nat) (c : Cfg σ κ ν) (vs : List ν), repReads getRec n c ks vs ≠ .error .keyError := by
  intro n
  induction n with
  | zero => intro c vs; simp [repReads]
  | succ n ih =>
    intro c vs
    unfold repReads
    cases h1 : readList getRec c ks vs with
    | error e => simp only; intro h; cases h; exact readList_nokey hrec ks c vs h1
    | ok p => obtain ⟨c1, vs1⟩ := p; simp only; exact ih c1 vs1

theorem repReads_hits' {getRec : Cfg σ κ ν → κ → Except GErr (Cfg σ κ ν × ν)} (hrec : GetNoKey getRec)
    (ks : List κ) : ∀ (n : Nat) (c : Cfg σ κ ν) (vs : List ν), (∀ k ∈ ks, contains c.2 k = true) →
      ∃ s vs', repReads getRec n c ks vs = .ok ((s, c.2), vs') := by
  intro n
  induction n with
  | zero => intro c vs _; exact ⟨c.1, vs, rfl⟩
  | succ n ih =>
    intro c vs hk
    obtain ⟨s, vs1, h1⟩ := readList_hits' hrec ks c vs hk
    obtain ⟨s', vs', h⟩ := ih (s, c.2) vs1 hk
    exact ⟨s', vs', by unfold repReads; simp only [h1]; exact h⟩

theorem runShape_nokey {T : Table κ ν} {k0 : κ} {rank : κ → Nat} {r : Nat}
    {getRec : Cfg σ κ ν → κ → Except GErr (Cfg σ κ ν × ν)} (hrec : GetNoKey getRec) :
    ∀ (sh : Shape κ) (G : List κ) (c : Cfg σ κ ν) (vs : List ν), (∀ g ∈ G, contains c.2 g = true) →
      shapeOK rank r G sh = true → runShape T k0 getRec c sh vs ≠ .error .keyError := by
  intro sh
  induction sh with
  | ret i => intro G c vs _ _; simp [runShape]
  | fail => intro G c vs _ _; simp [runShape]
  | read k n ih =>
    intro G c vs hG hok
    unfold shapeOK at hok
    unfold runShape
    by_cases hg : G.contains k = true
    · simp only [hg, ↓reduceIte] at hok
      obtain ⟨s, v, hv⟩ := hrec.hit c k (hG k (by simpa using hg))
      simp only [hv]
      exact ih G (s, c.2) _ hG hok
    · simp only [hg, Bool.false_eq_true, ↓reduceIte, Bool.and_eq_true, decide_eq_true_eq] at hok
      cases h1 : getRec c k with
      | error e => simp only; intro h; cases h; exact hrec.nokey c k h1
      | ok p =>
        obtain ⟨c1, v⟩ := p
        simp only
        refine ih [k] c1 _ ?_ hok.2
        intro g hg'
        simp at hg'; subst hg'
        exact hrec.present c g c1 v h1
  | peek k n ih =>
    intro G c vs hG hok
    unfold shapeOK at hok
    simp only [Bool.and_eq_true] at hok
    unfold runShape
    have hp : contains c.2 k = true := hG k (by simpa using hok.1)
    cases h1 : get? c.2 k with
    | none => simp [contains, h1] at hp
    | some v => simp only; exact ih G c _ hG hok.2
  | rep cnt ks n ih =>
    intro G c vs hG hok
    unfold shapeOK at hok
    unfold runShape
    by_cases hall : ks.all G.contains = true
    · simp only [hall, ↓reduceIte] at hok
      have hk : ∀ k ∈ ks, contains c.2 k = true := fun k hk =>
        hG k (by have := List.all_eq_true.mp hall k hk; simpa using this)
      obtain ⟨s, vs', h1⟩ := repReads_hits' hrec ks (T.countOf cnt) c vs hk
      simp only [h1]
      exact ih G (s, c.2) vs' hG hok
    · simp only [hall, Bool.false_eq_true, ↓reduceIte, Bool.and_eq_true] at hok
      cases h1 : repReads getRec (T.countOf cnt) c ks vs with
      | error e => simp only; intro h; cases h; exact repReads_nokey hrec ks _ c vs h1
      | ok p =>
        obtain ⟨c1, vs1⟩ := p
        simp only
        exact ih [] c1 vs1 (by simp) hok.2
  | test g t e iht ihe =>
    intro G c vs hG hok
    unfold shapeOK at hok
    simp only [Bool.and_eq_true] at hok
    unfold runShape
    by_cases hb : g.eval (fun k => contains c.2 k) T.flag = true
    · simp only [hb, ↓reduceIte]
      refine iht _ c vs ?_ hok.1
      intro k hk
      rcases List.mem_append.mp hk with h | h
      · exact hG k h
      · exact implied_sound _ _ g true hb k h
    · have hb' : g.eval (fun k => contains c.2 k) T.flag = false := by
        cases hx : g.eval (fun k => contains c.2 k) T.flag <;> simp_all
      simp only [hb', Bool.false_eq_true, ↓reduceIte]
      refine ihe _ c vs ?_ hok.2
      intro k hk
      rcases List.mem_append.mp hk with h | h
      · exact hG k h
      · exact implied_sound _ _ g false hb' k h

theorem getF_nokey {T : Table κ ν} {rank : κ → Nat} (hT : TableOK T rank) {pol : Policy σ κ ν}
    (hk : KeepsNew pol) : ∀ fuel (c : Cfg σ κ ν) (k : κ), getF T pol fuel c k ≠ .error .keyError := by
  intro fuel
  induction fuel with
  | zero =>
    intro c k
    unfold getF
    cases h1 : get? c.2 k with
    | some w => simp
    | none => simp only; cases h2 : T.shape k <;> simp
  | succ f ih =>
    intro c k
    unfold getF
    cases h1 : get? c.2 k with
    | some w => simp
    | none =>
      simp only
      cases h2 : T.shape k with
      | none => simp
      | some sh =>
        simp only
        have hrec : GetNoKey (getF T pol f) := ⟨getF_present T pol f, getF_hit T pol f, ih⟩
        cases h3 : runShape T k (getF T pol f) c sh [] with
        | error e =>
          simp only; intro h; cases h
          exact runShape_nokey (rank := rank) hrec sh [] c [] (by simp) (hT k sh h2) h3
        | ok p =>
          obtain ⟨c1, v1⟩ := p
          simp only
          have : get? (pol.onStore c1.1 (set c1.2 k v1) k).2 k = some v1 := by
            rw [hk]; exact get?_set_self _ _ _
          simp [this]

theorem get?_filter (p : κ → Bool) (d : Dict κ ν) (k : κ) :
    get? (d.filter (fun kv => p kv.1)) k = if p k then get? d k else none := by
  induction d with
  | nil => simp [get?]
  | cons x d ih =>
    obtain ⟨k0, v0⟩ := x
    by_cases hp : p k0 = true
    · simp only [List.filter, hp]
      by_cases e : k0 = k
      · subst e; simp [get?, hp]
      · simp [get?, e, ih]
    · have hp' : p k0 = false := by cases h : p k0 <;> simp_all
      simp only [List.filter, hp']
      by_cases e : k0 = k
      · subst e; simp [hp', ih]
      · simp [get?, e, ih]

/-- dropping the entries whose key fails a test that every frozen key passes is an eviction -/
theorem evictRel_filter (F : κ → Prop) (p : κ → Bool) (hp : ∀ k, F k → p k = true) (d : Dict κ ν) :
    EvictRel F d (d.filter (fun kv => p kv.1)) := by
  intro k
  rw [get?_filter]
  by_cases h : p k = true
  · simp [h]
  · right; simp only [h, Bool.false_eq_true, ↓reduceIte, true_and]; exact fun hf => h (hp k hf)

/-! ### the real clean-up (Model/Cache, property C03) is an admissible policy -/

/-- every frozen key has importance ≤ 0 (frozen = 0) -/
def FrozenImp (F : κ → Prop) (s : State κ ν) : Prop := ∀ k, F k → impOf s k ≤ 0

/-- bookkeeping + `cleanup_cache()` of the miss tail, on the cache `d` (which
already contains the new entry) -/
def realStore (z : Sizes κ ν) (s : State κ ν) (d : Dict κ ν) (k : κ) : State κ ν :=
  match cleanup z { s with data := d, count := s.count + 1, last := set s.last k (s.count + 1) } with
  | .ok (s3, _) => s3
  | .error _ => { s with data := d, count := s.count + 1, last := set s.last k (s.count + 1) }

/-- a direct `cleanup_cache()` -/
def realSweep (z : Sizes κ ν) (s : State κ ν) (d : Dict κ ν) : State κ ν :=
  match cleanup z { s with data := d } with
  | .ok (s3, _) => s3
  | .error _ => { s with data := d }

theorem cleanup_evict {z : Sizes κ ν} (hz : z.RndOK) {F : κ → Prop} {s s' : State κ ν} {ev : List κ}
    (hF : FrozenImp F s) (h : cleanup z s = .ok (s', ev)) : EvictRel F s.data s'.data ∧ s'.imp = s.imp := by
  obtain ⟨a, _, c, d, _⟩ := cleanup_spec hz h
  refine ⟨?_, c.2.1⟩
  intro k
  rw [a, get?_eraseAll]
  by_cases hk : k ∈ ev
  · right
    simp only [hk, ↓reduceIte, true_and]
    intro hf
    have h1 := (d k hk).1
    have h2 := hF k hf
    grind
  · left; simp [hk]

theorem realStore_ok {z : Sizes κ ν} (hz : z.RndOK) {F : κ → Prop} {s : State κ ν} (hF : FrozenImp F s)
    (d : Dict κ ν) (k : κ) : EvictRel F d (realStore z s d k).data ∧ FrozenImp F (realStore z s d k) := by
  unfold realStore
  cases h : cleanup z { s with data := d, count := s.count + 1, last := set s.last k (s.count + 1) } with
  | error e => exact ⟨fun _ => Or.inl rfl, hF⟩
  | ok p =>
    obtain ⟨s3, ev⟩ := p
    have := cleanup_evict hz (F := F) (s := { s with data := d, count := s.count + 1, last := set s.last k (s.count + 1) })
      hF h
    exact ⟨this.1, fun k' hk' => by rw [impOf_congr this.2]; exact hF k' hk'⟩

theorem realSweep_ok {z : Sizes κ ν} (hz : z.RndOK) {F : κ → Prop} {s : State κ ν} (hF : FrozenImp F s)
    (d : Dict κ ν) : EvictRel F d (realSweep z s d).data ∧ FrozenImp F (realSweep z s d) := by
  unfold realSweep
  cases h : cleanup z { s with data := d } with
  | error e => exact ⟨fun _ => Or.inl rfl, hF⟩
  | ok p =>
    obtain ⟨s3, ev⟩ := p
    have := cleanup_evict hz (F := F) (s := { s with data := d }) hF h
    exact ⟨this.1, fun k' hk' => by rw [impOf_congr this.2]; exact hF k' hk'⟩

/-- The real bookkeeping and clean-up of Model/Cache as a `Policy`, for ANY
period, threshold, sizes, importance of the non-frozen keys. -/
def realPolicy (z : Sizes κ ν) (hz : z.RndOK) (F : κ → Prop) : Policy { s : State κ ν // FrozenImp F s } κ ν :=
  { onHit := fun s k => ⟨hit s.1 k, s.2⟩
    onStore := fun s d k => (⟨realStore z s.1 d k, (realStore_ok hz s.2 d k).2⟩, (realStore z s.1 d k).data)
    onSweep := fun s d => (⟨realSweep z s.1 d, (realSweep_ok hz s.2 d).2⟩, (realSweep z s.1 d).data) }

theorem realPolicy_ok (z : Sizes κ ν) (hz : z.RndOK) (F : κ → Prop) : PolicyOK F (realPolicy z hz F) :=
  ⟨fun s d k => (realStore_ok hz s.2 d k).1, fun s d => (realSweep_ok hz s.2 d).1⟩

end AurelVerif.CacheGet
