/-
Lemmas/C17JetCS.lean — written by tools/py2lean/c17_jetgen.py (developer tool, not run by ./check);
ordinary Lean source from then on.  Collins–Stewart Bianchi II metric `−dt² + P dx² + 2 P c z dx dy + (Q + P c² z²) dy² + Q dz²` with `∂_t P = P/(2t)`, `∂_t Q = 5Q/(4t)` (i.e. `P = t^{1/2}`, `Q = t^{5/4}`: `γ = 4/3`), `c` constant.

`jet` is a 2-jet of a metric in the sense of Spec/Jet4.lean whose entries are rational functions of
the field variables `t P Q z c`.  Each `…T` table below is PROVEN equal to the textbook definition of
Spec/Jet4.lean (Christoffel symbols, derivative of the inverse metric, derivative of the
Christoffel symbols, Ricci tensor, Ricci scalar, Einstein tensor); the tables
themselves carry no authority.
-/
import AurelVerif.Lemmas.C17JetTac

set_option linter.unusedVariables false
set_option linter.unusedTactic false
set_option linter.unreachableTactic false
set_option linter.unusedSimpArgs false
set_option linter.style.longLine false
set_option linter.unusedSectionVars false

namespace AurelVerif.C17Jet.CS
open AurelVerif.Spec.Jet4 AurelVerif.Spec.Curvature AurelVerif.C17JetTac
variable {K : Type} [Field K] [CharZero K]

set_option maxHeartbeats 1000000 in
/-- the 2-jet: `g`, `gi = g⁻¹`, `dg c a b = ∂_c g_ab`, `ddg c d a b = ∂_c ∂_d g_ab`. -/
def jet (t P Q z c : K) : Jet2 K where
  g := ![![(-1:K), (0:K), (0:K), (0:K)], ![(0:K), P, (P * c * z), (0:K)], ![(0:K), (P * c * z), ((P * c ^ (2:ℕ) * z ^ (2:ℕ)) + Q), (0:K)], ![(0:K), (0:K), (0:K), Q]]
  gi := ![![(-1:K), (0:K), (0:K), (0:K)], ![(0:K), (((P * c ^ (2:ℕ) * z ^ (2:ℕ)) + Q) / (P * Q)), (-((c * z) / Q)), (0:K)], ![(0:K), (-((c * z) / Q)), (1 / Q), (0:K)], ![(0:K), (0:K), (0:K), (1 / Q)]]
  dg := ![![![(0:K), (0:K), (0:K), (0:K)], ![(0:K), (P / ((2:K) * t)), ((P * c * z) / ((2:K) * t)), (0:K)], ![(0:K), ((P * c * z) / ((2:K) * t)), ((((2:K) * P * c ^ (2:ℕ) * z ^ (2:ℕ)) + ((5:K) * Q)) / ((4:K) * t)), (0:K)], ![(0:K), (0:K), (0:K), (((5:K) * Q) / ((4:K) * t))]], ![![(0:K), (0:K), (0:K), (0:K)], ![(0:K), (0:K), (0:K), (0:K)], ![(0:K), (0:K), (0:K), (0:K)], ![(0:K), (0:K), (0:K), (0:K)]], ![![(0:K), (0:K), (0:K), (0:K)], ![(0:K), (0:K), (0:K), (0:K)], ![(0:K), (0:K), (0:K), (0:K)], ![(0:K), (0:K), (0:K), (0:K)]], ![![(0:K), (0:K), (0:K), (0:K)], ![(0:K), (0:K), (P * c), (0:K)], ![(0:K), (P * c), ((2:K) * P * c ^ (2:ℕ) * z), (0:K)], ![(0:K), (0:K), (0:K), (0:K)]]]
  ddg := ![![![![(0:K), (0:K), (0:K), (0:K)], ![(0:K), (-(P / ((4:K) * t ^ (2:ℕ)))), (-((P * c * z) / ((4:K) * t ^ (2:ℕ)))), (0:K)], ![(0:K), (-((P * c * z) / ((4:K) * t ^ (2:ℕ)))), (((-((4:K) * P * c ^ (2:ℕ) * z ^ (2:ℕ))) + ((5:K) * Q)) / ((16:K) * t ^ (2:ℕ))), (0:K)], ![(0:K), (0:K), (0:K), (((5:K) * Q) / ((16:K) * t ^ (2:ℕ)))]], ![![(0:K), (0:K), (0:K), (0:K)], ![(0:K), (0:K), (0:K), (0:K)], ![(0:K), (0:K), (0:K), (0:K)], ![(0:K), (0:K), (0:K), (0:K)]], ![![(0:K), (0:K), (0:K), (0:K)], ![(0:K), (0:K), (0:K), (0:K)], ![(0:K), (0:K), (0:K), (0:K)], ![(0:K), (0:K), (0:K), (0:K)]], ![![(0:K), (0:K), (0:K), (0:K)], ![(0:K), (0:K), ((P * c) / ((2:K) * t)), (0:K)], ![(0:K), ((P * c) / ((2:K) * t)), ((P * c ^ (2:ℕ) * z) / t), (0:K)], ![(0:K), (0:K), (0:K), (0:K)]]], ![![![(0:K), (0:K), (0:K), (0:K)], ![(0:K), (0:K), (0:K), (0:K)], ![(0:K), (0:K), (0:K), (0:K)], ![(0:K), (0:K), (0:K), (0:K)]], ![![(0:K), (0:K), (0:K), (0:K)], ![(0:K), (0:K), (0:K), (0:K)], ![(0:K), (0:K), (0:K), (0:K)], ![(0:K), (0:K), (0:K), (0:K)]], ![![(0:K), (0:K), (0:K), (0:K)], ![(0:K), (0:K), (0:K), (0:K)], ![(0:K), (0:K), (0:K), (0:K)], ![(0:K), (0:K), (0:K), (0:K)]], ![![(0:K), (0:K), (0:K), (0:K)], ![(0:K), (0:K), (0:K), (0:K)], ![(0:K), (0:K), (0:K), (0:K)], ![(0:K), (0:K), (0:K), (0:K)]]], ![![![(0:K), (0:K), (0:K), (0:K)], ![(0:K), (0:K), (0:K), (0:K)], ![(0:K), (0:K), (0:K), (0:K)], ![(0:K), (0:K), (0:K), (0:K)]], ![![(0:K), (0:K), (0:K), (0:K)], ![(0:K), (0:K), (0:K), (0:K)], ![(0:K), (0:K), (0:K), (0:K)], ![(0:K), (0:K), (0:K), (0:K)]], ![![(0:K), (0:K), (0:K), (0:K)], ![(0:K), (0:K), (0:K), (0:K)], ![(0:K), (0:K), (0:K), (0:K)], ![(0:K), (0:K), (0:K), (0:K)]], ![![(0:K), (0:K), (0:K), (0:K)], ![(0:K), (0:K), (0:K), (0:K)], ![(0:K), (0:K), (0:K), (0:K)], ![(0:K), (0:K), (0:K), (0:K)]]], ![![![(0:K), (0:K), (0:K), (0:K)], ![(0:K), (0:K), ((P * c) / ((2:K) * t)), (0:K)], ![(0:K), ((P * c) / ((2:K) * t)), ((P * c ^ (2:ℕ) * z) / t), (0:K)], ![(0:K), (0:K), (0:K), (0:K)]], ![![(0:K), (0:K), (0:K), (0:K)], ![(0:K), (0:K), (0:K), (0:K)], ![(0:K), (0:K), (0:K), (0:K)], ![(0:K), (0:K), (0:K), (0:K)]], ![![(0:K), (0:K), (0:K), (0:K)], ![(0:K), (0:K), (0:K), (0:K)], ![(0:K), (0:K), (0:K), (0:K)], ![(0:K), (0:K), (0:K), (0:K)]], ![![(0:K), (0:K), (0:K), (0:K)], ![(0:K), (0:K), (0:K), (0:K)], ![(0:K), (0:K), ((2:K) * P * c ^ (2:ℕ)), (0:K)], ![(0:K), (0:K), (0:K), (0:K)]]]]

theorem jet_inverse (t P Q z c : K) (h0 : t ≠ 0) (h1 : P ≠ 0) (h2 : Q ≠ 0) : (jet t P Q z c).IsInverse := by
  have h0n := h0; have h1n := h1; have h2n := h2; (try ring_nf at h0n); (try ring_nf at h1n); (try ring_nf at h2n); 
  refine forall4 ?_ ?_ ?_ ?_ <;> refine forall4 ?_ ?_ ?_ ?_ <;>
    (simp only [jet, Fin.sum_univ_four, Fin.isValue, Fin.reduceEq, if_true, if_false, reduceIte, Matrix.cons_val_zero, Matrix.cons_val_one, Matrix.cons_val]; jet_close)

set_option maxHeartbeats 1000000 in
theorem jet_symm (t P Q z c : K) : (jet t P Q z c).IsSymm := by
  refine ⟨?_, ?_, ?_, ?_, ?_⟩
  · refine forall4 ?_ ?_ ?_ ?_ <;> refine forall4 ?_ ?_ ?_ ?_ <;> rfl
  · refine forall4 ?_ ?_ ?_ ?_ <;> refine forall4 ?_ ?_ ?_ ?_ <;> rfl
  · refine forall4 ?_ ?_ ?_ ?_ <;> refine forall4 ?_ ?_ ?_ ?_ <;> refine forall4 ?_ ?_ ?_ ?_ <;> rfl
  · refine forall4 ?_ ?_ ?_ ?_ <;> refine forall4 ?_ ?_ ?_ ?_ <;> refine forall4 ?_ ?_ ?_ ?_ <;> refine forall4 ?_ ?_ ?_ ?_ <;> rfl
  · refine forall4 ?_ ?_ ?_ ?_ <;> refine forall4 ?_ ?_ ?_ ?_ <;> refine forall4 ?_ ?_ ?_ ?_ <;> refine forall4 ?_ ?_ ?_ ?_ <;> rfl

set_option maxHeartbeats 1000000 in
/-- `Γ^a_{bc}` -/
def GamT (t P Q z c : K) : Fin 4 → Fin 4 → Fin 4 → K :=
  ![![![(0:K), (0:K), (0:K), (0:K)], ![(0:K), (P / ((4:K) * t)), ((P * c * z) / ((4:K) * t)), (0:K)], ![(0:K), ((P * c * z) / ((4:K) * t)), ((((2:K) * P * c ^ (2:ℕ) * z ^ (2:ℕ)) + ((5:K) * Q)) / ((8:K) * t)), (0:K)], ![(0:K), (0:K), (0:K), (((5:K) * Q) / ((8:K) * t))]], ![![(0:K), ((1:K) / ((4:K) * t)), (-(((3:K) * c * z) / ((8:K) * t))), (0:K)], ![((1:K) / ((4:K) * t)), (0:K), (0:K), (-((P * c ^ (2:ℕ) * z) / ((2:K) * Q)))], ![(-(((3:K) * c * z) / ((8:K) * t))), (0:K), (0:K), (-((c * ((P * c ^ (2:ℕ) * z ^ (2:ℕ)) - Q)) / ((2:K) * Q)))], ![(0:K), (-((P * c ^ (2:ℕ) * z) / ((2:K) * Q))), (-((c * ((P * c ^ (2:ℕ) * z ^ (2:ℕ)) - Q)) / ((2:K) * Q))), (0:K)]], ![![(0:K), (0:K), ((5:K) / ((8:K) * t)), (0:K)], ![(0:K), (0:K), (0:K), ((P * c) / ((2:K) * Q))], ![((5:K) / ((8:K) * t)), (0:K), (0:K), ((P * c ^ (2:ℕ) * z) / ((2:K) * Q))], ![(0:K), ((P * c) / ((2:K) * Q)), ((P * c ^ (2:ℕ) * z) / ((2:K) * Q)), (0:K)]], ![![(0:K), (0:K), (0:K), ((5:K) / ((8:K) * t))], ![(0:K), (0:K), (-((P * c) / ((2:K) * Q))), (0:K)], ![(0:K), (-((P * c) / ((2:K) * Q))), (-((P * c ^ (2:ℕ) * z) / Q)), (0:K)], ![((5:K) / ((8:K) * t)), (0:K), (0:K), (0:K)]]]
set_option maxHeartbeats 1000000 in
theorem Gam_eq (t P Q z c : K) (h0 : t ≠ 0) (h1 : P ≠ 0) (h2 : Q ≠ 0) : (jet t P Q z c).Gam = GamT t P Q z c := by
  have h0n := h0; have h1n := h1; have h2n := h2; (try ring_nf at h0n); (try ring_nf at h1n); (try ring_nf at h2n); 
  refine funext4 ?_ ?_ ?_ ?_ <;> refine funext4 ?_ ?_ ?_ ?_ <;> refine funext4 ?_ ?_ ?_ ?_ <;>
    (simp only [Jet2.Gam, christoffel, christoffel1]; simp only [GamT, jet, Fin.sum_univ_four, Matrix.cons_val_zero, Matrix.cons_val_one, Matrix.cons_val]; jet_close)

set_option maxHeartbeats 1000000 in
/-- `∂_e g^{ab}` -/
def dgiT (t P Q z c : K) : Fin 4 → Fin 4 → Fin 4 → K :=
  ![![![(0:K), (0:K), (0:K), (0:K)], ![(0:K), (((-((5:K) * P * c ^ (2:ℕ) * z ^ (2:ℕ))) - ((2:K) * Q)) / ((4:K) * P * Q * t)), (((5:K) * c * z) / ((4:K) * Q * t)), (0:K)], ![(0:K), (((5:K) * c * z) / ((4:K) * Q * t)), (-((5:K) / ((4:K) * Q * t))), (0:K)], ![(0:K), (0:K), (0:K), (-((5:K) / ((4:K) * Q * t)))]], ![![(0:K), (0:K), (0:K), (0:K)], ![(0:K), (0:K), (0:K), (0:K)], ![(0:K), (0:K), (0:K), (0:K)], ![(0:K), (0:K), (0:K), (0:K)]], ![![(0:K), (0:K), (0:K), (0:K)], ![(0:K), (0:K), (0:K), (0:K)], ![(0:K), (0:K), (0:K), (0:K)], ![(0:K), (0:K), (0:K), (0:K)]], ![![(0:K), (0:K), (0:K), (0:K)], ![(0:K), (((2:K) * c ^ (2:ℕ) * z) / Q), (-(c / Q)), (0:K)], ![(0:K), (-(c / Q)), (0:K), (0:K)], ![(0:K), (0:K), (0:K), (0:K)]]]
set_option maxHeartbeats 1000000 in
theorem dgi_eq (t P Q z c : K) (h0 : t ≠ 0) (h1 : P ≠ 0) (h2 : Q ≠ 0) : (jet t P Q z c).dgi = dgiT t P Q z c := by
  have h0n := h0; have h1n := h1; have h2n := h2; (try ring_nf at h0n); (try ring_nf at h1n); (try ring_nf at h2n); 
  refine funext4 ?_ ?_ ?_ ?_ <;> refine funext4 ?_ ?_ ?_ ?_ <;> refine funext4 ?_ ?_ ?_ ?_ <;>
    (simp only [Jet2.dgi]; simp only [dgiT, jet, Fin.sum_univ_four, Matrix.cons_val_zero, Matrix.cons_val_one, Matrix.cons_val]; jet_close)

set_option maxHeartbeats 1000000 in
/-- `∂_e Γ^a_{bc}` -/
def dGamT (t P Q z c : K) : Fin 4 → Fin 4 → Fin 4 → Fin 4 → K :=
  ![![![![(0:K), (0:K), (0:K), (0:K)], ![(0:K), (-(P / ((8:K) * t ^ (2:ℕ)))), (-((P * c * z) / ((8:K) * t ^ (2:ℕ)))), (0:K)], ![(0:K), (-((P * c * z) / ((8:K) * t ^ (2:ℕ)))), (((-((4:K) * P * c ^ (2:ℕ) * z ^ (2:ℕ))) + ((5:K) * Q)) / ((32:K) * t ^ (2:ℕ))), (0:K)], ![(0:K), (0:K), (0:K), (((5:K) * Q) / ((32:K) * t ^ (2:ℕ)))]], ![![(0:K), (-((1:K) / ((4:K) * t ^ (2:ℕ)))), (((3:K) * c * z) / ((8:K) * t ^ (2:ℕ))), (0:K)], ![(-((1:K) / ((4:K) * t ^ (2:ℕ)))), (0:K), (0:K), (((3:K) * P * c ^ (2:ℕ) * z) / ((8:K) * Q * t))], ![(((3:K) * c * z) / ((8:K) * t ^ (2:ℕ))), (0:K), (0:K), (((3:K) * P * c ^ (3:ℕ) * z ^ (2:ℕ)) / ((8:K) * Q * t))], ![(0:K), (((3:K) * P * c ^ (2:ℕ) * z) / ((8:K) * Q * t)), (((3:K) * P * c ^ (3:ℕ) * z ^ (2:ℕ)) / ((8:K) * Q * t)), (0:K)]], ![![(0:K), (0:K), (-((5:K) / ((8:K) * t ^ (2:ℕ)))), (0:K)], ![(0:K), (0:K), (0:K), (-(((3:K) * P * c) / ((8:K) * Q * t)))], ![(-((5:K) / ((8:K) * t ^ (2:ℕ)))), (0:K), (0:K), (-(((3:K) * P * c ^ (2:ℕ) * z) / ((8:K) * Q * t)))], ![(0:K), (-(((3:K) * P * c) / ((8:K) * Q * t))), (-(((3:K) * P * c ^ (2:ℕ) * z) / ((8:K) * Q * t))), (0:K)]], ![![(0:K), (0:K), (0:K), (-((5:K) / ((8:K) * t ^ (2:ℕ))))], ![(0:K), (0:K), (((3:K) * P * c) / ((8:K) * Q * t)), (0:K)], ![(0:K), (((3:K) * P * c) / ((8:K) * Q * t)), (((3:K) * P * c ^ (2:ℕ) * z) / ((4:K) * Q * t)), (0:K)], ![(-((5:K) / ((8:K) * t ^ (2:ℕ)))), (0:K), (0:K), (0:K)]]], ![![![(0:K), (0:K), (0:K), (0:K)], ![(0:K), (0:K), (0:K), (0:K)], ![(0:K), (0:K), (0:K), (0:K)], ![(0:K), (0:K), (0:K), (0:K)]], ![![(0:K), (0:K), (0:K), (0:K)], ![(0:K), (0:K), (0:K), (0:K)], ![(0:K), (0:K), (0:K), (0:K)], ![(0:K), (0:K), (0:K), (0:K)]], ![![(0:K), (0:K), (0:K), (0:K)], ![(0:K), (0:K), (0:K), (0:K)], ![(0:K), (0:K), (0:K), (0:K)], ![(0:K), (0:K), (0:K), (0:K)]], ![![(0:K), (0:K), (0:K), (0:K)], ![(0:K), (0:K), (0:K), (0:K)], ![(0:K), (0:K), (0:K), (0:K)], ![(0:K), (0:K), (0:K), (0:K)]]], ![![![(0:K), (0:K), (0:K), (0:K)], ![(0:K), (0:K), (0:K), (0:K)], ![(0:K), (0:K), (0:K), (0:K)], ![(0:K), (0:K), (0:K), (0:K)]], ![![(0:K), (0:K), (0:K), (0:K)], ![(0:K), (0:K), (0:K), (0:K)], ![(0:K), (0:K), (0:K), (0:K)], ![(0:K), (0:K), (0:K), (0:K)]], ![![(0:K), (0:K), (0:K), (0:K)], ![(0:K), (0:K), (0:K), (0:K)], ![(0:K), (0:K), (0:K), (0:K)], ![(0:K), (0:K), (0:K), (0:K)]], ![![(0:K), (0:K), (0:K), (0:K)], ![(0:K), (0:K), (0:K), (0:K)], ![(0:K), (0:K), (0:K), (0:K)], ![(0:K), (0:K), (0:K), (0:K)]]], ![![![(0:K), (0:K), (0:K), (0:K)], ![(0:K), (0:K), ((P * c) / ((4:K) * t)), (0:K)], ![(0:K), ((P * c) / ((4:K) * t)), ((P * c ^ (2:ℕ) * z) / ((2:K) * t)), (0:K)], ![(0:K), (0:K), (0:K), (0:K)]], ![![(0:K), (0:K), (-(((3:K) * c) / ((8:K) * t))), (0:K)], ![(0:K), (0:K), (0:K), (-((P * c ^ (2:ℕ)) / ((2:K) * Q)))], ![(-(((3:K) * c) / ((8:K) * t))), (0:K), (0:K), (-((P * c ^ (3:ℕ) * z) / Q))], ![(0:K), (-((P * c ^ (2:ℕ)) / ((2:K) * Q))), (-((P * c ^ (3:ℕ) * z) / Q)), (0:K)]], ![![(0:K), (0:K), (0:K), (0:K)], ![(0:K), (0:K), (0:K), (0:K)], ![(0:K), (0:K), (0:K), ((P * c ^ (2:ℕ)) / ((2:K) * Q))], ![(0:K), (0:K), ((P * c ^ (2:ℕ)) / ((2:K) * Q)), (0:K)]], ![![(0:K), (0:K), (0:K), (0:K)], ![(0:K), (0:K), (0:K), (0:K)], ![(0:K), (0:K), (-((P * c ^ (2:ℕ)) / Q)), (0:K)], ![(0:K), (0:K), (0:K), (0:K)]]]]
set_option maxHeartbeats 1000000 in
theorem dGam_eq_0 (t P Q z c : K) (h0 : t ≠ 0) (h1 : P ≠ 0) (h2 : Q ≠ 0) : (jet t P Q z c).dGam 0 = dGamT t P Q z c 0 := by
  have h0n := h0; have h1n := h1; have h2n := h2; (try ring_nf at h0n); (try ring_nf at h1n); (try ring_nf at h2n); 
  refine funext4 ?_ ?_ ?_ ?_ <;> refine funext4 ?_ ?_ ?_ ?_ <;> refine funext4 ?_ ?_ ?_ ?_ <;>
    (simp only [Jet2.dGam, Jet2.Gl, Jet2.dGl, christoffel1, dgi_eq t P Q z c h0 h1 h2]; simp only [dgiT, dGamT, jet, Fin.sum_univ_four, Matrix.cons_val_zero, Matrix.cons_val_one, Matrix.cons_val]; jet_close)
set_option maxHeartbeats 1000000 in
theorem dGam_eq_1 (t P Q z c : K) (h0 : t ≠ 0) (h1 : P ≠ 0) (h2 : Q ≠ 0) : (jet t P Q z c).dGam 1 = dGamT t P Q z c 1 := by
  have h0n := h0; have h1n := h1; have h2n := h2; (try ring_nf at h0n); (try ring_nf at h1n); (try ring_nf at h2n); 
  refine funext4 ?_ ?_ ?_ ?_ <;> refine funext4 ?_ ?_ ?_ ?_ <;> refine funext4 ?_ ?_ ?_ ?_ <;>
    (simp only [Jet2.dGam, Jet2.Gl, Jet2.dGl, christoffel1, dgi_eq t P Q z c h0 h1 h2]; simp only [dgiT, dGamT, jet, Fin.sum_univ_four, Matrix.cons_val_zero, Matrix.cons_val_one, Matrix.cons_val]; jet_close)
set_option maxHeartbeats 1000000 in
theorem dGam_eq_2 (t P Q z c : K) (h0 : t ≠ 0) (h1 : P ≠ 0) (h2 : Q ≠ 0) : (jet t P Q z c).dGam 2 = dGamT t P Q z c 2 := by
  have h0n := h0; have h1n := h1; have h2n := h2; (try ring_nf at h0n); (try ring_nf at h1n); (try ring_nf at h2n); 
  refine funext4 ?_ ?_ ?_ ?_ <;> refine funext4 ?_ ?_ ?_ ?_ <;> refine funext4 ?_ ?_ ?_ ?_ <;>
    (simp only [Jet2.dGam, Jet2.Gl, Jet2.dGl, christoffel1, dgi_eq t P Q z c h0 h1 h2]; simp only [dgiT, dGamT, jet, Fin.sum_univ_four, Matrix.cons_val_zero, Matrix.cons_val_one, Matrix.cons_val]; jet_close)
set_option maxHeartbeats 1000000 in
theorem dGam_eq_3 (t P Q z c : K) (h0 : t ≠ 0) (h1 : P ≠ 0) (h2 : Q ≠ 0) : (jet t P Q z c).dGam 3 = dGamT t P Q z c 3 := by
  have h0n := h0; have h1n := h1; have h2n := h2; (try ring_nf at h0n); (try ring_nf at h1n); (try ring_nf at h2n); 
  refine funext4 ?_ ?_ ?_ ?_ <;> refine funext4 ?_ ?_ ?_ ?_ <;> refine funext4 ?_ ?_ ?_ ?_ <;>
    (simp only [Jet2.dGam, Jet2.Gl, Jet2.dGl, christoffel1, dgi_eq t P Q z c h0 h1 h2]; simp only [dgiT, dGamT, jet, Fin.sum_univ_four, Matrix.cons_val_zero, Matrix.cons_val_one, Matrix.cons_val]; jet_close)
theorem dGam_eq (t P Q z c : K) (h0 : t ≠ 0) (h1 : P ≠ 0) (h2 : Q ≠ 0) : (jet t P Q z c).dGam = dGamT t P Q z c :=
  funext4 (dGam_eq_0 t P Q z c h0 h1 h2) (dGam_eq_1 t P Q z c h0 h1 h2) (dGam_eq_2 t P Q z c h0 h1 h2) (dGam_eq_3 t P Q z c h0 h1 h2)

set_option maxHeartbeats 1000000 in
/-- `R_ab` -/
def RicT (t P Q z c : K) : Fin 4 → Fin 4 → K :=
  ![![((21:K) / ((32:K) * t ^ (2:ℕ))), (0:K), (0:K), (0:K)], ![(0:K), ((P * (((4:K) * P * c ^ (2:ℕ) * t ^ (2:ℕ)) + Q ^ (2:ℕ))) / ((8:K) * Q ^ (2:ℕ) * t ^ (2:ℕ))), ((P * c * z * (((4:K) * P * c ^ (2:ℕ) * t ^ (2:ℕ)) + Q ^ (2:ℕ))) / ((8:K) * Q ^ (2:ℕ) * t ^ (2:ℕ))), (0:K)], ![(0:K), ((P * c * z * (((4:K) * P * c ^ (2:ℕ) * t ^ (2:ℕ)) + Q ^ (2:ℕ))) / ((8:K) * Q ^ (2:ℕ) * t ^ (2:ℕ))), ((((8:K) * P ^ (2:ℕ) * c ^ (4:ℕ) * t ^ (2:ℕ) * z ^ (2:ℕ)) + ((2:K) * P * Q ^ (2:ℕ) * c ^ (2:ℕ) * z ^ (2:ℕ)) - ((8:K) * P * Q * c ^ (2:ℕ) * t ^ (2:ℕ)) + ((5:K) * Q ^ (3:ℕ))) / ((16:K) * Q ^ (2:ℕ) * t ^ (2:ℕ))), (0:K)], ![(0:K), (0:K), (0:K), (((-((8:K) * P * c ^ (2:ℕ) * t ^ (2:ℕ))) + ((5:K) * Q ^ (2:ℕ))) / ((16:K) * Q * t ^ (2:ℕ)))]]
set_option maxHeartbeats 1000000 in
theorem Ric_eq (t P Q z c : K) (h0 : t ≠ 0) (h1 : P ≠ 0) (h2 : Q ≠ 0) : (jet t P Q z c).Ric = RicT t P Q z c := by
  have h0n := h0; have h1n := h1; have h2n := h2; (try ring_nf at h0n); (try ring_nf at h1n); (try ring_nf at h2n); 
  refine funext4 ?_ ?_ ?_ ?_ <;> refine funext4 ?_ ?_ ?_ ?_ <;>
    (simp only [Jet2.Ric, ricci, Jet2.Riem, Gam_eq t P Q z c h0 h1 h2, dGam_eq t P Q z c h0 h1 h2]; simp only [GamT, dGamT, RicT, jet, Fin.sum_univ_four, Matrix.cons_val_zero, Matrix.cons_val_one, Matrix.cons_val]; jet_close)

set_option maxHeartbeats 1000000 in
/-- `R` -/
def RicST (t P Q z c : K) : K :=
  (((-((16:K) * P * c ^ (2:ℕ) * t ^ (2:ℕ))) + ((3:K) * Q ^ (2:ℕ))) / ((32:K) * Q ^ (2:ℕ) * t ^ (2:ℕ)))
set_option maxHeartbeats 1000000 in
theorem RicS_eq (t P Q z c : K) (h0 : t ≠ 0) (h1 : P ≠ 0) (h2 : Q ≠ 0) : (jet t P Q z c).RicS = RicST t P Q z c := by
  have h0n := h0; have h1n := h1; have h2n := h2; (try ring_nf at h0n); (try ring_nf at h1n); (try ring_nf at h2n); 
    (simp only [Jet2.RicS, trace, Ric_eq t P Q z c h0 h1 h2]; simp only [RicT, RicST, jet, Fin.sum_univ_four, Matrix.cons_val_zero, Matrix.cons_val_one, Matrix.cons_val]; jet_close)

set_option maxHeartbeats 1000000 in
/-- `G_ab = R_ab − ½ R g_ab` -/
def EinsteinT (t P Q z c : K) : Fin 4 → Fin 4 → K :=
  ![![(((-((16:K) * P * c ^ (2:ℕ) * t ^ (2:ℕ))) + ((45:K) * Q ^ (2:ℕ))) / ((64:K) * Q ^ (2:ℕ) * t ^ (2:ℕ))), (0:K), (0:K), (0:K)], ![(0:K), ((P * (((48:K) * P * c ^ (2:ℕ) * t ^ (2:ℕ)) + ((5:K) * Q ^ (2:ℕ)))) / ((64:K) * Q ^ (2:ℕ) * t ^ (2:ℕ))), ((P * c * z * (((48:K) * P * c ^ (2:ℕ) * t ^ (2:ℕ)) + ((5:K) * Q ^ (2:ℕ)))) / ((64:K) * Q ^ (2:ℕ) * t ^ (2:ℕ))), (0:K)], ![(0:K), ((P * c * z * (((48:K) * P * c ^ (2:ℕ) * t ^ (2:ℕ)) + ((5:K) * Q ^ (2:ℕ)))) / ((64:K) * Q ^ (2:ℕ) * t ^ (2:ℕ))), ((((48:K) * P ^ (2:ℕ) * c ^ (4:ℕ) * t ^ (2:ℕ) * z ^ (2:ℕ)) + ((5:K) * P * Q ^ (2:ℕ) * c ^ (2:ℕ) * z ^ (2:ℕ)) - ((16:K) * P * Q * c ^ (2:ℕ) * t ^ (2:ℕ)) + ((17:K) * Q ^ (3:ℕ))) / ((64:K) * Q ^ (2:ℕ) * t ^ (2:ℕ))), (0:K)], ![(0:K), (0:K), (0:K), (((-((16:K) * P * c ^ (2:ℕ) * t ^ (2:ℕ))) + ((17:K) * Q ^ (2:ℕ))) / ((64:K) * Q * t ^ (2:ℕ)))]]
set_option maxHeartbeats 1000000 in
theorem Einstein_eq (t P Q z c : K) (h0 : t ≠ 0) (h1 : P ≠ 0) (h2 : Q ≠ 0) : (jet t P Q z c).Einstein = EinsteinT t P Q z c := by
  have h0n := h0; have h1n := h1; have h2n := h2; (try ring_nf at h0n); (try ring_nf at h1n); (try ring_nf at h2n); 
  refine funext4 ?_ ?_ ?_ ?_ <;> refine funext4 ?_ ?_ ?_ ?_ <;>
    (simp only [Jet2.Einstein, einstein, Ric_eq t P Q z c h0 h1 h2, RicS_eq t P Q z c h0 h1 h2]; simp only [RicT, RicST, EinsteinT, jet, Fin.sum_univ_four, Matrix.cons_val_zero, Matrix.cons_val_one, Matrix.cons_val]; jet_close)

end AurelVerif.C17Jet.CS
