/-
Lemmas/C05Raise.lean — property C05, Layer B (consistency): covariant constancy of
the inverse metric (T8, 'uu') and raising an index commutes with the covariant
derivative (T9, rank 1).  Uses `Deriv e.D` (additive + Leibniz): continuum-limit
statements, not exact for finite differences.
-/
import AurelVerif.Lemmas.C05Compat

set_option linter.unusedSimpArgs false
set_option linter.unusedVariables false
set_option linter.unusedSectionVars false

namespace AurelVerif.C05L
open AurelVerif.Gen.Core AurelVerif.Tensor AurelVerif.CoreTac AurelVerif.C08 AurelVerif.Spec.Covd

variable {K : Type} [Field K]

theorem Deriv.zero {D : Fin 3 → K → K} (hD : Deriv D) (i : Fin 3) : D i 0 = 0 := by
  have := hD.add i 0 0; rw [add_zero] at this; exact left_eq_add.mp this

theorem Deriv.one {D : Fin 3 → K → K} (hD : Deriv D) (i : Fin 3) : D i 1 = 0 := by
  have := hD.mul i 1 1; rw [mul_one, one_mul, mul_one] at this; exact left_eq_add.mp this

/-- the product rule applied to `γ^{ai} γ_ij = δ^a_j` (the only property of `D` used for ∂γ⁻¹). -/
def ProdRuleInv (e : Env K) : Prop :=
  ∀ c a j, ∑ i, (e.D c (e.gammaup3 a i) * e.gammadown3 i j + e.gammaup3 a i * e.D c (e.gammadown3 i j)) = 0

theorem prodRuleInv_of_deriv (e : Env K) (hD : Deriv e.D) (h : MetricOK e) : ProdRuleInv e := by
  intro c a j
  have h1 : e.D c (∑ i, e.gammaup3 a i * e.gammadown3 i j) = 0 := by
    rw [h.hinv a j]; unfold delta; split_ifs
    · exact hD.one c
    · exact hD.zero c
  simp only [Fin.sum_univ_three, hD.add, hD.mul] at h1 ⊢
  linear_combination h1

/-- linear algebra: from `u·γ + w = 0` and `γ γ⁻¹ = 1` conclude `u = −w γ⁻¹`. -/
theorem solve_inv (gd gu : Fin 3 → Fin 3 → K) (hr : ∀ i b, ∑ j, gd i j * gu j b = delta i b)
    (u w : Fin 3 → K) (hyp : ∀ j, ∑ i, u i * gd i j + w j = 0) (b : Fin 3) :
    u b = -∑ j, w j * gu j b := by
  have e0 := hyp 0; have e1 := hyp 1; have e2 := hyp 2
  have r0 := hr 0 b; have r1 := hr 1 b; have r2 := hr 2 b
  revert b
  cases3 <;>
    (intro r0 r1 r2
     simp only [delta, Fin.sum_univ_three] at e0 e1 e2 r0 r1 r2 ⊢
     simp at r0 r1 r2
     first
     | linear_combination gu 0 0 * e0 + gu 1 0 * e1 + gu 2 0 * e2 - u 0 * r0 - u 1 * r1 - u 2 * r2
     | linear_combination gu 0 1 * e0 + gu 1 1 * e1 + gu 2 1 * e2 - u 0 * r0 - u 1 * r1 - u 2 * r2
     | linear_combination gu 0 2 * e0 + gu 1 2 * e1 + gu 2 2 * e2 - u 0 * r0 - u 1 * r1 - u 2 * r2)

/-- `∂_c γ^{ab} = −γ^{ai} (∂_c γ_ij) γ^{jb}`. -/
theorem d_gammaup (e : Env K) (h : MetricOK e) (hp : ProdRuleInv e) (c a b : Fin 3) :
    e.D c (e.gammaup3 a b) = -∑ j, (∑ i, e.gammaup3 a i * e.D c (e.gammadown3 i j)) * e.gammaup3 j b := by
  refine solve_inv e.gammadown3 e.gammaup3 (fun i b => ?_) (fun i => e.D c (e.gammaup3 a i))
    (fun j => ∑ i, e.gammaup3 a i * e.D c (e.gammadown3 i j)) (fun j => ?_) b
  · have := h.hr' e b i; rw [this]; unfold delta; simp only [eq_comm]
  · have := hp c a j
    simp only [Fin.sum_univ_three] at this ⊢
    linear_combination this

/-- **T8 ('uu')** the inverse metric is covariantly constant: the code's `s_covd(γ⁻¹, 'uu')` vanishes.
Layer B: uses the product rule for γ⁻¹γ = 1. -/
theorem metric_compat_uu (e : Env K) (h : MetricOK e) (h2 : (2 : K) ≠ 0) (hp : ProdRuleInv e)
    (c a b : Fin 3) : s_covd_uu e e.gammaup3 c a b = 0 := by
  rw [s_covd_uu_spec]
  simp only [covdUU, pd2, d_gammaup e h hp, h.hG, s_Gamma_udd3_spec e h.hs, christoffel2, christoffel1,
    Fin.sum_univ_three, h.hs 1 0, h.hs 2 0, h.hs 2 1, h.hs c 0, h.hs c 1, h.hs c 2, h.hsu b 0, h.hsu b 1, h.hsu b 2, h.hsu a 0, h.hsu a 1,
    h.hsu a 2, h.hsu 1 0, h.hsu 2 0, h.hsu 2 1]
  field_simp
  ring

/-- the product rule for `v^a = γ^{ab} v_b`. -/
def ProdRuleRaise (e : Env K) (v : Fin 3 → K) : Prop :=
  ∀ c a, e.D c (∑ b, e.gammaup3 a b * v b)
    = ∑ b, (e.D c (e.gammaup3 a b) * v b + e.gammaup3 a b * e.D c (v b))

theorem prodRuleRaise_of_deriv (e : Env K) (hD : Deriv e.D) (v : Fin 3 → K) : ProdRuleRaise e v := by
  intro c a; simp only [Fin.sum_univ_three, hD.add, hD.mul]

/-- **T9 (rank 1)** raising the index commutes with the covariant derivative:
`s_covd(γ^{ab} v_b, 'u')_c{}^a = γ^{ab} s_covd(v, 'd')_{cb}`.  Layer B. -/
theorem raise_commutes (e : Env K) (h : MetricOK e) (h2 : (2 : K) ≠ 0) (hp : ProdRuleInv e)
    (v : Fin 3 → K) (hv : ProdRuleRaise e v) (c a : Fin 3) :
    s_covd_u e (fun a => ∑ b, e.gammaup3 a b * v b) c a = ∑ b, e.gammaup3 a b * s_covd_d e v c b := by
  have hv' : ∀ c a, e.D c (∑ b, e.gammaup3 a b * v b)
      = ∑ b, (e.D c (e.gammaup3 a b) * v b + e.gammaup3 a b * e.D c (v b)) := hv
  have m0 := metric_compat_uu e h h2 hp c a 0
  have m1 := metric_compat_uu e h h2 hp c a 1
  have m2 := metric_compat_uu e h h2 hp c a 2
  rw [s_covd_uu_spec] at m0 m1 m2
  rw [s_covd_u_exact]
  simp only [s_covd_d_spec, covdD, covdUU, pd1, pd2, hv'] at m0 m1 m2 ⊢
  have g1 := fun a => s_Gamma_udd3_symm e a 1 0
  have g2 := fun a => s_Gamma_udd3_symm e a 2 0
  have g3 := fun a => s_Gamma_udd3_symm e a 2 1
  have gc0 := fun a => s_Gamma_udd3_symm e a c 0
  have gc1 := fun a => s_Gamma_udd3_symm e a c 1
  have gc2 := fun a => s_Gamma_udd3_symm e a c 2
  rw [h.hG] at m0 m1 m2 ⊢
  simp only [Fin.sum_univ_three, gc0, gc1, gc2] at m0 m1 m2 ⊢
  linear_combination v 0 * m0 + v 1 * m1 + v 2 * m2

end AurelVerif.C05L
