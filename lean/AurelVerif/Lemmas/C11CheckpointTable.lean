/-
Lemmas/C11CheckpointTable.lean — C11: the table that `readCheckpoints` builds
over all requested iterations (`data['t']`, one column per variable), and the
composition with the restart selection of `read_ET_data`.
-/
import AurelVerif.Lemmas.C11Checkpoint
import AurelVerif.Lemmas.C11Restarts
namespace AurelVerif.CheckpointLemmas
open AurelVerif.Chunks AurelVerif.ChunksLemmas AurelVerif.Checkpoint AurelVerif.CheckpointSpec
open AurelVerif.Restarts AurelVerif.RestartsLemmas
set_option linter.unusedSimpArgs false
set_option linter.unusedVariables false

/-! ### dictionaries keyed through an injective name map -/

theorem get?_keyed {β : Type} (l : List String) (key : String → String) (C : String → β)
    (hinj : ∀ a ∈ l, ∀ b ∈ l, key a = key b → a = b) (a : String) (ha : a ∈ l) :
    Dict.get? (l.map fun v => (key v, C v)) (key a) = some (C a) := by
  induction l with
  | nil => cases ha
  | cons v rest ih =>
    simp only [List.map_cons, Dict.get?]
    by_cases e : key v = key a
    · have : v = a := hinj v (List.mem_cons_self ..) a ha e
      simp [e, this]
    · simp only [e, if_false]
      rcases List.mem_cons.mp ha with h | h
      · exact absurd (by rw [h]) e
      · exact ih (fun x hx y hy => hinj x (List.mem_cons_of_mem _ hx) y (List.mem_cons_of_mem _ hy)) h

theorem get?_keyed_none {β : Type} (l : List String) (key : String → String) (C : String → β) (k : String)
    (h : ∀ a ∈ l, key a ≠ k) : Dict.get? (l.map fun v => (key v, C v)) k = none := by
  induction l with
  | nil => rfl
  | cons v rest ih =>
    simp only [List.map_cons, Dict.get?, h v (List.mem_cons_self ..), if_false]
    exact ih (fun a ha => h a (List.mem_cons_of_mem _ ha))

theorem set_keyed {β : Type} (l : List String) (hn : l.Nodup) (key : String → String) (C : String → β)
    (hinj : ∀ a ∈ l, ∀ b ∈ l, key a = key b → a = b) (a : String) (ha : a ∈ l) (x : β) :
    Dict.set (l.map fun v => (key v, C v)) (key a) x = l.map fun v => (key v, if v = a then x else C v) := by
  induction l with
  | nil => cases ha
  | cons v rest ih =>
    simp only [List.nodup_cons] at hn
    simp only [List.map_cons, Dict.set]
    by_cases e : key v = key a
    · have hva : v = a := hinj v (List.mem_cons_self ..) a ha e
      subst hva
      simp only [if_true, List.cons.injEq, true_and]
      apply List.map_congr_left
      intro w hw
      have : w ≠ v := fun e' => hn.1 (e' ▸ hw)
      simp [this]
    · have hva : v ≠ a := fun e' => e (by rw [e'])
      simp only [e, hva, if_false, List.cons.injEq, true_and]
      rcases List.mem_cons.mp ha with h | h
      · exact absurd h.symm hva
      · exact ih hn.2 (fun x hx y hy => hinj x (List.mem_cons_of_mem _ hx) y (List.mem_cons_of_mem _ hy)) h

theorem get?_mem_ck {κ β : Type} [DecidableEq κ] {d : Dict κ β} {k : κ} {v : β} (h : d.get? k = some v) :
    (k, v) ∈ d := by
  induction d with
  | nil => simp [Dict.get?] at h
  | cons kv rest ih =>
    obtain ⟨k', v'⟩ := kv
    simp only [Dict.get?] at h
    split at h
    · rename_i e; cases h; subst e; exact List.mem_cons_self ..
    · exact List.mem_cons_of_mem _ (ih h)

theorem zip_map_self {γ δ : Type} (l : List γ) (g : γ → δ) : l.zip (l.map g) = l.map fun v => (v, g v) := by
  induction l with
  | nil => rfl
  | cons x xs ih => simp [ih]

/-! ### `addIt` -/

/-- first iteration that has files: the columns are created, in the order of `var` -/
theorem addIt_first {α : Type} (toAurel : String → String) (var : List String) (hn : var.Nodup)
    (hinj : ∀ a ∈ var, ∀ b ∈ var, toAurel a = toAurel b → a = b) (ht : ∀ v ∈ var, toAurel v ≠ "t")
    (t : Nat) (g : String → Arr3 α) :
    addIt toAurel var [("t", [])] t (var.map g)
      = ("t", [Cell.t t]) :: var.map fun v => (toAurel v, [Cell.arr (g v)]) := by
  unfold addIt
  rw [zip_map_self]
  have h0 : colAppend [("t", ([] : List (Cell α)))] "t" (Cell.t t) = [("t", [Cell.t t])] := by
    simp [colAppend, Dict.get?, Dict.set]
  rw [h0]
  -- creating the columns one after the other
  have : ∀ (vs : List String) (d : Dict String (List (Cell α))), vs.Nodup →
      (∀ a ∈ vs, ∀ b ∈ vs, toAurel a = toAurel b → a = b) → (∀ v ∈ vs, toAurel v ∉ d.map Prod.fst) →
      (vs.map fun v => (v, g v)).foldl (fun d va => colAppend d (toAurel va.1) (Cell.arr va.2)) d
        = d ++ vs.map fun v => (toAurel v, [Cell.arr (g v)]) := by
    intro vs
    induction vs with
    | nil => intro d _ _ _; simp
    | cons v rest ih =>
      intro d hnd hi hfresh
      simp only [List.nodup_cons] at hnd
      simp only [List.map_cons, List.foldl_cons]
      have hk := hfresh v (List.mem_cons_self ..)
      have hget : d.get? (toAurel v) = none := by
        cases hg : d.get? (toAurel v) with
        | none => rfl
        | some x =>
          exact absurd (List.mem_map.mpr ⟨(toAurel v, x), get?_mem_ck hg, rfl⟩) hk
      have hstep : colAppend d (toAurel v) (Cell.arr (g v)) = d ++ [(toAurel v, [Cell.arr (g v)])] := by
        simp only [colAppend, hget]
        exact set_of_not_mem d _ _ hk
      rw [hstep, ih (d ++ [(toAurel v, [Cell.arr (g v)])]) hnd.2
        (fun a ha b hb => hi a (List.mem_cons_of_mem _ ha) b (List.mem_cons_of_mem _ hb))]
      · simp [List.append_assoc]
      · intro w hw hm
        rw [List.map_append, List.mem_append] at hm
        rcases hm with hm | hm
        · exact hfresh w (List.mem_cons_of_mem _ hw) hm
        · simp only [List.map_cons, List.map_nil, List.mem_singleton] at hm
          have := hi w (List.mem_cons_of_mem _ hw) v (List.mem_cons_self ..) hm
          exact hnd.1 (this ▸ hw)
  rw [this var _ hn hinj (by
    intro v hv hm
    simp only [List.map_cons, List.map_nil, List.mem_singleton] at hm
    exact ht v hv hm)]
  rfl

/-- every later iteration: one entry is appended to `'t'` and to every column -/
theorem addIt_next {α : Type} (toAurel : String → String) (var : List String) (hn : var.Nodup)
    (hinj : ∀ a ∈ var, ∀ b ∈ var, toAurel a = toAurel b → a = b) (ht : ∀ v ∈ var, toAurel v ≠ "t")
    (T : List (Cell α)) (C : String → List (Cell α)) (t : Nat) (g : String → Arr3 α) :
    addIt toAurel var (("t", T) :: var.map fun v => (toAurel v, C v)) t (var.map g)
      = ("t", T ++ [Cell.t t]) :: var.map fun v => (toAurel v, C v ++ [Cell.arr (g v)]) := by
  unfold addIt
  rw [zip_map_self]
  have h0 : colAppend (("t", T) :: var.map fun v => (toAurel v, C v)) "t" (Cell.t t)
      = ("t", T ++ [Cell.t t]) :: var.map fun v => (toAurel v, C v) := by
    simp [colAppend, Dict.get?, Dict.set]
  rw [h0]
  have : ∀ (vs : List String), vs.Nodup → (∀ v ∈ vs, v ∈ var) → ∀ (C' : String → List (Cell α)) (T' : List (Cell α)),
      (vs.map fun v => (v, g v)).foldl (fun d va => colAppend d (toAurel va.1) (Cell.arr va.2))
          (("t", T') :: var.map fun v => (toAurel v, C' v))
        = ("t", T') :: var.map fun v => (toAurel v, if v ∈ vs then C' v ++ [Cell.arr (g v)] else C' v) := by
    intro vs
    induction vs with
    | nil => intro _ _ C' T'; simp
    | cons v rest ih =>
      intro hnd hsub C' T'
      simp only [List.nodup_cons] at hnd
      have hv := hsub v (List.mem_cons_self ..)
      simp only [List.map_cons, List.foldl_cons]
      have hne : ¬ ("t" = toAurel v) := fun e => ht v hv e.symm
      have hstep : colAppend (("t", T') :: var.map fun v => (toAurel v, C' v)) (toAurel v) (Cell.arr (g v))
          = ("t", T') :: var.map fun w => (toAurel w, if w = v then C' v ++ [Cell.arr (g v)] else C' w) := by
        simp only [colAppend, Dict.get?, hne, if_false, get?_keyed var toAurel C' hinj v hv, Dict.set]
        rw [set_keyed var hn toAurel C' hinj v hv]
      rw [hstep, ih hnd.2 (fun w hw => hsub w (List.mem_cons_of_mem _ hw))]
      congr 1
      apply List.map_congr_left
      intro w _
      by_cases e : w = v
      · subst e; simp [hnd.1]
      · simp [e]
  rw [this var hn (fun _ h => h) C (T ++ [Cell.t t])]
  congr 1
  apply List.map_congr_left
  intro v hv
  simp [hv]

/-! ### all iterations -/

theorem insertNat_ne_nil (x : Nat) (l : List Nat) : insertNat x l ≠ [] := by
  cases l with
  | nil => simp [insertNat]
  | cons y ys => simp only [insertNat]; split <;> simp

theorem sortedSet_ne_nil (its : List Nat) (h : its ≠ []) : sortedSet its ≠ [] := by
  cases its with
  | nil => exact absurd rfl h
  | cons a as =>
    unfold sortedSet
    rw [List.eraseDups_cons]
    simp only [sortNat]
    exact insertNat_ne_nil _ _

theorem readCheckpointsCore_good {α : Type} (toAurel : String → String) (files : List (CFile α)) (var : List String)
    (hn : var.Nodup) (hvar : var ≠ []) (hinj : ∀ a ∈ var, ∀ b ∈ var, toAurel a = toAurel b → a = b)
    (ht : ∀ v ∈ var, toAurel v ≠ "t") (its : List Nat) (hits : its ≠ []) (rl : Nat)
    (A : Nat → String → Arr3 α) (tm : Nat → Nat)
    (hgood : ∀ iit ∈ sortedSet its, GoodItAuto files iit rl var (A iit) (tm iit)) :
    readCheckpointsCore toAurel files var its rl
      = some ⟨sortedSet its, ("t", (sortedSet its).map fun i => Cell.t (tm i))
          :: var.map fun v => (toAurel v, (sortedSet its).map fun i => Cell.arr (fixij (A i v)))⟩ := by
  unfold readCheckpointsCore
  have hs := sortedSet_ne_nil its hits
  generalize sortedSet its = s at hs hgood
  cases s with
  | nil => exact absurd rfl hs
  | cons i0 rest =>
    have hstep : ∀ iit ∈ i0 :: rest, readItAuto files iit rl var
        = some (some (tm iit, var.map fun v => fixij (A iit v))) :=
      fun iit hi => readItAuto_good files iit rl var hn hvar (A iit) (tm iit) (hgood iit hi)
    simp only [List.foldlM_cons, itStep, hstep i0 (List.mem_cons_self ..), Option.bind_eq_bind, Option.bind_some]
    rw [addIt_first toAurel var hn hinj ht]
    -- the remaining iterations append
    have : ∀ (r : List Nat) (p : List Nat), (∀ iit ∈ r, readItAuto files iit rl var
          = some (some (tm iit, var.map fun v => fixij (A iit v)))) →
        r.foldlM (itStep toAurel files rl var)
          (("t", p.map fun i => Cell.t (tm i)) :: var.map fun v => (toAurel v, p.map fun i => Cell.arr (fixij (A i v))))
        = some (("t", (p ++ r).map fun i => Cell.t (tm i))
            :: var.map fun v => (toAurel v, (p ++ r).map fun i => Cell.arr (fixij (A i v)))) := by
      intro r
      induction r with
      | nil => intro p _; simp
      | cons i r' ih =>
        intro p hr
        simp only [List.foldlM_cons, itStep, hr i (List.mem_cons_self ..), Option.bind_eq_bind, Option.bind_some]
        rw [addIt_next toAurel var hn hinj ht]
        have := ih (p ++ [i]) (fun j hj => hr j (List.mem_cons_of_mem _ hj))
        simp only [List.map_append, List.map_cons, List.map_nil, List.append_assoc, List.singleton_append] at this ⊢
        exact this
    have h := this rest [i0] (fun iit hi => hstep iit (List.mem_cons_of_mem _ hi))
    simp only [List.map_cons, List.map_nil, List.singleton_append] at h
    rw [h]
    rfl

/-! ### the request list is de-duplicated first -/

theorem nodup_eraseDups_str : ∀ (l : List String), l.eraseDups.Nodup
  | [] => by simp
  | a :: as => by
    rw [List.eraseDups_cons]
    have : (as.filter fun b => !b == a).length < as.length + 1 := Nat.lt_succ_of_le (List.length_filter_le _ _)
    refine List.nodup_cons.mpr ⟨?_, nodup_eraseDups_str _⟩
    rw [List.mem_eraseDups]; simp
termination_by l => l.length

theorem goodFile_congr {α : Type} {cmax : CMax} {f : CFile α} {iit rl : Nat} {var var' : List String}
    {sel : String → List (DSet α)} (hv : ∀ v, v ∈ var' → v ∈ var) (h : GoodFile cmax f iit rl var sel) :
    GoodFile cmax f iit rl var' sel := by
  cases h with
  | single hc hne hnoc huniq => exact GoodFile.single hc hne hnoc (fun v h => huniq v (hv v h))
  | chunked n hc hn hcs hmax huniq => exact GoodFile.chunked n hc hn hcs hmax (fun v h => huniq v (hv v h))
  | perproc m k hc hk huniq => exact GoodFile.perproc m k hc hk (fun v h => huniq v (hv v h))

theorem goodIt_congr {α : Type} {cmax : CMax} {files : List (CFile α)} {iit rl : Nat} {var var' : List String}
    {A : String → Arr3 α} {tm : Nat} (hv : ∀ v, v ∈ var' → v ∈ var) (h : GoodIt cmax files iit rl var A tm) :
    GoodIt cmax files iit rl var' A tm := by
  obtain ⟨sel, nz, ny, nx, D, base, gx, gy, gz, hF, hgood, hgx, hgy, hgz, hz, hy, hx, hD, hphys⟩ := h
  exact ⟨sel, nz, ny, nx, D, base, gx, gy, gz, hF, fun f hf => goodFile_congr hv (hgood f hf),
    hgx, hgy, hgz, hz, hy, hx, hD, fun v h => hphys v (hv v h)⟩

theorem goodItAuto_congr {α : Type} {files : List (CFile α)} {iit rl : Nat} {var var' : List String}
    {A : String → Arr3 α} {tm : Nat} (hv : ∀ v, v ∈ var' → v ∈ var) (h : GoodItAuto files iit rl var A tm) :
    GoodItAuto files iit rl var' A tm := by
  obtain ⟨cmax, hl, hg⟩ := h
  exact ⟨cmax, hl, goodIt_congr hv hg⟩

/-- **any request list, duplicates included; any layout per iteration** -/
theorem readCheckpoints_good {α : Type} (toAurel : String → String) (files : List (CFile α)) (var : List String)
    (hvar : var ≠ []) (hinj : ∀ a ∈ var, ∀ b ∈ var, toAurel a = toAurel b → a = b)
    (ht : ∀ v ∈ var, toAurel v ≠ "t") (its : List Nat) (hits : its ≠ []) (rl : Nat)
    (A : Nat → String → Arr3 α) (tm : Nat → Nat)
    (hgood : ∀ iit ∈ sortedSet its, GoodItAuto files iit rl var (A iit) (tm iit)) :
    readCheckpoints toAurel files var its rl
      = some ⟨sortedSet its, ("t", (sortedSet its).map fun i => Cell.t (tm i))
          :: var.eraseDups.map fun v => (toAurel v, (sortedSet its).map fun i => Cell.arr (fixij (A i v)))⟩ := by
  unfold readCheckpoints
  have hm : ∀ v, v ∈ var.eraseDups → v ∈ var := fun v h => List.mem_eraseDups.mp h
  apply readCheckpointsCore_good toAurel files var.eraseDups (nodup_eraseDups_str var)
  · intro e
    obtain ⟨v, hv⟩ := List.exists_mem_of_ne_nil var hvar
    have : v ∈ var.eraseDups := List.mem_eraseDups.mpr hv
    rw [e] at this; cases this
  · exact fun a ha b hb => hinj a (hm a ha) b (hm b hb)
  · exact fun v hv => ht v (hm v hv)
  · exact hits
  · exact fun iit hi => goodItAuto_congr hm (hgood iit hi)

end AurelVerif.CheckpointLemmas
