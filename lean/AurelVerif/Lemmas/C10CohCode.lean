/-
Lemmas/C10CohCode.lean — property C10, coherence of the two constructions of `st_Weyl_down4`: the abstract results of
Lemmas/C10WeylParts.lean, C10Frame3p1.lean applied to the GENERATED formulas
(`st_Weyl_down4__st_Riemann_down4_*`, `eweyl_n_down3__dflt_*`, `bweyl_n_down3`, `nup4`, `levicivita_down4`).

`WeylCached e` = what the first construction reads, stated semantically: the cached `st_Riemann_down4` has the Riemann
symmetries and its `ijkl`, `ijkt` blocks are the code's Gauss and Codazzi expressions (true for every alternative of
`st_Riemann_down4`, whatever its `itjt` block), the cached `st_Ricci_down4`, `st_RicciS` are its contractions, the
inverse metric is the 3+1 form, `nup4` the code's normal.
-/
import AurelVerif.Lemmas.C10WeylParts
import AurelVerif.Lemmas.C10Alt1
import AurelVerif.Lemmas.C10EB
import AurelVerif.Lemmas.C10LC
import AurelVerif.Lemmas.C10B
import AurelVerif.Lemmas.C04CurvCode

set_option linter.unusedSimpArgs false
set_option linter.unusedVariables false
set_option linter.unusedSectionVars false

namespace AurelVerif.C10
open AurelVerif.Gen.Core AurelVerif.Tensor AurelVerif.CoreTac AurelVerif.Spec.Weyl
open AurelVerif.Spec.Curvature (Jet tsplit tsplit_0 tsplit_1 tsplit_2 tsplit_3 ricciDown codazzi gauss covdDD KK3)
open AurelVerif.C04L (tsplit_succ fin4_ts jetOf RssssE RssstE)

variable {K : Type} [Field K]

/-! ### bridges -/

/-- the generated normal is `(1, −β^i)/α`. -/
theorem nup4_is_nuJ (e : Env K) : nup4 e = nuJ (jetOf e) := by
  funext a; revert a
  cases4 <;> simp only [core_unfold, nuJ, jetOf, tsplit_0, tsplit_1, tsplit_2, tsplit_3]

/-- the generated Levi-Civita tensor is `[abcd]·√(−g)`. -/
theorem lc_down4_is_lc4 (e : Env K) : levicivita_down4 e = lc4 e (e.sqrtF (-e.gdet)) := by
  funext a b c d; exact lc_down4_spec e a b c d

/-- `lc3`, `bT1` are linear in the scale. -/
theorem lc3_scale (e : Env K) (a s : K) (i f j : Fin 3) : lc3 e (a * s) i f j = a * lc3 e s i f j := by
  unfold lc3; ring

theorem bT1_scale (e : Env K) (a s : K) (γup : Fin 3 → Fin 3 → K) (DK : Fin 3 → Fin 3 → Fin 3 → K) (i j : Fin 3) :
    bT1 e (a * s) γup DK i j = a * bT1 e s γup DK i j := by
  simp only [bT1, epsUud3, lc3_scale, Fin.sum_univ_three]; ring

/-! ### trace-free part: linearity -/

theorem tracefree_lin (h3ne : (3 : K) ≠ 0) (γup γ X S : Fin 3 → Fin 3 → K) (c d : K)
    (h3 : ∑ i, ∑ j, γup i j * γ i j = 3) (i j : Fin 3) :
    tracefree γup γ (fun i j => X i j + c * S i j + d * γ i j) i j
      = tracefree γup γ X i j + c * tracefree γup γ S i j := by
  have ht : (1 / 3 : K) * 3 = 1 := by field_simp
  unfold tracefree
  generalize (1 / 3 : K) = t at ht ⊢
  simp only [Fin.sum_univ_three] at h3 ⊢
  linear_combination (-(t * d * γ i j)) * h3 - (d * γ i j) * ht

/-! ### the stress tensor on the slice is the spatial block of `Tdown4` -/

theorem stressdown_is_T (e : Env K) (hu : e.Stressup3_n = Stressup3_n e)
    (hinv : ∀ p c, ∑ a, e.gammaup3 p a * e.gammadown3 a c = if p = c then 1 else 0) :
    ∀ i j : Fin 3, Stressdown3_n e i j = e.Tdown4 i.succ j.succ := by
  have key : ∀ (i j : Fin 3), Stressdown3_n e i j
      = ∑ p, ∑ q, (∑ a, e.gammaup3 p a * e.gammadown3 a i) * (∑ b, e.gammaup3 q b * e.gammadown3 b j)
          * e.Tdown4 p.succ q.succ := by
    cases3 <;> cases3 <;>
      (simp only [Stressdown3_n, ↓vec3_0, ↓vec3_1, ↓vec3_2, hu]
       simp only [Stressup3_n, ↓vec3_0, ↓vec3_1, ↓vec3_2, Fin.sum_univ_three, succ3_0, succ3_1, succ3_2]
       ring)
  intro i j
  rw [key i j]
  simp only [hinv]
  simp

/-! ### what the first construction reads -/

/-- the cached Riemann tensor and the metric entries. -/
structure RiemCached (e : Env K) : Prop where
  lc : (jetOf e).LeviCivita
  asm : C08.Assembled e
  hgup : ∀ a b, e.gup4 a b = (jetOf e).gup3p1 a b
  hnu : e.nup4 = nup4 e
  hRsym : Spec.Curvature.RiemannSym e.st_Riemann_down4
  hRA : ∀ i j k l : Fin 3, e.st_Riemann_down4 i.succ j.succ k.succ l.succ = RssssE e i j k l
  hRB : ∀ i j k : Fin 3, e.st_Riemann_down4 i.succ j.succ k.succ 0 = RssstE e i j k

/-- … and the cached Ricci tensor and scalar are ITS contractions. -/
structure WeylCached (e : Env K) : Prop extends RiemCached e where
  hRic : ∀ a b, e.st_Ricci_down4 a b = ricciDown e.gup4 e.st_Riemann_down4 a b
  hRS : e.st_RicciS = ∑ b, ∑ d, e.gup4 b d * e.st_Ricci_down4 b d

section
variable {e : Env K}

theorem RiemCached.gup (C : RiemCached e) : e.gup4 = (jetOf e).gup3p1 := by
  funext a b; exact C.hgup a b

theorem RiemCached.blocks (C : RiemCached e) : Blocks (jetOf e) e.st_Riemann_down4 (RssssE e) (RssstE e) :=
  ⟨C.lc, C.hRsym, C.hRA, C.hRB⟩

/-- the Weyl expression of the cached Riemann tensor with its own Ricci tensor and scalar. -/
def weylOfCached (e : Env K) : Fin 4 → Fin 4 → Fin 4 → Fin 4 → K := weylOf (jetOf e) e.st_Riemann_down4

/-- the first construction (matter branch) is the Weyl expression of the cached Riemann tensor with ITS OWN Ricci
tensor and scalar. -/
theorem WeylCached.alt1_eq (C : WeylCached e) :
    st_Weyl_down4__st_Riemann_down4_matter e = weylOfCached e := by
  have hRic : e.st_Ricci_down4 = ricciDown (jetOf e).gup3p1 e.st_Riemann_down4 := by
    funext a b; rw [C.hRic a b, C.toRiemCached.gup]
  have hRS : e.st_RicciS
      = ∑ b, ∑ d, (jetOf e).gup3p1 b d * ricciDown (jetOf e).gup3p1 e.st_Riemann_down4 b d := by
    rw [C.hRS, hRic, C.toRiemCached.gup]
  funext a b c d
  rw [alt1_matter_spec e a b c d, C04L.gdown4_is_metric3p1 e C.asm, hRS, hRic]
  rfl

/-- a Ricci-flat tensor is its own Weyl expression: the first construction with `vacuum = True`. -/
theorem RiemCached.vacuum_eq (C : RiemCached e) (h0 : ∀ a b, ricciDown e.gup4 e.st_Riemann_down4 a b = 0) :
    st_Weyl_down4__st_Riemann_down4_vacuum e = weylOfCached e := by
  have hRic : ricciDown (jetOf e).gup3p1 e.st_Riemann_down4 = fun _ _ => 0 := by
    funext a b; rw [← C.gup]; exact h0 a b
  funext a b c d
  rw [alt1_vacuum_spec e a b c d]
  simp only [weylOfCached, weylOf, weyl, hRic, mul_zero, Finset.sum_const_zero, sub_zero, zero_mul, add_zero, sub_self]

/-- `γ^{kl}` (Gauss block)`_kilj = ³R_ij + K K_ij − K_ia K_bj γ^{ab}` on the cached entries. -/
theorem gauss_contract_code (C : RiemCached e) (hKtr : e.Ktrace = Ktrace e)
    (hRic3 : ∀ i j, e.s_Ricci_down3 i j = ricciDown e.gammaup3 e.s_Riemann_down3 i j) (i j : Fin 3) :
    ∑ k, ∑ l, e.gammaup3 k l * RssssE e k i l j = eweylCore e.gammaup3 e.s_Ricci_down3 e.Kdown3 e.Ktrace i j := by
  have h := Jet.gauss_contract (jetOf e) C.lc e.s_Riemann_down3 i j
  have hk := C08.Ktrace_spec e
  have hK : ∀ a b, e.Kdown3 a b = e.Kdown3 b a := C.lc.symK
  show ∑ k, ∑ l, (jetOf e).gamup k l * gauss e.s_Riemann_down3 (jetOf e).Kd k i l j = _
  rw [h, hKtr, hk]
  simp only [eweylCore, KK3, jetOf, hRic3, Fin.sum_univ_three, hK j 0, hK j 1, hK j 2]
  ring

theorem RiemCached.gamInv (C : RiemCached e) :
    ∀ p c, ∑ a, e.gammaup3 p a * e.gammadown3 a c = if p = c then 1 else 0 := by
  intro p c
  have := Jet.gam_mul_gamup (jetOf e) C.lc c p
  unfold delta at this
  rw [show (if p = c then (1 : K) else 0) = if c = p then 1 else 0 by simp only [eq_comm], ← this]
  refine Finset.sum_congr rfl fun a _ => ?_
  have h1 : e.gammaup3 p a = e.gammaup3 a p := Jet.gamup_symm (jetOf e) C.lc p a
  have h2 : e.gammadown3 a c = e.gammadown3 c a := C.lc.symg a c
  show e.gammaup3 p a * e.gammadown3 a c = e.gammadown3 c a * e.gammaup3 a p
  rw [h1, h2]; exact mul_comm _ _

/-- **(1) electric part of the Weyl expression of the cached Riemann tensor, `vacuum = False`** (exact algebra;
characteristic ≠ 2, 3): it is `eweyl_n_down3` as the code evaluates it, when the spatial block of the Ricci contraction
is of the Einstein-equation form `Λγ_ij + κ(T_ij − ½ T γ_ij)` (any number `T`) and `Stressdown3_n` came from `Tdown4`. -/
theorem riem_electric_matter (C : RiemCached e) (h3 : (3 : K) ≠ 0) (hKtr : e.Ktrace = Ktrace e)
    (hRic3 : ∀ i j, e.s_Ricci_down3 i j = ricciDown e.gammaup3 e.s_Riemann_down3 i j)
    (Ttr : K) (hR3 : ∀ i j : Fin 3, ricciDown e.gup4 e.st_Riemann_down4 i.succ j.succ
        = e.Lambda * e.gammadown3 i j + e.kappa * (e.Tdown4 i.succ j.succ - (1 / 2) * Ttr * e.gammadown3 i j))
    (hSd : e.Stressdown3_n = Stressdown3_n e) (hSu : e.Stressup3_n = Stressup3_n e) (i j : Fin 3) :
    eweylU (weylOfCached e) e.nup4 i.succ j.succ = eweyl_n_down3__dflt_matter e i j := by
  have h33 : ∑ i, ∑ j, e.gammaup3 i j * e.gammadown3 i j = 3 := gam_trace3 (jetOf e) C.lc
  have hS : ∀ i j : Fin 3, e.Stressdown3_n i j = e.Tdown4 i.succ j.succ := by
    rw [hSd]; exact stressdown_is_T e hSu C.gamInv
  have hRic : ∀ i j : Fin 3, ricciDown (jetOf e).gup3p1 e.st_Riemann_down4 i.succ j.succ
      = ricciDown e.gup4 e.st_Riemann_down4 i.succ j.succ := fun i j => by rw [C.gup]
  rw [weylOfCached, C.hnu, nup4_is_nuJ, weyl_electric_tf C.blocks h3 i j, eweyl_n_matter_spec]
  simp only [eweylN, Bool.false_eq_true, if_false]
  have hY : (fun i j : Fin 3 => ∑ k, ∑ l, (jetOf e).gamup k l * RssssE e k i l j
        - (1 / 2) * ricciDown (jetOf e).gup3p1 e.st_Riemann_down4 i.succ j.succ)
      = fun i j => eweylCore e.gammaup3 e.s_Ricci_down3 e.Kdown3 e.Ktrace i j
          + (-(1 / 2) * e.kappa) * e.Stressdown3_n i j
          + (-(1 / 2) * e.Lambda + (1 / 2) * (1 / 2) * e.kappa * Ttr) * e.gammadown3 i j := by
    funext i j
    rw [hRic i j, hR3 i j, hS i j, ← gauss_contract_code C hKtr hRic3 i j]
    show ∑ k, ∑ l, e.gammaup3 k l * RssssE e k i l j - _ = _
    ring
  rw [hY]
  show tracefree e.gammaup3 e.gammadown3 _ i j = _
  rw [tracefree_lin h3 e.gammaup3 e.gammadown3 _ _ _ _ h33 i j]
  ring

/-- **(1) … `vacuum = True`**: when the spatial block of the Ricci contraction vanishes. -/
theorem riem_electric_vacuum (C : RiemCached e) (h3 : (3 : K) ≠ 0) (hKtr : e.Ktrace = Ktrace e)
    (hRic3 : ∀ i j, e.s_Ricci_down3 i j = ricciDown e.gammaup3 e.s_Riemann_down3 i j)
    (hR0 : ∀ i j : Fin 3, ricciDown e.gup4 e.st_Riemann_down4 i.succ j.succ = 0) (i j : Fin 3) :
    eweylU (weylOfCached e) e.nup4 i.succ j.succ = eweyl_n_down3__dflt_vacuum e i j := by
  rw [weylOfCached, C.hnu, nup4_is_nuJ, weyl_electric_tf C.blocks h3 i j, eweyl_n_vacuum_spec]
  simp only [eweylN, if_true]
  have hY : (fun i j : Fin 3 => ∑ k, ∑ l, (jetOf e).gamup k l * RssssE e k i l j
        - (1 / 2) * ricciDown (jetOf e).gup3p1 e.st_Riemann_down4 i.succ j.succ)
      = eweylCore e.gammaup3 e.s_Ricci_down3 e.Kdown3 e.Ktrace := by
    funext i j
    rw [← C.gup, hR0 i j, ← gauss_contract_code C hKtr hRic3 i j]
    show ∑ k, ∑ l, e.gammaup3 k l * RssssE e k i l j - _ = _
    ring
  rw [hY]; rfl

/-! ### magnetic part -/

/-- **(2) magnetic part of the Weyl expression of the cached Riemann tensor** (either vacuum flag):
`½ C_abcd ε^{cd}{}_{ef} n^b n^f |_{ij} = bweyl_n_down3` as the code evaluates it, when the two traces commute with the
code's covariant derivative (`H1`, `H2`: Layer B, see `covd_trace_dd`, `covd_trace_ud`) and `√(−g) = α √γ` (the lapse
is positive). -/
theorem riem_magnetic (C : RiemCached e) (hs : e.sqrtF (-e.gdet) = e.alpha * e.sqrtF e.gammadet)
    (H1 : ∀ c, ∑ a, ∑ d, e.gammaup3 a d * s_covd_dd e e.Kdown3 c d a = s_covd_scalar e e.Ktrace c)
    (H2 : ∀ d, ∑ c, ∑ e', e.gammaup3 c e' * s_covd_dd e e.Kdown3 c e' d = ∑ k, s_covd_ud e (Kmixed e) k k d)
    (i j : Fin 3) :
    bweylU (weylOfCached e) e.nup4 (epsUudd e.gup4 (levicivita_down4 e)) i.succ j.succ = bweyl_n_down3 e i j := by
  have hinv : ∀ a e', ∑ c, e.gammadown3 a c * e.gammaup3 c e' = if a = e' then 1 else 0 :=
    fun a e' => Jet.gam_mul_gamup (jetOf e) C.lc a e'
  have hDKeq : s_covd_dd e e.Kdown3 = covdDD e.D e.s_Gamma_udd3 e.Kdown3 := by
    funext a b c; exact C04L.s_covd_dd_spec e e.Kdown3 a b c
  have hDK : ∀ c d a, covdDD e.D e.s_Gamma_udd3 e.Kdown3 c d a = covdDD e.D e.s_Gamma_udd3 e.Kdown3 c a d := by
    intro c d a
    have hK : ∀ a b, e.Kdown3 a b = e.Kdown3 b a := C.lc.symK
    simp only [covdDD, hK d a, hK _ a, hK d _]
    ring
  have hW : ∀ d, s_covd_scalar e e.Ktrace d - ∑ k, s_covd_ud e (Kmixed e) k k d
      = bW e.gammaup3 (covdDD e.D e.s_Gamma_udd3 e.Kdown3) d := fun d => by
    rw [← H1 d, ← H2 d, hDKeq]; rfl
  have hm := weyl_magnetic_codazzi e (e.sqrtF (-e.gdet)) (covdDD e.D e.s_Gamma_udd3 e.Kdown3) C.blocks rfl hDK i j
  rw [weylOfCached, C.hnu, nup4_is_nuJ, C.gup, lc_down4_is_lc4, hm, hs]
  rw [bweyl_n_matches, show levicivita_down3 e = lc3 e (e.sqrtF e.gammadet) from by
    funext a b c; exact lc_down3_spec e a b c,
    bweylN_split e _ e.gammaup3 e.gammadown3 _ _ _ hinv i j, hDKeq]
  simp only [hW, lc3_scale, bT1_scale]
  have ha : e.alpha ≠ 0 := C.lc.ha
  show 1 / e.alpha * _ = _
  simp only [jetOf]
  have hsum : ∑ d, (∑ f, e.gammaup3 d f * (e.alpha * lc3 e (e.sqrtF e.gammadet) i f j))
        * bW e.gammaup3 (covdDD e.D e.s_Gamma_udd3 e.Kdown3) d
      = e.alpha * ∑ d, (∑ f, e.gammaup3 d f * lc3 e (e.sqrtF e.gammadet) i f j)
        * bW e.gammaup3 (covdDD e.D e.s_Gamma_udd3 e.Kdown3) d := by
    simp only [Fin.sum_univ_three]; ring
  rw [hsum]
  field_simp

/-! ### the spatial Ricci block of `populate(Gauss, Codazzi, Mainardi(r))` is `r` -/

/-- if the `itjt` block of a tensor with the Riemann symmetries, Gauss `ijkl` block and `ijkt` block `B` is the coded
Mainardi expression with the numbers `r i j` in place of the 4-Ricci tensor, then the spatial block of ITS Ricci
contraction is `r` (`α ≠ 0`). -/
theorem ricci_of_mainardi (J : Jet K) (h : J.LeviCivita) (R4 : Fin 4 → Fin 4 → Fin 4 → Fin 4 → K)
    (hR : Spec.Curvature.RiemannSym R4) (R3 : Fin 3 → Fin 3 → Fin 3 → Fin 3 → K) (B : Fin 3 → Fin 3 → Fin 3 → K)
    (hA : ∀ i j k l : Fin 3, R4 i.succ j.succ k.succ l.succ = gauss R3 J.Kd i j k l)
    (hB : ∀ i j k : Fin 3, R4 i.succ j.succ k.succ 0 = B i j k) (r : Fin 3 → Fin 3 → K)
    (hC : ∀ i j : Fin 3, R4 i.succ 0 j.succ 0
        = Spec.Curvature.mainardi J.alpha J.beta (gauss R3 J.Kd) B (ricciDown J.gamup R3) (KK3 J.gamup J.Kd) J.Kd
            (∑ k, ∑ l, J.gamup k l * J.Kd k l) r i j) (i j : Fin 3) :
    ricciDown J.gup3p1 R4 i.succ j.succ = r i j := by
  have m := Jet.mainardi_block J h R4 hR R3 B hA hB (fun i j => ricciDown J.gup3p1 R4 i.succ j.succ)
    (fun _ _ => rfl) i j
  rw [hC i j] at m
  simp only [Spec.Curvature.mainardi] at m
  have h0 : J.alpha ^ 2 * (ricciDown J.gup3p1 R4 i.succ j.succ - r i j) = 0 := by linear_combination m
  exact sub_eq_zero.mp ((mul_eq_zero.mp h0).resolve_left (pow_ne_zero 2 h.ha))

end

end AurelVerif.C10
