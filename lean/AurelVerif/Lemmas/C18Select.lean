/-
Lemmas/C18Select.lean — the selection of "one of the variables in this file"
in `iterations()` (`dataCore`): since repository fix 9f9bdbc the keys are
selected by their PARSED variable name.  The data part of a restart is a
closed-form function of the parsed keys of the representative variable alone;
nothing in it can raise when these keys carry a refinement level.
Core Lean only.
-/
import AurelVerif.Lemmas.CatalogScan

set_option linter.unusedSimpArgs false
set_option linter.unusedVariables false

namespace AurelVerif.CatalogLemmas
open AurelVerif.Catalog

/-- the keys of variable `varkey` among `keys`, with their parsed fields, in file order -/
def varKeys (varkey : Str) (keys : List Str) : List (Str × KeyInfo) :=
  keys.filterMap fun k => match parseKey k with
    | some i => if i.var == varkey then some (k, i) else none
    | none => none

theorem mem_varKeys {varkey : Str} {keys : List Str} {p : Str × KeyInfo} :
    p ∈ varKeys varkey keys ↔ p.1 ∈ keys ∧ parseKey p.1 = some p.2 ∧ p.2.var = varkey := by
  unfold varKeys
  rw [List.mem_filterMap]
  constructor
  · rintro ⟨k, hk, h⟩
    cases hp : parseKey k with
    | none => simp [hp] at h
    | some i =>
      simp only [hp] at h
      by_cases hv : (i.var == varkey) = true
      · rw [if_pos hv] at h
        injection h with h
        subst h
        exact ⟨hk, hp, by simpa using hv⟩
      · rw [if_neg hv] at h; cases h
  · rintro ⟨hk, hp, hv⟩
    refine ⟨p.1, hk, ?_⟩
    simp [hp, hv]

theorem isVarKey_true {varkey k : Str} (h : isVarKey varkey k = true) :
    ∃ i, parseKey k = some i ∧ (i.var == varkey) = true := by
  unfold isVarKey at h
  cases hp : parseKey k with
  | none => rw [hp] at h; cases h
  | some i => rw [hp] at h; exact ⟨i, rfl, h⟩

theorem varKeys_cons_pos {varkey k : Str} {i : KeyInfo} (ks : List Str) (hp : parseKey k = some i)
    (hv : (i.var == varkey) = true) : varKeys varkey (k :: ks) = (k, i) :: varKeys varkey ks := by
  simp only [varKeys, List.filterMap_cons, hp, hv, if_true]

theorem varKeys_cons_neg {varkey k : Str} (ks : List Str) (h : isVarKey varkey k = false) :
    varKeys varkey (k :: ks) = varKeys varkey ks := by
  unfold isVarKey at h
  cases hp : parseKey k with
  | none => simp [varKeys, hp]
  | some i =>
    rw [hp] at h
    have hv : (i.var == varkey) = false := h
    simp only [varKeys, List.filterMap_cons, hp, hv, Bool.false_eq_true, if_false]

/-- every selected key parses: `parse_hdf5_key(k)['it']` cannot raise -/
theorem mapM_selected (varkey : Str) : ∀ keys : List Str,
    (keys.filter (isVarKey varkey)).mapM (fun k => (parseKey k).map fun i => (k, i)) = some (varKeys varkey keys) := by
  intro keys
  induction keys with
  | nil => rfl
  | cons k ks ih =>
    by_cases h : isVarKey varkey k = true
    · obtain ⟨i, hp, hv⟩ := isVarKey_true h
      rw [List.filter_cons_of_pos h, varKeys_cons_pos ks hp hv, List.mapM_cons, hp, ih]
      rfl
    · have h' : isVarKey varkey k = false := by simpa using h
      rw [List.filter_cons_of_neg h, varKeys_cons_neg ks h', ih]

theorem any_rl_none_false {l : List (Str × KeyInfo)} (h : ∀ p ∈ l, p.2.rl ≠ none) :
    l.any (fun k => k.2.rl.isNone) = false := by
  rw [List.any_eq_false]
  intro p hp
  cases hr : p.2.rl with
  | none => exact absurd hr (h p hp)
  | some r => simp

/-- **the data part of a restart in closed form**: the file `f` exists, its
first parseable key is a key of variable `varkey`, and the keys of that
variable carry a refinement level.  Then the lines are those of the variable's
keys alone, and nothing raises. -/
theorem dataCore_closed (S : Sim) (f : Str) (keys : List Str) (varkey : Str)
    (hf : dget (allFiles S) f = some keys)
    (hv : (keys.findSome? fun k => (parseKey k).map (·.var)) = some varkey)
    (hrl : ∀ p ∈ varKeys varkey keys, p.2.rl ≠ none) :
    dataCore S (some (true, f)) =
      ([Line.reading f,
        Line.its (natMin ((varKeys varkey keys).map fun k => k.2.it)) (natMax ((varKeys varkey keys).map fun k => k.2.it))]
        ++ (levelLines (varKeys varkey keys) (natMax ((varKeys varkey keys).filterMap fun k => k.2.rl))).1, none) := by
  unfold dataCore
  simp only [hf, hv, mapM_selected, any_rl_none_false hrl, Bool.false_eq_true, if_false,
    levelLines_never_raises]
  rfl

/-- no parseable key at all: `np.min([])` raises ValueError after the `Reading iterations in:` line -/
theorem dataCore_no_key (S : Sim) (f : Str) (keys : List Str) (hf : dget (allFiles S) f = some keys)
    (hv : (keys.findSome? fun k => (parseKey k).map (·.var)) = none) :
    dataCore S (some (true, f)) = ([Line.reading f], some .valueError) := by
  unfold dataCore
  simp only [hf, hv]

/-- keys that are not keys of the variable (other variables, other thorns,
groups such as "Parameters and Global Attributes") play no role -/
theorem varKeys_filter (varkey : Str) (keys : List Str) :
    varKeys varkey (keys.filter (isVarKey varkey)) = varKeys varkey keys := by
  induction keys with
  | nil => rfl
  | cons k ks ih =>
    by_cases h : isVarKey varkey k = true
    · obtain ⟨i, hp, hv⟩ := isVarKey_true h
      rw [List.filter_cons_of_pos h, varKeys_cons_pos _ hp hv, varKeys_cons_pos _ hp hv, ih]
    · have h' : isVarKey varkey k = false := by simpa using h
      rw [List.filter_cons_of_neg h, varKeys_cons_neg ks h', ih]

theorem itsAt_append (f g : List (Str × KeyInfo)) (rl : Nat) : itsAt (f ++ g) rl = itsAt f rl ++ itsAt g rl := by
  simp [itsAt, keysAt, List.filter_append, List.map_append]

/-! ## the level lines of a file -/

/-- one step of the fold of `levelLines` -/
def llStep (fkeys : List (Str × KeyInfo)) (acc : List Line × Option Err) (rl : Nat) : List Line × Option Err :=
  match acc.2 with
  | some _ => acc
  | none =>
    match levelOne fkeys rl with
    | .error e => (acc.1, some e)
    | .ok none => acc
    | .ok (some l) => (acc.1 ++ [l], none)

theorem levelLines_eq (fkeys : List (Str × KeyInfo)) (rlmax : Nat) :
    levelLines fkeys rlmax = (List.range (rlmax + 1)).foldl (llStep fkeys) ([], none) := rfl

theorem llFold (fkeys : List (Str × KeyInfo)) : ∀ n : Nat,
    ∃ L, (List.range n).foldl (llStep fkeys) ([], none) = (L, none) ∧
      ∀ l, l ∈ L ↔ ∃ rl, rl < n ∧ levelOne fkeys rl = .ok (some l) := by
  intro n
  induction n with
  | zero => exact ⟨[], rfl, fun l => by simp⟩
  | succ n ih =>
    obtain ⟨L, hL, hm⟩ := ih
    rw [List.range_succ, List.foldl_append, hL]
    obtain ⟨o, ho⟩ := levelOne_never_raises fkeys n
    cases o with
    | none =>
      refine ⟨L, by simp [llStep, ho], fun l => ?_⟩
      rw [hm l]
      constructor
      · rintro ⟨rl, h1, h2⟩; exact ⟨rl, by omega, h2⟩
      · rintro ⟨rl, h1, h2⟩
        by_cases h : rl = n
        · subst h; rw [ho] at h2; cases h2
        · exact ⟨rl, by omega, h2⟩
    | some l0 =>
      refine ⟨L ++ [l0], by simp [llStep, ho], fun l => ?_⟩
      rw [List.mem_append, hm l, List.mem_singleton]
      constructor
      · rintro (⟨rl, h1, h2⟩ | h)
        · exact ⟨rl, by omega, h2⟩
        · exact ⟨n, by omega, by rw [ho, h]⟩
      · rintro ⟨rl, h1, h2⟩
        by_cases h : rl = n
        · subst h; rw [ho] at h2
          injection h2 with h2; injection h2 with h2
          exact Or.inr h2.symm
        · exact Or.inl ⟨rl, by omega, h2⟩

/-- the lines of a file are the lines of its levels `0 … rlmax` -/
theorem mem_levelLines (fkeys : List (Str × KeyInfo)) (rlmax : Nat) (l : Line) :
    l ∈ (levelLines fkeys rlmax).1 ↔ ∃ rl, rl ≤ rlmax ∧ levelOne fkeys rl = .ok (some l) := by
  obtain ⟨L, hL, hm⟩ := llFold fkeys (rlmax + 1)
  rw [levelLines_eq, hL, hm l]
  constructor
  · rintro ⟨rl, h1, h2⟩; exact ⟨rl, by omega, h2⟩
  · rintro ⟨rl, h1, h2⟩; exact ⟨rl, by omega, h2⟩

theorem le_natMax {l : List Nat} {x : Nat} (h : x ∈ l) : x ≤ natMax l :=
  (foldl_max_ge l 0).2 x h

/-- a level that has a key is within `range(rlmax + 1)` -/
theorem level_le_rlmax {fkeys : List (Str × KeyInfo)} {rl x : Nat} (h : x ∈ itsAt fkeys rl) :
    rl ≤ natMax (fkeys.filterMap fun k => k.2.rl) := by
  simp only [itsAt, List.mem_map] at h
  obtain ⟨k, hk, _⟩ := h
  have hr := keysAt_rl fkeys rl k hk
  have hm : k ∈ fkeys := (List.mem_filter.mp hk).1
  apply le_natMax
  rw [List.mem_filterMap]
  exact ⟨k, hm, hr⟩

theorem apList_head_mem (a d n : Nat) : a ∈ apList a d (n + 1) := by simp [apList]

end AurelVerif.CatalogLemmas
