/-
Lemmas/C10WeylParts.lean — electric and magnetic parts, w.r.t. the normal of the foliation, of the Weyl expression
`weyl g R Ric RS` (Riemann minus its Ricci parts) of a tensor `R4` with the Riemann symmetries given by its 3+1 blocks
(property C10, coherence of the two constructions of `st_Weyl_down4`).  Pure algebra at one point.

`J : Jet K` (lapse, shift, γ, γ⁻¹; `J.LeviCivita` is used only for: γ, γ⁻¹ symmetric, γγ⁻¹ = 1, α ≠ 0, 2 ≠ 0).
`A i j k l = R4_ijkl`, `Bc i j k = R4_ijkt` the spatial and one-time-index blocks, `Ric = g^{ac} R4_abcd` (with the
3+1 inverse metric).

  eweylU_weyl          `E_ij = R_{injn} − ½ g_ij Ric_nn + ½ Ric_ji − (RS/6) g_ij`      (any `g`, `n` with `g_ib n^b = 0`, `n·n = −1`)
  eweylU_riem          `R_{injn} = γ^{kl} A_kilj − Ric_ij`
  weyl_electric_tf     `E_ij = TF[ γ^{kl} A_kilj − ½ Ric_ij ]`       (trace part fixed by `g^{ac}C_abcd = 0`)
  nContract2_weyl      `C_{inkl} = R_{inkl} − ½ (g_ik Ric_ln − g_il Ric_kn)`
  weyl_magnetic_codazzi  for `Bc = codazzi α β A DK`:
        `½ C_abcd ε^{cd}{}_{ef} n^b n^f |_{ij} = (1/α) ( ε^{cd}{}_j D_cK_di + ½ γ^{df} ε_{ifj} (γ^{pq} D_dK_qp − γ^{ce} D_cK_ed) )`
-/
import AurelVerif.Lemmas.C10Frame3p1
import AurelVerif.Lemmas.C04Contract

set_option linter.unusedSimpArgs false
set_option linter.unusedVariables false
set_option linter.unusedSectionVars false

namespace AurelVerif.C10
open AurelVerif.Gen.Core AurelVerif.Tensor AurelVerif.CoreTac AurelVerif.Spec.Weyl
open AurelVerif.Spec.Curvature (Jet tsplit tsplit_0 tsplit_1 tsplit_2 tsplit_3 ricciDown codazzi)
open AurelVerif.C04L (tsplit_succ fin4_ts)

variable {K : Type} [Field K]

/-! ### the normal of the assembled metric -/

/-- `g_ab n^b = n_a = (−α, 0, 0, 0)` and `n^a n_a = −1` for the assembled metric (γ symmetric, α ≠ 0). -/
theorem g4_normal (J : Jet K) (ha : J.alpha ≠ 0) (hg : ∀ i j, J.gam i j = J.gam j i) :
    (∀ i : Fin 3, ∑ d, J.g4 i.succ d * nuJ J d = 0) ∧ (∀ j : Fin 3, ∑ b, J.g4 b j.succ * nuJ J b = 0)
    ∧ ∑ b, ∑ d, J.g4 b d * nuJ J b * nuJ J d = -1 := by
  have g10 := hg 1 0; have g20 := hg 2 0; have g21 := hg 2 1
  refine ⟨?_, ?_, ?_⟩
  · cases3 <;>
      (simp only [Jet.g4, Spec.Curvature.metric3p1, nuJ, Fin.sum_univ_four, Fin.sum_univ_three, tsplit_0, tsplit_1,
         tsplit_2, tsplit_3, succ3_0, succ3_1, succ3_2, g10, g20, g21]
       field_simp
       ring)
  · cases3 <;>
      (simp only [Jet.g4, Spec.Curvature.metric3p1, nuJ, Fin.sum_univ_four, Fin.sum_univ_three, tsplit_0, tsplit_1,
         tsplit_2, tsplit_3, succ3_0, succ3_1, succ3_2, g10, g20, g21]
       field_simp
       ring)
  · simp only [Jet.g4, Spec.Curvature.metric3p1, nuJ, Fin.sum_univ_four, Fin.sum_univ_three, tsplit_0, tsplit_1,
      tsplit_2, tsplit_3, g10, g20, g21]
    field_simp
    ring

/-! ### electric part -/

/-- the electric part of the Weyl expression at indices `a, c` where `g_ab n^b = 0 = g_bc n^b`. -/
theorem eweylU_weyl (g : Fin 4 → Fin 4 → K) (nu : Fin 4 → K) (R4 : Fin 4 → Fin 4 → Fin 4 → Fin 4 → K)
    (Ric : Fin 4 → Fin 4 → K) (RS : K) (a c : Fin 4)
    (hra : ∑ d, g a d * nu d = 0) (hcc : ∑ b, g b c * nu b = 0)
    (hnn : ∑ b, ∑ d, g b d * nu b * nu d = -1) :
    eweylU (weyl g R4 Ric RS) nu a c
      = eweylU R4 nu a c - (1 / 2) * g a c * (∑ b, ∑ d, nu b * nu d * Ric d b) + (1 / 2) * Ric c a
        - (1 / 6) * RS * g a c := by
  simp only [eweylU, weyl, Fin.sum_univ_four] at hra hcc hnn ⊢
  linear_combination ((1 / 2 : K) * (Ric c 0 * nu 0 + Ric c 1 * nu 1 + Ric c 2 * nu 2 + Ric c 3 * nu 3)
      - (1 / 6 : K) * RS * (g c 0 * nu 0 + g c 1 * nu 1 + g c 2 * nu 2 + g c 3 * nu 3)) * hra
    + ((1 / 2 : K) * (Ric 0 a * nu 0 + Ric 1 a * nu 1 + Ric 2 a * nu 2 + Ric 3 a * nu 3)) * hcc
    + (-(1 / 2 : K) * Ric c a + (1 / 6 : K) * RS * g a c) * hnn

/-- `R_{injn} = γ^{kl} A_kilj − Ric_ij`. -/
theorem eweylU_riem (J : Jet K) (ha : J.alpha ≠ 0) (R4 : Fin 4 → Fin 4 → Fin 4 → Fin 4 → K)
    (hR : Spec.Curvature.RiemannSym R4) (A : Fin 3 → Fin 3 → Fin 3 → Fin 3 → K) (Bc : Fin 3 → Fin 3 → Fin 3 → K)
    (hA : ∀ i j k l : Fin 3, R4 i.succ j.succ k.succ l.succ = A i j k l)
    (hB : ∀ i j k : Fin 3, R4 i.succ j.succ k.succ 0 = Bc i j k) (i j : Fin 3) :
    eweylU R4 (nuJ J) i.succ j.succ
      = ∑ k, ∑ l, J.gamup k l * A k i l j - ricciDown J.gup3p1 R4 i.succ j.succ := by
  have rs := Jet.ricci_spatial J ha R4 hR A Bc hA hB i j
  have r2 : ∀ l : Fin 3, R4 i.succ 0 j.succ l.succ = Bc j l i := by
    intro l; rw [hR.pair, hB]
  have hn0 : nuJ J 0 = 1 / J.alpha := rfl
  have hns : ∀ m : Fin 3, nuJ J m.succ = -J.beta m / J.alpha := fun m => by simp only [nuJ, tsplit_succ]
  unfold eweylU
  rw [sum4_succ]
  simp only [sum4_succ (fun d => nuJ J _ * nuJ J d * R4 i.succ _ j.succ d)]
  simp only [r2, hA, hB, hn0, hns]
  simp only [Fin.sum_univ_three] at rs ⊢
  field_simp
  linear_combination rs

/-- a tensor that differs from `Y` by a multiple of `γ` and is trace-free is the trace-free part of `Y`. -/
theorem tf_of_trace (h3ne : (3 : K) ≠ 0) (γup γ E Y : Fin 3 → Fin 3 → K) (f : K)
    (hE : ∀ i j, E i j = Y i j + f * γ i j) (htr : ∑ i, ∑ j, γup i j * E i j = 0)
    (h3 : ∑ i, ∑ j, γup i j * γ i j = 3) (i j : Fin 3) : E i j = tracefree γup γ Y i j := by
  have ht : (1 / 3 : K) * 3 = 1 := by field_simp
  have hs : ∑ a, ∑ b, γup a b * E a b = (∑ a, ∑ b, γup a b * Y a b) + f * ∑ a, ∑ b, γup a b * γ a b := by
    simp only [hE, Fin.sum_univ_three]; ring
  rw [htr, h3] at hs
  unfold tracefree
  generalize (1 / 3 : K) = t at ht ⊢
  linear_combination hE i j - (t * γ i j) * hs - (f * γ i j) * ht

/-- the Ricci contraction of a pair-symmetric tensor with a symmetric inverse metric is symmetric. -/
theorem ricciDown_symm (gup : Fin 4 → Fin 4 → K) (R4 : Fin 4 → Fin 4 → Fin 4 → Fin 4 → K)
    (hg : ∀ a b, gup a b = gup b a) (hp : ∀ a b c d, R4 a b c d = R4 c d a b) (b d : Fin 4) :
    ricciDown gup R4 b d = ricciDown gup R4 d b := by
  unfold ricciDown
  rw [Finset.sum_comm]
  refine Finset.sum_congr rfl fun a _ => Finset.sum_congr rfl fun c _ => ?_
  rw [hp c b a d, hg c a]

/-- hypotheses on the blocks used below. -/
structure Blocks (J : Jet K) (R4 : Fin 4 → Fin 4 → Fin 4 → Fin 4 → K) (A : Fin 3 → Fin 3 → Fin 3 → Fin 3 → K)
    (Bc : Fin 3 → Fin 3 → Fin 3 → K) : Prop where
  lc : J.LeviCivita
  hR : Spec.Curvature.RiemannSym R4
  hA : ∀ i j k l : Fin 3, R4 i.succ j.succ k.succ l.succ = A i j k l
  hB : ∀ i j k : Fin 3, R4 i.succ j.succ k.succ 0 = Bc i j k

section parts
variable {J : Jet K} {R4 : Fin 4 → Fin 4 → Fin 4 → Fin 4 → K} {A : Fin 3 → Fin 3 → Fin 3 → Fin 3 → K}
  {Bc : Fin 3 → Fin 3 → Fin 3 → K}

theorem Blocks.ricSymm (H : Blocks J R4 A Bc) : Symm (ricciDown J.gup3p1 R4) :=
  fun b d => ricciDown_symm _ _ (Jet.gup3p1_symm J H.lc) H.hR.pair b d

theorem Blocks.g4Symm (H : Blocks J R4 A Bc) : Symm J.g4 := by
  have g10 := H.lc.symg 1 0; have g20 := H.lc.symg 2 0; have g21 := H.lc.symg 2 1
  cases4 <;> cases4 <;>
    simp only [Jet.g4, Spec.Curvature.metric3p1, tsplit_0, tsplit_1, tsplit_2, tsplit_3, g10, g20, g21]

theorem Blocks.inv (H : Blocks J R4 A Bc) (a b : Fin 4) :
    ∑ c, J.gup3p1 a c * J.g4 c b = if a = b then 1 else 0 := Jet.gup3p1_mul_g4 J H.lc a b

/-- the Weyl expression of `R4` with its own Ricci tensor and scalar. -/
def weylOf (J : Jet K) (R4 : Fin 4 → Fin 4 → Fin 4 → Fin 4 → K) : Fin 4 → Fin 4 → Fin 4 → Fin 4 → K :=
  weyl J.g4 R4 (ricciDown J.gup3p1 R4) (∑ b, ∑ d, J.gup3p1 b d * ricciDown J.gup3p1 R4 b d)

theorem Blocks.weylSym (H : Blocks J R4 A Bc) : RiemannSym (weylOf J R4) :=
  weyl_riemannSym _ _ _ _ ⟨H.hR.anti12, H.hR.anti34, H.hR.pair⟩ H.g4Symm H.ricSymm

theorem Blocks.weylTrace (H : Blocks J R4 A Bc) (h3 : (3 : K) ≠ 0) (b d : Fin 4) :
    ∑ a, ∑ c, J.gup3p1 a c * weylOf J R4 a b c d = 0 :=
  weyl_tracefree _ _ _ _ _ H.g4Symm (Jet.gup3p1_symm J H.lc) H.ricSymm H.inv (fun _ _ => rfl) rfl H.lc.two h3 b d

/-- `γ^{ij} γ_ij = 3`. -/
theorem gam_trace3 (J : Jet K) (h : J.LeviCivita) : ∑ i, ∑ j, J.gamup i j * J.gam i j = 3 := by
  have h0 := Jet.gam_mul_gamup J h 0 0; have h1 := Jet.gam_mul_gamup J h 1 1; have h2 := Jet.gam_mul_gamup J h 2 2
  have u10 := Jet.gamup_symm J h 1 0; have u20 := Jet.gamup_symm J h 2 0; have u21 := Jet.gamup_symm J h 2 1
  simp only [delta, if_true, Fin.sum_univ_three, u10, u20, u21] at h0 h1 h2 ⊢
  linear_combination h0 + h1 + h2

/-- **electric part of the Weyl expression of `R4`** (characteristic ≠ 2, 3):
`C_{injn} = TF[ γ^{kl} A_kilj − ½ Ric_ij ]`. -/
theorem weyl_electric_tf (H : Blocks J R4 A Bc) (h3 : (3 : K) ≠ 0) (i j : Fin 3) :
    eweylU (weylOf J R4) (nuJ J) i.succ j.succ
      = tracefree J.gamup J.gam
          (fun i j => ∑ k, ∑ l, J.gamup k l * A k i l j - (1 / 2) * ricciDown J.gup3p1 R4 i.succ j.succ) i j := by
  obtain ⟨hr, hc, hnn⟩ := g4_normal J H.lc.ha H.lc.symg
  set Ric := ricciDown J.gup3p1 R4 with hRicdef
  set RS := ∑ b, ∑ d, J.gup3p1 b d * Ric b d with hRSdef
  have hg : ∀ i j : Fin 3, J.g4 i.succ j.succ = J.gam i j := fun i j => by
    simp only [Jet.g4, Spec.Curvature.metric3p1, tsplit_succ]
  refine tf_of_trace h3 J.gamup J.gam (fun i j => eweylU (weylOf J R4) (nuJ J) i.succ j.succ) _
    (-((1 / 2) * (∑ b, ∑ d, nuJ J b * nuJ J d * Ric d b) + (1 / 6) * RS)) (fun i j => ?_) ?_
    (gam_trace3 J H.lc) i j
  · show eweylU (weyl J.g4 R4 Ric RS) (nuJ J) i.succ j.succ = _
    rw [eweylU_weyl J.g4 (nuJ J) R4 Ric RS i.succ j.succ (hr i) (hc j) hnn,
      eweylU_riem J H.lc.ha R4 H.hR A Bc H.hA H.hB i j, hg i j]
    have hRs : Ric j.succ i.succ = Ric i.succ j.succ := H.ricSymm _ _
    have hh : (1 / 2 : K) * 2 = 1 := by have := H.lc.two; field_simp
    rw [hRs, ← hRicdef]
    linear_combination (Ric i.succ j.succ) * hh
  · exact eweylU_trace J H.lc.ha H.lc.two (weylOf J R4) H.weylSym.anti12 (H.weylTrace h3)

/-! ### magnetic part -/

/-- `C_{ankl}` of the Weyl expression at indices where `g_ab n^b = 0` (rows `k`, `l`; columns `k`, `l`). -/
theorem nContract2_weyl (g : Fin 4 → Fin 4 → K) (nu : Fin 4 → K) (R4 : Fin 4 → Fin 4 → Fin 4 → Fin 4 → K)
    (Ric : Fin 4 → Fin 4 → K) (RS : K) (a k l : Fin 4)
    (hrk : ∑ d, g k d * nu d = 0) (hrl : ∑ d, g l d * nu d = 0)
    (hck : ∑ b, g b k * nu b = 0) (hcl : ∑ b, g b l * nu b = 0) :
    nContract2 (weyl g R4 Ric RS) nu a k l
      = nContract2 R4 nu a k l - (1 / 2) * (g a k * (∑ b, Ric l b * nu b) - g a l * ∑ b, Ric k b * nu b) := by
  simp only [nContract2, weyl, Fin.sum_univ_four] at hrk hrl hck hcl ⊢
  linear_combination ((1 / 2 : K) * Ric l a) * hck - ((1 / 2 : K) * Ric k a) * hcl
    + ((1 / 6 : K) * RS * g a k) * hrl - ((1 / 6 : K) * RS * g a l) * hrk

/-- `R_{klm n} = (1/α)(R_klmt − β^p R_klmp)`. -/
theorem riem_last_normal (H : Blocks J R4 A Bc) (k l m : Fin 3) :
    ∑ b, R4 k.succ l.succ m.succ b * nuJ J b = (1 / J.alpha) * (Bc k l m - ∑ p, A k l m p * J.beta p) := by
  have hn0 : nuJ J 0 = 1 / J.alpha := rfl
  have hns : ∀ m : Fin 3, nuJ J m.succ = -J.beta m / J.alpha := fun m => by simp only [nuJ, tsplit_succ]
  rw [sum4_succ]
  simp only [H.hA, H.hB, hn0, hns, Fin.sum_univ_three]
  have := H.lc.ha
  field_simp
  ring

/-- `Ric_{l n} = γ^{km} R_{klmn}`. -/
theorem ricci_normal (H : Blocks J R4 A Bc) (l : Fin 3) :
    ∑ b, ricciDown J.gup3p1 R4 l.succ b * nuJ J b
      = ∑ k, ∑ m, J.gamup k m * ((1 / J.alpha) * (Bc k l m - ∑ p, A k l m p * J.beta p)) := by
  have s := gup3p1_split J H.lc.ha (fun a c => ∑ b, R4 a l.succ c b * nuJ J b)
  have e1 : ∑ b, ricciDown J.gup3p1 R4 l.succ b * nuJ J b
      = ∑ a, ∑ c, J.gup3p1 a c * ∑ b, R4 a l.succ c b * nuJ J b := by
    simp only [ricciDown, Fin.sum_univ_four]; ring
  have e2 : ∑ a, ∑ c, nuJ J a * nuJ J c * ∑ b, R4 a l.succ c b * nuJ J b = 0 := by
    have : ∑ a, ∑ c, nuJ J a * nuJ J c * ∑ b, R4 a l.succ c b * nuJ J b
        = ∑ a, nuJ J a * ∑ c, ∑ b, nuJ J c * nuJ J b * R4 a l.succ c b := by
      simp only [Fin.sum_univ_four]; ring
    rw [this]
    simp only [nn_antisym H.lc.two (nuJ J) _ (fun c b => H.hR.anti34 _ _ c b), mul_zero, Finset.sum_const_zero]
  rw [e1, s, e2, sub_zero]
  simp only [riem_last_normal H]

variable (e : Env K) (s : K) (DK : Fin 3 → Fin 3 → Fin 3 → K)

/-- `C_{inkl}` when the one-time-index block is the Codazzi expression. -/
theorem nContract2_codazzi (H : Blocks J R4 A Bc) (hBc : Bc = codazzi J.alpha J.beta A DK)
    (hDK : ∀ c d a, DK c d a = DK c a d) (i k l : Fin 3) :
    nContract2 (weylOf J R4) (nuJ J) i.succ k.succ l.succ
      = (DK l k i - DK k l i) - (1 / 2) * (J.gam i k * bW J.gamup DK l - J.gam i l * bW J.gamup DK k) := by
  obtain ⟨hr, hc, _⟩ := g4_normal J H.lc.ha H.lc.symg
  have hg : ∀ i j : Fin 3, J.g4 i.succ j.succ = J.gam i j := fun i j => by
    simp only [Jet.g4, Spec.Curvature.metric3p1, tsplit_succ]
  have hApair : ∀ i j k l, A i j k l = A k l i j := fun i j k l => by
    rw [← H.hA, ← H.hA]; exact H.hR.pair _ _ _ _
  have ha := H.lc.ha
  -- the Codazzi block with the normal in the last slot
  have hcod : ∀ k l m : Fin 3, (1 / J.alpha) * (Bc k l m - ∑ p, A k l m p * J.beta p) = DK l k m - DK k l m := by
    intro k l m
    rw [hBc]; unfold codazzi
    field_simp
    ring
  -- Ricci with one normal
  have hq : ∀ l : Fin 3, ∑ b, ricciDown J.gup3p1 R4 l.succ b * nuJ J b = bW J.gamup DK l := by
    intro l
    rw [ricci_normal H l]
    simp only [hcod]
    have u10 := Jet.gamup_symm J H.lc 1 0; have u20 := Jet.gamup_symm J H.lc 2 0; have u21 := Jet.gamup_symm J H.lc 2 1
    have d10 := fun c => hDK c 1 0; have d20 := fun c => hDK c 2 0; have d21 := fun c => hDK c 2 1
    have dl := fun c a => hDK c l a
    simp only [bW, Fin.sum_univ_three, u10, u20, u21, d10, d20, d21, dl]
    ring
  -- Riemann with the normal in the second slot
  have hRn : nContract2 R4 (nuJ J) i.succ k.succ l.succ = DK l k i - DK k l i := by
    have : nContract2 R4 (nuJ J) i.succ k.succ l.succ = ∑ b, R4 k.succ l.succ i.succ b * nuJ J b := by
      unfold nContract2
      exact Finset.sum_congr rfl fun b _ => by rw [H.hR.pair i.succ b k.succ l.succ]; ring
    rw [this, riem_last_normal H k l i, hcod]
  unfold weylOf
  rw [nContract2_weyl J.g4 (nuJ J) R4 _ _ i.succ k.succ l.succ (hr k) (hr l) (hc k) (hc l), hRn, hq l, hq k,
    hg i k, hg i l]

/-- `ε^{kl}{}_j` is antisymmetric in `k, l` (any `u`). -/
theorem epsUud3_antisymm (u : Fin 3 → Fin 3 → K) (j : Fin 3) : ∀ k l : Fin 3,
    epsUud3 u (lc3 e s) k l j = -epsUud3 u (lc3 e s) l k j := by
  revert j
  cases3 <;> cases3 <;> cases3 <;>
    (simp only [epsUud3, lc3, Fin.sum_univ_three, levicivita_symbol_down3, ↓vec3_0, ↓vec3_1, ↓vec3_2]; ring)

/-- **magnetic part of the Weyl expression of `R4`** when `R4_ijkt = β^l R4_ijkl + α (D_jK_ik − D_iK_jk)`
(`DK a b c = D_aK_bc`, symmetric in `b, c`), `ε_{abcd} = [abcd]·s`:
`½ C_abcd ε^{cd}{}_{ef} n^b n^f |_{ij} = (1/α)( ε^{cd}{}_j D_cK_di + ½ γ^{df} ε_{ifj} (γ^{pq} D_dK_qp − γ^{ce} D_cK_ed) )`,
the 3-D Levi-Civita tensor taken with the same scale `s`. -/
theorem weyl_magnetic_codazzi (H : Blocks J R4 A Bc) (hBc : Bc = codazzi J.alpha J.beta A DK)
    (hDK : ∀ c d a, DK c d a = DK c a d) (i j : Fin 3) :
    bweylU (weylOf J R4) (nuJ J) (epsUudd J.gup3p1 (lc4 e s)) i.succ j.succ
      = (1 / J.alpha) * (bT1 e s J.gamup DK i j
          + (1 / 2) * ∑ d, (∑ f, J.gamup d f * lc3 e s i f j) * bW J.gamup DK d) := by
  have hinv : ∀ a e', ∑ c, J.gam a c * J.gamup c e' = if a = e' then 1 else 0 :=
    fun a e' => Jet.gam_mul_gamup J H.lc a e'
  rw [bweylU_spatial J H.lc.ha (Jet.gamup_symm J H.lc) e s (weylOf J R4) i.succ j]
  simp only [nContract2_codazzi DK H hBc hDK]
  have Q := fun l => epsUud3_lower J.gamup J.gam (lc3 e s) hinv i l j
  have R : ∑ l, (∑ c, epsUud3 J.gamup (lc3 e s) c l j * J.gam i c) * bW J.gamup DK l
      = ∑ l, (∑ f, J.gamup l f * lc3 e s i f j) * bW J.gamup DK l :=
    Finset.sum_congr rfl fun l _ => by rw [Q l]
  have h2a : (1 / (2 * J.alpha) : K) = (1 / 2) * (1 / J.alpha) := by
    rw [one_div, one_div, one_div, mul_inv]
  have hh : (1 / 2 : K) * 2 = 1 := by have := H.lc.two; field_simp
  have ea := epsUud3_antisymm e s J.gamup j
  have dg : ∀ x : K, x = -x → x = 0 := by
    intro x hx
    have : 2 * x = 0 := by linear_combination hx
    exact (mul_eq_zero.mp this).resolve_left H.lc.two
  rw [h2a]
  unfold bT1
  generalize (∑ d, (∑ f, J.gamup d f * lc3 e s i f j) * bW J.gamup DK d) = T2 at R ⊢
  generalize epsUud3 J.gamup (lc3 e s) = eps at R ea ⊢
  have z0 := dg _ (ea 0 0); have z1 := dg _ (ea 1 1); have z2 := dg _ (ea 2 2)
  have e10 := ea 1 0; have e20 := ea 2 0; have e21 := ea 2 1
  generalize (1 / J.alpha : K) = ia
  generalize (1 / 2 : K) = hf at hh ⊢
  generalize bW J.gamup DK = q at R ⊢
  simp only [Fin.sum_univ_three, z0, z1, z2, e10, e20, e21] at R ⊢
  linear_combination (2 * hf ^ 2 * ia) * R
      + (ia * (eps 0 1 j * DK 0 1 i - eps 0 1 j * DK 1 0 i + eps 0 2 j * DK 0 2 i - eps 0 2 j * DK 2 0 i
              + eps 1 2 j * DK 1 2 i - eps 1 2 j * DK 2 1 i)
          + hf * ia * T2) * hh

end parts

end AurelVerif.C10
