/-
Lemmas/C17PowSeries.lean — term-wise differentiation of a real power series with polynomially bounded
coefficients, strictly inside the unit disc.
-/
import Mathlib.Analysis.Calculus.SmoothSeries
import Mathlib.Analysis.SpecificLimits.Normed
import Mathlib.Analysis.Calculus.Deriv.Pow

namespace AurelVerif.C17Hyp

theorem summable_bound_aux (C : ℝ) (k : ℕ) {r : ℝ} (hr0 : 0 < r) (hr1 : r < 1) :
    Summable (fun n : ℕ => C * (((n:ℝ) + 1) ^ (k + 1) * r ^ (n - 1))) := by
  rw [← summable_nat_add_iff 1]
  have h0 : Summable (fun n : ℕ => (n:ℝ) ^ (k + 1) * r ^ n) :=
    summable_pow_mul_geometric_of_norm_lt_one (k + 1)
      (by rw [Real.norm_eq_abs, abs_of_pos hr0]; exact hr1)
  have h2 := ((summable_nat_add_iff 2).2 h0).mul_left (C * (r ^ 2)⁻¹)
  refine h2.congr ?_
  intro n
  have hr2 : r ^ 2 ≠ 0 := pow_ne_zero _ hr0.ne'
  simp only [Nat.add_sub_cancel]
  push_cast
  rw [pow_add]
  field_simp
  ring

theorem powerSeries_hasDerivAt (c : ℕ → ℝ) (C : ℝ) (k : ℕ) (hc : ∀ n, |c n| ≤ C * ((n:ℝ) + 1) ^ k)
    {x : ℝ} (hx : |x| < 1) :
    Summable (fun n => c n * x ^ n) ∧ Summable (fun n : ℕ => ((n:ℝ) + 1) * c (n + 1) * x ^ n) ∧
    HasDerivAt (fun y => ∑' n, c n * y ^ n) (∑' n : ℕ, ((n:ℝ) + 1) * c (n + 1) * x ^ n) x := by
  have hC : 0 ≤ C := by
    have := hc 0
    simp at this
    exact le_trans (abs_nonneg _) this
  set r : ℝ := (|x| + 1) / 2 with hr
  have hxr : |x| < r := by rw [hr]; linarith
  have hr1 : r < 1 := by rw [hr]; linarith
  have hr0 : 0 < r := lt_of_le_of_lt (abs_nonneg x) hxr
  set u : ℕ → ℝ := fun n => C * (((n:ℝ) + 1) ^ (k + 1) * r ^ (n - 1)) with hu
  have hus : Summable u := summable_bound_aux C k hr0 hr1
  set g : ℕ → ℝ → ℝ := fun n y => c n * y ^ n with hg
  set g' : ℕ → ℝ → ℝ := fun n y => c n * ((n:ℝ) * y ^ (n - 1)) with hg'
  have hderiv : ∀ n y, y ∈ Metric.ball (0:ℝ) r → HasDerivAt (g n) (g' n y) y := by
    intro n y _
    exact (hasDerivAt_pow n y).const_mul (c n)
  have hbound : ∀ n y, y ∈ Metric.ball (0:ℝ) r → ‖g' n y‖ ≤ u n := by
    intro n y hy
    have hy' : |y| < r := by simpa [Metric.mem_ball, Real.dist_eq] using hy
    simp only [hg', hu, Real.norm_eq_abs, abs_mul, abs_pow, Nat.abs_cast]
    have h1 : |c n| ≤ C * ((n:ℝ) + 1) ^ k := hc n
    have h2 : (n:ℝ) ≤ (n:ℝ) + 1 := by linarith
    have h3 : |y| ^ (n - 1) ≤ r ^ (n - 1) := pow_le_pow_left₀ (abs_nonneg y) hy'.le _
    have hn0 : (0:ℝ) ≤ (n:ℝ) := Nat.cast_nonneg n
    have hn1 : (0:ℝ) ≤ (n:ℝ) + 1 := by linarith
    calc |c n| * ((n:ℝ) * |y| ^ (n - 1))
        ≤ (C * ((n:ℝ) + 1) ^ k) * (((n:ℝ) + 1) * r ^ (n - 1)) := by
          apply mul_le_mul h1 _ (by positivity) (by positivity)
          exact mul_le_mul h2 h3 (by positivity) hn1
      _ = C * (((n:ℝ) + 1) ^ (k + 1) * r ^ (n - 1)) := by ring
  have h0mem : (0:ℝ) ∈ Metric.ball (0:ℝ) r := Metric.mem_ball_self hr0
  have hxmem : x ∈ Metric.ball (0:ℝ) r := by
    simpa [Metric.mem_ball, Real.dist_eq] using hxr
  have hg0 : Summable (fun n => g n 0) := by
    refine summable_of_ne_finset_zero (s := {0}) ?_
    intro n hn
    have hn' : n ≠ 0 := by simpa using hn
    simp [hg, hn']
  have hopen : IsOpen (Metric.ball (0:ℝ) r) := Metric.isOpen_ball
  have hconn : IsPreconnected (Metric.ball (0:ℝ) r) := (convex_ball (0:ℝ) r).isPreconnected
  have hS1 : Summable (fun n => g n x) :=
    summable_of_summable_hasDerivAt_of_isPreconnected hus hopen hconn hderiv hbound h0mem hg0 hxmem
  have hD := hasDerivAt_tsum_of_isPreconnected hus hopen hconn hderiv hbound h0mem hg0 hxmem
  have hS2 : Summable (fun n => g' n x) :=
    Summable.of_norm_bounded hus (fun n => hbound n x hxmem)
  have hshift : ∀ n : ℕ, g' (n + 1) x = ((n:ℝ) + 1) * c (n + 1) * x ^ n := by
    intro n
    simp only [hg', Nat.add_sub_cancel]
    push_cast
    ring
  have hS2' : Summable (fun n : ℕ => ((n:ℝ) + 1) * c (n + 1) * x ^ n) := by
    have := (summable_nat_add_iff 1).2 hS2
    exact this.congr hshift
  have htsum : (∑' n, g' n x) = ∑' n : ℕ, ((n:ℝ) + 1) * c (n + 1) * x ^ n := by
    rw [hS2.tsum_eq_zero_add]
    have : g' 0 x = 0 := by simp [hg']
    rw [this, zero_add]
    exact tsum_congr hshift
  refine ⟨hS1, hS2', ?_⟩
  rw [← htsum]
  exact hD

end AurelVerif.C17Hyp
