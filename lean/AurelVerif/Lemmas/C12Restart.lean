/-
Lemmas/C12Restart.lean — one restart of Model/ReadCacheX.lean, cached
(`readRestartX`) and uncached (`readDirectX`): the table meets `TabSpec` —
every requested component the restart holds has the source at every position,
every component it does not hold has `None` (or no column), the time is the
source — whatever the cache held, provided the cache has the invariant.
-/
import AurelVerif.Lemmas.C12Flat
namespace AurelVerif.ReadCacheXLemmas
open AurelVerif.Chunks AurelVerif.ReadCache AurelVerif.ReadCacheX AurelVerif.ReadCacheLemmas
  AurelVerif.ChunksLemmas
set_option linter.unusedSimpArgs false
set_option linter.unusedVariables false

/-- the invariant a cache keeps through every history: contents equal the source, a
file that holds a variable holds the time, only held variables are cached -/
def GInvX {β : Type} (w : World β) (store : Store β) : Prop :=
  GInv w.src w.ofIt store ∧ StoreHas w store

theorem savePresHas_ginvX {β : Type} (w : World β) : SavePresHas w (GInvX w) :=
  fun R rl tmpIts av hav hh itsSave store store' hG h =>
    ⟨savePres_ginv w.src w.ofIt R rl tmpIts av hav itsSave store store' hG.1 h,
     savePresHas_storeHas w R rl tmpIts av hav hh itsSave store store' hG.2 h⟩

theorem ginvX_empty {β : Type} (w : World β) : GInvX w ([] : Store β) :=
  ⟨ginv_empty w.src w.ofIt, by intro k hk; cases hk⟩

/-! ### the uncached read of one restart -/

theorem readDirectX_cols {β : Type} (w : World β) (var : List (List Nat)) (R rl : Nat) (its : List Nat) :
    (readDirectX w var R rl its).cols
      = ((var.flatten.filter fun c => w.has R c).map DName.var).foldl
          (fun (d : Dict DName (List (Option β))) n => d.set n (its.map fun i => some (w.src ⟨R, i, n, rl⟩)))
          [(DName.t, if (var.flatten.filter fun c => w.has R c).isEmpty then []
                     else its.map fun i => some (w.src ⟨R, i, DName.t, rl⟩))] := by
  unfold readDirectX
  simp only [List.foldl_map]

/-- the uncached read of a restart that holds at least one requested component -/
theorem readDirectX_spec {β : Type} (w : World β) (var : List (List Nat)) (R rl : Nat) (its : List Nat)
    (c0 : Nat) (hc0 : c0 ∈ var.flatten) (hh : w.has R c0 = true) :
    TabSpec w rl (var.flatten.map DName.var ++ [DName.t]) (R, readDirectX w var R rl its) := by
  have hits : (readDirectX w var R rl its).its = its := rfl
  have hfound : (var.flatten.filter fun c => w.has R c).isEmpty = false := by
    cases hf : (var.flatten.filter fun c => w.has R c) with
    | nil =>
      have : c0 ∈ (var.flatten.filter fun c => w.has R c) := List.mem_filter.mpr ⟨hc0, hh⟩
      rw [hf] at this; cases this
    | cons a b => rfl
  have hkeys := foldl_set_keys (fun n => its.map fun i => some (w.src ⟨R, i, n, rl⟩))
    ((var.flatten.filter fun c => w.has R c).map DName.var)
    [(DName.t, if (var.flatten.filter fun c => w.has R c).isEmpty then []
               else its.map fun i => some (w.src ⟨R, i, DName.t, rl⟩))] (by simp)
  have htn : DName.t ∉ (var.flatten.filter fun c => w.has R c).map DName.var := by
    intro hcon
    obtain ⟨c', _, he⟩ := List.mem_map.mp hcon
    cases he
  constructor
  · intro k hk idx i hi
    simp only [hits] at hi
    simp only [readDirectX_cols] at hk
    simp only [colVal, readDirectX_cols, foldl_set_get]
    rcases hkeys.2 k hk with h | h
    · simp only [h, if_true, List.getElem?_map, hi, Option.map_some]
      exact ⟨_, rfl⟩
    · simp at h; subst h
      simp only [htn, if_false, Dict.get?, if_true, hfound, Bool.false_eq_true, List.getElem?_map, hi,
        Option.map_some]
      exact ⟨_, rfl⟩
  · intro n hn idx i hi
    simp only [hits] at hi
    simp only [colVal, readDirectX_cols, foldl_set_get]
    rcases List.mem_append.mp hn with hn | hn
    · obtain ⟨c, hc, rfl⟩ := List.mem_map.mp hn
      by_cases hhc : w.has R c = true
      · have : DName.var c ∈ (var.flatten.filter fun c => w.has R c).map DName.var :=
          List.mem_map.mpr ⟨c, List.mem_filter.mpr ⟨hc, hhc⟩, rfl⟩
        simp only [this, if_true, List.getElem?_map, hi, Option.map_some, expect, hasName, hhc]
      · have : DName.var c ∉ (var.flatten.filter fun c => w.has R c).map DName.var := by
          intro hcon
          obtain ⟨c', hc', he⟩ := List.mem_map.mp hcon
          cases he
          exact hhc (List.mem_filter.mp hc').2
        simp only [this, if_false, Dict.get?, reduceCtorEq, expect, hasName, hhc]
    · simp at hn; subst hn
      simp only [htn, if_false, Dict.get?, if_true, hfound, Bool.false_eq_true, List.getElem?_map, hi,
        Option.map_some, expect, hasName]

/-! ### the cached read of one restart -/

section cols
variable {β : Type} (w : World β) (R rl : Nat) (its : List Nat)

/-- the invariant of the loops of the cached read: `J` of Lemmas/ReadCache.lean, and the
columns of the components the restart does not hold are `None` throughout -/
structure JX (names : List DName) (m0 : Dict DName (List Nat)) (s : State β) : Prop where
  j : J w.src R rl its names m0 s
  nohold : ∀ n ∈ names, hasName w R n = false →
    ∀ (idx i : Nat), its[idx]? = some i → (getCol s.col n)[idx]? = some none

theorem stepCompX_JX (names : List DName) (m0 : Dict DName (List Nat)) (tmpIts : List Nat) (empty : Bool)
    (s s' : State β) (av : DName) (hJ : JX w R rl its names m0 s) (hav : av ∈ names)
    (hsub : ∀ i ∈ getMiss s.missing av, i ∈ tmpIts)
    (h : stepCompX w R rl its tmpIts empty s av = .ok s') :
    JX w R rl its names m0 s' ∧
      (hasName w R av = true → empty = false → CellOK w.src R rl its s'.col av) ∧
      (∀ n, CellOK w.src R rl its s.col n → CellOK w.src R rl its s'.col n) := by
  unfold stepCompX at h
  split at h
  · rename_i hcond
    have hh : hasName w R av = true := by
      cases hx : hasName w R av with
      | true => rfl
      | false => rw [hx] at hcond; simp at hcond
    cases hs : stepComp w.src w.ofIt R rl its tmpIts s av with
    | none => simp [hs] at h
    | some s1 =>
      simp only [hs] at h
      cases h
      obtain ⟨h1, h2, h3⟩ := stepComp_J w.src w.ofIt R rl its names m0 tmpIts s s' av hJ.j hav hsub hs
      obtain ⟨hc, hm⟩ := stepComp_eq w.src w.ofIt R rl its tmpIts s s' av hs
      refine ⟨⟨h1, ?_⟩, fun _ _ => h2, h3⟩
      intro n hn hnh idx i hi
      have hna : n ≠ av := by intro e; subst e; rw [hh] at hnh; cases hnh
      rw [hc, getCol_set_ne _ _ _ _ hna]
      exact hJ.nohold n hn hnh idx i hi
  · rename_i hcond
    cases h
    refine ⟨hJ, fun hh he => ?_, fun n hn => hn⟩
    rw [hh, he] at hcond
    simp at hcond

theorem colVal_of_getCol (cols : Dict DName (List (Option β))) (n : DName) (idx : Nat) (v : Option β)
    (h : (getCol cols n)[idx]? = some v) : colVal cols n idx = some v := by
  unfold colVal
  unfold getCol at h
  cases hg : cols.get? n with
  | none => rw [hg] at h; simp at h
  | some col => rw [hg] at h; simpa using h

theorem all_not_has_false (v : List Nat) (c : Nat) (hc : c ∈ v) (hh : w.has R c = true) :
    (v.all fun c => !w.has R c) = false := by
  cases he : (v.all fun c => !w.has R c) with
  | false => rfl
  | true =>
    have := List.all_eq_true.mp he c hc
    simp [hh] at this

/-- body of `for v in var:` keeps the invariant; afterwards every component of `v` the
restart holds is the source at every position, and so is the time if `v` has such a component -/
theorem stepVarX_JX (names : List DName) (m0 : Dict DName (List Nat)) (nofiles : Bool) (s s' : State β) (v : List Nat)
    (hJ : JX w R rl its names m0 s) (hv : ∀ c ∈ v, DName.var c ∈ names) (ht : DName.t ∈ names)
    (h : stepVarX w nofiles R rl its s v = .ok s') :
    JX w R rl its names m0 s' ∧ (∀ c ∈ v, w.has R c = true → CellOK w.src R rl its s'.col (DName.var c)) ∧
      (∀ n, CellOK w.src R rl its s.col n → CellOK w.src R rl its s'.col n) ∧
      ((∃ c ∈ v, w.has R c = true) → CellOK w.src R rl its s'.col DName.t) := by
  unfold stepVarX at h
  simp only at h
  split at h
  · -- nothing is missing for this variable
    rename_i hnil
    cases h
    have hflat := eraseDups_eq_nil _ hnil
    have hmiss : ∀ c ∈ v, getMiss s.missing (DName.var c) = [] := by
      intro c hc
      have : ∀ x, x ∉ getMiss s.missing (DName.var c) := by
        intro x hx
        have : x ∈ (v.map DName.var).flatMap fun av => getMiss s.missing av :=
          List.mem_flatMap.mpr ⟨DName.var c, List.mem_map.mpr ⟨c, hc, rfl⟩, hx⟩
        rw [hflat] at this; cases this
      exact List.eq_nil_iff_forall_not_mem.mpr this
    refine ⟨hJ, ?_, fun n hn => hn, ?_⟩
    · intro c hc _ idx i hi
      rcases hJ.j.good _ (hv c hc) idx i hi with h1 | ⟨_, h2⟩
      · exact h1
      · rw [hmiss c hc] at h2; cases h2
    · rintro ⟨c0, hc0, _⟩ idx i hi
      rcases hJ.j.good _ ht idx i hi with h1 | ⟨_, h2⟩
      · exact h1
      · have := hJ.j.tsub i h2 c0 (hv c0 hc0)
        rw [← hJ.j.mvar c0, hmiss c0 hc0] at this; cases this
  · rename_i hne
    split at h
    · cases h
    · have hvne : v ≠ [] := by
        intro e; subst e; exact hne (by simp)
      obtain ⟨c0, hc0⟩ := List.exists_mem_of_ne_nil v hvne
      have hin : ∀ c ∈ v, ∀ i ∈ getMiss s.missing (DName.var c),
          i ∈ sortNat ((v.map DName.var).flatMap fun av => getMiss s.missing av).eraseDups := by
        intro c hc i hi
        rw [mem_sortNat, List.mem_eraseDups]
        exact List.mem_flatMap.mpr ⟨DName.var c, List.mem_map.mpr ⟨c, hc, rfl⟩, hi⟩
      have key := foldE_prefix
        (fun (pre : List DName) (t : State β) => JX w R rl its names m0 t ∧
          (∀ n ∈ pre, hasName w R n = true → (v.all fun c => !w.has R c) = false → CellOK w.src R rl its t.col n) ∧
          (∀ n, CellOK w.src R rl its s.col n → CellOK w.src R rl its t.col n))
        (stepCompX w R rl its (sortNat ((v.map DName.var).flatMap fun av => getMiss s.missing av).eraseDups)
          (v.all fun c => !w.has R c))
        (v.map DName.var ++ [DName.t])
        (by
          intro pre x t t1 hx hP hstep
          obtain ⟨hJt, hpre, hstab⟩ := hP
          have hxn : x ∈ names := by
            rcases List.mem_append.mp hx with hx | hx
            · obtain ⟨c, hc, rfl⟩ := List.mem_map.mp hx; exact hv c hc
            · simp at hx; subst hx; exact ht
          have hsub : ∀ i ∈ getMiss t.missing x,
              i ∈ sortNat ((v.map DName.var).flatMap fun av => getMiss s.missing av).eraseDups := by
            intro i hi
            rcases List.mem_append.mp hx with hx | hx
            · obtain ⟨c, hc, rfl⟩ := List.mem_map.mp hx
              rw [hJt.j.mvar c, ← hJ.j.mvar c] at hi
              exact hin c hc i hi
            · simp at hx; subst hx
              have := hJt.j.tsub i hi c0 (hv c0 hc0)
              rw [← hJ.j.mvar c0] at this
              exact hin c0 hc0 i this
          obtain ⟨h1, h2, h3⟩ := stepCompX_JX w R rl its names m0 _ _ t t1 x hJt hxn hsub hstep
          refine ⟨h1, ?_, fun n hn => h3 n (hstab n hn)⟩
          intro n hn hh he
          rcases List.mem_append.mp hn with hn | hn
          · exact h3 n (hpre n hn hh he)
          · simp at hn; subst hn; exact h2 hh he)
        [] s s' ⟨hJ, by simp, fun n hn => hn⟩ h
      obtain ⟨k1, k2, k3⟩ := key
      refine ⟨k1, ?_, k3, ?_⟩
      · intro c hc hh
        exact k2 _ (List.mem_append.mpr (Or.inr (List.mem_append.mpr (Or.inl (List.mem_map.mpr ⟨c, hc, rfl⟩))))) hh
          (all_not_has_false w R v c hc hh)
      · rintro ⟨c, hc, hh⟩
        exact k2 _ (List.mem_append.mpr (Or.inr (List.mem_append.mpr (Or.inr (List.mem_singleton.mpr rfl))))) rfl
          (all_not_has_false w R v c hc hh)

theorem initial_JX (var : List (List Nat)) (store : Store β) (hG : GInvX w store) :
    JX w R rl its (var.flatten.map DName.var ++ [DName.t])
      (initMissing its (readCache store R rl its (var.flatten.map DName.var ++ [DName.t]))
        (var.flatten.map DName.var ++ [DName.t]))
      { col := readCache store R rl its (var.flatten.map DName.var ++ [DName.t]),
        missing := initMissing its (readCache store R rl its (var.flatten.map DName.var ++ [DName.t]))
          (var.flatten.map DName.var ++ [DName.t]),
        store := store } := by
  refine ⟨initial_J w.src w.ofIt R rl its var store hG.1.1 hG.1.2, ?_⟩
  intro n hn hnh idx i hi
  simp only
  rw [readCache_col R rl its store _ n hn, List.getElem?_map, hi]
  simp only [Option.map_some, Option.some.injEq]
  cases n with
  | var c =>
    cases hg : store.get? ⟨R, i, DName.var c, rl⟩ with
    | none => rfl
    | some x =>
      have hk : (⟨R, i, DName.var c, rl⟩ : DKey) ∈ store.map Prod.fst :=
        List.mem_map.mpr ⟨(_, x), get?_mem store _ x hg, rfl⟩
      have := hG.2 _ hk c rfl
      simp only [hasName] at hnh
      rw [this] at hnh; cases hnh
  | t => simp [hasName] at hnh
  | it => simp [hasName] at hnh

theorem flatten_singletons (l : List Nat) : (l.map fun c => [c]).flatten = l := by
  induction l with
  | nil => rfl
  | cons a as ih => simp [ih]

/-- what the loop over the variables of one restart establishes -/
theorem readRestartX_loop (nofiles grouped : Bool) (var : List (List Nat)) (store : Store β)
    (hG : GInvX w store) (T : Tab β) (store' : Store β) (var' : List (List Nat))
    (h : readRestartX w nofiles grouped var store R rl its = .ok (T, store', var')) :
    T.its = its ∧ var'.flatten = var.flatten ∧
      ∃ st : State β, T.cols = st.col ∧
        JX w R rl its (var.flatten.map DName.var ++ [DName.t])
          (initMissing its (readCache store R rl its (var.flatten.map DName.var ++ [DName.t]))
            (var.flatten.map DName.var ++ [DName.t])) st ∧
        (∀ c ∈ var.flatten, w.has R c = true → CellOK w.src R rl its st.col (DName.var c)) ∧
        ((∃ c ∈ var.flatten, w.has R c = true) → CellOK w.src R rl its st.col DName.t) := by
  unfold readRestartX at h
  simp only at h
  split at h
  · cases h
  · rename_i st hst
    cases h
    have hvar' : (if grouped then var else var.flatten.map fun c => [c]).flatten = var.flatten := by
      cases grouped with
      | true => rfl
      | false => simp only [Bool.false_eq_true, if_false]; exact flatten_singletons _
    refine ⟨rfl, hvar', st, rfl, ?_⟩
    generalize hnames : var.flatten.map DName.var ++ [DName.t] = names at hst ⊢
    have htn : DName.t ∈ names := by rw [← hnames]; simp
    have hvn : ∀ c ∈ var.flatten, DName.var c ∈ names := by
      intro c hc; rw [← hnames]; exact List.mem_append.mpr (Or.inl (List.mem_map.mpr ⟨c, hc, rfl⟩))
    have hJ0 := initial_JX w R rl its var store hG
    rw [hnames] at hJ0
    have key := foldE_prefix
      (fun (pre : List (List Nat)) (t : State β) =>
        JX w R rl its names (initMissing its (readCache store R rl its names) names) t ∧
        (∀ v ∈ pre, ∀ c ∈ v, w.has R c = true → CellOK w.src R rl its t.col (DName.var c)) ∧
        ((∃ v ∈ pre, ∃ c ∈ v, w.has R c = true) → CellOK w.src R rl its t.col DName.t))
      (stepVarX w nofiles R rl its) (if grouped then var else var.flatten.map fun c => [c])
      (by
        intro pre v t t1 hv hP hstep
        obtain ⟨hJt, hpre, htd⟩ := hP
        have hvc : ∀ c ∈ v, DName.var c ∈ names := by
          intro c hc
          apply hvn
          rw [← hvar']
          exact List.mem_flatten.mpr ⟨v, hv, hc⟩
        obtain ⟨h1, h2, h3, h4⟩ := stepVarX_JX w R rl its names _ nofiles t t1 v hJt hvc htn hstep
        refine ⟨h1, ?_, ?_⟩
        · intro u hu c hc hh
          rcases List.mem_append.mp hu with hu | hu
          · exact h3 _ (hpre u hu c hc hh)
          · simp at hu; subst hu; exact h2 c hc hh
        · rintro ⟨u, hu, c, hc, hh⟩
          rcases List.mem_append.mp hu with hu | hu
          · exact h3 _ (htd ⟨u, hu, c, hc, hh⟩)
          · simp at hu; subst hu; exact h4 ⟨c, hc, hh⟩)
      [] _ st ⟨hJ0, by simp, by simp⟩ hst
    obtain ⟨k1, k2, k3⟩ := key
    simp only [List.nil_append] at k2 k3
    refine ⟨k1, ?_, ?_⟩
    · intro c hc hh
      rw [← hvar'] at hc
      obtain ⟨v, hv, hcv⟩ := List.mem_flatten.mp hc
      exact k2 v hv c hcv hh
    · rintro ⟨c, hc, hh⟩
      rw [← hvar'] at hc
      obtain ⟨v, hv, hcv⟩ := List.mem_flatten.mp hc
      exact k3 ⟨v, hv, c, hcv, hh⟩

/-- every column of the cached table has an entry at every position -/
theorem jx_wf (names : List DName) (m0 : Dict DName (List Nat)) (st : State β) (hJ : JX w R rl its names m0 st)
    (k : DName) (hk : k ∈ st.col.map Prod.fst) (idx i : Nat) (hi : its[idx]? = some i) :
    ∃ v, colVal st.col k idx = some v := by
  rcases hJ.j.good k (hJ.j.keys k hk) idx i hi with h1 | ⟨h1, _⟩
  · exact ⟨_, colVal_of_getCol _ _ _ _ h1⟩
  · exact ⟨_, colVal_of_getCol _ _ _ _ h1⟩

/-- **one restart through the cache, the variables** (no hypothesis on what the restart
holds): every requested component it holds is the source at every position, every
component it does not hold is `None`, whatever the cache held -/
theorem readRestartX_spec_vars (nofiles grouped : Bool) (var : List (List Nat)) (store : Store β)
    (hG : GInvX w store) (T : Tab β) (store' : Store β) (var' : List (List Nat))
    (h : readRestartX w nofiles grouped var store R rl its = .ok (T, store', var')) :
    TabSpec w rl (var.flatten.map DName.var) (R, T) ∧ T.its = its ∧ var'.flatten = var.flatten := by
  obtain ⟨hits, hflat, st, hcols, hJ, hvars, _⟩ := readRestartX_loop w R rl its nofiles grouped var store hG T store' var' h
  refine ⟨⟨?_, ?_⟩, hits, hflat⟩
  · intro k hk idx i hi
    simp only [hcols, hits] at hk hi ⊢
    exact jx_wf w R rl its _ _ st hJ k hk idx i hi
  · intro n hn idx i hi
    simp only [hcols, hits] at hi ⊢
    obtain ⟨c, hc, rfl⟩ := List.mem_map.mp hn
    have hnn : DName.var c ∈ var.flatten.map DName.var ++ [DName.t] := List.mem_append.mpr (Or.inl hn)
    by_cases hh : w.has R c = true
    · simp only [expect, hasName, hh, if_true]
      exact colVal_of_getCol _ _ _ _ (hvars c hc hh idx i hi)
    · have hh' : hasName w R (DName.var c) = false := by simpa [hasName] using hh
      simp only [expect, hh', Bool.false_eq_true, if_false]
      exact colVal_of_getCol _ _ _ _ (hJ.nohold _ hnn hh' idx i hi)

/-- **one restart through the cache, the time included**: if the restart holds at least one
requested component -/
theorem readRestartX_spec (nofiles grouped : Bool) (var : List (List Nat)) (store : Store β)
    (hG : GInvX w store) (c1 : Nat) (hc1 : c1 ∈ var.flatten) (hh1 : w.has R c1 = true)
    (T : Tab β) (store' : Store β) (var' : List (List Nat))
    (h : readRestartX w nofiles grouped var store R rl its = .ok (T, store', var')) :
    TabSpec w rl (var.flatten.map DName.var ++ [DName.t]) (R, T) ∧ T.its = its ∧ var'.flatten = var.flatten := by
  obtain ⟨hspec, hits, hflat⟩ := readRestartX_spec_vars w R rl its nofiles grouped var store hG T store' var' h
  obtain ⟨_, _, st, hcols, hJ, _, ht⟩ := readRestartX_loop w R rl its nofiles grouped var store hG T store' var' h
  refine ⟨⟨hspec.wf, ?_⟩, hits, hflat⟩
  intro n hn idx i hi
  rcases List.mem_append.mp hn with hn | hn
  · exact hspec.vals n hn idx i hi
  · simp at hn; subst hn
    simp only [hcols, hits] at hi ⊢
    simp only [expect, hasName, if_true]
    exact colVal_of_getCol _ _ _ _ (ht ⟨c1, hc1, hh1⟩ idx i hi)

/-! ### the cached read of one restart does not raise -/

theorem stepVarX_total (names : List DName) (m0 : Dict DName (List Nat)) (s : State β) (v : List Nat)
    (hJ : JX w R rl its names m0 s) (hv : ∀ c ∈ v, DName.var c ∈ names) (ht : DName.t ∈ names) :
    ∃ s', stepVarX w false R rl its s v = .ok s' := by
  unfold stepVarX
  simp only
  split
  · exact ⟨s, rfl⟩
  · rename_i hne
    simp only [Bool.false_eq_true, if_false]
    have hvne : v ≠ [] := by
      intro e; subst e; exact hne (by simp)
    obtain ⟨c0, hc0⟩ := List.exists_mem_of_ne_nil v hvne
    have hin : ∀ c ∈ v, ∀ i ∈ getMiss s.missing (DName.var c),
        i ∈ sortNat ((v.map DName.var).flatMap fun av => getMiss s.missing av).eraseDups := by
      intro c hc i hi
      rw [mem_sortNat, List.mem_eraseDups]
      exact List.mem_flatMap.mpr ⟨DName.var c, List.mem_map.mpr ⟨c, hc, rfl⟩, hi⟩
    generalize htmp : sortNat ((v.map DName.var).flatMap fun av => getMiss s.missing av).eraseDups = tmpIts at hin
    obtain ⟨s1, hs1, _⟩ := foldE_total
      (fun t : State β => JX w R rl its names m0 t)
      (stepCompX w R rl its tmpIts (v.all fun c => !w.has R c)) (v.map DName.var ++ [DName.t])
      (by
        intro x t hx hJt
        have hxn : x ∈ names := by
          rcases List.mem_append.mp hx with hx | hx
          · obtain ⟨c, hc, rfl⟩ := List.mem_map.mp hx; exact hv c hc
          · simp at hx; subst hx; exact ht
        have hsub : ∀ i ∈ getMiss t.missing x, i ∈ tmpIts := by
          intro i hi
          rcases List.mem_append.mp hx with hx | hx
          · obtain ⟨c, hc, rfl⟩ := List.mem_map.mp hx
            rw [hJt.j.mvar c, ← hJ.j.mvar c] at hi
            exact hin c hc i hi
          · simp at hx; subst hx
            have := hJt.j.tsub i hi c0 (hv c0 hc0)
            rw [← hJ.j.mvar c0] at this
            exact hin c0 hc0 i this
        have hstep : ∃ t1, stepCompX w R rl its tmpIts (v.all fun c => !w.has R c) t x = .ok t1 := by
          unfold stepCompX
          split
          · obtain ⟨t1, h1⟩ := stepComp_total w.src w.ofIt R rl its tmpIts t x hsub
            exact ⟨t1, by rw [h1]⟩
          · exact ⟨t, rfl⟩
        obtain ⟨t1, h1⟩ := hstep
        exact ⟨t1, h1, (stepCompX_JX w R rl its names m0 tmpIts _ t t1 x hJt hxn hsub h1).1⟩) s hJ
    exact ⟨s1, hs1⟩

/-- **the cached read of one restart that has 3D output never raises** on a cache with
the invariant (no `list.index` ValueError, no index out of range), whatever it holds -/
theorem readRestartX_total (grouped : Bool) (var : List (List Nat)) (store : Store β) (hG : GInvX w store) :
    ∃ r, readRestartX w false grouped var store R rl its = .ok r := by
  unfold readRestartX
  simp only
  have hvar' : (if grouped then var else var.flatten.map fun c => [c]).flatten = var.flatten := by
    cases grouped with
    | true => rfl
    | false => simp only [Bool.false_eq_true, if_false]; exact flatten_singletons _
  generalize hnames : var.flatten.map DName.var ++ [DName.t] = names
  have htn : DName.t ∈ names := by rw [← hnames]; simp
  have hvn : ∀ c ∈ var.flatten, DName.var c ∈ names := by
    intro c hc; rw [← hnames]; exact List.mem_append.mpr (Or.inl (List.mem_map.mpr ⟨c, hc, rfl⟩))
  have hJ0 := initial_JX w R rl its var store hG
  rw [hnames] at hJ0
  obtain ⟨st, hst, _⟩ := foldE_total
    (fun (t : State β) => JX w R rl its names (initMissing its (readCache store R rl its names) names) t)
    (stepVarX w false R rl its) (if grouped then var else var.flatten.map fun c => [c])
    (by
      intro v t hv hJt
      have hvc : ∀ c ∈ v, DName.var c ∈ names := by
        intro c hc
        apply hvn
        rw [← hvar']
        exact List.mem_flatten.mpr ⟨v, hv, hc⟩
      obtain ⟨t1, h1⟩ := stepVarX_total w R rl its names _ t v hJt hvc htn
      exact ⟨t1, h1, (stepVarX_JX w R rl its names _ false t t1 v hJt hvc htn h1).1⟩)
    _ hJ0
  rw [hst]
  exact ⟨_, rfl⟩

end cols

end AurelVerif.ReadCacheXLemmas
