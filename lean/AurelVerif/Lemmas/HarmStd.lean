/-
Lemmas/HarmStd.lean — T3 over ℝ/ℂ: for l ≤ 4 the value computed by
`maths.sYlm(0, l, m, θ, φ)` is `(−1)^m` times the standard spherical harmonic
`Y_lm` (Condon–Shortley phase inside `P_l^m`), i.e. the code follows Goldberg et
al. (1967) eq. 3.1 literally, which has no Condon–Shortley phase.
-/
import AurelVerif.Lemmas.HarmPhi
import AurelVerif.Lemmas.HarmLegendre

namespace AurelVerif.HarmLemmas
open AurelVerif.Harm AurelVerif.HarmSpec Complex
open scoped Real

/-- standard `Y_lm(θ, φ) = √((2l+1)/(4π) · (l−m)!/(l+m)!) · P_l^m(cos θ) · e^{imφ}` -/
noncomputable def stdYlm (l : Nat) (m : Int) (θ φ : ℝ) : ℂ :=
  ((Real.sqrt ((2 * (l : ℝ) + 1) / (4 * π)
      * ((((l : Int) - m).toNat.factorial : ℝ) / (((l : Int) + m).toNat.factorial : ℝ))) : ℝ) : ℂ)
    * ((assocLegendre l m (Real.cos θ) (Real.sin θ) : ℝ) : ℂ)
    * exp (I * (m : ℂ) * (φ : ℂ))

theorem spin0_is_standard (l : Nat) (hl : l ≤ 4) (m : Int) (hm : |m| ≤ (l : Int)) (θ φ : ℝ) :
    sYlmC 0 l m θ φ = (-1 : ℂ) ^ m.natAbs * stdYlm l m θ φ := by
  have h : Real.cos (θ / 2) ^ 2 + Real.sin (θ / 2) ^ 2 = 1 := Real.cos_sq_add_sin_sq (θ / 2)
  have hcos : Real.cos θ = Real.cos (θ / 2) ^ 2 - Real.sin (θ / 2) ^ 2 := by
    have := Real.cos_two_mul' (θ / 2)
    rwa [show 2 * (θ / 2) = θ by ring] at this
  have hsin : Real.sin θ = 2 * Real.cos (θ / 2) * Real.sin (θ / 2) := by
    have := Real.sin_two_mul (θ / 2)
    rw [show 2 * (θ / 2) = θ by ring] at this
    rw [this]; ring
  have T := spin0_table (K := ℝ) (Real.cos (θ / 2)) (Real.sin (θ / 2)) h l hl m hm
  unfold Spin0Id at T
  rw [← hcos, ← hsin] at T
  have hrad := normRadicand_eq 0 l m (by simp) hm
  simp only [add_zero, sub_zero, Int.toNat_natCast] at hrad
  set a : ℝ := ((((l : Int) + m).toNat.factorial : ℕ) : ℝ) with ha
  set b : ℝ := ((((l : Int) - m).toNat.factorial : ℕ) : ℝ) with hb
  set n : ℝ := ((l.factorial : ℕ) : ℝ) with hn
  have ha0 : 0 < a := by rw [ha]; exact_mod_cast Nat.factorial_pos _
  have hb0 : 0 < b := by rw [hb]; exact_mod_cast Nat.factorial_pos _
  have hn0 : 0 < n := by rw [hn]; exact_mod_cast Nat.factorial_pos _
  set F : ℝ := evalK (harmTerms 0 (l : Int) m) (Real.cos (θ / 2)) (Real.sin (θ / 2)) with hF
  set P : ℝ := assocLegendre l m (Real.cos θ) (Real.sin θ) with hP
  -- F = (−1)^m · (n / a) · P
  have hFP : F = (-1 : ℝ) ^ m.natAbs * (n / a) * P := by
    have : a * F = (-1 : ℝ) ^ m.natAbs * n * P := T
    field_simp
    linarith [this]
  -- √A · (n / a) = √B
  have hpi : 0 < π := Real.pi_pos
  have hA : (((normRadicand 0 (l : Int) m : ℚ)) : ℝ) / π = a * b * (2 * (l : ℝ) + 1) / (n * n * 4) / π := by
    rw [hrad]; push_cast; rfl
  have hsq : Real.sqrt ((((normRadicand 0 (l : Int) m : ℚ)) : ℝ) / π) * (n / a)
      = Real.sqrt ((2 * (l : ℝ) + 1) / (4 * π) * (b / a)) := by
    have hq : 0 ≤ n / a := le_of_lt (div_pos hn0 ha0)
    calc Real.sqrt ((((normRadicand 0 (l : Int) m : ℚ)) : ℝ) / π) * (n / a)
        = Real.sqrt ((((normRadicand 0 (l : Int) m : ℚ)) : ℝ) / π) * Real.sqrt ((n / a) ^ 2) := by
          rw [Real.sqrt_sq hq]
      _ = Real.sqrt ((((normRadicand 0 (l : Int) m : ℚ)) : ℝ) / π * (n / a) ^ 2) := by
          rw [Real.sqrt_mul' _ (sq_nonneg _)]
      _ = Real.sqrt ((2 * (l : ℝ) + 1) / (4 * π) * (b / a)) := by
          congr 1
          rw [hA]
          field_simp
  unfold sYlmC stdYlm
  rw [← hF, ← hP, ← hsq, hFP]
  push_cast
  ring

end AurelVerif.HarmLemmas
