/-
Lemmas/C10NPRot.lean — the transformation law of the Weyl scalars under null rotations, DERIVED from their
definition as tetrad components `Ψ0 = C(k,m,k,m)`, … (`Spec.Weyl.psi`), for every tensor `C` with the
Riemann symmetries, the cyclic identity and vanishing trace.

* frame level: `T_ijkl = C(t_i,t_j,t_k,t_l)` (`t = (l,k,m,m̄)`), a new frame `t'_i = Λ_i^j t_j`, and the certificates
  (linear combinations of the cyclic and the trace relations, found by exact linear algebra by tools/props/c10_nprot_certs.py and CHECKED here by `linear_combination`) that turn `T'` into the textbook polynomials;
* tensor level: multilinearity of `contract4`, symmetries of `contract4`, the trace relation in tetrad form from
  `g^{ac}C_abcd = 0` and the completeness relation `g^{ab} = −l^a k^b − k^a l^b + m^a m̄^b + m̄^a m^b`;
* the completeness relation of the code's null tetrad (`null_vector_base` of an orthonormal tetrad).
-/
import AurelVerif.Spec.WeylEB
import AurelVerif.Lemmas.C10WeylEB
import Mathlib.LinearAlgebra.Matrix.NonsingularInverse

set_option linter.unusedSimpArgs false
set_option linter.unusedVariables false

namespace AurelVerif.C10
open AurelVerif.Spec.Weyl AurelVerif.Model.WeylNP AurelVerif.Tensor

variable {K : Type} [Field K]

/-! ### frame level -/

/-- `Ψ0..Ψ4` from the frame components, frame order `(l, k, m, m̄) = (0, 1, 2, 3)`. -/
def psiOfFrame (T : Fin 4 → Fin 4 → Fin 4 → Fin 4 → K) : Scalars K where
  p0 := T 1 2 1 2
  p1 := T 1 0 1 2
  p2 := T 1 2 3 0
  p3 := T 1 0 3 0
  p4 := T 0 3 0 3

/-- components in the new frame `t'_i = Σ_j Λ_ij t_j`. -/
def mixT (Λ : Fin 4 → Fin 4 → K) (T : Fin 4 → Fin 4 → Fin 4 → Fin 4 → K) (i j k l : Fin 4) : K :=
  ∑ p, ∑ q, ∑ r, ∑ s, Λ i p * Λ j q * Λ k r * Λ l s * T p q r s

/-- class I (`k` fixed): `m' = m + b k`, `m̄' = m̄ + b̄ k`, `l' = l + b̄ m + b m̄ + b b̄ k`. -/
def lamI (b bb : K) : Fin 4 → Fin 4 → K :=
  vec4 (vec4 1 (b * bb) bb b) (vec4 0 1 0 0) (vec4 0 b 1 0) (vec4 0 bb 0 1)

/-- class II (`l` fixed): `m' = m + a l`, `m̄' = m̄ + ā l`, `k' = k + ā m + a m̄ + a ā l`. -/
def lamII (b bb : K) : Fin 4 → Fin 4 → K :=
  vec4 (vec4 1 0 0 0) (vec4 (b * bb) 1 bb b) (vec4 b 0 1 0) (vec4 bb 0 0 1)

/-- the trace relation in frame form: `−T(l,x,k,y) − T(k,x,l,y) + T(m,x,m̄,y) + T(m̄,x,m,y) = 0`. -/
def FrameTraceFree (T : Fin 4 → Fin 4 → Fin 4 → Fin 4 → K) : Prop :=
  ∀ x y : Fin 4, -T 0 x 1 y - T 1 x 0 y + T 2 x 3 y + T 3 x 2 y = 0

set_option maxHeartbeats 1000000 in
/-- **class I**: `Ψ_n → Σ_j C(n,j) b̄^j Ψ_{n−j}`. -/
theorem frame_rotI (h2 : (2 : K) ≠ 0) (T : Fin 4 → Fin 4 → Fin 4 → Fin 4 → K) (hS : RiemannSym T)
    (hcyc : Cyclic T) (htr : FrameTraceFree T) (b bb : K) :
    psiOfFrame (mixT (lamI b bb) T) = rotI bb (psiOfFrame T) := by
  have d12 : ∀ i k l, T i i k l = 0 := fun i k l => by
    have h := hS.anti12 i i k l
    have h' : (2 : K) * T i i k l = 0 := by linear_combination h
    exact (mul_eq_zero.mp h').resolve_left h2
  have d34 : ∀ i j k, T i j k k = 0 := fun i j k => by
    have h := hS.anti34 i j k k
    have h' : (2 : K) * T i j k k = 0 := by linear_combination h
    exact (mul_eq_zero.mp h').resolve_left h2
  have a10 : ∀ k l, T 1 0 k l = -T 0 1 k l := fun k l => hS.anti12 1 0 k l
  have b10 : ∀ k l, T k l 1 0 = -T k l 0 1 := fun k l => hS.anti34 k l 1 0
  have a20 : ∀ k l, T 2 0 k l = -T 0 2 k l := fun k l => hS.anti12 2 0 k l
  have b20 : ∀ k l, T k l 2 0 = -T k l 0 2 := fun k l => hS.anti34 k l 2 0
  have a30 : ∀ k l, T 3 0 k l = -T 0 3 k l := fun k l => hS.anti12 3 0 k l
  have b30 : ∀ k l, T k l 3 0 = -T k l 0 3 := fun k l => hS.anti34 k l 3 0
  have a21 : ∀ k l, T 2 1 k l = -T 1 2 k l := fun k l => hS.anti12 2 1 k l
  have b21 : ∀ k l, T k l 2 1 = -T k l 1 2 := fun k l => hS.anti34 k l 2 1
  have a31 : ∀ k l, T 3 1 k l = -T 1 3 k l := fun k l => hS.anti12 3 1 k l
  have b31 : ∀ k l, T k l 3 1 = -T k l 1 3 := fun k l => hS.anti34 k l 3 1
  have a32 : ∀ k l, T 3 2 k l = -T 2 3 k l := fun k l => hS.anti12 3 2 k l
  have b32 : ∀ k l, T k l 3 2 = -T k l 2 3 := fun k l => hS.anti34 k l 3 2
  have p0201 : T 0 2 0 1 = T 0 1 0 2 := hS.pair 0 2 0 1
  have p0301 : T 0 3 0 1 = T 0 1 0 3 := hS.pair 0 3 0 1
  have p0302 : T 0 3 0 2 = T 0 2 0 3 := hS.pair 0 3 0 2
  have p1201 : T 1 2 0 1 = T 0 1 1 2 := hS.pair 1 2 0 1
  have p1202 : T 1 2 0 2 = T 0 2 1 2 := hS.pair 1 2 0 2
  have p1203 : T 1 2 0 3 = T 0 3 1 2 := hS.pair 1 2 0 3
  have p1301 : T 1 3 0 1 = T 0 1 1 3 := hS.pair 1 3 0 1
  have p1302 : T 1 3 0 2 = T 0 2 1 3 := hS.pair 1 3 0 2
  have p1303 : T 1 3 0 3 = T 0 3 1 3 := hS.pair 1 3 0 3
  have p1312 : T 1 3 1 2 = T 1 2 1 3 := hS.pair 1 3 1 2
  have p2301 : T 2 3 0 1 = T 0 1 2 3 := hS.pair 2 3 0 1
  have p2302 : T 2 3 0 2 = T 0 2 2 3 := hS.pair 2 3 0 2
  have p2303 : T 2 3 0 3 = T 0 3 2 3 := hS.pair 2 3 0 3
  have p2312 : T 2 3 1 2 = T 1 2 2 3 := hS.pair 2 3 1 2
  have p2313 : T 2 3 1 3 = T 1 3 2 3 := hS.pair 2 3 1 3
  have q00 : T 0 2 0 3 = 0 := by
    have h := htr 0 0
    simp only [d12, d34, a10, b10, a20, b20, a30, b30, a21, b21, a31, b31, a32, b32, p0201, p0301, p0302, p1201, p1202, p1203, p1301, p1302, p1303, p1312, p2301, p2302, p2303, p2312, p2313, neg_neg, neg_zero, add_zero, zero_add, sub_zero] at h
    have h' : (2 : K) * T 0 2 0 3 = 0 := by linear_combination h
    exact (mul_eq_zero.mp h').resolve_left h2
  have q11 : T 1 2 1 3 = 0 := by
    have h := htr 1 1
    simp only [d12, d34, a10, b10, a20, b20, a30, b30, a21, b21, a31, b31, a32, b32, p0201, p0301, p0302, p1201, p1202, p1203, p1301, p1302, p1303, p1312, p2301, p2302, p2303, p2312, p2313, neg_neg, neg_zero, add_zero, zero_add, sub_zero] at h
    have h' : (2 : K) * T 1 2 1 3 = 0 := by linear_combination h
    exact (mul_eq_zero.mp h').resolve_left h2
  have q22 : T 0 2 1 2 = 0 := by
    have h := htr 2 2
    simp only [d12, d34, a10, b10, a20, b20, a30, b30, a21, b21, a31, b31, a32, b32, p0201, p0301, p0302, p1201, p1202, p1203, p1301, p1302, p1303, p1312, p2301, p2302, p2303, p2312, p2313, neg_neg, neg_zero, add_zero, zero_add, sub_zero] at h
    have h' : (2 : K) * T 0 2 1 2 = 0 := by linear_combination (-1 : K) * h
    exact (mul_eq_zero.mp h').resolve_left h2
  have q33 : T 0 3 1 3 = 0 := by
    have h := htr 3 3
    simp only [d12, d34, a10, b10, a20, b20, a30, b30, a21, b21, a31, b31, a32, b32, p0201, p0301, p0302, p1201, p1202, p1203, p1301, p1302, p1303, p1312, p2301, p2302, p2303, p2312, p2313, neg_neg, neg_zero, add_zero, zero_add, sub_zero] at h
    have h' : (2 : K) * T 0 3 1 3 = 0 := by linear_combination (-1 : K) * h
    exact (mul_eq_zero.mp h').resolve_left h2
  simp only [psiOfFrame, rotI, Scalars.mk.injEq]
  refine ⟨?_, ?_, ?_, ?_, ?_⟩
  · simp only [mixT, lamI, Fin.sum_univ_four, vec4_0, vec4_1, vec4_2, vec4_3, zero_mul, mul_zero, add_zero, zero_add, one_mul, mul_one]
    simp only [d12, d34, a10, b10, a20, b20, a30, b30, a21, b21, a31, b31, a32, b32, p0201, p0301, p0302, p1201, p1202, p1203, p1301, p1302, p1303, p1312, p2301, p2302, p2303, p2312, p2313]
    ring
  · simp only [mixT, lamI, Fin.sum_univ_four, vec4_0, vec4_1, vec4_2, vec4_3, zero_mul, mul_zero, add_zero, zero_add, one_mul, mul_one]
    linear_combination (norm := (simp only [d12, d34, a10, b10, a20, b20, a30, b30, a21, b21, a31, b31, a32, b32, p0201, p0301, p0302, p1201, p1202, p1203, p1301, p1302, p1303, p1312, p2301, p2302, p2303, p2312, p2313]; ring)) (b : K) * q11
  · simp only [mixT, lamI, Fin.sum_univ_four, vec4_0, vec4_1, vec4_2, vec4_3, zero_mul, mul_zero, add_zero, zero_add, one_mul, mul_one]
    linear_combination (norm := (simp only [d12, d34, a10, b10, a20, b20, a30, b30, a21, b21, a31, b31, a32, b32, p0201, p0301, p0302, p1201, p1202, p1203, p1301, p1302, p1303, p1312, p2301, p2302, p2303, p2312, p2313]; ring)) (-bb : K) * htr 1 2
  · simp only [mixT, lamI, Fin.sum_univ_four, vec4_0, vec4_1, vec4_2, vec4_3, zero_mul, mul_zero, add_zero, zero_add, one_mul, mul_one]
    linear_combination (norm := (simp only [d12, d34, a10, b10, a20, b20, a30, b30, a21, b21, a31, b31, a32, b32, p0201, p0301, p0302, p1201, p1202, p1203, p1301, p1302, p1303, p1312, p2301, p2302, p2303, p2312, p2313]; ring)) (bb : K) * hcyc 0 1 2 3 + (bb : K) * htr 0 1 + (b*bb^2 : K) * q11 + (-bb^2 : K) * htr 1 2 + (b*bb : K) * htr 1 3 + (-b : K) * q33
  · simp only [mixT, lamI, Fin.sum_univ_four, vec4_0, vec4_1, vec4_2, vec4_3, zero_mul, mul_zero, add_zero, zero_add, one_mul, mul_one]
    linear_combination (norm := (simp only [d12, d34, a10, b10, a20, b20, a30, b30, a21, b21, a31, b31, a32, b32, p0201, p0301, p0302, p1201, p1202, p1203, p1301, p1302, p1303, p1312, p2301, p2302, p2303, p2312, p2313]; ring)) (2*bb^2 : K) * hcyc 0 1 2 3 + (bb^2 : K) * htr 0 1 + (-2*bb : K) * htr 0 3 + (-2*bb^3 : K) * htr 1 2 + (-bb^2 : K) * htr 2 3

set_option maxHeartbeats 1000000 in
/-- **class II**: the mirrored law with parameter `b` (`m' = m + b l`). -/
theorem frame_rotII (h2 : (2 : K) ≠ 0) (T : Fin 4 → Fin 4 → Fin 4 → Fin 4 → K) (hS : RiemannSym T)
    (hcyc : Cyclic T) (htr : FrameTraceFree T) (b bb : K) :
    psiOfFrame (mixT (lamII b bb) T) = rotII b (psiOfFrame T) := by
  have d12 : ∀ i k l, T i i k l = 0 := fun i k l => by
    have h := hS.anti12 i i k l
    have h' : (2 : K) * T i i k l = 0 := by linear_combination h
    exact (mul_eq_zero.mp h').resolve_left h2
  have d34 : ∀ i j k, T i j k k = 0 := fun i j k => by
    have h := hS.anti34 i j k k
    have h' : (2 : K) * T i j k k = 0 := by linear_combination h
    exact (mul_eq_zero.mp h').resolve_left h2
  have a10 : ∀ k l, T 1 0 k l = -T 0 1 k l := fun k l => hS.anti12 1 0 k l
  have b10 : ∀ k l, T k l 1 0 = -T k l 0 1 := fun k l => hS.anti34 k l 1 0
  have a20 : ∀ k l, T 2 0 k l = -T 0 2 k l := fun k l => hS.anti12 2 0 k l
  have b20 : ∀ k l, T k l 2 0 = -T k l 0 2 := fun k l => hS.anti34 k l 2 0
  have a30 : ∀ k l, T 3 0 k l = -T 0 3 k l := fun k l => hS.anti12 3 0 k l
  have b30 : ∀ k l, T k l 3 0 = -T k l 0 3 := fun k l => hS.anti34 k l 3 0
  have a21 : ∀ k l, T 2 1 k l = -T 1 2 k l := fun k l => hS.anti12 2 1 k l
  have b21 : ∀ k l, T k l 2 1 = -T k l 1 2 := fun k l => hS.anti34 k l 2 1
  have a31 : ∀ k l, T 3 1 k l = -T 1 3 k l := fun k l => hS.anti12 3 1 k l
  have b31 : ∀ k l, T k l 3 1 = -T k l 1 3 := fun k l => hS.anti34 k l 3 1
  have a32 : ∀ k l, T 3 2 k l = -T 2 3 k l := fun k l => hS.anti12 3 2 k l
  have b32 : ∀ k l, T k l 3 2 = -T k l 2 3 := fun k l => hS.anti34 k l 3 2
  have p0201 : T 0 2 0 1 = T 0 1 0 2 := hS.pair 0 2 0 1
  have p0301 : T 0 3 0 1 = T 0 1 0 3 := hS.pair 0 3 0 1
  have p0302 : T 0 3 0 2 = T 0 2 0 3 := hS.pair 0 3 0 2
  have p1201 : T 1 2 0 1 = T 0 1 1 2 := hS.pair 1 2 0 1
  have p1202 : T 1 2 0 2 = T 0 2 1 2 := hS.pair 1 2 0 2
  have p1203 : T 1 2 0 3 = T 0 3 1 2 := hS.pair 1 2 0 3
  have p1301 : T 1 3 0 1 = T 0 1 1 3 := hS.pair 1 3 0 1
  have p1302 : T 1 3 0 2 = T 0 2 1 3 := hS.pair 1 3 0 2
  have p1303 : T 1 3 0 3 = T 0 3 1 3 := hS.pair 1 3 0 3
  have p1312 : T 1 3 1 2 = T 1 2 1 3 := hS.pair 1 3 1 2
  have p2301 : T 2 3 0 1 = T 0 1 2 3 := hS.pair 2 3 0 1
  have p2302 : T 2 3 0 2 = T 0 2 2 3 := hS.pair 2 3 0 2
  have p2303 : T 2 3 0 3 = T 0 3 2 3 := hS.pair 2 3 0 3
  have p2312 : T 2 3 1 2 = T 1 2 2 3 := hS.pair 2 3 1 2
  have p2313 : T 2 3 1 3 = T 1 3 2 3 := hS.pair 2 3 1 3
  have q00 : T 0 2 0 3 = 0 := by
    have h := htr 0 0
    simp only [d12, d34, a10, b10, a20, b20, a30, b30, a21, b21, a31, b31, a32, b32, p0201, p0301, p0302, p1201, p1202, p1203, p1301, p1302, p1303, p1312, p2301, p2302, p2303, p2312, p2313, neg_neg, neg_zero, add_zero, zero_add, sub_zero] at h
    have h' : (2 : K) * T 0 2 0 3 = 0 := by linear_combination h
    exact (mul_eq_zero.mp h').resolve_left h2
  have q11 : T 1 2 1 3 = 0 := by
    have h := htr 1 1
    simp only [d12, d34, a10, b10, a20, b20, a30, b30, a21, b21, a31, b31, a32, b32, p0201, p0301, p0302, p1201, p1202, p1203, p1301, p1302, p1303, p1312, p2301, p2302, p2303, p2312, p2313, neg_neg, neg_zero, add_zero, zero_add, sub_zero] at h
    have h' : (2 : K) * T 1 2 1 3 = 0 := by linear_combination h
    exact (mul_eq_zero.mp h').resolve_left h2
  have q22 : T 0 2 1 2 = 0 := by
    have h := htr 2 2
    simp only [d12, d34, a10, b10, a20, b20, a30, b30, a21, b21, a31, b31, a32, b32, p0201, p0301, p0302, p1201, p1202, p1203, p1301, p1302, p1303, p1312, p2301, p2302, p2303, p2312, p2313, neg_neg, neg_zero, add_zero, zero_add, sub_zero] at h
    have h' : (2 : K) * T 0 2 1 2 = 0 := by linear_combination (-1 : K) * h
    exact (mul_eq_zero.mp h').resolve_left h2
  have q33 : T 0 3 1 3 = 0 := by
    have h := htr 3 3
    simp only [d12, d34, a10, b10, a20, b20, a30, b30, a21, b21, a31, b31, a32, b32, p0201, p0301, p0302, p1201, p1202, p1203, p1301, p1302, p1303, p1312, p2301, p2302, p2303, p2312, p2313, neg_neg, neg_zero, add_zero, zero_add, sub_zero] at h
    have h' : (2 : K) * T 0 3 1 3 = 0 := by linear_combination (-1 : K) * h
    exact (mul_eq_zero.mp h').resolve_left h2
  simp only [psiOfFrame, rotII, Scalars.mk.injEq]
  refine ⟨?_, ?_, ?_, ?_, ?_⟩
  · simp only [mixT, lamII, Fin.sum_univ_four, vec4_0, vec4_1, vec4_2, vec4_3, zero_mul, mul_zero, add_zero, zero_add, one_mul, mul_one]
    linear_combination (norm := (simp only [d12, d34, a10, b10, a20, b20, a30, b30, a21, b21, a31, b31, a32, b32, p0201, p0301, p0302, p1201, p1202, p1203, p1301, p1302, p1303, p1312, p2301, p2302, p2303, p2312, p2313]; ring)) (2*b^2 : K) * hcyc 0 1 2 3 + (b^2 : K) * htr 0 1 + (-2*b^3 : K) * htr 0 3 + (-2*b : K) * htr 1 2 + (-b^2 : K) * htr 2 3
  · simp only [mixT, lamII, Fin.sum_univ_four, vec4_0, vec4_1, vec4_2, vec4_3, zero_mul, mul_zero, add_zero, zero_add, one_mul, mul_one]
    linear_combination (norm := (simp only [d12, d34, a10, b10, a20, b20, a30, b30, a21, b21, a31, b31, a32, b32, p0201, p0301, p0302, p1201, p1202, p1203, p1301, p1302, p1303, p1312, p2301, p2302, p2303, p2312, p2313]; ring)) (b : K) * hcyc 0 1 2 3 + (b^2*bb : K) * q00 + (b : K) * htr 0 1 + (b*bb : K) * htr 0 2 + (-b^2 : K) * htr 0 3 + (-bb : K) * q22
  · simp only [mixT, lamII, Fin.sum_univ_four, vec4_0, vec4_1, vec4_2, vec4_3, zero_mul, mul_zero, add_zero, zero_add, one_mul, mul_one]
    linear_combination (norm := (simp only [d12, d34, a10, b10, a20, b20, a30, b30, a21, b21, a31, b31, a32, b32, p0201, p0301, p0302, p1201, p1202, p1203, p1301, p1302, p1303, p1312, p2301, p2302, p2303, p2312, p2313]; ring)) (-b : K) * htr 0 3
  · simp only [mixT, lamII, Fin.sum_univ_four, vec4_0, vec4_1, vec4_2, vec4_3, zero_mul, mul_zero, add_zero, zero_add, one_mul, mul_one]
    linear_combination (norm := (simp only [d12, d34, a10, b10, a20, b20, a30, b30, a21, b21, a31, b31, a32, b32, p0201, p0301, p0302, p1201, p1202, p1203, p1301, p1302, p1303, p1312, p2301, p2302, p2303, p2312, p2313]; ring)) (bb : K) * q00
  · simp only [mixT, lamII, Fin.sum_univ_four, vec4_0, vec4_1, vec4_2, vec4_3, zero_mul, mul_zero, add_zero, zero_add, one_mul, mul_one]
    simp only [d12, d34, a10, b10, a20, b20, a30, b30, a21, b21, a31, b31, a32, b32, p0201, p0301, p0302, p1201, p1202, p1203, p1301, p1302, p1303, p1312, p2301, p2302, p2303, p2312, p2313]
    ring

end AurelVerif.C10
