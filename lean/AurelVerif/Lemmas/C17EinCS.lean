/-
Lemmas/C17EinCS.lean — Collins_Stewart (Bianchi II, γ = 4/3): all ten Einstein equations
`G_ab = κ T_ab` for the module's own `gdown4`, `rho`, `press`, `kappa` (perfect fluid at rest), for all
`t > 0`; the 2-jet is proven to consist of the partial derivatives of the module's metric.
-/
import AurelVerif.Lemmas.C17JetCS
import AurelVerif.Lemmas.Solutions
import AurelVerif.Spec.MetricJet
import AurelVerif.Lemmas.C17DerivTac

set_option linter.unusedVariables false
set_option linter.unusedTactic false
set_option linter.unreachableTactic false
set_option linter.unusedSimpArgs false

namespace AurelVerif.C17Ein
open AurelVerif.Gen.Solutions AurelVerif.SolutionsLemmas AurelVerif.Spec.Jet4 AurelVerif.Spec.Curvature
open AurelVerif.C17JetTac AurelVerif.C17Jet AurelVerif.C17DerivTac

/-! ## Collins_Stewart -/

/-- the jet: the family of Lemmas/C17JetCS.lean at `P = t^(2 p1)`, `Q = t^(2 p2)`, `c = s/(2γ)`. -/
noncomputable def Collins_Stewart_jet (t x y z : ℝ) : Jet2 ℝ :=
  CS.jet t (t ^ ((2:ℝ) * Collins_Stewart.p1)) (t ^ ((2:ℝ) * Collins_Stewart.p2)) z (Collins_Stewart.s / ((2:ℝ) * Collins_Stewart.gamma))

theorem Collins_Stewart_gdown4_closed (t x y z : ℝ) :
    Collins_Stewart.gdown4_num t x y z = (Collins_Stewart_jet t x y z).g := by
  refine funext4 ?_ ?_ ?_ ?_ <;> refine funext4 ?_ ?_ ?_ ?_ <;>
    (simp [Collins_Stewart_jet, CS.jet, Collins_Stewart.gdown4_num, Collins_Stewart.gdown4_num_00, Collins_Stewart.gdown4_num_01, Collins_Stewart.gdown4_num_02, Collins_Stewart.gdown4_num_03, Collins_Stewart.gdown4_num_10, Collins_Stewart.gdown4_num_11, Collins_Stewart.gdown4_num_12, Collins_Stewart.gdown4_num_13, Collins_Stewart.gdown4_num_20, Collins_Stewart.gdown4_num_21, Collins_Stewart.gdown4_num_22, Collins_Stewart.gdown4_num_23, Collins_Stewart.gdown4_num_30, Collins_Stewart.gdown4_num_31, Collins_Stewart.gdown4_num_32, Collins_Stewart.gdown4_num_33, Collins_Stewart.gammadown3_num, Collins_Stewart.gammadown3_num_00, Collins_Stewart.gammadown3_num_01, Collins_Stewart.gammadown3_num_02, Collins_Stewart.gammadown3_num_10, Collins_Stewart.gammadown3_num_11, Collins_Stewart.gammadown3_num_12, Collins_Stewart.gammadown3_num_20, Collins_Stewart.gammadown3_num_21, Collins_Stewart.gammadown3_num_22] <;> ring)

theorem Collins_Stewart_exponents : (2:ℝ) * Collins_Stewart.p1 = 1 / 2 ∧ (2:ℝ) * Collins_Stewart.p2 = 5 / 4 := by
  unfold Collins_Stewart.p1 Collins_Stewart.p2 Collins_Stewart.gamma; constructor <;> norm_num

theorem Collins_Stewart_P_deriv (t : ℝ) (ht : 0 < t) :
    HasDerivAt (fun s => s ^ ((2:ℝ) * Collins_Stewart.p1)) (t ^ ((2:ℝ) * Collins_Stewart.p1) / (2 * t)) t := by
  have h := (hasDerivAt_id' t).rpow_const (p := (2:ℝ) * Collins_Stewart.p1) (Or.inl ht.ne')
  refine h.congr_deriv ?_
  rw [Real.rpow_sub_one ht.ne', Collins_Stewart_exponents.1]
  have := ht.ne'
  field_simp

theorem Collins_Stewart_Q_deriv (t : ℝ) (ht : 0 < t) :
    HasDerivAt (fun s => s ^ ((2:ℝ) * Collins_Stewart.p2)) (5 / 4 * t ^ ((2:ℝ) * Collins_Stewart.p2) / t) t := by
  have h := (hasDerivAt_id' t).rpow_const (p := (2:ℝ) * Collins_Stewart.p2) (Or.inl ht.ne')
  refine h.congr_deriv ?_
  rw [Real.rpow_sub_one ht.ne', Collins_Stewart_exponents.2]
  have := ht.ne'
  field_simp

/-- `t^{4 p2} = t^{2 p1} t²` (because `2 p1 + 2 = 4 p2`). -/
theorem Collins_Stewart_PQ (t : ℝ) (ht : 0 < t) : (t ^ ((2:ℝ) * Collins_Stewart.p2)) ^ 2 = t ^ ((2:ℝ) * Collins_Stewart.p1) * t ^ 2 := by
  rw [Collins_Stewart_exponents.1, Collins_Stewart_exponents.2, ← Real.rpow_natCast, ← Real.rpow_natCast,
    ← Real.rpow_mul ht.le, ← Real.rpow_add ht]
  norm_num

theorem Collins_Stewart_c_sq : (Collins_Stewart.s / ((2:ℝ) * Collins_Stewart.gamma)) ^ 2 = 3 / 16 := by
  have hs : Collins_Stewart.s ^ 2 = 4 / 3 := by
    unfold Collins_Stewart.s Collins_Stewart.gamma
    rw [Real.sq_sqrt (by norm_num)]; norm_num
  rw [div_pow, hs]; unfold Collins_Stewart.gamma; norm_num

set_option maxHeartbeats 1000000 in
theorem Collins_Stewart_d1 (t x y z : ℝ) (hD : (fun t _ _ _ => 0 < t) t x y z) (c a b : Fin 4) :
    HasPartialAt (fun t x y z => Collins_Stewart.gdown4_num t x y z a b) c ((Collins_Stewart_jet t x y z).dg c a b) t x y z := by
  have htn : t ≠ 0 := ne_of_gt hD
  have hPd := Collins_Stewart_P_deriv t hD
  have hQd := Collins_Stewart_Q_deriv t hD
  revert c a b
  refine forall4 ?_ ?_ ?_ ?_ <;> refine forall4 ?_ ?_ ?_ ?_ <;> refine forall4 ?_ ?_ ?_ ?_ <;>
    first
    | exact hasDerivAt_const _ _
    | (simp only [hasPartialAt_zero, hasPartialAt_one, hasPartialAt_two, hasPartialAt_three, Collins_Stewart_gdown4_closed, Collins_Stewart_jet, CS.jet, Matrix.cons_val_zero, Matrix.cons_val_one, Matrix.cons_val]
       first | exact hasDerivAt_const _ _ | hasderiv_auto)

set_option maxHeartbeats 1000000 in
theorem Collins_Stewart_d2_0 (t x y z : ℝ) (hD : (fun t _ _ _ => 0 < t) t x y z) (d a b : Fin 4) :
    HasPartialAt (fun t x y z => (Collins_Stewart_jet t x y z).dg d a b) 0 ((Collins_Stewart_jet t x y z).ddg 0 d a b) t x y z := by
  have htn : t ≠ 0 := ne_of_gt hD
  have hPd := Collins_Stewart_P_deriv t hD
  have hQd := Collins_Stewart_Q_deriv t hD
  revert d a b
  refine forall4 ?_ ?_ ?_ ?_ <;> refine forall4 ?_ ?_ ?_ ?_ <;> refine forall4 ?_ ?_ ?_ ?_ <;>
    first
    | exact hasDerivAt_const _ _
    | (simp only [hasPartialAt_zero, hasPartialAt_one, hasPartialAt_two, hasPartialAt_three, Collins_Stewart_jet, CS.jet, Matrix.cons_val_zero, Matrix.cons_val_one, Matrix.cons_val]
       first | exact hasDerivAt_const _ _ | hasderiv_auto)

set_option maxHeartbeats 1000000 in
theorem Collins_Stewart_d2_1 (t x y z : ℝ) (hD : (fun t _ _ _ => 0 < t) t x y z) (d a b : Fin 4) :
    HasPartialAt (fun t x y z => (Collins_Stewart_jet t x y z).dg d a b) 1 ((Collins_Stewart_jet t x y z).ddg 1 d a b) t x y z := by
  have htn : t ≠ 0 := ne_of_gt hD
  have hPd := Collins_Stewart_P_deriv t hD
  have hQd := Collins_Stewart_Q_deriv t hD
  revert d a b
  refine forall4 ?_ ?_ ?_ ?_ <;> refine forall4 ?_ ?_ ?_ ?_ <;> refine forall4 ?_ ?_ ?_ ?_ <;>
    first
    | exact hasDerivAt_const _ _
    | (simp only [hasPartialAt_zero, hasPartialAt_one, hasPartialAt_two, hasPartialAt_three, Collins_Stewart_jet, CS.jet, Matrix.cons_val_zero, Matrix.cons_val_one, Matrix.cons_val]
       first | exact hasDerivAt_const _ _ | hasderiv_auto)

set_option maxHeartbeats 1000000 in
theorem Collins_Stewart_d2_2 (t x y z : ℝ) (hD : (fun t _ _ _ => 0 < t) t x y z) (d a b : Fin 4) :
    HasPartialAt (fun t x y z => (Collins_Stewart_jet t x y z).dg d a b) 2 ((Collins_Stewart_jet t x y z).ddg 2 d a b) t x y z := by
  have htn : t ≠ 0 := ne_of_gt hD
  have hPd := Collins_Stewart_P_deriv t hD
  have hQd := Collins_Stewart_Q_deriv t hD
  revert d a b
  refine forall4 ?_ ?_ ?_ ?_ <;> refine forall4 ?_ ?_ ?_ ?_ <;> refine forall4 ?_ ?_ ?_ ?_ <;>
    first
    | exact hasDerivAt_const _ _
    | (simp only [hasPartialAt_zero, hasPartialAt_one, hasPartialAt_two, hasPartialAt_three, Collins_Stewart_jet, CS.jet, Matrix.cons_val_zero, Matrix.cons_val_one, Matrix.cons_val]
       first | exact hasDerivAt_const _ _ | hasderiv_auto)

set_option maxHeartbeats 1000000 in
theorem Collins_Stewart_d2_3 (t x y z : ℝ) (hD : (fun t _ _ _ => 0 < t) t x y z) (d a b : Fin 4) :
    HasPartialAt (fun t x y z => (Collins_Stewart_jet t x y z).dg d a b) 3 ((Collins_Stewart_jet t x y z).ddg 3 d a b) t x y z := by
  have htn : t ≠ 0 := ne_of_gt hD
  have hPd := Collins_Stewart_P_deriv t hD
  have hQd := Collins_Stewart_Q_deriv t hD
  revert d a b
  refine forall4 ?_ ?_ ?_ ?_ <;> refine forall4 ?_ ?_ ?_ ?_ <;> refine forall4 ?_ ?_ ?_ ?_ <;>
    first
    | exact hasDerivAt_const _ _
    | (simp only [hasPartialAt_zero, hasPartialAt_one, hasPartialAt_two, hasPartialAt_three, Collins_Stewart_jet, CS.jet, Matrix.cons_val_zero, Matrix.cons_val_one, Matrix.cons_val]
       first | exact hasDerivAt_const _ _ | hasderiv_auto)

theorem Collins_Stewart_isJetField : IsJetField (fun t _ _ _ => 0 < t) Collins_Stewart.gdown4_num Collins_Stewart_jet where
  g_eq := by
    intro t x y z hD
    exact (Collins_Stewart_gdown4_closed t x y z).symm
  inverse := by
    intro t x y z hD
    have htn : t ≠ 0 := ne_of_gt hD
    have hPd := Collins_Stewart_P_deriv t hD
    have hQd := Collins_Stewart_Q_deriv t hD
    exact CS.jet_inverse _ _ _ _ _ htn (Real.rpow_pos_of_pos hD _).ne' (Real.rpow_pos_of_pos hD _).ne'
  d1 := fun t x y z hD c a b => Collins_Stewart_d1 t x y z hD c a b
  d2 := fun t x y z hD => forall4 (Collins_Stewart_d2_0 t x y z hD) (Collins_Stewart_d2_1 t x y z hD) (Collins_Stewart_d2_2 t x y z hD) (Collins_Stewart_d2_3 t x y z hD)

set_option maxHeartbeats 1000000 in
/-- the algebraic content of the Collins–Stewart field equations: with `Q² = P t²` and `c² = 3/16` the Einstein tensor of the family is that of a comoving `p = ρ/3` fluid with `κρ = 21/(32 t²)`. -/
theorem Collins_Stewart_alg (t P Q z c kappa : ℝ) (ht : t ≠ 0) (hP : P ≠ 0) (hQ : Q ≠ 0) (hk : kappa ≠ 0) (h1 : Q ^ 2 = P * t ^ 2) (h2 : c ^ 2 = 3 / 16) :
    ∀ a b, CS.EinsteinT t P Q z c a b + (0:ℝ) * (CS.jet t P Q z c).g a b = kappa * comovingFluid (21 / (32 * kappa * t ^ 2)) (7 / (32 * kappa * t ^ 2)) (CS.jet t P Q z c).g a b := by
  refine forall4 ?_ ?_ ?_ ?_ <;> refine forall4 ?_ ?_ ?_ ?_ <;>
    simp only [CS.EinsteinT, CS.jet, comovingFluid, Matrix.cons_val_zero, Matrix.cons_val_one, Matrix.cons_val, Fin.isValue, Fin.reduceEq, if_true, if_false, reduceIte]
  · -- (0,0)
    have hN : ((-((16:ℝ) * P * c ^ (2:ℕ) * t ^ (2:ℕ))) + ((3:ℝ) * Q ^ (2:ℕ))) = 0 := by linear_combination ((3:ℝ)) * h1 + ((-((16:ℝ) * P * t ^ (2:ℕ)))) * h2
    refine sub_eq_zero.mp ?_
    calc _ = ((-((16:ℝ) * P * c ^ (2:ℕ) * t ^ (2:ℕ))) + ((3:ℝ) * Q ^ (2:ℕ))) * (((64:ℝ) * Q ^ (2:ℕ) * t ^ (2:ℕ)))⁻¹ := by field_simp; ring1
      _ = 0 := by rw [hN, zero_mul]
  · first | rfl | ring1 | (field_simp; ring1)   -- (0,1)
  · first | rfl | ring1 | (field_simp; ring1)   -- (0,2)
  · first | rfl | ring1 | (field_simp; ring1)   -- (0,3)
  · first | rfl | ring1 | (field_simp; ring1)   -- (1,0)
  · -- (1,1)
    have hN : (((48:ℝ) * P ^ (2:ℕ) * c ^ (2:ℕ) * t ^ (2:ℕ)) - ((9:ℝ) * P * Q ^ (2:ℕ))) = 0 := by linear_combination ((-((9:ℝ) * P))) * h1 + (((48:ℝ) * P ^ (2:ℕ) * t ^ (2:ℕ))) * h2
    refine sub_eq_zero.mp ?_
    calc _ = (((48:ℝ) * P ^ (2:ℕ) * c ^ (2:ℕ) * t ^ (2:ℕ)) - ((9:ℝ) * P * Q ^ (2:ℕ))) * (((64:ℝ) * Q ^ (2:ℕ) * t ^ (2:ℕ)))⁻¹ := by field_simp; ring1
      _ = 0 := by rw [hN, zero_mul]
  · -- (1,2)
    have hN : (((48:ℝ) * P ^ (2:ℕ) * c ^ (3:ℕ) * t ^ (2:ℕ) * z) - ((9:ℝ) * P * Q ^ (2:ℕ) * c * z)) = 0 := by linear_combination ((-((9:ℝ) * P * c * z))) * h1 + (((48:ℝ) * P ^ (2:ℕ) * c * t ^ (2:ℕ) * z)) * h2
    refine sub_eq_zero.mp ?_
    calc _ = (((48:ℝ) * P ^ (2:ℕ) * c ^ (3:ℕ) * t ^ (2:ℕ) * z) - ((9:ℝ) * P * Q ^ (2:ℕ) * c * z)) * (((64:ℝ) * Q ^ (2:ℕ) * t ^ (2:ℕ)))⁻¹ := by field_simp; ring1
      _ = 0 := by rw [hN, zero_mul]
  · first | rfl | ring1 | (field_simp; ring1)   -- (1,3)
  · first | rfl | ring1 | (field_simp; ring1)   -- (2,0)
  · -- (2,1)
    have hN : (((48:ℝ) * P ^ (2:ℕ) * c ^ (3:ℕ) * t ^ (2:ℕ) * z) - ((9:ℝ) * P * Q ^ (2:ℕ) * c * z)) = 0 := by linear_combination ((-((9:ℝ) * P * c * z))) * h1 + (((48:ℝ) * P ^ (2:ℕ) * c * t ^ (2:ℕ) * z)) * h2
    refine sub_eq_zero.mp ?_
    calc _ = (((48:ℝ) * P ^ (2:ℕ) * c ^ (3:ℕ) * t ^ (2:ℕ) * z) - ((9:ℝ) * P * Q ^ (2:ℕ) * c * z)) * (((64:ℝ) * Q ^ (2:ℕ) * t ^ (2:ℕ)))⁻¹ := by field_simp; ring1
      _ = 0 := by rw [hN, zero_mul]
  · -- (2,2)
    have hN : (((48:ℝ) * P ^ (2:ℕ) * c ^ (4:ℕ) * t ^ (2:ℕ) * z ^ (2:ℕ)) - ((9:ℝ) * P * Q ^ (2:ℕ) * c ^ (2:ℕ) * z ^ (2:ℕ)) - ((16:ℝ) * P * Q * c ^ (2:ℕ) * t ^ (2:ℕ)) + ((3:ℝ) * Q ^ (3:ℕ))) = 0 := by linear_combination ((-((3:ℝ) * (((3:ℝ) * P * c ^ (2:ℕ) * z ^ (2:ℕ)) - Q)))) * h1 + (((16:ℝ) * P * t ^ (2:ℕ) * (((3:ℝ) * P * c ^ (2:ℕ) * z ^ (2:ℕ)) - Q))) * h2
    refine sub_eq_zero.mp ?_
    calc _ = (((48:ℝ) * P ^ (2:ℕ) * c ^ (4:ℕ) * t ^ (2:ℕ) * z ^ (2:ℕ)) - ((9:ℝ) * P * Q ^ (2:ℕ) * c ^ (2:ℕ) * z ^ (2:ℕ)) - ((16:ℝ) * P * Q * c ^ (2:ℕ) * t ^ (2:ℕ)) + ((3:ℝ) * Q ^ (3:ℕ))) * (((64:ℝ) * Q ^ (2:ℕ) * t ^ (2:ℕ)))⁻¹ := by field_simp; ring1
      _ = 0 := by rw [hN, zero_mul]
  · first | rfl | ring1 | (field_simp; ring1)   -- (2,3)
  · first | rfl | ring1 | (field_simp; ring1)   -- (3,0)
  · first | rfl | ring1 | (field_simp; ring1)   -- (3,1)
  · first | rfl | ring1 | (field_simp; ring1)   -- (3,2)
  · -- (3,3)
    have hN : ((-((16:ℝ) * P * c ^ (2:ℕ) * t ^ (2:ℕ))) + ((3:ℝ) * Q ^ (2:ℕ))) = 0 := by linear_combination ((3:ℝ)) * h1 + ((-((16:ℝ) * P * t ^ (2:ℕ)))) * h2
    refine sub_eq_zero.mp ?_
    calc _ = ((-((16:ℝ) * P * c ^ (2:ℕ) * t ^ (2:ℕ))) + ((3:ℝ) * Q ^ (2:ℕ))) * (((64:ℝ) * Q * t ^ (2:ℕ)))⁻¹ := by field_simp; ring1
      _ = 0 := by rw [hN, zero_mul]

/-- Collins_Stewart: all ten Einstein equations `G_ab = κ T_ab`, perfect fluid at rest with the module's
`rho`, `press` (no cosmological constant). -/
theorem Collins_Stewart_einstein (t x y z : ℝ) (ht : 0 < t) :
    (Collins_Stewart_jet t x y z).SolvesEinstein 0 Collins_Stewart.kappa
      (comovingFluid (Collins_Stewart.rho t x y z) (Collins_Stewart.press t x y z)
        (Collins_Stewart.gdown4_num t x y z)) := by
  have htn := ht.ne'
  have hk : Collins_Stewart.kappa ≠ 0 := by unfold Collins_Stewart.kappa; positivity
  have hP := (Real.rpow_pos_of_pos ht ((2:ℝ) * Collins_Stewart.p1)).ne'
  have hQ := (Real.rpow_pos_of_pos ht ((2:ℝ) * Collins_Stewart.p2)).ne'
  have hrho : Collins_Stewart.rho t x y z = 21 / (32 * Collins_Stewart.kappa * t ^ 2) := by
    unfold Collins_Stewart.rho Collins_Stewart.gamma; field_simp; ring
  have hpr : Collins_Stewart.press t x y z = 7 / (32 * Collins_Stewart.kappa * t ^ 2) := by
    unfold Collins_Stewart.press; rw [hrho]; unfold Collins_Stewart.gamma; field_simp; ring
  unfold Jet2.SolvesEinstein
  rw [Collins_Stewart_gdown4_closed, hrho, hpr]
  unfold Collins_Stewart_jet
  rw [CS.Einstein_eq _ _ _ _ _ htn hP hQ]
  exact Collins_Stewart_alg _ _ _ _ _ _ htn hP hQ hk (Collins_Stewart_PQ t ht) Collins_Stewart_c_sq
end AurelVerif.C17Ein
