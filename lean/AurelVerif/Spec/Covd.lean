/-
Spec/Covd.lean — textbook definitions, in index notation, of the objects of
property C05 (hand-written; nothing here is derived from the aurel source).

Conventions.  `K` is any field, a tensor is a function of its indices
(`Fin n → … → K`, value at ONE grid point).  A partial derivative is an
abstract operator on *values*, `D : Fin 3 → K → K` ("`D i x` = the derivative
along axis `i` of the field whose value here is `x`"), exactly as the record
`Env K` of the generated model has it.  The covariant-derivative rules are
written for an arbitrary table of partial derivatives `df` (`df c a = ∂_c f_a`),
so that the same rule serves the 3-D (`df c a = D c (f a)`) and the 4-D case
(`∂_0 f = dtf`, see `pd4`).

References
 [W]  R. M. Wald, General Relativity (1984): (3.1.14) covariant derivative of a
      general tensor, (3.1.30) Christoffel symbol, App. C.2 Lie derivative.
 [C]  S. Carroll, Spacetime and Geometry (2004): (3.17) covariant derivative,
      (3.27) Christoffel, (3.34) divergence, (3.113) Riemann, (3.144) Ricci,
      (3.145) Ricci scalar, App. B Lie derivative in components.
 [A]  M. Alcubierre, Introduction to 3+1 Numerical Relativity (2008):
      §2.8 conformal connection functions Γ̃^i := γ̃^{jk}Γ̃^i_{jk} = −∂_jγ̃^{ij}, (2.8.14) conformal Christoffel, (2.8.16)–(2.8.18)
      R_ij = R̃_ij + R^φ_ij, §2.8 Lie derivative of a tensor density of weight w
      (adds `w T ∂_kβ^k`); the magnetic part of the Weyl tensor (§8.3) uses
      ε^{cd}{}_a D_c f_{bd}.
-/
import Mathlib.Algebra.BigOperators.Fin
import Mathlib.Algebra.Field.Defs

namespace AurelVerif.Spec.Covd

variable {K : Type} [Field K] {n : Nat}

/-! ### Christoffel symbols -/

/-- Christoffel symbol of the first kind
`Γ_{jkl} = ½ (∂_k γ_jl + ∂_l γ_jk − ∂_j γ_kl)`   ([W] (3.1.30), [C] (3.27), index lowered). -/
def christoffel1 (D : Fin 3 → K → K) (γ : Fin 3 → Fin 3 → K) (j k l : Fin 3) : K :=
  (1 / 2) * (D k (γ j l) + D l (γ j k) - D j (γ k l))

/-- Christoffel symbol of the second kind `Γ^i_{kl} = γ^{ij} Γ_{jkl}`  ([W] (3.1.30)). -/
def christoffel2 (D : Fin 3 → K → K) (γup γ : Fin 3 → Fin 3 → K) (i k l : Fin 3) : K :=
  ∑ j, γup i j * christoffel1 D γ j k l

/-! ### Covariant derivative ([W] (3.1.14), [C] (3.17)):
`∇_c T = ∂_c T + Γ^{a}_{c m} T^{…m…}` for each upper index `a`,
`− Γ^{m}_{c a} T_{…m…}` for each lower index `a`.  First output index = derivative index. -/

/-- 3-D table of partial derivatives of a vector / rank-2 tensor. -/
def pd1 (D : Fin 3 → K → K) (f : Fin 3 → K) (c a : Fin 3) : K := D c (f a)
def pd2 (D : Fin 3 → K → K) (f : Fin 3 → Fin 3 → K) (c a b : Fin 3) : K := D c (f a b)

/-- 4-D partial derivative: `∂_0 = ` the supplied time derivative, `∂_{i+1} = D i`. -/
def pd4 (D : Fin 3 → K → K) (x dtx : K) (μ : Fin 4) : K :=
  Fin.cases dtx (fun i => D i x) μ

/-- `∇_c f^a = ∂_c f^a + Γ^a_{cm} f^m`. -/
def covdU (Γ : Fin n → Fin n → Fin n → K) (df : Fin n → Fin n → K) (f : Fin n → K) (c a : Fin n) : K :=
  df c a + ∑ m, Γ a c m * f m

/-- `∇_c f_a = ∂_c f_a − Γ^m_{ca} f_m`. -/
def covdD (Γ : Fin n → Fin n → Fin n → K) (df : Fin n → Fin n → K) (f : Fin n → K) (c a : Fin n) : K :=
  df c a - ∑ m, Γ m c a * f m

/-- `∇_c f^{ab} = ∂_c f^{ab} + Γ^a_{cm} f^{mb} + Γ^b_{cm} f^{am}`. -/
def covdUU (Γ : Fin n → Fin n → Fin n → K) (df : Fin n → Fin n → Fin n → K) (f : Fin n → Fin n → K)
    (c a b : Fin n) : K :=
  df c a b + ∑ m, Γ a c m * f m b + ∑ m, Γ b c m * f a m

/-- `∇_c f_{ab} = ∂_c f_{ab} − Γ^m_{ca} f_{mb} − Γ^m_{cb} f_{am}`. -/
def covdDD (Γ : Fin n → Fin n → Fin n → K) (df : Fin n → Fin n → Fin n → K) (f : Fin n → Fin n → K)
    (c a b : Fin n) : K :=
  df c a b - ∑ m, Γ m c a * f m b - ∑ m, Γ m c b * f a m

/-- `∇_c f^a{}_b = ∂_c f^a{}_b + Γ^a_{cm} f^m{}_b − Γ^m_{cb} f^a{}_m`. -/
def covdUD (Γ : Fin n → Fin n → Fin n → K) (df : Fin n → Fin n → Fin n → K) (f : Fin n → Fin n → K)
    (c a b : Fin n) : K :=
  df c a b + ∑ m, Γ a c m * f m b - ∑ m, Γ m c b * f a m

/-- `∇_c f_a{}^b = ∂_c f_a{}^b − Γ^m_{ca} f_m{}^b + Γ^b_{cm} f_a{}^m`. -/
def covdDU (Γ : Fin n → Fin n → Fin n → K) (df : Fin n → Fin n → Fin n → K) (f : Fin n → Fin n → K)
    (c a b : Fin n) : K :=
  df c a b - ∑ m, Γ m c a * f m b + ∑ m, Γ b c m * f a m

/-! ### Divergence ([C] (3.34)): contraction of the derivative index with the FIRST tensor index
(with `γ^{ca}` when that index is down). -/

def divU (cov : Fin n → Fin n → K) : K := ∑ a, cov a a
def divD (γup : Fin n → Fin n → K) (cov : Fin n → Fin n → K) : K := ∑ c, ∑ a, γup c a * cov c a
/-- `∇_a f^{a b}` / `∇_a f^a{}_b` from the covariant derivative `cov c a b`. -/
def divU2 (cov : Fin n → Fin n → Fin n → K) (b : Fin n) : K := ∑ a, cov a a b
/-- `γ^{ca} ∇_c f_{a b}` / `γ^{ca} ∇_c f_a{}^b`. -/
def divD2 (γup : Fin n → Fin n → K) (cov : Fin n → Fin n → Fin n → K) (b : Fin n) : K :=
  ∑ c, ∑ a, γup c a * cov c a b

/-! ### Lie derivative along a vector β ([W] App. C.2, [C] App. B):
`L_β T = β^k ∂_k T − T^{…k…} ∂_k β^a` per upper index `a`, `+ T_{…k…} ∂_a β^k` per lower index `a`,
`+ w (∂_k β^k) T` for a tensor density of weight `w` ([A] §2.8).
`dβ c a = ∂_c β^a`. -/

def lie0 (β : Fin n → K) (df : Fin n → K) : K := ∑ k, β k * df k
def lieU (β : Fin n → K) (dβ : Fin n → Fin n → K) (df : Fin n → Fin n → K) (f : Fin n → K) (a : Fin n) : K :=
  ∑ k, β k * df k a - ∑ k, f k * dβ k a
def lieD (β : Fin n → K) (dβ : Fin n → Fin n → K) (df : Fin n → Fin n → K) (f : Fin n → K) (a : Fin n) : K :=
  ∑ k, β k * df k a + ∑ k, f k * dβ a k
def lieUU (β : Fin n → K) (dβ : Fin n → Fin n → K) (df : Fin n → Fin n → Fin n → K) (f : Fin n → Fin n → K)
    (a b : Fin n) : K :=
  ∑ k, β k * df k a b - ∑ k, f k b * dβ k a - ∑ k, f a k * dβ k b
def lieDD (β : Fin n → K) (dβ : Fin n → Fin n → K) (df : Fin n → Fin n → Fin n → K) (f : Fin n → Fin n → K)
    (a b : Fin n) : K :=
  ∑ k, β k * df k a b + ∑ k, f k b * dβ a k + ∑ k, f a k * dβ b k
def lieUD (β : Fin n → K) (dβ : Fin n → Fin n → K) (df : Fin n → Fin n → Fin n → K) (f : Fin n → Fin n → K)
    (a b : Fin n) : K :=
  ∑ k, β k * df k a b - ∑ k, f k b * dβ k a + ∑ k, f a k * dβ b k
def lieDU (β : Fin n → K) (dβ : Fin n → Fin n → K) (df : Fin n → Fin n → Fin n → K) (f : Fin n → Fin n → K)
    (a b : Fin n) : K :=
  ∑ k, β k * df k a b + ∑ k, f k b * dβ a k - ∑ k, f a k * dβ k b

/-- divergence of the shift `∂_k β^k` (density-weight term). -/
def divβ (dβ : Fin n → Fin n → K) : K := ∑ k, dβ k k

/-- The 4-D shift vector `β^μ = (0, β^i)`. -/
def β4 (β : Fin 3 → K) (μ : Fin 4) : K := Fin.cases 0 β μ
/-- Its partial derivatives `∂_μ β^ν`: `∂_μ β^0 = 0`, `∂_0 β^i = dtβ^i`, `∂_j β^i = D j (β i)`. -/
def dβ4 (D : Fin 3 → K → K) (β dtβ : Fin 3 → K) (μ ν : Fin 4) : K :=
  Fin.cases 0 (fun i => Fin.cases (dtβ i) (fun j => D j (β i)) μ) ν
/-- Partial derivatives of a 4-vector along the shift direction only need `∂_i`; `∂_0 f` is multiplied
by `β^0 = 0`, so any value may be supplied for it (here 0). -/
def pd4s (D : Fin 3 → K → K) (f : Fin 4 → K) (μ a : Fin 4) : K := Fin.cases 0 (fun i => D i (f a)) μ

/-! ### Curvature -/

/-- Riemann tensor ([C] (3.113)):
`R^a_{bcd} = ∂_c Γ^a_{db} − ∂_d Γ^a_{cb} + Γ^a_{cp} Γ^p_{db} − Γ^a_{dp} Γ^p_{cb}`. -/
def riemann (D : Fin 3 → K → K) (Γ : Fin 3 → Fin 3 → Fin 3 → K) (a b c d : Fin 3) : K :=
  D c (Γ a d b) - D d (Γ a c b) + ∑ p, Γ a c p * Γ p d b - ∑ p, Γ a d p * Γ p c b

/-- Ricci tensor `R_{bd} = R^a_{bad}` ([C] (3.144)). -/
def ricci (R : Fin 3 → Fin 3 → Fin 3 → Fin 3 → K) (b d : Fin 3) : K := ∑ a, R a b a d

/-- Ricci scalar `R = γ^{ij} R_{ij}` ([C] (3.145)). -/
def ricciS (γup Ric : Fin 3 → Fin 3 → K) : K := ∑ i, ∑ j, γup i j * Ric i j

/-! ### BSSNOK split ([A] §2.8) -/

/-- [A] (2.8.14) solved for the conformal connection:
`Γ̃^k_{ij} = Γ^k_{ij} − 2 (δ^k_i ∂_jφ + δ^k_j ∂_iφ − γ_ij γ^{kl} ∂_lφ)`
(`γ_ij γ^{kl}` is conformally invariant, so physical or conformal metric may be used). -/
def gammaBssnok (D : Fin 3 → K → K) (Γ : Fin 3 → Fin 3 → Fin 3 → K) (γ γup : Fin 3 → Fin 3 → K) (φ : K)
    (k i j : Fin 3) : K :=
  Γ k i j - 2 * ((if k = i then D j φ else 0) + (if k = j then D i φ else 0)
    - γ i j * ∑ l, γup k l * D l φ)

/-- [A] §2.8, conformal connection functions: `Γ̃^i = −∂_j γ̃^{ij}`. -/
def gammaVec (D : Fin 3 → K → K) (γtup : Fin 3 → Fin 3 → K) (i : Fin 3) : K := -∑ j, D j (γtup i j)

/-- `Γ̃_{ijk} = γ̃_{il} Γ̃^l_{jk}`. -/
def lowerG (γt : Fin 3 → Fin 3 → K) (Γt : Fin 3 → Fin 3 → Fin 3 → K) (i j k : Fin 3) : K :=
  ∑ l, γt i l * Γt l j k

/-- [A] (2.8.17): `R̃_ij = −½ γ̃^{lm} ∂_l∂_m γ̃_ij + γ̃_{k(i} ∂_{j)} Γ̃^k + Γ̃^k Γ̃_{(ij)k}
   + γ̃^{lm} (2 Γ̃^k_{l(i} Γ̃_{j)km} + Γ̃^k_{im} Γ̃_{klj})`, `T_{(ij)} = ½ (T_ij + T_ji)`;
`Γl i j k = Γ̃_{ijk}` is the lowered connection (`lowerG γ̃ Γ̃`). -/
def ricciConformal (D : Fin 3 → K → K) (γt γtup : Fin 3 → Fin 3 → K) (Γv : Fin 3 → K)
    (Γt Γl : Fin 3 → Fin 3 → Fin 3 → K) (i j : Fin 3) : K :=
  -(1 / 2) * (∑ l, ∑ m, γtup l m * D l (D m (γt i j)))
  + (1 / 2) * (∑ k, (γt k i * D j (Γv k) + γt k j * D i (Γv k)))
  + (1 / 2) * (∑ k, Γv k * (Γl i j k + Γl j i k))
  + ∑ l, ∑ m, γtup l m * (2 * ((1 / 2) * ∑ k, (Γt k l i * Γl j k m + Γt k l j * Γl i k m))
      + ∑ k, Γt k i m * Γl k l j)

/-- conformal second covariant derivative of the conformal factor `D̃_i D̃_j φ = ∂_i∂_jφ − Γ̃^k_{ij} ∂_kφ`. -/
def ddphi (D : Fin 3 → K → K) (Γt : Fin 3 → Fin 3 → Fin 3 → K) (φ : K) (i j : Fin 3) : K :=
  D i (D j φ) - ∑ k, Γt k i j * D k φ

/-- [A] (2.8.18): `R^φ_ij = −2 D̃_iD̃_jφ − 2 γ̃_ij D̃^kD̃_kφ + 4 D̃_iφ D̃_jφ − 4 γ̃_ij D̃^kφ D̃_kφ`. -/
def ricciPhi (D : Fin 3 → K → K) (γt γtup : Fin 3 → Fin 3 → K) (Γt : Fin 3 → Fin 3 → Fin 3 → K) (φ : K)
    (i j : Fin 3) : K :=
  -2 * ddphi D Γt φ i j - 2 * γt i j * (∑ k, ∑ l, γtup k l * ddphi D Γt φ k l)
  + 4 * (D i φ * D j φ) - 4 * γt i j * (∑ k, ∑ l, γtup k l * (D k φ * D l φ))

/-! ### Levi-Civita -/

/-- totally antisymmetric: changes sign under exchange of any two adjacent indices and vanishes on
equal adjacent indices (adjacent transpositions generate the symmetric group). -/
def TotAntisymm3 (ε : Fin 3 → Fin 3 → Fin 3 → K) : Prop :=
  ∀ a b c, ε a b c = -ε b a c ∧ ε a b c = -ε a c b
def TotAntisymm4 (ε : Fin 4 → Fin 4 → Fin 4 → Fin 4 → K) : Prop :=
  ∀ a b c d, ε a b c d = -ε b a c d ∧ ε a b c d = -ε a c b d ∧ ε a b c d = -ε a b d c

end AurelVerif.Spec.Covd
