/-
Spec/FDAccuracy.lean — the explicit truncation-error constant of a first-derivative
stencil, computed from the coefficient table (Mathlib-free, so that the kernel can
evaluate it on the tables regenerated from finitedifference.py):

  C_stencil = Σ_k |w_k| |k|^(p+1) / (p+1)!

and what "p-th order accurate with constant C" means for one returned value.
-/
import AurelVerif.Spec.FD

namespace AurelVerif.StencilLemmas
open AurelVerif.Splice

/-- `|q|` on `Rat` without Mathlib. -/
def qabs (q : Rat) : Rat := if q < 0 then -q else q

/-- `n!` without Mathlib. -/
def fact : Nat → Nat
  | 0 => 1
  | n + 1 => (n + 1) * fact n

/-- absolute j-th moment `Σ |c_k| |k|^j` of a stencil. -/
def absMoment (st : Stencil) (j : Nat) : Rat :=
  (st.map fun kc => qabs kc.2 * ((kc.1.natAbs : Nat) : Rat) ^ j).sum

/-- the truncation-error constant `Σ_k |w_k| |k|^(p+1) / (p+1)!` of a p-th order stencil. -/
def errConst (st : Stencil) (p : Nat) : Rat :=
  absMoment st (p + 1) / ((fact (p + 1) : Nat) : Rat)

def qmax (a b : Rat) : Rat := if a ≤ b then b else a

/-- the largest of the three constants of a scheme: a bound valid at EVERY grid point
of the one-sided ('no boundary') mode. -/
def schemeErrConst (s : Scheme) (p : Nat) : Rat :=
  qmax (errConst s.fwd p) (qmax (errConst s.cen p) (errConst s.bwd p))

end AurelVerif.StencilLemmas
