/-
Spec/GaussCodazzi.lean — vocabulary for the "contracted Gauss–Codazzi" part of property C06
(hand-written; nothing here is derived from the aurel source).

Setting: coordinates adapted to the foliation, `Fin 4` = (t,x,y,z), `Fin 3` = (x,y,z), spatial index `i` ↦
spacetime index `i.succ`.  `n^μ` is the unit normal, `n_μ = (−α,0,0,0)`, hence the projector `γ^μ_ν = δ^μ_ν + n^μ n_ν`
is the identity on lower spatial indices: the spatial projection of a covariant tensor is its spatial block.
`R4 a b c d` = `⁽⁴⁾R_abcd` (all indices down), `R3 i j k l` = `³R_ijkl`, `K_ij = −∇_i n_j`.

References: [BS] Baumgarte–Shapiro (2.68) Gauss, (2.73) Codazzi, (2.125)/(2.127) their contractions;
[Sh] Shibata 2016 (2.38), (2.41); Gourgoulhon, 3+1 Formalism, (2.92), (2.101), (2.95), (2.103).
-/
import AurelVerif.Spec.Curvature
import AurelVerif.Spec.ADM

namespace AurelVerif.Spec.GC
open AurelVerif.Spec

variable {K : Type} [Field K]

/-- 4-Ricci tensor from the covariant Riemann tensor, `R_bd = g^{ac} R_abcd`. -/
def ricci4 (gup : Fin 4 → Fin 4 → K) (R4 : Fin 4 → Fin 4 → Fin 4 → Fin 4 → K) (b d : Fin 4) : K :=
  ∑ a, ∑ c, gup a c * R4 a b c d

/-- 4-Ricci scalar `g^{bd} R_bd`. -/
def ricciS4 (gup : Fin 4 → Fin 4 → K) (R4 : Fin 4 → Fin 4 → Fin 4 → Fin 4 → K) : K :=
  Curvature.trace gup (ricci4 gup R4)

/-- Einstein tensor `G_ab = R_ab − ½ R g_ab` of the 4-Riemann tensor `R4`. -/
def einstein4 (gup g : Fin 4 → Fin 4 → K) (R4 : Fin 4 → Fin 4 → Fin 4 → Fin 4 → K) (a b : Fin 4) : K :=
  Curvature.einstein (ricci4 gup R4) (ricciS4 gup R4) g a b

/-- **Gauss equation** ([BS] (2.68), [Sh] (2.38)): the spatial block of the 4-Riemann tensor is
`³R_ijkl + K_ik K_jl − K_il K_jk`. -/
def GaussEq (R4 : Fin 4 → Fin 4 → Fin 4 → Fin 4 → K) (R3 : Fin 3 → Fin 3 → Fin 3 → Fin 3 → K)
    (Kd : Fin 3 → Fin 3 → K) : Prop :=
  ∀ i j k l : Fin 3, R4 i.succ j.succ k.succ l.succ = Curvature.gauss R3 Kd i j k l

/-- **Codazzi equation** ([BS] (2.73), [Sh] (2.41)): `⁽⁴⁾R_ijkσ n^σ = D_j K_ik − D_i K_jk`; `DK c a b = D_c K_ab`. -/
def CodazziEq (R4 : Fin 4 → Fin 4 → Fin 4 → Fin 4 → K) (n : Fin 4 → K) (DK : Fin 3 → Fin 3 → Fin 3 → K) : Prop :=
  ∀ i j k : Fin 3, ∑ σ, R4 i.succ j.succ k.succ σ * n σ = DK j i k - DK i j k

/-- **Einstein's equations** `G_μν + Λ g_μν = κ T_μν`. -/
def EinsteinEq (G g T : Fin 4 → Fin 4 → K) (Λ κ : K) : Prop := ∀ μ ν, G μ ν + Λ * g μ ν = κ * T μ ν

/-- 3-Ricci scalar as the double contraction of the 3-Riemann tensor, `γ^{jl} γ^{ik} ³R_ijkl`. -/
def ricciS3 (U : Fin 3 → Fin 3 → K) (R3 : Fin 3 → Fin 3 → Fin 3 → Fin 3 → K) : K :=
  ∑ j, ∑ l, U j l * ∑ i, ∑ k, U i k * R3 i j k l

/-- the lowered momentum-constraint vector `M_a = γ^{jb}(D_j K_ab − D_a K_jb) = D^b K_ab − D_a K`. -/
def momLow (U : Fin 3 → Fin 3 → K) (DK : Fin 3 → Fin 3 → Fin 3 → K) (a : Fin 3) : K :=
  ∑ j, ∑ b, U j b * (DK j a b - DK a j b)

end AurelVerif.Spec.GC
