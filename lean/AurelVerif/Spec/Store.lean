/-
Spec/Store.lean — what C13 means, independent of how the store is laid out.

The abstract state is a partial map `(iteration, name, level) ↦ value`.
A successful `save_data` call overrides exactly the cells it names with "the
entry of the saved dictionary that belongs to iteration i"; `read_data` returns
the map's values.  No Mathlib.
-/
import AurelVerif.Model.Store
namespace AurelVerif.Store

/-- abstract contents: `(it, name, rl) ↦ value` -/
abbrev Spec := Int → String → Nat → Option Val

def Spec.empty : Spec := fun _ _ _ => none

/-- abstraction function: the dataset `name rl=<rl>` of file `it_<i>.hdf5` -/
def absStore (s : Store) : Spec := fun i v r => (alGet i s).bind fun f => alGet (skey v r) f

/-- Position, inside the columns of the saved dictionary, of the entry that
belongs to iteration `i`: where `i` stands in `data['it']` (first occurrence)
or, when the dictionary has no iteration list, the rank of `i` among the
iterations passed to `save_data`. -/
def posOf (a : SaveArgs) (i : Int) : Option Nat :=
  match alGet "it" a.data with
  | some (some col) => indexOf? (some i) col
  | _ => indexOf? i (sortedSet a.it)

/-- entry `k` of column `v` (`none`: no such column, column `None`, too short, or entry `None`) -/
def entryAt (data : Data) (k : Nat) (v : String) : Option Val :=
  match alGet v data with
  | some (some col) => (col[k]?).join
  | _ => none

/-- column `v` exists and is not `None` -/
def colPresent (data : Data) (v : String) : Bool :=
  match alGet v data with
  | some (some _) => true
  | _ => false

/-- The cell `(i, v, r)` is named by the call: level, iteration and variable are
selected and the column is not `None` ("variables with None values are skipped"). -/
def Names (a : SaveArgs) (i : Int) (v : String) (r : Nat) : Prop :=
  r = a.rl ∧ i ∈ sortedSet a.it ∧ v ∈ effVars a ∧ colPresent a.data v = true

instance (a : SaveArgs) (i : Int) (v : String) (r : Nat) : Decidable (Names a i v r) := by
  unfold Names; exact inferInstance

/-- what the call files under `(i, v, r)`: the entry of column `v` that belongs
to iteration `i`; `none` when the call does not name the cell -/
def entryFor (a : SaveArgs) (i : Int) (v : String) (r : Nat) : Option Val :=
  if Names a i v r then (posOf a i).bind fun k => entryAt a.data k v else none

/-- effect of one successful save on the abstract state -/
def specSave (a : SaveArgs) (σ : Spec) : Spec := fun i v r =>
  match entryFor a i v r with
  | some x => some x
  | none => σ i v r

/-- the value most recently saved for `(i, v, r)`, `none` if nothing was saved -/
def lastSaved (as : List SaveArgs) : Spec := as.foldl (fun σ a => specSave a σ) Spec.empty

/-! ### the inputs `save_data` rejects -/

/-- first exception of the `for key in vars` loop at position `k` (no file involved) -/
def keysErr (data : Data) (k : Nat) : List String → Option Err
  | [] => none
  | key :: ks =>
    match alGet key data with
    | none => some .keyError
    | some none => keysErr data k ks
    | some (some col) =>
      match col[k]? with
      | none => some .indexError
      | some none => some .typeError
      | some (some _) => keysErr data k ks

def loopErr (data : Data) (vars : List String) : List (Nat × Int) → Option Err
  | [] => none
  | p :: ps => match keysErr data p.1 vars with
    | some e => some e
    | none => loopErr data vars ps

/-- the exception `save_data` raises, as a function of its arguments alone -/
def saveErr (a : SaveArgs) : Option Err :=
  match itIndices a with
  | .error e => some e
  | .ok idx => loopErr a.data (effVars a) (idx.zip (sortedSet a.it))

/-- The inputs that are accepted: every requested iteration occurs in the
dictionary's iteration list (when it has one), every selected variable is a key
of the dictionary, and every selected column that is not `None` has an array
(not `None`, not out of range) at the position of every requested iteration. -/
def Accepts (a : SaveArgs) : Prop :=
  (∀ col, alGet "it" a.data = some (some col) → ∀ i ∈ sortedSet a.it, some i ∈ col) ∧
  (∀ i ∈ sortedSet a.it, ∀ k, posOf a i = some k → ∀ v ∈ effVars a,
      alGet v a.data ≠ none ∧
      ∀ col, alGet v a.data = some (some col) → ∃ x, col[k]? = some (some x))

/-! ### discovery -/

/-- the name does not contain `' rl'` -/
def NoRl (v : String) : Prop := hasInfix " rl".toList v.toList = false

instance (v : String) : Decidable (NoRl v) := by unfold NoRl; exact inferInstance

/-- `str(r)` is a prefix of `str(r')`  (`' rl=1' in 'x rl=10'`) -/
def DecPrefix (r r' : Nat) : Prop := (toString r).toList <+: (toString r').toList

instance (r r' : Nat) : Decidable (DecPrefix r r') := by unfold DecPrefix; exact inferInstance

end AurelVerif.Store
