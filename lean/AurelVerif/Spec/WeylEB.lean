/-
Spec/WeylEB.lean — hand-written vocabulary for the "normal frame" statements of property C10
(extension): unit normal of a metric with inverse, spatial / trace-free rank-2 tensors, total
antisymmetry, the volume-form identity, the first Bianchi (cyclic) identity, traces of a rank-4
tensor on every index pair.  Nothing here is derived from the aurel source.

References: [A] Alcubierre (2008) §8.3; [W] Wald (1984) app. B.2 (`ε^{a1..aj a(j+1)..an} ε_{a1..aj b(j+1)..bn}
= (−1)^s (n−j)! j! δ^{[a(j+1)}_{b(j+1)} … δ^{an]}_{bn}`, `s = 1` for a Lorentzian metric).
-/
import AurelVerif.Spec.Weyl

namespace AurelVerif.Spec.Weyl

variable {K : Type} [Field K]

/-- `g`, `g⁻¹` symmetric and inverse to each other; `n_a = g_ab n^b`; `n^a n_a = −1`. -/
structure UnitNormal (g gup : Fin 4 → Fin 4 → K) (nd nu : Fin 4 → K) : Prop where
  hg : Symm g
  hgu : Symm gup
  hinv : ∀ a b, ∑ c, gup a c * g c b = if a = b then 1 else 0
  hnd : ∀ a, nd a = ∑ b, g a b * nu b
  hnn : ∑ a, nu a * nd a = -1

/-- `T_ab n^b = 0` (for a symmetric `T` this is "`T` is tangent to the slice"). -/
def Spatial (T : Fin 4 → Fin 4 → K) (nu : Fin 4 → K) : Prop := ∀ a, ∑ b, T a b * nu b = 0

/-- `g^{ab} T_ab`. -/
def traceG4 (gup T : Fin 4 → Fin 4 → K) : K := ∑ a, ∑ b, gup a b * T a b

/-- sign change under each adjacent transposition (= total antisymmetry). -/
structure TotAntisym (LC : Fin 4 → Fin 4 → Fin 4 → Fin 4 → K) : Prop where
  s12 : ∀ a b c d, LC a b c d = -LC b a c d
  s23 : ∀ a b c d, LC a b c d = -LC a c b d
  s34 : ∀ a b c d, LC a b c d = -LC a b d c

/-- `LC` is the volume form of the Lorentzian metric `g` ([W] (B.2.12), n = 4, j = 2, s = 1):
`ε_{abcd} ε^{cd}{}_{ef} = −2 (g_ae g_bf − g_af g_be)`. -/
def VolumeForm (g gup : Fin 4 → Fin 4 → K) (LC : Fin 4 → Fin 4 → Fin 4 → Fin 4 → K) : Prop :=
  ∀ a b e f, ∑ c, ∑ d, ∑ c', ∑ d', LC a b c d * gup c c' * gup d d' * LC c' d' e f
    = -2 * (g a e * g b f - g a f * g b e)

/-- first Bianchi identity `C_a[bcd] = 0`. -/
def Cyclic (C : Fin 4 → Fin 4 → Fin 4 → Fin 4 → K) : Prop :=
  ∀ a b c d, C a b c d + C a c d b + C a d b c = 0

/-- the contraction of `C` with `g⁻¹` on every one of the six index pairs vanishes. -/
structure TraceFreeAll (gup : Fin 4 → Fin 4 → K) (C : Fin 4 → Fin 4 → Fin 4 → Fin 4 → K) : Prop where
  t12 : ∀ c d, ∑ a, ∑ b, gup a b * C a b c d = 0
  t13 : ∀ b d, ∑ a, ∑ c, gup a c * C a b c d = 0
  t14 : ∀ b c, ∑ a, ∑ d, gup a d * C a b c d = 0
  t23 : ∀ a d, ∑ b, ∑ c, gup b c * C a b c d = 0
  t24 : ∀ a c, ∑ b, ∑ d, gup b d * C a b c d = 0
  t34 : ∀ a b, ∑ c, ∑ d, gup c d * C a b c d = 0

/-! ### 3-D vocabulary for the magnetic part on the slice -/

/-- `γ^{ij} f_ij`. -/
def traceG3 (γup f : Fin 3 → Fin 3 → K) : K := ∑ i, ∑ j, γup i j * f i j

end AurelVerif.Spec.Weyl
