/-
Spec/Jet4.lean — hand-written textbook definitions for property C17 (Einstein's
equations of the bundled solutions): the Levi-Civita curvature of a spacetime
metric computed, purely algebraically, from the 2-jet of the metric at one point.

Nothing here is generated and nothing refers to the code.  `K` is any field; a
tensor is a function of its indices (`Fin 4` = (t,x,y,z)); all sums are explicit.

A *2-jet of a metric* at a point is the collection of numbers
  `g a b = g_ab`,  `gi a b = g^{ab}` (inverse: `J.IsInverse`),
  `dg c a b = ∂_c g_ab`,  `ddg c d a b = ∂_c ∂_d g_ab`.

Conventions (Wald, *General Relativity* (1984); Misner–Thorne–Wheeler, *Gravitation*
(1973); Carroll, *Spacetime and Geometry* (2004)): signature (−,+,+,+),
  Γ_{dbc}   = ½(∂_b g_dc + ∂_c g_db − ∂_d g_bc)              (Wald 3.1.30, MTW 8.24b)
  Γ^a_{bc}  = g^{ad} Γ_{dbc}
  ∂_e g^{ab} = − g^{ai} (∂_e g_ij) g^{jb}                     (derivative of the inverse matrix)
  ∂_e Γ^a_{bc} = (∂_e g^{ad}) Γ_{dbc} + g^{ad} ∂_e Γ_{dbc}    (product rule)
  R^a_{bcd} = ∂_c Γ^a_{db} − ∂_d Γ^a_{cb} + Γ^a_{ce} Γ^e_{db} − Γ^a_{de} Γ^e_{cb}
                                                              (MTW 8.44, Carroll 3.113)
  R_{bd} = R^a_{bad},  R = g^{bd} R_{bd},  G_ab = R_ab − ½ R g_ab   (MTW 8.47–8.49)
  Kretschmann scalar  R^{ab}{}_{cd} R^{cd}{}_{ab} = R_{abcd} R^{abcd}.
`christoffel1`, `christoffel`, `ricci`, `trace`, `einstein`, `kretschmann` are the
definitions of Spec/Curvature.lean (property C04).

Einstein's equations with cosmological constant: `G_ab + Λ g_ab = κ T_ab` (MTW 17.11,
Wald 4.3.21 with Λ; κ = 8πG/c⁴).
-/
import AurelVerif.Spec.Curvature

namespace AurelVerif.Spec.Jet4
open AurelVerif.Spec.Curvature

/-- the 2-jet of a metric at one point (see the header). -/
structure Jet2 (K : Type) where
  /-- `g_ab` -/
  g : Fin 4 → Fin 4 → K
  /-- `g^{ab}` -/
  gi : Fin 4 → Fin 4 → K
  /-- `dg c a b = ∂_c g_ab` -/
  dg : Fin 4 → Fin 4 → Fin 4 → K
  /-- `ddg c d a b = ∂_c ∂_d g_ab` -/
  ddg : Fin 4 → Fin 4 → Fin 4 → Fin 4 → K

namespace Jet2
variable {K : Type} [Field K] (J : Jet2 K)

/-- `gi` is the inverse matrix of `g`: `g_ac g^{cb} = δ_a^b`. -/
def IsInverse : Prop := ∀ a b, ∑ c, J.g a c * J.gi c b = if a = b then 1 else 0

/-- symmetry of the data: `g_ab = g_ba`, `g^{ab} = g^{ba}`, `∂_c g_ab = ∂_c g_ba`,
`∂_c∂_d g_ab = ∂_d∂_c g_ab = ∂_c∂_d g_ba`. -/
structure IsSymm : Prop where
  g : ∀ a b, J.g a b = J.g b a
  gi : ∀ a b, J.gi a b = J.gi b a
  dg : ∀ c a b, J.dg c a b = J.dg c b a
  ddg_ab : ∀ c d a b, J.ddg c d a b = J.ddg c d b a
  ddg_cd : ∀ c d a b, J.ddg c d a b = J.ddg d c a b

/-- `Γ_{dbc}` (first kind). -/
def Gl (d b c : Fin 4) : K := christoffel1 J.dg d b c
/-- `Γ^a_{bc}`. -/
def Gam (a b c : Fin 4) : K := christoffel J.gi J.dg a b c
/-- `∂_e g^{ab} = − g^{ai} ∂_e g_ij g^{jb}`. -/
def dgi (e a b : Fin 4) : K := -∑ i, ∑ j, J.gi a i * J.dg e i j * J.gi j b
/-- `∂_e Γ_{dbc} = ½(∂_e∂_b g_dc + ∂_e∂_c g_db − ∂_e∂_d g_bc)`. -/
def dGl (e d b c : Fin 4) : K := (1 / 2) * (J.ddg e b d c + J.ddg e c d b - J.ddg e d b c)
/-- `∂_e Γ^a_{bc}` by the product rule. -/
def dGam (e a b c : Fin 4) : K := ∑ d, (J.dgi e a d * J.Gl d b c + J.gi a d * J.dGl e d b c)
/-- Riemann tensor `R^a_{bcd} = ∂_c Γ^a_{db} − ∂_d Γ^a_{cb} + Γ^a_{ce} Γ^e_{db} − Γ^a_{de} Γ^e_{cb}`. -/
def Riem (a b c d : Fin 4) : K :=
  J.dGam c a d b - J.dGam d a c b + ∑ e, (J.Gam a c e * J.Gam e d b - J.Gam a d e * J.Gam e c b)
/-- Ricci tensor `R_{bd} = R^a_{bad}`. -/
def Ric : Fin 4 → Fin 4 → K := ricci J.Riem
/-- Ricci scalar `R = g^{ab} R_ab`. -/
def RicS : K := trace J.gi J.Ric
/-- Einstein tensor `G_ab = R_ab − ½ R g_ab`. -/
def Einstein : Fin 4 → Fin 4 → K := einstein J.Ric J.RicS J.g
/-- `R^{ab}{}_{cd} = g^{bf} R^a_{fcd}`. -/
def Ruudd (a b c d : Fin 4) : K := ∑ f, J.gi b f * J.Riem a f c d
/-- Kretschmann scalar `R^{ab}{}_{cd} R^{cd}{}_{ab}`. -/
def Kretschmann : K := kretschmann J.Ruudd

/-- Einstein's equations with cosmological constant at this point: `G_ab + Λ g_ab = κ T_ab`. -/
def SolvesEinstein (Lam kappa : K) (T : Fin 4 → Fin 4 → K) : Prop :=
  ∀ a b, J.Einstein a b + Lam * J.g a b = kappa * T a b

end Jet2

/-- stress-energy tensor of a perfect fluid at rest in the coordinates of a metric with unit lapse
and zero shift (`u_a = (−1,0,0,0)`): `T_ab = (ρ + p) u_a u_b + p g_ab`, i.e. `T_tt = ρ` (for
`g_tt = −1`), `T_ti = p g_ti`, `T_ij = p g_ij`  (MTW 5.21). -/
def comovingFluid {K : Type} [Field K] (rho p : K) (g : Fin 4 → Fin 4 → K) (a b : Fin 4) : K :=
  (rho + p) * (if a = 0 then -1 else 0) * (if b = 0 then -1 else 0) + p * g a b

end AurelVerif.Spec.Jet4
