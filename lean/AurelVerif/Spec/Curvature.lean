/-
Spec/Curvature.lean — hand-written textbook definitions for property C04
(4-D connection and curvature from 3+1 data), in index notation.

Nothing here is generated and nothing refers to the code.  Tensors are
functions of their indices (`Fin 4` = (t,x,y,z), `Fin 3` = (x,y,z)); all sums
are explicit `∑`.  Conventions (those of the code and of its references):
signature (−,+,+,+); Riemann tensor `R^a_{bcd} = ∂_c Γ^a_{bd} − ∂_d Γ^a_{bc} + …`,
Ricci `R_{bd} = R^a_{bad}`; extrinsic curvature `K_ij = −(1/2α)(∂_t γ_ij − D_i β_j − D_j β_i)`.

References for the 3+1 relations, as cited in core.py:
  M. Shibata, *Numerical Relativity* (World Scientific 2016), eqs 2.38 (Gauss),
  2.41 (Codazzi), 2.56 (Mainardi / Ricci equation).
-/
import Mathlib.Algebra.Field.Defs
import Mathlib.Algebra.BigOperators.Fin

namespace AurelVerif.Spec.Curvature

variable {K : Type} [Field K]

/-! ### index bookkeeping -/

/-- a function of a spacetime index given by its time value and its spatial part:
`tsplit t s 0 = t`, `tsplit t s (i+1) = s i`. -/
def tsplit {α : Type} (t : α) (s : Fin 3 → α) : Fin 4 → α := fun i =>
  match i with
  | ⟨0, _⟩ => t
  | ⟨1, _⟩ => s 0
  | ⟨2, _⟩ => s 1
  | ⟨_ + 3, _⟩ => s 2

@[simp] theorem tsplit_0 {α : Type} (t : α) (s : Fin 3 → α) : tsplit t s 0 = t := rfl
@[simp] theorem tsplit_1 {α : Type} (t : α) (s : Fin 3 → α) : tsplit t s 1 = s 0 := rfl
@[simp] theorem tsplit_2 {α : Type} (t : α) (s : Fin 3 → α) : tsplit t s 2 = s 1 := rfl
@[simp] theorem tsplit_3 {α : Type} (t : α) (s : Fin 3 → α) : tsplit t s 3 = s 2 := rfl

/-! ### connection -/

/-- Christoffel symbols of the first kind, `Γ_{dbc} = ½(∂_b g_dc + ∂_c g_db − ∂_d g_bc)`;
`dg c a b` stands for `∂_c g_ab`. -/
def christoffel1 {n : Nat} (dg : Fin n → Fin n → Fin n → K) (d b c : Fin n) : K :=
  (1 / 2) * (dg b d c + dg c d b - dg d b c)

/-- Christoffel symbols `Γ^a_{bc} = ½ g^{ad}(∂_b g_dc + ∂_c g_db − ∂_d g_bc)`
(e.g. Wald 3.1.30, Shibata 1.5). -/
def christoffel {n : Nat} (gup : Fin n → Fin n → K) (dg : Fin n → Fin n → Fin n → K) (a b c : Fin n) : K :=
  ∑ d, gup a d * christoffel1 dg d b c

/-! ### raising, contraction -/

/-- `R^i_{bcd} = g^{ai} R_{abcd}` (first index raised). -/
def raise1 {n : Nat} (gup : Fin n → Fin n → K) (R : Fin n → Fin n → Fin n → Fin n → K) (i b c d : Fin n) : K :=
  ∑ a, R a b c d * gup a i

/-- `R^{ef}_{cd} = g^{ae} g^{bf} R_{abcd}` (first pair raised). -/
def raise12 {n : Nat} (gup : Fin n → Fin n → K) (R : Fin n → Fin n → Fin n → Fin n → K) (x y c d : Fin n) : K :=
  ∑ a, ∑ b, R a b c d * gup a x * gup b y

/-- Ricci tensor `R_{bd} = R^a_{bad}`. -/
def ricci {n : Nat} (Ruddd : Fin n → Fin n → Fin n → Fin n → K) (b d : Fin n) : K := ∑ a, Ruddd a b a d

/-- trace `g^{ab} S_{ab}`; the Ricci scalar is `trace gup Ric`. -/
def trace {n : Nat} (gup : Fin n → Fin n → K) (S : Fin n → Fin n → K) : K := ∑ a, ∑ b, gup a b * S a b

/-- Einstein tensor `G_ab = R_ab − ½ R g_ab`. -/
def einstein {n : Nat} (Ric : Fin n → Fin n → K) (RS : K) (g : Fin n → Fin n → K) (a b : Fin n) : K :=
  Ric a b - (1 / 2) * RS * g a b

/-- Kretschmann scalar `R^{ab}{}_{cd} R^{cd}{}_{ab}`. -/
def kretschmann {n : Nat} (Ruudd : Fin n → Fin n → Fin n → Fin n → K) : K :=
  ∑ a, ∑ b, ∑ c, ∑ d, Ruudd a b c d * Ruudd c d a b

/-- Ricci tensor from the trace-reversed Einstein equations,
`R_ab = Λ g_ab + κ (T_ab − ½ T g_ab)`. -/
def ricciOfMatter {n : Nat} (Lam kappa : K) (g T : Fin n → Fin n → K) (Ttr : K) (a b : Fin n) : K :=
  Lam * g a b + kappa * (T a b - (1 / 2) * Ttr * g a b)

/-! ### Riemann symmetries -/

/-- the algebraic symmetries `R_abcd = −R_bacd = −R_abdc = R_cdab`; the diagonal
clauses are the antisymmetries in a form that is also meaningful in characteristic 2. -/
structure RiemannSym {n : Nat} (R : Fin n → Fin n → Fin n → Fin n → K) : Prop where
  anti12 : ∀ a b c d, R a b c d = -R b a c d
  anti34 : ∀ a b c d, R a b c d = -R a b d c
  pair : ∀ a b c d, R a b c d = R c d a b
  diag12 : ∀ a c d, R a a c d = 0
  diag34 : ∀ a b c, R a b c c = 0

/-! ### the 3+1 relations (Shibata 2016) -/

/-- spatial covariant derivative of a covariant 2-tensor,
`D_a f_bc = ∂_a f_bc − Γ^d_{ab} f_dc − Γ^d_{ac} f_bd` (derivative index first). -/
def covdDD (D : Fin 3 → K → K) (Gam : Fin 3 → Fin 3 → Fin 3 → K) (f : Fin 3 → Fin 3 → K) (a b c : Fin 3) : K :=
  D a (f b c) - ∑ d, Gam d a b * f d c - ∑ d, Gam d a c * f b d

/-- **Gauss** relation (Shibata 2.38): the fully spatial projection of the 4-Riemann tensor,
`R_ijkl = ³R_ijkl + K_ik K_jl − K_il K_jk`. -/
def gauss (R3 : Fin 3 → Fin 3 → Fin 3 → Fin 3 → K) (Kd : Fin 3 → Fin 3 → K) (i j k l : Fin 3) : K :=
  R3 i j k l + Kd i k * Kd j l - Kd i l * Kd j k

/-- **Codazzi** relation (Shibata 2.41) in coordinate components, `∂_t = α n + β`:
`R_ijkt = β^l R_ijkl + α (D_j K_ik − D_i K_jk)`; `DK a b c = D_a K_bc`. -/
def codazzi (alpha : K) (beta : Fin 3 → K) (Rssss : Fin 3 → Fin 3 → Fin 3 → Fin 3 → K)
    (DK : Fin 3 → Fin 3 → Fin 3 → K) (i j k : Fin 3) : K :=
  ∑ l, Rssss i j k l * beta l + alpha * (DK j i k - DK i j k)

/-- **Mainardi** (Ricci) relation (Shibata 2.56) in coordinate components:
`R_itjt = β^k R_jkit + β^k R_ikjt − β^k β^l R_ikjl + α² (³R_ij − K_ik K^k_j + K K_ij − ⁴R_ij)`.
`KK i j` stands for `K_ik K^k_j`; `Ric4 i j` for the spatial block of the 4-Ricci tensor
(zero in vacuum).  The two `R_…t` terms each contain `β^k β^l R_ikjl` once, hence the minus sign. -/
def mainardi (alpha : K) (beta : Fin 3 → K) (Rssss : Fin 3 → Fin 3 → Fin 3 → Fin 3 → K)
    (Rssst : Fin 3 → Fin 3 → Fin 3 → K) (Ric3 KK Kd : Fin 3 → Fin 3 → K) (Ktr : K) (Ric4 : Fin 3 → Fin 3 → K)
    (i j : Fin 3) : K :=
  ∑ k, Rssst j k i * beta k + ∑ k, Rssst i k j * beta k - ∑ k, ∑ l, Rssss i k j l * beta k * beta l
    + alpha ^ 2 * (Ric3 i j - KK i j + Kd i j * Ktr - Ric4 i j)

/-- `K_ik K^k_j = γ^{kl} K_ik K_jl`. -/
def KK3 (gamup Kd : Fin 3 → Fin 3 → K) (i j : Fin 3) : K := ∑ k, ∑ l, gamup k l * Kd i k * Kd j l

/-- **populate**: the 4-index tensor with the Riemann symmetries whose independent blocks are
`R_ijkl = Rssss i j k l`, `R_ijkt = Rssst i j k`, `R_itjt = Rstst i j`:
`R_ijtl = −R_ijlt`, `R_ktij = R_ijkt`, `R_tkij = −R_ijkt`, `R_ittj = −R_itjt`, `R_titj = R_itjt`,
`R_tijt = −R_itjt`, and zero where a pair has two time indices. -/
def populate (Rssss : Fin 3 → Fin 3 → Fin 3 → Fin 3 → K) (Rssst : Fin 3 → Fin 3 → Fin 3 → K)
    (Rstst : Fin 3 → Fin 3 → K) : Fin 4 → Fin 4 → Fin 4 → Fin 4 → K :=
  tsplit
    (tsplit (fun _ _ => 0) fun j =>
      tsplit (tsplit 0 fun l => Rstst j l) fun k => tsplit (-Rstst j k) fun l => -Rssst k l j)
    fun i =>
      tsplit (tsplit (tsplit 0 fun l => -Rstst i l) fun k => tsplit (Rstst i k) fun l => Rssst k l i)
        fun j => tsplit (tsplit 0 fun l => -Rssst i j l) fun k => tsplit (Rssst i j k) fun l => Rssss i j k l

/-! ### the 4-metric assembled from 3+1 data and its derivative -/

/-- `g_tt = −α² + β^i β^j γ_ij`, `g_ti = g_it = β^j γ_ji`, `g_ij = γ_ij`. -/
def metric3p1 (alpha : K) (beta : Fin 3 → K) (gam : Fin 3 → Fin 3 → K) : Fin 4 → Fin 4 → K :=
  tsplit (tsplit (-alpha ^ 2 + ∑ i, ∑ j, beta i * beta j * gam i j) fun j => ∑ k, beta k * gam k j)
    fun i => tsplit (∑ k, beta k * gam k i) fun j => gam i j

/-- derivative of `metric3p1` along one direction by the product rule, from the derivatives
`da`, `db`, `dgam` of α, β^i, γ_ij along that direction. -/
def dmetric3p1 (alpha : K) (beta : Fin 3 → K) (gam : Fin 3 → Fin 3 → K)
    (da : K) (db : Fin 3 → K) (dgam : Fin 3 → Fin 3 → K) : Fin 4 → Fin 4 → K :=
  tsplit
    (tsplit (-(2 * alpha * da) + ∑ i, ∑ j, (db i * beta j * gam i j + beta i * db j * gam i j + beta i * beta j * dgam i j))
      fun j => ∑ k, (db k * gam k j + beta k * dgam k j))
    fun i => tsplit (∑ k, (db k * gam k i + beta k * dgam k i)) fun j => dgam i j

/-- `D_i β_j = ∂_i β_j − Γ^l_{ij} β_l` with `β_j = β^k γ_kj` differentiated by the product rule;
`dbeta i k = ∂_i β^k`, `dgam i k j = ∂_i γ_kj`. -/
def covdShiftDown (beta : Fin 3 → K) (gam : Fin 3 → Fin 3 → K) (Gam : Fin 3 → Fin 3 → Fin 3 → K)
    (dbeta : Fin 3 → Fin 3 → K) (dgam : Fin 3 → Fin 3 → Fin 3 → K) (i j : Fin 3) : K :=
  ∑ k, (dbeta i k * gam k j + beta k * dgam i k j) - ∑ l, Gam l i j * ∑ k, beta k * gam k l

/-- the kinematic relation (definition of the extrinsic curvature, Shibata 2.23/2.51):
`∂_t γ_ij = −2 α K_ij + D_i β_j + D_j β_i`. -/
def dtGamma (alpha : K) (Kd Dbeta : Fin 3 → Fin 3 → K) (i j : Fin 3) : K :=
  -(2 * alpha * Kd i j) + Dbeta i j + Dbeta j i

/-! ### the 4-D Christoffel symbols in 3+1 form -/

/-- the 3+1 data and their first derivatives at one point ("jet"): lapse `alpha`, shift `beta^i`,
spatial metric `gam_ij` with inverse `gamup^ij`, extrinsic curvature `Kd_ij`, spatial connection
`Gam3^l_ij`; time derivatives `dta = ∂_t α`, `dtb l = ∂_t β^l`; spatial derivatives `da i = ∂_i α`,
`db i k = ∂_i β^k`, `dgam i k j = ∂_i γ_kj`. -/
structure Jet (K : Type) where
  alpha : K
  beta : Fin 3 → K
  gam : Fin 3 → Fin 3 → K
  gamup : Fin 3 → Fin 3 → K
  Kd : Fin 3 → Fin 3 → K
  Gam3 : Fin 3 → Fin 3 → Fin 3 → K
  dta : K
  dtb : Fin 3 → K
  da : Fin 3 → K
  db : Fin 3 → Fin 3 → K
  dgam : Fin 3 → Fin 3 → Fin 3 → K

namespace Jet
variable (J : Jet K)

/-- `β_j = β^k γ_kj`. -/
def betad (j : Fin 3) : K := ∑ k, J.beta k * J.gam k j
/-- `D_m β^l = ∂_m β^l + Γ^l_{nm} β^n`. -/
def Db (m l : Fin 3) : K := J.db m l + ∑ n, J.Gam3 l n m * J.beta n
/-- `Γ^t_tt = (∂_t α + β^m ∂_m α − β^m β^n K_mn)/α`. -/
def Gttt : K := (J.dta + ∑ m, J.beta m * J.da m - ∑ m, ∑ n, J.beta m * J.beta n * J.Kd m n) / J.alpha
/-- `Γ^t_ti = (∂_i α − β^m K_mi)/α`. -/
def Gtti (i : Fin 3) : K := (J.da i - ∑ m, J.beta m * J.Kd m i) / J.alpha
/-- `Γ^t_ij = −K_ij/α`. -/
def Gtij (i j : Fin 3) : K := -J.Kd i j / J.alpha
/-- `Γ^l_tt = γ^{lm}(α ∂_m α − 2 α β^n K_nm) − β^l Γ^t_tt + ∂_t β^l + β^m D_m β^l`. -/
def Gltt (l : Fin 3) : K :=
  ∑ m, J.gamup l m * (J.alpha * J.da m - 2 * J.alpha * ∑ n, J.beta n * J.Kd n m)
    - J.beta l * J.Gttt + J.dtb l + ∑ m, J.beta m * J.Db m l
/-- `Γ^l_mt = −β^l Γ^t_tm − α γ^{ln} K_nm + D_m β^l`. -/
def Glmt (l m : Fin 3) : K := -J.beta l * J.Gtti m - J.alpha * ∑ n, J.gamup l n * J.Kd n m + J.Db m l
/-- `Γ^l_ij = ³Γ^l_ij + β^l K_ij/α`. -/
def Glij (l i j : Fin 3) : K := J.Gam3 l i j + J.beta l * J.Kd i j / J.alpha

/-- the 4-D Christoffel symbols written in 3+1 pieces (e.g. Gourgoulhon, *3+1 Formalism*, the
connection coefficients in coordinates adapted to the foliation; these are the six pieces of
core.py `st_Gamma_udd4`). -/
def christoffel3p1 : Fin 4 → Fin 4 → Fin 4 → K :=
  tsplit
    (tsplit (tsplit J.Gttt J.Gtti) fun i => tsplit (J.Gtti i) fun j => J.Gtij i j)
    fun l => tsplit (tsplit (J.Gltt l) fun m => J.Glmt l m) fun i => tsplit (J.Glmt l i) fun j => J.Glij l i j

/-- the assembled 4-metric. -/
def g4 : Fin 4 → Fin 4 → K := metric3p1 J.alpha J.beta J.gam
/-- `D_i β_j`. -/
def DbD (i j : Fin 3) : K := covdShiftDown J.beta J.gam J.Gam3 J.db J.dgam i j
/-- `∂_t γ_ij` from the kinematic relation. -/
def dtgam (i j : Fin 3) : K := dtGamma J.alpha J.Kd J.DbD i j
/-- `∂_c g_ab` of the assembled metric by the product rule: `c = t` from `∂_t α`, `∂_t β^i` and the
kinematic relation, `c = i` from the spatial derivatives. -/
def dg4 : Fin 4 → Fin 4 → Fin 4 → K :=
  tsplit (dmetric3p1 J.alpha J.beta J.gam J.dta J.dtb J.dtgam)
    fun i => dmetric3p1 J.alpha J.beta J.gam (J.da i) (J.db i) (J.dgam i)

/-- hypotheses under which the 3+1 pieces are the Christoffel symbols of the assembled metric:
symmetric `γ`, `K`; `Gam3` the torsion-free, metric-compatible connection of `γ` with respect to
the derivative jets; `gamup` the inverse of `γ` (stated as: lowering after raising is the identity);
non-vanishing lapse; characteristic ≠ 2 (the definition contains the literal ½). -/
structure LeviCivita : Prop where
  symg : ∀ i j, J.gam i j = J.gam j i
  symK : ∀ i j, J.Kd i j = J.Kd j i
  symG : ∀ l i j, J.Gam3 l i j = J.Gam3 l j i
  mc : ∀ i k j, J.dgam i k j = ∑ l, J.gam l j * J.Gam3 l i k + ∑ l, J.gam k l * J.Gam3 l i j
  inv : ∀ (X : Fin 3 → K) (k : Fin 3), ∑ l, J.gam k l * ∑ n, J.gamup l n * X n = X k
  ha : J.alpha ≠ 0
  two : (2 : K) ≠ 0

end Jet

end AurelVerif.Spec.Curvature
