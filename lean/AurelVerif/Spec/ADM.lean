/-
Spec/ADM.lean — the 3+1 (ADM) constraints and the BSSNOK evolution right-hand
sides of property C06, hand-written in index notation from the cited books.
Nothing here is derived from the aurel source.

Conventions (as in Spec/Covd.lean).  `K` is any field; a tensor is a function of
its indices, its value at ONE grid point.  Partial derivatives enter either as an
abstract operator on values `D : Fin 3 → K → K` or as a table (`dφ k = ∂_kφ`,
`dβ c a = ∂_cβ^a`, `dA c i j = ∂_cÃ_ij`); the derivative index always comes FIRST.
Sign convention of the extrinsic curvature: `K_ij = −∇_i n_j`, i.e.
`∂_tγ_ij = −2αK_ij + L_βγ_ij` (B&S (2.134), Alcubierre (2.3.12)); κ = 8πG/c⁴.

References (equation numbers quoted from memory of the printed books; where I
could not recall the printed form exactly this is said at the definition):
 [BS] T. W. Baumgarte, S. L. Shapiro, Numerical Relativity (2010):
      (2.132) Hamiltonian constraint `R + K² − K_ijK^ij = 16πρ`,
      (2.133) momentum constraint `D_j(K^ij − γ^ij K) = 8πS^i`,
      (2.134) `∂_tγ_ij = −2αK_ij + L_βγ_ij`, (2.137) `∂_tK`,
      (11.35)–(11.38) BSSNOK: `∂_tφ`, `∂_tK`, `∂_tγ̃_ij`, `∂_tÃ_ij`.
 [A]  M. Alcubierre, Introduction to 3+1 Numerical Relativity (2008), §2.8:
      (2.8.9) `d/dt γ̃_ij = −2αÃ_ij`, (2.8.10) `d/dt φ = −αK/6`,
      (2.8.11) `d/dt Ã_ij`, (2.8.12) `d/dt K`, `d/dt := ∂_t − L_β`, with
      `L_βφ = β^k∂_kφ + (1/6)∂_kβ^k` (ψ = e^φ is a scalar density of weight 1/6;
      φ itself is NOT a density: no factor φ in the divergence term),
      γ̃_ij and Ã_ij tensor densities of weight −2/3, (2.8.25) `∂_tΓ̃^i`
      (Γ̃^i behaves as a vector density of weight +2/3 under L_β, plus the two
      second-derivative terms of the shift).
 Cosmological constant: `G_μν + Λg_μν = κT_μν` is `T → T − (Λ/κ) g`, i.e.
      `ρ → ρ + Λ/κ`, `S_ij → S_ij − (Λ/κ)γ_ij`, `S → S − 3Λ/κ`, `S^i` unchanged.
-/
import AurelVerif.Spec.Covd

namespace AurelVerif.Spec.ADM
open AurelVerif.Spec.Covd

variable {K : Type} [Field K]

/-! ### Constraints -/

/-- [BS] (2.132) with Λ: `H = R + K² − K_ij K^ij − 2κρ − 2Λ`  (16πρ = 2κρ). -/
def hamiltonian (R Ktr : K) (Kdn Kup : Fin 3 → Fin 3 → K) (κ ρ Λ : K) : K :=
  R + Ktr ^ 2 - (∑ i, ∑ j, Kdn i j * Kup i j) - 2 * κ * ρ - 2 * Λ

/-- vacuum, Λ = 0: `H = R + K² − K_ij K^ij`. -/
def hamiltonianVac (R Ktr : K) (Kdn Kup : Fin 3 → Fin 3 → K) : K :=
  R + Ktr ^ 2 - (∑ i, ∑ j, Kdn i j * Kup i j)

/-- the tensor whose divergence is the momentum constraint: `K^ij − γ^ij K`. -/
def momTensor (Kup γup : Fin 3 → Fin 3 → K) (Ktr : K) (a b : Fin 3) : K := Kup a b - γup a b * Ktr

/-- [BS] (2.133): `M^i = D_j (K^ij − γ^ij K) − κ S^i`  (8π = κ; Λ does not enter).
`D_j f^{ij} = ∂_j f^{ij} + Γ^i_{jm} f^{mj} + Γ^j_{jm} f^{im}` ([W] (3.1.14), `covdUU`). -/
def momentum (D : Fin 3 → K → K) (Γ : Fin 3 → Fin 3 → Fin 3 → K) (Kup γup : Fin 3 → Fin 3 → K) (Ktr κ : K)
    (S : Fin 3 → K) (i : Fin 3) : K :=
  (∑ j, covdUU Γ (pd2 D (momTensor Kup γup Ktr)) (momTensor Kup γup Ktr) j i j) - κ * S i

/-- vacuum: `M^i = D_j (K^ij − γ^ij K)`. -/
def momentumVac (D : Fin 3 → K → K) (Γ : Fin 3 → Fin 3 → Fin 3 → K) (Kup γup : Fin 3 → Fin 3 → K) (Ktr : K)
    (i : Fin 3) : K :=
  ∑ j, covdUU Γ (pd2 D (momTensor Kup γup Ktr)) (momTensor Kup γup Ktr) j i j

/-! ### Eulerian projections of the stress-energy tensor ([BS] (2.104)–(2.106), n^μ the unit normal) -/

/-- `ρ = n^μ n^ν T_μν`. -/
def rhoN (T : Fin 4 → Fin 4 → K) (n : Fin 4 → K) : K := ∑ a, ∑ b, T a b * n a * n b

/-- `S^i = −γ^{iμ} n^ν T_μν`  (γ^{μν} = g^{μν} + n^μ n^ν has vanishing time components). -/
def fluxN (γup4 T : Fin 4 → Fin 4 → K) (n : Fin 4 → K) (i : Fin 3) : K :=
  -∑ μ, ∑ ν, γup4 i.succ μ * T μ ν * n ν

/-- `S_ij = γ_i^μ γ_j^ν T_μν = T_ij` (spatial components, indices down). -/
def stressN (T : Fin 4 → Fin 4 → K) (i j : Fin 3) : K := T i.succ j.succ

/-- `S^ij = γ^ia γ^jb S_ab`, `S = γ^ij S_ij`. -/
def stressUpN (γup : Fin 3 → Fin 3 → K) (T : Fin 4 → Fin 4 → K) (i j : Fin 3) : K :=
  ∑ a, ∑ b, γup i a * γup j b * stressN T a b
def stressTrace (γup : Fin 3 → Fin 3 → K) (T : Fin 4 → Fin 4 → K) : K := ∑ a, ∑ b, γup a b * stressN T a b

/-! ### Evolution equations -/

/-- [BS] (2.134) raised: `∂_tγ^ij = L_βγ^ij + 2αK^ij`.
Sign: `γ^ik γ_kj = δ` gives `∂γ^ij = −γ^ia γ^jb ∂γ_ab`, so the lapse term of `∂_tγ_ij = −2αK_ij + …`
changes sign (Layer-B theorem `dt_inverse_metric` derives exactly this). -/
def dtGammaUp (β : Fin 3 → K) (dβ : Fin 3 → Fin 3 → K) (dγup : Fin 3 → Fin 3 → Fin 3 → K)
    (γup : Fin 3 → Fin 3 → K) (α : K) (Kup : Fin 3 → Fin 3 → K) (i j : Fin 3) : K :=
  lieUU β dβ dγup γup i j + 2 * α * Kup i j

/-- [A] (2.8.10), [BS] (11.35): `∂_tφ = −(1/6)αK + β^k∂_kφ + (1/6)∂_kβ^k`. -/
def dtPhi (β : Fin 3 → K) (dφ : Fin 3 → K) (dβ : Fin 3 → Fin 3 → K) (α Ktr : K) : K :=
  -(1 / 6) * α * Ktr + lie0 β dφ + (1 / 6) * divβ dβ

/-- [A] (2.8.9), [BS] (11.37): `∂_tγ̃_ij = −2αÃ_ij + β^k∂_kγ̃_ij + γ̃_ik∂_jβ^k + γ̃_kj∂_iβ^k − (2/3)γ̃_ij∂_kβ^k`. -/
def dtGammaTildeDown (β : Fin 3 → K) (dβ : Fin 3 → Fin 3 → K) (dγt : Fin 3 → Fin 3 → Fin 3 → K)
    (γt : Fin 3 → Fin 3 → K) (α : K) (At : Fin 3 → Fin 3 → K) (i j : Fin 3) : K :=
  -2 * α * At i j + lieDD β dβ dγt γt i j - (2 / 3) * divβ dβ * γt i j

/-- [A] (2.8.12), [BS] (2.137)/(11.36) with Λ:
`∂_tK = β^k∂_kK − γ^ij D_iD_jα + α(Ã_ijÃ^ij + K²/3) + (κ/2)α(ρ + S) − αΛ`
(4π = κ/2; the Λ term is `(κ/2)α(ρ_Λ + S_Λ)` with `ρ_Λ = Λ/κ`, `S_Λ = −3Λ/κ`). -/
def dtK (β : Fin 3 → K) (dK : Fin 3 → K) (γup DDα : Fin 3 → Fin 3 → K) (α A2 Ktr κ ρ S Λ : K) : K :=
  lie0 β dK - (∑ i, ∑ j, γup i j * DDα i j) + α * (A2 + (1 / 3) * Ktr ^ 2) + (κ / 2) * α * (ρ + S) - α * Λ

/-- vacuum, Λ = 0. -/
def dtKVac (β : Fin 3 → K) (dK : Fin 3 → K) (γup DDα : Fin 3 → Fin 3 → K) (α A2 Ktr : K) : K :=
  lie0 β dK - (∑ i, ∑ j, γup i j * DDα i j) + α * (A2 + (1 / 3) * Ktr ^ 2)

/-- [BS] (2.135) with Λ, the ADM evolution equation of the extrinsic curvature (used only as a HYPOTHESIS of the
Layer-B theorem about `dtKtrace`; no key of the code computes it):
`∂_tK_ij = −D_iD_jα + α(R_ij − 2K_ik K^k_j + K K_ij) − κα(S_ij − ½γ_ij(S − ρ)) − αΛγ_ij + L_βK_ij`. -/
def dtKdown (β : Fin 3 → K) (dβ : Fin 3 → Fin 3 → K) (dKd : Fin 3 → Fin 3 → Fin 3 → K)
    (Kd γ γup DDα Ric Sdn : Fin 3 → Fin 3 → K) (α Ktr κ ρ S Λ : K) (i j : Fin 3) : K :=
  -DDα i j + α * (Ric i j - 2 * (∑ k, ∑ l, Kd i k * γup k l * Kd l j) + Ktr * Kd i j)
  - κ * α * (Sdn i j - (1 / 2) * γ i j * (S - ρ)) - α * Λ * γ i j + lieDD β dβ dKd Kd i j

/-- trace-free part with respect to the physical metric: `f^TF_ij = f_ij − (1/3)γ_ij γ^kl f_kl`. -/
def tf (γ γup f : Fin 3 → Fin 3 → K) (i j : Fin 3) : K := f i j - (1 / 3) * γ i j * ∑ k, ∑ l, γup k l * f k l

/-- [BS] (11.38), [A] (2.8.11):
`∂_tÃ_ij = e^{−4φ}[−D_iD_jα + α(R_ij − κ S_ij)]^TF + α(KÃ_ij − 2Ã_ik γ̃^kl Ã_lj)
           + β^k∂_kÃ_ij + Ã_ik∂_jβ^k + Ã_kj∂_iβ^k − (2/3)Ã_ij∂_kβ^k`
(8π = κ; `em4φ` is the value of `e^{−4φ}`; Λγ_ij is pure trace and drops out). -/
def dtATilde (β : Fin 3 → K) (dβ : Fin 3 → Fin 3 → K) (dAt : Fin 3 → Fin 3 → Fin 3 → K)
    (At γtup γ γup DDα Ric Sdn : Fin 3 → Fin 3 → K) (em4φ α Ktr κ : K) (i j : Fin 3) : K :=
  em4φ * tf γ γup (fun a b => -DDα a b + α * Ric a b - α * κ * Sdn a b) i j
  + α * (Ktr * At i j - 2 * ∑ k, ∑ l, At i k * γtup k l * At l j)
  + lieDD β dβ dAt At i j - (2 / 3) * divβ dβ * At i j

/-- vacuum: no `S_ij` term. -/
def dtATildeVac (β : Fin 3 → K) (dβ : Fin 3 → Fin 3 → K) (dAt : Fin 3 → Fin 3 → Fin 3 → K)
    (At γtup γ γup DDα Ric : Fin 3 → Fin 3 → K) (em4φ α Ktr : K) (i j : Fin 3) : K :=
  em4φ * tf γ γup (fun a b => -DDα a b + α * Ric a b) i j
  + α * (Ktr * At i j - 2 * ∑ k, ∑ l, At i k * γtup k l * At l j)
  + lieDD β dβ dAt At i j - (2 / 3) * divβ dβ * At i j

/-- the part of [A] (2.8.25) without matter:
`∂_tΓ̃^i = γ̃^jk ∂_j∂_kβ^i + (1/3)γ̃^ij ∂_j∂_kβ^k + β^j∂_jΓ̃^i − Γ̃^j∂_jβ^i + (2/3)Γ̃^i∂_jβ^j
          − 2Ã^ij∂_jα + 2α(Γ̃^i_jk Ã^jk + 6Ã^ij∂_jφ − (2/3)γ̃^ij∂_jK)`. -/
def dtGammaVecVac (D : Fin 3 → K → K) (β : Fin 3 → K) (dβ : Fin 3 → Fin 3 → K) (dΓv : Fin 3 → Fin 3 → K)
    (Γv : Fin 3 → K) (γtup Atup : Fin 3 → Fin 3 → K) (Γt : Fin 3 → Fin 3 → Fin 3 → K) (α : K)
    (dα dφ dK : Fin 3 → K) (i : Fin 3) : K :=
  (∑ j, ∑ k, γtup j k * D j (D k (β i))) + (1 / 3) * (∑ j, γtup i j * ∑ k, D j (D k (β k)))
  + lieU β dβ dΓv Γv i + (2 / 3) * divβ dβ * Γv i
  - 2 * (∑ j, Atup i j * dα j)
  + 2 * α * ((∑ j, ∑ k, Γt i j k * Atup j k) + 6 * (∑ j, Atup i j * dφ j) - (2 / 3) * (∑ j, γtup i j * dK j))

/-- [A] (2.8.25) with matter: `… − 2κα e^{4φ} S^i`  (`2α·(−8π j̃^i)`, `j̃^i = e^{4φ}S^i`, 16π = 2κ). -/
def dtGammaVec (D : Fin 3 → K → K) (β : Fin 3 → K) (dβ : Fin 3 → Fin 3 → K) (dΓv : Fin 3 → Fin 3 → K)
    (Γv : Fin 3 → K) (γtup Atup : Fin 3 → Fin 3 → K) (Γt : Fin 3 → Fin 3 → Fin 3 → K) (α : K)
    (dα dφ dK : Fin 3 → K) (κ e4φ : K) (S : Fin 3 → K) (i : Fin 3) : K :=
  dtGammaVecVac D β dβ dΓv Γv γtup Atup Γt α dα dφ dK i - 2 * κ * α * e4φ * S i

end AurelVerif.Spec.ADM
