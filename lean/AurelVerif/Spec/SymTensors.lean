/-
Spec/SymTensors.lean — textbook definitions of the tensors of the symbolic
core, in index notation, for symbolic dimension `n` over a field `K`
(the field of symbolic expressions in the coordinates).

`D c` is the partial derivative `∂/∂x^c` (`sp.diff(·, coords[c])`).  Nothing
is assumed about it in the definitions; the theorems that need calculus take
`IsDeriv D` (additive, Leibniz, partial derivatives commute) as a hypothesis.
The metric enters as `g` (`gdown`) and `gup`; `IsMetric g gup` says that `g`
is symmetric and `gup` is its two-sided inverse (what `sympy`'s `Matrix.inv`
returns; the inverse and the determinant themselves are delegated to sympy).
-/
import Mathlib.Algebra.BigOperators.Group.Finset.Basic
import Mathlib.Algebra.Field.Basic
import Mathlib.Data.Fintype.BigOperators

namespace AurelVerif.Spec.SymTensors
open scoped BigOperators

variable {K : Type} [Field K] {n : ℕ}

/-- partial derivatives: additive, Leibniz rule, mutually commuting -/
structure IsDeriv (D : Fin n → K → K) : Prop where
  add : ∀ c a b, D c (a + b) = D c a + D c b
  mul : ∀ c a b, D c (a * b) = D c a * b + a * D c b
  comm : ∀ c d a, D c (D d a) = D d (D c a)

/-- `g` symmetric, `gup` its two-sided inverse -/
structure IsMetric (g gup : Fin n → Fin n → K) : Prop where
  symm : ∀ i j, g i j = g j i
  mul_inv : ∀ i j, ∑ m, g i m * gup m j = if i = j then 1 else 0
  inv_mul : ∀ i j, ∑ m, gup i m * g m j = if i = j then 1 else 0

/-- Christoffel symbol of the first kind
`Γ_{ijk} = ½ (∂_j g_{ik} + ∂_k g_{ij} − ∂_i g_{jk})` -/
def christoffel1 (D : Fin n → K → K) (g : Fin n → Fin n → K) (i j k : Fin n) : K :=
  (1 / 2) * (D j (g i k) + D k (g i j) - D i (g j k))

/-- Christoffel symbol of the second kind `Γ^i_{jk} = g^{im} Γ_{mjk}` -/
def christoffel2 (D : Fin n → K → K) (g gup : Fin n → Fin n → K) (i j k : Fin n) : K :=
  ∑ m, gup i m * christoffel1 D g m j k

/-- Riemann tensor of a connection
`R^i_{jkh} = ∂_k Γ^i_{jh} − ∂_h Γ^i_{jk} + Γ^i_{km} Γ^m_{jh} − Γ^i_{hm} Γ^m_{jk}` -/
def riemannUp (D : Fin n → K → K) (Γ : Fin n → Fin n → Fin n → K) (i j k h : Fin n) : K :=
  D k (Γ i j h) - D h (Γ i j k) + ∑ m, Γ i k m * Γ m j h - ∑ m, Γ i h m * Γ m j k

/-- `R_{ijkh} = g_{im} R^m_{jkh}` -/
def lower1 (g : Fin n → Fin n → K) (R : Fin n → Fin n → Fin n → Fin n → K) (i j k h : Fin n) : K :=
  ∑ m, g i m * R m j k h

/-- Ricci contraction `R_{ij} = R^k_{ikj}` -/
def contract13 (R : Fin n → Fin n → Fin n → Fin n → K) (i j : Fin n) : K :=
  ∑ k, R k i k j

/-- the tensors of a metric -/
def GammaUdd (D : Fin n → K → K) (g gup : Fin n → Fin n → K) : Fin n → Fin n → Fin n → K :=
  christoffel2 D g gup

def GammaDown (D : Fin n → K → K) (g : Fin n → Fin n → K) : Fin n → Fin n → Fin n → K :=
  christoffel1 D g

def RiemannUddd (D : Fin n → K → K) (g gup : Fin n → Fin n → K) : Fin n → Fin n → Fin n → Fin n → K :=
  riemannUp D (GammaUdd D g gup)

def RiemannDown (D : Fin n → K → K) (g gup : Fin n → Fin n → K) : Fin n → Fin n → Fin n → Fin n → K :=
  lower1 g (RiemannUddd D g gup)

def RicciDown (D : Fin n → K → K) (g gup : Fin n → Fin n → K) : Fin n → Fin n → K :=
  contract13 (RiemannUddd D g gup)

/-- `R = g^{ij} R_{ij}` -/
def RicciScalar (D : Fin n → K → K) (g gup : Fin n → Fin n → K) : K :=
  ∑ i, ∑ j, gup i j * RicciDown D g gup i j

/-- `G_{ij} = R_{ij} − ½ g_{ij} R` -/
def EinsteinDown (D : Fin n → K → K) (g gup : Fin n → Fin n → K) (i j : Fin n) : K :=
  RicciDown D g gup i j - (1 / 2) * g i j * RicciScalar D g gup

end AurelVerif.Spec.SymTensors
