/-
Spec/ChunkLayout.lean — vocabulary for the characterisation of the chunk
dictionaries that `join_chunks` accepts (C11, "an unsupported layout raises
instead of returning misplaced data").  Mathlib-free.

`join_chunks` uses the recorded origins only to GROUP chunks (equal `(iy, iz)`,
equal `iz`) and to ORDER them (`np.sort`); it never compares an origin with the
extent of the neighbouring block.  An *origin-annotated* decomposition `OZ`
records, for every z-slab, y-strip and x-piece, the length AND the origin that
the file recorded for it.  `ochunks A O` cuts `A` at the cumulative offsets of
the lengths (that is where `join_chunks` puts the blocks) but files each block
under its recorded origin.  `GapFree O base` says that the recorded origins are
the cumulative offsets (shifted by `base`): only then is every block placed
where the file says it belongs.
-/
import AurelVerif.Model.Chunks
namespace AurelVerif.ChunkLayout
open AurelVerif.Chunks

/-- pieces of one strip: `(xlen, ix)` -/
abbrev OX := List (Nat × Nat)
/-- strips of one slab: `(ylen, iy, pieces)` -/
abbrev OY := List (Nat × Nat × OX)
/-- slabs: `(zlen, iz, strips)` -/
abbrev OZ := List (Nat × Nat × OY)

/-- forget the recorded origins -/
def OZ.lens (O : OZ) : ZSplit :=
  O.map fun s => (s.1, s.2.2.map fun t => (t.1, t.2.2.map Prod.fst))

/-- blocks cut out of `A` at the cumulative offsets, keyed by the RECORDED origins -/
def ochunks {α : Type} (A : Arr3 α) (O : OZ) : Dict (Nat × Nat × Nat) (Arr3 α) :=
  (cutsP 0 O).flatMap fun zc =>
    (cutsP 0 zc.2.2.2).flatMap fun yc =>
      (cutsP 0 yc.2.2.2).map fun xc =>
        ((xc.2.2, yc.2.2.1, zc.2.2.1),
         slice2 xc.1 xc.2.1 (slice1 yc.1 yc.2.1 (slice0 zc.1 zc.2.1 A)))

/-- recorded origins strictly increase: slabs in `iz`, the strips of a slab in
`iy`, the pieces of a strip in `ix` (nothing else is required of them) -/
def OZ.Ordered (O : OZ) : Prop :=
  (O.map fun s => s.2.1).Pairwise (· < ·) ∧
  ∀ s ∈ O, (s.2.2.map fun t => t.2.1).Pairwise (· < ·) ∧
    ∀ t ∈ s.2.2, (t.2.2.map Prod.snd).Pairwise (· < ·)

/-- every recorded origin is `base` + the cumulative offset of the lengths in
front of it: no gap, no overlap, no strip or slab shifted against the others -/
def OZ.GapFree (O : OZ) (base : Nat × Nat × Nat) : Prop :=
  ∀ zc ∈ cutsP 0 O, zc.2.2.1 = base.2.2 + zc.1 ∧
    ∀ yc ∈ cutsP 0 zc.2.2.2, yc.2.2.1 = base.2.1 + yc.1 ∧
      ∀ xc ∈ cutsP 0 yc.2.2.2, xc.2.2 = base.1 + xc.1

instance (O : OZ) (base : Nat × Nat × Nat) : Decidable (O.GapFree base) := by
  unfold OZ.GapFree; infer_instance

/-- a numpy array with non-zero extents -/
def RectPos {α : Type} (b : Arr3 α) : Prop :=
  ∃ sz sy sx, 0 < sz ∧ 0 < sy ∧ 0 < sx ∧ Rect b sz sy sx

/-- **class X**: the dictionaries that `join_chunks` accepts although they are
not the chunks of any hierarchical decomposition filed under their true
origins — blocks whose extents fit together (so numpy does not raise) but
whose recorded origins leave gaps, overlap, or shift one strip/slab against
another.  `join_chunks` returns the blocks packed side by side in origin
ORDER: the data of at least one block is not where its origin says. -/
def ClassX {α : Type} (cut : Dict (Nat × Nat × Nat) (Arr3 α)) (R : Arr3 α) : Prop :=
  ∃ O : OZ, ∃ nz ny nx, Rect R nz ny nx ∧ O.Ordered ∧ O.lens.Valid nz ny nx ∧ cut.Perm (ochunks R O)
    ∧ ∀ base, ¬ O.GapFree base

end AurelVerif.ChunkLayout
