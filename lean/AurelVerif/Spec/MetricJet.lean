/-
Spec/MetricJet.lean — hand-written: what it means that a field of 2-jets
(Spec/Jet4.lean) is THE 2-jet of a given metric function of the coordinates
`(t, x, y, z)`, in terms of Mathlib's one-variable derivative `HasDerivAt`.

`HasPartialAt f c v t x y z`: the partial derivative of `f` along coordinate `c`
(`0,1,2,3 = t,x,y,z`) at the point `(t,x,y,z)` exists and equals `v`.

`IsJetField D gf J`: on the (open) coordinate domain `D`, at every point
  * `J.g` is the metric `gf`, and `J.gi` is its inverse matrix,
  * `J.dg c a b` is the partial derivative `∂_c` of the function `g_ab`,
  * `J.ddg c d a b` is the partial derivative `∂_c` of the function `(t,x,y,z) ↦ J.dg d a b`
    (which, by the previous clause, is the function `∂_d g_ab` on `D`).
So `J.ddg c d a b = ∂_c ∂_d g_ab`: the curvature computed from `J` by the algebraic formulas of
Spec/Jet4.lean is the Levi-Civita curvature of `gf` in the sense of calculus.
-/
import AurelVerif.Spec.Jet4
import Mathlib.Analysis.Calculus.Deriv.Basic

namespace AurelVerif.Spec.Jet4

/-- partial derivative along coordinate `c` of a function of `(t, x, y, z)`. -/
def HasPartialAt (f : ℝ → ℝ → ℝ → ℝ → ℝ) (c : Fin 4) (v : ℝ) (t x y z : ℝ) : Prop :=
  match c with
  | ⟨0, _⟩ => HasDerivAt (fun s => f s x y z) v t
  | ⟨1, _⟩ => HasDerivAt (fun s => f t s y z) v x
  | ⟨2, _⟩ => HasDerivAt (fun s => f t x s z) v y
  | ⟨_ + 3, _⟩ => HasDerivAt (fun s => f t x y s) v z

theorem hasPartialAt_zero (f : ℝ → ℝ → ℝ → ℝ → ℝ) (v t x y z : ℝ) :
    HasPartialAt f 0 v t x y z ↔ HasDerivAt (fun s => f s x y z) v t := Iff.rfl
theorem hasPartialAt_one (f : ℝ → ℝ → ℝ → ℝ → ℝ) (v t x y z : ℝ) :
    HasPartialAt f 1 v t x y z ↔ HasDerivAt (fun s => f t s y z) v x := Iff.rfl
theorem hasPartialAt_two (f : ℝ → ℝ → ℝ → ℝ → ℝ) (v t x y z : ℝ) :
    HasPartialAt f 2 v t x y z ↔ HasDerivAt (fun s => f t x s z) v y := Iff.rfl
theorem hasPartialAt_three (f : ℝ → ℝ → ℝ → ℝ → ℝ) (v t x y z : ℝ) :
    HasPartialAt f 3 v t x y z ↔ HasDerivAt (fun s => f t x y s) v z := Iff.rfl

/-- `J` is the field of 2-jets of the metric `gf` on the domain `D` (see the header). -/
structure IsJetField (D : ℝ → ℝ → ℝ → ℝ → Prop) (gf : ℝ → ℝ → ℝ → ℝ → Fin 4 → Fin 4 → ℝ)
    (J : ℝ → ℝ → ℝ → ℝ → Jet2 ℝ) : Prop where
  g_eq : ∀ t x y z, D t x y z → (J t x y z).g = gf t x y z
  inverse : ∀ t x y z, D t x y z → (J t x y z).IsInverse
  d1 : ∀ t x y z, D t x y z → ∀ c a b,
    HasPartialAt (fun t x y z => gf t x y z a b) c ((J t x y z).dg c a b) t x y z
  d2 : ∀ t x y z, D t x y z → ∀ c d a b,
    HasPartialAt (fun t x y z => (J t x y z).dg d a b) c ((J t x y z).ddg c d a b) t x y z

end AurelVerif.Spec.Jet4
