/-
Spec/FD.lean — what "the stated-order derivative at every grid point" means,
written independently of the splicing code.  Mathlib-free.
-/
import AurelVerif.Model.Splice

namespace AurelVerif.StencilLemmas
open AurelVerif.Splice

/-- j-th moment `Σ c_k k^j` of a stencil. -/
def moment (st : Stencil) (j : Nat) : Rat :=
  (st.map fun kc => kc.2 * ((kc.1 : Int) : Rat) ^ j).sum

/-- moment conditions of a p-th order first-derivative stencil. -/
def momentsOK (st : Stencil) (p : Nat) : Bool :=
  (List.range (p + 1)).all fun j => moment st j == (if j = 1 then 1 else 0)

def offsets (st : Stencil) : List Int := st.map (·.1)

/-- offsets `0..p` in any order. -/
def fwdShape (st : Stencil) (p : Nat) : Bool :=
  (offsets st).length == p + 1 && (List.range (p + 1)).all fun k => (offsets st).contains (k : Int)
def bwdShape (st : Stencil) (p : Nat) : Bool :=
  (offsets st).length == p + 1 && (List.range (p + 1)).all fun k => (offsets st).contains (-(k : Int))
/-- offsets `-m..m` without 0, in any order. -/
def cenShape (st : Stencil) (m : Nat) : Bool :=
  (offsets st).length == 2 * m &&
  (List.range m).all fun k => (offsets st).contains ((k : Int) + 1) && (offsets st).contains (-((k : Int) + 1))

/-- only what the splice theorems need: where each stencil reads. -/
def shapesOK (s : Scheme) (p : Nat) : Bool :=
  s.maskLen * 2 == p &&
  (s.fwd.all fun kc => 0 ≤ kc.1 && kc.1 ≤ (p : Int)) &&
  (s.bwd.all fun kc => -(p : Int) ≤ kc.1 && kc.1 ≤ 0) &&
  (s.cen.all fun kc => -(s.maskLen : Int) ≤ kc.1 && kc.1 ≤ (s.maskLen : Int))

def schemeOK (s : Scheme) (p : Nat) : Bool :=
  shapesOK s p && fwdShape s.fwd p && bwdShape s.bwd p && cenShape s.cen s.maskLen &&
  momentsOK s.fwd p && momentsOK s.cen p && momentsOK s.bwd p

end AurelVerif.StencilLemmas

namespace AurelVerif.SpliceLemmas
open AurelVerif.Splice

/-- the intended row `Σ c_k f[i+k]` with plain in-bounds indexing (no Python
wrap-around): `none` if any sample index falls outside `[0, len f)`. -/
def directRow (st : Stencil) (f : List α) (i : Nat) : Option (Lin α) :=
  st.mapM fun kc =>
    if 0 ≤ (i : Int) + kc.1 then (f[((i : Int) + kc.1).toNat]?).map (fun a => (kc.2, a)) else none

/-- which stencil the one-sided mode must use at grid point `i`. -/
def pickOnesided (s : Scheme) (N i : Nat) : Stencil :=
  if i < s.maskLen then s.fwd else if i < N - s.maskLen then s.cen else s.bwd

/-- periodic row: samples `(i + k) mod N`. -/
def wrapRow (st : Stencil) (f : List α) (N i : Nat) : Option (Lin α) :=
  st.mapM fun kc => (f[(((i : Int) + kc.1) % (N : Int)).toNat]?).map (fun a => (kc.2, a))

/-- mirror about sample 0 and sample N-1, end points not repeated. -/
def refl (N : Nat) (j : Int) : Int :=
  if j < 0 then -j else if (N : Int) - 1 < j then 2 * ((N : Int) - 1) - j else j

def reflRow (st : Stencil) (f : List α) (N i : Nat) : Option (Lin α) :=
  st.mapM fun kc =>
    let j := refl N ((i : Int) + kc.1)
    if 0 ≤ j then (f[j.toNat]?).map (fun a => (kc.2, a)) else none

end AurelVerif.SpliceLemmas
