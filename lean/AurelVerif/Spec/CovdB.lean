/-
Spec/CovdB.lean — textbook vocabulary for the consistency layer (Layer B) of property C05 added in
the extension round: the second-derivative form of the Riemann tensor, the conformal-transformation
rule of the Ricci tensor, the divergence of a vector density, the spatial Levi-Civita tensor with two
raised indices.  Hand-written; nothing here is derived from the aurel source.
Conventions as in Spec/Covd.lean (`D i x` = derivative along axis `i` of the field whose value is `x`).

References
 [LL] L. D. Landau, E. M. Lifshitz, The Classical Theory of Fields (4th ed.), §92 eq. (92.1):
      `R_iklm = ½(∂_k∂_l g_im + ∂_i∂_m g_kl − ∂_k∂_m g_il − ∂_i∂_l g_km) + g_np(Γ^n_kl Γ^p_im − Γ^n_km Γ^p_il)`;
      §86 eq. (86.9): `A^i_{;i} = (1/√g) ∂_i(√g A^i)`.
 [W]  R. M. Wald, General Relativity (1984): (3.2.13)–(3.2.15) symmetries of the Riemann tensor,
      (3.2.14) first Bianchi identity `R_{[abc]}{}^d = 0`, (3.4.9) `Γ^a_{aμ} = ∂_μ ln √|g|`.
 [A]  M. Alcubierre, Introduction to 3+1 Numerical Relativity (2008), (2.8.16) `R_ij = R̃_ij + R^φ_ij`.
-/
import AurelVerif.Spec.Covd

namespace AurelVerif.Spec.Covd

variable {K : Type} [Field K]

/-- [LL] (92.1) with `(i,k,l,m) = (a,b,c,d)`: fully covariant Riemann tensor of a metric `g` with
connection `Γ`,
`R_abcd = ½(∂_b∂_c g_ad + ∂_a∂_d g_bc − ∂_a∂_c g_bd − ∂_b∂_d g_ac) + g_ef(Γ^e_bc Γ^f_ad − Γ^e_bd Γ^f_ac)`. -/
def riemannDown2 (D : Fin 3 → K → K) (g : Fin 3 → Fin 3 → K) (Γ : Fin 3 → Fin 3 → Fin 3 → K)
    (a b c d : Fin 3) : K :=
  (1 / 2) * (D b (D c (g a d)) + D a (D d (g b c)) - D a (D c (g b d)) - D b (D d (g a c)))
  + ∑ e, ∑ f, g e f * (Γ e b c * Γ f a d - Γ e b d * Γ f a c)

/-- [LL] (86.9) / [W] (3.4.10): divergence of a vector through the density `s = √γ`:
`(1/s) ∂_i (s v^i)`. -/
def divDensity (D : Fin 3 → K → K) (s : K) (v : Fin 3 → K) : K := (1 / s) * ∑ i, D i (s * v i)

/-- spatial Levi-Civita tensor with the first two indices raised, `ε^{ab}{}_c = γ^{ad} γ^{bf} ε_{dfc}`. -/
def eps3UUD (γup : Fin 3 → Fin 3 → K) (ε : Fin 3 → Fin 3 → Fin 3 → K) (a b c : Fin 3) : K :=
  ∑ d, ∑ f, γup a d * γup b f * ε d f c

end AurelVerif.Spec.Covd
