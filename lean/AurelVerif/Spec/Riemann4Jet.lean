/-
Spec/Riemann4Jet.lean — hand-written textbook vocabulary for the curvature part of
property C04 (extension round): the fully covariant Riemann tensor of a metric computed
from its 2-jet at one point, and the 2-jet of the 4-metric ASSEMBLED from 3+1 data.

Nothing here is generated and nothing refers to the code.  `K` is any field; jets are
plain symbols (numbers at one point), exactly as in `Spec/Curvature.lean` (`Jet`).

  `riemannDown gi dg ddg a b c d`
      = ½(∂_b∂_c g_ad + ∂_a∂_d g_bc − ∂_a∂_c g_bd − ∂_b∂_d g_ac)
        + g^{ef}(Γ_{e|bc} Γ_{f|ad} − Γ_{e|bd} Γ_{f|ac}),     Γ_{f|bc} = ½(∂_b g_fc + ∂_c g_fb − ∂_f g_bc)
   — Landau–Lifshitz, *The Classical Theory of Fields*, §92 eq. (92.1) (there with Γ of the second
   kind and g_{np}; `g_{np}Γ^n Γ^p = g^{ef}Γ_e Γ_f`); MTW (13.50)/(11.12) in a coordinate basis.
   That it is `g_{ae} R^e_{bcd}` with `R^e_{bcd} = ∂_cΓ^e_{db} − ∂_dΓ^e_{cb} + ΓΓ − ΓΓ`
   (`Spec/Jet4.lean`) is proven in Lemmas/C04RiemLower.lean.
  `ricciDown gi R b d = g^{ac} R_{abcd}`.

2-jet of the 3+1 data (`JetC`, extends the 1-jet `Jet`): additional symbols
  `dK i j k = ∂_i K_jk`, `dda c d = ∂_c∂_d α`, `ddb c d m = ∂_c∂_d β^m` (c, d ∈ (t,x,y,z)),
  `ddgam k l i j = ∂_k∂_l γ_ij`, `dttgam i j = ∂_t∂_t γ_ij`.
The mixed derivative `∂_i∂_t γ_jk` is NOT a free symbol: it is `∂_i` of the kinematic relation
  `∂_t γ_jk = −2αK_jk + L_β γ_jk`,   `L_β γ_jk = β^m ∂_m γ_jk + γ_mk ∂_j β^m + γ_jm ∂_k β^m`
expanded by the Leibniz rule (`JetC.ddtgam`).  (`Jet.dtgam` of Spec/Curvature.lean writes the same
relation with covariant derivatives, `−2αK_jk + D_jβ_k + D_kβ_j`; the two coincide for a torsion-free
metric-compatible connection — Lemmas/C04Jet2.lean `dtgam_lie`.)
`JetC.ddg4 c d a b = ∂_c∂_d g_ab` of the assembled metric `g_tt = −α² + β^iβ^jγ_ij`, `g_ti = β^jγ_ji`,
`g_ij = γ_ij` by the product rule applied twice (`ddmetric3p1`); that `ddmetric3p1` is what two
derivations give is proven in Lemmas/C04Jet2.lean (`dderiv_metric3p1`).
-/
import AurelVerif.Spec.Curvature

namespace AurelVerif.Spec.Curvature

variable {K : Type} [Field K]

/-- fully covariant Riemann tensor from the 2-jet of a metric ([LL] (92.1)); `gi = g^{ab}`,
`dg c a b = ∂_c g_ab`, `ddg c d a b = ∂_c∂_d g_ab`. -/
def riemannDown {n : Nat} (gi : Fin n → Fin n → K) (dg : Fin n → Fin n → Fin n → K)
    (ddg : Fin n → Fin n → Fin n → Fin n → K) (a b c d : Fin n) : K :=
  (1 / 2) * (ddg b c a d + ddg a d b c - ddg a c b d - ddg b d a c)
    + ∑ e, ∑ f, gi e f * (christoffel1 dg e b c * christoffel1 dg f a d - christoffel1 dg e b d * christoffel1 dg f a c)

/-- Ricci tensor of a fully covariant Riemann tensor, `R_bd = g^{ac} R_abcd`. -/
def ricciDown {n : Nat} (gi : Fin n → Fin n → K) (R : Fin n → Fin n → Fin n → Fin n → K) (b d : Fin n) : K :=
  ∑ a, ∑ c, gi a c * R a b c d

/-- second derivative of `metric3p1 α β γ` along two directions by the product rule applied twice:
`a1, b1, g1` / `a2, b2, g2` are the first derivatives of α, β^i, γ_ij along the first / second direction,
`a12, b12, g12` their mixed second derivatives. -/
def ddmetric3p1 (alpha : K) (beta : Fin 3 → K) (gam : Fin 3 → Fin 3 → K)
    (a1 : K) (b1 : Fin 3 → K) (g1 : Fin 3 → Fin 3 → K) (a2 : K) (b2 : Fin 3 → K) (g2 : Fin 3 → Fin 3 → K)
    (a12 : K) (b12 : Fin 3 → K) (g12 : Fin 3 → Fin 3 → K) : Fin 4 → Fin 4 → K :=
  tsplit
    (tsplit (-(2 * (a2 * a1 + alpha * a12))
        + ∑ i, ∑ j, ((b12 i * beta j * gam i j + b1 i * b2 j * gam i j + b1 i * beta j * g2 i j)
                    + (b2 i * b1 j * gam i j + beta i * b12 j * gam i j + beta i * b1 j * g2 i j)
                    + (b2 i * beta j * g1 i j + beta i * b2 j * g1 i j + beta i * beta j * g12 i j)))
      fun j => ∑ k, ((b12 k * gam k j + b1 k * g2 k j) + (b2 k * g1 k j + beta k * g12 k j)))
    fun i => tsplit (∑ k, ((b12 k * gam k i + b1 k * g2 k i) + (b2 k * g1 k i + beta k * g12 k i))) fun j => g12 i j

/-- the 3+1 data with first AND second derivatives at one point (see the header). -/
structure JetC (K : Type) extends Jet K where
  /-- `dK i j k = ∂_i K_jk` -/
  dK : Fin 3 → Fin 3 → Fin 3 → K
  /-- `dda c d = ∂_c∂_d α` -/
  dda : Fin 4 → Fin 4 → K
  /-- `ddb c d m = ∂_c∂_d β^m` -/
  ddb : Fin 4 → Fin 4 → Fin 3 → K
  /-- `ddgam k l i j = ∂_k∂_l γ_ij` -/
  ddgam : Fin 3 → Fin 3 → Fin 3 → Fin 3 → K
  /-- `dttgam i j = ∂_t∂_t γ_ij` -/
  dttgam : Fin 3 → Fin 3 → K

namespace Jet
variable (J : Jet K)

/-- the textbook 3+1 form of the inverse of the assembled metric:
`g^tt = −1/α²`, `g^ti = β^i/α²`, `g^ij = γ^ij − β^iβ^j/α²`. -/
def gup3p1 : Fin 4 → Fin 4 → K :=
  tsplit (tsplit (-1 / J.alpha ^ 2) fun j => J.beta j / J.alpha ^ 2)
    fun i => tsplit (J.beta i / J.alpha ^ 2) fun j => J.gamup i j - J.beta i * J.beta j / J.alpha ^ 2

/-- `L_β γ_jk = β^m ∂_m γ_jk + γ_mk ∂_j β^m + γ_jm ∂_k β^m`. -/
def lieGam (j k : Fin 3) : K :=
  ∑ m, (J.beta m * J.dgam m j k + J.gam m k * J.db j m + J.gam j m * J.db k m)

/-- first derivatives with a spacetime direction index: `∂_c α`, `∂_c β^m`, `∂_c γ_ij` (`c = t`: the supplied
`dta`, `dtb` and the kinematic relation). -/
def d4a : Fin 4 → K := tsplit J.dta J.da
def d4b : Fin 4 → Fin 3 → K := tsplit J.dtb J.db
def d4gam : Fin 4 → Fin 3 → Fin 3 → K := tsplit J.dtgam J.dgam

/-- spatial covariant derivative of the extrinsic curvature from jets,
`D_a K_bc = ∂_a K_bc − Γ^d_{ab} K_dc − Γ^d_{ac} K_bd`. -/
def covdK (dK : Fin 3 → Fin 3 → Fin 3 → K) (a b c : Fin 3) : K :=
  dK a b c - ∑ d, J.Gam3 d a b * J.Kd d c - ∑ d, J.Gam3 d a c * J.Kd b d

end Jet

namespace JetC
variable (J : JetC K)

/-- `∂_i∂_t γ_jk`: the Leibniz expansion of `∂_i(−2αK_jk + L_β γ_jk)`. -/
def ddtgam (i j k : Fin 3) : K :=
  -(2 * (J.da i * J.Kd j k + J.alpha * J.dK i j k))
    + ∑ m, ((J.db i m * J.dgam m j k + J.beta m * J.ddgam i m j k)
           + (J.dgam i m k * J.db j m + J.gam m k * J.ddb i.succ j.succ m)
           + (J.dgam i j m * J.db k m + J.gam j m * J.ddb i.succ k.succ m))

/-- `∂_c∂_d γ_ij` for spacetime directions `c, d`. -/
def dd4gam : Fin 4 → Fin 4 → Fin 3 → Fin 3 → K :=
  tsplit (tsplit J.dttgam fun l => J.ddtgam l) fun k => tsplit (J.ddtgam k) fun l => J.ddgam k l

/-- `ddg4 c d a b = ∂_c∂_d g_ab` of the assembled 4-metric. -/
def ddg4 (c d : Fin 4) : Fin 4 → Fin 4 → K :=
  ddmetric3p1 J.alpha J.beta J.gam (J.d4a d) (J.d4b d) (J.d4gam d) (J.d4a c) (J.d4b c) (J.d4gam c)
    (J.dda c d) (J.ddb c d) (J.dd4gam c d)

/-- the textbook Riemann tensor of `γ` from its 2-jet. -/
def riem3 : Fin 3 → Fin 3 → Fin 3 → Fin 3 → K := riemannDown J.gamup J.dgam J.ddgam

/-- the textbook Riemann tensor of the assembled 4-metric from its 2-jet, with inverse metric `gup`. -/
def riem4 (gup : Fin 4 → Fin 4 → K) : Fin 4 → Fin 4 → Fin 4 → Fin 4 → K := riemannDown gup J.dg4 J.ddg4

/-- second derivatives commute / are symmetric in the tensor indices. -/
structure Smooth : Prop where
  dK : ∀ i j k, J.dK i j k = J.dK i k j
  dda : ∀ c d, J.dda c d = J.dda d c
  ddb : ∀ c d m, J.ddb c d m = J.ddb d c m
  ddgam_kl : ∀ k l i j, J.ddgam k l i j = J.ddgam l k i j
  ddgam_ij : ∀ k l i j, J.ddgam k l i j = J.ddgam k l j i
  dttgam : ∀ i j, J.dttgam i j = J.dttgam j i

end JetC

end AurelVerif.Spec.Curvature
