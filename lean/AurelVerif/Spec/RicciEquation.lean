/-
Spec/RicciEquation.lean — hand-written textbook vocabulary for the EVOLUTION equation of the extrinsic
curvature on 2-jets (property C06, extension round).  Nothing here is generated and nothing refers to the code.

`J : JetC K` (Spec/Riemann4Jet.lean) carries `∂_t∂_tγ_ij` as the free symbol `J.dttgam`.  The time derivative of the
extrinsic curvature is NOT a symbol of the jet: it is DETERMINED by `∂_t∂_tγ_ij` through the t-derivative of the
kinematic relation
    `∂_tγ_jk = −2αK_jk + β^m∂_mγ_jk + γ_mk∂_jβ^m + γ_jm∂_kβ^m`
expanded by the Leibniz rule:
    `∂_t∂_tγ_jk = −2(∂_tα K_jk + α ∂_tK_jk) + ∂_tβ^m ∂_mγ_jk + β^m ∂_m∂_tγ_jk + ∂_tγ_mk ∂_jβ^m + γ_mk ∂_t∂_jβ^m
                   + ∂_tγ_jm ∂_kβ^m + γ_jm ∂_t∂_kβ^m`                                              (`dttgamOf`)
with `∂_m∂_tγ_jk = J.ddtgam m j k` (the Leibniz x-derivative of the same relation), `∂_tγ = J.dtgam`,
`∂_t∂_jβ^m = J.ddb 0 j.succ m`.  `J.dtKd` solves this for `∂_tK_jk` (`α ≠ 0`, `2 ≠ 0`).

  `lieK`    `L_βK_ij = β^m∂_mK_ij + K_mj∂_iβ^m + K_im∂_jβ^m`                     ([W] App. C.2; `Spec.Covd.lieDD`)
  `DDa`     `D_iD_jα = ∂_i∂_jα − Γ^k_ij∂_kα`
  `ricciEqRHS`  the right-hand side of the RICCI EQUATION in coordinate components (`∂_t = αn + β`):
        `R_itjt = β^kR_jkit + β^kR_ikjt − β^kβ^lR_ikjl + α(∂_tK_ij − L_βK_ij) + αD_iD_jα + α²K_ikK^k_j`,
      i.e. `R_{iμjν}n^μn^ν = (1/α)(∂_t − L_β)K_ij + (1/α)D_iD_jα + K_ikK^k_j`
      (Gourgoulhon, 3+1 Formalism, eq. (3.43) with `K_ij = −∇_i n_j`; Baumgarte–Shapiro (2.82) before Einstein's equations).
  `admRHS`  the ADM evolution equation, geometric form (Baumgarte–Shapiro (2.106)/(2.135) before the matter terms are inserted):
        `∂_tK_ij = −D_iD_jα + α(³R_ij − 2K_ikK^k_j + K K_ij − ⁴R_ij) + L_βK_ij`,   `⁴R_ij` = spatial block of the 4-Ricci tensor.
-/
import AurelVerif.Spec.Riemann4Jet

namespace AurelVerif.Spec.Curvature.JetC

variable {K : Type} [Field K] (J : JetC K)

/-- the Leibniz t-derivative of the shift part `L_βγ_jk` of the kinematic relation. -/
def dtLieGam (j k : Fin 3) : K :=
  ∑ m, ((J.dtb m * J.dgam m j k + J.beta m * J.ddtgam m j k)
       + (J.dtgam m k * J.db j m + J.gam m k * J.ddb 0 j.succ m)
       + (J.dtgam j m * J.db k m + J.gam j m * J.ddb 0 k.succ m))

/-- `∂_t∂_tγ_jk` as the Leibniz t-derivative of the kinematic relation, for a given table `dtK j k = ∂_tK_jk`. -/
def dttgamOf (dtK : Fin 3 → Fin 3 → K) (j k : Fin 3) : K :=
  -(2 * (J.dta * J.Kd j k + J.alpha * dtK j k)) + J.dtLieGam j k

/-- `∂_tK_jk` determined by the 2-jet: `dttgamOf` solved for `dtK`. -/
def dtKd (j k : Fin 3) : K :=
  (J.dtLieGam j k - J.dttgam j k - 2 * J.dta * J.Kd j k) / (2 * J.alpha)

/-- `L_βK_ij = β^m∂_mK_ij + K_mj∂_iβ^m + K_im∂_jβ^m`. -/
def lieK (i j : Fin 3) : K :=
  ∑ m, (J.beta m * J.dK m i j + J.Kd m j * J.db i m + J.Kd i m * J.db j m)

/-- `D_iD_jα = ∂_i∂_jα − Γ^k_ij∂_kα`. -/
def DDa (i j : Fin 3) : K := J.dda i.succ j.succ - ∑ k, J.Gam3 k i j * J.da k

/-- right-hand side of the Ricci equation for `R_itjt` in coordinate components; `A = R_ijkl`, `B = R_ijkt` blocks,
`dtK = ∂_tK_ij`. -/
def ricciEqRHS (A : Fin 3 → Fin 3 → Fin 3 → Fin 3 → K) (B : Fin 3 → Fin 3 → Fin 3 → K) (dtK : Fin 3 → Fin 3 → K)
    (i j : Fin 3) : K :=
  ∑ k, B j k i * J.beta k + ∑ k, B i k j * J.beta k - ∑ k, ∑ l, A i k j l * J.beta k * J.beta l
    + J.alpha * (dtK i j - J.lieK i j) + J.alpha * J.DDa i j + J.alpha ^ 2 * KK3 J.gamup J.Kd i j

/-- right-hand side of the ADM evolution equation of `K_ij` in geometric form; `Ric4 i j` = spatial block of the
4-Ricci tensor. -/
def admRHS (Ric4 : Fin 3 → Fin 3 → K) (i j : Fin 3) : K :=
  -J.DDa i j
    + J.alpha * (ricciDown J.gamup J.riem3 i j - 2 * KK3 J.gamup J.Kd i j
        + J.Kd i j * (∑ k, ∑ l, J.gamup k l * J.Kd k l) - Ric4 i j)
    + J.lieK i j

end AurelVerif.Spec.Curvature.JetC
