/-
Spec/Constraints3.lean — hand-written textbook definitions for property C17 (ICPertFLRW): the
Hamiltonian and momentum constraints of 3+1 initial data `(γ_ij, K_ij, ρ, S_i)`, computed purely
algebraically from the 2-jet of the spatial metric and the 1-jet of the extrinsic curvature at
one point.  Nothing here is generated and nothing refers to the code.

The scalars are the elements of ANY commutative ℝ-algebra `A` (the only non-ring operation of
the formulas is the factor ½ of the Christoffel symbols, written `(1/2 : ℝ) • _`), the inverse metric
is part of the data (`J.gi`, with `J.IsInverse`), so the same definitions serve
  * `A = ℝ`: the constraints of concrete initial data at a point (for `A = ℝ` the definitions below
    are literally those of Spec/Jet4.lean with `Fin 3` in place of `Fin 4` and `hamiltonian` is
    `Spec.ADM.hamiltonian`, see `hamiltonian_eq_ADM`);
  * `A = ℝ[ε]/(ε²)` (Mathlib's `DualNumber ℝ`): first-order perturbation theory — an equation in
    `A` is the pair (zeroth order, first order in ε) of real equations, i.e. "holds up to O(ε²)".

A *jet of initial data* at a point:
  `g a b = γ_ab`, `gi a b = γ^{ab}`, `dg c a b = ∂_c γ_ab`, `ddg c d a b = ∂_c ∂_d γ_ab`,
  `K a b = K_ab`, `dK c a b = ∂_c K_ab`.

Conventions (Wald (1984) 3.1.30; MTW (1973) 8.24b, 8.44, 8.47; Baumgarte–Shapiro (2010) (2.132), (2.133)):
  Γ_{dbc}   = ½(∂_b γ_dc + ∂_c γ_db − ∂_d γ_bc),   Γ^a_{bc} = γ^{ad} Γ_{dbc},
  ∂_e γ^{ab} = − γ^{ai} (∂_e γ_ij) γ^{jb},
  ∂_e Γ^a_{bc} = (∂_e γ^{ad}) Γ_{dbc} + γ^{ad} ∂_e Γ_{dbc},
  R^a_{bcd} = ∂_c Γ^a_{db} − ∂_d Γ^a_{cb} + Γ^a_{ce} Γ^e_{db} − Γ^a_{de} Γ^e_{cb},
  R_{bd} = R^a_{bad},  R = γ^{bd} R_{bd},
  K^{ij} = γ^{ik} γ^{jl} K_kl,  K = γ^{ij} K_ij,
  Hamiltonian constraint  H = R + K² − K_ij K^{ij} − 2κρ − 2Λ            ([BS] (2.132) with Λ, 16π = 2κ),
  D_c K_ab = ∂_c K_ab − Γ^m_{ca} K_mb − Γ^m_{cb} K_am,
  momentum constraint     M_i = D_j K^j_i − D_i K − κ S_i = γ^{jk}(D_j K_ki − D_i K_jk) − κ S_i
                                                             ([BS] (2.133) with the index lowered, 8π = κ;
                                                              metric compatibility D γ = 0).
-/
import Mathlib.Algebra.BigOperators.Fin
import Mathlib.Algebra.Algebra.Basic
import Mathlib.Data.Real.Basic

noncomputable section
namespace AurelVerif.Spec.Constraints3

/-- the jet of 3+1 initial data at one point (see the header). -/
structure Jet3 (A : Type) where
  /-- `γ_ab` -/
  g : Fin 3 → Fin 3 → A
  /-- `γ^{ab}` -/
  gi : Fin 3 → Fin 3 → A
  /-- `dg c a b = ∂_c γ_ab` -/
  dg : Fin 3 → Fin 3 → Fin 3 → A
  /-- `ddg c d a b = ∂_c ∂_d γ_ab` -/
  ddg : Fin 3 → Fin 3 → Fin 3 → Fin 3 → A
  /-- `K_ab` -/
  K : Fin 3 → Fin 3 → A
  /-- `dK c a b = ∂_c K_ab` -/
  dK : Fin 3 → Fin 3 → Fin 3 → A

namespace Jet3
variable {A : Type} [CommRing A] [Algebra ℝ A] (J : Jet3 A)

/-- `gi` is the inverse matrix of `g`: `γ_ac γ^{cb} = δ_a^b`. -/
def IsInverse : Prop := ∀ a b, ∑ c, J.g a c * J.gi c b = if a = b then 1 else 0

/-- `Γ_{dbc}` (first kind). -/
def Gl (d b c : Fin 3) : A := (1 / 2 : ℝ) • (J.dg b d c + J.dg c d b - J.dg d b c)
/-- `Γ^a_{bc}`. -/
def Gam (a b c : Fin 3) : A := ∑ d, J.gi a d * J.Gl d b c
/-- `∂_e γ^{ab} = − γ^{ai} ∂_e γ_ij γ^{jb}`. -/
def dgi (e a b : Fin 3) : A := -∑ i, ∑ j, J.gi a i * J.dg e i j * J.gi j b
/-- `∂_e Γ_{dbc} = ½(∂_e∂_b γ_dc + ∂_e∂_c γ_db − ∂_e∂_d γ_bc)`. -/
def dGl (e d b c : Fin 3) : A := (1 / 2 : ℝ) • (J.ddg e b d c + J.ddg e c d b - J.ddg e d b c)
/-- `∂_e Γ^a_{bc}` by the product rule. -/
def dGam (e a b c : Fin 3) : A := ∑ d, (J.dgi e a d * J.Gl d b c + J.gi a d * J.dGl e d b c)
/-- Riemann tensor `R^a_{bcd} = ∂_c Γ^a_{db} − ∂_d Γ^a_{cb} + Γ^a_{ce} Γ^e_{db} − Γ^a_{de} Γ^e_{cb}`. -/
def Riem (a b c d : Fin 3) : A :=
  J.dGam c a d b - J.dGam d a c b + ∑ e, (J.Gam a c e * J.Gam e d b - J.Gam a d e * J.Gam e c b)
/-- Ricci tensor `R_{bd} = R^a_{bad}`. -/
def Ric (b d : Fin 3) : A := ∑ a, J.Riem a b a d
/-- Ricci scalar `R = γ^{bd} R_bd`. -/
def RicS : A := ∑ b, ∑ d, J.gi b d * J.Ric b d

/-- `K^{ij} = γ^{ik} γ^{jl} K_kl`. -/
def Kup (i j : Fin 3) : A := ∑ k, ∑ l, J.gi i k * J.gi j l * J.K k l
/-- `K = γ^{ij} K_ij`. -/
def Ktr : A := ∑ i, ∑ j, J.gi i j * J.K i j

/-- Hamiltonian constraint `H = R + K² − K_ij K^{ij} − 2κρ − 2Λ`. -/
def hamiltonian (κ ρ Λ : A) : A :=
  J.RicS + J.Ktr ^ 2 - (∑ i, ∑ j, J.K i j * J.Kup i j) - 2 * κ * ρ - 2 * Λ

/-- `D_c K_ab = ∂_c K_ab − Γ^m_{ca} K_mb − Γ^m_{cb} K_am`. -/
def covdK (c a b : Fin 3) : A :=
  J.dK c a b - ∑ m, J.Gam m c a * J.K m b - ∑ m, J.Gam m c b * J.K a m

/-- momentum constraint `M_i = γ^{jk}(D_j K_ki − D_i K_jk) − κ S_i`  (`= D_j K^j_i − D_i K − κ S_i`). -/
def momentum (κ : A) (S : Fin 3 → A) (i : Fin 3) : A :=
  (∑ j, ∑ k, J.gi j k * (J.covdK j k i - J.covdK i j k)) - κ * S i

end Jet3

end AurelVerif.Spec.Constraints3
end
