/-
Spec/CheckpointSpec.lean — what a well-formed set of Carpet checkpoint files
is (C11, checkpoint reading path).  Mathlib-free.

`GoodFile` describes one checkpoint file for one (iteration, level) by the
datasets it offers for every requested variable, in the three layouts Carpet
writes: one file / one component (dataset names without ` c=`), one file with
`n` components (` c=0 .. c=n-1`), one file per process (`.file_<k>` holds
component `k`).  Nothing is assumed about the other datasets of the file
(other iterations, levels, past time levels `tl>0`, other variables, grid
scalars without ` rl=`), except that no second dataset answers to the same
(variable, iteration, level, tl=0, component).

`GoodIt` says that, for every requested variable, the datasets so selected —
over all files of the iteration, in the order in which the files are met — are
the chunks of a hierarchical decomposition of the variable's interior grid
`A v`, each surrounded by ghost layers of the recorded widths holding arbitrary
values, in ANY enumeration order, and all carry the same time.
-/
import AurelVerif.Model.Checkpoint
namespace AurelVerif.CheckpointSpec
open AurelVerif.Chunks AurelVerif.Checkpoint

/-- the datasets that answer to variable `v` -/
def offers {α : Type} (cur : List (DSet α)) (v : String) : List (DSet α) := cur.filter fun d => matchesVar d v

inductive GoodFile {α : Type} (cmax : CMax) (f : CFile α) (iit rl : Nat) (var : List String)
    (sel : String → List (DSet α)) : Prop where
  /-- one file, one component: no dataset of the level carries ` c=` -/
  | single (hc : cmax = CMax.inFile) (hne : relevant f iit rl ≠ [])
      (hnoc : ∀ d ∈ relevant f iit rl, d.c = none)
      (huniq : ∀ v ∈ var, ∃ d, offers (relevant f iit rl) v = [d] ∧ sel v = [d]) : GoodFile cmax f iit rl var sel
  /-- one file, `n` components -/
  | chunked (n : Nat) (hc : cmax = CMax.inFile) (hn : 0 < n)
      (hcs : ∀ d ∈ relevant f iit rl, ∃ c, d.c = some c ∧ c < n)
      (hmax : ∃ d ∈ relevant f iit rl, d.c = some (n - 1))
      (huniq : ∀ v ∈ var, ∃ pk : Nat → DSet α,
        (∀ c, c < n → (offers (relevant f iit rl) v).filter (fun d => d.c == some c) = [pk c])
          ∧ sel v = (List.range n).map pk) : GoodFile cmax f iit rl var sel
  /-- one file per process: this is the file of process `k` -/
  | perproc (m k : Nat) (hc : cmax = CMax.num m) (hk : f.fileNo = some k)
      (huniq : ∀ v ∈ var, ∃ d, (offers (relevant f iit rl) v).filter (fun d => d.c == some k) = [d] ∧ sel v = [d]) :
      GoodFile cmax f iit rl var sel

/-- the files of iteration `iit` in the order in which `glob` listed them -/
def filesOf {α : Type} (files : List (CFile α)) (iit : Nat) : List (CFile α) :=
  files.filter fun f => f.itName == iit

/-- the checkpoint of iteration `iit` holds, on level `rl`, the interior grids
`A v` (shape `(nz, ny, nx)` in file order) of the requested variables at time `tm` -/
def GoodIt {α : Type} (cmax : CMax) (files : List (CFile α)) (iit rl : Nat) (var : List String)
    (A : String → Arr3 α) (tm : Nat) : Prop :=
  ∃ (sel : CFile α → String → List (DSet α)) (nz ny nx : Nat) (D : ZSplit) (base : Nat × Nat × Nat)
    (gx gy gz : Nat),
    filesOf files iit ≠ [] ∧ (∀ f ∈ filesOf files iit, GoodFile cmax f iit rl var (sel f))
    ∧ 1 ≤ gx ∧ 1 ≤ gy ∧ 1 ≤ gz ∧ 0 < nz ∧ 0 < ny ∧ 0 < nx ∧ D.Valid nz ny nx
    ∧ ∀ v ∈ var, Rect (A v) nz ny nx ∧ ∃ l : Dict (Nat × Nat × Nat) (Arr3 α), l.Perm (chunks base (A v) D)
        ∧ Rel₂ (fun (d : DSet α) ki => d.iorigin = ki.1 ∧ d.ghost = (gx, gy, gz) ∧ d.time = tm
                  ∧ PadZ gx gy gz d.data ki.2)
            ((filesOf files iit).flatMap fun f => sel f v) l

/-- `cmax` is what the reader finds for the files `F` of one iteration (/repo bd9646b: decided per
iteration): 'in file' for one file, a number for several -/
def LayoutOK {α : Type} (cmax : CMax) (F : List (CFile α)) : Prop :=
  match cmax with
  | .inFile => F.length = 1
  | .num _ => 2 ≤ F.length

/-- the checkpoint of iteration `iit` is well-formed in WHICHEVER layout it was written (one file; one file
with `n` components; one file per process, any number of processes) — the layout may differ from
iteration to iteration -/
def GoodItAuto {α : Type} (files : List (CFile α)) (iit rl : Nat) (var : List String)
    (A : String → Arr3 α) (tm : Nat) : Prop :=
  ∃ cmax, LayoutOK cmax (filesOf files iit) ∧ GoodIt cmax files iit rl var A tm

end AurelVerif.CheckpointSpec
