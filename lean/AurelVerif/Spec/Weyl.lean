/-
Spec/Weyl.lean — textbook definitions, in index notation, of the objects of
property C10 (hand-written; nothing here is derived from the aurel source).

A tensor is a function of its indices with values at ONE grid point.  `K` is any
field (characteristic ≠ 2, 3 is a hypothesis of the theorems that need it);
the Newman–Penrose part lives in any commutative ring `R` with an element
`I`, `I² = −1` (ℂ-like).

References
 [W]  R. M. Wald, General Relativity (1984): (3.2.28) Weyl tensor in n dimensions
      (here n = 4): `C_abcd = R_abcd − (2/(n−2)) (g_{a[c}R_{d]b} − g_{b[c}R_{d]a})
      + (2/((n−1)(n−2))) R g_{a[c}g_{d]b}`.
 [A]  M. Alcubierre, Introduction to 3+1 Numerical Relativity (2008), §8.3:
      `E_ab = n^c n^d C_acbd`, `B_ab = n^c n^d *C_acbd`; the Weyl tensor from E, B, n with
      `l_ab = g_ab + 2 n_a n_b`; E, B in 3+1 form; §8.6 (p. 295) the null tetrad built from an
      orthonormal one; §8.7 the invariants I, J.
 [S]  H. Stephani, D. Kramer, M. MacCallum, C. Hoenselaers, E. Herlt, Exact Solutions of
      Einstein's Field Equations (2nd ed. 2003): (3.59) the Weyl scalars on a null tetrad
      (m, m̄, l, k), `k·l = −1`, `m·m̄ = 1`; (3.14)–(3.16) class I, II, III rotations and
      §7.3 their action on Ψ0..Ψ4; (9.5)–(9.6) the invariants I and J.
-/
import Mathlib.Algebra.BigOperators.Fin
import Mathlib.Algebra.Field.Defs

namespace AurelVerif.Spec.Weyl

/-! ### Weyl tensor from Riemann, Ricci, scalar curvature and the metric ([W] (3.2.28), n = 4)

`C_abcd = R_abcd − ½(g_ac R_db − g_ad R_cb − g_bc R_da + g_bd R_ca) + (R/6)(g_ac g_db − g_ad g_cb)` -/

section field
variable {K : Type} [Field K]

def weyl (g : Fin 4 → Fin 4 → K) (Riem : Fin 4 → Fin 4 → Fin 4 → Fin 4 → K)
    (Ric : Fin 4 → Fin 4 → K) (R : K) (a b c d : Fin 4) : K :=
  Riem a b c d
    - (1 / 2) * (g a c * Ric d b - g a d * Ric c b - g b c * Ric d a + g b d * Ric c a)
    + (1 / 6) * R * (g a c * g d b - g a d * g c b)

/-- the same expression with the signs of the `g_bc R_da`, `g_bd R_ca` terms flipped
(what aurel computed before the sign fix); used only to show that the
antisymmetry theorem distinguishes the two. -/
def weylOldSigns (g : Fin 4 → Fin 4 → K) (Riem : Fin 4 → Fin 4 → Fin 4 → Fin 4 → K)
    (Ric : Fin 4 → Fin 4 → K) (R : K) (a b c d : Fin 4) : K :=
  Riem a b c d
    - (1 / 2) * (g a c * Ric d b - g a d * Ric c b + g b c * Ric d a - g b d * Ric c a)
    + (1 / 6) * R * (g a c * g d b - g a d * g c b)

/-- Riemann symmetries of a rank-4 tensor with all indices down. -/
structure RiemannSym (C : Fin 4 → Fin 4 → Fin 4 → Fin 4 → K) : Prop where
  anti12 : ∀ a b c d, C a b c d = -C b a c d
  anti34 : ∀ a b c d, C a b c d = -C a b d c
  pair : ∀ a b c d, C a b c d = C c d a b

def Symm {n : Nat} (f : Fin n → Fin n → K) : Prop := ∀ i j, f i j = f j i

/-! ### Weyl tensor from its electric and magnetic parts ([A] §8.3)

`C_abcd = 2 (l_{a[c} E_{d]b} − l_{b[c} E_{d]a} − n_{[c} B_{d]e} ε^e{}_{ab} − n_{[a} B_{b]e} ε^e{}_{cd})`,
`l_ab = g_ab + 2 n_a n_b`, `ε^e{}_{ab} = g^{ec} n^d ε_{dcab}` -/

def lproj (g : Fin 4 → Fin 4 → K) (n : Fin 4 → K) (a b : Fin 4) : K := g a b + 2 * (n a * n b)

/-- `ε^e{}_{ab} = g^{ec} n^d ε_{dcab}` (3-D Levi-Civita tensor embedded in 4-D, first index up). -/
def epsUdd (gup : Fin 4 → Fin 4 → K) (nup : Fin 4 → K) (LC : Fin 4 → Fin 4 → Fin 4 → Fin 4 → K)
    (e a b : Fin 4) : K := ∑ c, ∑ d, gup e c * nup d * LC d c a b

def weylEB (l E B : Fin 4 → Fin 4 → K) (n : Fin 4 → K) (eps : Fin 4 → Fin 4 → Fin 4 → K)
    (a b c d : Fin 4) : K :=
  (l a c * E d b - l a d * E c b) - (l b c * E d a - l b d * E c a)
    - (∑ e, (n c * B d e - n d * B c e) * eps e a b)
    - (∑ e, (n a * B b e - n b * B a e) * eps e c d)

/-! ### Electric and magnetic parts in 3+1 form ([A] §8.3)

`E_ij = TF[ R_ij + K K_ij − K_ia K^a{}_j ] − (κ/2) TF[ S_ij ]`,
`B_ab = ε^{cd}{}_b D_c K_da + ½ ε^{cd}{}_b γ_ac (D_d K − D_e K^e{}_d)` -/

def tracefree (γup γ f : Fin 3 → Fin 3 → K) (i j : Fin 3) : K :=
  f i j - (1 / 3) * γ i j * ∑ a, ∑ b, γup a b * f a b

def eweylCore (γup Ric Kd : Fin 3 → Fin 3 → K) (Ktr : K) (i j : Fin 3) : K :=
  Ric i j + Ktr * Kd i j - ∑ a, ∑ b, Kd i a * Kd b j * γup a b

def eweylN (γup γ Ric Kd S : Fin 3 → Fin 3 → K) (Ktr κ : K) (vacuum : Bool) (i j : Fin 3) : K :=
  if vacuum then tracefree γup γ (eweylCore γup Ric Kd Ktr) i j
  else tracefree γup γ (eweylCore γup Ric Kd Ktr) i j - (1 / 2) * κ * tracefree γup γ S i j

/-- `ε^{ab}{}_c = γ^{ae} γ^{bf} ε_{efc}`. -/
def epsUud3 (γup : Fin 3 → Fin 3 → K) (LC : Fin 3 → Fin 3 → Fin 3 → K) (a b c : Fin 3) : K :=
  ∑ e, ∑ f, γup a e * γup b f * LC e f c

/-- `DK c a b = D_c K_ab`, `DKtr d = D_d K`, `DKm c a b = D_c K^a{}_b`. -/
def bweylN (eps : Fin 3 → Fin 3 → Fin 3 → K) (γ : Fin 3 → Fin 3 → K)
    (DK : Fin 3 → Fin 3 → Fin 3 → K) (DKtr : Fin 3 → K) (DKm : Fin 3 → Fin 3 → Fin 3 → K)
    (a b : Fin 3) : K :=
  (∑ c, ∑ d, eps c d b * DK c d a)
    + (1 / 2) * ∑ c, ∑ d, eps c d b * γ a c * (DKtr d - ∑ k, DKm k k d)

/-! ### Electric and magnetic parts seen by an observer `u` ([A] §8.3)

`E_ac = C_abcd u^b u^d`,  `B_ae = ½ C_abcd ε^{cd}{}_{ef} u^b u^f` -/

def eweylU (C : Fin 4 → Fin 4 → Fin 4 → Fin 4 → K) (u : Fin 4 → K) (a c : Fin 4) : K :=
  ∑ b, ∑ d, u b * u d * C a b c d

/-- `ε^{cd}{}_{ef} = g^{ac} g^{bd} ε_{abef}`. -/
def epsUudd (gup : Fin 4 → Fin 4 → K) (LC : Fin 4 → Fin 4 → Fin 4 → Fin 4 → K) (c d e f : Fin 4) : K :=
  ∑ a, ∑ b, gup a c * gup b d * LC a b e f

def bweylU (C : Fin 4 → Fin 4 → Fin 4 → Fin 4 → K) (u : Fin 4 → K)
    (eps : Fin 4 → Fin 4 → Fin 4 → Fin 4 → K) (a e : Fin 4) : K :=
  (1 / 2) * ∑ b, ∑ f, ∑ c, ∑ d, u b * u f * C a b c d * eps c d e f

end field

/-! ### Newman–Penrose scalars and invariants ([S] (3.59), (9.5), (9.6)) -/

section ring
variable {R : Type} [CommRing R]

/-- `C_abcd p^a q^b r^c s^d`. -/
def contract4 (C : Fin 4 → Fin 4 → Fin 4 → Fin 4 → R) (p q r s : Fin 4 → R) : R :=
  ∑ a, ∑ b, ∑ c, ∑ d, C a b c d * p a * q b * r c * s d

/-- `g_ab u^a v^b` (bilinear, no conjugation), any dimension. -/
def ip {n : Nat} (g : Fin n → Fin n → R) (u v : Fin n → R) : R := ∑ a, ∑ b, g a b * u a * v b

/-- a null tetrad named as in [S] and in aurel: `k` outgoing, `l` ingoing (`k·l = −1`), `m`, `m̄`. -/
structure NullTetrad (R : Type) where
  l : Fin 4 → R
  k : Fin 4 → R
  m : Fin 4 → R
  mb : Fin 4 → R

/-- Minkowski signature `(−,+,+,+)`. -/
def eta (a b : Fin 4) : R := if a = b then (if a = 0 then -1 else 1) else 0

/-- `(e_0..e_3)` is orthonormal for `g`. -/
def Orthonormal (g : Fin 4 → Fin 4 → R) (E : Fin 4 → Fin 4 → R) : Prop :=
  ∀ a b, ip g (E a) (E b) = eta a b

/-- the products a complex null tetrad must have: `l·k = −1`, `m·m̄ = 1`, all others 0. -/
structure IsNullTetrad (g : Fin 4 → Fin 4 → R) (t : NullTetrad R) : Prop where
  lk : ip g t.l t.k = -1
  mmb : ip g t.m t.mb = 1
  ll : ip g t.l t.l = 0
  kk : ip g t.k t.k = 0
  mm : ip g t.m t.m = 0
  mbmb : ip g t.mb t.mb = 0
  lm : ip g t.l t.m = 0
  lmb : ip g t.l t.mb = 0
  km : ip g t.k t.m = 0
  kmb : ip g t.k t.mb = 0

/-- the five Weyl scalars Ψ0..Ψ4. -/
structure Scalars (R : Type) where
  p0 : R
  p1 : R
  p2 : R
  p3 : R
  p4 : R

/-- The five Weyl scalars ([S] (3.59)):
Ψ0 = C(k,m,k,m), Ψ1 = C(k,l,k,m), Ψ2 = C(k,m,m̄,l), Ψ3 = C(k,l,m̄,l), Ψ4 = C(l,m̄,l,m̄). -/
def psi (C : Fin 4 → Fin 4 → Fin 4 → Fin 4 → R) (t : NullTetrad R) : Scalars R where
  p0 := contract4 C t.k t.m t.k t.m
  p1 := contract4 C t.k t.l t.k t.m
  p2 := contract4 C t.k t.m t.mb t.l
  p3 := contract4 C t.k t.l t.mb t.l
  p4 := contract4 C t.l t.mb t.l t.mb

/-- `I = Ψ0Ψ4 − 4Ψ1Ψ3 + 3Ψ2²`  ([S] (9.5)). -/
def invI (Ψ : Scalars R) : R := Ψ.p0 * Ψ.p4 - 4 * Ψ.p1 * Ψ.p3 + 3 * Ψ.p2 ^ 2

/-- `J = det [[Ψ4,Ψ3,Ψ2],[Ψ3,Ψ2,Ψ1],[Ψ2,Ψ1,Ψ0]]`  ([S] (9.6)), cofactor expansion along the first row
(`= Ψ0Ψ2Ψ4 + 2Ψ1Ψ2Ψ3 − Ψ2³ − Ψ0Ψ3² − Ψ1²Ψ4`). -/
def invJ (Ψ : Scalars R) : R :=
  Ψ.p4 * (Ψ.p2 * Ψ.p0 - Ψ.p1 * Ψ.p1) - Ψ.p3 * (Ψ.p3 * Ψ.p0 - Ψ.p1 * Ψ.p2)
    + Ψ.p2 * (Ψ.p3 * Ψ.p1 - Ψ.p2 * Ψ.p2)

/-! Null-tetrad rotations acting on (Ψ0..Ψ4) ([S] §7.3; `a` is the complex
parameter of the rotation, `ā` written `ab`). -/

/-- class I (`l` fixed): `Ψ_n → Σ_j C(n,j) ā^j Ψ_{n−j}`. -/
def rotI (ab : R) (Ψ : Scalars R) : Scalars R where
  p0 := Ψ.p0
  p1 := Ψ.p1 + ab * Ψ.p0
  p2 := Ψ.p2 + 2 * ab * Ψ.p1 + ab ^ 2 * Ψ.p0
  p3 := Ψ.p3 + 3 * ab * Ψ.p2 + 3 * ab ^ 2 * Ψ.p1 + ab ^ 3 * Ψ.p0
  p4 := Ψ.p4 + 4 * ab * Ψ.p3 + 6 * ab ^ 2 * Ψ.p2 + 4 * ab ^ 3 * Ψ.p1 + ab ^ 4 * Ψ.p0

/-- class II (`k` fixed): mirrored. -/
def rotII (b : R) (Ψ : Scalars R) : Scalars R where
  p0 := Ψ.p0 + 4 * b * Ψ.p1 + 6 * b ^ 2 * Ψ.p2 + 4 * b ^ 3 * Ψ.p3 + b ^ 4 * Ψ.p4
  p1 := Ψ.p1 + 3 * b * Ψ.p2 + 3 * b ^ 2 * Ψ.p3 + b ^ 3 * Ψ.p4
  p2 := Ψ.p2 + 2 * b * Ψ.p3 + b ^ 2 * Ψ.p4
  p3 := Ψ.p3 + b * Ψ.p4
  p4 := Ψ.p4

/-- class III (boost `A` and spin `θ`): `Ψ_n → z^{2−n} Ψ_n`, `z = A⁻¹e^{iθ}`, `w = z⁻¹`. -/
def rotIII (z w : R) (Ψ : Scalars R) : Scalars R where
  p0 := z ^ 2 * Ψ.p0
  p1 := z * Ψ.p1
  p2 := Ψ.p2
  p3 := w * Ψ.p3
  p4 := w ^ 2 * Ψ.p4

/-- exchange of the two real null vectors `k ↔ l` (and `m ↔ m̄`): `Ψ_n ↔ Ψ_{4−n}`. -/
def swapKL (Ψ : Scalars R) : Scalars R where
  p0 := Ψ.p4
  p1 := Ψ.p3
  p2 := Ψ.p2
  p3 := Ψ.p1
  p4 := Ψ.p0

end ring

end AurelVerif.Spec.Weyl
