/-
Spec/Weyl.lean — textbook definitions, in index notation, of the objects of
property C10 (hand-written; nothing here is derived from the aurel source).

A tensor is a function of its indices with values at ONE grid point.  `K` is any
field (characteristic ≠ 2, 3 is a hypothesis of the theorems that need it);
the Newman–Penrose part lives in any commutative ring `R` with an element
`I`, `I² = −1` (ℂ-like).

References
 [W]  R. M. Wald, General Relativity (1984): (3.2.28) Weyl tensor in n dimensions
      (here n = 4): `C_abcd = R_abcd − (2/(n−2)) (g_{a[c}R_{d]b} − g_{b[c}R_{d]a})
      + (2/((n−1)(n−2))) R g_{a[c}g_{d]b}`.
 [A]  M. Alcubierre, Introduction to 3+1 Numerical Relativity (2008):
      (8.3.13) `E_ab = n^c n^d C_acbd`, `B_ab = n^c n^d *C_acbd`;
      (8.3.15) Weyl tensor from E, B, n with `l_ab = g_ab + 2 n_a n_b`;
      (8.3.16)–(8.3.17) E, B in 3+1 form;
      (8.6.3)–(8.6.7) Weyl scalars Ψ0..Ψ4 on a null tetrad (l, k, m, m̄);
      (8.6.1) the null tetrad from an orthonormal one; §8.7 / (8.7.1) invariants I, J.
 [S]  H. Stephani et al., Exact Solutions (2003): (3.58)–(3.60) class I, II, III
      tetrad rotations and the transformation of the Ψ's; (9.5)–(9.6) I and J.
-/
import Mathlib.Algebra.BigOperators.Fin
import Mathlib.Algebra.Field.Defs

namespace AurelVerif.Spec.Weyl

/-! ### Weyl tensor from Riemann, Ricci, scalar curvature and the metric ([W] (3.2.28), n = 4)

`C_abcd = R_abcd − ½(g_ac R_db − g_ad R_cb − g_bc R_da + g_bd R_ca) + (R/6)(g_ac g_db − g_ad g_cb)` -/

section field
variable {K : Type} [Field K]

def weyl (g : Fin 4 → Fin 4 → K) (Riem : Fin 4 → Fin 4 → Fin 4 → Fin 4 → K)
    (Ric : Fin 4 → Fin 4 → K) (R : K) (a b c d : Fin 4) : K :=
  Riem a b c d
    - (1 / 2) * (g a c * Ric d b - g a d * Ric c b - g b c * Ric d a + g b d * Ric c a)
    + (1 / 6) * R * (g a c * g d b - g a d * g c b)

/-- the same expression with the signs of the `g_bc R_da`, `g_bd R_ca` terms flipped
(what aurel computed before the sign fix); used only to show that the
antisymmetry theorem distinguishes the two. -/
def weylOldSigns (g : Fin 4 → Fin 4 → K) (Riem : Fin 4 → Fin 4 → Fin 4 → Fin 4 → K)
    (Ric : Fin 4 → Fin 4 → K) (R : K) (a b c d : Fin 4) : K :=
  Riem a b c d
    - (1 / 2) * (g a c * Ric d b - g a d * Ric c b + g b c * Ric d a - g b d * Ric c a)
    + (1 / 6) * R * (g a c * g d b - g a d * g c b)

/-- Riemann symmetries of a rank-4 tensor with all indices down. -/
structure RiemannSym (C : Fin 4 → Fin 4 → Fin 4 → Fin 4 → K) : Prop where
  anti12 : ∀ a b c d, C a b c d = -C b a c d
  anti34 : ∀ a b c d, C a b c d = -C a b d c
  pair : ∀ a b c d, C a b c d = C c d a b

def Symm {n : Nat} (f : Fin n → Fin n → K) : Prop := ∀ i j, f i j = f j i

/-! ### Weyl tensor from its electric and magnetic parts ([A] (8.3.15))

`C_abcd = 2 (l_{a[c} E_{d]b} − l_{b[c} E_{d]a} − n_{[c} B_{d]e} ε^e{}_{ab} − n_{[a} B_{b]e} ε^e{}_{cd})`,
`l_ab = g_ab + 2 n_a n_b`, `ε^e{}_{ab} = g^{ec} n^d ε_{dcab}` -/

def lproj (g : Fin 4 → Fin 4 → K) (n : Fin 4 → K) (a b : Fin 4) : K := g a b + 2 * (n a * n b)

/-- `ε^e{}_{ab} = g^{ec} n^d ε_{dcab}` (3-D Levi-Civita tensor embedded in 4-D, first index up). -/
def epsUdd (gup : Fin 4 → Fin 4 → K) (nup : Fin 4 → K) (LC : Fin 4 → Fin 4 → Fin 4 → Fin 4 → K)
    (e a b : Fin 4) : K := ∑ c, ∑ d, gup e c * nup d * LC d c a b

def weylEB (l E B : Fin 4 → Fin 4 → K) (n : Fin 4 → K) (eps : Fin 4 → Fin 4 → Fin 4 → K)
    (a b c d : Fin 4) : K :=
  (l a c * E d b - l a d * E c b) - (l b c * E d a - l b d * E c a)
    - (∑ e, (n c * B d e - n d * B c e) * eps e a b)
    - (∑ e, (n a * B b e - n b * B a e) * eps e c d)

/-- 4-D extension of a spatial covariant tensor (its contravariant form is purely
spatial): `f_00 = β^i β^j f_ij`, `f_0k = β^i f_ik`. -/
def sToSt (β : Fin 3 → K) (f : Fin 3 → Fin 3 → K) : Fin 4 → Fin 4 → K :=
  fun μ ν => Fin.cases (Fin.cases (∑ i, ∑ j, β i * β j * f i j) (fun k => ∑ i, β i * f i k) ν)
    (fun i => Fin.cases (∑ k, β k * f k i) (fun j => f i j) ν) μ

/-! ### Electric and magnetic parts in 3+1 form ([A] (8.3.16), (8.3.17))

`E_ij = TF[ R_ij + K K_ij − K_ia K^a{}_j ] − (κ/2) TF[ S_ij ]`,
`B_ab = ε^{cd}{}_b D_c K_da + ½ ε^{cd}{}_b γ_ac (D_d K − D_e K^e{}_d)` -/

def tracefree (γup γ f : Fin 3 → Fin 3 → K) (i j : Fin 3) : K :=
  f i j - (1 / 3) * γ i j * ∑ a, ∑ b, γup a b * f a b

def eweylCore (γup Ric Kd : Fin 3 → Fin 3 → K) (Ktr : K) (i j : Fin 3) : K :=
  Ric i j + Ktr * Kd i j - ∑ a, ∑ b, Kd i a * Kd b j * γup a b

def eweylN (γup γ Ric Kd S : Fin 3 → Fin 3 → K) (Ktr κ : K) (vacuum : Bool) (i j : Fin 3) : K :=
  if vacuum then tracefree γup γ (eweylCore γup Ric Kd Ktr) i j
  else tracefree γup γ (eweylCore γup Ric Kd Ktr) i j - (1 / 2) * κ * tracefree γup γ S i j

/-- `ε^{ab}{}_c = γ^{ae} γ^{bf} ε_{efc}`. -/
def epsUud3 (γup : Fin 3 → Fin 3 → K) (LC : Fin 3 → Fin 3 → Fin 3 → K) (a b c : Fin 3) : K :=
  ∑ e, ∑ f, γup a e * γup b f * LC e f c

/-- `DK c a b = D_c K_ab`, `DKtr d = D_d K`, `DKm c a b = D_c K^a{}_b`. -/
def bweylN (eps : Fin 3 → Fin 3 → Fin 3 → K) (γ : Fin 3 → Fin 3 → K)
    (DK : Fin 3 → Fin 3 → Fin 3 → K) (DKtr : Fin 3 → K) (DKm : Fin 3 → Fin 3 → Fin 3 → K)
    (a b : Fin 3) : K :=
  (∑ c, ∑ d, eps c d b * DK c d a)
    + (1 / 2) * ∑ c, ∑ d, eps c d b * γ a c * (DKtr d - ∑ k, DKm k k d)

/-! ### Electric and magnetic parts seen by an observer `u` ([A] (8.3.13))

`E_ac = C_abcd u^b u^d`,  `B_ae = ½ C_abcd ε^{cd}{}_{ef} u^b u^f` -/

def eweylU (C : Fin 4 → Fin 4 → Fin 4 → Fin 4 → K) (u : Fin 4 → K) (a c : Fin 4) : K :=
  ∑ b, ∑ d, u b * u d * C a b c d

/-- `ε^{cd}{}_{ef} = g^{ac} g^{bd} ε_{abef}`. -/
def epsUudd (gup : Fin 4 → Fin 4 → K) (LC : Fin 4 → Fin 4 → Fin 4 → Fin 4 → K) (c d e f : Fin 4) : K :=
  ∑ a, ∑ b, gup a c * gup b d * LC a b e f

def bweylU (C : Fin 4 → Fin 4 → Fin 4 → Fin 4 → K) (u : Fin 4 → K)
    (eps : Fin 4 → Fin 4 → Fin 4 → Fin 4 → K) (a e : Fin 4) : K :=
  (1 / 2) * ∑ b, ∑ f, ∑ c, ∑ d, u b * u f * C a b c d * eps c d e f

end field

/-! ### Newman–Penrose scalars and invariants ([A] (8.6.3)–(8.6.7), (8.7.1); [S] (9.5)) -/

section ring
variable {R : Type} [CommRing R]

/-- `C_abcd p^a q^b r^c s^d`. -/
def contract4 (C : Fin 4 → Fin 4 → Fin 4 → Fin 4 → R) (p q r s : Fin 4 → R) : R :=
  ∑ a, ∑ b, ∑ c, ∑ d, C a b c d * p a * q b * r c * s d

/-- `g_ab u^a v^b` (bilinear, no conjugation). -/
def ip (g : Fin 4 → Fin 4 → R) (u v : Fin 4 → R) : R := ∑ a, ∑ b, g a b * u a * v b

/-- a null tetrad in aurel's order `(l, k, m, m̄)`: `l` ingoing, `k` outgoing. -/
structure NullTetrad (R : Type) where
  l : Fin 4 → R
  k : Fin 4 → R
  m : Fin 4 → R
  mb : Fin 4 → R

/-- [A] (8.6.1): `k = (e0 + e1)/√2`, `l = (e0 − e1)/√2`, `m = (e2 + i e3)/√2`, `m̄ = (e2 − i e3)/√2`;
`s` stands for `1/√2`, `I` for the imaginary unit. -/
def nullFromOrtho (s I : R) (e0 e1 e2 e3 : Fin 4 → R) : NullTetrad R where
  k := fun a => (e0 a + e1 a) * s
  l := fun a => (e0 a - e1 a) * s
  m := fun a => (e2 a + I * e3 a) * s
  mb := fun a => (e2 a - I * e3 a) * s

/-- The five Weyl scalars, contractions as aurel writes them:
Ψ0 = C(k,m,k,m), Ψ1 = C(l,k,m,k) [= C(k,l,k,m)], Ψ2 = C(k,m,m̄,l), Ψ3 = C(k,l,m̄,l), Ψ4 = C(l,m̄,l,m̄). -/
def psi (C : Fin 4 → Fin 4 → Fin 4 → Fin 4 → R) (t : NullTetrad R) : Fin 5 → R
  | 0 => contract4 C t.k t.m t.k t.m
  | 1 => contract4 C t.l t.k t.m t.k
  | 2 => contract4 C t.k t.m t.mb t.l
  | 3 => contract4 C t.k t.l t.mb t.l
  | 4 => contract4 C t.l t.mb t.l t.mb

/-- `I = Ψ0Ψ4 − 4Ψ1Ψ3 + 3Ψ2²`. -/
def invI (Ψ : Fin 5 → R) : R := Ψ 0 * Ψ 4 - 4 * Ψ 1 * Ψ 3 + 3 * Ψ 2 * Ψ 2

/-- the matrix whose determinant is `J`. -/
def Jmat (Ψ : Fin 5 → R) : Fin 3 → Fin 3 → R
  | 0, 0 => Ψ 4 | 0, 1 => Ψ 3 | 0, 2 => Ψ 2
  | 1, 0 => Ψ 3 | 1, 1 => Ψ 2 | 1, 2 => Ψ 1
  | 2, 0 => Ψ 2 | 2, 1 => Ψ 1 | 2, 2 => Ψ 0

/-- `J = det [[Ψ4,Ψ3,Ψ2],[Ψ3,Ψ2,Ψ1],[Ψ2,Ψ1,Ψ0]]`, written out
(`= Ψ0Ψ2Ψ4 + 2Ψ1Ψ2Ψ3 − Ψ2³ − Ψ0Ψ3² − Ψ1²Ψ4`). -/
def invJ (Ψ : Fin 5 → R) : R :=
  Ψ 4 * (Ψ 2 * Ψ 0 - Ψ 1 * Ψ 1) - Ψ 3 * (Ψ 3 * Ψ 0 - Ψ 1 * Ψ 2) + Ψ 2 * (Ψ 3 * Ψ 1 - Ψ 2 * Ψ 2)

/-! Null-tetrad rotations acting on (Ψ0..Ψ4) ([S] (3.58)–(3.60), conventions of
[A] §8.6: `a` is the complex parameter, `ā` written `ab`). -/

/-- class I (`l` fixed). -/
def rotI (ab : R) (Ψ : Fin 5 → R) : Fin 5 → R
  | 0 => Ψ 0
  | 1 => Ψ 1 + ab * Ψ 0
  | 2 => Ψ 2 + 2 * ab * Ψ 1 + ab ^ 2 * Ψ 0
  | 3 => Ψ 3 + 3 * ab * Ψ 2 + 3 * ab ^ 2 * Ψ 1 + ab ^ 3 * Ψ 0
  | 4 => Ψ 4 + 4 * ab * Ψ 3 + 6 * ab ^ 2 * Ψ 2 + 4 * ab ^ 3 * Ψ 1 + ab ^ 4 * Ψ 0

/-- class II (`k` fixed): mirrored. -/
def rotII (b : R) (Ψ : Fin 5 → R) : Fin 5 → R
  | 0 => Ψ 0 + 4 * b * Ψ 1 + 6 * b ^ 2 * Ψ 2 + 4 * b ^ 3 * Ψ 3 + b ^ 4 * Ψ 4
  | 1 => Ψ 1 + 3 * b * Ψ 2 + 3 * b ^ 2 * Ψ 3 + b ^ 3 * Ψ 4
  | 2 => Ψ 2 + 2 * b * Ψ 3 + b ^ 2 * Ψ 4
  | 3 => Ψ 3 + b * Ψ 4
  | 4 => Ψ 4

/-- class III (boost `A` and spin `θ`): `Ψ_n → z^{2−n} Ψ_n`, `z = A⁻¹e^{iθ}`, `w = z⁻¹`. -/
def rotIII (z w : R) (Ψ : Fin 5 → R) : Fin 5 → R
  | 0 => z ^ 2 * Ψ 0
  | 1 => z * Ψ 1
  | 2 => Ψ 2
  | 3 => w * Ψ 3
  | 4 => w ^ 2 * Ψ 4

end ring

end AurelVerif.Spec.Weyl
