/-
Spec/Harm.lean — textbook associated Legendre functions (Mathlib-free,
executable over `Rat`), independent of Model/Harm.lean.

Polynomials in one variable are coefficient lists, lowest degree first.

  P_l(x)      = 1/(2^l l!) · d^l/dx^l (x² − 1)^l                    (Rodrigues)
  P_l^m(x)    = (−1)^m (1 − x²)^{m/2} d^m/dx^m P_l(x),   0 ≤ m ≤ l  (with the
                Condon–Shortley phase (−1)^m, as in scipy / Jackson / Wikipedia)
  P_l^{−m}(x) = (−1)^m (l−m)!/(l+m)! · P_l^m(x)
  Y_lm(θ,φ)   = √((2l+1)/(4π) · (l−m)!/(l+m)!) · P_l^m(cos θ) · e^{imφ}
-/
namespace AurelVerif.HarmSpec

def factorial : Nat → Nat
  | 0 => 1
  | n + 1 => (n + 1) * factorial n

def padd : List Rat → List Rat → List Rat
  | [], q => q
  | p, [] => p
  | a :: p, b :: q => (a + b) :: padd p q

def pscale (a : Rat) (p : List Rat) : List Rat := p.map (a * ·)

def pmul : List Rat → List Rat → List Rat
  | [], _ => []
  | a :: p, q => padd (pscale a q) (0 :: pmul p q)

def ppow (p : List Rat) : Nat → List Rat
  | 0 => [1]
  | n + 1 => pmul p (ppow p n)

/-- d/dx -/
def pderivAux : Nat → List Rat → List Rat
  | _, [] => []
  | i, a :: p => ((i : Rat) * a) :: pderivAux (i + 1) p

def pderiv : List Rat → List Rat
  | [] => []
  | _ :: p => pderivAux 1 p

def pderivN : Nat → List Rat → List Rat
  | 0, p => p
  | n + 1, p => pderivN n (pderiv p)

/-- Legendre polynomial `P_l` by Rodrigues' formula. -/
def legendre (l : Nat) : List Rat :=
  pscale (1 / ((2 : Rat) ^ l * (factorial l : Nat))) (pderivN l (ppow [-1, 0, 1] l))

/-- `d^m/dx^m P_l` -/
def legendreDeriv (l m : Nat) : List Rat := pderivN m (legendre l)

end AurelVerif.HarmSpec
