/-
Props/C18.lean — property theorems for C18 (simulation catalogues and name
parsing are faithful and stable across calls).  ONLY property statements and
non-vacuity examples live here; the proofs are in Lemmas/Catalog.lean (T5),
Lemmas/CatalogParse.lean (T2), Lemmas/CatalogIncr.lean (T3, T4) and
Lemmas/CatalogScan.lean (T1, T6).

Model: Model/Catalog.lean (hand-written, literal after reading.py; tied to
the code by the correspondence of tools/props/C18.py).

Continued in Props/C18c.lean (the data part of one restart: selection of the
variable considered, its lines end to end) and Props/C18b.lean (the `.par`
parser of `parameters()`).

NOT covered by a theorem (modelled and compared with the code only): the
choice of the representative file of a restart (`foundFile`) says nothing
about the other files of the restart; `read_iterations` for variable names
with quotes / commas / non-printable characters and for paths with a line
break (T2 hypotheses, necessity witness below); the overall merge when two
equal-stride ranges leave a gap (T6 hypothesis, witness below).
-/
import AurelVerif.Lemmas.CatalogScan

namespace AurelVerif.C18
open AurelVerif.Catalog AurelVerif.CatalogLemmas

deriving instance DecidableEq for Except

/-! ## T5 — the three matchers invert the naming scheme -/

/-- `parse_hdf5_key(format k) = k` for every thorn that is non-empty and has no
':' (white space allowed), every non-empty variable without white space, all
naturals it / tl / rl / c and every combination of the optional parts
` m=0`, ` rl=<n>`, ` c=<n>`. -/
theorem parse_format_key (k : KeyInfo) (hk : KeyOK k) : parseKey (formatKey k) = some k :=
  parse_format_key_lemma k hk

/-- `rx_h5file` on `[thorn-]name[.xyz][.file_<n>][.xyz].h5`: thorn non-empty in
`[a-zA-Z0-9_]`, name non-empty in `[a-zA-Z0-9\[\]_]`, any chunk number.  The
only excluded description is "suffix `.xyz` without chunk and without prefix
`.xyz`", which prints the same name as "prefix `.xyz`" (canonical form). -/
theorem parse_format_file (f : FileInfo) (hf : FileOK f) : matchH5File (formatFile f) = some f :=
  parse_format_file_lemma f hf

/-- `rx_checkpoint` on `checkpoint.chkpt.it_<n>[.file_<m>].h5`. -/
theorem parse_format_checkpoint (it : Nat) (ch : Option Nat) :
    matchCheckpoint (formatCheckpoint it ch) = some (it, ch) :=
  parse_format_checkpoint_lemma it ch

/-- `parse_h5file` does not depend on the directory part, whatever characters
it contains: only the text after the last '/' is matched; a data-file name is
never mistaken for a checkpoint. -/
theorem parse_h5file_ignores_directory (dir name : Str) (hn : '/' ∉ name) :
    parseH5File (dir ++ '/' :: name) = parseH5File name ∧
    (∀ f, FileOK f → name = formatFile f → parseH5File (dir ++ '/' :: name) = some (.data f)) ∧
    (∀ it ch, name = formatCheckpoint it ch → parseH5File (dir ++ '/' :: name) = some (.checkpoint it ch)) := by
  refine ⟨parse_h5file_dir_lemma dir name hn, ?_, ?_⟩
  · intro f hf hname
    rw [parse_h5file_dir_lemma dir name hn, hname]
    exact parseH5File_format_file f hf (hname ▸ hn)
  · intro it ch hname
    rw [parse_h5file_dir_lemma dir name hn, hname]
    simp [parseH5File, basename_plain _ (hname ▸ hn), parse_format_checkpoint_lemma]

/-! ## T2 — `read_iterations (print S) = S` -/

/-- For every sequence of catalogue lines `ls` that starts with a restart line:
parsing the text `iterations()` writes for `ls` gives exactly the dictionary
`iterations()` holds in memory (`catOf ls`).  Hypotheses (`LineOK`):
* variable lists are non-empty and every name is printable ASCII without
  space, `'`, `\` and `,` (`nameOK`);
* the path printed on the two free-text lines (`Reading iterations in: <path>`,
  `Could not find 3D data in <path>`) contains no line break.
Nothing else is assumed about the path — it may contain ` === restart `,
`->`, `rl = `, `3D variables available`, `Checkpoints available at its`, … —
and nothing about the numeric lines. -/
theorem print_parse_roundtrip (ls : List Line) (hok : ∀ l ∈ ls, LineOK l)
    (hstart : ls = [] ∨ ∃ n rest, ls = .restart n :: rest) :
    readIterationsText (universalNl (printLines ls)) = .ok (catOf ls) :=
  print_parse_roundtrip_lemma ls hok hstart

/-- The statement without the line-break hypothesis on paths -/
def PrintParseAnyPath : Prop :=
  ∀ ls : List Line, (∃ n rest, ls = .restart n :: rest) →
    (∀ l ∈ ls, match l with | .vars v => v ≠ [] ∧ ∀ n ∈ v, nameOK n = true | _ => True) →
    readIterationsText (universalNl (printLines ls)) = .ok (catOf ls)

/-- … is false: a path containing a newline followed by `->` starts a new
line that the parser takes for an `it = a -> b` line (IndexError).  The
hypothesis is forced; the real code is run at this point by tools/props/C18.py
and the outcome recorded in the evidence. -/
theorem print_parse_linebreak_hypothesis_is_necessary : ¬ PrintParseAnyPath := by
  intro h
  have := h [.restart 0, .reading ['/', 'a', '\n', '-', '>']] ⟨0, _, rfl⟩
    (by intro l hl; simp at hl; rcases hl with rfl | rfl <;> trivial)
  revert this
  decide +kernel

/-! ## T3 — incremental cataloguing equals one fresh scan -/

/-- `restarts_done` read back from the file is the list of restart lines. -/
theorem restarts_done_spec (ls : List Line) (hok : ∀ l ∈ ls, LineOK l) :
    restartsDone (printLines ls) = .ok (restartNbrs ls) :=
  restartsDone_printLines ls hok

/-- One call of `iterations(skip_last)` on a directory snapshot `S`, when the
file holds the blocks of the restarts `P` (in this order) and every
content.txt present is what a scan writes: the restarts `rs` still to do are
appended, and the returned dictionary is a function of the new file content
alone.  `Stable` = per-restart determinism (see `stable_criterion`). -/
theorem iterations_call_spec {T : Tables} {S : Sim} {scn : Nat → VarsAndFiles} {blk : Nat → List Line}
    (hS : Stable T S scn blk) (skip : Bool) (fs : FS) (P : List Nat) (hinv : Inv scn blk fs P) :
    (todo S skip (castL P) = [] ∧ P = [] → (iterationsCall T S skip fs).2 = .error .importError) ∧
    (¬ (todo S skip (castL P) = [] ∧ P = []) →
        (iterationsCall T S skip fs).1.itfile = some (printLines (blocks blk (P ++ todo S skip (castL P)))) ∧
        (iterationsCall T S skip fs).2 = resultOf blk (P ++ todo S skip (castL P))) ∧
    Inv scn blk (iterationsCall T S skip fs).1 (P ++ todo S skip (castL P)) := by
  have h := iterationsCall_spec hS skip fs P hinv (todo S skip (castL P)) rfl
  exact ⟨fun hc => (h.1 hc).1, fun hc => ⟨(h.2 hc).2.1, (h.2 hc).2.2⟩, call_inv hS skip fs P hinv⟩

/-- **incremental_eq_fresh.**  Any sequence of `iterations()` calls
`(S₁,skip₁) … (Sₙ,skipₙ)` on directory snapshots (restarts may be added between
calls), started without iterations.txt, leaves the same file and returns the
same dictionary as ONE fresh `iterations(skip_last=False)` on a directory `S'`
whose restarts are, in increasing order, exactly the restarts the sequence
has catalogued (`processedAfter`: the documented effect of `skip_last` is that
the last restart of a snapshot is not among them).  When restarts are added
with increasing numbers and the last call has `skip_last=False`, `S'` is the
final directory itself (see the example below). -/
theorem incremental_eq_fresh (T : Tables) (scn : Nat → VarsAndFiles) (blk : Nat → List Line)
    (cs0 : List (Sim × Bool)) (Sn : Sim) (kn : Bool) (S' : Sim)
    (hst : ∀ c ∈ cs0, Stable T c.1 scn blk) (hSn : Stable T Sn scn blk) (hS' : Stable T S' scn blk)
    (hP : todo S' false [] = processedAfter (cs0 ++ [(Sn, kn)]) [])
    (hne : processedAfter (cs0 ++ [(Sn, kn)]) [] ≠ []) :
    (iterationsCall T Sn kn (runCalls T cs0 emptyFS)).1.itfile = (iterationsCall T S' false emptyFS).1.itfile ∧
    (iterationsCall T Sn kn (runCalls T cs0 emptyFS)).2 = (iterationsCall T S' false emptyFS).2 :=
  incremental_eq_fresh_lemma T scn blk cs0 Sn kn S' hst hSn hS' hP hne

/-- Repeating a call is idempotent: same file, same returned value. -/
theorem iterations_idempotent {T : Tables} {S : Sim} {scn : Nat → VarsAndFiles} {blk : Nat → List Line}
    (hS : Stable T S scn blk) (skip : Bool) (fs : FS) (P : List Nat) (hinv : Inv scn blk fs P) :
    (iterationsCall T S skip (iterationsCall T S skip fs).1).1.itfile = (iterationsCall T S skip fs).1.itfile ∧
    (iterationsCall T S skip (iterationsCall T S skip fs).1).2 = (iterationsCall T S skip fs).2 :=
  iterations_idempotent_lemma hS skip fs P hinv

/-- `Stable` follows from finitely many computable checks on the restarts of a
snapshot: distinct restart numbers, no comma in a variable name (T4),
processing each restart from a clean loop state raises nothing, its lines
satisfy the T2 hypotheses, and contain one restart line.  In particular a
restart whose only single-variable file is `NaNmask` is excluded here: the
code then reuses `file_for_it` of the previous loop iteration (or raises
NameError), so that incremental and fresh cataloguing really differ. -/
theorem stable_criterion (T : Tables) (S : Sim)
    (hnd : ∀ d ∈ S.restarts, S.restarts.find? (fun x => x.nbr == d.nbr) = some d)
    (hk : ∀ d ∈ S.restarts, keysOK (scanOf T S d.nbr))
    (hp : ∀ d ∈ S.restarts, (processRestart T S d (scanOf T S d.nbr) none).err = none)
    (hl : ∀ d ∈ S.restarts, (blkOf T S d.nbr).all lineOKb = true)
    (h1 : ∀ d ∈ S.restarts, restartNbrs (blkOf T S d.nbr) = [(d.nbr : Int)])
    (hdisc : ∀ r ∈ discover S.entries, (S.restarts.find? (fun d => d.nbr == r)).isSome = true) :
    Stable T S (scanOf T S) (blkOf T S) :=
  stable_of_check T S hnd hk hp hl h1 hdisc

/-- Snapshots: a directory to which restarts are appended later is `Stable`
with respect to the scans and blocks of the final directory, provided each of
its own restarts is processed without exception — appending restarts does not
change what an earlier restart contributes. -/
theorem stable_prefix (T : Tables) (S : Sim) (extra : List RestartDir) (ents : List Str)
    (hfin : Stable T (extend S extra ents) (scanOf T (extend S extra ents)) (blkOf T (extend S extra ents)))
    (hp : ∀ d ∈ S.restarts, S.restarts.find? (fun x => x.nbr == d.nbr) = some d ∧
      (processRestart T S d (scanOf T S d.nbr) none).err = none)
    (hfS : ∀ r ∈ discover S.entries, ∃ dir, S.restarts.find? (fun d => d.nbr == r) = some dir) :
    Stable T S (scanOf T (extend S extra ents)) (blkOf T (extend S extra ents)) :=
  stable_of_prefix T S extra ents hfin hp hfS

/-! ## T1 — the per-restart summary is what is on disk -/

/-- The keys of level `rl` are ANY list of keys (several chunks ` c=<n>`, one
unnumbered chunk, several variables, repetitions, any order; the number of
chunks may change from one iteration to the next = regrid).  If, as a SET, the
iterations they carry (`itsAt`) are the arithmetic progression `a, a+d, …` with
`n+2` terms and stride `d > 0`, the catalogue line is
`np.arange(a, a+(n+1)d, d)`; if they all carry one iteration `x`, the line is
`[x]`; a level without keys has no line.  No hypothesis on chunk suffixes and
none on repetitions (repository fix efae800: the catalogue takes the set of the
iterations of all keys of the level).  The progression hypothesis is
necessary: the code reports `diff[0]` whatever the other differences are
(`scan_level_stride_is_first_difference`). -/
theorem scan_level_faithful (fkeys : List (Str × KeyInfo)) (rl : Nat) :
    (∀ a d n, 0 < d → (∀ x, x ∈ itsAt fkeys rl ↔ x ∈ apList a d (n + 2)) →
      levelOne fkeys rl = .ok (some (.arange rl a (a + (n + 1) * d) d))) ∧
    (∀ x, keysAt fkeys rl ≠ [] → (∀ k ∈ keysAt fkeys rl, k.2.it = x) →
      levelOne fkeys rl = .ok (some (.single rl x))) ∧
    (keysAt fkeys rl = [] → levelOne fkeys rl = .ok none) :=
  ⟨fun a d n hd h => scan_level_faithful_lemma fkeys rl a d n hd h,
   fun x hne h => scan_level_single_lemma fkeys rl x hne h,
   scan_level_none_lemma fkeys rl⟩

/-- The former statement (one key per iteration: the list of iterations is a
permutation of the progression) is the special case without repetitions. -/
theorem scan_level_faithful_perm (fkeys : List (Str × KeyInfo)) (rl a d n : Nat) (hd : 0 < d)
    (h : (itsAt fkeys rl).Perm (apList a d (n + 2))) :
    levelOne fkeys rl = .ok (some (.arange rl a (a + (n + 1) * d) d)) :=
  scan_level_faithful_lemma fkeys rl a d n hd (fun _ => h.mem_iff)

/-- The line of a level is a function of the SET of iterations present at
that level: two files (or the same level before and after chunks, variables or
duplicates are added) with the same set give the same line. -/
theorem scan_level_depends_on_set_only (f₁ f₂ : List (Str × KeyInfo)) (rl : Nat)
    (h : ∀ x, x ∈ itsAt f₁ rl ↔ x ∈ itsAt f₂ rl) : levelOne f₁ rl = levelOne f₂ rl :=
  levelOne_congr f₁ f₂ rl h

/-- The per-level block of `iterations()` cannot raise (the `TypeError` of a
level going from one unnumbered chunk to several is gone), for any keys. -/
theorem scan_levels_never_raise (fkeys : List (Str × KeyInfo)) :
    (∀ rl, ∃ o, levelOne fkeys rl = .ok o) ∧ (∀ rlmax, (levelLines fkeys rlmax).2 = none) :=
  ⟨levelOne_never_raises fkeys, levelLines_never_raises fkeys⟩

/-- keys of one level, regridded: iterations 0, 2, 4 in two chunks, 6, 8 in
three; a second variable on top; level 1 goes from ONE UNNUMBERED chunk (it 0)
to two chunks (it 1) -/
def exRegrid : List (Str × KeyInfo) :=
  let mk (v : Str) (it rl : Nat) (c : Option Nat) : Str × KeyInfo :=
    let k : KeyInfo := ⟨['T'], v, it, 0, false, some rl, c⟩
    (formatKey k, k)
  ([0, 2, 4].map fun it => [mk ['a'] it 0 (some 0), mk ['a'] it 0 (some 1), mk ['d', 'a'] it 0 (some 0)]).flatten
    ++ ([6, 8].map fun it => [mk ['a'] it 0 (some 0), mk ['a'] it 0 (some 1), mk ['a'] it 0 (some 2)]).flatten
    ++ [mk ['a'] 0 1 none, mk ['a'] 1 1 (some 0), mk ['a'] 1 1 (some 1)]

/-- non-vacuity of `scan_level_faithful` on `exRegrid` (hypotheses hold, with
chunks, a regrid, repetitions and two variables), and the conclusions computed -/
example : (∀ x, x ∈ itsAt exRegrid 0 ↔ x ∈ apList 0 2 (3 + 2)) ∧
    levelOne exRegrid 0 = .ok (some (.arange 0 0 8 2)) ∧
    levelOne exRegrid 1 = .ok (some (.arange 1 0 1 1)) ∧
    levelLines exRegrid 1 = ([.arange 0 0 8 2, .arange 1 0 1 1], none) := by
  refine ⟨?_, by decide +kernel, by decide +kernel, by decide +kernel⟩
  have h1 : itsAt exRegrid 0 = [0, 0, 0, 2, 2, 2, 4, 4, 4, 6, 6, 6, 8, 8, 8] := by decide +kernel
  have h2 : apList 0 2 (3 + 2) = [0, 2, 4, 6, 8] := by decide +kernel
  intro x
  rw [h1, h2]
  simp only [List.mem_cons, List.not_mem_nil, or_false]
  omega

example : keysAt exRegrid 2 = [] := by decide +kernel

/-- The progression hypothesis is necessary: for the set {0, 2, 8} the line
is `np.arange(0, 8, 2)`, which also describes 4 and 6. -/
theorem scan_level_stride_is_first_difference :
    levelOne ([0, 8, 2].map fun it => (formatKey ⟨['T'], ['a'], it, 0, false, some 0, none⟩,
      (⟨['T'], ['a'], it, 0, false, some 0, none⟩ : KeyInfo))) 0 = .ok (some (.arange 0 0 8 2)) := by
  decide +kernel

/-- The keys of ALL levels of a file are given (`fkeys`); the line of level
`rl` depends only on the keys whose parsed `rl` field is exactly `rl`
(`keysAt`), so level 1 never sees the keys of levels 10, 11, … -/
theorem scan_level_only_own_keys (fkeys : List (Str × KeyInfo)) (rl : Nat) :
    levelOne fkeys rl = levelOne (keysAt fkeys rl) rl :=
  levelOne_filter fkeys rl

/-- Restart discovery: a directory entry counts as a restart iff its whole
name is `output-` followed by decimal digits (one trailing newline is what
Python's `$` also accepts); its number is the value of the digits.  In
particular `output-0001-active` is not a restart. -/
theorem discover_exact (e : Str) :
    (∀ r, matchOutput e = some r →
      ∃ d : Str, d ≠ [] ∧ (∀ c ∈ d, isDig c = true) ∧ (e = sOutput ++ d ∨ e = sOutput ++ d ++ ['\n'])) ∧
    (∀ d : Str, d ≠ [] → (∀ c ∈ d, isDig c = true) → e = sOutput ++ d → matchOutput e = digitsVal d) :=
  ⟨fun _ h => matchOutput_shape h, fun d hne hd he => he ▸ matchOutput_digits d hne hd⟩

example : discover [sOutput ++ ['0', '0', '0', '1'], sOutput ++ ['0', '0', '0', '1', '-', 'a', 'c', 't', 'i', 'v', 'e'],
    ['S', 'I', 'M', 'F', 'A', 'C', 'T', 'O', 'R', 'Y'], sOutput ++ ['0', '0', '0', '0']] = [1, 0] := by decide +kernel

/-! ## T4 — `get_content` cached = scanned -/

/-- With a content.txt that a previous scan wrote (or none), `get_content`
returns the scan result, leaves iterations.txt alone and keeps the caches
consistent.  Hypothesis inside `Stable`: `keysOK` — the variable tuples are
distinct, non-empty and no variable name contains ','. -/
theorem content_cached_eq_scanned {T : Tables} {S : Sim} {scn : Nat → VarsAndFiles} {blk : Nat → List Line}
    (hS : Stable T S scn blk) (r : Nat) (dir : RestartDir)
    (hf : S.restarts.find? (fun d => d.nbr == r) = some dir) (fs : FS) (hc : CacheOK scn fs) :
    (getContent T S r false fs).2 = scn r ∧ (getContent T S r false fs).1.itfile = fs.itfile ∧
      CacheOK scn (getContent T S r false fs).1 :=
  getContent_spec hS r dir hf fs hc

/-- JSON key round trip `tuple(','.join(key).split(','))` and the whole
dictionary. -/
theorem content_key_roundtrip :
    (∀ k : List Str, k ≠ [] → (∀ v ∈ k, ',' ∉ v) → split [','] (joinSep [','] k) = k) ∧
    (∀ vf : VarsAndFiles, keysOK vf → fromContentData (toContentData vf) = vf) :=
  ⟨split_join_comma, content_roundtrip⟩

/-- the comma hypothesis is necessary -/
example : split [','] (joinSep [','] [['a', ',', 'b']]) ≠ [['a', ',', 'b']] := by decide +kernel

/-! ## T6 — overall merge -/

/-- **Full strength.**  For every catalogue, every level `rl` and every entry
`overall['rl = <rl>'] = sit` returned by `collect_overall_iterations`: an
iteration is described by `sit` iff it is described by the segment of some
restart at that level — provided the per-restart segments are what
`iterations()` writes for arithmetic progressions (`WFseg`: `[a]` or
`[a, b, d]` with `a < b`, `0 < d`, `d ∣ b - a`) and every merge of two ranges
of EQUAL stride along the way is of the continuing kind (`Chain`/`stepOK`: the
second range starts on the grid of the first, not beyond `max + d`, and
reaches at least as far).  The membership test `x in range(min, max+1, d)` is
exact, so merges with single iterations need no hypothesis.  The merge never
raises under these hypotheses (`merge_never_raises`). -/
theorem overall_faithful (cat : Cat) (ov : List (Str × List (List Int))) (h : overall cat = .ok ov)
    (rl : Nat) (sit : List (List Int)) (hs : dget ov (mRl ++ toDec rl) = some sit)
    (hw : ∀ s ∈ levelSegs cat (mRl ++ toDec rl), WFseg s) (hch : Chain [] (levelSegs cat (mRl ++ toDec rl))) :
    ∀ x, inSit x sit ↔ ∃ s ∈ levelSegs cat (mRl ++ toDec rl), inSegP x s :=
  overall_faithful_lemma cat ov h rl sit hs hw hch

theorem merge_never_raises (segs : List (List Int)) (hw : ∀ s ∈ segs, WFseg s) (hch : Chain [] segs) :
    ∃ r, foldlE (mergeStep rangeMem) [] segs = .ok r ∧ (∀ s ∈ r, WFseg s) ∧
      ∀ x, inSit x r ↔ ∃ s ∈ segs, inSegP x s := by
  obtain ⟨r, h1, h2, h3⟩ := merge_faithful segs [] (by simp) hw hch
  exact ⟨r, h1, h2, fun x => by rw [h3 x]; simp [inSit]⟩

/-- one merge step, whatever the state: faithful under `stepOK` -/
theorem merge_step_faithful (sit : List (List Int)) (cur : List Int)
    (hw : ∀ s ∈ sit, WFseg s) (hc : WFseg cur) (hok : stepOK sit cur) : StepGoal sit cur :=
  mergeStep_faithful sit cur hw hc hok

/-- When no restart has a single iteration at any level the merge does not
consult the membership test at all. -/
theorem overall_no_singles_independent_of_membership (mem1 mem2 : MemTest) (cat : Cat) (h : NoSingles cat) :
    overallWith mem1 cat = overallWith mem2 cat :=
  overall_no_singles_lemma mem1 mem2 cat h

def witnessCat : Cat :=
  [(0, [(mRl ++ ['0'], Val.ints [0, 6, 2])]), (1, [(mRl ++ ['0'], Val.ints [4])])]

/-- the former counterexample (restart 0 at 0,2,4,6; restart 1 restarted from 4
with the single iteration 4) is now merged correctly -/
theorem overall_single_inside_range :
    overall witnessCat = .ok [(mRl ++ ['0'], [[0, 6, 2]])] := by
  decide +kernel

/-- The `Chain` hypothesis is necessary: two ranges of equal stride with a gap
between them are merged into one range that describes iterations 6 and 8,
which no restart holds (the code sets `itmax` without looking). -/
theorem overall_equal_stride_gap_witness :
    overall [(0, [(mRl ++ ['0'], Val.ints [0, 4, 2])]), (1, [(mRl ++ ['0'], Val.ints [10, 12, 2])])]
      = .ok [(mRl ++ ['0'], [[0, 12, 2]])] := by
  decide +kernel

/-- non-vacuity of `overall_faithful`: the hypotheses hold for `witnessCat` -/
example : (∀ s ∈ levelSegs witnessCat (mRl ++ toDec 0), WFseg s) ∧ Chain [] (levelSegs witnessCat (mRl ++ toDec 0)) := by
  have hl : levelSegs witnessCat (mRl ++ toDec 0) = [[0, 6, 2], [4]] := by decide +kernel
  rw [hl]
  constructor
  · intro s hs
    simp at hs
    rcases hs with rfl | rfl
    · exact Or.inr ⟨0, 6, 2, rfl, by decide, by decide, ⟨3, by decide⟩⟩
    · exact Or.inl ⟨4, rfl⟩
  · refine ⟨fun p0 p1 d c0 c1 h _ => by simp at h, fun r _ => ⟨?_, fun _ _ => trivial⟩⟩
    intro p0 p1 d c0 c1 _ h
    simp at h

/-! ## Non-vacuity -/

example : KeyOK ⟨['A', ' ', 'B'], ['v', 'e', 'l', '[', '0', ']'], 128, 0, true, some 1, some 12⟩ := by
  refine ⟨by decide, ?_, by decide, ?_⟩ <;> decide

example : parseKey (formatKey ⟨['A'], ['g'], 128, 0, false, some 1, none⟩)
    = some ⟨['A'], ['g'], 128, 0, false, some 1, none⟩ := by decide +kernel

example : FileOK ⟨some ['a', 'd', 'm'], ['m', 'e', 't'], false, some 3, true⟩ := by
  refine ⟨?_, by decide, ?_, by decide⟩
  · intro t ht; injection ht with ht; subst ht; exact ⟨by decide, by decide⟩
  · decide

/-- near-valid name: the unescaped dots of the regex let `rhoxh5` match -/
example : matchH5File ['r', 'h', 'o', 'x', 'h', '5'] = some ⟨none, ['r', 'h', 'o'], false, none, false⟩ := by
  decide +kernel

def exLines : List Line :=
  [.restart 0, .vars [['a', 'l', 'p', 'h', 'a'], ['v', 'e', 'l', '[', '0', ']']],
   .reading ['/', 'd', '/', 'a', 'l', 'p', '.', 'h', '5'], .its 0 384, .arange 0 0 384 128, .single 1 256,
   .chk [0, 354]]

example : ∀ l ∈ exLines, LineOK l := by
  intro l hl
  exact lineOK_of_b l (List.all_eq_true.mp (by decide +kernel : exLines.all lineOKb = true) l hl)

/-- a two-restart directory: `iterations(skip_last=True)` then
`iterations(skip_last=False)` equals one fresh scan -/
def exT : Tables := { knownGroups := [], aurelToET := [(['a', 'l', 'p', 'h', 'a'], [['a', 'l', 'p']])] }

def exKey (it rl : Nat) : Str := formatKey ⟨['T'], ['a', 'l', 'p'], it, 0, false, some rl, none⟩

def exS : Sim :=
  { simpath := ['/', 'd', '/'], simname := ['s'],
    entries := [sOutput ++ ['0', '0', '0', '1', '-', 'a', 'c', 't', 'i', 'v', 'e'], sOutput ++ ['0', '0', '0', '1'],
                ['S', 'I', 'M', 'F', 'A', 'C', 'T', 'O', 'R', 'Y'], sOutput ++ ['0', '0', '0', '0']],
    restarts := [
      { nbr := 0, files := [{ name := ['a', 'l', 'p', '.', 'h', '5'], keys := [exKey 0 0, exKey 2 0, exKey 4 0], hashOrder := [] },
                           { name := formatCheckpoint 4 none, keys := [], hashOrder := [] }] },
      { nbr := 1, files := [{ name := ['a', 'l', 'p', '.', 'h', '5'], keys := [exKey 6 0], hashOrder := [] }] }] }

theorem exS_stable : Stable exT exS (scanOf exT exS) (blkOf exT exS) := by
  apply stable_criterion <;> decide +kernel

example :
    (iterationsCall exT exS false (runCalls exT [(exS, true)] emptyFS)).1.itfile =
      (iterationsCall exT exS false emptyFS).1.itfile ∧
    (iterationsCall exT exS false (runCalls exT [(exS, true)] emptyFS)).2 =
      (iterationsCall exT exS false emptyFS).2 :=
  incremental_eq_fresh exT _ _ [(exS, true)] exS false exS
    (fun c hc => by simp at hc; subst hc; exact exS_stable) exS_stable exS_stable
    (by decide +kernel) (by decide +kernel)

/-- restarts being added: `iterations(skip_last=False)` on restart 0 alone, then
restart 1 appears, `iterations(skip_last=True)` (nothing new), then
`iterations(skip_last=False)`: same file and same result as one fresh scan of
the final directory -/
def exS0 : Sim := { exS with restarts := exS.restarts.take 1, entries := [sOutput ++ ['0', '0', '0', '0']] }

theorem exS0_stable : Stable exT exS0 (scanOf exT exS) (blkOf exT exS) := by
  have h : extend exS0 (exS.restarts.drop 1) exS.entries = exS := rfl
  have := stable_prefix exT exS0 (exS.restarts.drop 1) exS.entries (h ▸ exS_stable) (by decide +kernel)
    (by
      have hd : discover exS0.entries = [0] := by decide +kernel
      intro r hr
      rw [hd] at hr
      simp at hr; subst hr
      exact ⟨_, rfl⟩)
  rw [h] at this
  exact this

example :
    (iterationsCall exT exS false (runCalls exT [(exS0, false), (exS, true)] emptyFS)).1.itfile =
      (iterationsCall exT exS false emptyFS).1.itfile ∧
    (iterationsCall exT exS false (runCalls exT [(exS0, false), (exS, true)] emptyFS)).2 =
      (iterationsCall exT exS false emptyFS).2 :=
  incremental_eq_fresh exT _ _ [(exS0, false), (exS, true)] exS false exS
    (fun c hc => by
      simp at hc
      rcases hc with hc | hc
      · subst hc; exact exS0_stable
      · subst hc; exact exS_stable) exS_stable exS_stable
    (by decide +kernel) (by decide +kernel)

example : NoSingles [(0, [(mRl ++ ['0'], Val.ints [0, 6, 2])])] := by
  intro re hre kv hkv
  simp at hre; subst hre
  simp at hkv; subst hkv
  decide

end AurelVerif.C18
