/-
Props/C10Rot.lean — property C10, part 8 (extension): the transformation law of the Weyl scalars under a change
of null tetrad, DERIVED from their definition as tetrad components (T11).  See Props/C10.lean for the overview.

  T11a  for every tensor `C` with the Riemann symmetries, the cyclic identity and `g^{ac}C_abcd = 0`, and every
        null tetrad `(l,k,m,m̄)` with the completeness relation `g^{ab} = −l^a k^b − k^a l^b + m^a m̄^b + m̄^a m^b`:
        class I  (`k` fixed, `m → m + b k`, `m̄ → m̄ + b̄ k`, `l → l + b̄ m + b m̄ + b b̄ k`)  acts on (Ψ0..Ψ4) as `rotI b̄`,
        class II (`l` fixed, `m → m + a l`, …)                                           as `rotII a`,
        class III (`k → A k`, `l → A⁻¹ l`, `m → e^{iθ} m`, `m̄ → e^{−iθ} m̄`)                as `rotIII (A e^{iθ}) (A⁻¹e^{−iθ})`,
        `k ↔ l`, `m ↔ m̄`                                                                as `swapKL`
        — `rotI`, `rotII`, `rotIII`, `swapKL` are the textbook actions of Spec/Weyl.lean under which T8 proves I, J invariant;
  T11b  hence `I`, `J` evaluated on the Weyl scalars OF THE TENSOR in the new tetrad equal those in the old one
        (this connects T8 to the tetrad);
  T11c  the code's null tetrad (`null_vector_base` of a tetrad orthonormal for `g`) satisfies the completeness relation;
  T11d  the same for the code's operand order (`weylPsi`); both generated constructions of `st_Weyl_down4` are
        `WeylLike` (second: under the hypotheses of T9; first: for a cached Riemann tensor with the Riemann
        symmetries, the cyclic identity and consistent Ricci contractions), so T11a–b apply to them.
-/
import AurelVerif.Props.C10Frame
import AurelVerif.Props.C10NP
import AurelVerif.Props.C10Alt1
import AurelVerif.Lemmas.C10NPTensor
import Mathlib.Algebra.Field.ZMod
set_option linter.unusedSimpArgs false
set_option linter.unusedVariables false

namespace AurelVerif.C10
open AurelVerif.Gen.Core AurelVerif.Tensor AurelVerif.CoreTac AurelVerif.Spec.Weyl AurelVerif.Model.WeylNP

variable {K : Type} [Field K]

/-- the completeness relation of a null tetrad for the inverse metric `gup`. -/
def Complete (gup : Fin 4 → Fin 4 → K) (t : NullTetrad K) : Prop :=
  ∀ a b, gup a b = -(t.l a * t.k b + t.k a * t.l b) + t.m a * t.mb b + t.mb a * t.m b

/-- a tensor with all the algebraic properties of a Weyl tensor for the inverse metric `gup`. -/
structure WeylLike (gup : Fin 4 → Fin 4 → K) (C : Fin 4 → Fin 4 → Fin 4 → Fin 4 → K) : Prop where
  sym : RiemannSym C
  cyc : Cyclic C
  tr : ∀ b d, ∑ a, ∑ c, gup a c * C a b c d = 0

/-- **T11a** the four transformation laws of `(Ψ0..Ψ4) = psi C t`. -/
theorem psi_null_rotations (h2 : (2 : K) ≠ 0) (gup : Fin 4 → Fin 4 → K)
    (C : Fin 4 → Fin 4 → Fin 4 → Fin 4 → K) (hW : WeylLike gup C) (t : NullTetrad K) (hc : Complete gup t)
    (b bb A Ai p q : K) (hA : A * Ai = 1) (hp : p * q = 1) :
    psi C (classI t b bb) = rotI bb (psi C t)
    ∧ psi C (classII t b bb) = rotII b (psi C t)
    ∧ psi C (classIII t A Ai p q) = rotIII (A * p) (Ai * q) (psi C t)
    ∧ psi C (swapT t) = swapKL (psi C t) :=
  ⟨psi_classI C h2 hW.sym hW.cyc gup hW.tr t hc b bb, psi_classII C h2 hW.sym hW.cyc gup hW.tr t hc b bb,
    psi_classIII C t A Ai p q hA hp, psi_swapT C hW.sym t⟩

/-- **T11b** `I` and `J` of the Weyl scalars of `C` do not depend on which of these null tetrads is used. -/
theorem invariants_of_tensor_tetrad_independent (h2 : (2 : K) ≠ 0) (gup : Fin 4 → Fin 4 → K)
    (C : Fin 4 → Fin 4 → Fin 4 → Fin 4 → K) (hW : WeylLike gup C) (t : NullTetrad K) (hc : Complete gup t)
    (b bb A Ai p q : K) (hA : A * Ai = 1) (hp : p * q = 1) :
    (invI (psi C (classI t b bb)) = invI (psi C t) ∧ invJ (psi C (classI t b bb)) = invJ (psi C t))
    ∧ (invI (psi C (classII t b bb)) = invI (psi C t) ∧ invJ (psi C (classII t b bb)) = invJ (psi C t))
    ∧ (invI (psi C (classIII t A Ai p q)) = invI (psi C t) ∧ invJ (psi C (classIII t A Ai p q)) = invJ (psi C t))
    ∧ (invI (psi C (swapT t)) = invI (psi C t) ∧ invJ (psi C (swapT t)) = invJ (psi C t)) := by
  obtain ⟨r1, r2, r3, r4⟩ := psi_null_rotations h2 gup C hW t hc b bb A Ai p q hA hp
  have hzw : (A * p) * (Ai * q) = 1 := by linear_combination p * q * hA + hp
  obtain ⟨i1, i2, i3, i4⟩ := invariants_tetrad_independent (psi C t) bb b (A * p) (Ai * q) hzw
  rw [r1, r2, r3, r4]
  exact ⟨i1, i2, i3, i4⟩

/-- **T11c** the code's null tetrad is complete for `g⁻¹` when the underlying tetrad is orthonormal for `g`. -/
theorem null_vector_base_complete (g gup : Fin 4 → Fin 4 → K)
    (hinv : ∀ a b, ∑ c, gup a c * g c b = if a = b then 1 else 0) (s I : K) (hs : 2 * s ^ 2 = 1)
    (hI : I ^ 2 = -1) (E : Fin 4 → Fin 4 → K) (hE : Orthonormal g E) :
    Complete gup (nullVectorBase s I E) :=
  fun a b => completeness_nullVectorBase g gup hinv s I hs hI E hE a b

/-- **T11d** the same laws for the code's operand order of the five einsums (`weylPsi`). -/
theorem weylPsi_null_rotations (h2 : (2 : K) ≠ 0) (gup : Fin 4 → Fin 4 → K)
    (C : Fin 4 → Fin 4 → Fin 4 → Fin 4 → K) (hW : WeylLike gup C) (t : NullTetrad K) (hc : Complete gup t)
    (b bb A Ai p q : K) (hA : A * Ai = 1) (hp : p * q = 1) :
    weylPsi C (classI t b bb) = rotI bb (weylPsi C t)
    ∧ weylPsi C (classII t b bb) = rotII b (weylPsi C t)
    ∧ weylPsi C (classIII t A Ai p q) = rotIII (A * p) (Ai * q) (weylPsi C t)
    ∧ weylPsi C (swapT t) = swapKL (weylPsi C t) := by
  simp only [psi_spec C hW.sym.anti12 hW.sym.anti34]
  exact psi_null_rotations h2 gup C hW t hc b bb A Ai p q hA hp

/-- **T11d** the generated second construction of `st_Weyl_down4` (shift key present) is `WeylLike` for the cached
inverse metric under the input hypotheses of T9 with `E`, `B` symmetric and trace-free. -/
theorem weyl_alt2_weylLike (e : Env K) (h2 : (2 : K) ≠ 0) (hI : AdmInputs e)
    (hE : Symm e.eweyl_n_down3) (hB : Symm e.bweyl_n_down3)
    (hEt : traceG3 e.gammaup3 e.eweyl_n_down3 = 0) (hBt : traceG3 e.gammaup3 e.bweyl_n_down3 = 0) :
    WeylLike e.gup4 (st_Weyl_down4__betaup3 e) := by
  obtain ⟨s, t, _, _⟩ := weyl_alt2_normal_frame_of_inputs e h2 hI hE hB hEt
  exact ⟨s, (weyl_alt2_cyclic_of_inputs e h2 hI hE hB hBt).1, t.t13⟩

/-- the Riemann-minus-Ricci-parts expression satisfies the cyclic identity when the Riemann tensor does. -/
theorem weyl_cyclic (g : Fin 4 → Fin 4 → K) (Riem : Fin 4 → Fin 4 → Fin 4 → Fin 4 → K) (Ric : Fin 4 → Fin 4 → K)
    (R : K) (hR : Cyclic Riem) (hg : Symm g) (hRic : Symm Ric) : Cyclic (weyl g Riem Ric R) := by
  intro a b c d
  unfold weyl
  linear_combination hR a b c d
    - (1 / 2 : K) * (g a c * hRic d b + g a d * hRic b c + g a b * hRic c d + Ric d a * hg c b + Ric c a * hg b d
        + Ric b a * hg d c)
    + (1 / 6 : K) * R * (g a c * hg d b + g a d * hg b c + g a b * hg c d)

/-- **T11d** the generated FIRST construction of `st_Weyl_down4` (from a cached Riemann tensor, matter branch) is
`WeylLike` when the cached tensor has the Riemann symmetries and the cyclic identity and the cached Ricci tensor
and scalar are its contractions (characteristic ≠ 2, 3). -/
theorem weyl_alt1_weylLike (e : Env K) (h2 : (2 : K) ≠ 0) (h3 : (3 : K) ≠ 0)
    (hR : RiemannSym e.st_Riemann_down4) (hRc : Cyclic e.st_Riemann_down4)
    (hg : Symm e.gdown4) (hgup : Symm e.gup4) (hRicS : Symm e.st_Ricci_down4)
    (hinv : ∀ a b, ∑ c, e.gup4 a c * e.gdown4 c b = if a = b then 1 else 0)
    (hRic : ∀ b d, e.st_Ricci_down4 b d = ∑ a, ∑ c, e.gup4 a c * e.st_Riemann_down4 a b c d)
    (hRS : e.st_RicciS = ∑ b, ∑ d, e.gup4 b d * e.st_Ricci_down4 b d) :
    WeylLike e.gup4 (st_Weyl_down4__st_Riemann_down4_matter e) := by
  refine ⟨weyl_alt1_sym e hR hg hRicS, ?_, weyl_alt1_tracefree e hg hgup hRicS hinv hRic hRS h2 h3⟩
  have h : st_Weyl_down4__st_Riemann_down4_matter e
      = weyl e.gdown4 e.st_Riemann_down4 e.st_Ricci_down4 e.st_RicciS := by
    funext a b c d; exact weyl_alt1_spec e a b c d
  rw [h]; exact weyl_cyclic _ _ _ _ hRc hg hRicS

/-! ### Non-vacuity -/

/-- over `ℤ/17` (`2·3² = 1`, `4² = −1`): Minkowski metric, the Kulkarni–Nomizu product of the identity with the
trace-free `E = diag(0,1,−1,0)` — a non-zero tensor with all Weyl symmetries — and the code's null tetrad of the
identity tetrad. -/
def exC : Fin 4 → Fin 4 → Fin 4 → Fin 4 → ZMod 17 := fun a b c d =>
  let l : Fin 4 → Fin 4 → ZMod 17 := fun i j => if i = j then 1 else 0
  let E : Fin 4 → Fin 4 → ZMod 17 := fun i j => if i = j then (if i = 1 then 1 else if i = 2 then -1 else 0) else 0
  l a c * E d b - l a d * E c b - l b c * E d a + l b d * E c a

def exEta17 : Fin 4 → Fin 4 → ZMod 17 := fun a b => if a = b then (if a = 0 then -1 else 1) else 0

example : WeylLike exEta17 exC ∧ exC 0 1 0 1 ≠ 0
    ∧ Complete exEta17 (nullVectorBase 3 4 (fun a b : Fin 4 => if a = b then 1 else 0))
    ∧ (2 : ZMod 17) ≠ 0 := by
  refine ⟨⟨⟨?_, ?_, ?_⟩, ?_, ?_⟩, ?_, ?_, ?_⟩
  · decide +kernel
  · decide +kernel
  · decide +kernel
  · unfold Cyclic; decide +kernel
  · simp only [Fin.sum_univ_four]; decide +kernel
  · decide +kernel
  · unfold Complete; decide +kernel
  · decide

/-- the cached "Riemann" tensor `A_ab A_cd` of `exEnv` (Props/C10Alt1.lean; `A` a simple bivector) also satisfies
the cyclic identity — the extra hypothesis of `weyl_alt1_weylLike`. -/
example : Cyclic exEnv.st_Riemann_down4 := by
  unfold Cyclic
  cases4 <;> cases4 <;> cases4 <;> cases4 <;> (simp only [exEnv, exA, core_unfold]; try norm_num)

end AurelVerif.C10
