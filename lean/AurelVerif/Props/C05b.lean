/-
Props/C05b.lean — property C05, extension round: the consistency statements that Props/C05.lean listed as
"NOT PROVEN (numerical oracle only)".  ONLY property statements and non-vacuity examples; proofs in
Lemmas/C05{Raise2,Riem,Div,Curl2}.lean (namespace `AurelVerif.C05L`), textbook vocabulary in
Spec/Covd.lean and Spec/CovdB.lean.  Conventions as in Props/C05.lean: every un-prefixed definition
(`s_covd_ud`, `s_Riemann_down3`, `s_div_u`, `s_curl_dd`, …) is GENERATED from the current core.py;
`e.X` is the cached value of key `X`, a hypothesis `e.X = X e` says "entry X was produced by the code's
own formula"; `e.D` is the uninterpreted finite-difference operator, `e.sqrtF` the opaque square root.

LAYER A (exact: every field, EVERY operator `e.D`):
  s_Riemann_uddd3_bianchi1, s_Riemann_down3_bianchi1   first Bianchi identity (connection symmetric below)
  s_Riemann_down3_antisymm_last                        R_abcd = −R_abdc
  trace_Gamma                                          Γ^a_{ma} = ½ γ^{ab} ∂_m γ_ab
  LCuud3_spatial, s_curl_dd_spatial                    g g n ε = γ γ ε (3+1 form of g^{μν}, √(−g) = α√γ)
  gupSplit_of_code, sqrt_split_of_ordered              the two hypotheses of the previous line discharged
LAYER B (consistency: product / chain rule and commuting derivatives, stated for the single expressions
each theorem differentiates, and derived from `Deriv e.D` [+ `DComm e.D`] by the `*_of_deriv` theorems; the
finite-difference operators satisfy them only up to truncation error — continuum-limit statements):
  T9   lower_commutes_u (rank 1), lower_first_{ud,uu}, lower_second_{du,uu}, raise_first_{dd,du},
       raise_second_{dd,ud}: raising / lowering either index of a rank-2 tensor commutes with `s_covd`
       for every supported index pattern (with `raise_commutes` of Props/C05.lean: all 10 cases)
  T11  s_div_u_density: s_div(v,'u') = (1/√γ) ∂_i(√γ v^i)   (+ jacobi_of_deriv: Jacobi's formula for the
       code's determinant and inverse)
  T12  s_Riemann_down3_second: the code's R_abcd is the second-derivative form [LL] (92.1) (the formula the
       numerical oracle uses); s_Riemann_down3_antisymm_first, s_Riemann_down3_pair_exchange;
       s_Ricci_down3_{dflt,alt}_symm: both alternatives of `s_Ricci_down3` are symmetric.

  T12 (BSSNOK) ricci_conformal_split: s_Ricci_down3 (default alternative) = Ricci tensor of the code's conformal
       connection `s_Gamma_udd3_bssnok` + the code's `s_Ricci_down3_phi`  (the conformal-transformation formula of
       the Ricci tensor, Alcubierre (2.8.16) with R̃_ij read as the Ricci tensor of the connection Γ̃).

STILL NOT PROVEN: that `s_Ricci_down3_bssnok` (Alcubierre (2.8.17), written with Γ̃^i = −∂_jγ̃^{ij}) is the Ricci tensor
of Γ̃ / of γ̃ (needs det γ̃ = 1 and the chain rule for the opaque power/log); the second Bianchi identity;
convergence order; round-off.  Lie_beta input validation: Props/C05c.lean.
-/
import AurelVerif.Props.C05
import AurelVerif.Lemmas.C05Raise2
import AurelVerif.Lemmas.C05Riem
import AurelVerif.Lemmas.C05Div
import AurelVerif.Lemmas.C05Curl2
import AurelVerif.Lemmas.C05Conf
import AurelVerif.Lemmas.C04Gup

set_option linter.unusedSimpArgs false
set_option linter.unusedVariables false
set_option linter.unusedSectionVars false
set_option linter.unusedTactic false
set_option linter.unreachableTactic false
set_option linter.unnecessarySeqFocus false

namespace AurelVerif.C05
open AurelVerif.Gen.Core AurelVerif.Tensor AurelVerif.CoreTac AurelVerif.C08 AurelVerif.Spec.Covd
open AurelVerif.C05L (SymLow dbeta LCuud3 curlRaw MetricOK ProdRuleBeta ProdRuleInv ProdRuleRaise Deriv
  conL conR con1 ProdRuleL ProdRuleR ProdRule1 CurvRules DComm DivRules trDgamma GupSplit curlSpatial
  ConfRules ConfWeights uVec)

variable {K : Type} [Field K]

/-! ## T9: raising / lowering commutes with `s_covd` (Layer B) — Lemmas/C05Raise2.lean

`conL g t a b = g_{am} t_{mb}`, `conR g t a b = g_{bm} t_{am}`, `con1 g v a = g_{am} v_m`;
`ProdRuleL/R/1 D g t` is the product rule for that one contraction. -/

theorem prodRuleL_of_deriv (D : Fin 3 → K → K) (hD : Deriv D) (g t : Fin 3 → Fin 3 → K) : ProdRuleL D g t :=
  C05L.prodRuleL_of_deriv D hD g t
theorem prodRuleR_of_deriv (D : Fin 3 → K → K) (hD : Deriv D) (g t : Fin 3 → Fin 3 → K) : ProdRuleR D g t :=
  C05L.prodRuleR_of_deriv D hD g t
theorem prodRule1_of_deriv (D : Fin 3 → K → K) (hD : Deriv D) (g : Fin 3 → Fin 3 → K) (v : Fin 3 → K) :
    ProdRule1 D g v := C05L.prodRule1_of_deriv D hD g v

/-- rank 1, lowering: `s_covd(γ_{ab} v^b, 'd')_{ca} = γ_{ab} s_covd(v, 'u')_c{}^b`.  Uses T8 ('dd'), which needs
no property of the operator, and the product rule on `γ_{ab} v^b`. -/
theorem lower_commutes_u (e : Env K) (h : MetricOK e) (h2 : (2 : K) ≠ 0) (v : Fin 3 → K)
    (hv : ProdRule1 e.D e.gammadown3 v) (c a : Fin 3) :
    s_covd_d e (con1 e.gammadown3 v) c a = ∑ b, e.gammadown3 a b * s_covd_u e v c b :=
  C05L.lower_commutes_u e h h2 v hv c a

/-- `s_covd(γ_{am} t^m{}_b, 'dd') = γ_{am} s_covd(t, 'ud')`. -/
theorem lower_first_ud (e : Env K) (h : MetricOK e) (h2 : (2 : K) ≠ 0) (t : Fin 3 → Fin 3 → K)
    (ht : ProdRuleL e.D e.gammadown3 t) (c a b : Fin 3) :
    s_covd_dd e (conL e.gammadown3 t) c a b = ∑ m, e.gammadown3 a m * s_covd_ud e t c m b :=
  C05L.lower_first_ud e h h2 t ht c a b

/-- `s_covd(γ_{am} t^{mb}, 'du') = γ_{am} s_covd(t, 'uu')`. -/
theorem lower_first_uu (e : Env K) (h : MetricOK e) (h2 : (2 : K) ≠ 0) (t : Fin 3 → Fin 3 → K)
    (ht : ProdRuleL e.D e.gammadown3 t) (c a b : Fin 3) :
    s_covd_du e (conL e.gammadown3 t) c a b = ∑ m, e.gammadown3 a m * s_covd_uu e t c m b :=
  C05L.lower_first_uu e h h2 t ht c a b

/-- `s_covd(γ_{bm} t_a{}^m, 'dd') = γ_{bm} s_covd(t, 'du')`. -/
theorem lower_second_du (e : Env K) (h : MetricOK e) (h2 : (2 : K) ≠ 0) (t : Fin 3 → Fin 3 → K)
    (ht : ProdRuleR e.D e.gammadown3 t) (c a b : Fin 3) :
    s_covd_dd e (conR e.gammadown3 t) c a b = ∑ m, e.gammadown3 b m * s_covd_du e t c a m :=
  C05L.lower_second_du e h h2 t ht c a b

/-- `s_covd(γ_{bm} t^{am}, 'ud') = γ_{bm} s_covd(t, 'uu')`. -/
theorem lower_second_uu (e : Env K) (h : MetricOK e) (h2 : (2 : K) ≠ 0) (t : Fin 3 → Fin 3 → K)
    (ht : ProdRuleR e.D e.gammadown3 t) (c a b : Fin 3) :
    s_covd_ud e (conR e.gammadown3 t) c a b = ∑ m, e.gammadown3 b m * s_covd_uu e t c a m :=
  C05L.lower_second_uu e h h2 t ht c a b

/-- `s_covd(γ^{am} t_{mb}, 'ud') = γ^{am} s_covd(t, 'dd')` (also needs T8 'uu': `ProdRuleInv`). -/
theorem raise_first_dd (e : Env K) (h : MetricOK e) (h2 : (2 : K) ≠ 0) (hp : ProdRuleInv e)
    (t : Fin 3 → Fin 3 → K) (ht : ProdRuleL e.D e.gammaup3 t) (c a b : Fin 3) :
    s_covd_ud e (conL e.gammaup3 t) c a b = ∑ m, e.gammaup3 a m * s_covd_dd e t c m b :=
  C05L.raise_first_dd e h h2 hp t ht c a b

/-- `s_covd(γ^{am} t_m{}^b, 'uu') = γ^{am} s_covd(t, 'du')`. -/
theorem raise_first_du (e : Env K) (h : MetricOK e) (h2 : (2 : K) ≠ 0) (hp : ProdRuleInv e)
    (t : Fin 3 → Fin 3 → K) (ht : ProdRuleL e.D e.gammaup3 t) (c a b : Fin 3) :
    s_covd_uu e (conL e.gammaup3 t) c a b = ∑ m, e.gammaup3 a m * s_covd_du e t c m b :=
  C05L.raise_first_du e h h2 hp t ht c a b

/-- `s_covd(γ^{bm} t_{am}, 'du') = γ^{bm} s_covd(t, 'dd')`. -/
theorem raise_second_dd (e : Env K) (h : MetricOK e) (h2 : (2 : K) ≠ 0) (hp : ProdRuleInv e)
    (t : Fin 3 → Fin 3 → K) (ht : ProdRuleR e.D e.gammaup3 t) (c a b : Fin 3) :
    s_covd_du e (conR e.gammaup3 t) c a b = ∑ m, e.gammaup3 b m * s_covd_dd e t c a m :=
  C05L.raise_second_dd e h h2 hp t ht c a b

/-- `s_covd(γ^{bm} t^a{}_m, 'uu') = γ^{bm} s_covd(t, 'ud')`. -/
theorem raise_second_ud (e : Env K) (h : MetricOK e) (h2 : (2 : K) ≠ 0) (hp : ProdRuleInv e)
    (t : Fin 3 → Fin 3 → K) (ht : ProdRuleR e.D e.gammaup3 t) (c a b : Fin 3) :
    s_covd_uu e (conR e.gammaup3 t) c a b = ∑ m, e.gammaup3 b m * s_covd_ud e t c a m :=
  C05L.raise_second_ud e h h2 hp t ht c a b

/-! ## T12: symmetries of the code's Riemann / Ricci tensors — Lemmas/C05Riem.lean -/

/-- **first Bianchi identity** `R^a_{bcd} + R^a_{cdb} + R^a_{dbc} = 0` — Layer A: every operator, every cached
connection symmetric in its lower indices (the code's table is: `s_Gamma_udd3_symm`). -/
theorem s_Riemann_uddd3_bianchi1 (e : Env K) (hG : SymLow e.s_Gamma_udd3) (a b c d : Fin 3) :
    s_Riemann_uddd3 e a b c d + s_Riemann_uddd3 e a c d b + s_Riemann_uddd3 e a d b c = 0 :=
  C05L.s_Riemann_uddd3_bianchi1 e hG a b c d

/-- first Bianchi identity of `s_Riemann_down3` — Layer A. -/
theorem s_Riemann_down3_bianchi1 (e : Env K) (hG : SymLow e.s_Gamma_udd3)
    (hR : e.s_Riemann_uddd3 = s_Riemann_uddd3 e) (a b c d : Fin 3) :
    s_Riemann_down3 e a b c d + s_Riemann_down3 e a c d b + s_Riemann_down3 e a d b c = 0 :=
  C05L.s_Riemann_down3_bianchi1 e hG hR a b c d

/-- antisymmetry of `s_Riemann_down3` in its last pair — Layer A. -/
theorem s_Riemann_down3_antisymm_last (e : Env K) (hR : e.s_Riemann_uddd3 = s_Riemann_uddd3 e)
    (a b c d : Fin 3) : s_Riemann_down3 e a b c d = -s_Riemann_down3 e a b d c :=
  C05L.s_Riemann_down3_antisymm_last e hR a b c d

/-- `CurvRules e` (product rule on `γ_{ia}Γ^a_{bd}`, linearity on `Γ_{ibd}`, commuting second derivatives of γ)
holds for every derivation with commuting partial derivatives. -/
theorem curvRules_of_deriv (e : Env K) (hD : Deriv e.D) (hc : DComm e.D) (h2 : (2 : K) ≠ 0) : CurvRules e :=
  C05L.curvRules_of_deriv e hD hc h2

/-- **the code's `s_Riemann_down3` is the Riemann tensor of γ in second-derivative form** ([LL] (92.1)):
`R_abcd = ½(∂_b∂_c γ_ad + ∂_a∂_d γ_bc − ∂_a∂_c γ_bd − ∂_b∂_d γ_ac) + γ_ef(Γ^e_bc Γ^f_ad − Γ^e_bd Γ^f_ac)`
when connection and `s_Riemann_uddd3` are the code's own.  Layer B. -/
theorem s_Riemann_down3_second (e : Env K) (h : MetricOK e) (h2 : (2 : K) ≠ 0)
    (hR : e.s_Riemann_uddd3 = s_Riemann_uddd3 e) (hc : CurvRules e) (a b c d : Fin 3) :
    s_Riemann_down3 e a b c d = riemannDown2 e.D e.gammadown3 e.s_Gamma_udd3 a b c d :=
  C05L.s_Riemann_down3_second e h h2 hR hc a b c d

/-- **antisymmetry in the first pair** `R_abcd = −R_bacd`.  Layer B. -/
theorem s_Riemann_down3_antisymm_first (e : Env K) (h : MetricOK e) (h2 : (2 : K) ≠ 0)
    (hR : e.s_Riemann_uddd3 = s_Riemann_uddd3 e) (hc : CurvRules e) (a b c d : Fin 3) :
    s_Riemann_down3 e a b c d = -s_Riemann_down3 e b a c d :=
  C05L.s_Riemann_down3_antisymm_first e h h2 hR hc a b c d

/-- **pair exchange** `R_abcd = R_cdab`.  Layer B. -/
theorem s_Riemann_down3_pair_exchange (e : Env K) (h : MetricOK e) (h2 : (2 : K) ≠ 0)
    (hR : e.s_Riemann_uddd3 = s_Riemann_uddd3 e) (hc : CurvRules e) (a b c d : Fin 3) :
    s_Riemann_down3 e a b c d = s_Riemann_down3 e c d a b :=
  C05L.s_Riemann_down3_pair_exchange e h h2 hR hc a b c d

/-- **`s_Ricci_down3` is symmetric** — default alternative (`R^a_{bad}` from the connection).  Layer B. -/
theorem s_Ricci_down3_dflt_symm (e : Env K) (h : MetricOK e) (h2 : (2 : K) ≠ 0)
    (hR : e.s_Riemann_uddd3 = s_Riemann_uddd3 e) (hc : CurvRules e) (b d : Fin 3) :
    s_Ricci_down3__dflt e b d = s_Ricci_down3__dflt e d b :=
  C05L.s_Ricci_down3_dflt_symm e h h2 hR hc b d

/-- **`s_Ricci_down3` is symmetric** — alternative used when `s_Riemann_down3` is cached.  Layer B. -/
theorem s_Ricci_down3_alt_symm (e : Env K) (h : MetricOK e) (h2 : (2 : K) ≠ 0)
    (hR : e.s_Riemann_uddd3 = s_Riemann_uddd3 e) (hRd : e.s_Riemann_down3 = s_Riemann_down3 e)
    (hc : CurvRules e) (b d : Fin 3) :
    s_Ricci_down3__s_Riemann_down3 e b d = s_Ricci_down3__s_Riemann_down3 e d b :=
  C05L.s_Ricci_down3_alt_symm e h h2 hR hRd hc b d

/-! ## T11: divergence through the density √γ — Lemmas/C05Div.lean -/

/-- contracted Christoffel symbol `Γ^a_{ma} = ½ γ^{ab} ∂_m γ_ab` for the code's table — Layer A. -/
theorem trace_Gamma (e : Env K) (h : MetricOK e) (m : Fin 3) :
    ∑ a, e.s_Gamma_udd3 a m a = (1 / 2) * trDgamma e m := C05L.trace_Gamma e h m

/-- **T11** `s_div(v,'u') = (1/√γ) ∂_i(√γ v^i)` with `√γ = e.sqrtF e.gammadet` opaque; `DivRules e v` =
√γ ≠ 0, (√γ)² = det γ, chain rule `∂√γ = ∂ det γ/(2√γ)`, Jacobi's formula, product rule on `√γ v^i`.  Layer B. -/
theorem s_div_u_density (e : Env K) (h : MetricOK e) (h2 : (2 : K) ≠ 0) (v : Fin 3 → K)
    (hr : DivRules e v) : s_div_u e v = divDensity e.D (e.sqrtF e.gammadet) v :=
  C05L.s_div_u_density e h h2 v hr

/-- **Jacobi's formula** `∂_i det γ = det γ · γ^{ab} ∂_i γ_ab` for the code's `gammadet` and `gammaup3`, from
`Deriv e.D`. -/
theorem jacobi_of_deriv (e : Env K) (hD : Deriv e.D) (hs : Sym e.gammadown3) (hgd : e.gammadet = gammadet e)
    (hu : e.gammaup3 = gammaup3 e) (hd : gammadet e ≠ 0) (i : Fin 3) :
    e.D i e.gammadet = e.gammadet * trDgamma e i := C05L.jacobi_of_deriv e hD hs hgd hu hd i

theorem divRules_of_deriv (e : Env K) (hD : Deriv e.D) (hs : Sym e.gammadown3) (hgd : e.gammadet = gammadet e)
    (hu : e.gammaup3 = gammaup3 e) (hd : gammadet e ≠ 0) (v : Fin 3 → K)
    (sne : e.sqrtF e.gammadet ≠ 0) (sq : e.sqrtF e.gammadet * e.sqrtF e.gammadet = e.gammadet)
    (dsqrt : ∀ i, e.D i (e.sqrtF e.gammadet) = e.D i e.gammadet / (2 * e.sqrtF e.gammadet)) :
    DivRules e v := C05L.divRules_of_deriv e hD hs hgd hu hd v sne sq dsqrt

/-! ## curl: `g g n ε = γ γ ε` — Lemmas/C05Curl2.lean -/

/-- the tensor the code contracts in `s_curl`, `g^{aμ} g^{bν} n^λ ε_{λμνc}` (`LCuud3`), is the spatial
`γ^{ad} γ^{bf} ε_{dfc}` with `ε_{dfc} = levicivita_down3 = [dfc]√γ`.  No property of `e.D` is used. -/
theorem LCuud3_spatial (e : Env K) (hg : GupSplit e) (hn : e.nup4 = nup4 e) (ha : e.alpha ≠ 0)
    (hsq : e.sqrtF (-e.gdet) = e.alpha * e.sqrtF e.gammadet) (a b c : Fin 3) :
    LCuud3 e a b c = eps3UUD e.gammaup3 (levicivita_down3 e) a b c :=
  C05L.LCuud3_spatial e hg hn ha hsq a b c

/-- **s_curl 'dd'** is the symmetrised `ε^{cd}{}_a D_c f_{bd}` with the SPATIAL Levi-Civita tensor
(`curlSpatial e f a b = γ^{ce} γ^{df} ε_{efa} · s_covd(f,'dd')_{cbd}`). -/
theorem s_curl_dd_spatial (e : Env K) (hg : GupSplit e) (hn : e.nup4 = nup4 e) (ha : e.alpha ≠ 0)
    (hsq : e.sqrtF (-e.gdet) = e.alpha * e.sqrtF e.gammadet) (f : Fin 3 → Fin 3 → K) (a b : Fin 3) :
    s_curl_dd e f a b = (curlSpatial e f a b + curlSpatial e f b a) * (1 / 2) :=
  C05L.s_curl_dd_spatial e hg hn ha hsq f a b

/-- `GupSplit` (3+1 form of the cached inverse 4-metric) holds when `gup4` is the code's closed-form inverse
of the assembled 4-metric (C04-T2). -/
theorem gupSplit_of_code (e : Env K) (h : Assembled e) (hgd : e.gammadet = gammadet e)
    (hu : e.gammaup3 = gammaup3 e) (ha : e.alpha ≠ 0) (hdet : gammadet e ≠ 0) (hg4 : e.gup4 = gup4 e) :
    GupSplit e := by
  have H := C04L.gup4_3p1 e h hgd hu ha hdet
  rw [← hg4] at H
  exact ⟨H.h00, H.h0i, H.hij⟩

/-- over an ordered field, `√(−g) = α √γ` follows from `(sqrtF x)² = x`, `sqrtF x ≥ 0` at the two arguments,
`α > 0` and `g = −α² det γ`. -/
theorem sqrt_split_of_ordered {F : Type} [Field F] [LinearOrder F] [IsStrictOrderedRing F] (e : Env F)
    (ha : 0 < e.alpha) (hgdet : e.gdet = gdet__dflt e)
    (h1 : e.sqrtF (-e.gdet) * e.sqrtF (-e.gdet) = -e.gdet) (p1 : 0 ≤ e.sqrtF (-e.gdet))
    (h2 : e.sqrtF e.gammadet * e.sqrtF e.gammadet = e.gammadet) (p2 : 0 ≤ e.sqrtF e.gammadet) :
    e.sqrtF (-e.gdet) = e.alpha * e.sqrtF e.gammadet :=
  C05L.sqrt_split_of_ordered e ha hgdet h1 p1 h2 p2

/-! ## T12 (BSSNOK): conformal decomposition of the Ricci tensor — Lemmas/C05Conf.lean -/

/-- `ConfRules e` (Leibniz expansion of `∂_cΓ̃^k_ij` for `Γ̃ = Γ − 2(δ∂φ + δ∂φ − γγ⁻¹∂φ)`, commuting second
derivatives of φ) holds for a derivation with commuting partial derivatives when `s_Gamma_udd3_bssnok` is the code's. -/
theorem confRules_of_deriv (e : Env K) (hD : Deriv e.D) (hc : DComm e.D)
    (hB : e.s_Gamma_udd3_bssnok = s_Gamma_udd3_bssnok e) : ConfRules e := C05L.confRules_of_deriv e hD hc hB

/-- `ConfWeights e` (`γ̃_ij γ̃^{kl} = γ_ij γ^{kl}`) holds for the code's conformal metric and inverse when ψ ≠ 0. -/
theorem conf_weights_of_code (e : Env K) (hpsi : e.psi_bssnok ≠ 0) (hgd : e.gammadown3_bssnok = gammadown3_bssnok e)
    (hgu : e.gammaup3_bssnok = gammaup3_bssnok e) : ConfWeights e := C05L.conf_weights_of_code e hpsi hgd hgu

/-- **`R_ij = Ricci(Γ̃)_ij + R^φ_ij`**: the code's default `s_Ricci_down3` (from the physical connection) equals the
Ricci tensor `R̃^a_{iaj}` of the code's conformal connection `s_Gamma_udd3_bssnok` ((2.8.14)) plus the code's
`s_Ricci_down3_phi` ((2.8.18)).  Layer B (`ConfRules`, `ProdRuleInv`); `ConfWeights` is algebraic. -/
theorem ricci_conformal_split (e : Env K) (h : MetricOK e) (h2 : (2 : K) ≠ 0) (hp : ProdRuleInv e)
    (hB : e.s_Gamma_udd3_bssnok = s_Gamma_udd3_bssnok e) (hW : ConfWeights e) (hr : ConfRules e) (b d : Fin 3) :
    s_Ricci_down3__dflt e b d
      = ricci (riemann e.D e.s_Gamma_udd3_bssnok) b d + s_Ricci_down3_phi e b d :=
  C05L.ricci_conformal_split e h h2 hp hB hW hr b d

/-! ## Non-vacuity -/

/-! ### T9: the conformally flat point `ex` of Props/C05.lean (γ = 2δ, γ⁻¹ = ½δ, `D 2 = 4`, `D ½ = −1`, `D 4 = 16`)
with the test tensor `t = 2` (all components, growing like `∂t = 4`): `γ·t = 4` (`∂ = 16 = 4·2 + 2·4`),
`γ⁻¹·t = 1` (`∂ = 0 = −1·2 + ½·4`). -/

theorem ex_D : ex.D = fun _ x => exD x := rfl
theorem ex_gd : ex.gammadown3 = vec3 (vec3 2 0 0) (vec3 0 2 0) (vec3 0 0 2) := rfl
theorem ex_gu : ex.gammaup3 = vec3 (vec3 (1 / 2) 0 0) (vec3 0 (1 / 2) 0) (vec3 0 0 (1 / 2)) := rfl
theorem ex_G : ex.s_Gamma_udd3 = s_Gamma_udd3 ex0 := rfl
theorem ex0_D : ex0.D = fun _ x => exD x := rfl
theorem ex0_gd : ex0.gammadown3 = vec3 (vec3 2 0 0) (vec3 0 2 0) (vec3 0 0 2) := rfl
theorem ex0_gu : ex0.gammaup3 = vec3 (vec3 (1 / 2) 0 0) (vec3 0 (1 / 2) 0) (vec3 0 0 (1 / 2)) := rfl

macro "ex_simp" : tactic =>
  `(tactic| simp only [ex_D, ex_gd, ex_gu, ex_G, ex0_D, ex0_gd, ex0_gu, exD, con1, conL, conR, core_unfold,
      Fin.sum_univ_three])

example : MetricOK ex ∧ (2 : ℚ) ≠ 0 ∧ ProdRuleInv ex
    ∧ ProdRule1 ex.D ex.gammadown3 (fun _ => 2)
    ∧ ProdRuleL ex.D ex.gammadown3 (fun _ _ => 2) ∧ ProdRuleR ex.D ex.gammadown3 (fun _ _ => 2)
    ∧ ProdRuleL ex.D ex.gammaup3 (fun _ _ => 2) ∧ ProdRuleR ex.D ex.gammaup3 (fun _ _ => 2) := by
  refine ⟨ex_metricOK, by norm_num, ?_, ?_, ?_, ?_, ?_, ?_⟩
  · cases3 <;> cases3 <;> cases3 <;> (ex_simp; norm_num)
  · cases3 <;> cases3 <;> (ex_simp; norm_num)
  · cases3 <;> cases3 <;> cases3 <;> (ex_simp; norm_num)
  · cases3 <;> cases3 <;> cases3 <;> (ex_simp; norm_num)
  · cases3 <;> cases3 <;> cases3 <;> (ex_simp; norm_num)
  · cases3 <;> cases3 <;> cases3 <;> (ex_simp; norm_num)

/-- the conclusions are not `0 = 0`: `D_0 (γ t)_{00} = 16 − 2·Γ^m_{00}·4 = 16 − 8·(1 − 1 − 1)`. -/
example : s_covd_dd ex (conL ex.gammadown3 (fun _ _ => 2)) 0 0 0 = 24 := by
  ex_simp; norm_num

/-! ### T12: a curved point.  `γ = diag(1, F, 1)` with `F = F(x)`, `F = 2`, `F' = 3`, `F'' = 5` at the point:
`∂_x` acts on values by the table `2 ↦ 3` (γ_yy), `3 ↦ 5` (∂_xγ_yy), `−3/2 ↦ −5/2` (Γ^x_yy = −F'/2),
`3/2 ↦ 5/2` (Γ_yxy = F'/2), `3/4 ↦ 1/8` (Γ^y_xy = F'/(2F), `(F'/2F)' = F''/2F − F'²/2F² = 1/8`), `∂_y = ∂_z = 0`.
`R^x_{yxy} = −F''/2 + F'²/(4F) = −11/8 ≠ 0`. -/

def exDR (i : Fin 3) (x : ℚ) : ℚ :=
  vec3 (if x = 2 then 3 else if x = 3 then 5 else if x = -3 / 2 then -5 / 2 else if x = 3 / 2 then 5 / 2
     else if x = 3 / 4 then 1 / 8 else 0) 0 0 i

def exR0 : Env ℚ :=
  { (Env.zero : Env ℚ) with
    D := exDR,
    gammadown3 := vec3 (vec3 1 0 0) (vec3 0 2 0) (vec3 0 0 1),
    gammaup3 := vec3 (vec3 1 0 0) (vec3 0 (1 / 2) 0) (vec3 0 0 1) }
def exR1 : Env ℚ := { exR0 with s_Gamma_udd3 := s_Gamma_udd3 exR0 }
def exR2 : Env ℚ := { exR1 with s_Riemann_uddd3 := s_Riemann_uddd3 exR1 }
def exR : Env ℚ := { exR2 with s_Riemann_down3 := s_Riemann_down3 exR2 }

/-! projections of the example environments (by `rfl`, so that no tactic has to look inside the cached tensors) -/
theorem exR_D : exR.D = exDR := rfl
theorem exR_gd : exR.gammadown3 = vec3 (vec3 1 0 0) (vec3 0 2 0) (vec3 0 0 1) := rfl
theorem exR_gu : exR.gammaup3 = vec3 (vec3 1 0 0) (vec3 0 (1 / 2) 0) (vec3 0 0 1) := rfl
theorem exR_G : exR.s_Gamma_udd3 = s_Gamma_udd3 exR0 := rfl
theorem exR_Ru : exR.s_Riemann_uddd3 = s_Riemann_uddd3 exR1 := rfl
theorem exR_Rd : exR.s_Riemann_down3 = s_Riemann_down3 exR2 := rfl
theorem exR2_gd : exR2.gammadown3 = vec3 (vec3 1 0 0) (vec3 0 2 0) (vec3 0 0 1) := rfl
theorem exR2_Ru : exR2.s_Riemann_uddd3 = s_Riemann_uddd3 exR1 := rfl
theorem exR1_D : exR1.D = exDR := rfl
theorem exR1_G : exR1.s_Gamma_udd3 = s_Gamma_udd3 exR0 := rfl
theorem exR0_D : exR0.D = exDR := rfl
theorem exR0_gd : exR0.gammadown3 = vec3 (vec3 1 0 0) (vec3 0 2 0) (vec3 0 0 1) := rfl
theorem exR0_gu : exR0.gammaup3 = vec3 (vec3 1 0 0) (vec3 0 (1 / 2) 0) (vec3 0 0 1) := rfl

/-- unfold everything about `exR` down to rational numbers. -/
macro "exR_simp" : tactic =>
  `(tactic| simp only [exR_Rd, exR_Ru, exR2_Ru, exR_D, exR_gd, exR_gu, exR_G, exR2_gd, exR1_D, exR1_G, exR0_D, exR0_gd,
      exR0_gu, exDR, christoffel1, delta, core_unfold, Fin.sum_univ_three])

theorem exR_metricOK : MetricOK exR := by
  refine ⟨?_, ?_, ?_, ?_⟩
  · cases3 <;> cases3 <;> exR_simp
  · cases3 <;> cases3 <;> exR_simp
  · cases3 <;> cases3 <;> (exR_simp; norm_num <;> decide)
  · funext i k l; revert i k l
    cases3 <;> cases3 <;> cases3 <;> exR_simp

set_option maxHeartbeats 1000000 in
theorem exR_curvRules : CurvRules exR := by
  refine ⟨?_, ?_, ?_⟩
  · cases3 <;> cases3 <;> cases3 <;> cases3 <;> (exR_simp; norm_num)
  · cases3 <;> cases3 <;> cases3 <;> cases3 <;> (exR_simp; norm_num)
  · cases3 <;> cases3 <;> cases3 <;> cases3 <;> (exR_simp; try norm_num)

set_option maxHeartbeats 1000000 in
/-- all hypotheses of the T12 theorems hold at `exR`, and the curvature does not vanish there. -/
example : MetricOK exR ∧ (2 : ℚ) ≠ 0 ∧ SymLow exR.s_Gamma_udd3 ∧ exR.s_Riemann_uddd3 = s_Riemann_uddd3 exR
    ∧ exR.s_Riemann_down3 = s_Riemann_down3 exR ∧ CurvRules exR
    ∧ s_Riemann_uddd3 exR 0 1 0 1 = -11 / 8 ∧ s_Riemann_down3 exR 0 1 0 1 = -11 / 8
    ∧ s_Ricci_down3__dflt exR 1 1 = -11 / 8 := by
  refine ⟨exR_metricOK, by norm_num, ?_, ?_, ?_, exR_curvRules, ?_, ?_, ?_⟩
  · rw [exR_metricOK.hG]; exact C05L.s_Gamma_udd3_symm exR
  · funext a b c d; revert a b c d
    cases3 <;> cases3 <;> cases3 <;> cases3 <;> exR_simp
  · funext a b c d; revert a b c d
    cases3 <;> cases3 <;> cases3 <;> cases3 <;> exR_simp
  · exR_simp; norm_num
  · exR_simp; norm_num
  · exR_simp; norm_num

/-! ### T11: `γ = diag(4,1,1)` with `∂_xγ_xx = 8`, `√γ = 2` (`∂_x√γ = 2`), `v = (3,0,0)` with `∂_x v^x = 1`:
table `4 ↦ 8`, `2 ↦ 2`, `3 ↦ 1`, `6 ↦ 8` for `∂_x`; `s_div = 1 + ½·¼·8·3 = 4 = ½·∂_x(2·3)`. -/

def exDV (i : Fin 3) (x : ℚ) : ℚ :=
  vec3 (if x = 4 then 8 else if x = 2 then 2 else if x = 3 then 1 else if x = 6 then 8 else 0) 0 0 i

def exV0 : Env ℚ :=
  { (Env.zero : Env ℚ) with
    D := exDV, sqrtF := fun x => if x = 4 then 2 else 0, gammadet := 4,
    gammadown3 := vec3 (vec3 4 0 0) (vec3 0 1 0) (vec3 0 0 1),
    gammaup3 := vec3 (vec3 (1 / 4) 0 0) (vec3 0 1 0) (vec3 0 0 1) }
def exV : Env ℚ := { exV0 with s_Gamma_udd3 := s_Gamma_udd3 exV0 }

example : MetricOK exV ∧ DivRules exV (vec3 3 0 0) ∧ exV.gammadet = gammadet exV ∧ exV.gammaup3 = gammaup3 exV
    ∧ gammadet exV ≠ 0 ∧ s_div_u exV (vec3 3 0 0) = 4 := by
  refine ⟨⟨?_, ?_, ?_, ?_⟩, ⟨?_, ?_, ?_, ?_, ?_⟩, ?_, ?_, ?_, ?_⟩
  · cases3 <;> cases3 <;> (simp only [exV, exV0, core_unfold])
  · cases3 <;> cases3 <;> (simp only [exV, exV0, core_unfold])
  · cases3 <;> cases3 <;> (simp only [exV, exV0, core_unfold, delta, Fin.sum_univ_three]; norm_num <;> decide)
  · funext i k l; revert i k l
    cases3 <;> cases3 <;> cases3 <;> (simp only [exV, exV0, core_unfold])
  · simp only [exV, exV0]; norm_num
  · simp only [exV, exV0]; norm_num
  · cases3 <;> (simp only [exV, exV0, exDV, core_unfold]; norm_num)
  · cases3 <;> (simp only [exV, exV0, exDV, trDgamma, core_unfold, Fin.sum_univ_three]; norm_num)
  · cases3 <;> (simp only [exV, exV0, exDV, core_unfold]; norm_num)
  · simp only [exV, exV0, core_unfold]; norm_num
  · funext i j; revert i j; cases3 <;> cases3 <;> (simp only [exV, exV0, core_unfold]; norm_num)
  · simp only [exV, exV0, core_unfold]; norm_num
  · simp only [exV, exV0, exDV, core_unfold]; norm_num

/-! ### curl: the assembled point `C08.exEnv` (lapse 2, shift (1,0,0), sheared unimodular γ), `√γ = 1`,
`√(−g) = √4 = 2 = α√γ`; `gup4`, `nup4` produced by the code's formulas. -/

def exSqrt (x : ℚ) : ℚ := if x = 1 then 1 else if x = 4 then 2 else 0

def exC0 : Env ℚ :=
  { C08.exEnv with
    gammadet := 1, gdet := -4, sqrtF := exSqrt,
    gammaup3 := vec3 (vec3 2 (-1) 0) (vec3 (-1) 1 0) (vec3 0 0 1) }
def exC : Env ℚ := { exC0 with gup4 := gup4 exC0, nup4 := nup4 exC0 }

theorem exC_alpha : exC.alpha = 2 := rfl
theorem exC_beta : exC.betaup3 = vec3 1 0 0 := rfl
theorem exC_gd : exC.gammadown3 = vec3 (vec3 1 1 0) (vec3 1 2 0) (vec3 0 0 1) := rfl
theorem exC_gu : exC.gammaup3 = vec3 (vec3 2 (-1) 0) (vec3 (-1) 1 0) (vec3 0 0 1) := rfl
theorem exC_bd : exC.betadown3 = vec3 1 1 0 := rfl
theorem exC_bm : exC.betamag = 1 := rfl
theorem exC_gtt : exC.gtt = -3 := rfl
theorem exC_g4 : exC.gdown4 = vec4 (vec4 (-3) 1 1 0) (vec4 1 1 1 0) (vec4 1 1 2 0) (vec4 0 0 0 1) := rfl
theorem exC_gdet : exC.gdet = -4 := rfl
theorem exC_gammadet : exC.gammadet = 1 := rfl
theorem exC_sqrt : exC.sqrtF = exSqrt := rfl
theorem exC_gup4 : exC.gup4 = gup4 exC0 := rfl
theorem exC_nup4 : exC.nup4 = nup4 exC0 := rfl
theorem exC0_alpha : exC0.alpha = 2 := rfl
theorem exC0_beta : exC0.betaup3 = vec3 1 0 0 := rfl
theorem exC0_g4 : exC0.gdown4 = vec4 (vec4 (-3) 1 1 0) (vec4 1 1 1 0) (vec4 1 1 2 0) (vec4 0 0 0 1) := rfl

macro "exC_simp" : tactic =>
  `(tactic| simp only [exC_gup4, exC_nup4, exC_alpha, exC_beta, exC_gd, exC_gu, exC_bd, exC_bm, exC_gtt, exC_g4, exC_gdet,
      exC_gammadet, exC_sqrt, exC0_alpha, exC0_beta, exC0_g4, exSqrt, eps3UUD, core_unfold, Fin.sum_univ_three])

set_option maxHeartbeats 1000000 in
theorem exC_hyps : Assembled exC ∧ exC.gammadet = gammadet exC ∧ exC.gammaup3 = gammaup3 exC ∧ exC.alpha ≠ 0
    ∧ gammadet exC ≠ 0 ∧ exC.gup4 = gup4 exC ∧ exC.nup4 = nup4 exC
    ∧ exC.sqrtF (-exC.gdet) = exC.alpha * exC.sqrtF exC.gammadet := by
  refine ⟨⟨?_, ?_, ?_, ?_, ?_⟩, ?_, ?_, ?_, ?_, ?_, ?_, ?_⟩
  · funext i; revert i; cases3 <;> (exC_simp; norm_num)
  · exC_simp; norm_num
  · exC_simp; norm_num
  · funext i j; revert i j; cases4 <;> cases4 <;> exC_simp
  · cases3 <;> cases3 <;> exC_simp
  · exC_simp; norm_num
  · funext i j; revert i j; cases3 <;> cases3 <;> (exC_simp; norm_num)
  · exC_simp; norm_num
  · exC_simp; norm_num
  · funext i j; revert i j; cases4 <;> cases4 <;> exC_simp
  · funext i; revert i; cases4 <;> exC_simp
  · exC_simp; norm_num

/-- hypotheses of `LCuud3_spatial` / `s_curl_dd_spatial` / `gupSplit_of_code` hold at `exC`; the tensor is not zero. -/
example : GupSplit exC ∧ exC.nup4 = nup4 exC ∧ exC.alpha ≠ 0
    ∧ exC.sqrtF (-exC.gdet) = exC.alpha * exC.sqrtF exC.gammadet
    ∧ eps3UUD exC.gammaup3 (levicivita_down3 exC) 0 1 2 = 1 := by
  obtain ⟨hA, hgd, hu, ha, hd, hg4, hn, hsq⟩ := exC_hyps
  refine ⟨gupSplit_of_code exC hA hgd hu ha hd hg4, hn, ha, hsq, ?_⟩
  exC_simp; norm_num

/-- hypotheses of `sqrt_split_of_ordered` at `exC` (ℚ is an ordered field). -/
example : 0 < exC.alpha ∧ exC.gdet = gdet__dflt exC
    ∧ exC.sqrtF (-exC.gdet) * exC.sqrtF (-exC.gdet) = -exC.gdet ∧ 0 ≤ exC.sqrtF (-exC.gdet)
    ∧ exC.sqrtF exC.gammadet * exC.sqrtF exC.gammadet = exC.gammadet ∧ 0 ≤ exC.sqrtF exC.gammadet := by
  refine ⟨?_, ?_, ?_, ?_, ?_, ?_⟩ <;> (exC_simp; norm_num)

/-! ### T12 (BSSNOK): conformally flat point `γ = 2δ` (`∂γ = 4`), `γ⁻¹ = ½δ` (`∂γ⁻¹ = −1`), `γ̃ = δ`, `φ = 5` with
`∂_iφ = 3`, `∂_i∂_jφ = 7`; `Γ^i_kl = δ_il + δ_ik − δ_kl ∈ {1, −1, 0}`, `Γ̃ = Γ − 6(δ_ki + δ_kj − δ_ij) ∈ {−5, 5, 0}`;
table (all axes): `2 ↦ 4`, `½ ↦ −1`, `5 ↦ 3`, `3 ↦ 7`, `−1 ↦ −11`, `−5 ↦ −14`. -/

def exDF (x : ℚ) : ℚ :=
  if x = 2 then 4 else if x = 1 / 2 then -1 else if x = 5 then 3 else if x = 3 then 7 else if x = -1 then -11
  else if x = -5 then -14 else 0

def exF0 : Env ℚ :=
  { (Env.zero : Env ℚ) with
    D := fun _ x => exDF x, phi_bssnok := 5,
    gammadown3 := vec3 (vec3 2 0 0) (vec3 0 2 0) (vec3 0 0 2),
    gammaup3 := vec3 (vec3 (1 / 2) 0 0) (vec3 0 (1 / 2) 0) (vec3 0 0 (1 / 2)),
    gammadown3_bssnok := vec3 (vec3 1 0 0) (vec3 0 1 0) (vec3 0 0 1),
    gammaup3_bssnok := vec3 (vec3 1 0 0) (vec3 0 1 0) (vec3 0 0 1) }
def exF1 : Env ℚ := { exF0 with s_Gamma_udd3 := s_Gamma_udd3 exF0 }
def exF : Env ℚ := { exF1 with s_Gamma_udd3_bssnok := s_Gamma_udd3_bssnok exF1 }

theorem exF_D : exF.D = fun _ x => exDF x := rfl
theorem exF_phi : exF.phi_bssnok = 5 := rfl
theorem exF_gd : exF.gammadown3 = vec3 (vec3 2 0 0) (vec3 0 2 0) (vec3 0 0 2) := rfl
theorem exF_gu : exF.gammaup3 = vec3 (vec3 (1 / 2) 0 0) (vec3 0 (1 / 2) 0) (vec3 0 0 (1 / 2)) := rfl
theorem exF_gtd : exF.gammadown3_bssnok = vec3 (vec3 1 0 0) (vec3 0 1 0) (vec3 0 0 1) := rfl
theorem exF_gtu : exF.gammaup3_bssnok = vec3 (vec3 1 0 0) (vec3 0 1 0) (vec3 0 0 1) := rfl
theorem exF_G : exF.s_Gamma_udd3 = s_Gamma_udd3 exF0 := rfl
theorem exF_Gt : exF.s_Gamma_udd3_bssnok = s_Gamma_udd3_bssnok exF1 := rfl
theorem exF1_D : exF1.D = fun _ x => exDF x := rfl
theorem exF1_phi : exF1.phi_bssnok = 5 := rfl
theorem exF1_gd : exF1.gammadown3 = vec3 (vec3 2 0 0) (vec3 0 2 0) (vec3 0 0 2) := rfl
theorem exF1_gu : exF1.gammaup3 = vec3 (vec3 (1 / 2) 0 0) (vec3 0 (1 / 2) 0) (vec3 0 0 (1 / 2)) := rfl
theorem exF1_G : exF1.s_Gamma_udd3 = s_Gamma_udd3 exF0 := rfl
theorem exF0_D : exF0.D = fun _ x => exDF x := rfl
theorem exF0_gd : exF0.gammadown3 = vec3 (vec3 2 0 0) (vec3 0 2 0) (vec3 0 0 2) := rfl
theorem exF0_gu : exF0.gammaup3 = vec3 (vec3 (1 / 2) 0 0) (vec3 0 (1 / 2) 0) (vec3 0 0 (1 / 2)) := rfl

macro "exF_simp" : tactic =>
  `(tactic| simp only [exF_Gt, exF_G, exF_D, exF_phi, exF_gd, exF_gu, exF_gtd, exF_gtu, exF1_D, exF1_phi, exF1_gd, exF1_gu,
      exF1_G, exF0_D, exF0_gd, exF0_gu, exDF, uVec, delta, core_unfold, Fin.sum_univ_three, Fin.isValue, Fin.reduceEq,
      ↓reduceIte, if_true, if_false])

set_option maxHeartbeats 1000000 in
/-- all hypotheses of `ricci_conformal_split` hold at `exF`; `Γ̃^0_{00} = −5`, `D̃_0D̃_0φ = 7 − 3·5 = −8`, `R^φ_{00} = 16 + 48 + 36 − 108 = −8`. -/
example : MetricOK exF ∧ (2 : ℚ) ≠ 0 ∧ ProdRuleInv exF ∧ exF.s_Gamma_udd3_bssnok = s_Gamma_udd3_bssnok exF
    ∧ ConfWeights exF ∧ ConfRules exF ∧ exF.s_Gamma_udd3_bssnok 0 0 0 = -5 ∧ s_Ricci_down3_phi exF 0 0 = -8 := by
  refine ⟨⟨?_, ?_, ?_, ?_⟩, by norm_num, ?_, ?_, ?_, ⟨?_, ?_⟩, ?_, ?_⟩
  · cases3 <;> cases3 <;> exF_simp
  · cases3 <;> cases3 <;> exF_simp
  · cases3 <;> cases3 <;> (exF_simp; norm_num)
  · funext i k l; revert i k l; cases3 <;> cases3 <;> cases3 <;> exF_simp
  · cases3 <;> cases3 <;> cases3 <;> (exF_simp; norm_num)
  · funext i k l; revert i k l; cases3 <;> cases3 <;> cases3 <;> exF_simp
  · cases3 <;> cases3 <;> cases3 <;> cases3 <;> (exF_simp; try norm_num)
  · intro i j; exF_simp
  · cases3 <;> cases3 <;> cases3 <;> cases3 <;> (exF_simp; norm_num)
  · exF_simp; norm_num
  · exF_simp; norm_num

/-- hypotheses of `conf_weights_of_code`: ψ = 2, `γ̃ = ψ⁻⁴γ`, `γ̃⁻¹ = ψ⁴γ⁻¹` by the code's formulas. -/
def exW0 : Env ℚ :=
  { (Env.zero : Env ℚ) with
    psi_bssnok := 2,
    gammadown3 := vec3 (vec3 2 0 0) (vec3 0 2 0) (vec3 0 0 2),
    gammaup3 := vec3 (vec3 (1 / 2) 0 0) (vec3 0 (1 / 2) 0) (vec3 0 0 (1 / 2)) }
def exW : Env ℚ := { exW0 with gammadown3_bssnok := gammadown3_bssnok exW0, gammaup3_bssnok := gammaup3_bssnok exW0 }

example : exW.psi_bssnok ≠ 0 ∧ exW.gammadown3_bssnok = gammadown3_bssnok exW
    ∧ exW.gammaup3_bssnok = gammaup3_bssnok exW ∧ exW.gammadown3_bssnok 0 0 = 1 / 8 := by
  refine ⟨?_, ?_, ?_, ?_⟩
  · simp only [exW, exW0]; norm_num
  · funext i j; revert i j; cases3 <;> cases3 <;> (simp only [exW, exW0, core_unfold])
  · funext i j; revert i j; cases3 <;> cases3 <;> (simp only [exW, exW0, core_unfold])
  · simp only [exW, exW0, core_unfold]; norm_num

/-- `DComm` is satisfiable together with `Deriv` (zero derivation on ℚ, the only one; the Layer-B theorems use the
`CurvRules` / `DivRules` / `ProdRule*` instances, satisfied by the non-zero tables above). -/
example : Deriv (fun (_ : Fin 3) (_ : ℚ) => (0 : ℚ)) ∧ DComm (fun (_ : Fin 3) (_ : ℚ) => (0 : ℚ)) :=
  ⟨⟨fun _ _ _ => by simp, fun _ _ _ => by simp⟩, fun _ _ _ => rfl⟩

end AurelVerif.C05
