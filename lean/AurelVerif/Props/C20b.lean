/-
Props/C20b.lean — second part of the property theorems for C20 (spin-weighted
harmonics and sphere extraction): CONTINUOUS orthonormality, the exact
structure of the DISCRETE Gram matrix on the grid of `Psi4_lm`, spin 0 for all
degrees, and the linear `RegularGridInterpolator`.  ONLY property statements
and non-vacuity examples; proofs in Lemmas/C20Beta, C20GramZ, C20Ortho,
C20OrthoTable*, C20Quad, C20Spin0Poly, C20Spin0, C20Interp.

Models: Model/Harm.lean (`sYlmC` = the value `maths.sYlm` computes, over ℝ/ℂ;
tied to the code by the correspondence of tools/props/C20.py) and
Model/Interp.lean (scipy's linear RegularGridInterpolator as aurel calls it;
tied EXACTLY on dyadic data by `corr_interp`).

What is covered, and what is NOT:
  * orthonormality over the sphere (`contGram`, iterated interval integrals
    ∫_0^π ∫_0^{2π} … sin θ dφ dθ):
      – in `m`:     all integers s, l, l', m ≠ m'                    (T8, no bound)
      – in `l`:     |s| ≤ 2 and l, l' ≤ 12 ONLY                      (T9, kernel table)
      – norm 1:     |s| ≤ 2, l ≤ 12; and for ALL l ≥ |s| at m = ±l   (T9, T10)
      – closed form of every inner product for ALL integers as an explicit
        rational double sum (T8) — orthogonality in `l` for l > 12 is that sum
        being zero, which is NOT proven in this file: Props/C20c.lean (T18)
        proves it for ALL integers by a different route.
  * the discrete Gram matrix on the code's grid is EXACTLY
      δ_{mm'} · (continuous value + θ-midpoint quadrature error)      (T11, T12)
    and the midpoint rule is not exact: ‖₀Y₀₀‖²_grid = (π/2M)/sin(π/2M) > 1,
    so `DiscreteOrthonormal` is false on the code's grid at every resolution (T14);
    `roundtrip_partial`'s hypothesis is reduced to a statement on the θ rule alone
    and the round-trip defect is given in closed form (T13).
    NOT proven in this file: a bound O(1/N²) on `thetaDefect` (only its closed form
    for the individual sine modes, T15) — see Props/C20c.lean (T20, T21).
  * spin 0 = (−1)^m × standard Y_lm for ALL l (T16; Props/C20.lean had l ≤ 4).
  * linear interpolation (T17): exact at nodes, exact on trilinear fields
    (everywhere), convex inside the grid.  Other `method`s of scipy are not modelled.
-/
import AurelVerif.Props.C20
import AurelVerif.Lemmas.C20QuadS2
import AurelVerif.Lemmas.C20Spin0
import AurelVerif.Lemmas.C20Interp

namespace AurelVerif.C20
open AurelVerif.Harm AurelVerif.HarmSpec AurelVerif.HarmLemmas AurelVerif.HarmGram Complex
open scoped Real ComplexConjugate

/-! ### continuous orthonormality -/

/-- **T7** the two analytic ingredients, in general:
(a) `∫_0^{2π} e^{i d φ} dφ = 2π δ_{d0}` for every integer `d`;
(b) the half-angle Beta integral
`∫_0^π cos(θ/2)^{2p} sin(θ/2)^{2q} sin θ dθ = 2 p! q!/(p+q+1)!` for all `p, q`. -/
theorem sphere_integrals :
    (∀ d : Int, ∫ φ in (0 : ℝ)..(2 * π), exp (I * (d : ℂ) * (φ : ℂ)) = if d = 0 then 2 * (π : ℂ) else 0)
    ∧ (∀ p q : ℕ, ∫ θ in (0 : ℝ)..π, Real.cos (θ / 2) ^ (2 * p) * Real.sin (θ / 2) ^ (2 * q) * Real.sin θ
        = 2 * (p.factorial : ℝ) * (q.factorial : ℝ) / ((p + q + 1).factorial : ℝ)) :=
  ⟨phi_integral, halfAngle_beta⟩

/-- **T8** closed form of EVERY continuous inner product, for ALL integers
`s, l, m, l', m'` (no bound on the degrees):
`∫_0^π∫_0^{2π} conj(ₛY_lm) ₛY_l'm' sin θ dφ dθ`
` = δ_{mm'} · √(R_{slm}/π) · √(R_{sl'm}/π) · 2π · 2·Z/(l+l'+1)!`
with the explicit INTEGER `Z = thetaGramZ s l m l' = Σ_{r,r'} coef_r coef_r' p! q!`
(`2p`, `2q` the total exponents of `cos(θ/2)`, `sin(θ/2)` in the product of the
two summands).  In particular harmonics with different `m` are orthogonal for
all degrees. -/
theorem continuous_gram_closed_form (s l m l' m' : Int) :
    contGram s l m l' m' =
      if m = m' then
        ((Real.sqrt (((normRadicand s l m : ℚ) : ℝ) / π) * Real.sqrt (((normRadicand s l' m : ℚ) : ℝ) / π)
          * (2 * π) * (2 * ((thetaGramZ s l m l' : ℤ) : ℝ) / (((l + l').toNat + 1).factorial : ℝ)) : ℝ) : ℂ)
      else 0 := by
  rw [contGram_eq]
  unfold gramR
  rw [thetaInt_eq]

/-- **T9** ORTHONORMALITY over the sphere, covering `|s| ≤ 2` and degrees
`l, l' ≤ 12` ONLY (kernel-decided integer table `tableOK 12` lifted by T8; the
default `lmax` of `Psi4_lm` is 8): for any integers `m, m'` the inner product of
`ₛY_lm` and `ₛY_l'm'` is `1` if `(l, m) = (l', m')` is an admissible mode
(`|s| ≤ l`, `|m| ≤ l`) and `0` otherwise (in particular `0` for the identically
vanishing `l < |s|`, `|m| > l`). -/
theorem orthonormal_upto_12 (s l m l' m' : Int) (hs : |s| ≤ 2) (hl : l ≤ 12) (hl' : l' ≤ 12) :
    contGram s l m l' m' = if l = l' ∧ m = m' ∧ |s| ≤ l ∧ |m| ≤ l then 1 else 0 :=
  contGram_of_table tableOK_12 s l m l' m' hs hl hl'

/-- **T10** infinite families without a table: the extreme orders `m = ±l` have
norm 1 for EVERY spin and EVERY degree `l ≥ |s|`; and all inner products are
invariant under `(s, m, m') → (−s, −m, −m')`. -/
theorem norm_extreme_orders_all_l (s l : Int) (hs : |s| ≤ l) :
    contGram s l l l l = 1 ∧ contGram s l (-l) l (-l) = 1
    ∧ ∀ l' m m', contGram (-s) l (-m) l' (-m') = contGram s l m l' m' :=
  ⟨contGram_top s l hs, contGram_bottom s l hs, fun l' m m' => contGram_neg s l m l' m'⟩

/-! ### the discrete Gram matrix on the grid of `Psi4_lm` -/

/-- **T11** for ALL `s, l, l'` and `|m − m'| ≤ Nφ = 2 Ntheta`: on the code's grid
the φ sum is exact, so the discrete inner product is `δ_{mm'}` times the θ
MIDPOINT sum of the integrand of T8, and differs from the continuous inner
product exactly by the θ-midpoint quadrature error `thetaDefect`
` = √(R/π)√(R'/π)·2π·(Σ_j g(θ_j) Δθ − ∫_0^π g)`, `g = (Σ_r…)(Σ_r'…) sin θ`. -/
theorem grid_gram_is_theta_midpoint (s : Int) (N : Nat) (l m l' m' : Int)
    (hd : |m' - m| ≤ ((nPhi N : Nat) : Int)) :
    gridGram s N l m l' m' = (if m = m' then ((gridR s N l m l' : ℝ) : ℂ) else 0)
    ∧ gridGram s N l m l' m'
        = contGram s l m l' m' + (if m = m' then ((thetaDefect s N l m l' : ℝ) : ℂ) else 0) :=
  ⟨gridGram_eq s N l m l' m' hd, gridGram_eq_contGram_add s N l m l' m' hd⟩

/-- **T12** with T9 (`|s| ≤ 2`, `l, l' ≤ 12` only): discrete Gram matrix =
identity on admissible modes + θ-midpoint error on pairs of equal `m`. -/
theorem grid_gram_defect (s : Int) (N : Nat) (l m l' m' : Int) (hs : |s| ≤ 2)
    (hl : l ≤ 12) (hl' : l' ≤ 12) (hd : |m' - m| ≤ ((nPhi N : Nat) : Int)) :
    gridGram s N l m l' m'
      = (if l = l' ∧ m = m' ∧ |s| ≤ l ∧ |m| ≤ l then 1 else 0)
        + if m = m' then ((thetaDefect s N l m l' : ℝ) : ℂ) else 0 :=
  gridGram_defect s N l m l' m' hs hl hl' hd

/-- **T13** round trip on the concrete index types (keys `modes lmax` of the
coefficient dictionary, nodes of the grid with `Ntheta = N`, harmonics `gridY`,
weights `gridW = sin θ_j Δθ Δφ`), for `|s| ≤ 2`, `lmax ≤ 12`, `lmax ≤ N` (the code
has `Ntheta ≥ lmax + 1`):
(a) `sYlm_coefficients ∘ sYlm_reconstruct` returns for the key `(l, m)`:
`a_{lm}` (`0` if `l < |s|`) `+ Σ_{l'} thetaDefect(l, m, l') · a_{l'm}` — only
coefficients of the same `m` mix, through the θ-midpoint error alone;
(b) hence the hypothesis of `roundtrip_partial` is reduced to the θ rule: if the
midpoint sums equalled the integrals for the pairs of the band, the round trip
would be exact. -/
theorem roundtrip_defect_closed_form (s : Int) (lmax N : Nat) (hs : |s| ≤ 2) (hL : lmax ≤ 12) (hN : lmax ≤ N)
    (a : ModeIdx lmax → ℂ) :
    (∀ i : ModeIdx lmax,
      coeffs (gridY s lmax N) (gridW N) (recon (gridY s lmax N) a) i
        = (if |s| ≤ i.1.1 then a i else 0)
          + ∑ j, (if i.1.2 = j.1.2 then ((thetaDefect s N i.1.1 i.1.2 j.1.1 : ℝ) : ℂ) else 0) * a j)
    ∧ ((∀ i j : ModeIdx lmax, i.1.2 = j.1.2 →
          thetaMid s N i.1.1 i.1.2 j.1.1 = thetaInt s i.1.1 i.1.2 j.1.1) →
        ∀ i : ModeIdx lmax,
          coeffs (gridY s lmax N) (gridW N) (recon (gridY s lmax N) a) i = if |s| ≤ i.1.1 then a i else 0) :=
  ⟨fun i => roundtrip_defect s lmax N hs hL hN a i,
   fun hθ i => roundtrip_of_theta_exact s lmax N hs hL hN hθ a i⟩

/-- **T14** the θ midpoint rule is NOT exact on the harmonics: on the grid of
`Psi4_lm` with `Ntheta = N` (`M = N + 1` nodes) the discrete squared norm of `₀Y₀₀`
is `(π/2M)/sin(π/2M) > 1`; therefore the hypothesis `DiscreteOrthonormal` of
`roundtrip_partial` is FALSE for the spin-0 harmonics on the code's grid, at
every resolution and for every `lmax`. -/
theorem discrete_orthonormal_is_false (lmax N : Nat) :
    (gridGram 0 N 0 0 0 0
        = (((π / (2 * ((N + 1 : ℕ) : ℝ))) / Real.sin (π / (2 * ((N + 1 : ℕ) : ℝ))) : ℝ) : ℂ)
      ∧ 1 < (π / (2 * ((N + 1 : ℕ) : ℝ))) / Real.sin (π / (2 * ((N + 1 : ℕ) : ℝ))))
    ∧ ¬ DiscreteOrthonormal (gridY 0 lmax N) (gridW N) := by
  refine ⟨gridGram_Y00 N, fun h => ?_⟩
  have h00 : ((0 : Int), (0 : Int)) ∈ modes lmax := (mem_modes lmax 0 0).mpr (by simp)
  have := h ⟨(0, 0), h00⟩ ⟨(0, 0), h00⟩
  rw [gram_gridY, if_pos rfl] at this
  exact gridGram_Y00_ne_one N this

/-- T14 for the spin `Psi4_lm` actually uses (`s = −2`): the discrete squared norm of
`₋₂Y₂₂` on the code's grid is a real number `> 1` for every `Ntheta ≥ 2` (the midpoint
rule over-estimates every odd sine mode of `cos⁸(θ/2) sin θ`), so `DiscreteOrthonormal`
is false for the spin −2 harmonics with `lmax ≥ 2` as well. -/
theorem discrete_orthonormal_is_false_spin_m2 (lmax N : Nat) (hl : 2 ≤ lmax) (hN : 2 ≤ N) :
    (gridGram (-2) N 2 2 2 2 = ((gridR (-2) N 2 2 2 : ℝ) : ℂ) ∧ 1 < gridR (-2) N 2 2 2)
    ∧ ¬ DiscreteOrthonormal (gridY (-2) lmax N) (gridW N) := by
  refine ⟨gridGram_S2_22 N hN, fun h => ?_⟩
  have h22 : ((2 : Int), (2 : Int)) ∈ modes lmax :=
    (mem_modes lmax 2 2).mpr ⟨⟨by norm_num, by exact_mod_cast hl⟩, by norm_num⟩
  have := h ⟨(2, 2), h22⟩ ⟨(2, 2), h22⟩
  rw [gram_gridY, if_pos rfl] at this
  exact gridGram_S2_22_ne_one N hN this

/-- **T15** the error of the θ midpoint rule (`M` nodes `θ_j = (j+½)π/M`, weight
`π/M`) on the sine modes `sin(kθ)` — every integrand `g` of T11 is a finite
combination of them — in closed form: the rule returns
`(1 − cos kπ)/(2 sin(kπ/2M)) · π/M`, the integral is `(1 − cos kπ)/k`; for odd
`k < 2M` the ratio is `u/sin u > 1` with `u = kπ/(2M)`, for even `k` both vanish. -/
theorem theta_midpoint_on_sines (M k : ℕ) (hM : 0 < M) (hk : 0 < k) (hk2 : k < 2 * M) :
    ∑ j ∈ Finset.range M, Real.sin ((k : ℝ) * (((j : ℝ) + 1 / 2) * π / M)) * (π / M)
        = (1 - Real.cos ((k : ℝ) * π)) / (2 * Real.sin ((k : ℝ) * π / (2 * M))) * (π / M)
    ∧ ∫ θ in (0 : ℝ)..π, Real.sin ((k : ℝ) * θ) = (1 - Real.cos ((k : ℝ) * π)) / k
    ∧ 1 < ((k : ℝ) * π / (2 * M)) / Real.sin ((k : ℝ) * π / (2 * M)) := by
  have hM' : (0 : ℝ) < (M : ℝ) := by exact_mod_cast hM
  have hk' : (0 : ℝ) < (k : ℝ) := by exact_mod_cast hk
  have hu0 : 0 < (k : ℝ) * π / (2 * M) := by positivity
  have hu1 : (k : ℝ) * π / (2 * M) < π := by
    rw [div_lt_iff₀ (by positivity)]
    have : (k : ℝ) < 2 * (M : ℝ) := by exact_mod_cast hk2
    nlinarith [Real.pi_pos]
  exact ⟨midpoint_sin M k hM (ne_of_gt (Real.sin_pos_of_pos_of_lt_pi hu0 hu1)),
    integral_sin_nat k hk, one_lt_div_sin _ hu0 hu1⟩

/-! ### spin 0, all degrees -/

/-- **T16** (extends T3 of Props/C20.lean from the table `l ≤ 4` to ALL `l`):
at spin 0 the closed form is the associated Legendre function of Spec/Harm.lean
(Rodrigues formula, Condon–Shortley phase inside `P_l^m`) up to `(−1)^m`, on every
field of characteristic 0 and every point of the circle; and over ℂ
`maths.sYlm(0, l, m, θ, φ) = (−1)^m · Y_lm(θ, φ)` for every `l`, `|m| ≤ l`. -/
theorem spin0_all_degrees (l : Nat) (m : Int) (hm : |m| ≤ (l : Int)) :
    (∀ {K : Type} [Field K] [CharZero K] (c sn : K), c ^ 2 + sn ^ 2 = 1 →
      (((l : Int) + m).toNat.factorial : K) * evalK (harmTerms 0 l m) c sn
        = (-1 : K) ^ m.natAbs * (l.factorial : K) * assocLegendre l m (c ^ 2 - sn ^ 2) (2 * c * sn))
    ∧ ∀ θ φ : ℝ, sYlmC 0 l m θ φ = (-1 : ℂ) ^ m.natAbs * stdYlm l m θ φ :=
  ⟨fun c sn h => spin0_all c sn h l m hm, fun θ φ => spin0_is_standard_all l m hm θ φ⟩

/-! ### linear interpolation (Model/Interp.lean) -/

open AurelVerif.Interp AurelVerif.InterpLemmas in
/-- **T17** scipy's linear `RegularGridInterpolator` as `numerical.interpolate`
calls it, on strictly ascending axes with at least two nodes:
(a) the cell search returns a valid cell that contains every target inside the
axis range, whatever the search hint carried over from the previous target;
(b) at every grid node (boundary nodes included) the interpolant is the nodal value;
(c) nodal values of a trilinear field `a0 + a1x + a2y + a3z + a4xy + a5xz + a6yz + a7xyz`
are reproduced EXACTLY at every target (inside the grid, and by the linear
continuation of the boundary cells outside);
(d) inside the grid the value lies between any bounds of the 8 corner values. -/
theorem linear_interpolation_exact (gx gy gz : List ℚ)
    (hgx : gx.Pairwise (· < ·)) (hgy : gy.Pairwise (· < ·)) (hgz : gz.Pairwise (· < ·))
    (hnx : 2 ≤ gx.length) (hny : 2 ≤ gy.length) (hnz : 2 ≤ gz.length) (val : Nat → Nat → Nat → ℚ) :
    (∀ (prev : Nat) (x : ℚ), findIntervalFrom prev gx x = findInterval gx x
        ∧ findInterval gx x + 1 < gx.length
        ∧ (nth gx 0 ≤ x → x ≤ nth gx (gx.length - 1) →
            nth gx (findInterval gx x) ≤ x ∧ x ≤ nth gx (findInterval gx x + 1)))
    ∧ (∀ i j k, i < gx.length → j < gy.length → k < gz.length →
        interp3 gx gy gz val (nth gx i) (nth gy j) (nth gz k) = val i j k)
    ∧ (∀ a0 a1 a2 a3 a4 a5 a6 a7 : ℚ,
        (∀ i j k, i < gx.length → j < gy.length → k < gz.length →
          val i j k = triPoly a0 a1 a2 a3 a4 a5 a6 a7 (nth gx i) (nth gy j) (nth gz k)) →
        ∀ x y z : ℚ, interp3 gx gy gz val x y z = triPoly a0 a1 a2 a3 a4 a5 a6 a7 x y z)
    ∧ (∀ x y z m M : ℚ, nth gx 0 ≤ x → x ≤ nth gx (gx.length - 1) → nth gy 0 ≤ y → y ≤ nth gy (gy.length - 1) →
        nth gz 0 ≤ z → z ≤ nth gz (gz.length - 1) →
        (∀ c ∈ corners3 gx gy gz x y z, m ≤ val c.1 c.2.1 c.2.2 ∧ val c.1 c.2.1 c.2.2 ≤ M) →
        m ≤ interp3 gx gy gz val x y z ∧ interp3 gx gy gz val x y z ≤ M) :=
  ⟨fun prev x => ⟨findIntervalFrom_eq hgx hnx prev x, findInterval_spec gx x hgx hnx⟩,
   fun i j k hi hj hk => interp3_node gx gy gz hgx hgy hgz hnx hny hnz val i j k hi hj hk,
   fun a0 a1 a2 a3 a4 a5 a6 a7 hval x y z =>
     interp3_trilinear gx gy gz hgx hgy hgz hnx hny hnz a0 a1 a2 a3 a4 a5 a6 a7 val hval x y z,
   fun x y z m M hx0 hx1 hy0 hy1 hz0 hz1 hval =>
     interp3_convex gx gy gz hgx hgy hgz hnx hny hnz val x y z hx0 hx1 hy0 hy1 hz0 hz1 m M hval⟩

/-! ### non-vacuity -/

/-- the integer of T8 for `₋₂Y₂₂` with itself and with `₋₂Y₃₂`: norm identity and orthogonality -/
example : thetaGramZ (-2) 2 2 2 = 24 ∧ thetaGramZ (-2) 2 2 3 = 0 ∧ thetaGramZ (-2) 3 2 3 = 720 := by
  decide +kernel
/-- `2·R·2·Z/(2l+1)! = 1` for `(s, l, m) = (−2, 2, 2)`: `2·(5/4)·2·24/120 = 1` -/
example : 2 * normRadicand (-2) 2 2 * (2 * 24 / 120) = 1 := by decide +kernel
/-- instances of T9: a norm, an orthogonal pair in `l`, a pair below the spin -/
example : contGram (-2) 2 2 2 2 = 1 ∧ contGram (-2) 2 2 3 2 = 0 ∧ contGram (-2) 1 1 1 1 = 0
    ∧ contGram (-2) 12 (-7) 12 (-7) = 1 ∧ contGram 1 12 3 11 3 = 0 := by
  refine ⟨?_, ?_, ?_, ?_, ?_⟩ <;>
    (rw [orthonormal_upto_12 _ _ _ _ _ (by decide) (by decide) (by decide)]; norm_num)
/-- T10 beyond the table -/
example : contGram (-2) 40 40 40 40 = 1 := (norm_extreme_orders_all_l (-2) 40 (by decide)).1
/-- the hypothesis of T11–T13 is met by the code: `|m − m'| ≤ 2·lmax ≤ Nφ`, `lmax ≤ Ntheta` -/
example : |(8 : Int) - (-8)| ≤ ((nPhi (nTheta 4 4 4 8) : Nat) : Int) ∧ 8 ≤ nTheta 4 4 4 8 := by decide
/-- the index types of T13 are inhabited (25 modes for `lmax = 4`) -/
example : (modes 4).length = 25 ∧ ((2 : Int), (-2 : Int)) ∈ modes 4 := by decide +kernel
/-- the hypotheses of T14 (spin −2) are met by every run of `Psi4_lm` with `lmax ≥ 2` on a grid with ≥ 2 points per axis -/
example : 2 ≤ 8 ∧ 2 ≤ nTheta 4 4 4 8 := by decide
/-- T15 at `M = 3`, `k = 1` -/
example : (0 : ℕ) < 3 ∧ (0 : ℕ) < 1 ∧ 1 < 2 * 3 := by decide
/-- T16 beyond the old table: `l = 6`, `m = −3` at the rational point `(3/5, 4/5)` -/
example : (((6 : Int) + (-3)).toNat.factorial : ℚ) * evalK (harmTerms 0 6 (-3)) (3 / 5 : ℚ) (4 / 5)
    = (-1 : ℚ) ^ (3 : ℕ) * ((6 : ℕ).factorial : ℚ) * assocLegendre 6 (-3) ((3 / 5 : ℚ) ^ 2 - (4 / 5) ^ 2) (2 * (3 / 5) * (4 / 5)) :=
  (spin0_all_degrees 6 (-3) (by decide)).1 (3 / 5) (4 / 5) (by norm_num)
/-- T17 on a non-uniform 3 × 2 × 4 grid (more instances in Lemmas/C20Interp.lean, `Example`) -/
example : AurelVerif.Interp.interp3 [0, 1/2, 2] [-1, 1] [0, 1, 3, 7/2]
    (fun i j k => ((i * i + 3 * j + k * k * k + i * k : Nat) : ℚ) / 4) (1/2) 1 3 = 7/2 := by decide +kernel

end AurelVerif.C20
