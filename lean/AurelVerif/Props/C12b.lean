/-
Props/C12b.lean — C12 (the per-iteration read cache never changes what read_data
returns), extended model Model/ReadCacheX.lean: ONE WHOLE `read_data` CALL with

  * `vars=[]` (read everything available) next to explicit requests,
  * `usecheckpoints=True` calls interleaved,
  * `skip_last` changing from call to call (the catalogue iterations.txt persists),
  * refinement levels as plain numbers (`'<name> rl=1'` and `'<name> rl=10'` are
    different datasets of the same file),
  * restarts that lack a requested variable (/repo e8cb585, e04ff7b, b788cb7): `None`
    for that restart's rows in both modes,
  * calls that RAISE half-way: the cache they leave behind is part of the state.

ONLY property statements and non-vacuity examples; proofs are in
Lemmas/C12Pres, C12Flat, C12Restart, C12Call, C12History.  The model is tied to
`aurel.read_data` by the read-history correspondence of tools/props/C12.py
(rows, every cache dataset and the catalogue after every call).

`w.src` is the abstract uncached 3D read (what C11 establishes), `w.chkRead` an
abstract checkpoint reader (C11's Model/Checkpoint.lean models the real one; here only
`ChkIts`, "the table lists the iterations it was asked for", is ever assumed of it), the
restart choice is C11's Model/Restarts.lean (`itToDo`, `itToDoExplicit`, `rowsOf`).

NOT covered by a theorem here (stated where it matters):
  * iterations inside a restart's range that its files do not hold / a level they do
    not hold (`read_ET_group_or_var` raises in both modes; not in the model);
  * `returned_cellsX` / `cachedX_equals_uncached` need every restart that is read to hold
    AT LEAST ONE requested component: a restart that holds none ("starved") makes the
    uncached read raise IndexError in the flattening while the cached read returns its rows
    with `None` everywhere, the time included unless an earlier call cached it
    (`starved_restart_asymmetry` below: the hypothesis is necessary as of /repo b788cb7);
  * the values of checkpoint calls (abstract reader): only that the cache plays no part.
-/
import AurelVerif.Lemmas.C12History

namespace AurelVerif.C12
open AurelVerif.Chunks AurelVerif.ReadCache AurelVerif.ReadCacheX AurelVerif.ReadCacheLemmas
  AurelVerif.ReadCacheXLemmas

/-- **T1x (histories, full strength)**: starting from the empty cache and the empty
catalogue, after EVERY call of EVERY finite history — `vars=[]` or explicit names, tensor
or component names, any level, any restart argument, `split_per_it` on or off,
`usecheckpoints` on or off, `skip_last` changing from call to call, restarts that lack
variables, calls that return and calls that raise half-way — every dataset of the cache
holds the data of the variable, iteration, level and restart it is filed under, a file
that holds a variable holds the time, and only variables the restart's files hold are
cached. -/
theorem cacheX_history {β : Type} (w : World β) (hist : List CallX) :
    ∀ s ∈ statesOf w ([], []) hist, Inv w.src w.ofIt s.2 ∧ StoreT s.2 ∧ StoreHas w s.2 :=
  fun s hs =>
    have h := (historyX_pres w (GInvX w) (savePresHas_ginvX w) hist ([], []) (ginvX_empty w)).1 s hs
    ⟨h.1.1, h.1.2, h.2⟩

/-- **T1x (one call)**: from ANY cache whose datasets equal the source, whatever the call
does — return or raise — every dataset of the cache it leaves equals the source at the
key it is filed under. -/
theorem cacheX_refines_source {β : Type} (w : World β) (done : List Nat) (c : CallX) (store : Store β)
    (hI : Inv w.src w.ofIt store) : Inv w.src w.ofIt (readDataX w done c store).2.2 :=
  readDataX_pres w _ (savePresHas_of_savePres w _ (savePres_inv w.src w.ofIt)) done c store hI

/-- **T1x (returned values, one call)**: a call on 3D data (`usecheckpoints=False`),
cached or not, `vars` explicit or `[]` (`V` = the resolved request, `requestOf`), on a cache
with the invariant: if every restart that has something to do is catalogued with 3D output
and holds at least one requested component, the call RETURNS, the cache keeps the invariant,
the rows are the (iteration, restart) pairs of the flattening, and every requested
component has in every row the source of that row's restart and iteration when the restart
holds the component, `None` when it does not; the time is the source.  Nothing depends on
what the cache held. -/
theorem returned_cellsX {β : Type} (w : World β) (done : List Nat) (c : CallX) (store : Store β)
    (hG : GInvX w store) (hchk : c.usechk = false)
    (done' : List Nat) (todo : List (Nat × List Nat)) (hplan : planX w done c = some (done', todo))
    (V : List (List Nat)) (hV : requestOf w c todo = some V) (hVne : V ≠ [])
    (hread : NotStarved w V todo) :
    ∃ rows store', readDataX w done c store = (some rows, done', store') ∧ GInvX w store' ∧
      rows.map (fun r => (r.1, r.2.1))
        = RestartsLemmas.rowsLoop (todo.filter fun rt => !rt.2.isEmpty) (sortedSet c.its) ∧
      ∀ row ∈ rows, ∀ n ∈ V.flatten.map DName.var ++ [DName.t],
        cellVal row.2.2 n = expect w c.rl row.2.1 row.1 n :=
  readDataX_cells w done c store hG hchk done' todo hplan V hV hVne hread

/-- **T1x (the cached read alone, no hypothesis on the variables)**: a cached call on 3D
data on a cache with the invariant, the restarts that have something to do being catalogued
with 3D output, RETURNS — the cache logic raises nothing (no `list.index` ValueError, no
index out of range, no KeyError for a variable a restart lacks), whatever variables the
restarts lack, even all the requested ones — and every requested component has in every row
the source where the row's restart holds it and `None` where it does not, whatever the cache
held.  (The time of a restart that holds none of the requested components is not covered:
see `starved_restart_asymmetry`.) -/
theorem cached_cells_always {β : Type} (w : World β) (done : List Nat) (c : CallX) (store : Store β)
    (hG : GInvX w store) (hchk : c.usechk = false) (hsplit : c.split = true)
    (done' : List Nat) (todo : List (Nat × List Nat)) (hplan : planX w done c = some (done', todo))
    (V : List (List Nat)) (hV : requestOf w c todo = some V) (hVf : V.flatten ≠ [])
    (hread : Has3D w todo) :
    ∃ rows store', readDataX w done c store = (some rows, done', store') ∧ GInvX w store' ∧
      rows.map (fun r => (r.1, r.2.1))
        = RestartsLemmas.rowsLoop (todo.filter fun rt => !rt.2.isEmpty) (sortedSet c.its) ∧
      ∀ row ∈ rows, ∀ n ∈ V.flatten.map DName.var, cellVal row.2.2 n = expect w c.rl row.2.1 row.1 n :=
  readDataX_cached_cells w done c store hG hchk hsplit done' todo hplan V hV hVf hread

/-- **T1x (returned values, histories)**: the same at EVERY call of EVERY history that
started from the empty cache and catalogue (the invariant holds there). -/
theorem returned_cellsX_history {β : Type} (w : World β) (hist : List CallX) :
    ∀ sc ∈ statesBefore w ([], []) hist, sc.2.usechk = false →
      ∀ done' todo, planX w sc.1.1 sc.2 = some (done', todo) →
      ∀ V, requestOf w sc.2 todo = some V → V ≠ [] → NotStarved w V todo →
        ∃ rows store', readDataX w sc.1.1 sc.2 sc.1.2 = (some rows, done', store') ∧
          rows.map (fun r => (r.1, r.2.1))
            = RestartsLemmas.rowsLoop (todo.filter fun rt => !rt.2.isEmpty) (sortedSet sc.2.its) ∧
          ∀ row ∈ rows, ∀ n ∈ V.flatten.map DName.var ++ [DName.t],
            cellVal row.2.2 n = expect w sc.2.rl row.2.1 row.1 n :=
  fun sc hsc hchk done' todo hplan V hV hVne hread =>
    have hG := (historyX_pres w (GInvX w) (savePresHas_ginvX w) hist ([], []) (ginvX_empty w)).2 sc hsc
    let ⟨rows, store', h1, _, h3, h4⟩ :=
      readDataX_cells w sc.1.1 sc.2 sc.1.2 hG hchk done' todo hplan V hV hVne hread
    ⟨rows, store', h1, h3, h4⟩

/-- **the property itself**: under the hypotheses of `returned_cellsX`, the cached call
(`split_per_it=True`) on ANY cache with the invariant and the uncached call
(`split_per_it=False`) of the same arguments both return, return the same (iteration,
restart) rows, and for every requested component and the time the same value in every row
(array, or `None` — whether the `None` is an entry or a column the uncached read does not
have). -/
theorem cachedX_equals_uncached {β : Type} (w : World β) (done : List Nat) (c : CallX) (store : Store β)
    (hG : GInvX w store) (hchk : c.usechk = false)
    (done' : List Nat) (todo : List (Nat × List Nat)) (hplan : planX w done c = some (done', todo))
    (V : List (List Nat)) (hV : requestOf w c todo = some V) (hVne : V ≠ [])
    (hread : NotStarved w V todo) :
    ∃ rows rows' store', readDataX w done { c with split := true } store = (some rows, done', store') ∧
      readDataX w done { c with split := false } store = (some rows', done', store) ∧
      rows.map (fun r => (r.1, r.2.1)) = rows'.map (fun r => (r.1, r.2.1)) ∧
      ∀ p ∈ rows.zip rows', ∀ n ∈ V.flatten.map DName.var ++ [DName.t], cellVal p.1.2.2 n = cellVal p.2.2.2 n := by
  obtain ⟨rows, store', h1, _, h3, h4⟩ := readDataX_cells w done { c with split := true } store hG hchk done' todo
    hplan V hV hVne hread
  obtain ⟨rows', store'', k1, _, k3, k4⟩ := readDataX_cells w done { c with split := false } store hG hchk done' todo
    hplan V hV hVne hread
  have hst : store'' = store := by
    have := readDataX_nocache w done { c with split := false } (Or.inr rfl) store
    rw [k1] at this
    exact (Prod.mk.inj (Prod.mk.inj this).2).2
  subst hst
  refine ⟨rows, rows', store', h1, k1, by rw [h3, k3], ?_⟩
  have hkeys : rows.map (fun r => (r.1, r.2.1)) = rows'.map (fun r => (r.1, r.2.1)) := by rw [h3, k3]
  intro p hp n hn
  have hp1 := (List.of_mem_zip hp).1
  have hp2 := (List.of_mem_zip hp).2
  have hkey : (p.1.1, p.1.2.1) = (p.2.1, p.2.2.1) := by
    obtain ⟨i, hi⟩ := List.mem_iff_getElem?.mp hp
    have hz := List.getElem?_zip_eq_some.mp (show (rows.zip rows')[i]? = some (p.1, p.2) from hi)
    have a1 : (rows.map fun r => (r.1, r.2.1))[i]? = some (p.1.1, p.1.2.1) := by
      rw [List.getElem?_map, hz.1]; rfl
    have a2 : (rows'.map fun r => (r.1, r.2.1))[i]? = some (p.2.1, p.2.2.1) := by
      rw [List.getElem?_map, hz.2]; rfl
    rw [hkeys, a2] at a1
    exact (Option.some.inj a1).symm
  rw [h4 p.1 hp1 n hn, k4 p.2 hp2 n hn]
  have e1 : p.1.1 = p.2.1 := (Prod.mk.inj hkey).1
  have e2 : p.1.2.1 = p.2.2.1 := (Prod.mk.inj hkey).2
  rw [e1, e2]

/-- **checkpoint calls and uncached calls**: the cache is neither read nor written — the
result and the catalogue are those of the same call on an empty cache and the cache is
what it was (in particular a `usecheckpoints=True` call with `split_per_it=True` returns
what the one with `split_per_it=False` returns: `split` is not looked at either). -/
theorem nocache_call {β : Type} (w : World β) (done : List Nat) (c : CallX)
    (h : c.usechk = true ∨ c.split = false) (store : Store β) :
    readDataX w done c store = ((readDataX w done c []).1, (readDataX w done c []).2.1, store) :=
  readDataX_nocache w done c h store

/-- **`vars=[]`**: a call with `vars=[]` is, in result, catalogue and cache, the call that
asks for the 'var available' of the first restart that has something to do — whatever the
later restarts hold. -/
theorem vars_all_is_request_for_first_restart {β : Type} (w : World β) (done : List Nat) (c : CallX)
    (_hreq : c.req = []) (store : Store β)
    (done' : List Nat) (todo : List (Nat × List Nat)) (hplan : planX w done c = some (done', todo))
    (V : List (List Nat)) (hV : requestOf w c todo = some V) (hVne : V ≠ []) :
    readDataX w done c store = readDataX w done { c with req := V } store := by
  rw [readDataX_request w done c store done' todo hplan V hV hVne]
  have hplan' : planX w done { c with req := V } = some (done', todo) := hplan
  have hV' : requestOf w { c with req := V } todo = some V := by
    unfold requestOf; simp [hVne]
  rw [readDataX_request w done { c with req := V } store done' todo hplan' V hV' hVne]

/-- **T3x** `returned_structureX`: with `restart=-1`, the rows of ANY call that returns —
3D or checkpoints, cached or not, whatever the catalogue has become through earlier
`skip_last` values — are the rows of C11's restart model for the catalogue of that call:
the sorted requested iterations, each from the latest catalogued restart that holds it. -/
theorem returned_structureX {β : Type} (w : World β) (hc : ChkIts w) (done : List Nat) (c : CallX) (store : Store β)
    (hrestart : c.restart = none) (rows : List (Row β))
    (h : (readDataX w done c store).1 = some rows)
    (hnd : ((catsOf w (readDataX w done c store).2.1).map (·.num)).Nodup) :
    rows.map (fun r => (r.1, r.2.1)) = Restarts.rowsOf c.usechk (catsOf w (readDataX w done c store).2.1) c.its :=
  readDataX_rows w hc done c store hrestart rows h hnd

/-- **T3x (histories)**: in every history that started from the empty catalogue, whatever
`skip_last` values the calls used, the rows of every call with `restart=-1` that returns are
those of C11's restart model for the catalogue as that call left it (the only assumption:
the `output-<n>` directories have distinct numbers) -/
theorem returned_structureX_history {β : Type} (w : World β) (hc : ChkIts w)
    (hw : (w.restarts.map fun ri => ri.cat.num).Nodup) (hist : List CallX) :
    ∀ sc ∈ statesBefore w ([], []) hist, sc.2.restart = none →
      ∀ rows, (readDataX w sc.1.1 sc.2 sc.1.2).1 = some rows →
        rows.map (fun r => (r.1, r.2.1))
          = Restarts.rowsOf sc.2.usechk (catsOf w (readDataX w sc.1.1 sc.2 sc.1.2).2.1) sc.2.its :=
  fun sc hsc hrestart rows h =>
    readDataX_rows w hc sc.1.1 sc.2 sc.1.2 hrestart rows h
      (catsOf_nodup w _ (readDataX_done_nodup w hw sc.1.1 sc.2 sc.1.2
        (historyX_done_nodup w hw hist ([], []) List.nodup_nil sc hsc)))

/-- **`skip_last` may change within a history**: the catalogue (iterations.txt) only grows —
a restart catalogued by any earlier call (with `skip_last=False`, or when it was not the last
one) is still catalogued after every later call, returning or raising, whatever its `skip_last`. -/
theorem catalogue_only_grows {β : Type} (w : World β) (done : List Nat) (c : CallX) (store : Store β) :
    ∀ r ∈ done, r ∈ (readDataX w done c store).2.1 :=
  readDataX_catalogue w done c store

/-- a call that raises before it reads anything (empty `it`, nothing catalogued, explicit
restart not catalogued) leaves the cache as it was -/
theorem early_raise_keeps_cache {β : Type} (w : World β) (done : List Nat) (c : CallX) (store : Store β)
    (hplan : planX w done c = none) :
    (readDataX w done c store).1 = none ∧ (readDataX w done c store).2.2 = store :=
  readDataX_noplan w done c store hplan

/-! ## Witnesses and non-vacuity

A directory with three restarts (0: iterations 0–4, 1: 4–8 with checkpoints at 4 and 8,
2: 8–12); two scalar variables 8 and 30 and a tensor 17,18; restart 1 lacks variable 30.
Values are (restart, iteration, name, level) themselves, so that every cell is
recognisable. -/

/-- value of a cell: restart, iteration, name code (0 = time), level -/
structure V4 where
  restart : Nat
  it : Nat
  name : Nat
  rl : Nat
deriving DecidableEq, Repr

/-- (instance search does not reach this depth on its own) -/
instance : DecidableEq (Row V4) := inferInstance

def wsrc (k : DKey) : V4 := ⟨k.restart, k.it, (match k.name with | .var v => v | _ => 0), k.rl⟩

def wchk (R : Nat) (var : List (List Nat)) (its : List Nat) (rl : Nat) : Option (Tab V4) :=
  some ⟨its, (DName.t, its.map fun i => some ⟨R + 100, i, 0, rl⟩) ::
    var.flatten.eraseDups.map fun c => (DName.var c, its.map fun i => some ⟨R + 100, i, c, rl⟩)⟩

/-- restart 1 lacks variable 30 -/
def wex : World V4 :=
  { restarts := [⟨⟨0, some (0, 4), some []⟩, false, some [[8], [30], [17, 18]]⟩,
                 ⟨⟨1, some (4, 8), some [4, 8]⟩, false, some [[8], [17, 18]]⟩,
                 ⟨⟨2, some (8, 12), some []⟩, false, some [[8], [30], [17, 18]]⟩],
    src := wsrc, ofIt := fun i => ⟨0, i, 0, 0⟩,
    has := fun R c => c = 8 || c = 17 || c = 18 || (c = 30 && R != 1),
    chkRead := wchk }

/-- the call of the former KeyError / IndexError (restart 1 lacks variable 30; iterations 0, 6,
10 come from restarts 0, 1, 2) in both request orders: as of /repo b788cb7 the cached read on
a cold cache returns `None` for variable 30 at iteration 6, like the uncached read -/
theorem lacking_variable_None :
    (readDataX wex [] ⟨false, [[8], [30]], [0, 6, 10], 0, none, true, false⟩ []).1
      = some [(0, 0, [(.var 8, some ⟨0, 0, 8, 0⟩), (.var 30, some ⟨0, 0, 30, 0⟩), (.t, some ⟨0, 0, 0, 0⟩)]),
              (6, 1, [(.var 8, some ⟨1, 6, 8, 0⟩), (.var 30, none), (.t, some ⟨1, 6, 0, 0⟩)]),
              (10, 2, [(.var 8, some ⟨2, 10, 8, 0⟩), (.var 30, some ⟨2, 10, 30, 0⟩), (.t, some ⟨2, 10, 0, 0⟩)])]
    ∧ (readDataX wex [] ⟨false, [[8], [30]], [0, 6, 10], 0, none, false, false⟩ []).1
      = some [(0, 0, [(.t, some ⟨0, 0, 0, 0⟩), (.var 8, some ⟨0, 0, 8, 0⟩), (.var 30, some ⟨0, 0, 30, 0⟩)]),
              (6, 1, [(.t, some ⟨1, 6, 0, 0⟩), (.var 8, some ⟨1, 6, 8, 0⟩), (.var 30, none)]),
              (10, 2, [(.t, some ⟨2, 10, 0, 0⟩), (.var 8, some ⟨2, 10, 8, 0⟩), (.var 30, some ⟨2, 10, 30, 0⟩)])]
    ∧ (readDataX wex [] ⟨false, [[30], [8]], [0, 6, 10], 0, none, true, false⟩ []).1
      = some [(0, 0, [(.var 30, some ⟨0, 0, 30, 0⟩), (.var 8, some ⟨0, 0, 8, 0⟩), (.t, some ⟨0, 0, 0, 0⟩)]),
              (6, 1, [(.var 30, none), (.var 8, some ⟨1, 6, 8, 0⟩), (.t, some ⟨1, 6, 0, 0⟩)]),
              (10, 2, [(.var 30, some ⟨2, 10, 30, 0⟩), (.var 8, some ⟨2, 10, 8, 0⟩), (.t, some ⟨2, 10, 0, 0⟩)])] := by
  refine ⟨by decide +kernel, by decide +kernel, by decide +kernel⟩

/-- **the hypothesis "every restart read holds at least one requested component" of
`returned_cellsX` / `cachedX_equals_uncached` is necessary as of /repo b788cb7**: asking for
variable 30 alone, which restart 1 lacks, the UNCACHED read raises (restart 1's time column
is empty: IndexError in the flattening) while the CACHED read on a cold cache returns three
rows, the one of restart 1 with `None` for the variable AND for the time; once another call
has cached the time of iteration 6, the same cached call returns that time. -/
theorem starved_restart_asymmetry :
    (readDataX wex [] ⟨false, [[30]], [0, 6, 10], 0, none, false, false⟩ []).1 = none
    ∧ (readDataX wex [] ⟨false, [[30]], [0, 6, 10], 0, none, true, false⟩ []).1
      = some [(0, 0, [(.var 30, some ⟨0, 0, 30, 0⟩), (.t, some ⟨0, 0, 0, 0⟩)]),
              (6, 1, [(.var 30, none), (.t, none)]),
              (10, 2, [(.var 30, some ⟨2, 10, 30, 0⟩), (.t, some ⟨2, 10, 0, 0⟩)])]
    ∧ (readDataX wex [0, 1, 2] ⟨false, [[30]], [0, 6, 10], 0, none, true, false⟩
        (readDataX wex [] ⟨false, [[8]], [6], 0, none, true, false⟩ []).2.2).1
      = some [(0, 0, [(.var 30, some ⟨0, 0, 30, 0⟩), (.t, some ⟨0, 0, 0, 0⟩)]),
              (6, 1, [(.var 30, none), (.t, some ⟨1, 6, 0, 0⟩)]),
              (10, 2, [(.var 30, some ⟨2, 10, 30, 0⟩), (.t, some ⟨2, 10, 0, 0⟩)])]
    ∧ ¬ NotStarved wex [[30]] [(0, [0]), (1, [6]), (2, [10])] := by
  refine ⟨by decide +kernel, by decide +kernel, by decide +kernel, ?_⟩
  intro h
  obtain ⟨ri, _, _, c, hc, hh⟩ := h (1, [6]) (by simp) (by simp)
  simp only [List.flatten_cons, List.flatten_nil, List.append_nil, List.mem_singleton] at hc
  subst hc
  revert hh
  decide

/-- a history with `skip_last` changing, `vars=[]`, a checkpoint call and a level-10 read next
to level 1: (1) `skip_last=True`: restart 2 is not catalogued, iteration 10 is dropped;
(2) `skip_last=False` catalogues it; (3) `skip_last=True` again: it STAYS catalogued;
(4) a checkpoint call leaves the cache alone; (5) level 10 and level 1 are filed apart. -/
def whist : List CallX :=
  [⟨true, [[8]], [0, 10], 1, none, true, false⟩, ⟨false, [], [10], 10, none, true, false⟩,
   ⟨true, [[17, 18]], [10, 6], 1, none, true, false⟩, ⟨true, [[8]], [4, 8], 0, none, true, true⟩,
   ⟨false, [[8]], [10], 1, none, true, false⟩]

theorem skip_last_history :
    (statesOf wex ([], []) whist).map (·.1) = [[0, 1], [0, 1, 2], [0, 1, 2], [0, 1, 2], [0, 1, 2]]
    ∧ (readDataX wex [] whist[0] []).1 = some [(0, 0, [(.var 8, some ⟨0, 0, 8, 1⟩), (.t, some ⟨0, 0, 0, 1⟩)])]
    ∧ ((statesOf wex ([], []) whist).map fun s => s.2.length) = [3, 9, 17, 17, 18]
    ∧ ((statesOf wex ([], []) whist)[4]?.map fun s => (s.2.get? ⟨2, 10, .var 8, 10⟩, s.2.get? ⟨2, 10, .var 8, 1⟩))
      = some (some ⟨2, 10, 8, 10⟩, some ⟨2, 10, 8, 1⟩) := by
  refine ⟨by decide +kernel, by decide +kernel, by decide +kernel, by decide +kernel⟩

/-! hypotheses of `returned_cellsX` / `cachedX_equals_uncached` on the example: the plan,
the resolved request of a `vars=[]` call, no restart starved -/
example : GInvX wex [] := ginvX_empty wex
example : planX wex [] ⟨false, [], [0, 6, 10], 0, none, true, false⟩
    = some ([0, 1, 2], [(0, [0]), (1, [6]), (2, [10])]) := by decide +kernel
example : requestOf wex ⟨false, [], [0, 6, 10], 0, none, true, false⟩ [(0, [0]), (1, [6]), (2, [10])]
    = some [[8], [30], [17, 18]] := by decide +kernel
example : NotStarved wex [[8], [30], [17, 18]] [(0, [0]), (1, [6]), (2, [10])] := by
  intro rt hrt _
  simp only [List.mem_cons, List.not_mem_nil, or_false] at hrt
  rcases hrt with rfl | rfl | rfl
  · exact ⟨_, rfl, rfl, 8, by simp, rfl⟩
  · exact ⟨_, rfl, rfl, 8, by simp, rfl⟩
  · exact ⟨_, rfl, rfl, 8, by simp, rfl⟩
example : Has3D wex [(0, [0]), (1, [6]), (2, [10])] := by
  intro rt hrt _
  simp only [List.mem_cons, List.not_mem_nil, or_false] at hrt
  rcases hrt with rfl | rfl | rfl
  · exact ⟨_, rfl, rfl⟩
  · exact ⟨_, rfl, rfl⟩
  · exact ⟨_, rfl, rfl⟩
/-- `vars=[]` with restart 0 read first: the request is restart 0's list, variable 30 is `None` at iteration 6 -/
example : (readDataX wex [] ⟨false, [], [0, 6], 0, none, true, false⟩ []).1
    = (readDataX wex [] ⟨false, [[8], [30], [17, 18]], [0, 6], 0, none, true, false⟩ []).1 := by decide +kernel
/-- hypotheses of `returned_structureX`, `nocache_call`, `early_raise_keeps_cache` -/
example : (wex.restarts.map fun ri => ri.cat.num).Nodup := by decide
example : ChkIts wex := by
  intro R var its rl T h
  simp only [wex, wchk, Option.some.injEq] at h
  subst h; rfl
example : ((catsOf wex (readDataX wex [] ⟨false, [[8]], [4, 8], 0, none, true, true⟩ []).2.1).map (·.num)).Nodup := by
  decide +kernel
example : (readDataX wex [] ⟨false, [[8]], [4, 8], 0, none, true, true⟩ []).1
    = some [(4, 1, [(.t, some ⟨101, 4, 0, 0⟩), (.var 8, some ⟨101, 4, 8, 0⟩)]),
            (8, 1, [(.t, some ⟨101, 8, 0, 0⟩), (.var 8, some ⟨101, 8, 8, 0⟩)])] := by decide +kernel
example : planX wex [] ⟨true, [[8]], [4], 0, some 2, true, false⟩ = none := by decide +kernel
example : Inv wex.src wex.ofIt [] := inv_empty _ _

end AurelVerif.C12
