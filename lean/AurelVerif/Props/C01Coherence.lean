/-
Props/C01Coherence.lean — branch coherence (hypothesis H2 of `C01.get_transparent`)
for the real formulas: wherever core.py offers two alternatives for one key,
selected by `'X' in self.data`, the alternatives agree when the entries they
read are the code's own values.  All definitions are regenerated from core.py
on every run.  Exact arithmetic, every field.

Alternatives whose agreement is proven elsewhere:
  gtt/gtx/gty/gtz, gdet ............ C08.gt_coherent, C08.gdet_coherent
  rho0 / eps / rho ................. C09.eos_consistent
  s_Ricci_down3 .................... C05 (both equal the contraction R^a_{bad})
  st_Ricci_down3, st_Ricci_down4 ... C04
  Momentumup3 ...................... C06
Alternatives that agree only on solutions and up to discretisation error
(st_Ricci_down4: Einstein-equation form vs contraction of Riemann;
st_Weyl_down4: Riemann-based vs E/B-based; Weyl_Psi with Weyl_Psi4r given)
are NOT theorems of THIS file; they are compared numerically by the C01/C04/C10 oracles.
EXTENSION ROUND: the remaining algebraic guards are in Props/C01CoherenceA.lean; st_Ricci_down4 /
st_Ricci_down3 are theorems under the explicit on-shell hypothesis in Props/C01CoherenceC.lean;
`Weyl_Psi4r` is an input-only name whose test is constant along a history (Props/C01M.lean).
Still not a theorem: st_Weyl_down4 Riemann-based vs E/B-based.
-/
import AurelVerif.Props.C09

set_option linter.unusedSimpArgs false
set_option linter.unusedVariables false

namespace AurelVerif.C01Coherence
open AurelVerif.Gen.Core AurelVerif.Tensor AurelVerif.CoreTac AurelVerif.C08

variable {K : Type} [Field K]

/-! ### component keys vs their tensor -/

/-- `gxx … gzz` read back from a `gammadown3` that was assembled from them return them. -/
theorem metric_components_coherent (e : Env K) (h : e.gammadown3 = gammadown3 e) :
    gxx__gammadown3 e = e.gxx ∧ gxy__gammadown3 e = e.gxy ∧ gxz__gammadown3 e = e.gxz
    ∧ gyy__gammadown3 e = e.gyy ∧ gyz__gammadown3 e = e.gyz ∧ gzz__gammadown3 e = e.gzz := by
  refine ⟨?_, ?_, ?_, ?_, ?_, ?_⟩ <;> simp only [h, core_unfold]

/-- and `gammadown3` assembled from components read from a symmetric `gammadown3` is that tensor. -/
theorem metric_tensor_coherent (e : Env K) (hs : Sym e.gammadown3)
    (hxx : e.gxx = gxx__gammadown3 e) (hxy : e.gxy = gxy__gammadown3 e) (hxz : e.gxz = gxz__gammadown3 e)
    (hyy : e.gyy = gyy__gammadown3 e) (hyz : e.gyz = gyz__gammadown3 e) (hzz : e.gzz = gzz__gammadown3 e)
    (i j : Fin 3) : gammadown3 e i j = e.gammadown3 i j := by
  have h01 := hs 1 0; have h02 := hs 2 0; have h12 := hs 2 1
  revert i j
  cases3 <;> cases3 <;> simp only [hxx, hxy, hxz, hyy, hyz, hzz, core_unfold, h01, h02, h12]

theorem curvature_components_coherent (e : Env K) (h : e.Kdown3 = Kdown3 e) :
    kxx__Kdown3 e = e.kxx ∧ kxy__Kdown3 e = e.kxy ∧ kxz__Kdown3 e = e.kxz
    ∧ kyy__Kdown3 e = e.kyy ∧ kyz__Kdown3 e = e.kyz ∧ kzz__Kdown3 e = e.kzz := by
  refine ⟨?_, ?_, ?_, ?_, ?_, ?_⟩ <;> simp only [h, core_unfold]

theorem shift_components_coherent (e : Env K) (h : e.betaup3 = betaup3 e) (hd : e.dtbetaup3 = dtbetaup3 e) :
    betax__betaup3 e = e.betax ∧ betay__betaup3 e = e.betay ∧ betaz__betaup3 e = e.betaz
    ∧ dtbetax__dtbetaup3 e = e.dtbetax ∧ dtbetay__dtbetaup3 e = e.dtbetay ∧ dtbetaz__dtbetaup3 e = e.dtbetaz := by
  refine ⟨?_, ?_, ?_, ?_, ?_, ?_⟩ <;> simp only [h, hd, core_unfold]

/-- defaults: without `gammadown3` / `Kdown3` / `betaup3` the component keys are the flat ones. -/
theorem component_defaults (e : Env K) :
    gxx__dflt e = 1 ∧ gxy__dflt e = 0 ∧ gyy__dflt e = 1 ∧ gzz__dflt e = 1 ∧ kxx__dflt e = 0
    ∧ betax__dflt e = 0 ∧ dtbetax__dflt e = 0 := ⟨rfl, rfl, rfl, rfl, rfl, rfl, rfl⟩

/-! ### s_to_st: the zero-shift shortcut -/

/-- the shortcut taken when no shift component is supplied equals the general
formula evaluated at the default shift `β = 0`. -/
theorem s_to_st_coherent (e : Env K) (f : Fin 3 → Fin 3 → K) (hb : ∀ i, e.betaup3 i = 0) (μ ν : Fin 4) :
    s_to_st__dflt e f μ ν = s_to_st__betaup3 e f μ ν := by
  have b0 := hb 0; have b1 := hb 1; have b2 := hb 2
  revert μ ν
  cases4 <;> cases4 <;> (simp only [core_unfold, b0, b1, b2]; try ring)

/-! ### Ttrace: `g^{μν}T_μν` vs `3P − E` -/

/-- with the 3+1 form of the inverse metric `g^{ab} = γ^{ab} − n^a n^b`, the trace of the
cached `Tdown4` equals `3 press_n − rho_n` computed from the same tensor. -/
theorem Ttrace_coherent (e : Env K) (h3 : (3 : K) ≠ 0)
    (hg : ∀ a b, e.gup4 a b = e.gammaup4 a b - e.nup4 a * e.nup4 b)
    (hgu : e.gammaup4 = gammaup4 e)
    (hr : e.rho_n = rho_n e) (hp : e.press_n = press_n e) :
    Ttrace__Tdown4 e = Ttrace__dflt e := by
  have g00 := hg 0 0; have g01 := hg 0 1; have g02 := hg 0 2; have g03 := hg 0 3
  have g10 := hg 1 0; have g11 := hg 1 1; have g12 := hg 1 2; have g13 := hg 1 3
  have g20 := hg 2 0; have g21 := hg 2 1; have g22 := hg 2 2; have g23 := hg 2 3
  have g30 := hg 3 0; have g31 := hg 3 1; have g32 := hg 3 2; have g33 := hg 3 3
  simp only [hgu, core_unfold] at g00 g01 g02 g03 g10 g11 g12 g13 g20 g21 g22 g23 g30 g31 g32 g33
  simp only [hr, hp, core_unfold, g00, g01, g02, g03, g10, g11, g12, g13, g20, g21, g22, g23, g30, g31, g32, g33]
  field_simp
  ring

end AurelVerif.C01Coherence
