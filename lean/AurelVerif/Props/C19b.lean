/-
Props/C19b.lean — end-to-end statement of C19: from the default fluid state and the
code's own formulas for every intermediate key (no hypothesis on projector entries),
θ = −K, σ_ij = −A_ij, ω = 0, a_i = ∂_i ln α, a·n = 0.
-/
import AurelVerif.Props.C19
import AurelVerif.Props.C08b

set_option linter.unusedSimpArgs false
set_option linter.unusedVariables false

namespace AurelVerif.C19
open AurelVerif.Gen.Core AurelVerif.Tensor AurelVerif.CoreTac AurelVerif.C08 AurelVerif.C09

variable {K : Type} [Field K]

/-- mixed projector for `u = n`: rows `h^a_0 = (0, β^i)`, `h^a_j = δ^a_j`. -/
theorem hmixed4_eulerian (e : Env K) (h : Assembled e) (hi : InvMetric e) (ha : e.alpha ≠ 0)
    (hg : ∀ a b, e.gup4 a b = gup3p1 e a b) (hh : e.hdown4 = hdown4 e)
    (hud : ∀ μ, e.udown4 μ = ndown4 e μ) :
    (hmixed4 e 0 0 = 0 ∧ ∀ i : Fin 3, hmixed4 e i.succ 0 = e.betaup3 i)
    ∧ ∀ j : Fin 3, hmixed4 e 0 j.succ = 0 ∧ ∀ i : Fin 3, hmixed4 e i.succ j.succ = delta i j := by
  have h01 := h.hsym 1 0; have h02 := h.hsym 2 0; have h12 := h.hsym 2 1
  have i00 := hi 0 0; have i01 := hi 0 1; have i02 := hi 0 2
  have i10 := hi 1 0; have i11 := hi 1 1; have i12 := hi 1 2
  have i20 := hi 2 0; have i21 := hi 2 1; have i22 := hi 2 2
  simp only [delta, Fin.sum_univ_three, h01, h02, h12] at i00 i01 i02 i10 i11 i12 i20 i21 i22
  simp at i00 i01 i02 i10 i11 i12 i20 i21 i22
  have u0 := hud 0; have u1 := hud 1; have u2 := hud 2; have u3 := hud 3
  simp only [core_unfold] at u0 u1 u2 u3
  have key : ∀ a b : Fin 4, hmixed4 e a b =
      ∑ c, gup3p1 e a c * (e.gdown4 c b + e.udown4 c * e.udown4 b) := by
    intro a b
    rw [hmixed4_spec]
    simp only [hg, hh, hdown4_spec]
  refine ⟨⟨?_, ?_⟩, ?_⟩
  · rw [key]
    simp only [gup3p1, h.hg4, h.hgtt, h.hbm, h.hbd, u0, u1, u2, u3, core_unfold, Fin.sum_univ_three,
      Fin.sum_univ_four, h01, h02, h12]
    field_simp; ring1
  · cases3 <;>
      (rw [key]
       simp only [gup3p1, h.hg4, h.hgtt, h.hbm, h.hbd, u0, u1, u2, u3, core_unfold, Fin.sum_univ_three,
         Fin.sum_univ_four, h01, h02, h12]
       field_simp
       first
        | ring1
        | linear_combination (e.alpha ^ 2 * e.betaup3 0) * i00 + (e.alpha ^ 2 * e.betaup3 1) * i01 + (e.alpha ^ 2 * e.betaup3 2) * i02
        | linear_combination (e.alpha ^ 2 * e.betaup3 0) * i10 + (e.alpha ^ 2 * e.betaup3 1) * i11 + (e.alpha ^ 2 * e.betaup3 2) * i12
        | linear_combination (e.alpha ^ 2 * e.betaup3 0) * i20 + (e.alpha ^ 2 * e.betaup3 1) * i21 + (e.alpha ^ 2 * e.betaup3 2) * i22)
  · cases3 <;>
      (refine ⟨?_, ?_⟩
       · rw [key]
         simp only [gup3p1, h.hg4, h.hgtt, h.hbm, h.hbd, u0, u1, u2, u3, core_unfold, Fin.sum_univ_three,
           Fin.sum_univ_four, h01, h02, h12]
         field_simp; ring1
       · cases3 <;>
           (rw [key]
            simp only [gup3p1, delta, h.hg4, h.hgtt, h.hbm, h.hbd, u0, u1, u2, u3, core_unfold, Fin.sum_univ_three,
              Fin.sum_univ_four, h01, h02, h12]
            simp
            field_simp
            first
             | ring1
             | linear_combination (e.alpha ^ 2) * i00 | linear_combination (e.alpha ^ 2) * i01 | linear_combination (e.alpha ^ 2) * i02
             | linear_combination (e.alpha ^ 2) * i10 | linear_combination (e.alpha ^ 2) * i11 | linear_combination (e.alpha ^ 2) * i12
             | linear_combination (e.alpha ^ 2) * i20 | linear_combination (e.alpha ^ 2) * i21 | linear_combination (e.alpha ^ 2) * i22))

/-- every intermediate key of the kinematics chain holds the value of the code's own formula. -/
structure Chain (e : Env K) : Prop where
  hgup : e.gup4 = gup4 e
  hh : e.hdown4 = hdown4 e
  hhm : e.hmixed4 = hmixed4 e
  hhu : e.hup4 = hup4 e
  hG : e.st_Gamma_udd4 = st_Gamma_udd4 e
  hcov : e.st_covd_udown4 = st_covd_udown4 e
  hs : e.s_covd_udown4 = s_covd_udown4 e
  hth : e.thetadown4 = thetadown4 e
  htheta : e.theta = theta e
  hu3 : e.udown3 = udown3 e

/-- **C19, end to end.** Default fluid state, any lapse ≠ 0 (time dependent), any shift,
any symmetric metric with inverse γ^{ij}, any symmetric K_ij; every intermediate key computed
by the code's own (regenerated) formula:
expansion `θ = −K`, shear `σ_ij = −A_ij`, vorticity `ω_μν = 0`, acceleration
`a_i = ∂_i α / α` with `a_μ n^μ = 0`. -/
theorem eulerian_kinematics (e : Env K) (h2 : (2 : K) ≠ 0)
    (h : Assembled e) (hv : Velocity e) (he : Eulerian e) (hi : InvMetric e)
    (hgd : e.gammadet = gammadet e) (ha : e.alpha ≠ 0) (hdet : gammadet e ≠ 0)
    (hK : Sym e.Kdown3) (hD : LinD e) (c : Chain e) :
    theta e = -∑ i, ∑ j, e.gammaup3 i j * e.Kdown3 i j
    ∧ (∀ i j : Fin 3, sheardown4 e i.succ j.succ = -Adown3 e i j)
    ∧ (∀ μ ν, omegadown4 e μ ν = 0)
    ∧ (∀ i : Fin 3, accelerationdown4 e i.succ = e.D i e.alpha / e.alpha)
    ∧ ∑ μ, accelerationdown4 e μ * nup4 e μ = 0 := by
  have hu := u_is_normal e he hv
  have hud := udown_is_ndown e he hv h ha
  have hW : e.w_lorentz = 1 := by rw [he.hW]; rfl
  obtain ⟨c00, c0j, ci0, cij⟩ := grad_n e hD hud c.hu3 hW ha c.hG
  rw [← c.hcov] at c00
  have c0j' : ∀ j : Fin 3, e.st_covd_udown4 0 j.succ = e.D j e.alpha - ∑ m, e.betaup3 m * e.Kdown3 m j := by
    intro j; rw [c.hcov]; exact c0j j
  have ci0' : ∀ i : Fin 3, e.st_covd_udown4 i.succ 0 = -∑ m, e.betaup3 m * e.Kdown3 m i := by
    intro i; rw [c.hcov]; exact ci0 i
  have cij' : ∀ i j : Fin 3, e.st_covd_udown4 i.succ j.succ = -e.Kdown3 i j := by
    intro i j; rw [c.hcov]; exact cij i j
  obtain ⟨acc_i, _, acc_n⟩ := acceleration_eulerian e ha hK hu c00 c0j' ci0' cij'
  have g3p1 : ∀ a b, e.gup4 a b = gup3p1 e a b := by
    intro a b; rw [c.hgup]; exact gup4_is_3p1 e h hi hgd ha hdet a b
  obtain ⟨hm0, hmj⟩ := hmixed4_eulerian e h hi ha g3p1 c.hh hud
  rw [← c.hhm] at hm0 hmj
  obtain ⟨sij, s0j, _⟩ := projected_gradient_eulerian e hK hm0 hmj ci0' cij'
  rw [← c.hs] at sij s0j
  have s0j' : ∀ j : Fin 3, e.s_covd_udown4 0 j.succ = e.s_covd_udown4 j.succ 0 := by
    intro j; rw [(s0j j).1, (s0j j).2]
  have hup := hup4_eulerian e ha g3p1 hu
  rw [← c.hhu] at hup
  have tij : ∀ i j : Fin 3, e.thetadown4 i.succ j.succ = -e.Kdown3 i j := by
    intro i j
    rw [c.hth, (projections_spec e i.succ j.succ).2.1, sij i j, sij j i, hK j i]
    field_simp; ring
  have hth := theta_is_minus_K e hup tij
  have hh_ij : ∀ i j : Fin 3, e.hdown4 i.succ j.succ = e.gammadown3 i j := by
    have u1 := hud 1; have u2 := hud 2; have u3 := hud 3
    simp only [core_unfold] at u1 u2 u3
    intro i j
    rw [c.hh]
    revert i j
    cases3 <;> cases3 <;> (simp only [core_unfold, h.hg4, u1, u2, u3]; ring)
  refine ⟨hth, ?_, ?_, acc_i, acc_n⟩
  · intro i j
    exact shear_is_minus_A e i j (tij i j) (by rw [c.htheta]; exact hth) (hh_ij i j)
  · exact omega_vanishes e hK sij s0j'

end AurelVerif.C19
