/-
Props/C20.lean — property theorems for C20 (spin-weighted harmonics and
sphere extraction).  ONLY property statements and non-vacuity examples; the
proofs are in Lemmas/Harm.lean, HarmPhi.lean, HarmLegendre.lean, HarmStd.lean.

Model: Model/Harm.lean (hand-written; tied to maths.sYlm, numerical.interpolate
and the grids of core.Psi4_lm by the correspondence of tools/props/C20.py).
Spec:  Spec/Harm.lean (Rodrigues / associated Legendre functions).

NOT proven in THIS file — see Props/C20b.lean and Props/C20c.lean, which prove:
  * orthonormality over the sphere for all integers s, l, m, l', m' (C20c T18;
    C20b T9 is the kernel-decided table l, l' ≤ 12);
  * exactness of scipy's linear RegularGridInterpolator at nodes / on trilinear
    fields (C20b T17);
  * the θ-midpoint error of the discrete Gram matrix: closed form, explicit
    O(1/N²) bound, convergence of `sYlm_coefficients ∘ sYlm_reconstruct` (C20b T11–T15,
    C20c T20–T22); `DiscreteOrthonormal` below is FALSE on the code's grid (C20b T14);
  * the spin-0 identification for all l (C20b T16; T3 here is the table l ≤ 4).
Still not proven anywhere: the spatial interpolation error of non-trilinear
fields, hence the convergence of `rel['Psi4_lm']` itself (sentinel only).
-/
import AurelVerif.Lemmas.HarmStd

namespace AurelVerif.C20
open AurelVerif.Harm AurelVerif.HarmSpec AurelVerif.HarmLemmas Complex
open scoped Real ComplexConjugate

/-- **T1** the closed-form sum of `maths.sYlm`, for ALL integers `s, l, m`:
(a) for every `r` of the code's loop `range(max(m-s,0), min(l+m,l-s)+1)` both
binomials are `binom(n, k)` with `0 ≤ k ≤ n`, both exponents of `cos(θ/2)`,
`sin(θ/2)` and the exponent of `-1` are `≥ 0` (no negative power at the poles);
(b) for `|s| ≤ l`, every integer `r` outside the loop has a vanishing binomial
coefficient (`n ≥ 0` and `k < 0` or `k > n`): the sum is complete;
(c) for `l < |s|` (or `l < |m|`) the loop is empty and the function returns 0;
(d) `factorial(n)` is `n!` for every `n ≥ 0`, its arguments are `≥ 0` for
`|s|, |m| ≤ l`, the radicand is the textbook one and is positive;
(e) the executable model evaluation is the polynomial `Σ coef · c^a · sn^b`. -/
theorem sum_range_exact (s l m : Int) :
    (∀ r ∈ rRange s l m, (0 ≤ r ∧ r ≤ l - s) ∧ (0 ≤ r + s - m ∧ r + s - m ≤ l + s)
        ∧ 0 ≤ 2 * r + s - m ∧ 0 ≤ 2 * l - 2 * r - s + m ∧ 0 ≤ l - r - s)
    ∧ (|s| ≤ l → ∀ r, r ∉ rRange s l m →
        (0 ≤ l - s ∧ 0 ≤ l + s) ∧ (binomZ (l - s) r = 0 ∨ binomZ (l + s) (r + s - m) = 0))
    ∧ ((l < |s| ∨ l < |m|) → harmTerms s l m = [] ∧ ∀ c sn, sYlmPoly s l m c sn = 0)
    ∧ ((∀ n : Int, 0 ≤ n → pyFactorial n = n.toNat.factorial)
        ∧ (∀ n k : Nat, binomZ n k = (n.choose k : Nat))
        ∧ (|s| ≤ l → |m| ≤ l →
            (0 ≤ l + m ∧ 0 ≤ l - m ∧ 0 ≤ l + s ∧ 0 ≤ l - s) ∧ 0 < normRadicand s l m ∧
            normRadicand s l m =
              ((l + m).toNat.factorial : ℚ) * ((l - m).toNat.factorial : ℚ) * ((2 * l + 1 : ℤ) : ℚ)
                / (((l + s).toNat.factorial : ℚ) * ((l - s).toNat.factorial : ℚ) * 4)))
    ∧ (∀ c sn : ℚ, sYlmPoly s l m c sn = evalK (harmTerms s l m) c sn) := by
  refine ⟨fun r hr => range_args_ok s l m r hr, fun hs r hr => out_of_range_zero s l m r hs hr,
    fun h => ⟨harmTerms_empty s l m h, fun c sn => ?_⟩,
    ⟨pyFactorial_nonneg, binomZ_nonneg, fun hs hm => ⟨?_, ?_, normRadicand_eq s l m hs hm⟩⟩,
    sYlmPoly_eq s l m⟩
  · unfold sYlmPoly; rw [harmTerms_empty s l m h]; rfl
  · have := abs_le.mp hs; have := abs_le.mp hm; omega
  · have := abs_le.mp hs; exact normRadicand_pos s l m (by have := abs_nonneg s; omega)

/-- **T2** exact discrete orthogonality in `m` on the φ grid of `Psi4_lm`
(`Nφ + 1` nodes `φ_k = 2π(k+½)/(Nφ+1)`, weight `Δφ = φ₁ − φ₀`):
`Σ_k conj(e^{i m' φ_k}) e^{i m φ_k} Δφ = 2π δ_{m m'}` whenever `|m − m'| ≤ Nφ`. -/
theorem phi_quadrature_orthogonal (Np : Nat) (m m' : Int) (hd : |m - m'| ≤ (Np : Int)) :
    ∑ k ∈ Finset.range (Np + 1),
        conj (exp (I * (m' : ℂ) * (((phiNode Np k : ℚ) : ℂ) * π)))
          * exp (I * (m : ℂ) * (((phiNode Np k : ℚ) : ℂ) * π)) * (((dPhi Np : ℚ) : ℂ) * π)
      = if m = m' then 2 * (π : ℂ) else 0 :=
  phi_orthogonal Np m m' hd

/-- T2, single-exponential form, and sharpness of the bound (`d = Nφ + 1`
aliases: the rule returns `−2π`). -/
theorem phi_quadrature_exact (Np : Nat) :
    (∀ d : Int, |d| ≤ (Np : Int) →
      ∑ k ∈ Finset.range (Np + 1),
          exp (I * (d : ℂ) * (((phiNode Np k : ℚ) : ℂ) * π)) * (((dPhi Np : ℚ) : ℂ) * π)
        = if d = 0 then 2 * (π : ℂ) else 0)
    ∧ ∑ k ∈ Finset.range (Np + 1),
          exp (I * (((Np : Int) + 1 : ℤ) : ℂ) * (((phiNode Np k : ℚ) : ℂ) * π)) * (((dPhi Np : ℚ) : ℂ) * π)
        = -(2 * (π : ℂ)) :=
  ⟨fun d hd => phi_quadrature Np d hd, phi_quadrature_alias Np⟩

/-- T2 consequence on the real extraction grid (`Ntheta = max(min N, lmax+1)`,
`Nphi = 2 Ntheta`, weights `sin θ_j Δθ Δφ`): two harmonics of the same spin with
`|m|, |m'| ≤ lmax`, `m ≠ m'` have discrete inner product EXACTLY 0, for any
`l, l'` — orthogonality in `m` needs no convergence argument. -/
theorem psi4_grid_m_orthogonal (s : Int) (nx ny nz lmax : Nat) (l m l' m' : Int)
    (hm : |m| ≤ (lmax : Int)) (hm' : |m'| ≤ (lmax : Int)) (hne : m ≠ m') :
    gridGram s (nTheta nx ny nz lmax) l m l' m' = 0 := by
  apply gridGram_offdiag s _ l m l' m' hne
  have h1 := abs_le.mp hm
  have h2 := abs_le.mp hm'
  have h3 : lmax + 1 ≤ nTheta nx ny nz lmax := by unfold nTheta; omega
  unfold nPhi
  rw [abs_le]; constructor <;> push_cast <;> omega

/-- **T3** spin 0, table `l ≤ 4`, every field of characteristic 0, every point
of the circle `c² + sn² = 1` (`c = cos(θ/2)`, `sn = sin(θ/2)`):
`(l+m)! · Σ_r(…) = (−1)^m · l! · P_l^m(cos θ)`, `cos θ = c² − sn²`, `sin θ = 2 c sn`,
with `P_l^m` the associated Legendre function of Spec/Harm.lean INCLUDING the
Condon–Shortley phase. -/
theorem spin0_structure {K : Type} [Field K] [CharZero K] (c sn : K) (h : c ^ 2 + sn ^ 2 = 1)
    (l : Nat) (hl : l ≤ 4) (m : Int) (hm : |m| ≤ (l : Int)) :
    (((l : Int) + m).toNat.factorial : K) * evalK (harmTerms 0 l m) c sn
      = (-1 : K) ^ m.natAbs * (l.factorial : K) * assocLegendre l m (c ^ 2 - sn ^ 2) (2 * c * sn) :=
  spin0_table c sn h l hl m hm

/-- T3 with the normalisation, over ℝ/ℂ — the recorded phase convention: for
`l ≤ 4` the value computed by `maths.sYlm(0, l, m, θ, φ)` equals `(−1)^m` times the
standard `Y_lm = √((2l+1)/(4π)(l−m)!/(l+m)!) P_l^m(cos θ) e^{imφ}`; the code follows
Goldberg et al. 1967 eq. (3.1), which carries no Condon–Shortley phase.
(l > 4: not proven, sentinel only.) -/
theorem spin0_is_standard_upto_phase (l : Nat) (hl : l ≤ 4) (m : Int) (hm : |m| ≤ (l : Int))
    (θ φ : ℝ) :
    sYlmC 0 l m θ φ = (-1 : ℂ) ^ m.natAbs * stdYlm l m θ φ :=
  spin0_is_standard l hl m hm θ φ

/-- **T4** on the closed form, for ALL integers `s, l, m` (no table needed):
the loop for `(−s, l, −m)` yields, term by term and in the same order, the
summands of `(s, l, m)` times `(−1)^(s+m)`; the radicand is invariant. -/
theorem conj_symmetry_terms (s l m : Int) :
    harmTerms (-s) l (-m) = scaleTerms (negOnePow (s + m)) (harmTerms s l m)
    ∧ normRadicand (-s) l (-m) = normRadicand s l m :=
  ⟨harmTerms_neg s l m, normRadicand_neg s l m⟩

/-- T4 for the computed value: `conj(ₛY_lm) = (−1)^(s+m) · ₋ₛY_{l,−m}` for all
`s, l, m, θ, φ`. -/
theorem conj_symmetry (s l m : Int) (θ φ : ℝ) :
    conj (sYlmC s l m θ φ) = ((negOnePow (s + m) : ℤ) : ℂ) * sYlmC (-s) l (-m) θ φ :=
  conj_sYlmC s l m θ φ

/-- **T5** algebraic structure: the coefficient map is linear in the field,
the reconstruction is linear in the coefficients. -/
theorem coefficients_linear {ι κ : Type} [Fintype ι] [Fintype κ] (Y : ι → κ → ℂ) (w : κ → ℂ) :
    (∀ (α β : ℂ) (f g : κ → ℂ) (i : ι),
      coeffs Y w (fun p => α * f p + β * g p) i = α * coeffs Y w f i + β * coeffs Y w g i)
    ∧ (∀ (α β : ℂ) (a b : ι → ℂ) (p : κ),
      recon Y (fun i => α * a i + β * b i) p = α * recon Y a p + β * recon Y b p) :=
  ⟨coeffs_linear Y w, recon_linear Y⟩

/-- T5, no hidden state: the coefficient map and the reconstruction are
functions of what is passed in THIS call only — the harmonics at the angles of
this call (`Y`), the weights (`w`), the field / the coefficients.  In the pure
model this holds by construction (a Lean function has no state; the statement
below is congruence).  That the Python functions behave like this model — in
particular that nothing is remembered between calls, e.g. a basis cached per
array shape — is carried by the correspondence `corr_history` of
tools/props/C20.py (several samplings of one shape in one process, any order,
first one revisited, each compared with these sums at the angles passed). -/
theorem coefficients_stateless {ι κ : Type} [Fintype ι] [Fintype κ]
    (Y Y' : ι → κ → ℂ) (w w' f f' : κ → ℂ) (a a' : ι → ℂ)
    (hY : ∀ i p, Y i p = Y' i p) (hw : ∀ p, w p = w' p) (hf : ∀ p, f p = f' p) (ha : ∀ i, a i = a' i) :
    (∀ i, coeffs Y w f i = coeffs Y' w' f' i) ∧ (∀ p, recon Y a p = recon Y' a' p) := by
  have e1 : Y = Y' := funext fun i => funext fun p => hY i p
  have e2 : w = w' := funext hw
  have e3 : f = f' := funext hf
  have e4 : a = a' := funext ha
  subst e1 e2 e3 e4
  exact ⟨fun _ => rfl, fun _ => rfl⟩

/-- the part of "decomposition inverts synthesis" that is NOT proven: the
harmonics are orthonormal for the discrete inner product of the grid.  (On the
code's grid it holds exactly in `m` — `psi4_grid_m_orthogonal` — and only up to
the θ-midpoint quadrature error in `l`.) -/
def DiscreteOrthonormal {ι κ : Type} [Fintype κ] [DecidableEq ι] (Y : ι → κ → ℂ) (w : κ → ℂ) : Prop :=
  ∀ i j, gram Y w i j = if i = j then 1 else 0

/-- T5: decomposition after synthesis is multiplication by the discrete Gram
matrix; PARTIAL round trip: it is the identity IF the Gram matrix is the
identity (hypothesis not discharged in Lean; sentinel). -/
theorem roundtrip_partial {ι κ : Type} [Fintype ι] [Fintype κ] [DecidableEq ι]
    (Y : ι → κ → ℂ) (w : κ → ℂ) (a : ι → ℂ) :
    (∀ i, coeffs Y w (recon Y a) i = ∑ j, gram Y w i j * a j)
    ∧ (DiscreteOrthonormal Y w → ∀ i, coeffs Y w (recon Y a) i = a i) :=
  ⟨coeffs_recon Y w a, fun h i => roundtrip_of_orthonormal Y w h a i⟩

/-- **T6** decision logic of the bounds check of `numerical.interpolate`
(axes non-empty): it passes iff on every axis every target coordinate lies
between two grid coordinates of that axis (`Inside`, i.e. in `[min, max]`,
boundary included); otherwise the reported dimension is the FIRST such axis. -/
theorem interpolate_bounds_decision (gs ts : List (List ℚ)) (ht : ∀ t ∈ ts, t ≠ []) :
    (boundsCheck gs ts = .ok ↔ List.Forall₂ Inside gs ts)
    ∧ (∀ d, boundsCheck gs ts = .outOfBounds d →
        ∃ g t, gs[d]? = some g ∧ ts[d]? = some t ∧ ¬ Inside g t
          ∧ ∀ j < d, ∀ g' t', gs[j]? = some g' → ts[j]? = some t' → Inside g' t') := by
  refine ⟨boundsLoop_ok_iff 0 gs ts ht, fun d hd => ?_⟩
  obtain ⟨k, g, t, hk, h1, h2, h3, h4⟩ := boundsLoop_oob 0 gs ts d hd
  have : d = k := by omega
  subst this
  exact ⟨g, t, h1, h2, h3, h4⟩

/-- the angular grids in closed form: `θ_j/π = (2j+1)/(2(N+1))`, `Δθ/π = 1/(N+1)`,
`φ_k/π = (2k+1)/(Nφ+1)`, `Δφ/π = 2/(Nφ+1)`, and `Ntheta ≥ lmax + 1`. -/
theorem grid_formulas (N j k : Nat) :
    thetaNode N j = (2 * (j : ℚ) + 1) / (2 * ((N : ℚ) + 1)) ∧ dTheta N = 1 / ((N : ℚ) + 1)
    ∧ phiNode (nPhi N) k = (2 * (k : ℚ) + 1) / (((nPhi N : Nat) : ℚ) + 1)
    ∧ dPhi (nPhi N) = 2 / (((nPhi N : Nat) : ℚ) + 1)
    ∧ ∀ nx ny nz lmax, lmax + 1 ≤ nTheta nx ny nz lmax := by
  refine ⟨thetaNode_eq N j, dTheta_eq N, ?_, dPhi_eq _, fun nx ny nz lmax => ?_⟩
  · unfold phiNode
    have : (((nPhi N : Nat) : ℚ) + 1) ≠ 0 := by positivity
    field_simp
  · unfold nTheta; omega

/-! ### non-vacuity -/

/-- ₋₂Y₂₂: one term, `c⁴` -/
example : harmTerms (-2) 2 2 = [⟨1, 4, 0⟩] := by decide +kernel
/-- ₋₂Y₃₁ has two terms of opposite sign -/
example : harmTerms (-2) 3 1 = [⟨10, 3, 3⟩, ⟨-5, 5, 1⟩] := by decide +kernel
/-- a point of the circle with rational coordinates: (3/5, 4/5) -/
example : sYlmPoly (-2) 3 1 (3 / 5) (4 / 5) = 10 * (3 / 5) ^ 3 * (4 / 5) ^ 3 - 5 * (3 / 5) ^ 5 * (4 / 5) := by
  decide +kernel
example : ((3 : ℚ) / 5) ^ 2 + (4 / 5) ^ 2 = 1 := by norm_num
/-- below the spin the loop is empty -/
example : harmTerms 2 1 0 = [] ∧ harmTerms (-2) 1 1 = [] := by decide +kernel
example : normRadicand (-2) 2 2 = 5 / 4 := by decide +kernel
/-- symmetry instance -/
example : harmTerms 2 3 (-1) = scaleTerms (negOnePow (-2 + 1)) (harmTerms (-2) 3 1) := by decide +kernel
/-- the φ hypothesis is met by all pairs of the code: `|m − m'| ≤ 2 lmax ≤ Nφ` -/
example : |(8 : Int) - (-8)| ≤ ((nPhi (nTheta 4 4 4 8) : Nat) : Int) := by decide
/-- bounds check: boundary points are accepted, anything beyond is refused on the first bad axis -/
example : boundsCheck [[0, 1, 2], [0, 1]] [[0, 2], [1]] = .ok := by decide +kernel
example : boundsCheck [[0, 1, 2], [0, 1]] [[0, 2], [1, 3 / 2]] = .outOfBounds 1 := by decide +kernel
example : Inside [0, 1, 2] [0, 2] := by
  intro x hx
  simp only [List.mem_cons, List.not_mem_nil, or_false] at hx
  rcases hx with rfl | rfl
  · exact ⟨⟨0, by simp, le_refl _⟩, ⟨0, by simp, le_refl _⟩⟩
  · exact ⟨⟨0, by simp, by norm_num⟩, ⟨2, by simp, le_refl _⟩⟩
example : thetaGrid 2 = [1 / 6, 1 / 2, 5 / 6] ∧ dTheta 2 = 1 / 3 ∧ dPhi 4 = 2 / 5 := by decide +kernel

end AurelVerif.C20
