/-
Props/C16.lean — property theorems for C16 (the grid object describes exactly
the grid the parameters specify).  ONLY property statements and non-vacuity
examples; proofs are in Lemmas/Grid.lean.

Model: Model/Grid.lean (hand-written after `FiniteDifference.__init__`,
`cutoffmask`, `cutoffmask2`, `excision`, `excision2`, `AurelCore.data_shape`)
and the real-valued `cartToSph` / `sphToCart` of Lemmas/Grid.lean (written
after `cartesian_to_spherical` / `spherical_to_cartesian`, with numpy's
`arctan2(b, a)` modelled as `Complex.arg ⟨a, b⟩`).  Both are tied to
the code by the correspondence of tools/props/C16.py.

Scalars of the discrete part are exact rationals: T1 is about the grid the
parameters specify, `min + i·d`.  The code evaluates the same expression in
IEEE double; the harness checks the float values against the very expression
(exact equality) and against the model's rational (rigorous two-rounding bound).
-/
import AurelVerif.Lemmas.Grid

namespace AurelVerif.C16
open AurelVerif.Splice AurelVerif.Grid AurelVerif.GridLemmas

/-- **T1** `arange_exact`: for every `N ≥ 1`, every `min` and every `d > 0` the
coordinate array `min + np.arange(N)*d` has exactly `N` points, point `i` is
`min + i·d`, the reported maximum (`xarray[-1]`) is the last grid point
`min + (N−1)·d`, and the points are strictly increasing. -/
theorem arange_exact (N : Nat) (mn d : Rat) (hN : 1 ≤ N) (hd : 0 < d) :
    (coords N mn d).length = N
    ∧ (∀ i < N, (coords N mn d)[i]? = some (mn + (i : Rat) * d))
    ∧ last (coords N mn d) = some (mn + ((N - 1 : Nat) : Rat) * d)
    ∧ (∀ i j, i < j → j < N → coord mn d i < coord mn d j) :=
  ⟨coords_length N mn d, fun i hi => coords_getElem? N mn d i hi, last_coords N mn d hN,
   fun i j hij _ => coord_strictMono mn d hd i j hij⟩

/-- the constructor raises (`xarray[-1]` of an empty array) exactly when some `N` is 0. -/
theorem constructor_defined_iff (p : Param) (o : Nat) :
    (mkGrid p o).isSome = true ↔ 1 ≤ p.Nx ∧ 1 ≤ p.Ny ∧ 1 ≤ p.Nz :=
  mkGrid_isSome_iff p o

/-- **T2** shapes: for `Nx, Ny, Nz ≥ 1` the object exists; `(fd.Nx, fd.Ny, fd.Nz)`
equals `AurelCore.data_shape = (param['Nx'], param['Ny'], param['Nz'])`; the 1-D
arrays have `N` points; `x, y, z` and the array of spherical coordinates are
rectangular of shape `(Nx, Ny, Nz)`; `cartesian_coords = [x, y, z]`; and
(`indexing='ij'`) `x[i][j][k] = xmin + i·dx`, `y[i][j][k] = ymin + j·dy`,
`z[i][j][k] = zmin + k·dz`, the spherical entry at `[i][j][k]` is the conversion
of exactly that point. -/
theorem shapes (p : Param) (o : Nat) (hx : 1 ≤ p.Nx) (hy : 1 ≤ p.Ny) (hz : 1 ≤ p.Nz) :
    ∃ g, mkGrid p o = some g
      ∧ fdShape g = dataShape p
      ∧ g.xarray.length = p.Nx ∧ g.yarray.length = p.Ny ∧ g.zarray.length = p.Nz
      ∧ IsShape g.x p.Nx p.Ny p.Nz ∧ IsShape g.y p.Nx p.Ny p.Nz ∧ IsShape g.z p.Nx p.Ny p.Nz
      ∧ g.cartesian = [g.x, g.y, g.z]
      ∧ IsShape g.sph p.Nx p.Ny p.Nz
      ∧ (∀ i j k, i < p.Nx → j < p.Ny → k < p.Nz →
          get3 g.x i j k = some (coord p.xmin p.dx i)
          ∧ get3 g.y i j k = some (coord p.ymin p.dy j)
          ∧ get3 g.z i j k = some (coord p.zmin p.dz k)
          ∧ get3 g.sph i j k = some (sphPt (coord p.xmin p.dx i) (coord p.ymin p.dy j)
              (coord p.zmin p.dz k))) :=
  grid_shapes p o hx hy hz

/-- **T2b** every stored scalar of the object: extents are the last grid points,
centre indices are `np.argmin(|·|)`, `fd_order` falls back to 4, `mask_len = fd_order/2`. -/
theorem attributes (p : Param) (o : Nat) (hx : 1 ≤ p.Nx) (hy : 1 ≤ p.Ny) (hz : 1 ≤ p.Nz) :
    ∃ g, mkGrid p o = some g
      ∧ g.xarray = coords p.Nx p.xmin p.dx ∧ g.yarray = coords p.Ny p.ymin p.dy
      ∧ g.zarray = coords p.Nz p.zmin p.dz
      ∧ g.Nx = p.Nx ∧ g.Ny = p.Ny ∧ g.Nz = p.Nz
      ∧ g.xmax = p.xmin + ((p.Nx - 1 : Nat) : Rat) * p.dx
      ∧ g.ymax = p.ymin + ((p.Ny - 1 : Nat) : Rat) * p.dy
      ∧ g.zmax = p.zmin + ((p.Nz - 1 : Nat) : Rat) * p.dz
      ∧ argminAbs g.xarray = some g.ixcenter ∧ argminAbs g.yarray = some g.iycenter
      ∧ argminAbs g.zarray = some g.izcenter
      ∧ g.x = meshX g.xarray p.Ny p.Nz ∧ g.y = meshY p.Nx g.yarray p.Nz
      ∧ g.z = meshZ p.Nx p.Ny g.zarray
      ∧ g.cartesian = [g.x, g.y, g.z]
      ∧ g.sph = pointwise3 sphPt g.x g.y g.z
      ∧ g.fdOrder = normOrder o ∧ g.maskLen = normOrder o / 2 :=
  mkGrid_spec p o hx hy hz

/-- **T2c** any elementwise function of three arrays of the data shape (`r`,
`theta`, `phi` are such) has the data shape. -/
theorem pointwise_shape {α β : Type} (g : α → α → α → β) (x y z : Arr3 α) (nx ny nz : Nat)
    (hx : IsShape x nx ny nz) (hy : IsShape y nx ny nz) (hz : IsShape z nx ny nz) :
    IsShape (pointwise3 g x y z) nx ny nz :=
  pointwise3_shape g x y z nx ny nz hx hy hz

/-- **T2d** the stacking orders the code uses, recorded, not judged:
`cartesian_to_spherical` returns `(r, theta, phi)` = (radius, inclination,
azimuth); `spherical_coords` stores `[r, phi, theta]` = (radius, AZIMUTH,
inclination) — the attribute documentation reads "radius, inclination/polar
and azimuth". -/
theorem stacking_orders :
    cartToSphReturnOrder = [.r, .theta, .phi] ∧ sphericalCoordsOrder = [.r, .phi, .theta]
    ∧ cartesianCoordsOrder = ["x", "y", "z"] := ⟨rfl, rfl, rfl⟩

/-- **T3** `spherical_roundtrip`: with `r, θ, φ` computed exactly as the code
does — `r = √(x²+y²+z²)`, `φ = arctan2(y, x)`, the mask
`sign(y) = 0 ∧ sign(x) < 0 ⇒ φ = −π`, `θ = arctan2(√(x²+y²), z)`; numpy's
`arctan2(b, a)` on reals is `Complex.arg ⟨a, b⟩` ∈ (−π, π] with `arctan2(0, 0) = 0`
(signed zeros are outside the exact-real model) —
`spherical_to_cartesian(cartesian_to_spherical(x, y, z)) = (x, y, z)` for EVERY
real `(x, y, z)`, the z-axis and the origin included. -/
theorem spherical_roundtrip (x y z : ℝ) :
    (let s := cartToSph x y z; sphToCart s.1 s.2.1 s.2.2) = (x, y, z) :=
  GridLemmas.spherical_roundtrip x y z

/-- **T3b** ranges: `r ≥ 0`, `θ ∈ [0, π]`, `φ ∈ [−π, π]`. -/
theorem spherical_ranges (x y z : ℝ) :
    0 ≤ (cartToSph x y z).1
    ∧ 0 ≤ (cartToSph x y z).2.1 ∧ (cartToSph x y z).2.1 ≤ Real.pi
    ∧ -Real.pi ≤ (cartToSph x y z).2.2 ∧ (cartToSph x y z).2.2 ≤ Real.pi :=
  ⟨cartToSph_r_nonneg x y z, (cartToSph_theta_range x y z).1, (cartToSph_theta_range x y z).2,
   (cartToSph_phi_range x y z).1, (cartToSph_phi_range x y z).2⟩

/-- **T3c** the discrete descriptor stored by the executable model
(`Grid.sph`, compared with the real code by the harness) describes the
real-valued map at every rational point: `r = √r2`, `θ = arctan2(√rho2, z)`;
`masked ⇒ φ = −π`; otherwise `φ = arctan2(y, x)` with the sign of `y` (0 when
`y = 0`); on the z-axis `φ = 0` and `θ = 0` (`z ≥ 0`) or `π` (`z < 0`); in the
plane `z = 0` off the axis `θ = π/2`; at the origin `r = θ = φ = 0`. -/
theorem sph_descriptor_sound (x y z : ℚ) :
    (cartToSph x y z).1 = Real.sqrt (((sphPt x y z).r2 : ℚ) : ℝ)
    ∧ (cartToSph x y z).2.1 = arctan2 (Real.sqrt (((sphPt x y z).rho2 : ℚ) : ℝ)) z
    ∧ ((sphPt x y z).masked = true → (cartToSph x y z).2.2 = -Real.pi)
    ∧ ((sphPt x y z).masked = false → (cartToSph x y z).2.2 = arctan2 y x
        ∧ ((sphPt x y z).sgnY = 1 → 0 < (cartToSph x y z).2.2)
        ∧ ((sphPt x y z).sgnY = -1 → (cartToSph x y z).2.2 < 0)
        ∧ ((sphPt x y z).sgnY = 0 → (cartToSph x y z).2.2 = 0))
    ∧ ((sphPt x y z).onAxis = true → (cartToSph x y z).2.2 = 0
        ∧ (0 ≤ (sphPt x y z).sgnZ → (cartToSph x y z).2.1 = 0)
        ∧ ((sphPt x y z).sgnZ < 0 → (cartToSph x y z).2.1 = Real.pi))
    ∧ ((sphPt x y z).onAxis = false → (sphPt x y z).sgnZ = 0 →
        (cartToSph x y z).2.1 = Real.pi / 2)
    ∧ ((sphPt x y z).origin = true → (cartToSph x y z).1 = 0 ∧ (cartToSph x y z).2.1 = 0
        ∧ (cartToSph x y z).2.2 = 0) :=
  sphPt_sound x y z

/-- `np.arctan2(b, a)` is the argument of `a + i b`: in (−π, π], 0 at the origin. -/
theorem arctan2_is_arg (b a : ℝ) :
    arctan2 b a = Complex.arg ⟨a, b⟩ ∧ -Real.pi < arctan2 b a ∧ arctan2 b a ≤ Real.pi
    ∧ arctan2 0 0 = 0 :=
  ⟨rfl, Complex.neg_pi_lt_arg _, Complex.arg_le_pi _, by
    unfold arctan2; exact Complex.arg_eq_zero_iff.mpr ⟨le_refl _, rfl⟩⟩

/-- **T4** `f[m:-m]` for every `m ≥ 1` and every length `n` (rank 1): exactly `m`
samples go on each side — the result has `n − 2m` samples (0 when `n ≤ 2m`) and
sample `i` of the result is sample `i + m` of the input. -/
theorem cut_exact {α : Type} (m : Nat) (hm : 1 ≤ m) (f : List α) :
    cut1 m f = (f.drop m).take (f.length - 2 * m)
    ∧ (cut1 m f).length = f.length - 2 * m
    ∧ ∀ i < f.length - 2 * m, (cut1 m f)[i]? = f[i + m]? :=
  ⟨cut1_eq m hm f, cut1_length m hm f, fun i hi => cut1_getElem? m hm f i hi⟩

/-- `mask_len ≥ 1` for every `fd_order` passed; for the offered orders it is
`p/2` and `cutoffmask2` uses `2·mask_len = p`. -/
theorem maskLen_table :
    (∀ o, 1 ≤ maskLen o) ∧ (∀ o ∈ [2, 4, 6, 8], maskLen o = o / 2 ∧ 2 * maskLen o = o)
    ∧ (∀ o, o ∉ [2, 4, 6, 8] → maskLen o = 2) := by
  refine ⟨maskLen_pos, by decide, ?_⟩
  intro o ho
  simp only [List.mem_cons, List.not_mem_nil, or_false, not_or] at ho
  simp [maskLen, normOrder, ho.1, ho.2.2.1, ho.2.2.2]

/-- **T4** `cutoffmask`, rank 1, every `fd_order`, every length. -/
theorem cutoffmask_rank1 {α : Type} (o : Nat) (f : List α) :
    (cutoffmask1 o f).length = f.length - 2 * maskLen o
    ∧ ∀ i < f.length - 2 * maskLen o, (cutoffmask1 o f)[i]? = f[i + maskLen o]? :=
  ⟨cut1_length _ (maskLen_pos o) f, fun i hi => cut1_getElem? _ (maskLen_pos o) f i hi⟩

/-- **T4** `cutoffmask2`, rank 1: exactly `2·mask_len` (= p) per side. -/
theorem cutoffmask2_rank1 {α : Type} (o : Nat) (f : List α) :
    (cutoffmaskTwice1 o f).length = f.length - 2 * (2 * maskLen o)
    ∧ ∀ i < f.length - 2 * (2 * maskLen o), (cutoffmaskTwice1 o f)[i]? = f[i + 2 * maskLen o]? :=
  have h : 1 ≤ 2 * maskLen o := by have := maskLen_pos o; omega
  ⟨cut1_length _ h f, fun i hi => cut1_getElem? _ h f i hi⟩

/-- **T4** rank 2, both helpers (`m = mask_len` resp. `2·mask_len`): an
`(nx, ny)` array becomes `(nx − 2m, ny − 2m)` and entry `[i][j]` of the result is
entry `[i+m][j+m]` of the input. -/
theorem cutoff_rank2 {α : Type} (m : Nat) (hm : 1 ≤ m) (f : List (List α)) (ny : Nat)
    (hf : ∀ r ∈ f, r.length = ny) :
    (cutoff2 m f).length = f.length - 2 * m ∧ (∀ r ∈ cutoff2 m f, r.length = ny - 2 * m)
    ∧ ∀ i j, i < f.length - 2 * m → j < ny - 2 * m →
        ((cutoff2 m f)[i]?).bind (·[j]?) = (f[i + m]?).bind (·[j + m]?) :=
  ⟨(cutoff2_shape m hm f ny hf).1, (cutoff2_shape m hm f ny hf).2,
   fun i j hi hj => cutoff2_get m hm f ny hf i j hi hj⟩

theorem cutoffmask_rank2 {α : Type} (o : Nat) (f : List (List α)) (ny : Nat)
    (hf : ∀ r ∈ f, r.length = ny) :
    (cutoffmask2d o f).length = f.length - 2 * maskLen o
    ∧ (∀ r ∈ cutoffmask2d o f, r.length = ny - 2 * maskLen o)
    ∧ ∀ i j, i < f.length - 2 * maskLen o → j < ny - 2 * maskLen o →
        ((cutoffmask2d o f)[i]?).bind (·[j]?) = (f[i + maskLen o]?).bind (·[j + maskLen o]?) :=
  cutoff_rank2 (maskLen o) (maskLen_pos o) f ny hf

theorem cutoffmask2_rank2 {α : Type} (o : Nat) (f : List (List α)) (ny : Nat)
    (hf : ∀ r ∈ f, r.length = ny) :
    (cutoffmaskTwice2d o f).length = f.length - 2 * (2 * maskLen o)
    ∧ (∀ r ∈ cutoffmaskTwice2d o f, r.length = ny - 2 * (2 * maskLen o))
    ∧ ∀ i j, i < f.length - 2 * (2 * maskLen o) → j < ny - 2 * (2 * maskLen o) →
        ((cutoffmaskTwice2d o f)[i]?).bind (·[j]?)
          = (f[i + 2 * maskLen o]?).bind (·[j + 2 * maskLen o]?) :=
  cutoff_rank2 (2 * maskLen o) (by have := maskLen_pos o; omega) f ny hf

/-- **T4** rank 3, both helpers: an `(nx, ny, nz)` array becomes
`(nx − 2m, ny − 2m, nz − 2m)` and entry `[i][j][k]` of the result is entry
`[i+m][j+m][k+m]` of the input. -/
theorem cutoff_rank3 {α : Type} (m : Nat) (hm : 1 ≤ m) (f : Arr3 α) (nx ny nz : Nat)
    (hf : IsShape f nx ny nz) :
    IsShape (cutoff3 m f) (nx - 2 * m) (ny - 2 * m) (nz - 2 * m)
    ∧ ∀ i j k, i < nx - 2 * m → j < ny - 2 * m → k < nz - 2 * m →
        get3 (cutoff3 m f) i j k = get3 f (i + m) (j + m) (k + m) :=
  ⟨cutoff3_shape m hm f nx ny nz hf, fun i j k hi hj hk => cutoff3_get m hm f nx ny nz hf i j k hi hj hk⟩

theorem cutoffmask_rank3 {α : Type} (o : Nat) (f : Arr3 α) (nx ny nz : Nat) (hf : IsShape f nx ny nz) :
    IsShape (cutoffmask3 o f) (nx - 2 * maskLen o) (ny - 2 * maskLen o) (nz - 2 * maskLen o)
    ∧ ∀ i j k, i < nx - 2 * maskLen o → j < ny - 2 * maskLen o → k < nz - 2 * maskLen o →
        get3 (cutoffmask3 o f) i j k = get3 f (i + maskLen o) (j + maskLen o) (k + maskLen o) :=
  cutoff_rank3 (maskLen o) (maskLen_pos o) f nx ny nz hf

theorem cutoffmask2_rank3 {α : Type} (o : Nat) (f : Arr3 α) (nx ny nz : Nat) (hf : IsShape f nx ny nz) :
    IsShape (cutoffmaskTwice3 o f) (nx - 2 * (2 * maskLen o)) (ny - 2 * (2 * maskLen o))
      (nz - 2 * (2 * maskLen o))
    ∧ ∀ i j k, i < nx - 2 * (2 * maskLen o) → j < ny - 2 * (2 * maskLen o) →
        k < nz - 2 * (2 * maskLen o) →
        get3 (cutoffmaskTwice3 o f) i j k
          = get3 f (i + 2 * maskLen o) (j + 2 * maskLen o) (k + 2 * maskLen o) :=
  cutoff_rank3 (2 * maskLen o) (by have := maskLen_pos o; omega) f nx ny nz hf

/-- **T5** `ixcenter = np.argmin(|xarray|)` is an index of minimal `|x|`, and
the first such. -/
theorem ixcenter_minimal (l : List Rat) (hne : l ≠ []) :
    ∃ k, argminAbs l = some k ∧ ∃ hk : k < l.length,
      (∀ j (hj : j < l.length), |l[k]| ≤ |l[j]|) ∧
      (∀ j (hj : j < k), |l[k]| < |l[j]'(Nat.lt_trans hj hk)|) :=
  argminAbs_spec l hne

/-- **T6** (what `excision` does; not part of the property text) the slice
`is−m−b : is+m+1+b` (`w = m + b`) on an axis of `n` points:
* centre at least `w` from both ends: exactly the `2w+1` indices `c−w … c+w`;
* centre within `w` of the upper end: clamped, `c−w … n−1`;
* centre within `w` of the LOWER end (`c < w`, `n ≥ 2w+1`): the negative start
  counts from the end and the slice is EMPTY — nothing is excised along that
  axis, not even the centre point. -/
theorem excision_slice (n c w : Nat) :
    (w ≤ c → c + w + 1 ≤ n →
      pySlice (List.range n) ((c : Int) - w) ((c : Int) + w + 1) = List.range' (c - w) (2 * w + 1))
    ∧ (w ≤ c → c < n → n < c + w + 1 →
      pySlice (List.range n) ((c : Int) - w) ((c : Int) + w + 1) = List.range' (c - w) (n - (c - w)))
    ∧ (c < w → 2 * w + 1 ≤ n →
      pySlice (List.range n) ((c : Int) - w) ((c : Int) + w + 1) = []) :=
  ⟨around_interior n c w, around_high_edge n c w, around_low_edge_empty n c w⟩

/-! Non-vacuity and concrete instances. -/
example : (coords 30 (-21/2) (7/10)).length = 30 := by decide +kernel
example : last (coords 30 (-21/2) (7/10)) = some (49/5) := by decide +kernel
example : argminAbs (coords 30 (-21/2) (7/10)) = some 15 := by decide +kernel
/-- ties: the FIRST index of minimal |x| is reported (`-1/2` and `1/2`). -/
example : argminAbs (coords 4 (-3/2) 1) = some 1 := by decide +kernel
example : (mkGrid ⟨3, 2, 4, -1, 0, -3/2, 1, 1/2, 1⟩ 4).isSome = true := by decide +kernel
example : (mkGrid ⟨3, 0, 4, -1, 0, -3/2, 1, 1/2, 1⟩ 4).isSome = false := by decide +kernel
example : cutoffmask1 4 (List.range 10) = [2, 3, 4, 5, 6, 7] := by decide +kernel
example : cutoffmaskTwice1 4 (List.range 10) = [4, 5] := by decide +kernel
/-- `m = 0` is excluded for a reason: `f[0:-0]` is empty. -/
example : cut1 0 (List.range 5) = [] := by decide +kernel
/-- on the negative x half-plane the mask is taken; the z-axis; the origin. -/
example : (sphPt (-1) 0 2).masked = true := by decide +kernel
example : (sphPt 0 0 (-2)).onAxis = true ∧ (sphPt 0 0 (-2)).origin = false
    ∧ (sphPt 0 0 (-2)).sgnZ = -1 := by decide +kernel
example : (sphPt 0 0 0).origin = true := by decide +kernel
/-- a grid whose corner is the centre (`xmin = ymin = zmin = 0`, octant): `excision`
with `isingularity='find'` leaves every sample, the centre included, untouched. -/
example :
    let f : Arr3 (Option Nat) := List.replicate 9 (List.replicate 9 (List.replicate 9 (some 1)))
    excision 2 f (some 0) (some 0) (some 0) = some f := by decide +kernel
/-- centre in the interior: the three lines through it are excised. -/
example :
    let f : Arr3 (Option Nat) := List.replicate 7 (List.replicate 1 (List.replicate 1 (some 1)))
    excision 1 f (some 3) (some 0) (some 0)
      = some [[[some 1]], [[none]], [[none]], [[none]], [[none]], [[none]], [[some 1]]] := by
  decide +kernel

end AurelVerif.C16
