/-
Props/C13.lean — property theorems for C13 (save_data / read_data round-trip
in Aurel format).  ONLY property statements and non-vacuity examples; the
proofs are in Lemmas/Store.lean, the vocabulary in Spec/Store.lean.

Model: Model/Store.lean (hand-written, literal; tied to the code by the
history correspondence of tools/props/C13.py).

  Store                 association list  iteration ↦ (dataset key ↦ value)
  Spec                  (it, name, rl) → Option Val        abstract contents
  absStore s            the abstraction function
  runSaves [] as = some s    every save of the history `as` returned normally
  lastSaved as i v r    value most recently saved for (i, v, r): the entry of the
                        saved column that stands where iteration i stands in the
                        saved dictionary's own `data['it']` (first occurrence) —
                        or at the rank of i among the requested iterations when
                        the dictionary has no iteration list; `none` if none

T5 (arguments untouched) has no content in a pure model; it is checked
dynamically on the real code by tools/props/C13.py (deep copy / identity).
-/
import AurelVerif.Lemmas.Store

namespace AurelVerif.C13
open AurelVerif.Store

/-! ## T1  read after saves -/

/-- T1 (full strength).  After any sequence of successful saves,
`read_data(it, vars, rl)` returns normally (for a non-empty `it`); every returned
list — `'t'` included, whether requested explicitly or added automatically —
has exactly one entry per requested iteration, in increasing order: the value
most recently saved for `(i, v, rl)` (the entry of the saved dictionary that
belongs to iteration `i`), `None` where nothing was saved; every requested
variable and `'t'` is present; `'it'` is the sorted, duplicate-free iteration
list. -/
theorem read_after_saves (as : List SaveArgs) (s : Store) (h : runSaves [] as = some s)
    (q : ReadArgs) (hq : q.it ≠ []) :
    ∃ res, read s q = .ok res ∧
      (∀ v c, alGet v res = some (.col c) →
        c = (sortedSet q.it).map (fun i => lastSaved as i v q.rl) ∧
        c.length = (sortedSet q.it).length) ∧
      (∀ v, v ∈ q.vars ∨ v = "t" → ∃ c, alGet v res = some (.col c)) ∧
      ("it" ∉ q.vars → alGet "it" res = some (.its (sortedSet q.it))) :=
  Store.read_after_saves as s h q hq

/-- `read_data` rejects exactly the empty iteration list (ValueError) -/
theorem read_rejects_iff (s : Store) (q : ReadArgs) :
    (read s q = .error .valueError ↔ q.it = []) ∧ (∀ e, read s q = .error e → e = .valueError) :=
  Store.read_rejects_iff s q

-- non-vacuity: an overwriting history with a subset of unsorted, duplicated iterations
def hist : List SaveArgs :=
  [ { data := [("it", some [some 0, some 10, some 20]), ("t", some [some 100, some 101, some 102]),
               ("rho", some [some 1, some 2, some 3]), ("K", none)], it := [20, 0, 20] },
    { data := [("rho", some [some 7]), ("it", some [some 20])], vars := ["rho"], it := [20] },
    { data := [("rho", some [some 8, some 9])], it := [5, 1], rl := 1 } ]

example : (runSaves [] hist).isSome = true := by decide
example : lastSaved hist 20 "rho" 0 = some 7 := by decide       -- overwritten
example : lastSaved hist 0 "rho" 0 = some 1 := by decide        -- entry of iteration 0, not position 0 of [0,20]
example : lastSaved hist 20 "t" 0 = some 102 := by decide       -- entry of iteration 20 (position 2)
example : lastSaved hist 10 "rho" 0 = none := by decide         -- not selected
example : lastSaved hist 5 "rho" 1 = some 9 := by decide        -- no iteration list: rank in sorted [1,5]
example : (read ((runSaves [] hist).getD []) { vars := ["rho"], it := [20, 7, 0] }).toOption =
    some [("it", .its [0, 7, 20]), ("rho", .col [some 1, none, some 7]), ("t", .col [some 100, none, some 102])] := by
  decide
-- 't' requested explicitly (the former defect: two entries per iteration): one entry each
example : (read [] { vars := ["t"], it := [0] }).toOption = some [("it", .its [0]), ("t", .col [none])] := by
  decide
example : (read ((runSaves [] hist).getD []) { vars := ["t", "rho"], it := [0, 20, 5] }).toOption =
    some [("it", .its [0, 5, 20]), ("t", .col [some 100, none, some 102]), ("rho", .col [some 1, none, some 7])] := by
  decide

/-! ## T2  overwrite and frame -/

/-- T2a (refinement).  A save that returns normally overrides exactly the cells it
names with the entry that belongs to their iteration; every other cell keeps its
value (`specSave`). -/
theorem save_refines_spec (s : Store) (a : SaveArgs) (h : (save s a).2 = none) :
    absStore (save s a).1 = specSave a (absStore s) :=
  Store.save_refines_fun s a (by rw [← save_err s a]; exact h)

/-- T2b (frame), whatever the outcome — also when the save raises half-way: a cell
that the call does not name (other level, iteration not requested, variable not
selected, or column `None`) is unchanged. -/
theorem save_frame (s : Store) (a : SaveArgs) (i : Int) (v : String) (r : Nat) (h : ¬ Names a i v r) :
    absStore (save s a).1 i v r = absStore s i v r :=
  Store.save_frame s a i v r h

example : Names hist[0] 20 "rho" 0 := by decide
example : ¬ Names hist[0] 10 "rho" 0 := by decide     -- iteration of the dictionary that is not requested
example : ¬ Names hist[0] 20 "K" 0 := by decide       -- column None: skipped
example : ¬ Names hist[1] 20 "t" 0 := by decide       -- not selected, not in the dictionary

/-! ## T3  the rejected inputs -/

/-- T3a.  The exception class is a function of the arguments alone (`saveErr`
does not look at the store). -/
theorem save_error_is_saveErr (s : Store) (a : SaveArgs) : (save s a).2 = saveErr a :=
  Store.save_err s a

/-- T3b.  The exact set of accepted inputs (`Accepts`, Spec/Store.lean): every
requested iteration occurs in `data['it']` when the dictionary has an iteration
list (else ValueError); every selected variable is a key (else KeyError); every
selected column that is not `None` has, at the position of each requested
iteration, an entry (else IndexError) that is not `None` (else TypeError of
`create_dataset`).  A whole history is accepted iff each call is. -/
theorem save_accepts_iff (s : Store) (a : SaveArgs) : (save s a).2 = none ↔ Accepts a := by
  rw [Store.save_err]; exact Store.save_accepts_iff a

theorem history_accepted_iff (as : List SaveArgs) (s : Store) :
    (runSaves s as).isSome = true ↔ ∀ a ∈ as, Accepts a :=
  Store.runSaves_isSome_iff as s

-- one input per error class, and a ragged dictionary that is accepted because the
-- `None` entry does not belong to a requested iteration
example : saveErr { data := [("it", some [some 0, some 10]), ("rho", some [some 1, some 2])], it := [7] }
    = some .valueError := by decide
example : saveErr { data := [("rho", some [some 1])], vars := ["zz"], it := [0] } = some .keyError := by decide
example : saveErr { data := [("it", some [some 0, some 10]), ("rho", some [some 1])], it := [10] }
    = some .indexError := by decide
example : saveErr { data := [("it", some [some 0, some 10]), ("rho", some [none, some 2])], it := [0] }
    = some .typeError := by decide
example : saveErr { data := [("it", some [some 0, some 10]), ("rho", some [none, some 2])], it := [10] }
    = none := by decide
-- a failing save leaves partial writes behind: the old dataset is already deleted
example : save [(0, [("rho rl=0", 5)])] { data := [("rho", some [none])], it := [0] }
    = ([(0, [])], some .typeError) := by decide

/-! ## T4  discovery (`vars = []`) -/

/-- T4a, no hypothesis, any directory content: whatever name the discovery comes
up with, its column is the stored column, one entry per requested iteration
(the `[None]*it_index` padding is right). -/
theorem discovery_columns_sound (s : Store) (it : List Int) (rl : Nat) (v : String) (c : List Entry)
    (hc : alGet v (readAurel s { vars := [], it := it, rl := rl }) = some (.col c)) :
    c = (sortedSet it).map (fun i => absStore s i v rl) :=
  Store.discovery_columns_sound s it rl v c hc

/-- T4b, completeness: a variable stored at level `rl` for a requested iteration
is returned — provided its name does not contain `' rl'`. -/
theorem discovery_complete (s : Store) (it : List Int) (rl : Nat) (v : String) (hn : NoRl v)
    (i : Int) (hi : i ∈ it) (hs : absStore s i v rl ≠ none) :
    (alGet v (readAurel s { vars := [], it := it, rl := rl })).isSome = true :=
  Store.discovery_complete s it rl v hn i hi hs

/-- T4c, exactness.  HYPOTHESIS that makes the substring test `' rl=<r>' in key`
and `key.split(' rl')[0]` sound: no saved name contains `' rl'`, and no other
saved level has `str(r)` as a decimal prefix.  Then the keys of the returned
dictionary are `'it'`, `'t'` and exactly the names saved at level `r` for one of
the requested iterations. -/
theorem discovery_exact (as : List SaveArgs) (s : Store) (h : runSaves [] as = some s)
    (it : List Int) (r : Nat)
    (hnames : ∀ a ∈ as, ∀ v ∈ effVars a, NoRl v)
    (hlevels : ∀ a ∈ as, a.rl ≠ r → ¬ DecPrefix r a.rl) (v : String) :
    (alGet v (readAurel s { vars := [], it := it, rl := r })).isSome = true ↔
      (v = "it" ∨ v = "t" ∨ ∃ i ∈ it, lastSaved as i v r ≠ none) :=
  Store.discovery_exact as s h it r hnames hlevels v

-- the hypothesis is satisfiable (levels 0, 2, 10 read at level 2 …)
example : ∀ a ∈ hist, ∀ v ∈ effVars a, NoRl v := by decide
example : ¬ DecPrefix 2 10 ∧ ¬ DecPrefix 2 0 ∧ DecPrefix 1 10 ∧ DecPrefix 1 100 := by decide

/-- The level hypothesis is needed: `x` saved at level 10 only; reading level 1
with `vars=[]` reports a variable `x` (all `None`) that was never saved at level 1.
(Same on the real code: `{'it': [3], 't': [None], 'x': [None]}`.) -/
theorem discovery_hypothesis_needed_prefix :
    ∃ (as : List SaveArgs) (s : Store), runSaves [] as = some s ∧
      (∀ a ∈ as, ∀ v ∈ effVars a, NoRl v) ∧
      (alGet "x" (readAurel s { vars := [], it := [3], rl := 1 })).isSome = true ∧
      ∀ i, lastSaved as i "x" 1 = none :=
  Store.discovery_needs_prefix

/-- The name hypothesis is needed: a variable called `q rl=1`, saved at level 0, is
not found by `vars=[]` (a variable `q` that does not exist is reported instead),
although reading it by name works.  (Same on the real code.) -/
theorem discovery_hypothesis_needed_name :
    ∃ (as : List SaveArgs) (s : Store), runSaves [] as = some s ∧
      (∀ a ∈ as, a.rl ≠ 0 → ¬ DecPrefix 0 a.rl) ∧
      lastSaved as 4 "q rl=1" 0 = some 9 ∧
      (alGet "q rl=1" (readAurel s { vars := [], it := [4], rl := 0 })).isSome = false ∧
      (alGet "q" (readAurel s { vars := [], it := [4], rl := 0 })).isSome = true ∧
      alGet "q rl=1" (readAurel s { vars := ["q rl=1"], it := [4], rl := 0 }) = some (.col [some 9]) :=
  Store.discovery_needs_name

end AurelVerif.C13
