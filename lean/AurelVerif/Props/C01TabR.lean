/-
Props/C01TabR.lean — property C01, extension round 6: `st_Riemann_down4` (key 120), whose presence test
`not any(k in self.data for k in ('betaup3','betax','betay','betaz'))` (the zero-shift shortcut of `s_to_st`, inlined)
sits in MID-BODY, after eleven reads — one of them `self['betaup3']` itself, so that the test sees `betaup3` cached
unless it has been evicted in between: both outcomes occur along histories.

The return sites of key 120 are now GENERATED (Gen/C01Table.lean, `leaf_120`: the four alternatives of
Gen/CoreBig_st_Riemann_down4.lean, 256 components each).  `coh_120`: the body is branch-coherent for EVERY input
dictionary — no hypothesis: when the test can be true no shift name is supplied, hence the denotation of `betaup3` is
the zero vector and the shortcut equals the general formula (`C01Coherence.st_Riemann_down4_shift_coherent`).
-/
import AurelVerif.Props.C01TabX
import AurelVerif.Lemmas.C01LocR
import AurelVerif.Lemmas.CacheDenMid

set_option linter.unusedSectionVars false
set_option linter.unusedSimpArgs false
set_option linter.unusedVariables false

namespace AurelVerif.C01Tab
open AurelVerif.Cache AurelVerif.Cache.Dict AurelVerif.CacheGet AurelVerif.Gen.Core AurelVerif.Tensor AurelVerif.CoreTac
open AurelVerif.Gen.C01Table AurelVerif.Gen.DepGraph
open AurelVerif.C01 (IsInput shapeOf rankOf)

variable {K : Type} [Field K]

section riemann
variable (P : Params K) (excl : List Nat) (inp : Dict Nat (Val K))

/-- keys unfolded for `st_Riemann_down4` -/
def cone120 : List Nat := coneKeys ++ [120]

variable (hX : NotExcl excl cone120)
include hX

/-- no shift name supplied: the denotation of `betaup3` is the zero vector. -/
theorem betaup3_zero (h6 : get? inp 6 = none) (h3 : get? inp 3 = none) (h4 : get? inp 4 = none)
    (h5 : get? inp 5 = none) (i : Fin 3) : (E P excl inp).betaup3 i = 0 := by
  have hE := coneX_sub excl hX
  have e6 := den_6 P excl inp hE h6
  have e3 := den_comp P excl inp 3 6 (shp P excl hE 3 _ (by decide) rfl) h3 h6
  have e4 := den_comp P excl inp 4 6 (shp P excl hE 4 _ (by decide) rfl) h4 h6
  have e5 := den_comp P excl inp 5 6 (shp P excl hE 5 _ (by decide) rfl) h5 h6
  show (den P excl inp 6).toV3 i = 0
  rw [e6, e3, e4, e5]
  revert i
  cases3 <;> simp only [leafGen_6, leafGen_3, leafGen_4, leafGen_5, leaf_6, leaf_3, leaf_4, leaf_5, envOf, rd,
    List.getD_cons_zero, List.getD_cons_succ, core_unfold, Val.toS, Val.toV3]

/-- **`st_Riemann_down4`** is branch-coherent, for every input dictionary. -/
theorem coh_120 (hi : get? inp 120 = none) :
    CohM (TTab P excl) (den P excl inp) (fun k => (get? inp k).isSome = true) (den P excl inp 120) 120 sh_120 [] := by
  have hs : (TTab P excl).shape 120 = some sh_120 := shpX P excl hX 120 _ (by decide) rfl
  have d120 := den_unfold P excl inp 120 _ hi hs
  show CohM (TTab P excl) (den P excl inp) (fun k => (get? inp k).isSome = true) (den P excl inp 120) 120
    (.test (.not (.or (.or (.or (.pres 6) (.pres 3)) (.pres 4)) (.pres 5)))
      (.read 6 (.read 6 (.read 6 (.read 6 (.read 0 (.read 116 (.read 32 (.read 46 (.read 48 (.test (.flag "self.vacuum") (.ret 0) (.read 0 (.read 123 (.ret 1)))))))))))))
      (.read 6 (.read 6 (.read 6 (.read 6 (.read 6 (.read 6 (.read 6 (.read 0 (.read 116 (.read 32 (.read 46 (.read 48 (.test (.flag "self.vacuum") (.ret 2) (.read 0 (.read 123 (.ret 3)))))))))))))))))
    [den P excl inp 115, den P excl inp 46, den P excl inp 46, den P excl inp 46, den P excl inp 46, den P excl inp 46, den P excl inp 113, den P excl inp 113, den P excl inp 6, den P excl inp 0, den P excl inp 46]
  refine cohM_test_vs (TTab P excl) inp (den P excl inp) (.s 0) 120 _ _ _ _ _ d120 rfl rfl ?_
  intro hf _
  obtain ⟨h6, h3, h4, h5⟩ := feasibleM_nor4_true inp hf
  have hb := betaup3_zero P excl inp hX h6 h3 h4 h5
  have key := fun a b c d => C01Coherence.st_Riemann_down4_shift_coherent (E P excl inp) hb a b c d
  by_cases hv : (TTab P excl).flag "self.vacuum" = true
  · have hA : evalShape (TTab P excl) (den P excl inp) (fun k => contains inp k) (.s 0) 120 (.read 6 (.read 6 (.read 6 (.read 6 (.read 0 (.read 116 (.read 32 (.read 46 (.read 48 (.test (.flag "self.vacuum") (.ret 0) (.read 0 (.read 123 (.ret 1))))))))))))) [den P excl inp 115, den P excl inp 46, den P excl inp 46, den P excl inp 46, den P excl inp 46, den P excl inp 46, den P excl inp 113, den P excl inp 113, den P excl inp 6, den P excl inp 0, den P excl inp 46]
        = Val.t4444 (st_Riemann_down4__dflt_vacuum (E P excl inp)) := by
      simp only [evalShape, Guard.eval, hv, ↓reduceIte, List.nil_append, List.cons_append]
      show Val.t4444 (st_Riemann_down4__dflt_vacuum (envOf P.base _)) = _
      exact congrArg Val.t4444 (C01Loc.loc_st_Riemann_down4_dflt_vacuum _ _ ⟨rfl, rfl, rfl, rfl, rfl, rfl, rfl, rfl, rfl⟩)
    have hB : evalShape (TTab P excl) (den P excl inp) (fun k => contains inp k) (.s 0) 120 (.read 6 (.read 6 (.read 6 (.read 6 (.read 6 (.read 6 (.read 6 (.read 0 (.read 116 (.read 32 (.read 46 (.read 48 (.test (.flag "self.vacuum") (.ret 2) (.read 0 (.read 123 (.ret 3)))))))))))))))) [den P excl inp 115, den P excl inp 46, den P excl inp 46, den P excl inp 46, den P excl inp 46, den P excl inp 46, den P excl inp 113, den P excl inp 113, den P excl inp 6, den P excl inp 0, den P excl inp 46]
        = Val.t4444 (st_Riemann_down4__betaup3_vacuum (E P excl inp)) := by
      simp only [evalShape, Guard.eval, hv, ↓reduceIte, List.nil_append, List.cons_append]
      show Val.t4444 (st_Riemann_down4__betaup3_vacuum (envOf P.base _)) = _
      exact congrArg Val.t4444 (C01Loc.loc_st_Riemann_down4_betaup3_vacuum _ _ ⟨rfl, rfl, rfl, rfl, rfl, rfl, rfl, rfl, rfl⟩)
    rw [hA, hB]
    refine congrArg Val.t4444 ?_
    funext a b c d
    exact (key a b c d).2
  · have hA : evalShape (TTab P excl) (den P excl inp) (fun k => contains inp k) (.s 0) 120 (.read 6 (.read 6 (.read 6 (.read 6 (.read 0 (.read 116 (.read 32 (.read 46 (.read 48 (.test (.flag "self.vacuum") (.ret 0) (.read 0 (.read 123 (.ret 1))))))))))))) [den P excl inp 115, den P excl inp 46, den P excl inp 46, den P excl inp 46, den P excl inp 46, den P excl inp 46, den P excl inp 113, den P excl inp 113, den P excl inp 6, den P excl inp 0, den P excl inp 46]
        = Val.t4444 (st_Riemann_down4__dflt_matter (E P excl inp)) := by
      simp only [evalShape, Guard.eval, hv, ↓reduceIte, List.nil_append, List.cons_append]
      show Val.t4444 (st_Riemann_down4__dflt_matter (envOf P.base _)) = _
      exact congrArg Val.t4444 (C01Loc.loc_st_Riemann_down4_dflt_matter _ _ ⟨rfl, rfl, rfl, rfl, rfl, rfl, rfl, rfl, rfl⟩ rfl)
    have hB : evalShape (TTab P excl) (den P excl inp) (fun k => contains inp k) (.s 0) 120 (.read 6 (.read 6 (.read 6 (.read 6 (.read 6 (.read 6 (.read 6 (.read 0 (.read 116 (.read 32 (.read 46 (.read 48 (.test (.flag "self.vacuum") (.ret 2) (.read 0 (.read 123 (.ret 3)))))))))))))))) [den P excl inp 115, den P excl inp 46, den P excl inp 46, den P excl inp 46, den P excl inp 46, den P excl inp 46, den P excl inp 113, den P excl inp 113, den P excl inp 6, den P excl inp 0, den P excl inp 46]
        = Val.t4444 (st_Riemann_down4__betaup3_matter (E P excl inp)) := by
      simp only [evalShape, Guard.eval, hv, ↓reduceIte, List.nil_append, List.cons_append]
      show Val.t4444 (st_Riemann_down4__betaup3_matter (envOf P.base _)) = _
      exact congrArg Val.t4444 (C01Loc.loc_st_Riemann_down4_betaup3_matter _ _ ⟨rfl, rfl, rfl, rfl, rfl, rfl, rfl, rfl, rfl⟩ rfl)
    rw [hA, hB]
    refine congrArg Val.t4444 ?_
    funext a b c d
    exact (key a b c d).1

end riemann

/-! ### `HardCoh4` shrinks to `HardCoh3` -/

section asm3
variable (P : Params K) (excl : List Nat) (inp : Dict Nat (Val K))

/-- the guarded bodies whose coherence is still a hypothesis: `st_Ricci_down4`, `st_Ricci_down3`, `st_Weyl_down4` —
exactly the class (c) bodies, coherent on solutions of Einstein's equations only (Props/C01CoherenceC.lean,
Props/C10Coh.lean). -/
def hardKeys3 : List Nat := [122, 123, 133]

def HardCoh3 : Prop :=
  ∀ k, hardKeys3.contains k = true → ∀ sh, get? inp k = none → (TTab P excl).shape k = some sh →
    CohM (TTab P excl) (den P excl inp) (fun k => (get? inp k).isSome = true) (den P excl inp k) k sh []

theorem hardCoh4_of (h120 : excl.contains 120 = true ∨ NotExcl excl cone120) (h3 : HardCoh3 P excl inp) :
    HardCoh4 P excl inp := by
  intro k hk sh hi hs
  have hso := TTab_shape_of P excl k sh hs
  simp only [hardKeys4, List.contains_eq_mem, List.mem_cons, List.not_mem_nil, or_false, decide_eq_true_eq] at hk
  rcases hk with rfl | rfl | rfl | rfl
  · rcases h120 with hex | hN
    · exact (excluded_vacuous P excl 120 hex sh hs).elim
    · have h0 : shapeOf 120 = some sh_120 := rfl
      rw [h0] at hso; cases hso; exact coh_120 P excl inp hN hi
  · exact h3 122 (by decide) sh hi hs
  · exact h3 123 (by decide) sh hi hs
  · exact h3 133 (by decide) sh hi hs

end asm3

/-- **all 161 keys** under the input hypotheses (`InputsOK`) and coherence of the THREE class (c) bodies
`st_Ricci_down4`, `st_Ricci_down3`, `st_Weyl_down4` (`HardCoh3`); `rest` (arbitrary formulas) now only concerns
`st_Riemann_uddd4`, `st_Riemann_uudd4`, `st_Weyl_down4`, `Weyl_Psi`, `Psi4_lm`, `Weyl_invariants`, `dtconserved`,
`Kretschmann`, `eweyl_u_down4`, `bweyl_u_down4`, … (see `genKeys`). -/
theorem tab_transparent_inputs3 {σ σ' : Type} (P : Params K) (inp : Dict Nat (Val K)) (hI : InputsOK P [] inp)
    (h3 : HardCoh3 P [] inp)
    (pol : Policy σ Nat (Val K)) (hpol : PolicyOK (IsInput inp) pol)
    (pol' : Policy σ' Nat (Val K)) (hpol' : PolicyOK (IsInput inp) pol')
    (s0 : σ) (s0' : σ') (fuel fuel' : Nat) (h : List (HOp Nat)) (k : Nat)
    (c : Cfg σ Nat (Val K)) (vs : List (Val K))
    (hrun : runHist (TTab P []) pol fuel (s0, inp) (h ++ [.req k]) = .ok (c, vs))
    (c' : Cfg σ' Nat (Val K)) (v' : Val K) (hfresh : getF (TTab P []) pol' fuel' (s0', inp) k = .ok (c', v')) :
    vs.getLast? = some v' ∧ v' = den P [] inp k :=
  tab_transparent_inputs P inp hI (hardCoh4_of P [] inp (Or.inr (fun _ _ => rfl)) h3) pol hpol pol' hpol' s0 s0' fuel fuel'
    h k c vs hrun c' v' hfresh

/-- `coh_120` has no hypothesis besides "120 is not supplied"; the premise of `betaup3_zero` (no shift name supplied)
holds at `inpP`-like dictionaries without a shift, e.g. lapse and metric components only. -/
example : get? ([(0, .s 2), (15, .s 2), (16, .s 1), (18, .s 3)] : Dict Nat (Val ℚ)) 6 = none
    ∧ get? ([(0, .s 2), (15, .s 2), (16, .s 1), (18, .s 3)] : Dict Nat (Val ℚ)) 3 = none := ⟨rfl, rfl⟩

end AurelVerif.C01Tab
