/-
Props/C10Alt2.lean — property C10, part 2: `st_Weyl_down4` from E, B and the normal (T3).
See Props/C10.lean for the overview.
-/
import AurelVerif.Lemmas.C10Alt2N
import AurelVerif.Lemmas.C10Alt2S0
import AurelVerif.Lemmas.C10Alt2S1
import AurelVerif.Lemmas.C10Alt2S2
import AurelVerif.Lemmas.C10Alt2S3
import AurelVerif.Lemmas.C10LC
import AurelVerif.Lemmas.C10Weyl
set_option linter.unusedSimpArgs false
set_option linter.unusedVariables false

namespace AurelVerif.C10
open AurelVerif.Gen.Core AurelVerif.Tensor AurelVerif.CoreTac AurelVerif.Spec.Weyl AurelVerif.Model.WeylNP

variable {K : Type} [Field K]

/-! ### T3 alternative 2: Weyl tensor from E, B and the normal -/

/-- all 256 entries, a shift key present (`E_μν`, `B_μν` extended with `β`). -/
theorem weyl_alt2_spec (e : Env K) (a b c d : Fin 4) :
    st_Weyl_down4__betaup3 e a b c d
      = weylEB (lproj e.gdown4 e.ndown4) (s_to_st__betaup3 e e.eweyl_n_down3)
          (s_to_st__betaup3 e e.bweyl_n_down3) e.ndown4 (epsUdd e.gup4 e.nup4 (levicivita_down4 e)) a b c d := by
  revert a b c d
  cases4
  · exact alt2_shift_spec_0 e
  · exact alt2_shift_spec_1 e
  · exact alt2_shift_spec_2 e
  · exact alt2_shift_spec_3 e

/-- all 256 entries, no shift key present (`β = 0` shortcut of `s_to_st`). -/
theorem weyl_alt2_noshift_spec (e : Env K) (a b c d : Fin 4) :
    st_Weyl_down4__dflt e a b c d
      = weylEB (lproj e.gdown4 e.ndown4) (s_to_st__dflt e e.eweyl_n_down3)
          (s_to_st__dflt e e.bweyl_n_down3) e.ndown4 (epsUdd e.gup4 e.nup4 (levicivita_down4 e)) a b c d := by
  revert a b c d
  cases4
  · exact alt2_noshift_spec_0 e
  · exact alt2_noshift_spec_1 e
  · exact alt2_noshift_spec_2 e
  · exact alt2_noshift_spec_3 e

/-- alternative 2 has the Riemann symmetries for every symmetric metric and symmetric `E`
(any `B`, any `n`, `√(−g)` opaque), in both shift variants. -/
theorem weyl_alt2_sym (e : Env K) (hg : Symm e.gdown4) (hE : Symm e.eweyl_n_down3) :
    RiemannSym (st_Weyl_down4__betaup3 e) ∧ RiemannSym (st_Weyl_down4__dflt e) := by
  have heps := epsUdd_antisymm e.gup4 e.nup4 (levicivita_down4 e) (fun d c a b => lc_down4_antisymm34 e d c a b)
  have hl := lproj_symm e.gdown4 e.ndown4 hg
  constructor
  · have h : st_Weyl_down4__betaup3 e = weylEB (lproj e.gdown4 e.ndown4) (s_to_st__betaup3 e e.eweyl_n_down3)
        (s_to_st__betaup3 e e.bweyl_n_down3) e.ndown4 (epsUdd e.gup4 e.nup4 (levicivita_down4 e)) := by
      funext a b c d; exact weyl_alt2_spec e a b c d
    rw [h]; exact weylEB_riemannSym _ _ _ _ _ hl (s_to_st_shift_symm e _ hE) heps
  · have h : st_Weyl_down4__dflt e = weylEB (lproj e.gdown4 e.ndown4) (s_to_st__dflt e e.eweyl_n_down3)
        (s_to_st__dflt e e.bweyl_n_down3) e.ndown4 (epsUdd e.gup4 e.nup4 (levicivita_down4 e)) := by
      funext a b c d; exact weyl_alt2_noshift_spec e a b c d
    rw [h]; exact weylEB_riemannSym _ _ _ _ _ hl (s_to_st_noshift_symm e _ hE) heps

/-- layout of `s_to_st`: `f_00 = β^iβ^j f_ij`, `f_0k = f_k0 = β^i f_ik`, spatial block `f_ij`;
without a shift key the time row and column are 0. -/
theorem s_to_st_layout (e : Env K) (f : Fin 3 → Fin 3 → K) :
    (s_to_st__betaup3 e f 0 0 = ∑ i, ∑ j, e.betaup3 i * e.betaup3 j * f i j
      ∧ (∀ k : Fin 3, s_to_st__betaup3 e f 0 k.succ = ∑ i, e.betaup3 i * f i k
          ∧ s_to_st__betaup3 e f k.succ 0 = ∑ i, e.betaup3 i * f i k)
      ∧ ∀ i j : Fin 3, s_to_st__betaup3 e f i.succ j.succ = f i j)
    ∧ ((∀ μ : Fin 4, s_to_st__dflt e f 0 μ = 0 ∧ s_to_st__dflt e f μ 0 = 0)
      ∧ ∀ i j : Fin 3, s_to_st__dflt e f i.succ j.succ = f i j) :=
  ⟨s_to_st_shift_layout e f, s_to_st_noshift_layout e f⟩

/-! ### Non-vacuity -/

/-- Minkowski metric and a symmetric, non-diagonal `E`. -/
def exEnvEB : Env ℚ :=
  { (Env.zero : Env ℚ) with
    gdown4 := vec4 (vec4 (-1) 0 0 0) (vec4 0 1 0 0) (vec4 0 0 1 0) (vec4 0 0 0 1),
    eweyl_n_down3 := vec3 (vec3 1 2 3) (vec3 2 (-1) 4) (vec3 3 4 0) }

example : Symm exEnvEB.gdown4 ∧ Symm exEnvEB.eweyl_n_down3 := by
  refine ⟨?_, ?_⟩
  · cases4 <;> cases4 <;> (simp only [exEnvEB, core_unfold])
  · cases3 <;> cases3 <;> (simp only [exEnvEB, core_unfold])

end AurelVerif.C10
