/-
Props/C11.lean — property theorems for C11 (Einstein Toolkit output is read
back exactly for any file and process layout).  ONLY property statements and
non-vacuity examples; proofs are in Lemmas/Chunks.lean.

Model: Model/Chunks.lean (hand-written; tied to `join_chunks`, `fixij`,
`read_ET_group_or_var` and the restart choice of `read_data` by the
correspondence of tools/props/C11.py) + Gen/VarMaps.lean (regenerated from
var_mappings.yml and the name-translation functions on every run).

Continued in Props/C11b.lean (T8: exact characterisation of the dictionaries
`join_chunks` accepts, class X; T5': restart selection and row alignment for
any number of restarts, with and without checkpoints) and Props/C11c.lean
(checkpoint reading path).
-/
import AurelVerif.Lemmas.Chunks
import AurelVerif.Gen.VarMaps

namespace AurelVerif.C11
open AurelVerif.Chunks AurelVerif.ChunksLemmas AurelVerif.Gen.VarMaps

/-- **T1** `join_split`.  For EVERY array `A` of shape `(nz, ny, nx)`, EVERY
hierarchical decomposition `D` of that shape (z-slabs, each cut in y at its own
positions, each strip cut in x at its own positions; all lengths > 0; any
number of chunks), EVERY origin of the first chunk and EVERY enumeration order
`l` of the chunk dictionary, `join_chunks` returns exactly `A`. -/
theorem join_split {α : Type} (A : Arr3 α) (nz ny nx : Nat) (hA : Rect A nz ny nx)
    (hz : 0 < nz) (hy : 0 < ny) (hx : 0 < nx) (D : ZSplit) (hD : D.Valid nz ny nx)
    (base : Nat × Nat × Nat) (l : Dict (Nat × Nat × Nat) (Arr3 α)) (hl : l.Perm (chunks base A D)) :
    joinChunks l = some A :=
  join_split_lemma A nz ny nx hA hz hy hx D hD base l hl

/-- **T1'** the same for the general path alone (it does not need the
one-chunk shortcut: the shortcut and the general path agree). -/
theorem join_split_general_path {α : Type} (A : Arr3 α) (nz ny nx : Nat) (hA : Rect A nz ny nx)
    (hz : 0 < nz) (hy : 0 < ny) (hx : 0 < nx) (D : ZSplit) (hD : D.Valid nz ny nx)
    (base : Nat × Nat × Nat) (l : Dict (Nat × Nat × Nat) (Arr3 α)) (hl : l.Perm (chunks base A D)) :
    joinGeneral l = some A :=
  join_general A nz ny nx hA hz hy hx D hD base l hl

/-- **T2** `trim_ghost`.  For ghost widths ≥ 1 on every axis, trimming a block
that is `I` surrounded by ghost layers returns `I`, whatever the ghost layers
contain. -/
theorem trim_ghost {α : Type} (gx gy gz : Nat) (hx : 1 ≤ gx) (hy : 1 ≤ gy) (hz : 1 ≤ gz)
    (B I : Arr3 α) (h : PadZ gx gy gz B I) : trimGhost gx gy gz B = I :=
  trim_ghost_lemma gx gy gz hx hy hz B I h

/-- **T2 boundary** a ghost width 0 on any axis makes Python's `[0:-0]` empty:
nothing of the block survives (the code returns an empty array, it does not
return the untrimmed block). -/
theorem trim_ghost_zero {α : Type} (gx gy gz : Nat) (h : gx = 0 ∨ gy = 0 ∨ gz = 0) (B : Arr3 α) :
    (trimGhost gx gy gz B).flatten.flatten = [] :=
  trim_ghost_zero_lemma gx gy gz h B

/-- **T3** `fixij` exchanges the axes: `fixij A [x][y][z] = A [z][y][x]` at
every grid point (both sides exist). -/
theorem fixij_axes {α : Type} (A : Arr3 α) (nz ny nx : Nat) (hA : Rect A nz ny nx) (hz0 : 0 < nz)
    (hy0 : 0 < ny) (x y z : Nat) (hx : x < nx) (hy : y < ny) (hz : z < nz) :
    get3 (fixij A) x y z = get3 A z y x ∧ (get3 A z y x).isSome :=
  fixij_axes_lemma A nz ny nx hA hz0 hy0 x y z hx hy hz

/-- **T3** the result has shape `(nx, ny, nz)`. -/
theorem fixij_shape {α : Type} (A : Arr3 α) (nz ny nx : Nat) (hA : Rect A nz ny nx) (hz0 : 0 < nz)
    (hy0 : 0 < ny) : Rect (fixij A) nx ny nz :=
  fixij_shape_lemma A nz ny nx hA hz0 hy0

/-- **T3** `fixij` is an involution on arrays. -/
theorem fixij_involutive {α : Type} (A : Arr3 α) (nz ny nx : Nat) (hA : Rect A nz ny nx) (hz : 0 < nz)
    (hy : 0 < ny) (hx : 0 < nx) : fixij (fixij A) = A :=
  fixij_involutive_lemma A nz ny nx hA hz hy hx

/-- **T7** two chunks that the code appends along x (same `(iy, iz)`) but whose
z- or y-extents differ: numpy raises. -/
theorem join_mismatch_x {α : Type} (o1 o2 iy iz : Nat) (b1 b2 : Arr3 α) (ho : o1 ≠ o2)
    (hm : ¬ (b1.length = b2.length ∧ dim1 b1 = dim1 b2)) :
    joinChunks [((o1, iy, iz), b1), ((o2, iy, iz), b2)] = none :=
  join_mismatch_x_lemma o1 o2 iy iz b1 b2 ho hm

/-- **T7** two chunks that end up appended along y (same `iz`, different `iy`)
with different z- or x-extents: numpy raises. -/
theorem join_mismatch_y {α : Type} (o1 o2 y1 y2 iz : Nat) (b1 b2 : Arr3 α) (hy : y1 ≠ y2)
    (hm : ¬ (b1.length = b2.length ∧ dim2 b1 = dim2 b2)) :
    joinChunks [((o1, y1, iz), b1), ((o2, y2, iz), b2)] = none :=
  join_mismatch_y_lemma o1 o2 y1 y2 iz b1 b2 hy hm

/-- **T7** two chunks appended along z (different `iz`) with different y- or
x-extents: numpy raises. -/
theorem join_mismatch_z {α : Type} (o1 o2 y1 y2 z1 z2 : Nat) (b1 b2 : Arr3 α) (hz : z1 ≠ z2)
    (hm : ¬ (dim1 b1 = dim1 b2 ∧ dim2 b1 = dim2 b2)) :
    joinChunks [((o1, y1, z1), b1), ((o2, y2, z2), b2)] = none :=
  join_mismatch_z_lemma o1 o2 y1 y2 z1 z2 b1 b2 hz hm

/-- **T4 (chunk level)** the whole treatment of one variable at one iteration
and level in `read_ET_group_or_var`: every chunk of a hierarchical
decomposition arrives with ghost layers of width ≥ 1 holding arbitrary values,
in any enumeration order; trimming, filing under `iorigin`, joining and
`fixij` return the stored interior grid in `(x, y, z)` order. -/
theorem read_chunks_exact {α : Type} (A : Arr3 α) (nz ny nx : Nat) (hA : Rect A nz ny nx)
    (hz : 0 < nz) (hy : 0 < ny) (hx : 0 < nx) (D : ZSplit) (hD : D.Valid nz ny nx)
    (base : Nat × Nat × Nat) (l : Dict (Nat × Nat × Nat) (Arr3 α)) (hl : l.Perm (chunks base A D))
    (gx gy gz : Nat) (hgx : 1 ≤ gx) (hgy : 1 ≤ gy) (hgz : 1 ≤ gz)
    (lg : Dict (Nat × Nat × Nat) (Arr3 α))
    (hpad : Rel₂ (fun kb ki => kb.1 = ki.1 ∧ PadZ gx gy gz kb.2 ki.2) lg l) :
    (joinChunks (toDict (lg.map fun kb => (kb.1, trimGhost gx gy gz kb.2)))).map fixij = some (fixij A) :=
  read_chunks_lemma A nz ny nx hA hz hy hx D hD base l hl gx gy gz hgx hgy hgz lg hpad

/-- **T5** with `restart = -1` an iteration is taken from the LAST restart of
the dictionary whose `[itmin, itmax]` contains it (restarts are catalogued in
increasing order, so: the latest one). -/
theorem restart_latest (avail : List Avail) (it r : Nat) (h : pickRestart avail it = some r) :
    ∃ pre a post, avail = pre ++ a :: post ∧ a.1 = r ∧ a.2.1 ≤ it ∧ it ≤ a.2.2
      ∧ ∀ c ∈ post, ¬ (c.2.1 ≤ it ∧ it ≤ c.2.2) :=
  restart_latest_lemma avail it r h

/-- **T5** no restart is chosen exactly when no range contains the iteration. -/
theorem restart_none (avail : List Avail) (it : Nat) :
    pickRestart avail it = none ↔ ∀ a ∈ avail, ¬ (a.2.1 ≤ it ∧ it ≤ a.2.2) :=
  restart_none_lemma avail it

/-- **T5** the rows returned are, in the order of the sorted requested
iterations, each iteration with its chosen restart (iterations that no restart
contains are dropped; nothing is duplicated or reordered). -/
theorem read_order_complete (avail : List Avail) (hnd : (avail.map Prod.fst).Nodup) (its : List Nat) :
    readOrder avail its
      = (sortedSet its).filterMap fun it => (pickRestart avail it).map fun r => (it, r) :=
  read_order_lemma avail hnd its

/-! **D6** name maps (tables regenerated from var_mappings.yml on every run). -/

/-- every scalar name maps aurel → ET → aurel to itself -/
theorem scalar_names_roundtrip : ∀ v ∈ scalarNames, (aurelToET v).map etToAurel = [v] := by
  decide +kernel

/-- every tensor name is translated to ET names that map back to exactly the
tensor's components, in order -/
theorem tensor_components_roundtrip :
    ∀ T ∈ tensorNames, (aurelToET T).map etToAurel = tensorToScalar T := by
  decide +kernel

/-- expanding a tensor to components and translating each gives the same ET
names as translating the tensor (the cached and uncached paths ask for the
same datasets) -/
theorem tensor_expansion_commutes :
    ∀ T ∈ tensorNames, (tensorToScalar T).flatMap aurelToET = aurelToET T := by
  decide +kernel

/-- every member of a known group is an ET name: it is what its aurel name translates to -/
theorem group_members_are_ET_names : ∀ m ∈ groupMembers, aurelToET (etToAurel m) = [m] := by
  decide +kernel

/-! Non-vacuity. -/

/-- a 2×3×4 array, the fixtures' kind of decomposition (2 slabs; the first cut
once in y with different x-cuts per strip) enumerated in a scrambled order -/
example : joinChunks (toDict [(chunks (3, 3, 3) [[[1, 2, 3, 4], [5, 6, 7, 8], [9, 10, 11, 12]],
      [[13, 14, 15, 16], [17, 18, 19, 20], [21, 22, 23, 24]]] [(1, [(2, [1, 3]), (1, [2, 2])]), (1, [(3, [4])])])[4]!,
    (chunks (3, 3, 3) [[[1, 2, 3, 4], [5, 6, 7, 8], [9, 10, 11, 12]],
      [[13, 14, 15, 16], [17, 18, 19, 20], [21, 22, 23, 24]]] [(1, [(2, [1, 3]), (1, [2, 2])]), (1, [(3, [4])])])[1]!,
    (chunks (3, 3, 3) [[[1, 2, 3, 4], [5, 6, 7, 8], [9, 10, 11, 12]],
      [[13, 14, 15, 16], [17, 18, 19, 20], [21, 22, 23, 24]]] [(1, [(2, [1, 3]), (1, [2, 2])]), (1, [(3, [4])])])[3]!,
    (chunks (3, 3, 3) [[[1, 2, 3, 4], [5, 6, 7, 8], [9, 10, 11, 12]],
      [[13, 14, 15, 16], [17, 18, 19, 20], [21, 22, 23, 24]]] [(1, [(2, [1, 3]), (1, [2, 2])]), (1, [(3, [4])])])[0]!,
    (chunks (3, 3, 3) [[[1, 2, 3, 4], [5, 6, 7, 8], [9, 10, 11, 12]],
      [[13, 14, 15, 16], [17, 18, 19, 20], [21, 22, 23, 24]]] [(1, [(2, [1, 3]), (1, [2, 2])]), (1, [(3, [4])])])[2]!])
    = some [[[1, 2, 3, 4], [5, 6, 7, 8], [9, 10, 11, 12]],
      [[13, 14, 15, 16], [17, 18, 19, 20], [21, 22, 23, 24]]] := by decide +kernel
example : ZSplit.Valid [(1, [(2, [1, 3]), (1, [2, 2])]), (1, [(3, [4])])] 2 3 4 := by
  unfold ZSplit.Valid YSplit.Valid XSplit.Valid; decide
example : PadZ 1 1 1 [[[9, 9, 9], [9, 9, 9], [9, 9, 9]], [[8, 8, 8], [7, 5, 7], [8, 8, 8]], [[9], []]] [[[5]]] :=
  ⟨[[[9, 9, 9], [9, 9, 9], [9, 9, 9]]], [[[9], []]], [[[8, 8, 8], [7, 5, 7], [8, 8, 8]]], rfl, rfl, rfl,
    ⟨⟨[[8, 8, 8]], [[8, 8, 8]], [[7, 5, 7]], rfl, rfl, rfl, ⟨⟨[7], [7], rfl, rfl, rfl⟩, trivial⟩⟩, trivial⟩⟩
example : trimGhost 1 1 1 [[[9, 9, 9], [9, 9, 9], [9, 9, 9]], [[8, 8, 8], [7, 5, 7], [8, 8, 8]], [[9], []]] = [[[5]]] := by
  decide +kernel
/-- the x-cut that the removed 2-chunk special case got wrong -/
example : joinChunks [((2, 0, 0), [[[3]]]), ((0, 0, 0), [[[1, 2]]])] = some [[[1, 2, 3]]] := by decide +kernel
/-- mismatching cross-sections raise -/
example : joinChunks [((0, 0, 0), [[[1, 2]]]), ((2, 0, 0), [[[3], [4]]])] = none := by decide +kernel
/-- iteration 30 is in restarts 0 and 1: taken from 1; 70 is nowhere: dropped -/
example : readOrder [(0, 0, 40), (1, 20, 60)] [30, 70, 0, 30] = [(0, 0), (30, 1)] := by decide +kernel
example : fixij [[[1, 2, 3], [4, 5, 6]]] = [[[1], [4]], [[2], [5]], [[3], [6]]] := by decide +kernel

end AurelVerif.C11
