/-
Props/C09.lean — fluid variables, stress-energy tensor, Eulerian projections.

Generated definitions (`AurelVerif.Gen.Core.*`) are re-derived from core.py on
every run.  `e.X` = cached entry of key `X`; `e.X = X e` = "X was produced by
the code's own formula".  Exact arithmetic over any field.
-/
import AurelVerif.Props.C08

set_option linter.unusedSimpArgs false
set_option linter.unusedVariables false

namespace AurelVerif.C09
open AurelVerif.Gen.Core AurelVerif.Tensor AurelVerif.CoreTac AurelVerif.C08

variable {K : Type} [Field K]

/-- the fluid 4-velocity is populated by the code's formulas from W, v^i, α, β^i. -/
structure Velocity (e : Env K) : Prop where
  hvel : e.velup3 = velup3 e
  hu0 : e.uup0 = uup0 e
  hu3 : e.uup3 = uup3 e
  hu4 : e.uup4 = uup4 e
  hud : e.udown4 = udown4 e

/-- Lorentz-factor relation `W²(1 − γ_ij v^i v^j) = 1`. -/
def LorentzOK (e : Env K) : Prop :=
  e.w_lorentz ^ 2 * (1 - ∑ i, ∑ j, e.gammadown3 i j * e.velup3 i * e.velup3 j) = 1

/-! ### T1 the 4-velocity -/

theorem uup_spec (e : Env K) :
    uup0 e = e.w_lorentz / e.alpha
    ∧ (∀ i, uup3 e i = e.w_lorentz * (e.velup3 i - e.betaup3 i / e.alpha))
    ∧ uup4 e 0 = e.uup0 ∧ ∀ i : Fin 3, uup4 e i.succ = e.uup3 i := by
  refine ⟨rfl, ?_, rfl, ?_⟩ <;> (cases3 <;> rfl)

/-- `u_μ = g_μν u^ν`. -/
theorem udown4_spec (e : Env K) (μ : Fin 4) : udown4 e μ = ∑ ν, e.gdown4 μ ν * e.uup4 ν := by
  revert μ; cases4 <;> unfold_core

/-- **u is unit timelike**: `g_μν u^μ u^ν = −1`. -/
theorem u_unit (e : Env K) (h : Assembled e) (hv : Velocity e) (ha : e.alpha ≠ 0) (hW : LorentzOK e) :
    ∑ μ, ∑ ν, e.gdown4 μ ν * e.uup4 μ * e.uup4 ν = -1 := by
  have h01 := h.hsym 1 0; have h02 := h.hsym 2 0; have h12 := h.hsym 2 1
  unfold LorentzOK at hW
  simp only [h.hg4, h.hgtt, h.hbm, h.hbd, hv.hu4, hv.hu3, hv.hu0, core_unfold,
    Fin.sum_univ_three, Fin.sum_univ_four, h01, h02, h12] at hW ⊢
  field_simp
  linear_combination (-(e.alpha ^ 2)) * hW

/-- with lower indices: `u_μ u^μ = −1`. -/
theorem u_unit_down (e : Env K) (h : Assembled e) (hv : Velocity e) (ha : e.alpha ≠ 0) (hW : LorentzOK e) :
    ∑ μ, e.udown4 μ * e.uup4 μ = -1 := by
  have hu := u_unit e h hv ha hW
  rw [hv.hud]
  simp only [udown4_spec]
  rw [← hu]
  simp only [Fin.sum_univ_four]; ring

/-- `u_μ n^μ = −W`. -/
theorem u_dot_n (e : Env K) (h : Assembled e) (hv : Velocity e) (ha : e.alpha ≠ 0) :
    ∑ μ, e.udown4 μ * nup4 e μ = -e.w_lorentz := by
  have h01 := h.hsym 1 0; have h02 := h.hsym 2 0; have h12 := h.hsym 2 1
  simp only [hv.hud, h.hg4, h.hgtt, h.hbm, h.hbd, hv.hu4, hv.hu3, hv.hu0, core_unfold,
    Fin.sum_univ_three, Fin.sum_univ_four, h01, h02, h12]
  field_simp
  ring

/-- spatial part of the lowered velocity: `u_i = W v_i` (`v_i = γ_ij v^j`). -/
theorem udown_spatial (e : Env K) (h : Assembled e) (hv : Velocity e) (ha : e.alpha ≠ 0) (i : Fin 3) :
    e.udown4 i.succ = e.w_lorentz * ∑ j, e.gammadown3 i j * e.velup3 j := by
  have h01 := h.hsym 1 0; have h02 := h.hsym 2 0; have h12 := h.hsym 2 1
  revert i
  cases3 <;>
    (simp only [hv.hud, h.hg4, h.hgtt, h.hbm, h.hbd, hv.hu4, hv.hu3, hv.hu0, core_unfold,
      Fin.sum_univ_three, Fin.sum_univ_four, h01, h02, h12]
     show _ = _
     field_simp
     ring)

/-! ### T2 the projector h -/

theorem hdown4_spec (e : Env K) (μ ν : Fin 4) : hdown4 e μ ν = e.gdown4 μ ν + e.udown4 μ * e.udown4 ν := by
  revert μ ν; cases4 <;> cases4 <;> rfl

theorem hup4_spec (e : Env K) (μ ν : Fin 4) : hup4 e μ ν = e.gup4 μ ν + e.uup4 μ * e.uup4 ν := by
  revert μ ν; cases4 <;> cases4 <;> rfl

theorem hmixed4_spec (e : Env K) (μ ν : Fin 4) : hmixed4 e μ ν = ∑ c, e.gup4 μ c * e.hdown4 c ν := by
  revert μ ν; cases4 <;> cases4 <;> unfold_core

/-- `h_μν u^ν = 0`. -/
theorem h_orthogonal_u (e : Env K) (h : Assembled e) (hv : Velocity e) (ha : e.alpha ≠ 0) (hW : LorentzOK e)
    (μ : Fin 4) : ∑ ν, hdown4 e μ ν * e.uup4 ν = 0 := by
  have hu := u_unit_down e h hv ha hW
  have hd : e.udown4 μ = ∑ ν, e.gdown4 μ ν * e.uup4 ν := by rw [hv.hud]; exact udown4_spec e μ
  simp only [hdown4_spec, Fin.sum_univ_four] at hu hd ⊢
  linear_combination (e.udown4 μ) * hu - hd

/-! ### T3 the stress-energy tensor -/

/-- **`T_μν = ρ u_μ u_ν + p h_μν`, indices down.** -/
theorem Tdown4_spec (e : Env K) (μ ν : Fin 4) :
    Tdown4 e μ ν = e.rho * (e.udown4 μ * e.udown4 ν) + e.press * e.hdown4 μ ν := by
  revert μ ν; cases4 <;> cases4 <;> rfl

theorem Tup4_spec (e : Env K) (c d : Fin 4) :
    Tup4 e c d = ∑ a, ∑ b, e.gup4 a c * e.gup4 b d * e.Tdown4 a b := by
  revert c d; cases4 <;> cases4 <;> (unfold_core; ring)

/-! ### T4 Eulerian projections -/

theorem rho_n_spec (e : Env K) : rho_n e = ∑ a, ∑ b, e.Tdown4 a b * e.nup4 a * e.nup4 b := by
  unfold_core; ring

/-- **`E = ρ h W² − p`** (`ρh := ρ + p`) for a perfect fluid. -/
theorem rho_n_closed (e : Env K) (h : Assembled e) (hv : Velocity e) (ha : e.alpha ≠ 0)
    (hn : e.nup4 = nup4 e) (hh : e.hdown4 = hdown4 e) (hT : e.Tdown4 = Tdown4 e) :
    rho_n e = (e.rho + e.press) * e.w_lorentz ^ 2 - e.press := by
  have hun := u_dot_n e h hv ha
  have hnn := normal_unit e h ha
  rw [rho_n_spec, hT, hn]
  simp only [Tdown4_spec, hh, hdown4_spec, Fin.sum_univ_four] at hun hnn ⊢
  linear_combination (e.press) * hnn + ((e.rho + e.press) * ((e.udown4 0 * nup4 e 0 + e.udown4 1 * nup4 e 1
    + e.udown4 2 * nup4 e 2 + e.udown4 3 * nup4 e 3) - e.w_lorentz)) * hun

theorem fluxdown3_spec (e : Env K) (b : Fin 3) :
    fluxdown3_n e b = ∑ a, e.fluxup3_n a * e.gammadown3 a b := by
  revert b; cases3 <;> unfold_core

theorem press_n_spec (e : Env K) :
    press_n e = (∑ a : Fin 3, ∑ b : Fin 3, e.gammaup3 a b * e.Tdown4 a.succ b.succ) / 3 := by
  simp only [core_unfold, Fin.sum_univ_three]
  ring

theorem Stresstrace_spec (e : Env K) :
    Stresstrace_n e = ∑ a : Fin 3, ∑ b : Fin 3, e.gammaup3 a b * e.Tdown4 a.succ b.succ := by
  simp only [core_unfold, Fin.sum_univ_three]
  ring

/-- the anisotropic stress is `S_ij − γ_ij P`. -/
theorem anisotropic_spec (e : Env K) (i j : Fin 3) :
    anisotropic_press_down3_n e i j = e.Stressdown3_n i j - e.gammadown3 i j * e.press_n := by
  revert i j; cases3 <;> cases3 <;> rfl

/-! ### T5 the trace of T, both alternatives -/

theorem Ttrace_alternatives (e : Env K) :
    Ttrace__Tdown4 e = ∑ a, ∑ b, e.gup4 a b * e.Tdown4 a b
    ∧ Ttrace__dflt e = 3 * e.press_n - e.rho_n := by
  constructor <;> (unfold_core; try ring)

/-! ### T6 conserved variables -/

theorem conserved_spec (e : Env K) :
    conserved_D e = e.rho0 * e.w_lorentz * e.sqrtF e.gammadet
    ∧ conserved_E e = e.conserved_D * e.eps
    ∧ (∀ μ, conserved_Sdown4 e μ = e.conserved_D * e.enthalpy * e.udown4 μ)
    ∧ ∀ μ, conserved_Sup4 e μ = ∑ m, e.gup4 μ m * e.conserved_Sdown4 m := by
  refine ⟨rfl, rfl, ?_, ?_⟩
  · cases4 <;> rfl
  · cases4 <;> unfold_core

/-! ### T7 rest-mass density, internal energy, total density, enthalpy -/

theorem eos_specs (e : Env K) :
    rho e = e.rho0 * (1 + e.eps)
    ∧ enthalpy e = 1 + e.eps + e.press / e.rho0
    ∧ rho0__rho e = e.rho / (1 + e.eps)
    ∧ eps__rho_and_rho0 e = (e.rho - e.rho0) / e.rho0
    ∧ rho0__dflt e = 0 ∧ eps__dflt e = 0 := ⟨rfl, rfl, rfl, rfl, rfl, rfl⟩

/-- the three alternatives satisfy `ρ = ρ₀(1 + ε)`; where `ρ₀ = 0` the
`safe_division` value is ε = 0 (stated, not hidden). -/
theorem eos_consistent (e : Env K) :
    (e.rho0 ≠ 0 → e.rho0 * (1 + eps__rho_and_rho0 e) = e.rho)
    ∧ (e.rho0 = 0 → eps__rho_and_rho0 e = 0)
    ∧ (1 + e.eps ≠ 0 → rho0__rho e * (1 + e.eps) = e.rho) := by
  refine ⟨fun h => ?_, fun h => ?_, fun h => ?_⟩
  · simp only [core_unfold]; field_simp; ring
  · simp only [core_unfold, h, div_zero]
  · simp only [core_unfold]; field_simp

/-- `ρh = ρ + p` where `ρ₀ ≠ 0`. -/
theorem enthalpy_density (e : Env K) (h0 : e.rho0 ≠ 0) (hr : e.rho = rho e) :
    e.rho0 * enthalpy e = e.rho + e.press := by
  rw [hr]; simp only [core_unfold]; field_simp

/-! Non-vacuity: a moving fluid (W = 5/4, v = (3/5, 0, 0)) on flat space with lapse 2. -/
def exEnv : Env ℚ :=
  { (Env.zero : Env ℚ) with
    alpha := 2, betaup3 := vec3 0 0 0,
    gammadown3 := vec3 (vec3 1 0 0) (vec3 0 1 0) (vec3 0 0 1),
    betadown3 := vec3 0 0 0, betamag := 0, gtt := -4,
    gdown4 := vec4 (vec4 (-4) 0 0 0) (vec4 0 1 0 0) (vec4 0 0 1 0) (vec4 0 0 0 1),
    w_lorentz := 5 / 4, velx := 3 / 5, velup3 := vec3 (3 / 5) 0 0,
    uup0 := 5 / 8, uup3 := vec3 (3 / 4) 0 0, uup4 := vec4 (5 / 8) (3 / 4) 0 0,
    udown4 := vec4 (-5 / 2) (3 / 4) 0 0 }

example : Assembled exEnv ∧ Velocity exEnv ∧ LorentzOK exEnv ∧ exEnv.alpha ≠ 0 := by
  refine ⟨⟨?_, ?_, ?_, ?_, ?_⟩, ⟨?_, ?_, ?_, ?_, ?_⟩, ?_, ?_⟩
  · funext i; revert i; cases3 <;> (simp only [exEnv, core_unfold]; norm_num)
  · simp only [exEnv, core_unfold]; norm_num
  · simp only [exEnv, core_unfold]; norm_num
  · funext i j; revert i j; cases4 <;> cases4 <;> (simp only [exEnv, core_unfold])
  · cases3 <;> cases3 <;> (simp only [exEnv, core_unfold])
  · funext i; revert i; cases3 <;> (simp only [exEnv, core_unfold, Env.zero])
  · simp only [exEnv, core_unfold]; norm_num
  · funext i; revert i; cases3 <;> (simp only [exEnv, core_unfold]; norm_num)
  · funext i; revert i; cases4 <;> (simp only [exEnv, core_unfold])
  · funext i; revert i; cases4 <;> (simp only [exEnv, core_unfold]; norm_num)
  · simp only [LorentzOK, exEnv, core_unfold, Fin.sum_univ_three]; norm_num
  · simp only [exEnv]; norm_num

end AurelVerif.C09
