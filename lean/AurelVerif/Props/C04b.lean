/-
Props/C04b.lean — property C04, extension round: the Gauss–Codazzi(–Mainardi) expressions that
`st_Riemann_down4` evaluates ARE the Riemann tensor of the assembled 4-metric (what Props/C04.lean
listed as "NOT covered by any theorem").  ONLY statements and non-vacuity examples; proofs in
Lemmas/C04{Jet2,Jet2Deriv,Gauss,Codazzi,Mainardi,RiemSym,CurvCode}.lean, textbook vocabulary in
Spec/Riemann4Jet.lean (+ Spec/Curvature.lean).

ALL theorems here are LAYER B (consistency): they hold for exact differentiation; the finite-difference
operators satisfy the Leibniz rule and metric compatibility of products only up to truncation error.

Textbook side.  `riemannDown gi dg ddg` = [LL] (92.1)
  R_abcd = ½(∂_b∂_c g_ad + ∂_a∂_d g_bc − ∂_a∂_c g_bd − ∂_b∂_d g_ac) + g^{ef}(Γ_{e|bc}Γ_{f|ad} − Γ_{e|bd}Γ_{f|ac}),
  Γ_{f|bc} = ½(∂_b g_fc + ∂_c g_fb − ∂_f g_bc).
`J : JetC K` = lapse, shift, spatial metric, K_ij and their first and second derivatives at one point as PLAIN
SYMBOLS of an arbitrary field `K`.  `J.riem3 = riemannDown γ⁻¹ ∂γ ∂∂γ`; `J.riem4 gup = riemannDown gup J.dg4 J.ddg4`
with `J.dg4`, `J.ddg4` the first / second derivatives of the ASSEMBLED metric `g_tt = −α² + β^iβ^jγ_ij`,
`g_ti = β^jγ_ji`, `g_ij = γ_ij` by the product rule (`dmetric3p1_is_derivative`, `ddmetric3p1_is_second_derivative`),
with `∂_tγ_ij` from the kinematic relation `∂_tγ_ij = −2αK_ij + D_iβ_j + D_jβ_i` and `∂_i∂_tγ_jk` its Leibniz
derivative (`kinematic_lie_form`, `ddtgam_is_derivative`).  `∂_t∂_tγ_ij`, `∂_t∂_cα`, `∂_t∂_cβ^m` are free symbols.
Hypotheses: `Jet.LeviCivita` (γ, K symmetric; `Gam3` torsion-free and metric compatible; `gamup = γ⁻¹`; α ≠ 0; 2 ≠ 0 —
exactly those of `st_Gamma_udd4_is_christoffel`) and `JetC.Smooth` (second derivatives commute, `∂_iK_jk = ∂_iK_kj`).

  gauss_offshell      R_ijkl = ³R_ijkl + K_ikK_jl − K_ilK_jk                       OFF SHELL (identity)
  codazzi_offshell    R_ijkt = β^l R_ijkl + α(D_jK_ik − D_iK_jk)                    OFF SHELL (identity)
  mainardi_onshell    R_itjt = β^kR_jkit + β^kR_ikjt − β^kβ^lR_ikjl + α²(³R_ij − K_ikK^k_j + K K_ij − Ric4_ij)
                      WHEN (and only when: `mainardi_algebraic_iff`) the `Ric4` used is the spatial block of the Ricci tensor of that same metric,
                      `Ric4_ij = g^{ac}R_aicj` (hypothesis `hRic`); this is algebra (`g^tt = −1/α² ≠ 0`), no evolution
                      equation is needed.  `ricci_of_einstein`: Einstein's equations `G_ab + Λg_ab = κT_ab` give
                      `R_ab = Λg_ab + κ(T_ab − ½Tg_ab)`, i.e. `hRic` for the code's `st_Ricci_down3`.
  riemann4_is_populate   all 256 components = populate(Gauss, Codazzi, Mainardi)
  riemannDown_symmetries the textbook tensor has the Riemann symmetries for a symmetric 2-jet
CODE.  `jetCOf e T`: the 2-jet at one grid point from the cached entries, `dtalpha`, `dtbetaup3`, the abstract operator
`e.D` (once / twice), and `T : TimeJet2 K` for the second time derivatives the code does not have (∀-quantified).
`CurvHyp e T`: assembled metric, det γ ≠ 0, `LeviCivita (jetOf e)`, `e.D i ∘ e.D j = e.D j ∘ e.D i`, and `riem3`:
the cached `s_Riemann_down3` is `riem3` — which is property C05's theorem (`s_Riemann_down3_is_textbook`).
  st_Riemann_down4_gauss / _codazzi        the `ijkl` / `ijkt` components of all four generated alternatives
  st_Riemann_down4_is_riemann_{matter,vacuum}[_noshift]   all 256 components of each alternative, under `hRic`
  st_Ricci_down3_of_einstein               `hRic` from Einstein's equations with the supplied `Tdown4`

STILL NOT PROVEN: the evolution-equation form of the Ricci equation (`R_itjt` in terms of `∂_tK_ij`, which core.py
does not use); convergence order; round-off.
  riemannDown_is_lowered_Riem, riem4_is_lowered_Riem   `riemannDown` IS `g_ax R^x_bcd` of the first-principles definition
                      `R^a_bcd = ∂_cΓ^a_db − ∂_dΓ^a_cb + ΓΓ − ΓΓ` of Spec/Jet4.lean (the vocabulary of property C17)
-/
import AurelVerif.Props.C04
import AurelVerif.Lemmas.C04CurvCode
import AurelVerif.Lemmas.C04Jet2Deriv
import AurelVerif.Lemmas.C04RiemLink

set_option linter.unusedSimpArgs false
set_option linter.unusedVariables false
set_option linter.unusedSectionVars false
set_option linter.style.nameCheck false

namespace AurelVerif.C04
open AurelVerif.Gen.Core AurelVerif.Tensor AurelVerif.CoreTac AurelVerif.C08 AurelVerif.Spec.Curvature
open AurelVerif.C04L

variable {K : Type} [Field K]

/-! ### textbook level (jets as symbols, no generated code) -/

/-- **GAUSS (off shell)**: spatial block of the textbook Riemann tensor of the assembled metric. -/
theorem gauss_offshell (J : JetC K) (h : J.LeviCivita) (gup : Fin 4 → Fin 4 → K)
    (hinv : ∀ a a', ∑ d, gup a d * J.g4 d a' = delta a a') (i j k l : Fin 3) :
    J.riem4 gup i.succ j.succ k.succ l.succ = gauss J.riem3 J.Kd i j k l :=
  JetC.gauss_identity J h gup hinv i j k l

/-- **CODAZZI (off shell)**: `R_ijkt = β^l R_ijkl + α (D_jK_ik − D_iK_jk)` with `R_ijkl` the Gauss expression. -/
theorem codazzi_offshell (J : JetC K) (h : J.LeviCivita) (hs : J.Smooth) (gup : Fin 4 → Fin 4 → K)
    (hinv : ∀ a a', ∑ d, gup a d * J.g4 d a' = delta a a') (i j k : Fin 3) :
    J.riem4 gup i.succ j.succ k.succ 0
      = codazzi J.alpha J.beta (gauss J.riem3 J.Kd) (J.covdK J.dK) i j k :=
  JetC.codazzi_identity J h hs gup hinv i j k

/-- **MAINARDI (on shell)**: `R_itjt` is the coded expression when `Ric4` is the spatial block of the Ricci tensor
`g^{ac}R_abcd` of the same textbook Riemann tensor. -/
theorem mainardi_onshell (J : JetC K) (h : J.LeviCivita) (hs : J.Smooth) (gup : Fin 4 → Fin 4 → K)
    (hinv : ∀ a a', ∑ d, gup a d * J.g4 d a' = delta a a') (Ric4 : Fin 3 → Fin 3 → K)
    (hRic : ∀ i j : Fin 3, Ric4 i j = ricciDown gup (J.riem4 gup) i.succ j.succ) (i j : Fin 3) :
    J.riem4 gup i.succ 0 j.succ 0
      = mainardi J.alpha J.beta (gauss J.riem3 J.Kd)
          (codazzi J.alpha J.beta (gauss J.riem3 J.Kd) (J.covdK J.dK))
          (ricciDown J.gamup J.riem3) (KK3 J.gamup J.Kd) J.Kd (∑ k, ∑ l, J.gamup k l * J.Kd k l) Ric4 i j :=
  JetC.mainardi_identity J h hs gup hinv Ric4 hRic i j

/-- the Mainardi block for ANY tensor with the Riemann symmetries and given `ijkl`, `ijkt` blocks `A`, `B`
(pure algebra; only `α ≠ 0`). -/
theorem mainardi_algebraic (J : Jet K) (ha : J.alpha ≠ 0) (R4 : Fin 4 → Fin 4 → Fin 4 → Fin 4 → K)
    (hR : RiemannSym R4) (A : Fin 3 → Fin 3 → Fin 3 → Fin 3 → K) (B : Fin 3 → Fin 3 → Fin 3 → K)
    (hA : ∀ i j k l : Fin 3, R4 i.succ j.succ k.succ l.succ = A i j k l)
    (hB : ∀ i j k : Fin 3, R4 i.succ j.succ k.succ 0 = B i j k)
    (Ric4 : Fin 3 → Fin 3 → K) (hRic : ∀ i j : Fin 3, Ric4 i j = ricciDown J.gup3p1 R4 i.succ j.succ)
    (i j : Fin 3) :
    R4 i.succ 0 j.succ 0
      = ∑ k, B j k i * J.beta k + ∑ k, B i k j * J.beta k - ∑ k, ∑ l, A i k j l * J.beta k * J.beta l
        + J.alpha ^ 2 * (∑ k, ∑ l, J.gamup k l * A k i l j - Ric4 i j) :=
  Jet.mainardi_algebraic J ha R4 hR A B hA hB Ric4 hRic i j

/-- **… and only then**: for a tensor with the Riemann symmetries and blocks `A`, `B`, the coded expression with the number `r` in
place of `⁴R_ij` equals `R4_itjt` IF AND ONLY IF `r` is the spatial Ricci component `g^{ac}R4_aicj` (`α ≠ 0`). -/
theorem mainardi_algebraic_iff (J : Jet K) (ha : J.alpha ≠ 0) (R4 : Fin 4 → Fin 4 → Fin 4 → Fin 4 → K)
    (hR : RiemannSym R4) (A : Fin 3 → Fin 3 → Fin 3 → Fin 3 → K) (B : Fin 3 → Fin 3 → Fin 3 → K)
    (hA : ∀ i j k l : Fin 3, R4 i.succ j.succ k.succ l.succ = A i j k l)
    (hB : ∀ i j k : Fin 3, R4 i.succ j.succ k.succ 0 = B i j k) (r : K) (i j : Fin 3) :
    R4 i.succ 0 j.succ 0
        = ∑ k, B j k i * J.beta k + ∑ k, B i k j * J.beta k - ∑ k, ∑ l, A i k j l * J.beta k * J.beta l
          + J.alpha ^ 2 * (∑ k, ∑ l, J.gamup k l * A k i l j - r)
      ↔ r = ricciDown J.gup3p1 R4 i.succ j.succ :=
  Jet.mainardi_algebraic_iff J ha R4 hR A B hA hB r i j

/-- **all 256 components** of the textbook Riemann tensor of the assembled metric. -/
theorem riemann4_is_populate (J : JetC K) (h : J.LeviCivita) (hs : J.Smooth) (gup : Fin 4 → Fin 4 → K)
    (hinv : ∀ a a', ∑ d, gup a d * J.g4 d a' = delta a a') (Ric4 : Fin 3 → Fin 3 → K)
    (hRic : ∀ i j : Fin 3, Ric4 i j = ricciDown gup (J.riem4 gup) i.succ j.succ) (a b c d : Fin 4) :
    J.riem4 gup a b c d = populate J.gaussB J.codazziB (J.mainardiB Ric4) a b c d :=
  JetC.riem4_is_populate J h hs gup hinv Ric4 hRic a b c d

/-- the textbook tensor `riemannDown` has the Riemann symmetries for a symmetric 2-jet (any dimension). -/
theorem riemannDown_symmetries {n : Nat} (gi : Fin n → Fin n → K) (dg : Fin n → Fin n → Fin n → K)
    (ddg : Fin n → Fin n → Fin n → Fin n → K) (hgi : ∀ a b, gi a b = gi b a) (hdg : ∀ c a b, dg c a b = dg c b a)
    (hcd : ∀ c d a b, ddg c d a b = ddg d c a b) (hab : ∀ c d a b, ddg c d a b = ddg c d b a) :
    RiemannSym (riemannDown gi dg ddg) := riemannDown_sym gi dg ddg hgi hdg hcd hab

/-- the 2-jet of the assembled metric is symmetric, hence `J.riem4` has the Riemann symmetries. -/
theorem riem4_symmetries (J : JetC K) (h : J.LeviCivita) (hs : J.Smooth) : RiemannSym (J.riem4 J.gup3p1) :=
  JetC.riem4_sym J h hs

/-- the textbook 3+1 inverse metric IS the inverse of the assembled metric, and the only one. -/
theorem gup3p1_is_inverse (J : Jet K) (h : J.LeviCivita) :
    (∀ a c : Fin 4, ∑ b, J.gup3p1 a b * J.g4 b c = delta a c)
    ∧ ∀ gup : Fin 4 → Fin 4 → K, (∀ a a', ∑ d, gup a d * J.g4 d a' = delta a a') → ∀ a b, gup a b = J.gup3p1 a b :=
  ⟨Jet.gup3p1_mul_g4 J h, fun gup hinv a b => Jet.gup_unique J h gup hinv a b⟩

/-- `g^{ef} X_e Y_f = γ^{mn} X_m Y_n − (X_0 − β^m X_m)(Y_0 − β^n Y_n)/α²`. -/
theorem gup3p1_contraction (J : Jet K) (X Y : Fin 4 → K) :
    ∑ e, ∑ f, J.gup3p1 e f * (X e * Y f)
      = ∑ m : Fin 3, ∑ n : Fin 3, J.gamup m n * (X m.succ * Y n.succ)
        - (X 0 - ∑ m : Fin 3, J.beta m * X m.succ) * (Y 0 - ∑ n : Fin 3, J.beta n * Y n.succ) / J.alpha ^ 2 :=
  Jet.gup3p1_contract J X Y

/-- first-kind Christoffel symbols of the assembled metric: `Γ_{0|jk} − β^m Γ_{m|jk} = α K_jk`. -/
theorem christoffel1_normal (J : Jet K) (h : J.LeviCivita) (j k : Fin 3) :
    christoffel1 J.dg4 0 j.succ k.succ - ∑ m : Fin 3, J.beta m * christoffel1 J.dg4 m.succ j.succ k.succ
      = J.alpha * J.Kd j k := by
  rw [Jet.c1_0ss J h j k]; simp only [Jet.c1_sss]; ring

/-- the kinematic relation of `Jet.dtgam` (`−2αK_jk + D_jβ_k + D_kβ_j`) in Lie-derivative form. -/
theorem kinematic_lie_form (J : Jet K) (h : J.LeviCivita) (j k : Fin 3) :
    J.dtgam j k = -(2 * J.alpha * J.Kd j k) + J.lieGam j k := Jet.dtgam_lie J h j k

/-- `ddmetric3p1` (used in `JetC.ddg4`) is the second derivative of the assembled metric for every pair of derivations. -/
theorem ddmetric3p1_is_second_derivative {d1 d2 : K → K} (h1 : Deriv d1) (h2 : Deriv d2) (alpha : K)
    (beta : Fin 3 → K) (gam : Fin 3 → Fin 3 → K) (a b : Fin 4) :
    d2 (dmetric3p1 alpha beta gam (d1 alpha) (fun i => d1 (beta i)) (fun i j => d1 (gam i j)) a b)
      = ddmetric3p1 alpha beta gam (d1 alpha) (fun i => d1 (beta i)) (fun i j => d1 (gam i j))
          (d2 alpha) (fun i => d2 (beta i)) (fun i j => d2 (gam i j))
          (d2 (d1 alpha)) (fun i => d2 (d1 (beta i))) (fun i j => d2 (d1 (gam i j))) a b :=
  dderiv_metric3p1 h1 h2 alpha beta gam a b

/-- `JetC.ddtgam` is the derivative of the kinematic relation: for a derivation `d` (= `∂_i`) whose values on the
0- and 1-jets are the corresponding 1- and 2-jets. -/
theorem ddtgam_is_derivative (J : JetC K) {d : K → K} (h : Deriv d) (i j k : Fin 3)
    (ha : d J.alpha = J.da i) (hb : ∀ m, d (J.beta m) = J.db i m) (hg : ∀ a b, d (J.gam a b) = J.dgam i a b)
    (hK : d (J.Kd j k) = J.dK i j k) (hdg : ∀ m a b, d (J.dgam m a b) = J.ddgam i m a b)
    (hdb : ∀ l m, d (J.db l m) = J.ddb i.succ l.succ m) :
    d (-(2 * J.alpha * J.Kd j k) + J.lieGam j k) = J.ddtgam i j k := by
  unfold Jet.lieGam JetC.ddtgam
  rw [deriv_kinematic h]
  simp only [ha, hb, hg, hK, hdg, hdb]

/-- **Einstein's equations give the Ricci tensor** (trace reversal, 4 dimensions). -/
theorem ricci_of_einstein (h2 : (2 : K) ≠ 0) (gup g Ric T : Fin 4 → Fin 4 → K) (Lam kappa : K)
    (htr : trace gup g = 4)
    (hE : ∀ a b, einstein Ric (trace gup Ric) g a b + Lam * g a b = kappa * T a b) (a b : Fin 4) :
    Ric a b = ricciOfMatter Lam kappa g T (trace gup T) a b :=
  Jet.ricci_of_einstein h2 gup g Ric T Lam kappa htr hE a b

/-- **the covariant formula is the lowered first-principles Riemann tensor** (any 2-jet with `g g⁻¹ = 1`, symmetric, `2 ≠ 0`):
`g_{ax} R^x_{bcd} = riemannDown`, `R^a_{bcd} = ∂_cΓ^a_{db} − ∂_dΓ^a_{cb} + Γ^a_{ce}Γ^e_{db} − Γ^a_{de}Γ^e_{cb}` (`Spec.Jet4.Jet2.Riem`). -/
theorem riemannDown_is_lowered_Riem (J : Spec.Jet4.Jet2 K) (hinv : J.IsInverse) (hs : J.IsSymm) (h2 : (2 : K) ≠ 0)
    (a b c d : Fin 4) : ∑ x, J.g a x * J.Riem x b c d = riemannDown J.gi J.dg J.ddg a b c d :=
  Spec.Jet4.Jet2.lower_Riem J hinv hs h2 a b c d

/-- the same for the 2-jet of the assembled metric (`J.toJet2 = ⟨g4, gup3p1, dg4, ddg4⟩`, which is a symmetric jet with
`g g⁻¹ = 1`). -/
theorem riem4_is_lowered_Riem (J : JetC K) (h : J.LeviCivita) (hs : J.Smooth) (a b c d : Fin 4) :
    (J.toJet2.IsInverse ∧ J.toJet2.IsSymm)
    ∧ ∑ x, J.g4 a x * J.toJet2.Riem x b c d = J.riem4 J.gup3p1 a b c d :=
  ⟨⟨JetC.toJet2_inverse J h, JetC.toJet2_symm J h hs⟩, JetC.riem4_is_lowered J h hs a b c d⟩

/-! ### code level -/

/-- **GAUSS, generated code**: the `ijkl` components of every alternative of `st_Riemann_down4` are those of the textbook
Riemann tensor of the assembled metric (with the code's `gup4`). -/
theorem st_Riemann_down4_gauss (e : Env K) (T : TimeJet2 K) (H : CurvHyp e T) (i j k l : Fin 3) :
    st_Riemann_down4__betaup3_matter e i.succ j.succ k.succ l.succ = (jetCOf e T).riem4 (gup4 e) i.succ j.succ k.succ l.succ
    ∧ st_Riemann_down4__dflt_matter e i.succ j.succ k.succ l.succ = (jetCOf e T).riem4 (gup4 e) i.succ j.succ k.succ l.succ
    ∧ st_Riemann_down4__betaup3_vacuum e i.succ j.succ k.succ l.succ = (jetCOf e T).riem4 (gup4 e) i.succ j.succ k.succ l.succ
    ∧ st_Riemann_down4__dflt_vacuum e i.succ j.succ k.succ l.succ = (jetCOf e T).riem4 (gup4 e) i.succ j.succ k.succ l.succ := by
  refine ⟨?_, ?_, ?_, ?_⟩
  · rw [bm_ssss]; exact H.gauss_code i j k l
  · rw [dm_ssss]; exact H.gauss_code i j k l
  · rw [bv_ssss]; exact H.gauss_code i j k l
  · rw [dv_ssss]; exact H.gauss_code i j k l

/-- **CODAZZI, generated code**: the `ijkt` components of every alternative. -/
theorem st_Riemann_down4_codazzi (e : Env K) (T : TimeJet2 K) (H : CurvHyp e T) (i j k : Fin 3) :
    st_Riemann_down4__betaup3_matter e i.succ j.succ k.succ 0 = (jetCOf e T).riem4 (gup4 e) i.succ j.succ k.succ 0
    ∧ st_Riemann_down4__dflt_matter e i.succ j.succ k.succ 0 = (jetCOf e T).riem4 (gup4 e) i.succ j.succ k.succ 0
    ∧ st_Riemann_down4__betaup3_vacuum e i.succ j.succ k.succ 0 = (jetCOf e T).riem4 (gup4 e) i.succ j.succ k.succ 0
    ∧ st_Riemann_down4__dflt_vacuum e i.succ j.succ k.succ 0 = (jetCOf e T).riem4 (gup4 e) i.succ j.succ k.succ 0 := by
  refine ⟨?_, ?_, ?_, ?_⟩
  · rw [bm_ssst]; exact H.codazzi_code i j k
  · rw [dm_ssst]; exact H.codazzi_code i j k
  · rw [bv_ssst]; exact H.codazzi_code i j k
  · rw [dv_ssst]; exact H.codazzi_code i j k

/-- **all 256 components, `vacuum = False`, a shift key supplied**: the generated `st_Riemann_down4` is the textbook
Riemann tensor, provided the cached `st_Ricci_down3` is the spatial block of the Ricci tensor of the assembled metric
(`hRic`; from Einstein's equations: `st_Ricci_down3_of_einstein`). -/
theorem st_Riemann_down4_is_riemann_matter (e : Env K) (T : TimeJet2 K) (H : CurvHyp e T) (M : MainardiCached e)
    (hRic : ∀ i j : Fin 3, e.st_Ricci_down3 i j = ricciDown (gup4 e) ((jetCOf e T).riem4 (gup4 e)) i.succ j.succ)
    (a b c d : Fin 4) :
    st_Riemann_down4__betaup3_matter e a b c d = (jetCOf e T).riem4 (gup4 e) a b c d := by
  rw [st_Riemann_down4__betaup3_matter_spec]; exact H.populate_code M e.st_Ricci_down3 hRic a b c d

/-- **all 256 components, `vacuum = True`, a shift key supplied**: provided the spatial block of the Ricci tensor of the
assembled metric vanishes. -/
theorem st_Riemann_down4_is_riemann_vacuum (e : Env K) (T : TimeJet2 K) (H : CurvHyp e T) (M : MainardiCached e)
    (hRic : ∀ i j : Fin 3, ricciDown (gup4 e) ((jetCOf e T).riem4 (gup4 e)) i.succ j.succ = 0)
    (a b c d : Fin 4) :
    st_Riemann_down4__betaup3_vacuum e a b c d = (jetCOf e T).riem4 (gup4 e) a b c d := by
  rw [st_Riemann_down4__betaup3_vacuum_spec]
  exact H.populate_code M (fun _ _ => 0) (fun i j => (hRic i j).symm) a b c d

/-- the same without any shift key (zero-shift shortcut of `s_to_st`), for a vanishing shift. -/
theorem st_Riemann_down4_is_riemann_matter_noshift (e : Env K) (T : TimeJet2 K) (H : CurvHyp e T)
    (M : MainardiCached e) (hb : e.betaup3 = fun _ => 0)
    (hRic : ∀ i j : Fin 3, e.st_Ricci_down3 i j = ricciDown (gup4 e) ((jetCOf e T).riem4 (gup4 e)) i.succ j.succ)
    (a b c d : Fin 4) :
    st_Riemann_down4__dflt_matter e a b c d = (jetCOf e T).riem4 (gup4 e) a b c d := by
  rw [st_Riemann_down4__dflt_matter_spec]; exact H.populate_code_noshift M hb e.st_Ricci_down3 hRic a b c d

theorem st_Riemann_down4_is_riemann_vacuum_noshift (e : Env K) (T : TimeJet2 K) (H : CurvHyp e T)
    (M : MainardiCached e) (hb : e.betaup3 = fun _ => 0)
    (hRic : ∀ i j : Fin 3, ricciDown (gup4 e) ((jetCOf e T).riem4 (gup4 e)) i.succ j.succ = 0)
    (a b c d : Fin 4) :
    st_Riemann_down4__dflt_vacuum e a b c d = (jetCOf e T).riem4 (gup4 e) a b c d := by
  rw [st_Riemann_down4__dflt_vacuum_spec]
  exact H.populate_code_noshift M hb (fun _ _ => 0) (fun i j => (hRic i j).symm) a b c d

/-- **on shell**: `hRic` of `st_Riemann_down4_is_riemann_matter` from Einstein's equations with the supplied `Tdown4`. -/
theorem st_Ricci_down3_of_einstein (e : Env K) (T : TimeJet2 K) (H : CurvHyp e T) (hgup : e.gup4 = gup4 e)
    (hR : e.st_Ricci_down3 = st_Ricci_down3__dflt e)
    (hE : ∀ a b, einstein (ricciDown (gup4 e) ((jetCOf e T).riem4 (gup4 e)))
        (trace (gup4 e) (ricciDown (gup4 e) ((jetCOf e T).riem4 (gup4 e)))) e.gdown4 a b
          + e.Lambda * e.gdown4 a b = e.kappa * e.Tdown4 a b) (i j : Fin 3) :
    e.st_Ricci_down3 i j = ricciDown (gup4 e) ((jetCOf e T).riem4 (gup4 e)) i.succ j.succ :=
  H.ricci_of_einstein hgup hR hE i j

/-- **`CurvHyp.riem3` is property C05**: the cached `s_Riemann_down3`, produced by the code from its own connection, is
the textbook Riemann tensor of γ. -/
theorem s_Riemann_down3_is_textbook (e : Env K) (T : TimeJet2 K) (h : C05L.MetricOK e) (h2 : (2 : K) ≠ 0)
    (hR3 : e.s_Riemann_down3 = s_Riemann_down3 e) (hRu : e.s_Riemann_uddd3 = s_Riemann_uddd3 e)
    (hc : C05L.CurvRules e) (lc : (jetOf e).LeviCivita) (a b c d : Fin 3) :
    e.s_Riemann_down3 a b c d = (jetCOf e T).riem3 a b c d := riem3_of_code e T h h2 hR3 hRu hc lc a b c d

/-- `Jet.LeviCivita` for the code's own connection and inverse metric (metric compatibility: C05-T8, exact). -/
theorem leviCivita_of_code (e : Env K) (h : C05L.MetricOK e) (hK : Sym e.Kdown3) (ha : e.alpha ≠ 0)
    (h2 : (2 : K) ≠ 0) : (jetOf e).LeviCivita := leviCivita_of_metricOK e h hK ha h2


/-! ### Non-vacuity -/

/-- a 2-jet with NON-ZERO spatial derivatives: γ = 1, a non-zero symmetric connection with `∂γ` defined from it by metric
compatibility, lapse 2, shift (1,0,−1), non-zero `K`, `∂K`, `∂∂γ`, `∂∂β`, `∂∂α`. -/
def exJ : JetC ℚ where
  alpha := 2
  beta := vec3 1 0 (-1)
  gam := vec3 (vec3 1 0 0) (vec3 0 1 0) (vec3 0 0 1)
  gamup := vec3 (vec3 1 0 0) (vec3 0 1 0) (vec3 0 0 1)
  Kd := vec3 (vec3 1 2 0) (vec3 2 0 1) (vec3 0 1 3)
  Gam3 := fun l i j => (l.val + 1 : ℚ) * ((i.val : ℚ) + j.val) - (i.val : ℚ) * j.val
  dta := 1 / 2
  dtb := vec3 1 0 2
  da := vec3 1 (-1) 3
  db := fun i k => (i.val : ℚ) - 2 * k.val
  dgam := fun i k j => ((j.val + 1 : ℚ) * ((i.val : ℚ) + k.val) - (i.val : ℚ) * k.val)
    + ((k.val + 1 : ℚ) * ((i.val : ℚ) + j.val) - (i.val : ℚ) * j.val)
  dK := fun i j k => (i.val + 1 : ℚ) * ((j.val : ℚ) + k.val)
  dda := fun c d => (c.val : ℚ) * d.val + 1
  ddb := fun c d m => ((c.val : ℚ) + d.val) * (m.val + 1)
  ddgam := fun k l i j => ((k.val : ℚ) + l.val + 1) * ((i.val : ℚ) * j.val - 2)
  dttgam := fun i j => (i.val : ℚ) + j.val + 1

theorem exJ_ok : exJ.LeviCivita ∧ exJ.Smooth ∧ exJ.riem3 0 1 0 1 ≠ 0 ∧ exJ.covdK exJ.dK 0 1 1 ≠ exJ.covdK exJ.dK 1 0 1 := by
  refine ⟨⟨?_, ?_, ?_, ?_, ?_, ?_, ?_⟩, ⟨?_, ?_, ?_, ?_, ?_, ?_⟩, ?_, ?_⟩
  · cases3 <;> cases3 <;> (simp only [exJ, core_unfold])
  · cases3 <;> cases3 <;> (simp only [exJ, core_unfold])
  · intro l i j; simp only [exJ]; ring
  · cases3 <;> cases3 <;> cases3 <;> (simp only [exJ, core_unfold, Fin.sum_univ_three]; norm_num)
  · intro X; cases3 <;> (simp only [exJ, core_unfold, Fin.sum_univ_three]; ring)
  · simp only [exJ]; norm_num
  · norm_num
  · intro i j k; simp only [exJ]; ring
  · intro c d; simp only [exJ]; ring
  · intro c d m; simp only [exJ]; ring
  · intro k l i j; simp only [exJ]; ring
  · intro k l i j; simp only [exJ]; ring
  · intro i j; simp only [exJ]; ring
  · simp only [JetC.riem3, riemannDown, christoffel1, exJ, core_unfold, Fin.sum_univ_three]; norm_num
  · simp only [Jet.covdK, exJ, core_unfold, Fin.sum_univ_three]; norm_num

/-- hypotheses of `gauss_offshell`, `codazzi_offshell`, `mainardi_onshell`, `riemann4_is_populate` at `exJ`: the 3+1 inverse
metric is a left inverse; `Ric4` := the spatial Ricci block. -/
example : (∀ a a', ∑ d, exJ.gup3p1 a d * exJ.g4 d a' = delta a a')
    ∧ ∀ i j : Fin 3, (fun i j : Fin 3 => ricciDown exJ.gup3p1 (exJ.riem4 exJ.gup3p1) i.succ j.succ) i j
        = ricciDown exJ.gup3p1 (exJ.riem4 exJ.gup3p1) i.succ j.succ :=
  ⟨(gup3p1_is_inverse exJ.toJet exJ_ok.1).1, fun _ _ => rfl⟩

/-- `riemannDown_is_lowered_Riem`: the jet of the assembled metric of `exJ`. -/
example : exJ.toJet2.IsInverse ∧ exJ.toJet2.IsSymm ∧ (2 : ℚ) ≠ 0 :=
  ⟨JetC.toJet2_inverse exJ exJ_ok.1, JetC.toJet2_symm exJ exJ_ok.1 exJ_ok.2.1, by norm_num⟩

/-- `mainardi_algebraic`, `mainardi_algebraic_iff`: the populated example blocks of Props/C04.lean, Ricci block := its own contraction. -/
example : RiemannSym (populate exA exB exC) ∧ exJ.alpha ≠ 0 :=
  ⟨C04L.populate_sym exA exB exC exBlocks.1, by simp only [exJ]; norm_num⟩

/-- `ricci_of_einstein`: Minkowski metric, `Ric = diag(3,1,1,1)` (so `R = −3+3 = 0`... any symmetric `Ric` works: `T` is
DEFINED from it), Λ = 1/3, κ = 2. -/
example : ∃ gup g Ric T : Fin 4 → Fin 4 → ℚ, trace gup g = 4 ∧ Ric 0 0 ≠ 0
    ∧ ∀ a b, einstein Ric (trace gup Ric) g a b + (1 / 3 : ℚ) * g a b = 2 * T a b := by
  refine ⟨vec4 (vec4 (-1) 0 0 0) (vec4 0 1 0 0) (vec4 0 0 1 0) (vec4 0 0 0 1),
    vec4 (vec4 (-1) 0 0 0) (vec4 0 1 0 0) (vec4 0 0 1 0) (vec4 0 0 0 1),
    vec4 (vec4 3 1 0 0) (vec4 1 1 0 0) (vec4 0 0 1 0) (vec4 0 0 0 1), ?_, ?_, ?_, fun a b => ?_⟩
  · exact fun a b => (einstein (vec4 (vec4 3 1 0 0) (vec4 1 1 0 0) (vec4 0 0 1 0) (vec4 0 0 0 1))
      (trace (vec4 (vec4 (-1) 0 0 0) (vec4 0 1 0 0) (vec4 0 0 1 0) (vec4 0 0 0 1))
        (vec4 (vec4 3 1 0 0) (vec4 1 1 0 0) (vec4 0 0 1 0) (vec4 0 0 0 1)))
      (vec4 (vec4 (-1) 0 0 0) (vec4 0 1 0 0) (vec4 0 0 1 0) (vec4 0 0 0 1)) a b
      + (1 / 3 : ℚ) * (vec4 (vec4 (-1) 0 0 0) (vec4 0 1 0 0) (vec4 0 0 1 0) (vec4 0 0 0 1)) a b) / 2
  · simp only [trace, Fin.sum_univ_four, core_unfold]; norm_num
  · simp only [core_unfold]; norm_num
  · ring

/-- derivations (`ddmetric3p1_is_second_derivative`, `ddtgam_is_derivative`): see the remark at the end of Props/C04.lean —
over ℚ only the zero map, on rational functions `d/dx`. -/
example : Deriv (fun _ : ℚ => (0 : ℚ)) := ⟨fun _ _ => by simp, fun _ _ => by simp⟩

/-! code level, `vacuum = False`: lapse 2, shift (1,0,0), sheared metric, non-zero `K`, `∂_tα`, `∂_tβ` (Props/C04.lean `exEnv`),
`gup4`, `Ktrace` produced by the code, non-zero second time derivatives, and `st_Ricci_down3` := the spatial Ricci block of the
textbook tensor. -/

def exT : TimeJet2 ℚ :=
  { ddta := vec4 1 0 2 0, ddtb := fun c m => (c.val : ℚ) - m.val, dttgam := fun i j => (i.val + j.val + 1 : ℚ) }

def exEnvC0 : Env ℚ := { exEnv with gup4 := gup4 exEnv, Ktrace := Ktrace exEnv }
def exEnvC : Env ℚ :=
  { exEnvC0 with
    st_Ricci_down3 := fun i j => ricciDown (gup4 exEnvC0) ((jetCOf exEnvC0 exT).riem4 (gup4 exEnvC0)) i.succ j.succ }

theorem exEnvC_hyp : CurvHyp exEnvC exT := by
  refine ⟨⟨?_, ?_, ?_, ?_, ?_⟩, ?_, ?_, ⟨?_, ?_, ?_, ?_, ?_, ?_, ?_⟩, ?_, ?_, ?_⟩
  · funext i; revert i; cases3 <;> (simp only [exEnvC, exEnvC0, exEnv, C08.exEnv, core_unfold]; norm_num)
  · simp only [exEnvC, exEnvC0, exEnv, C08.exEnv, core_unfold]; norm_num
  · simp only [exEnvC, exEnvC0, exEnv, C08.exEnv, core_unfold]; norm_num
  · funext i j; revert i j; cases4 <;> cases4 <;> (simp only [exEnvC, exEnvC0, exEnv, C08.exEnv, core_unfold])
  · cases3 <;> cases3 <;> (simp only [exEnvC, exEnvC0, exEnv, C08.exEnv, core_unfold])
  · simp only [exEnvC, exEnvC0, exEnv, C08.exEnv, core_unfold]; norm_num
  · simp only [exEnvC, exEnvC0, exEnv, C08.exEnv, core_unfold]; norm_num
  · cases3 <;> cases3 <;> (simp only [jetOf, exEnvC, exEnvC0, exEnv, C08.exEnv, core_unfold])
  · cases3 <;> cases3 <;> (simp only [jetOf, exEnvC, exEnvC0, exEnv, C08.exEnv, core_unfold])
  · cases3 <;> cases3 <;> cases3 <;> (simp only [jetOf, exEnvC, exEnvC0, exEnv, C08.exEnv, Env.zero])
  · cases3 <;> cases3 <;> cases3 <;>
      (simp only [jetOf, exEnvC, exEnvC0, exEnv, C08.exEnv, Env.zero, Fin.sum_univ_three]; norm_num)
  · intro X; cases3 <;> (simp only [jetOf, exEnvC, exEnvC0, exEnv, C08.exEnv, core_unfold, Fin.sum_univ_three]; ring)
  · simp only [jetOf, exEnvC, exEnvC0, exEnv, C08.exEnv]; norm_num
  · norm_num
  · intro i j x; rfl
  · intro i j; simp only [exT]; ring
  · intro a b c d
    simp [JetC.riem3, riemannDown, christoffel1, jetCOf, jetOf, exEnvC, exEnvC0, exEnv, C08.exEnv, Env.zero]

theorem exEnvC_cached : MainardiCached exEnvC := by
  refine ⟨rfl, rfl, fun i j => ?_⟩
  simp [ricciDown, exEnvC, exEnvC0, exEnv, C08.exEnv, Env.zero]

theorem exEnvC_ric (i j : Fin 3) :
    exEnvC.st_Ricci_down3 i j = ricciDown (gup4 exEnvC) ((jetCOf exEnvC exT).riem4 (gup4 exEnvC)) i.succ j.succ := rfl


/-! code level, `vacuum = True`: the KASNER solution (p = 2/3, 2/3, −1/3) at t = 1 in its standard coordinates — spatially
homogeneous, so the zero operator differentiates it exactly; `K_ij = −p_i δ_ij`, `∂_t∂_tγ_ij = 2p_i(2p_i − 1)δ_ij`.  Its Riemann
tensor is non-zero and the spatial Ricci block vanishes (`exKas_ric`).  Zero shift: also the `_noshift` theorems. -/

def exKas0 : Env ℚ :=
  { (Env.zero : Env ℚ) with
    alpha := 1, betaup3 := fun _ => 0,
    gammadown3 := vec3 (vec3 1 0 0) (vec3 0 1 0) (vec3 0 0 1),
    gammaup3 := vec3 (vec3 1 0 0) (vec3 0 1 0) (vec3 0 0 1),
    gammadet := 1,
    Kdown3 := vec3 (vec3 (-2/3) 0 0) (vec3 0 (-2/3) 0) (vec3 0 0 (1/3)),
    betadown3 := fun _ => 0, betamag := 0, gtt := -1,
    gdown4 := vec4 (vec4 (-1) 0 0 0) (vec4 0 1 0 0) (vec4 0 0 1 0) (vec4 0 0 0 1) }
def exKas : Env ℚ := { exKas0 with gup4 := gup4 exKas0, Ktrace := Ktrace exKas0 }
def exKasT : TimeJet2 ℚ :=
  { ddta := fun _ => 0, ddtb := fun _ _ => 0, dttgam := vec3 (vec3 (4/9) 0 0) (vec3 0 (4/9) 0) (vec3 0 0 (10/9)) }

theorem exKas_hyp : CurvHyp exKas exKasT := by
  refine ⟨⟨?_, ?_, ?_, ?_, ?_⟩, ?_, ?_, ⟨?_, ?_, ?_, ?_, ?_, ?_, ?_⟩, ?_, ?_, ?_⟩
  · funext i; revert i; cases3 <;> (simp only [exKas, exKas0, core_unfold]; norm_num)
  · simp only [exKas, exKas0, core_unfold]; norm_num
  · simp only [exKas, exKas0, core_unfold]; norm_num
  · funext i j; revert i j; cases4 <;> cases4 <;> (simp only [exKas, exKas0, core_unfold])
  · cases3 <;> cases3 <;> (simp only [exKas, exKas0, core_unfold])
  · simp only [exKas, exKas0, core_unfold]; norm_num
  · simp only [exKas, exKas0, core_unfold]; norm_num
  · cases3 <;> cases3 <;> (simp only [jetOf, exKas, exKas0, core_unfold])
  · cases3 <;> cases3 <;> (simp only [jetOf, exKas, exKas0, core_unfold])
  · cases3 <;> cases3 <;> cases3 <;> (simp only [jetOf, exKas, exKas0, Env.zero])
  · cases3 <;> cases3 <;> cases3 <;>
      (simp only [jetOf, exKas, exKas0, Env.zero, Fin.sum_univ_three]; norm_num)
  · intro X; cases3 <;> (simp only [jetOf, exKas, exKas0, core_unfold, Fin.sum_univ_three]; ring)
  · simp only [jetOf, exKas, exKas0]; norm_num
  · norm_num
  · intro i j x; rfl
  · cases3 <;> cases3 <;> (simp only [exKasT, core_unfold])
  · intro a b c d
    simp [JetC.riem3, riemannDown, christoffel1, jetCOf, jetOf, exKas, exKas0, Env.zero]

set_option maxHeartbeats 1000000 in
/-- `∂_c g_ab` of the example: only `∂_t γ_ij = −2αK_ij` is non-zero. -/
theorem exKas_dg4 : (jetOf exKas).dg4
    = tsplit (vec4 (vec4 0 0 0 0) (vec4 0 (4/3) 0 0) (vec4 0 0 (4/3) 0) (vec4 0 0 0 (-2/3))) (fun _ _ _ => 0) := by
  funext c a b; revert c a b
  cases4 <;> cases4 <;> cases4 <;>
    (simp only [Jet.dg4, dmetric3p1, Jet.dtgam, dtGamma, Jet.DbD, covdShiftDown, jetOf, exKas, exKas0, Env.zero,
       tsplit_0, tsplit_1, tsplit_2, tsplit_3, Fin.sum_univ_three, core_unfold]
     try norm_num)

set_option maxHeartbeats 1000000 in
/-- `R_itjt = (p_i − p_i²) δ_ij` directly from the textbook formula. -/
theorem exKas_stst : ∀ i j : Fin 3, (jetCOf exKas exKasT).riem4 (jetCOf exKas exKasT).gup3p1 i.succ 0 j.succ 0
    = vec3 (vec3 (2/9) 0 0) (vec3 0 (2/9) 0) (vec3 0 0 (-4/9)) i j := by
  have hd : (jetCOf exKas exKasT).dg4 = (jetOf exKas).dg4 := rfl
  cases3 <;> cases3 <;>
    (simp only [JetC.riem4, riemannDown, hd, exKas_dg4, christoffel1]
     simp only [JetC.ddg4, ddmetric3p1, JetC.dd4gam, JetC.ddtgam,
       Jet.d4a, Jet.d4b, Jet.d4gam, Jet.gup3p1, jetCOf, jetOf, exKas, exKas0, exKasT, Env.zero,
       tsplit_0, tsplit_1, tsplit_2, tsplit_3, Fin.sum_univ_four, Fin.sum_univ_three, succ3_0, succ3_1, succ3_2,
       core_unfold]
     norm_num)

theorem exKas_cached : MainardiCached exKas ∧ exKas.betaup3 = fun _ => 0 := by
  refine ⟨⟨rfl, rfl, fun i j => ?_⟩, rfl⟩
  simp [ricciDown, exKas, exKas0, Env.zero]

set_option maxHeartbeats 1000000 in
/-- the spatial block of the Ricci tensor of the example vanishes (Kasner is a vacuum solution). -/
theorem exKas_ric : ∀ i j : Fin 3,
    ricciDown (gup4 exKas) ((jetCOf exKas exKasT).riem4 (gup4 exKas)) i.succ j.succ = 0 := by
  have H := exKas_hyp
  have hg : gup4 exKas = (jetOf exKas).gup3p1 := by funext a b; exact H.gup a b
  have hr3 : (jetCOf exKas exKasT).riem3 = fun _ _ _ _ => 0 := by
    funext a b c d; rw [← H.riem3]; rfl
  rw [hg]
  change ∀ i j : Fin 3, ricciDown (jetCOf exKas exKasT).gup3p1
    ((jetCOf exKas exKasT).riem4 (jetCOf exKas exKasT).gup3p1) i.succ j.succ = 0
  intro i j
  have rs := Jet.ricci_spatial (jetCOf exKas exKasT).toJet H.lc.ha _ (JetC.riem4_sym (jetCOf exKas exKasT) H.lc H.smooth) _ _
    (JetC.gauss_gup3p1 (jetCOf exKas exKasT) H.lc) (JetC.codazzi_gup3p1 (jetCOf exKas exKasT) H.lc H.smooth) i j
  rw [exKas_stst i j] at rs
  generalize ricciDown (jetCOf exKas exKasT).gup3p1
    ((jetCOf exKas exKasT).riem4 (jetCOf exKas exKasT).gup3p1) i.succ j.succ = X at rs ⊢
  simp only [JetC.gaussB, JetC.codazziB, codazzi, hr3, gauss, Fin.sum_univ_three] at rs
  revert X
  revert i j
  cases3 <;> cases3 <;>
    (intro X rs
     simp only [jetCOf, jetOf, exKas, exKas0, core_unfold] at rs
     norm_num at rs
     exact rs)


/-- all hypotheses of the code-level theorems hold at the two examples, and the curvature there is non-zero. -/
example : CurvHyp exEnvC exT ∧ MainardiCached exEnvC
    ∧ (∀ i j : Fin 3, exEnvC.st_Ricci_down3 i j
        = ricciDown (gup4 exEnvC) ((jetCOf exEnvC exT).riem4 (gup4 exEnvC)) i.succ j.succ)
    ∧ RssssE exEnvC 0 1 0 1 ≠ 0 := by
  refine ⟨exEnvC_hyp, exEnvC_cached, exEnvC_ric, ?_⟩
  simp only [RssssE, gauss, exEnvC, exEnvC0, exEnv, C08.exEnv, Env.zero, core_unfold]; norm_num

example : CurvHyp exKas exKasT ∧ MainardiCached exKas ∧ (exKas.betaup3 = fun _ => 0)
    ∧ (∀ i j : Fin 3, ricciDown (gup4 exKas) ((jetCOf exKas exKasT).riem4 (gup4 exKas)) i.succ j.succ = 0)
    ∧ RssssE exKas 0 2 0 2 ≠ 0 := by
  refine ⟨exKas_hyp, exKas_cached.1, exKas_cached.2, exKas_ric, ?_⟩
  simp only [RssssE, gauss, exKas, exKas0, Env.zero, core_unfold]; norm_num

/-- `st_Ricci_down3_of_einstein`: at `exEnvC` define `Tdown4` from the Einstein tensor of the textbook Riemann tensor
(κ = 2, Λ = 1/3); then Einstein's equations hold by construction, and `st_Ricci_down3` := the code's formula. -/
def exEnvE0 : Env ℚ :=
  { exEnvC with
    kappa := 2, Lambda := 1 / 3
    Tdown4 := fun a b => (einstein (ricciDown (gup4 exEnvC) ((jetCOf exEnvC exT).riem4 (gup4 exEnvC)))
        (trace (gup4 exEnvC) (ricciDown (gup4 exEnvC) ((jetCOf exEnvC exT).riem4 (gup4 exEnvC)))) exEnvC.gdown4 a b
        + (1 / 3 : ℚ) * exEnvC.gdown4 a b) / 2 }
def exEnvE : Env ℚ := { exEnvE0 with st_Ricci_down3 := st_Ricci_down3__dflt exEnvE0 }

example : exEnvE.gup4 = gup4 exEnvE ∧ exEnvE.st_Ricci_down3 = st_Ricci_down3__dflt exEnvE
    ∧ ∀ a b, einstein (ricciDown (gup4 exEnvE) ((jetCOf exEnvE exT).riem4 (gup4 exEnvE)))
        (trace (gup4 exEnvE) (ricciDown (gup4 exEnvE) ((jetCOf exEnvE exT).riem4 (gup4 exEnvE)))) exEnvE.gdown4 a b
          + exEnvE.Lambda * exEnvE.gdown4 a b = exEnvE.kappa * exEnvE.Tdown4 a b := by
  refine ⟨rfl, rfl, fun a b => ?_⟩
  show _ = (2 : ℚ) * ((einstein (ricciDown (gup4 exEnvC) ((jetCOf exEnvC exT).riem4 (gup4 exEnvC)))
        (trace (gup4 exEnvC) (ricciDown (gup4 exEnvC) ((jetCOf exEnvC exT).riem4 (gup4 exEnvC)))) exEnvC.gdown4 a b
        + (1 / 3 : ℚ) * exEnvC.gdown4 a b) / 2)
  rw [mul_div_cancel₀ _ (two_ne_zero)]
  rfl

set_option maxHeartbeats 1000000 in
/-- `s_Riemann_down3_is_textbook`, `leviCivita_of_code`: the hypotheses (`MetricOK`, `CurvRules`, `s_Riemann_down3` and
`s_Riemann_uddd3` produced by the code) are those of property C05 (non-trivial instance with a non-zero operator: Props/C05b.lean
`exR`); here they are checked at `exEnvC` (zero operator: the code's connection and 3-curvature vanish, as cached). -/
example : C05L.MetricOK exEnvC ∧ exEnvC.s_Riemann_down3 = s_Riemann_down3 exEnvC
    ∧ exEnvC.s_Riemann_uddd3 = s_Riemann_uddd3 exEnvC ∧ C05L.CurvRules exEnvC ∧ Sym exEnvC.Kdown3 := by
  refine ⟨⟨?_, ?_, ?_, ?_⟩, ?_, ?_, ⟨?_, ?_, ?_⟩, ?_⟩
  · cases3 <;> cases3 <;> (simp only [exEnvC, exEnvC0, exEnv, C08.exEnv, core_unfold])
  · cases3 <;> cases3 <;> (simp only [exEnvC, exEnvC0, exEnv, C08.exEnv, core_unfold])
  · cases3 <;> cases3 <;>
      (simp only [exEnvC, exEnvC0, exEnv, C08.exEnv, core_unfold, Fin.sum_univ_three]; simp [delta]; try norm_num)
  · funext l i j; revert l i j
    cases3 <;> cases3 <;> cases3 <;> (simp only [exEnvC, exEnvC0, exEnv, C08.exEnv, Env.zero, core_unfold]; norm_num)
  · funext a b c d; revert a b c d
    cases3 <;> cases3 <;> cases3 <;> cases3 <;>
      (simp only [exEnvC, exEnvC0, exEnv, C08.exEnv, Env.zero, core_unfold]; norm_num)
  · funext a b c d; revert a b c d
    cases3 <;> cases3 <;> cases3 <;> cases3 <;>
      (simp only [exEnvC, exEnvC0, exEnv, C08.exEnv, Env.zero, core_unfold]; norm_num)
  · intro c i b d; simp [exEnvC, exEnvC0, exEnv, C08.exEnv, Env.zero]
  · intro c i b d; simp [exEnvC, exEnvC0, exEnv, C08.exEnv, Env.zero]
  · intro c k i j; rfl
  · cases3 <;> cases3 <;> (simp only [exEnvC, exEnvC0, exEnv, C08.exEnv, core_unfold])

end AurelVerif.C04
