/-
Props/C17Pert.lean — property theorems for C17, part 4: ICPertFLRW (first-order perturbed FLRW initial data) is what
it claims to be AT FIRST ORDER.  ONLY statements and non-vacuity examples; proofs in Lemmas/C17PertFLRW.lean,
Lemmas/C17PertInst.lean; the constraints are the textbook definitions of Spec/Constraints3.lean (over any commutative
ℝ-algebra; for `ℝ` they are those of Spec/ADM.lean / Spec/Jet4.lean).

Reading the statements.
  * `sol` is any background: functions `H = sol.Hprop`, `Om = sol.Omega_m`, `a = sol.a`, `f = sol.fL`, `rho = sol.rho`
    and constants `κ`, `Λ`.  The only facts used are, at the time `t`: `a, H, F := f + (3/2)Ω_m ≠ 0`,
    `κ ρ = 3 Ω_m H²` (definition of `Ω_m`) and Friedmann's equation `3H² = κρ + Λ`.  Both bundled backgrounds (EdS, LCDM)
    satisfy them for all `t > 0` (`ICPertFLRW_constraints_EdS`, `…_LCDM`).
  * `R : RcJet` are the jet symbols of the curvature perturbation at the point: `R n₁ n₂ n₃ = ∂_x^{n₁}∂_y^{n₂}∂_z^{n₃} Rc`,
    arbitrary reals (the `fd.d3x(fd.d3y(Rc))` of the module are `R 1 1 0` etc.: exact derivatives in place of finite
    differences); `gam`, `Kd`, `del` are the module's GENERATED `gammadown3`, `Kdown3`, `delta1` evaluated on them.
  * ε is the formal small parameter of `Rc → ε Rc`.  The data are exactly affine in ε (`ICPertFLRW_data_affine`) and
    their spatial derivatives are the same formulas on the shifted jets (`ICPertFLRW_spatial_derivatives`, Mathlib
    `HasDerivAt`); `pertJet` collects `γ(ε), γ(ε)^{-1}, ∂γ(ε), ∂∂γ(ε), K(ε), ∂K(ε)` as dual numbers `x₀ + ε x₁ ∈ ℝ[ε]/(ε²)`
    (Mathlib `DualNumber ℝ`), `pertRho = ρ_bg (1 + ε δ₁)`, momentum density `S_i = 0` (dust at rest, synchronous comoving gauge).
    An equation in `DualNumber ℝ` is the pair of its zeroth- and first-order parts: it "holds up to O(ε²)".

PROVEN
  `ICPertFLRW_constraints_first_order` : `gi` is the inverse metric, the Hamiltonian constraint `R + K² − K_ijK^ij = 2κρ + 2Λ`
     and the three momentum constraints `D_jK^j_i − D_iK = 0` hold up to O(ε²), for EVERY background as above — in
     particular also for LCDM with the growth-index approximation `f = Ω_m^{6/11}`: the constraints do not depend on it,
     because `Kdown3`, `delta1` and `gammadown3` use the same `f` consistently (`F = f + (3/2)Ω_m`).
  `ICPertFLRW_metric_rate` : `∂_tγ_ij = −2K_ij + 2[(2+f)/(FH) − d/dt(1/(FH²))] ∂_i∂_jRc` exactly, so `K_ij = −½∂_tγ_ij`
     iff the background satisfies the growth relation `d/dt[1/(FH²)] = (2+f)/(FH)` (i.e. `f = d ln D/d ln a` for the growth
     factor `D ∝ 1/(a²FH²)`); `EdS_growth_relation`: EdS (`a ∝ t^{2/3}`, `f = 1`, `F = 5/2`) satisfies it exactly, whence
     `K_is_metric_rate_ICPertFLRW_EdS` (Props/C17.lean) .
NOT PROVEN: the growth relation for LCDM — there the module uses the approximation `f ≈ Ω_m^{6/11}` (it is the hypothesis
  `hD` of `ICPertFLRW_K_is_metric_rate_of_growth`; the sentinel reports its numerical residual); second and higher order in ε
  (the data are not meant to satisfy the constraints beyond first order); that `fd.d3x` approximates `∂_x` is property C07.
-/
import AurelVerif.Lemmas.C17PertInst

namespace AurelVerif.C17
open AurelVerif.Gen.Solutions AurelVerif.SolutionsLemmas AurelVerif.Spec.Constraints3 AurelVerif.C17Pert AurelVerif.C17Ein
open TrivSqZeroExt

/-- the first-order constraints, general background. -/
theorem ICPertFLRW_constraints_first_order (H Om a f rho : ℝ → ℝ) (κ Λ t : ℝ) (R : RcJet)
    (ha : a t ≠ 0) (hH : H t ≠ 0) (hF : f t + 3 / 2 * Om t ≠ 0)
    (hρ : κ * rho t = 3 * Om t * H t ^ 2) (hFr : 3 * H t ^ 2 = κ * rho t + Λ) :
    (pertJet H Om a f t R).IsInverse ∧
    (pertJet H Om a f t R).hamiltonian (inl κ) (pertRho H Om a f rho t R) (inl Λ) = 0 ∧
    ∀ i, (pertJet H Om a f t R).momentum (inl κ) 0 i = 0 :=
  ⟨pert_isInverse H Om a f t R ha, pert_hamiltonian H Om a f rho κ Λ t R ha hH hF hρ hFr,
    pert_momentum H Om a f κ t R ha hH hF⟩

/-- `sol = EdS`, all `t > 0`, every jet of `Rc`. -/
theorem ICPertFLRW_constraints_EdS (t : ℝ) (ht : 0 < t) (R : RcJet) :
    (pertJet EdS.Hprop EdS.Omega_m EdS.a EdS.fL t R).IsInverse ∧
    (pertJet EdS.Hprop EdS.Omega_m EdS.a EdS.fL t R).hamiltonian (inl EdS.kappa)
      (pertRho EdS.Hprop EdS.Omega_m EdS.a EdS.fL EdS.rho t R) (inl EdS.Lambda) = 0 ∧
    ∀ i, (pertJet EdS.Hprop EdS.Omega_m EdS.a EdS.fL t R).momentum (inl EdS.kappa) 0 i = 0 :=
  ICPertFLRW_constraints_first_order _ _ _ _ _ _ _ t R (EdS_a_pos t ht).ne' (EdS_H_ne t ht) (EdS_F_ne t)
    (EdS_kappa_rho t) (EdS_friedmann t)

/-- `sol = LCDM` (with its growth-index approximation `fL = Ω_m^{6/11}`), all `t > 0`, every jet of `Rc`. -/
theorem ICPertFLRW_constraints_LCDM (t : ℝ) (ht : 0 < t) (R : RcJet) :
    (pertJet LCDM.Hprop LCDM.Omega_m LCDM.a_num LCDM.fL t R).IsInverse ∧
    (pertJet LCDM.Hprop LCDM.Omega_m LCDM.a_num LCDM.fL t R).hamiltonian (inl LCDM.kappa)
      (pertRho LCDM.Hprop LCDM.Omega_m LCDM.a_num LCDM.fL LCDM.rho t R) (inl LCDM.Lambda) = 0 ∧
    ∀ i, (pertJet LCDM.Hprop LCDM.Omega_m LCDM.a_num LCDM.fL t R).momentum (inl LCDM.kappa) 0 i = 0 :=
  ICPertFLRW_constraints_first_order _ _ _ _ _ _ _ t R (LCDM_a_pos t ht).ne' (LCDM_H_pos t ht).ne' (LCDM_F_ne t ht)
    (LCDM_kappa_rho t) (LCDM_friedmann t ht)

/-- what the dual-number jet stands for, 1: with `Rc → e·Rc` (real `e`) the module's `gammadown3`, `Kdown3` are exactly
affine and `delta1` exactly linear in `e`; the coefficients are the two parts of `pertJet.g`, `pertJet.K`, `pertRho`. -/
theorem ICPertFLRW_data_affine (H Om a f : ℝ → ℝ) (t : ℝ) (R : RcJet) (e : ℝ) :
    (∀ i j, gam H Om a f t (fun n1 n2 n3 => e * R n1 n2 n3) i j
        = ((pertJet H Om a f t R).g i j).fst + e * ((pertJet H Om a f t R).g i j).snd) ∧
    (∀ i j, Kd H Om a f t (fun n1 n2 n3 => e * R n1 n2 n3) i j
        = ((pertJet H Om a f t R).K i j).fst + e * ((pertJet H Om a f t R).K i j).snd) ∧
    del H Om a f t (fun n1 n2 n3 => e * R n1 n2 n3) = e * del H Om a f t R :=
  ⟨fun i j => by simpa [pertJet] using gam_affine H Om a f t R e i j,
    fun i j => by simpa [pertJet] using Kd_affine H Om a f t R e i j, del_linear H Om a f t R e⟩

/-- what the dual-number jet stands for, 2: along a coordinate line `x_k = s` on which every jet symbol of `Rc` is
differentiable with derivative the next jet symbol, the derivatives of the module's `γ_ij`, `K_ij` are the first-order
parts stored in `pertJet.dg k`, `pertJet.dK k` (and, applied to the shifted jet, `pertJet.ddg c k`). -/
theorem ICPertFLRW_spatial_derivatives (H Om a f : ℝ → ℝ) (t : ℝ) (k : Fin 3) (Rs : ℝ → RcJet) (s0 : ℝ)
    (hR : ∀ n1 n2 n3, HasDerivAt (fun s => Rs s n1 n2 n3) (shift k (Rs s0) n1 n2 n3) s0) (i j : Fin 3) :
    HasDerivAt (fun s => gam H Om a f t (Rs s) i j) ((pertJet H Om a f t (Rs s0)).dg k i j).snd s0 ∧
    HasDerivAt (fun s => Kd H Om a f t (Rs s) i j) ((pertJet H Om a f t (Rs s0)).dK k i j).snd s0 ∧
    (∀ c, ((pertJet H Om a f t (Rs s0)).ddg c k i j).snd = ((pertJet H Om a f t (shift k (Rs s0))).dg c i j).snd) ∧
    ((pertJet H Om a f t (Rs s0)).dg k i j).fst = 0 ∧ ((pertJet H Om a f t (Rs s0)).dK k i j).fst = 0 :=
  ⟨by simpa [pertJet] using gam_hasDerivAt H Om a f t k Rs s0 hR i j,
    by simpa [pertJet] using Kd_hasDerivAt H Om a f t k Rs s0 hR i j,
    fun c => by simp [pertJet], by simp [pertJet], by simp [pertJet]⟩

/-- rate of change of the perturbed metric for a general background (`d2 R i j = ∂_i∂_jRc`). -/
theorem ICPertFLRW_metric_rate (H Om a f : ℝ → ℝ) (t : ℝ) (R : RcJet) (D' : ℝ) (ha : HasDerivAt a (a t * H t) t)
    (hD : HasDerivAt (fun s => 1 / ((f s + 3 / 2 * Om s) * H s ^ 2)) D' t) (i j : Fin 3) :
    HasDerivAt (fun s => gam H Om a f s R i j)
      (-2 * (1:ℝ) * Kd H Om a f t R i j
        + 2 * ((2 + f t) * (1 / ((f t + 3 / 2 * Om t) * H t)) - D') * d2 R i j) t :=
  pert_metric_rate H Om a f t R D' ha hD i j

/-- `K_ij = −½∂_tγ_ij` for every background satisfying the growth relation (hypothesis `hD`). -/
theorem ICPertFLRW_K_is_metric_rate_of_growth (H Om a f : ℝ → ℝ) (t : ℝ) (R : RcJet)
    (ha : HasDerivAt a (a t * H t) t)
    (hD : HasDerivAt (fun s => 1 / ((f s + 3 / 2 * Om s) * H s ^ 2))
      ((2 + f t) * (1 / ((f t + 3 / 2 * Om t) * H t))) t) (i j : Fin 3) :
    HasDerivAt (fun s => gam H Om a f s R i j) (-2 * (1:ℝ) * Kd H Om a f t R i j) t :=
  pert_K_is_metric_rate_of_growth H Om a f t R ha hD i j

/-- EdS satisfies the growth relation exactly, for all `t > 0`. -/
theorem EdS_growth_relation (t : ℝ) (ht : 0 < t) :
    HasDerivAt (fun s => 1 / ((EdS.fL s + 3 / 2 * EdS.Omega_m s) * EdS.Hprop s ^ 2))
      ((2 + EdS.fL t) * (1 / ((EdS.fL t + 3 / 2 * EdS.Omega_m t) * EdS.Hprop t))) t :=
  AurelVerif.C17Pert.EdS_growth_relation t ht

/-! Non-vacuity.  The hypotheses of `ICPertFLRW_constraints_first_order` are satisfied by EdS and LCDM (the two theorems
above); those of `ICPertFLRW_K_is_metric_rate_of_growth` by EdS: -/
example (t : ℝ) (ht : 0 < t) (R : RcJet) (i j : Fin 3) :
    HasDerivAt (fun s => gam EdS.Hprop EdS.Omega_m EdS.a EdS.fL s R i j)
      (-2 * (1:ℝ) * Kd EdS.Hprop EdS.Omega_m EdS.a EdS.fL t R i j) t :=
  ICPertFLRW_K_is_metric_rate_of_growth _ _ _ _ t R (EdS_a_deriv t ht) (EdS_growth_relation t ht) i j
/-- a jet along a coordinate line as in `ICPertFLRW_spatial_derivatives`: `Rc = s` along `x` (first derivative 1). -/
example : ∀ n1 n2 n3, HasDerivAt (fun s : ℝ => (fun a b c => if a = 0 ∧ b = 0 ∧ c = 0 then s else
      if a = 1 ∧ b = 0 ∧ c = 0 then (1:ℝ) else 0 : RcJet) n1 n2 n3)
    (shift 0 (fun a b c => if a = 0 ∧ b = 0 ∧ c = 0 then (0:ℝ) else if a = 1 ∧ b = 0 ∧ c = 0 then (1:ℝ) else 0) n1 n2 n3) 0 := by
  intro n1 n2 n3
  by_cases h : n1 = 0 ∧ n2 = 0 ∧ n3 = 0
  · obtain ⟨rfl, rfl, rfl⟩ := h
    simpa using hasDerivAt_id' (0:ℝ)
  · have h1 : ¬ (n1 + 1 = 0 ∧ n2 = 0 ∧ n3 = 0) := by omega
    have h2 : ¬ (n1 + 1 = 1 ∧ n2 = 0 ∧ n3 = 0) := by omega
    simp only [shift_zero, h, h1, h2, if_false]
    exact hasDerivAt_const _ _
/-- the first-order part is not trivially zero: with `∂_x∂_xRc = 1` the density contrast `δ₁` of EdS at `t = 1` is positive. -/
example : 0 < del EdS.Hprop EdS.Omega_m EdS.a EdS.fL 1 (fun a b c => if a = 2 ∧ b = 0 ∧ c = 0 then 1 else 0) := by
  have ha := EdS_a_pos 1 one_pos
  have hH : 0 < EdS.Hprop 1 := by
    have h0 := EdS_H0_pos
    have htt := EdS_ttoday_pos
    unfold EdS.Hprop; positivity
  have hF := EdS_F 1
  unfold del ICPertFLRW.delta1
  rw [hF]
  norm_num
  positivity

end AurelVerif.C17
