/-
Props/C18b.lean — C18, the `.par` parser of `parameters()` (anchor "rx_key /
rx_h5file / rx_checkpoint and parameters() .par parser").  ONLY property
statements, kernel-checked witnesses and non-vacuity examples; proofs in
Lemmas/C18Par.lean; model Model/ParFile.lean (hand-written, literal after
reading.py 686-746; tied to the code by the `par` correspondence of
tools/props/C18.py).

NOT covered: float values (modelled and compared with the code, no theorem),
`ActiveThorns` lines (modelled, no theorem), the grid quantities computed after
parsing, the lookup of the file through SIMLOC.
-/
import AurelVerif.Lemmas.C18Par

namespace AurelVerif.C18
open AurelVerif.Catalog AurelVerif.ParFile AurelVerif.ParLemmas

/-- **One line of a parameter file is read back as written.**  The line
`<ws>thorn<ws>::<ws>variable<ws>=<ws>value<ws>` (any white space `ws`) stores
`value` under `variable` (under `thorn::variable` for the five names several
thorns share) and records the thorn, for
* every thorn name without ':' (any other character, also '=') and every
  variable name without '=' (any other character, also "::"), both without
  white space at their ends;
* every integer written in decimal, every quoted string without a double
  quote inside (it may contain `=`, `::`, white space), every bare word
  without a double quote that is not number-like (`ValText`);
* provided the word `ActiveThorns` does not occur in the line (see
  `par_activethorns_piece_raises`). -/
theorem par_line_roundtrip (st : PState) (P : Pads) (hP : P.OK) (thorn vname vt : Str) (v : PVal)
    (ht1 : ':' ∉ thorn) (ht2 : Trimmed thorn) (hv1 : '=' ∉ vname) (hv2 : Trimmed vname) (hval : ValText v vt)
    (hact : isInfix sActive (lineText P thorn vname vt) = false) :
    parLine st (lineText P thorn vname vt) =
      .ok { dict := dset st.dict (parKey thorn vname) v, thorns := st.thorns ++ [thorn] } :=
  parLine_entry st P hP thorn vname vt v ht1 ht2 hv1 hv2 hval hact

/-- **A whole parameter file.**  For every non-empty list of lines — entries as
above, each optionally followed by a `#comment`, and empty / white-space /
comment-only lines — whose thorn, variable and value texts contain no line
break and no '#': parsing the file gives exactly the dictionary obtained by
storing the entries in file order on top of the initial dictionary (a later
entry with the same key overwrites, keeping the position), and the list of
their thorns in file order. -/
theorem par_file_roundtrip (init : List (Str × PVal)) (items : List Item) (hne : items ≠ [])
    (hok : ∀ it ∈ items, it.OK) :
    parseParText init (joinSep ['\n'] (items.map Item.text)) =
      .ok (items.foldl Item.apply { dict := init, thorns := [] }) :=
  parse_items init items hne hok

/-- The two re-joining loops of the parser (`linerest += '::' + li`,
`value += '=' + li`) restore the text they were split from, for every text and
every non-empty separator; every piece of a split occurs in the text. -/
theorem par_split_rejoin (sep s : Str) (hne : sep ≠ []) :
    joinSep sep (split sep s) = s ∧ ∀ p ∈ split sep s, isInfix p s = true :=
  ⟨join_split sep s hne, fun _ hp => mem_split_isInfix hne hp⟩

/-! ### the hypotheses are necessary (kernel-checked on the model; the same
inputs are run on the real code by the `par` correspondence) -/

def s (x : String) : Str := x.toList

/-- a # inside a quoted string starts a comment: `A::s = "x # y"` stores `x`. -/
theorem par_hash_inside_quotes_truncates :
    parseParText [] (s "A::s = \"x # y\"") = .ok { dict := [(s "s", .str (s "x"))], thorns := [s "A"] } := by
  decide +kernel

/-- a negative number with a negative exponent is kept as a string (only ONE
'-' is removed by the number test) -/
theorem par_negative_float_is_string :
    formatValue (s "-1.5e-3") = .ok (.str (s "-1.5e-3")) ∧ formatValue (s "1.5e-3") = .ok (.float 15 (-4)) := by
  decide +kernel

/-- a piece of the line equal to `ActiveThorns` (the thorn itself, or a part of
a quoted value between two "::") makes `re.split('"', line)` raise TypeError,
because `line` has been rebound to the list of pieces -/
theorem par_activethorns_piece_raises :
    parLine { dict := [], thorns := [] } (s "ActiveThorns::x = 1") = .error .typeError ∧
    parLine { dict := [], thorns := [] } (s "A::x = \"a::ActiveThorns::b\"") = .error .typeError := by
  decide +kernel

/-- '=' before the first "::" : IndexError -/
theorem par_equals_before_colons_raises :
    parLine { dict := [], thorns := [] } (s "x = 1 :: y") = .error .indexError := by
  decide +kernel

/-! ### non-vacuity -/

theorem trimmed_of_b (v : Str)
    (h : (match v.head? with | some c => !isWs c | none => true) = true ∧
         (match v.getLast? with | some c => !isWs c | none => true) = true) : Trimmed v := by
  refine ⟨fun c hc => ?_, fun c hc => ?_⟩
  · have := h.1; rw [hc] at this; simpa using this
  · have := h.2; rw [hc] at this; simpa using this

theorem padOK_of_b (p : Str) (h : p.all (fun c => isWs c && c != '\n' && c != '\r') = true) : PadOK p := by
  intro c hc
  have := List.all_eq_true.mp h c hc
  simp only [Bool.and_eq_true, bne_iff_ne, ne_eq] at this
  exact ⟨this.1.1, this.1.2, this.2⟩

def exPads : Pads := ⟨s "  ", s " ", [], s "\t", s " ", s "  "⟩

/-- `  IOHDF5 ::out_every	= 128  # every 128`, a string with '=' and "::"
inside, a keyword, a negative integer, a comment line and the final newline -/
def exItems : List Item :=
  [.entry exPads (s "IOHDF5") (s "out_every") (s "128") (.int 128) (some (s " every 128")),
   .note (s " ") (some (s " a::b = c")),
   .entry noPads (s "IO") (s "out_dir") (s "\"$parfile=x::y\"") (.str (s "$parfile=x::y")) none,
   .entry noPads (s "Carpet") (s "verbose") (s "no") (.str (s "no")) none,
   .entry noPads (s "A b") (s "x::y") (s "-12") (.int (-12)) none,
   .note [] none]

theorem exItems_ok : ∀ it ∈ exItems, it.OK := by
  have nb : ∀ c : Str, ('\n' ∉ c ∧ '\r' ∉ c) → NoBreak c := fun _ h => h
  intro it hit
  simp only [exItems, List.mem_cons, List.not_mem_nil, or_false] at hit
  rcases hit with rfl | rfl | rfl | rfl | rfl | rfl
  · refine ⟨⟨padOK_of_b _ (by decide), padOK_of_b _ (by decide), padOK_of_b _ (by decide), padOK_of_b _ (by decide),
      padOK_of_b _ (by decide), padOK_of_b _ (by decide)⟩, by decide, trimmed_of_b _ (by decide), by decide,
      trimmed_of_b _ (by decide), ValText.int 128, by decide +kernel, nb _ (by decide), nb _ (by decide),
      nb _ (by decide), by decide, by decide, by decide, ?_⟩
    intro c hc; injection hc with hc; subst hc; exact nb _ (by decide)
  · exact ⟨padOK_of_b _ (by decide), fun c hc => by injection hc with hc; subst hc; exact nb _ (by decide)⟩
  · refine ⟨⟨padOK_of_b _ (by decide), padOK_of_b _ (by decide), padOK_of_b _ (by decide), padOK_of_b _ (by decide),
      padOK_of_b _ (by decide), padOK_of_b _ (by decide)⟩, by decide, trimmed_of_b _ (by decide), by decide,
      trimmed_of_b _ (by decide), ValText.quoted (s "$parfile=x::y") (by decide), by decide +kernel, nb _ (by decide),
      nb _ (by decide), nb _ (by decide), by decide, by decide, by decide, fun c hc => by cases hc⟩
  · refine ⟨⟨padOK_of_b _ (by decide), padOK_of_b _ (by decide), padOK_of_b _ (by decide), padOK_of_b _ (by decide),
      padOK_of_b _ (by decide), padOK_of_b _ (by decide)⟩, by decide, trimmed_of_b _ (by decide), by decide,
      trimmed_of_b _ (by decide),
      ValText.word (s "no") (by decide) (trimmed_of_b _ (by decide)) 'n' (by decide) (by decide) (by decide) (by decide)
        (by decide) (by decide),
      by decide +kernel, nb _ (by decide), nb _ (by decide), nb _ (by decide), by decide, by decide, by decide,
      fun c hc => by cases hc⟩
  · refine ⟨⟨padOK_of_b _ (by decide), padOK_of_b _ (by decide), padOK_of_b _ (by decide), padOK_of_b _ (by decide),
      padOK_of_b _ (by decide), padOK_of_b _ (by decide)⟩, by decide, trimmed_of_b _ (by decide), by decide,
      trimmed_of_b _ (by decide), ValText.int (-12), by decide +kernel, nb _ (by decide), nb _ (by decide),
      nb _ (by decide), by decide, by decide, by decide, fun c hc => by cases hc⟩
  · exact ⟨padOK_of_b _ (by decide), fun c hc => by cases hc⟩

/-- the theorem applied to `exItems`, and the same result computed by the kernel -/
example : parseParText [] (joinSep ['\n'] (exItems.map Item.text)) =
    .ok { dict := [(s "IOHDF5::out_every", .int 128), (s "out_dir", .str (s "$parfile=x::y")),
                   (s "Carpet::verbose", .str (s "no")), (s "x::y", .int (-12))],
          thorns := [s "IOHDF5", s "IO", s "Carpet", s "A b"] } := by
  rw [par_file_roundtrip [] exItems (by decide) exItems_ok]
  decide +kernel

example : joinSep ['\n'] (exItems.map Item.text) =
    s "  IOHDF5 ::out_every\t= 128  # every 128\n # a::b = c\nIO::out_dir = \"$parfile=x::y\"\nCarpet::verbose = no\nA b::x::y = -12\n" := by
  decide +kernel

end AurelVerif.C18
