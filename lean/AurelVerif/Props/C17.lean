/-
Props/C17.lean — property theorems for C17 (bundled analytic spacetimes are
what they claim to be).  ONLY statements and non-vacuity examples; proofs are
in Lemmas/Solutions.lean.  Model: Gen/Solutions.lean, regenerated from
src/aurel/solutions/*.py on every run (tools/py2lean/solutions.py) and
validated against the real functions at random points (tools/props/C17.py).

Reading the statements: `X.f_num` / `X.f_sym` are the `analytical=False` /
`analytical=True` branches of function `f` of module `X`; array-valued
functions are `Fin n → Fin n → ℝ`; `t x y z : ℝ` is one grid point (grid
arrays act pointwise).  `maths.safe_division` and Python `/` are both Lean's
`/`; each theorem carries the domain condition that keeps divisors non-zero.
Module constants are the symbolic definitions of the source
(`t_today = 2/(3·Hprop_today·(1+w))`, `h = 6737/10000`, `kappa = 8π`, ...);
float rounding of these constants is outside the model.

COVERED BY THEOREMS
  T1 numeric = symbolic branch: LCDM (a, gammadown3), Conformally_flat
     (gammadown3, gdown4), Schwarzschild_isotropic (alpha, gammadown3, gdown4),
     Harvey_Tsoubelis, Collins_Stewart, Rosquist_Jantzen (gammadown3, gdown4),
     Non_diagonal (A, gammadown3, gdown4), Szekeres (Z_terms, gammadown3,
     gdown4; `sc.hyp2f1(a,b,c,·)` and `sp.hyper([a,b],[c],·)` are the same
     opaque function).
  T2 ∂_t γ_ij = −2 α K_ij, all nine components, zero shift: EdS, LCDM (with
     ȧ = a·Hprop proven from the modules' own a(t), Hprop(t)), Conformally_flat,
     Schwarzschild_isotropic (static, K = 0), Harvey_Tsoubelis, Collins_Stewart,
     Non_diagonal, Rosquist_Jantzen (t > 0 where a power or log of t occurs);
     Szekeres: the eight components other than zz unconditionally (they are
     LCDM's), zz under the explicit hypotheses that `integrated_part` is an
     antiderivative of `part_to_integrate` (hypergeometric identity, not in
     Mathlib) and Z ≠ 0; ICPertFLRW on the EdS background for arbitrary values
     of the second derivatives of Rc, and its background limit (EdS, LCDM).
     Lapse −g_tt = α² and zero shift are read off each module's own gdown4.
  T3 EdS and LCDM: Friedmann equation 3H² = κρ + Λ; EdS: ρ̇ = −3H(ρ+p).
     Conformally_flat / Non_diagonal: dxOmega, dxdxOmega / dzA, dzdzA are the
     derivatives of Omega / A (inputs of their Tdown4).

  T4 (Props/C17Einstein.lean, part 2) Einstein's equations G + Λg = κT, all ten components, for EdS, LCDM,
     Conformally_flat, Schwarzschild_isotropic (vacuum, + its Kretschmann closed form), Harvey_Tsoubelis
     (vacuum), Collins_Stewart, Rosquist_Jantzen, Non_diagonal, Szekeres (derivative property of the jet under the
     hypothesis of T2-zz); Schwarzschild null_ray_exp_out = divergence of the unit normal of the spheres.

  T5 (Props/C17Hyp.lean, part 3) the hypergeometric antiderivative used by Szekeres IS PROVEN (Mathlib's Gauss series on
     its disc; its Pfaff continuation on the whole negative axis; the two coincide on the disc), hence T2-zz and
     T4-Szekeres without hypothesis: `K_is_metric_rate_Szekeres`, `einstein_Szekeres`.
  T6 (Props/C17Pert.lean, part 4) ICPertFLRW at first order (dual numbers): Hamiltonian and momentum constraints up to
     O(ε²) for every background (EdS, LCDM instantiated); `∂_tγ_ij = −2K_ij + 2[(2+f)/(FH) − d/dt(1/(FH²))]∂_i∂_jRc`.

NOT COVERED BY A THEOREM — numerical sentinel only (tools/props/C17.py)
  * That scipy.special.hyp2f1 / sympy.hyper compute the function of T5.
  * ICPertFLRW on LCDM: `K = −½∂_tγ` needs the growth relation, which `fL = Ω_m^{6/11}` satisfies only approximately
    (hypothesis of `ICPertFLRW_K_is_metric_rate_of_growth`); second order in ε.
-/
import AurelVerif.Lemmas.Solutions

namespace AurelVerif.C17
open AurelVerif.Gen.Solutions AurelVerif.SolutionsLemmas

/-! ### T1 — the two branches of `analytical=` denote the same function -/

theorem numeric_eq_symbolic_LCDM (t x y z : ℝ) :
    LCDM.a_num t = LCDM.a_sym t ∧ LCDM.gammadown3_num t x y z = LCDM.gammadown3_sym t x y z :=
  ⟨LCDM_a_num_eq_sym t, LCDM_gammadown3_num_eq_sym t x y z⟩

theorem numeric_eq_symbolic_Conformally_flat (t x y z : ℝ) :
    Conformally_flat.gammadown3_num t x y z = Conformally_flat.gammadown3_sym t x y z ∧
    Conformally_flat.gdown4_num t x y z = Conformally_flat.gdown4_sym t x y z :=
  ⟨Conformally_flat_gammadown3_num_eq_sym t x y z, Conformally_flat_gdown4_num_eq_sym t x y z⟩

theorem numeric_eq_symbolic_Schwarzschild (t x y z : ℝ) :
    Schwarzschild_isotropic.alpha_num t x y z = Schwarzschild_isotropic.alpha_sym t x y z ∧
    Schwarzschild_isotropic.gammadown3_num t x y z = Schwarzschild_isotropic.gammadown3_sym t x y z ∧
    Schwarzschild_isotropic.gdown4_num t x y z = Schwarzschild_isotropic.gdown4_sym t x y z :=
  ⟨Schwarzschild_alpha_num_eq_sym t x y z, Schwarzschild_gammadown3_num_eq_sym t x y z,
    Schwarzschild_gdown4_num_eq_sym t x y z⟩

theorem numeric_eq_symbolic_Harvey_Tsoubelis (t x y z : ℝ) :
    Harvey_Tsoubelis.gammadown3_num t x y z = Harvey_Tsoubelis.gammadown3_sym t x y z ∧
    Harvey_Tsoubelis.gdown4_num t x y z = Harvey_Tsoubelis.gdown4_sym t x y z :=
  ⟨Harvey_Tsoubelis_gammadown3_num_eq_sym t x y z, Harvey_Tsoubelis_gdown4_num_eq_sym t x y z⟩

theorem numeric_eq_symbolic_Collins_Stewart (t x y z : ℝ) :
    Collins_Stewart.gammadown3_num t x y z = Collins_Stewart.gammadown3_sym t x y z ∧
    Collins_Stewart.gdown4_num t x y z = Collins_Stewart.gdown4_sym t x y z :=
  ⟨Collins_Stewart_gammadown3_num_eq_sym t x y z, Collins_Stewart_gdown4_num_eq_sym t x y z⟩

theorem numeric_eq_symbolic_Non_diagonal (t x y z : ℝ) :
    Non_diagonal.A_num z = Non_diagonal.A_sym z ∧
    Non_diagonal.gammadown3_num t x y z = Non_diagonal.gammadown3_sym t x y z ∧
    Non_diagonal.gdown4_num t x y z = Non_diagonal.gdown4_sym t x y z :=
  ⟨Non_diagonal_A_num_eq_sym z, Non_diagonal_gammadown3_num_eq_sym t x y z,
    Non_diagonal_gdown4_num_eq_sym t x y z⟩

theorem numeric_eq_symbolic_Rosquist_Jantzen (t x y z : ℝ) :
    Rosquist_Jantzen.gammadown3_num t x y z = Rosquist_Jantzen.gammadown3_sym t x y z ∧
    Rosquist_Jantzen.gdown4_num t x y z = Rosquist_Jantzen.gdown4_sym t x y z :=
  ⟨Rosquist_Jantzen_gammadown3_num_eq_sym t x y z, Rosquist_Jantzen_gdown4_num_eq_sym t x y z⟩

/-- `hyp2f1` is the opaque Gauss hypergeometric function (`scipy.special.hyp2f1` in the numeric
branch, `sympy.hyper([a,b],[c],·)` in the symbolic one). -/
theorem numeric_eq_symbolic_Szekeres (hyp2f1 : ℝ → ℝ → ℝ → ℝ → ℝ) (t x y z : ℝ) :
    (Szekeres.Z_terms_num_F hyp2f1 t x y z = Szekeres.Z_terms_sym_F hyp2f1 t x y z ∧
      Szekeres.Z_terms_num_Z hyp2f1 t x y z = Szekeres.Z_terms_sym_Z hyp2f1 t x y z ∧
      Szekeres.Z_terms_num_dtZ hyp2f1 t x y z = Szekeres.Z_terms_sym_dtZ hyp2f1 t x y z) ∧
    Szekeres.gammadown3_num hyp2f1 t x y z = Szekeres.gammadown3_sym hyp2f1 t x y z ∧
    Szekeres.gdown4_num hyp2f1 t x y z = Szekeres.gdown4_sym hyp2f1 t x y z :=
  ⟨Szekeres_Z_terms_num_eq_sym hyp2f1 t x y z, Szekeres_gammadown3_num_eq_sym hyp2f1 t x y z,
    Szekeres_gdown4_num_eq_sym hyp2f1 t x y z⟩

/-! ### lapse and shift: each module's 4-metric is `−α² dt² + γ_ij dx^i dx^j` (zero shift) -/

theorem lapse_shift_from_gdown4 (hyp2f1 : ℝ → ℝ → ℝ → ℝ → ℝ) (t x y z : ℝ) :
    Conformally_flat.gdown4_num t x y z
      = fourMetric (Conformally_flat.alpha t x y z) (Conformally_flat.gammadown3_num t x y z) ∧
    Schwarzschild_isotropic.gdown4_num t x y z
      = fourMetric (Schwarzschild_isotropic.alpha_num t x y z) (Schwarzschild_isotropic.gammadown3_num t x y z) ∧
    Harvey_Tsoubelis.gdown4_num t x y z
      = fourMetric (Harvey_Tsoubelis.alpha t x y z) (Harvey_Tsoubelis.gammadown3_num t x y z) ∧
    Collins_Stewart.gdown4_num t x y z = fourMetric 1 (Collins_Stewart.gammadown3_num t x y z) ∧
    Non_diagonal.gdown4_num t x y z = fourMetric 1 (Non_diagonal.gammadown3_num t x y z) ∧
    Rosquist_Jantzen.gdown4_num t x y z = fourMetric 1 (Rosquist_Jantzen.gammadown3_num t x y z) ∧
    Szekeres.gdown4_num hyp2f1 t x y z
      = fourMetric (Szekeres.alpha t x y z) (Szekeres.gammadown3_num hyp2f1 t x y z) :=
  ⟨Conformally_flat_gdown4_is_3p1 t x y z, Schwarzschild_gdown4_is_3p1 t x y z,
    Harvey_Tsoubelis_gdown4_is_3p1 t x y z, Collins_Stewart_gdown4_is_3p1 t x y z,
    Non_diagonal_gdown4_is_3p1 t x y z, Rosquist_Jantzen_gdown4_is_3p1 t x y z,
    Szekeres_gdown4_is_3p1 hyp2f1 t x y z⟩

theorem betaup3_is_zero (t x y z : ℝ) :
    EdS.betaup3 t x y z = 0 ∧ LCDM.betaup3 t x y z = 0 ∧ Schwarzschild_isotropic.betaup3 t x y z = 0 ∧
    Harvey_Tsoubelis.betaup3 t x y z = 0 ∧ Szekeres.betaup3 t x y z = 0 :=
  zero_shift t x y z

/-! ### T2 — `Kdown3` is the rate of change of `gammadown3`: `∂_t γ_ij = −2 α K_ij` (zero shift) -/

/-- EdS: `H = ȧ/a` from the module's own `a(t)`, `Hprop(t)`, `t_today = 2/(3 H₀ (1+w))`. -/
theorem a_dot_EdS (t : ℝ) (ht : 0 < t) :
    HasDerivAt (fun s => EdS.a s) (EdS.a t * EdS.Hprop t) t ∧ 0 < EdS.a t :=
  ⟨EdS_a_deriv t ht, EdS_a_pos t ht⟩

theorem K_is_metric_rate_EdS (t x y z : ℝ) (ht : 0 < t) (i j : Fin 3) :
    HasDerivAt (fun s => EdS.gammadown3 s x y z i j)
      (-2 * EdS.alpha t x y z * EdS.Kdown3 t x y z i j) t :=
  EdS_K_is_metric_rate t x y z ht i j

/-- LCDM: `H = ȧ/a` from `a ∝ sinh^{2/3}(√Ω_Λ t / t_EdS)`, `Hprop = H₀ √(Ω_m/a³ + Ω_Λ)`,
`t_today_EdS = 2/(3H₀)`. -/
theorem a_dot_LCDM (t : ℝ) (ht : 0 < t) :
    HasDerivAt (fun s => LCDM.a_num s) (LCDM.a_num t * LCDM.Hprop t) t ∧ 0 < LCDM.an_today t :=
  ⟨LCDM_a_deriv t ht, LCDM_an_pos t ht⟩

theorem K_is_metric_rate_LCDM (t x y z : ℝ) (ht : 0 < t) (i j : Fin 3) :
    HasDerivAt (fun s => LCDM.gammadown3_num s x y z i j)
      (-2 * LCDM.alpha t x y z * LCDM.Kdown3 t x y z i j) t :=
  LCDM_K_is_metric_rate t x y z ht i j

theorem K_is_metric_rate_Conformally_flat (t x y z : ℝ) (i j : Fin 3) :
    HasDerivAt (fun s => Conformally_flat.gammadown3_num s x y z i j)
      (-2 * Conformally_flat.alpha t x y z * Conformally_flat.Kdown3 t x y z i j) t :=
  Conformally_flat_K_is_metric_rate t x y z i j

theorem K_is_metric_rate_Schwarzschild (t x y z : ℝ) (i j : Fin 3) :
    HasDerivAt (fun s => Schwarzschild_isotropic.gammadown3_num s x y z i j)
      (-2 * Schwarzschild_isotropic.alpha_num t x y z * Schwarzschild_isotropic.Kdown3 t x y z i j) t :=
  Schwarzschild_K_is_metric_rate t x y z i j

theorem K_is_metric_rate_Harvey_Tsoubelis (t x y z : ℝ) (ht : 0 < t) (i j : Fin 3) :
    HasDerivAt (fun s => Harvey_Tsoubelis.gammadown3_num s x y z i j)
      (-2 * Harvey_Tsoubelis.alpha t x y z * Harvey_Tsoubelis.Kdown3 t x y z i j) t :=
  Harvey_Tsoubelis_K_is_metric_rate t x y z ht i j

/-- Collins_Stewart has no `alpha`; its `gdown4` has `g_tt = −1` (`lapse_shift_from_gdown4`). -/
theorem K_is_metric_rate_Collins_Stewart (t x y z : ℝ) (ht : 0 < t) (i j : Fin 3) :
    HasDerivAt (fun s => Collins_Stewart.gammadown3_num s x y z i j)
      (-2 * (1:ℝ) * Collins_Stewart.Kdown3 t x y z i j) t :=
  Collins_Stewart_K_is_metric_rate t x y z ht i j

theorem K_is_metric_rate_Non_diagonal (t x y z : ℝ) (i j : Fin 3) :
    HasDerivAt (fun s => Non_diagonal.gammadown3_num s x y z i j)
      (-2 * (1:ℝ) * Non_diagonal.Kdown3 t x y z i j) t :=
  Non_diagonal_K_is_metric_rate t x y z i j

theorem K_is_metric_rate_Rosquist_Jantzen (t x y z : ℝ) (ht : 0 < t) (i j : Fin 3) :
    HasDerivAt (fun s => Rosquist_Jantzen.gammadown3_num s x y z i j)
      (-2 * (1:ℝ) * Rosquist_Jantzen.Kdown3 t x y z i j) t :=
  Rosquist_Jantzen_K_is_metric_rate t x y z ht i j

/-- Szekeres, every component except `zz`: no hypothesis about the hypergeometric function. -/
theorem K_is_metric_rate_Szekeres_except_zz (hyp2f1 : ℝ → ℝ → ℝ → ℝ → ℝ) (t x y z : ℝ) (ht : 0 < t)
    (i j : Fin 3) (hij : ¬ (i = 2 ∧ j = 2)) :
    HasDerivAt (fun s => Szekeres.gammadown3_num hyp2f1 s x y z i j)
      (-2 * Szekeres.alpha t x y z * Szekeres.Kdown3 hyp2f1 t x y z i j) t :=
  Szekeres_K_is_metric_rate_LCDM_part hyp2f1 t x y z ht i j hij

/-- Szekeres, all components, PARTIAL: under the hypothesis that the module's local
`integrated_part` (`Szekeres_IP`) is an antiderivative in `τ = tauC·t` of its `part_to_integrate`
(`Szekeres_PTI`) — the identity `d/dτ[(3/5) sinh^{5/3}τ ₂F₁(5/6,3/2;11/6;−sinh²τ)] = sinh^{2/3}τ/cosh²τ`,
not available in Mathlib, checked numerically by the sentinel — and `Z ≠ 0`. -/
theorem K_is_metric_rate_Szekeres_partial (hyp2f1 : ℝ → ℝ → ℝ → ℝ → ℝ) (t x y z : ℝ) (ht : 0 < t)
    (hIP : HasDerivAt (Szekeres_IP hyp2f1) (Szekeres_PTI (Szekeres.tauC * t)) (Szekeres.tauC * t))
    (hZ : Szekeres.Z_terms_num_Z hyp2f1 t x y z ≠ 0) (i j : Fin 3) :
    HasDerivAt (fun s => Szekeres.gammadown3_num hyp2f1 s x y z i j)
      (-2 * Szekeres.alpha t x y z * Szekeres.Kdown3 hyp2f1 t x y z i j) t :=
  Szekeres_K_is_metric_rate hyp2f1 t x y z ht hIP hZ i j

/-- the `dtZ` returned by `Szekeres.Z_terms` is `∂_t Z` (same hypothesis). -/
theorem Szekeres_dtZ_is_rate (hyp2f1 : ℝ → ℝ → ℝ → ℝ → ℝ) (t x y z : ℝ) (ht : 0 < t)
    (hIP : HasDerivAt (Szekeres_IP hyp2f1) (Szekeres_PTI (Szekeres.tauC * t)) (Szekeres.tauC * t)) :
    HasDerivAt (fun s => Szekeres.Z_terms_num_Z hyp2f1 s x y z) (Szekeres.Z_terms_num_dtZ hyp2f1 t x y z) t :=
  Szekeres_dtZ hyp2f1 t x y z ht hIP

/-- ICPertFLRW with `sol = EdS`: for arbitrary values of `Rc` and of its second `fd`-derivatives
(opaque reals `dxx … dzz`), `∂_t γ_ij = −2 K_ij` (lapse 1, zero shift: synchronous gauge). -/
theorem K_is_metric_rate_ICPertFLRW_EdS (dxx dxy dxz dyy dyz dzz Rc t : ℝ) (ht : 0 < t) (i j : Fin 3) :
    HasDerivAt (fun s => ICPertFLRW.gammadown3 EdS.Hprop EdS.Omega_m EdS.a EdS.fL dxx dxy dxz dyy dyz dzz s Rc i j)
      (-2 * (1:ℝ) * ICPertFLRW.Kdown3 EdS.Hprop EdS.Omega_m EdS.a EdS.fL dxx dxy dxz dyy dyz dzz t Rc i j) t :=
  ICPertFLRW_EdS_K_is_metric_rate dxx dxy dxz dyy dyz dzz Rc t ht i j

/-- ICPertFLRW background part: without perturbation it returns the background's metric and K. -/
theorem ICPertFLRW_background (t x y z : ℝ) :
    (ICPertFLRW.gammadown3 EdS.Hprop EdS.Omega_m EdS.a EdS.fL 0 0 0 0 0 0 t 0 = EdS.gammadown3 t x y z ∧
      ICPertFLRW.Kdown3 EdS.Hprop EdS.Omega_m EdS.a EdS.fL 0 0 0 0 0 0 t 0 = EdS.Kdown3 t x y z) ∧
    (ICPertFLRW.gammadown3 LCDM.Hprop LCDM.Omega_m LCDM.a_num LCDM.fL 0 0 0 0 0 0 t 0 = LCDM.gammadown3_num t x y z ∧
      ICPertFLRW.Kdown3 LCDM.Hprop LCDM.Omega_m LCDM.a_num LCDM.fL 0 0 0 0 0 0 t 0 = LCDM.Kdown3 t x y z) :=
  ⟨ICPertFLRW_background_EdS t x y z, ICPertFLRW_background_LCDM t x y z⟩

/-! ### T3 — matter, where tractable -/

/-- EdS Friedmann equation `3H² = κρ + Λ` from the module's `Hprop`, `rho`, `kappa`, `Lambda`. -/
theorem friedmann_EdS (t : ℝ) : 3 * EdS.Hprop t ^ 2 = EdS.kappa * EdS.rho t + EdS.Lambda :=
  EdS_friedmann t

/-- EdS energy conservation `ρ̇ = −3H(ρ + p)`; with `friedmann_EdS` and `a_dot_EdS` this is the
`ij` part of Einstein's equations for the flat FLRW metric `−dt² + a² δ_ij`. -/
theorem continuity_EdS (t : ℝ) (ht : 0 < t) :
    HasDerivAt (fun s => EdS.rho s) (-3 * EdS.Hprop t * (EdS.rho t + EdS.press t)) t :=
  EdS_continuity t ht

/-- LCDM Friedmann equation `3H² = κρ + Λ` from `Hprop`, `Omega_m`, `rho`, `Lambda`. -/
theorem friedmann_LCDM (t : ℝ) (ht : 0 < t) :
    3 * LCDM.Hprop t ^ 2 = LCDM.kappa * LCDM.rho t + LCDM.Lambda :=
  LCDM_friedmann t ht

/-- the helper derivatives that enter `Tdown4` of Conformally_flat and Non_diagonal are derivatives. -/
theorem helper_derivatives (x z : ℝ) :
    (HasDerivAt (fun s => Conformally_flat.Omega s) (Conformally_flat.dxOmega x) x ∧
      HasDerivAt (fun s => Conformally_flat.dxOmega s) (Conformally_flat.dxdxOmega x) x) ∧
    (HasDerivAt (fun s => Non_diagonal.A_num s) (Non_diagonal.dzA z) z ∧
      HasDerivAt (fun s => Non_diagonal.dzA s) (Non_diagonal.dzdzA z) z) :=
  ⟨Conformally_flat_dOmega x, Non_diagonal_dA z⟩

/-! Non-vacuity: the only hypotheses are `0 < t` (trivially satisfiable) and, for Szekeres zz,
`hIP` (classical identity, see above) and `Z ≠ 0`, e.g.: -/
example : (0:ℝ) < 1 := one_pos
example : Szekeres.Z_terms_num_Z (fun _ _ _ _ => 0) 1 0 0 0 ≠ 0 := by
  simp [Szekeres.Z_terms_num_Z]
/-- the rates are not trivially zero: EdS `K_xx ≠ 0`. -/
example : EdS.Kdown3 1 0 0 0 0 0 ≠ 0 := by
  have ha := EdS_a_pos 1 one_pos
  have h0 := EdS_H0_pos
  have ht := EdS_ttoday_pos
  have : EdS.Kdown3 1 0 0 0 0 0 = -(EdS.a 1 ^ 2 * 1) * (EdS.Hprop_today * EdS.t_today / 1) := rfl
  rw [this]
  have : 0 < EdS.a 1 ^ 2 * 1 * (EdS.Hprop_today * EdS.t_today / 1) := by positivity
  linarith

end AurelVerif.C17
